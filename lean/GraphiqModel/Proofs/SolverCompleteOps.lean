/-
  Proofs/SolverCompleteOps.lean — `rref` and `canonical_form` (stabilizer.py) only ever multiply two rows that are both
  non-trivial at the current pivot column (`COps`), and such witnessed row operations keep every *literal* column
  (`Lit`: one generator is exactly `+Z_q`, all other generators are trivial at `q`).  All sizes; core Lean only.
-/
import GraphiqModel.Proofs.SolverCompleteDefs
namespace Graphiq
open PRow
namespace STab

/-! ### Pauli types after one `tab_row_sum` -/

/-- `tab_row_sum(a, b)` leaves the Pauli types of every row other than the target `b` alone -/
theorem ptype_rowSum_ne (t : STab) (a b i j : Nat) (h : i ≠ b) : (t.rowSum a b).ptype i j = t.ptype i j := by
  rw [ptype_eq, rowSum_row, if_neg h]; rfl

/-- the target row of `tab_row_sum(a, b)` carries the product of the two Pauli types -/
theorem ptype_rowSum_eq (t : STab) (a b j : Nat) : (t.rowSum a b).ptype b j = pmul (t.ptype a j) (t.ptype b j) := by
  rw [ptype_eq, rowSum_row, if_pos rfl, pt_stabMul]; rfl

/-! ### the elimination loops as witnessed row operations -/

/-- `for i in l: tab_row_sum(a, i)` where row `a` and all rows of the (strictly increasing) list `l` are non-trivial at
    column `pc`: every product is witnessed by `pc` -/
theorem COps.foldl_sum {t0 : STab} (a pc : Nat) (ha : a < t0.n) (hpc : pc < t0.n) (l : List Nat)
    (hs : l.Pairwise (· < ·)) (hl : ∀ i, i ∈ l → i < t0.n ∧ a ≠ i) (t : STab) (hta : t.ptype a pc ≠ 0)
    (hti : ∀ i, i ∈ l → t.ptype i pc ≠ 0) (h : COps t0 t) :
    COps t0 (l.foldl (fun acc i => acc.rowSum a i) t) := by
  induction l generalizing t with
  | nil => exact h
  | cons x rest ih =>
    simp only [List.foldl]
    have hx := hl x List.mem_cons_self
    have hxr : x ∉ rest := sorted_head_notMem hs
    apply ih (sorted_tail hs) (fun i hi => hl i (List.mem_cons_of_mem _ hi))
    · rw [ptype_rowSum_ne t a x a pc hx.2]; exact hta
    · intro i hi
      have hix : i ≠ x := fun e => hxr (e ▸ hi)
      rw [ptype_rowSum_ne t a x i pc hix]; exact hti i (List.mem_cons_of_mem _ hi)
    · exact COps.sum a x pc ha hx.1 hx.2 hpc hta (hti x List.mem_cons_self) h

/-- the loop of the three-Pauli case, `tab_row_sum(a, k); tab_row_sum(a', k)` for the rows `k` carrying `Y` at column `pc`,
    where row `a` carries `X` and row `a'` carries `Z` there: both products are witnessed by `pc` -/
theorem COps.foldl_sum2 {t0 : STab} (a a' pc : Nat) (ha : a < t0.n) (ha' : a' < t0.n) (hpc : pc < t0.n) (l : List Nat)
    (hs : l.Pairwise (· < ·)) (hl : ∀ i, i ∈ l → i < t0.n ∧ a ≠ i ∧ a' ≠ i) (t : STab) (hta : t.ptype a pc = 1)
    (hta' : t.ptype a' pc = 3) (hti : ∀ i, i ∈ l → t.ptype i pc = 2) (h : COps t0 t) :
    COps t0 (l.foldl (fun acc k => (acc.rowSum a k).rowSum a' k) t) := by
  induction l generalizing t with
  | nil => exact h
  | cons x rest ih =>
    simp only [List.foldl]
    have hx := hl x List.mem_cons_self
    have hxr : x ∉ rest := sorted_head_notMem hs
    have hxt := hti x List.mem_cons_self
    apply ih (sorted_tail hs) (fun i hi => hl i (List.mem_cons_of_mem _ hi))
    · rw [ptype_rowSum_ne _ a' x a pc hx.2.1, ptype_rowSum_ne t a x a pc hx.2.1]; exact hta
    · rw [ptype_rowSum_ne _ a' x a' pc hx.2.2, ptype_rowSum_ne t a x a' pc hx.2.2]; exact hta'
    · intro i hi
      have hix : i ≠ x := fun e => hxr (e ▸ hi)
      rw [ptype_rowSum_ne _ a' x i pc hix, ptype_rowSum_ne t a x i pc hix]; exact hti i (List.mem_cons_of_mem _ hi)
    · refine COps.sum a' x pc ha' hx.1 hx.2.2 hpc ?_ ?_
        (COps.sum a x pc ha hx.1 hx.2.1 hpc (by rw [hta]; decide) (by rw [hxt]; decide) h)
      · rw [ptype_rowSum_ne t a x a' pc hx.2.2, hta']; decide
      · rw [ptype_rowSum_eq, hta, hxt]; decide

/-- `_process_one_pauli` on a strictly increasing list of rows `≥ pr` that are non-trivial at column `pc` -/
theorem processOne_cops (t : STab) (pr pc : Nat) (l : List Nat) (hpc : pc < t.n) (hs : l.Pairwise (· < ·))
    (hl : ∀ i, i ∈ l → pr ≤ i ∧ i < t.n ∧ t.ptype i pc ≠ 0) : COps t (t.processOne pr l) := by
  unfold processOne
  cases l with
  | nil => exact COps.refl
  | cons first rest =>
    simp only
    have hf := hl first List.mem_cons_self
    have hlt := sorted_head_lt hs
    have hpr : pr < t.n := by omega
    apply COps.norm
    apply COps.foldl_sum pr pc hpr hpc rest (sorted_tail hs)
    · intro i hi
      have := hl i (List.mem_cons_of_mem _ hi)
      have := hlt i hi
      omega
    · rw [ptype_eq, rowSwap_row, if_pos rfl]; exact hf.2.2
    · intro i hi
      have h1 := hl i (List.mem_cons_of_mem _ hi)
      have h2 := hlt i hi
      rw [ptype_eq, rowSwap_row, if_neg (by omega), if_neg (by omega)]; exact h1.2.2
    · exact COps.swap pr first hpr hf.2.1 COps.refl

/-- `_process_two_pauli` for two different Pauli types: two swaps, then two witnessed elimination loops -/
theorem processTwo_cops (t t' : STab) (pr pc ty1 ty2 : Nat) (hpc : pc < t.n) (hne : tyCode ty1 ≠ tyCode ty2)
    (hr : t.processTwo pr pc ty1 ty2 = some t') : COps t t' := by
  obtain ⟨f1, f2, l1, l2, hf1, hf1n, hf2, hf2n, hp1, ea, eb, rfl⟩ := processTwo_unfold t t' pr pc ty1 ty2 hr
  have o2 : COps t (((t.rowSwap pr f1).norm.rowSwap (pr + 1) f2).norm) :=
    COps.norm (COps.swap (pr + 1) f2 hp1 hf2n (COps.norm (COps.swap pr f1 (by omega) hf1n COps.refl)))
  have hn2 : (((t.rowSwap pr f1).norm.rowSwap (pr + 1) f2).norm).n = t.n := rfl
  generalize ((t.rowSwap pr f1).norm.rowSwap (pr + 1) f2).norm = T2 at ea eb o2 hn2 ⊢
  have s1 : (pr :: l1).Pairwise (· < ·) := ea ▸ pickType_sorted T2 pr pc ty1
  have s2 : ((pr + 1) :: l2).Pairwise (· < ·) := eb ▸ pickType_sorted T2 pr pc ty2
  have m1 : ∀ i, i ∈ pr :: l1 → pr ≤ i ∧ i < t.n ∧ T2.ptype i pc = tyCode ty1 := fun i hi => by
    rw [← hn2]; exact (mem_pickType_iff T2 pr pc ty1 i).1 (ea ▸ hi)
  have m2 : ∀ i, i ∈ (pr + 1) :: l2 → pr ≤ i ∧ i < t.n ∧ T2.ptype i pc = tyCode ty2 := fun i hi => by
    rw [← hn2]; exact (mem_pickType_iff T2 pr pc ty2 i).1 (eb ▸ hi)
  have hpr := m1 pr List.mem_cons_self
  have hpr1 := m2 (pr + 1) List.mem_cons_self
  have n1 : pr ∉ l1 := sorted_head_notMem s1
  have n3 : pr + 1 ∉ l1 := fun h => hne (by rw [← (m1 (pr + 1) (List.mem_cons_of_mem _ h)).2.2, hpr1.2.2])
  have disj : ∀ i, i ∈ l2 → i ∉ l1 := fun i b a => hne (by
    rw [← (m1 i (List.mem_cons_of_mem _ a)).2.2, (m2 i (List.mem_cons_of_mem _ b)).2.2])
  have r3 : ∀ i, i ∉ l1 → (l1.foldl (fun acc i => acc.rowSum pr i) T2).ptype i pc = T2.ptype i pc := by
    intro i hi
    rw [ptype_eq, foldl_rowSum_row pr l1 T2 (sorted_tail s1) n1 i, if_neg hi]; rfl
  apply COps.norm
  apply COps.foldl_sum (pr + 1) pc hp1 hpc l2 (sorted_tail s2)
  · intro i hi
    have := sorted_head_lt s2 i hi
    exact ⟨(m2 i (List.mem_cons_of_mem _ hi)).2.1, by omega⟩
  · rw [r3 (pr + 1) n3, hpr1.2.2]; exact tyCode_pos ty2
  · intro i hi
    rw [r3 i (disj i hi), (m2 i (List.mem_cons_of_mem _ hi)).2.2]; exact tyCode_pos ty2
  · apply COps.foldl_sum pr pc (by omega) hpc l1 (sorted_tail s1)
    · intro i hi
      have := sorted_head_lt s1 i hi
      exact ⟨(m1 i (List.mem_cons_of_mem _ hi)).2.1, by omega⟩
    · rw [hpr.2.2]; exact tyCode_pos ty1
    · intro i hi
      rw [(m1 i (List.mem_cons_of_mem _ hi)).2.2]; exact tyCode_pos ty1
    · exact o2

/-- `_process_one_pauli` on the list of rows of one Pauli type -/
theorem processOne_pick_cops (t : STab) (pr pc ty : Nat) (hpc : pc < t.n) :
    COps t (t.processOne pr (t.pickType pr pc ty)) := by
  apply processOne_cops t pr pc _ hpc (pickType_sorted t pr pc ty)
  intro i hi
  have := (mem_pickType_iff t pr pc ty i).1 hi
  exact ⟨this.1, this.2.1, by rw [this.2.2]; exact tyCode_pos ty⟩

/-- the three-Pauli branch of `one_step_rref` -/
theorem stepThree_cops (t t1 : STab) (pr pc : Nat) (hpc : pc < t.n) (hr : t.processTwo pr pc 1 3 = some t1) :
    COps t ((t1.pickType pr pc 2).foldl (fun acc k => (acc.rowSum pr k).rowSum (pr + 1) k) t1).norm := by
  have col := processTwo_col t t1 pr pc 1 3 hpc (by decide) hr
  have c1 : tyCode 1 = 1 := rfl
  have c3 : tyCode 3 = 3 := rfl
  rw [c1, c3] at col
  have hn := processTwo_n t t1 pr pc 1 3 hr
  have o1 := processTwo_cops t t1 pr pc 1 3 hpc (by decide) hr
  have hm : ∀ i, i ∈ t1.pickType pr pc 2 → pr ≤ i ∧ i < t.n ∧ t1.ptype i pc = 2 := by
    intro i hi
    have := (mem_pickType_iff t1 pr pc 2 i).1 hi
    rw [hn.1] at this; exact this
  apply COps.norm
  apply COps.foldl_sum2 pr (pr + 1) pc (by omega) hn.2 hpc _ (pickType_sorted t1 pr pc 2) _ t1 col.1 col.2.1
    (fun i hi => (hm i hi).2.2) o1
  intro i hi
  have := hm i hi
  refine ⟨this.2.1, ?_, ?_⟩
  · intro e; subst e; have := col.1; omega
  · intro e; subst e; have := col.2.1; omega

/-- **one step of `rref`** is a sequence of row operations witnessed by the pivot column -/
theorem oneStepRref_cops (t t' : STab) (pr pc pr' pc' : Nat) (b : String) (hpc : pc < t.n)
    (hr : t.oneStepRref pr pc = some (t', pr', pc', b)) : COps t t' := by
  unfold oneStepRref at hr
  have ex : (t.pauliTypeFinder pr pc).1 = t.pickType pr pc 1 := (pickType_1 t pr pc).symm
  have ey : (t.pauliTypeFinder pr pc).2.1 = t.pickType pr pc 2 := (pickType_2 t pr pc).symm
  have ez : (t.pauliTypeFinder pr pc).2.2 = t.pickType pr pc 3 := (pickType_3 t pr pc).symm
  generalize hft : t.pauliTypeFinder pr pc = ft at hr ex ey ez
  obtain ⟨xs, ys, zs⟩ := ft
  simp only at hr ex ey ez
  subst ex; subst ey; subst ez
  split at hr
  · simp only [Option.some.injEq, Prod.mk.injEq] at hr
    obtain ⟨rfl, _⟩ := hr
    exact COps.refl
  · split at hr
    · simp only [Option.some.injEq, Prod.mk.injEq] at hr
      obtain ⟨rfl, _⟩ := hr
      exact processOne_pick_cops t pr pc 1 hpc
    · split at hr
      · simp only [Option.some.injEq, Prod.mk.injEq] at hr
        obtain ⟨rfl, _⟩ := hr
        exact processOne_pick_cops t pr pc 2 hpc
      · split at hr
        · simp only [Option.some.injEq, Prod.mk.injEq] at hr
          obtain ⟨rfl, _⟩ := hr
          exact processOne_pick_cops t pr pc 3 hpc
        · split at hr
          · cases hpt : t.processTwo pr pc 2 3 with
            | none => rw [hpt] at hr; cases hr
            | some t2 =>
              rw [hpt] at hr
              simp only [Option.map, Option.some.injEq, Prod.mk.injEq] at hr
              obtain ⟨rfl, _⟩ := hr
              exact processTwo_cops t t2 pr pc 2 3 hpc (by decide) hpt
          · split at hr
            · cases hpt : t.processTwo pr pc 1 3 with
              | none => rw [hpt] at hr; cases hr
              | some t2 =>
                rw [hpt] at hr
                simp only [Option.map, Option.some.injEq, Prod.mk.injEq] at hr
                obtain ⟨rfl, _⟩ := hr
                exact processTwo_cops t t2 pr pc 1 3 hpc (by decide) hpt
            · split at hr
              · cases hpt : t.processTwo pr pc 1 2 with
                | none => rw [hpt] at hr; cases hr
                | some t2 =>
                  rw [hpt] at hr
                  simp only [Option.map, Option.some.injEq, Prod.mk.injEq] at hr
                  obtain ⟨rfl, _⟩ := hr
                  exact processTwo_cops t t2 pr pc 1 2 hpc (by decide) hpt
              · cases hpt : t.processTwo pr pc 1 3 with
                | none => rw [hpt] at hr; cases hr
                | some t1 =>
                  rw [hpt] at hr
                  simp only [Option.some.injEq, Prod.mk.injEq] at hr
                  obtain ⟨rfl, _⟩ := hr
                  have := stepThree_cops t t1 pr pc hpc hpt
                  rw [pickType_2] at this
                  exact this

/-- the loop of `rref` -/
theorem rrefLoop_cops (fuel : Nat) (t : STab) (pr pc : Nat) (brs : List String) (t' : STab) (pr' pc' : Nat)
    (brs' : List String) (hr : rrefLoop fuel t pr pc brs = .ok (t', pr', pc', brs')) : COps t t' := by
  induction fuel generalizing t pr pc brs with
  | zero =>
    simp only [rrefLoop, Except.ok.injEq, Prod.mk.injEq] at hr
    obtain ⟨rfl, _⟩ := hr
    exact COps.refl
  | succ fuel ih =>
    simp only [rrefLoop] at hr
    split at hr
    · next hb =>
      split at hr
      · cases hr
      · next t1 pr1 pc1 b hs =>
        exact COps.trans (oneStepRref_cops t t1 pr pc pr1 pc1 b (by omega) hs) (ih t1 pr1 pc1 _ hr)
    · simp only [Except.ok.injEq, Prod.mk.injEq] at hr
      obtain ⟨rfl, _⟩ := hr
      exact COps.refl

/-- **`rref` is a sequence of tabulations, row swaps and row products in which every product is witnessed by a column at
    which both factors are non-trivial** (the pivot column of the elimination step) -/
theorem rref_cops (t t' : STab) (brs : List String) (hr : t.rref = .ok (t', brs)) : COps t t' := by
  unfold rref at hr
  split at hr
  · cases hr
  · next t1 pr1 pc1 brs1 hl =>
    split at hr
    · simp only [Except.ok.injEq, Prod.mk.injEq] at hr
      obtain ⟨rfl, _⟩ := hr
      exact rrefLoop_cops (t.n + 1) t 0 0 [] t1 pr1 pc1 brs1 hl
    · cases hr

/-! ### witnessed row operations keep literal columns -/

/-- the Pauli types of a row that is `+Z_q` on the `n` sites -/
theorem ptype_of_Zq (t : STab) (i q j : Nat) (hj : j < t.n) (h : PRow.EqOn t.n (t.row i) (PRow.Zq q)) :
    t.ptype i j = if j = q then 3 else 0 := by
  have e := h.1 j hj
  unfold ptype
  rw [e.1, e.2]
  by_cases hjq : j = q <;> simp [PRow.Zq, hjq]

/-- a row that is non-trivial at a column witnessing a product cannot be the `+Z_q` row of a literal column `q` unless the
    column is `q`; but then the other factor is non-trivial at `q` as well.  Hence neither factor is the `+Z_q` row. -/
theorem Lit.witness_ne {t : STab} {q i a b pc : Nat} (hi : PRow.EqOn t.n (t.row i) (PRow.Zq q))
    (ho : ∀ k, k < t.n → k ≠ i → t.ptype k q = 0) (ha : a < t.n) (hb : b < t.n) (hab : a ≠ b) (hpc : pc < t.n)
    (hta : t.ptype a pc ≠ 0) (htb : t.ptype b pc ≠ 0) : a ≠ i ∧ b ≠ i := by
  constructor
  · intro e; subst e
    rw [ptype_of_Zq t a q pc hpc hi] at hta
    by_cases hq : pc = q
    · subst hq; exact htb (ho b hb (Ne.symm hab))
    · rw [if_neg hq] at hta; exact hta rfl
  · intro e; subst e
    rw [ptype_of_Zq t b q pc hpc hi] at htb
    by_cases hq : pc = q
    · subst hq; exact hta (ho a ha hab)
    · rw [if_neg hq] at htb; exact htb rfl

/-- tabulation keeps a literal column -/
theorem Lit.norm {t : STab} {q : Nat} (hq : q < t.n) (hl : t.Lit q) : t.norm.Lit q := by
  obtain ⟨i, hi, he, ho⟩ := hl
  refine ⟨i, hi, (norm_row t i hi).trans he, fun k hk hki => ?_⟩
  have hk' : k < t.n := hk
  rw [ptype_norm t k q hk' hq]; exact ho k hk' hki

/-- a row swap keeps a literal column (the index of the `+Z_q` row is permuted) -/
theorem Lit.rowSwap {t : STab} {q : Nat} (a b : Nat) (ha : a < t.n) (hb : b < t.n) (hl : t.Lit q) :
    (t.rowSwap a b).Lit q := by
  obtain ⟨i, hi, he, ho⟩ := hl
  by_cases hia : i = a
  · subst hia
    refine ⟨b, hb, ?_, fun k hk hkb => ?_⟩
    · rw [rowSwap_row]; by_cases e : b = i
      · rw [if_pos e, e]; exact he
      · rw [if_neg e, if_pos rfl]; exact he
    · rw [ptype_eq, rowSwap_row]
      by_cases hki : k = i
      · rw [if_pos hki]; exact ho b hb (fun e => hkb (by rw [hki, e]))
      · rw [if_neg hki, if_neg hkb]; exact ho k hk hki
  · by_cases hib : i = b
    · subst hib
      refine ⟨a, ha, ?_, fun k hk hka => ?_⟩
      · rw [rowSwap_row, if_pos rfl]; exact he
      · rw [ptype_eq, rowSwap_row, if_neg hka]
        by_cases hki : k = i
        · rw [if_pos hki]; exact ho a ha (fun e => hia e.symm)
        · rw [if_neg hki]; exact ho k hk hki
    · refine ⟨i, hi, ?_, fun k hk hki => ?_⟩
      · rw [rowSwap_row, if_neg hia, if_neg hib]; exact he
      · rw [ptype_eq, rowSwap_row]
        by_cases hka : k = a
        · rw [if_pos hka]; exact ho b hb (fun e => hib e.symm)
        · rw [if_neg hka]
          by_cases hkb : k = b
          · rw [if_pos hkb]; exact ho a ha (fun e => hia e.symm)
          · rw [if_neg hkb]; exact ho k hk hki

/-- a row product witnessed by a column where both factors are non-trivial keeps a literal column: neither factor is the
    `+Z_q` row, so both are trivial at `q` and so is their product -/
theorem Lit.rowSum {t : STab} {q : Nat} (a b pc : Nat) (ha : a < t.n) (hb : b < t.n) (hab : a ≠ b) (hpc : pc < t.n)
    (hta : t.ptype a pc ≠ 0) (htb : t.ptype b pc ≠ 0) (hl : t.Lit q) : (t.rowSum a b).Lit q := by
  obtain ⟨i, hi, he, ho⟩ := hl
  have hne := Lit.witness_ne he ho ha hb hab hpc hta htb
  refine ⟨i, hi, ?_, fun k hk hki => ?_⟩
  · rw [rowSum_row, if_neg (Ne.symm hne.2)]; exact he
  · have hk' : k < t.n := hk
    by_cases hkb : k = b
    · subst hkb
      rw [ptype_rowSum_eq, ho a ha hne.1, ho k hk' hki]; rfl
    · rw [ptype_rowSum_ne t a b k q hkb]; exact ho k hk' hki

/-- **literal columns survive witnessed row operations**: if column `q` is literal in `t0` (some generator is `+Z_q`, all others
    are trivial at `q`), it is literal in every tableau reached by tabulations, row swaps and witnessed row products -/
theorem COps.lit {t0 t : STab} (h : COps t0 t) (q : Nat) (hq : q < t0.n) (hl : t0.Lit q) : t.Lit q := by
  induction h with
  | refl => exact hl
  | @norm t h ih => exact Lit.norm (h.n_eq ▸ hq) ih
  | @swap t a b ha hb h ih => exact Lit.rowSwap a b (h.n_eq ▸ ha) (h.n_eq ▸ hb) ih
  | @sum t a b pc ha hb hab hpc hta htb h ih =>
    exact Lit.rowSum a b pc (h.n_eq ▸ ha) (h.n_eq ▸ hb) hab (h.n_eq ▸ hpc) hta htb ih

/-- `rref` keeps every literal column -/
theorem rref_lit (t t' : STab) (brs : List String) (q : Nat) (hq : q < t.n) (hl : t.Lit q)
    (hr : t.rref = .ok (t', brs)) : t'.Lit q := (rref_cops t t' brs hr).lit q hq hl

/-! ### `canonical_form` keeps literal columns -/

/-- a pivot-clearing sweep in which every product is witnessed keeps a literal column -/
theorem Lit.sweep {t : STab} {q : Nat} (pr : Nat) (sel : Nat → Bool) (hpr : pr < t.n)
    (hw : ∀ m, m < t.n → m ≠ pr → sel m = true → ∃ pc, pc < t.n ∧ t.ptype pr pc ≠ 0 ∧ t.ptype m pc ≠ 0)
    (hl : t.Lit q) : (t.sweep pr sel).Lit q := by
  obtain ⟨i, hi, he, ho⟩ := hl
  have hne : ∀ m, m < t.n → m ≠ pr → sel m = true → pr ≠ i ∧ m ≠ i := by
    intro m hm hmp hs
    obtain ⟨pc, hpc, h1, h2⟩ := hw m hm hmp hs
    exact Lit.witness_ne he ho hpr hm (Ne.symm hmp) hpc h1 h2
  have hrow : ∀ m, (t.sweep pr sel).row m = if m ≠ pr ∧ sel m then stabMul t.n (t.row pr) (t.row m) else t.row m :=
    fun m => rfl
  refine ⟨i, hi, ?_, fun k hk hki => ?_⟩
  · rw [hrow i]
    by_cases hc : i ≠ pr ∧ sel i = true
    · exact absurd rfl (hne i hi hc.1 hc.2).2
    · rw [if_neg hc]; exact he
  · have hk' : k < t.n := hk
    rw [ptype_eq, hrow k]
    by_cases hc : k ≠ pr ∧ sel k = true
    · rw [if_pos hc, pt_stabMul]
      have e1 : (t.row pr).pt q = 0 := ho pr hpr (hne k hk' hc.1 hc.2).1
      have e2 : (t.row k).pt q = 0 := ho k hk' hki
      rw [e1, e2]; rfl
    · rw [if_neg hc]; exact ho k hk' hki

/-- a set x-bit or z-bit makes the Pauli type non-trivial -/
theorem ptype_ne_zero_of_bit (t : STab) (m j : Nat) (h : (t.row m).x j = true ∨ (t.row m).z j = true) :
    t.ptype m j ≠ 0 := by
  intro e
  have := PRow.pt_zero_bits (t.row m) j e
  rcases h with h | h
  · rw [this.1] at h; cases h
  · rw [this.2] at h; cases h

/-- the common shape of one column step of `canonical_form`: swap the pivot into row `pr`, tabulate, sweep the rows selected
    by a bit of column `j` that the pivot row carries as well, tabulate -/
theorem Lit.pivotStep {t : STab} {q : Nat} (pr f j : Nat) (sel : STab → Nat → Bool) (hq : q < t.n) (hpr : pr ≤ f)
    (hf : f < t.n) (hj : j < t.n)
    (hsel : ∀ m, sel (t.rowSwap pr f).norm m = true → (t.rowSwap pr f).norm.ptype m j ≠ 0)
    (hpiv : t.ptype f j ≠ 0) (hl : t.Lit q) :
    (((t.rowSwap pr f).norm.sweep pr (sel (t.rowSwap pr f).norm)).norm).Lit q := by
  have hp : pr < t.n := by omega
  have l1 : (t.rowSwap pr f).norm.Lit q := Lit.norm (t := t.rowSwap pr f) hq (Lit.rowSwap pr f hp hf hl)
  have hn1 : (t.rowSwap pr f).norm.n = t.n := rfl
  have hp1 : (t.rowSwap pr f).norm.ptype pr j ≠ 0 := by
    rw [ptype_swap_norm t pr f pr j hp hj, if_pos rfl]; exact hpiv
  generalize (t.rowSwap pr f).norm = t1 at l1 hn1 hp1 hsel ⊢
  have l2 : (t1.sweep pr (sel t1)).Lit q :=
    Lit.sweep pr (sel t1) (hn1 ▸ hp) (fun m _ _ hs => ⟨j, hn1 ▸ hj, hp1, hsel m hs⟩) l1
  exact Lit.norm (t := t1.sweep pr (sel t1)) (by show q < t1.n; rw [hn1]; exact hq) l2

theorem canonStepXY_n (t : STab) (pr j : Nat) : (t.canonStepXY pr j).1.n = t.n := by
  unfold canonStepXY
  generalize t.pauliTypeFinder pr j = ft
  obtain ⟨xs, ys, zs⟩ := ft
  simp only
  split <;> rfl

theorem canonStepZ_n (t : STab) (pr j : Nat) : (t.canonStepZ pr j).1.n = t.n := by
  unfold canonStepZ
  split <;> rfl

/-- one column of the first loop of `canonical_form` (X/Y pivots) keeps a literal column -/
theorem canonStepXY_lit (t : STab) (pr j q : Nat) (hq : q < t.n) (hj : j < t.n) (hl : t.Lit q) :
    (t.canonStepXY pr j).1.Lit q := by
  unfold canonStepXY
  have ex : (t.pauliTypeFinder pr j).1 = t.pickType pr j 1 := (pickType_1 t pr j).symm
  have ey : (t.pauliTypeFinder pr j).2.1 = t.pickType pr j 2 := (pickType_2 t pr j).symm
  generalize hft : t.pauliTypeFinder pr j = ft at ex ey
  obtain ⟨xs, ys, zs⟩ := ft
  simp only at ex ey ⊢
  split
  · exact hl
  · next f hf =>
    have hmem : f ∈ xs ∨ f ∈ ys := by
      by_cases hx : xs.isEmpty
      · simp [hx] at hf; exact Or.inr (List.mem_of_mem_head? hf)
      · simp [hx] at hf; exact Or.inl (List.mem_of_mem_head? hf)
    have hb : pr ≤ f ∧ f < t.n ∧ t.ptype f j ≠ 0 := by
      rcases hmem with h | h
      · have := (mem_pickType_iff t pr j 1 f).1 (ex ▸ h)
        exact ⟨this.1, this.2.1, by rw [this.2.2]; exact tyCode_pos 1⟩
      · have := (mem_pickType_iff t pr j 2 f).1 (ey ▸ h)
        exact ⟨this.1, this.2.1, by rw [this.2.2]; exact tyCode_pos 2⟩
    exact Lit.pivotStep pr f j (fun t1 m => (t1.row m).x j) hq hb.1 hb.2.1 hj
      (fun m hs => ptype_ne_zero_of_bit _ m j (Or.inl hs)) hb.2.2 hl

/-- one column of the second loop of `canonical_form` (Z pivots) keeps a literal column -/
theorem canonStepZ_lit (t : STab) (pr j q : Nat) (hq : q < t.n) (hj : j < t.n) (hl : t.Lit q) :
    (t.canonStepZ pr j).1.Lit q := by
  unfold canonStepZ
  split
  · exact hl
  · next f hf =>
    have hm := List.mem_of_mem_head? hf
    simp only [zTypeFinder, List.mem_filter, List.mem_range, decide_eq_true_eq] at hm
    exact Lit.pivotStep pr f j (fun t1 m => (t1.row m).z j) hq hm.1.2 hm.1.1 hj
      (fun m hs => ptype_ne_zero_of_bit _ m j (Or.inr hs)) (by rw [hm.2]; decide) hl

/-- a fold of column steps that keep the size and a literal column -/
theorem foldl_lit (step : STab × Nat → Nat → STab × Nat) (n q : Nat)
    (hstep : ∀ (acc : STab × Nat) (j : Nat), j < n → acc.1.n = n → acc.1.Lit q →
      (step acc j).1.n = n ∧ (step acc j).1.Lit q)
    (l : List Nat) (hl : ∀ j, j ∈ l → j < n) (acc : STab × Nat) (h1 : acc.1.n = n) (h2 : acc.1.Lit q) :
    (l.foldl step acc).1.n = n ∧ (l.foldl step acc).1.Lit q := by
  induction l generalizing acc with
  | nil => exact ⟨h1, h2⟩
  | cons x rest ih =>
    simp only [List.foldl]
    have := hstep acc x (hl x List.mem_cons_self) h1 h2
    exact ih (fun j hj => hl j (List.mem_cons_of_mem _ hj)) (step acc x) this.1 this.2

/-- the two loops of `canonical_form` keep a literal column -/
theorem canonLoops_lit (t : STab) (q : Nat) (hq : q < t.n) (hl : t.Lit q) : t.canonLoops.1.Lit q := by
  unfold canonLoops
  have hr : ∀ j, j ∈ List.range t.n → j < t.n := fun j hj => List.mem_range.1 hj
  have i1 := foldl_lit (fun (acc : STab × Nat) j => acc.1.canonStepXY acc.2 j) t.n q
    (fun acc j hj hn hlit => ⟨by rw [canonStepXY_n]; exact hn,
      canonStepXY_lit acc.1 acc.2 j q (by rw [hn]; exact hq) (by rw [hn]; exact hj) hlit⟩)
    (List.range t.n) hr (t, 0) rfl hl
  exact (foldl_lit (fun (acc : STab × Nat) j => acc.1.canonStepZ acc.2 j) t.n q
    (fun acc j hj hn hlit => ⟨by rw [canonStepZ_n]; exact hn,
      canonStepZ_lit acc.1 acc.2 j q (by rw [hn]; exact hq) (by rw [hn]; exact hj) hlit⟩)
    (List.range t.n) hr _ i1.1 i1.2).2

/-- **`canonical_form` keeps every literal column**: every row product of its pivot-clearing sweeps is witnessed by the pivot
    column, at which the pivot row and the cleared row are both non-trivial -/
theorem canonicalForm_lit (t t' : STab) (q : Nat) (hq : q < t.n) (hl : t.Lit q) (h : t.canonicalForm = .ok t') :
    t'.Lit q := by
  unfold canonicalForm at h
  split at h
  · injection h with h; rw [← h]; exact canonLoops_lit t q hq hl
  · cases h

end STab
end Graphiq
