/-
  MetricsHistInsert.lean — `insert_at` on the scheduled operation list (C18): a successful `insert_at(op, edges)` inserts the
  operation — without its classical registers: `insert_at` threads the new node on quantum wires only — at some position of the
  operation list of a suitable schedule of the circuit before.  Proof: remove the new node from the result; the circuit obtained
  has the wires of the original one, so by wire determinacy (`same_wires_same_schedule`) the original circuit has a schedule with
  the same operation list.
-/
import GraphiqModel.Proofs.MetricsHistIso
set_option linter.unusedSectionVars false
set_option linter.unusedSimpArgs false
namespace Graphiq
namespace Metrics
open Dag Relation

/-- two circuits with the same nodes and the same wires have the same wire sequences -/
theorem wiredWire_congr {c c' : Dag} {P : Paths} (hn : c'.nodes = c.nodes) (r : Reg) : wiredWire c' P r = wiredWire c P r := by
  unfold wiredWire
  congr 1
  funext n
  cases n with
  | op k => simp only [opOf_eq_of_nodes hn]
  | inp _ => rfl
  | out _ => rfl

/-- transfer of a schedule's operation list between two circuits with the same wire sequences -/
theorem sched_ops_transfer {c c' : Dag} {P P' : Paths} {L : List (NodeId × Op)} (g : Good c P) (g' : Good c' P') (hS : Sched c P L)
    (hw : ∀ r, wiredWire c' P' r = wiredWire c P r) : ∃ L', Sched c' P' L' ∧ L'.map (·.2) = L.map (·.2) := by
  obtain ⟨L'', hS''⟩ := sched_exists g'
  apply same_wires_same_schedule L.length g g' hS hS'' rfl
  intro r
  rw [← hS''.wiredWire_eq g' r, ← hS.wiredWire_eq g r]
  exact hw r

/-- the operation as `insert_at` wires it: on its quantum registers only -/
def quantumPart (op : Op) : Op := { op with cregs := [] }

/-- **`_insert_at` on the schedule**: the result has a schedule `A ++ (new node, op on its quantum registers) :: B` such that the
    circuit before has a schedule whose operation list is that of `A ++ B` -/
theorem insertAtCore_sched_gen {c : Dag} {P : Paths} (g : Good c P) {op : Op} (hop : OpWF op) {es : List Edge} (hok : InsertOK c op es) :
    ∃ P' A B L, Good (c.insertAt_ op es).1 P' ∧
      Sched (c.insertAt_ op es).1 P' (A ++ (NodeId.op (c.nodeId + 1), quantumPart op) :: B) ∧
      Sched c P L ∧ L.map (·.2) = A.map (·.2) ++ B.map (·.2) := by
  obtain ⟨_, P', g', _, _, hnodes, hmemP'⟩ := insertAt_good' g hop hok
  obtain ⟨P'', hinv'', hother, hsplice⟩ := insertAt_refines g hop hok
  have hPeq : ∀ k, P' k = P'' k := fun k => g'.inv.paths_unique hinv'' k
  have hfresh := g.inv.op_fresh
  have hnP : ∀ k, NodeId.op (c.nodeId + 1) ∉ P k := fun k hm => hfresh (g.inv.mem_nodes k _ hm)
  have hwnew : (NodeId.op (c.nodeId + 1), op) ∈ (c.insertAt_ op es).1.nodes := by rw [hnodes]; simp
  -- the new node is threaded on quantum wires only
  have hwired : wiredOp P' (.op (c.nodeId + 1)) op = quantumPart op := by
    unfold wiredOp quantumPart
    congr 1
    apply List.filter_eq_nil_iff.mpr
    intro j _
    simp only [decide_eq_true_eq]
    rw [hmemP']
    rintro (h | ⟨_, h⟩)
    · exact hnP _ h
    · exact absurd rfl (hop.qregs_quantum _ h)
  -- removing the new node gives back the wires of `c`
  have herase : erasePaths P' (.op (c.nodeId + 1)) = P := by
    funext k
    unfold erasePaths
    rw [hPeq k]
    by_cases hk : k ∈ es.map (·.key)
    · obtain ⟨e, he, rfl⟩ := List.mem_map.mp hk
      obtain ⟨l1, l2, h1, h2⟩ := hsplice e he
      rw [h2, h1]
      have hn1 : NodeId.op (c.nodeId + 1) ∉ l1 ++ [e.src] := by
        intro hm
        apply hnP e.key
        rw [h1]
        rcases List.mem_append.mp hm with hm | hm
        · exact List.mem_append.mpr (Or.inl hm)
        · simp at hm; rw [hm]; simp
      have e1 : l1 ++ e.src :: NodeId.op (c.nodeId + 1) :: e.dst :: l2 = (l1 ++ [e.src]) ++ NodeId.op (c.nodeId + 1) :: (e.dst :: l2) := by simp
      rw [e1, erase_append_mid hn1]
      simp
    · rw [hother k hk]
      exact List.erase_of_not_mem (hnP k)
  obtain ⟨L', hS'⟩ := sched_exists g'
  obtain ⟨A, B, hL', hS''⟩ := removeNode_sched g' hS' hwnew
  rw [hwired] at hL'
  obtain ⟨_, g'', _, _⟩ := removeOp_good g' (mem_nodeIds.mpr ⟨op, hwnew⟩)
  rw [herase] at hS'' g''
  have hnodes'' : ((c.insertAt_ op es).1.removeOp (.op (c.nodeId + 1))).1.nodes = c.nodes := by
    rw [removeOp_eq ((opOf_eq_some g'.inv.ids_nodup).mpr hwnew)]
    have F := removeFacts g'.inv (.op (c.nodeId + 1))
    simp only [removed, F.nodes]
    rw [hnodes, List.filter_append]
    have h1 : c.nodes.filter (fun p => p.1 ≠ NodeId.op (c.nodeId + 1)) = c.nodes := by
      rw [List.filter_eq_self]
      intro p hp
      have : p.1 ≠ NodeId.op (c.nodeId + 1) := fun e => hfresh (e ▸ mem_nodeIds.mpr ⟨p.2, hp⟩)
      simpa using this
    rw [h1]
    simp
  obtain ⟨L, hS, hmap⟩ := sched_ops_transfer g'' g hS'' (fun r => (wiredWire_congr hnodes'' r).symm)
  refine ⟨P', A, B, L, g', ?_, hS, by rw [hmap]; simp⟩
  rw [← hL']; exact hS'

/-- **`insert_at(op, edges)` on the schedule** (successful call, register prologue included) -/
theorem insertAt_sched_gen {c : Dag} {P : Paths} (g : Good c P) {op : Op} (hop : OpWF op) {es : List Edge} (hok : InsertOK c op es)
    (hsucc : (c.insertAt op es).2 = none) :
    ∃ P' A B L n, Good (c.insertAt op es).1 P' ∧ Sched (c.insertAt op es).1 P' (A ++ (n, quantumPart op) :: B) ∧
      Sched c P L ∧ L.map (·.2) = A.map (·.2) ++ B.map (·.2) := by
  obtain ⟨L0, hS0⟩ := sched_exists g
  obtain ⟨P1, g1, hS01⟩ := ensureRegs_sched g hS0 op
  have hok1 := InsertOK.of_pre g hok
  unfold insertAt at hsucc ⊢
  cases hens : c.ensureRegs op with
  | mk c1 e1 =>
    rw [hens] at hsucc g1 hS01 hok1
    simp only at hsucc g1 hS01 hok1
    cases e1 with
    | some e => simp at hsucc
    | none =>
      simp only at hsucc ⊢
      by_cases hlen : es.length ≠ op.qregs.length
      · rw [if_pos hlen] at hsucc; simp at hsucc
      · rw [if_neg hlen]
        obtain ⟨P', A, B, L1, g', hS', hS1, hmap1⟩ := insertAtCore_sched_gen g1 hop hok1
        -- `L0` and `L1` are both schedules of `c1`; transfer `L1`'s operation list to `c`
        have hH : ∀ r, (onReg L0 r).map (·.2) = (onReg L1 r).map (·.2) := by
          intro r
          rw [← hS01.wiredWire_eq g1 r, ← hS1.wiredWire_eq g1 r]
        obtain ⟨L, hS, hmap⟩ := same_wires_same_schedule L1.length g1 g hS1 hS0 rfl hH
        exact ⟨P', A, B, L, _, g', hS', hS, by rw [hmap, hmap1]⟩

end Metrics
end Graphiq
