/-
  MetricsHistNodeEdits.lean — the node-addressed edits as FUNCTIONS on the wires (C12/C18): for `add`, `insert_at`, `remove_op`,
  `replace_op` (on operations whose registers exist, so that the register prologue is a no-op) the wires after the edit are an
  explicit function of the wires before and of `_node_id`: splice the new node in front of the output / between the two ends of
  every given edge, erase the node, keep everything.
-/
import GraphiqModel.Proofs.Refine
set_option linter.unusedSectionVars false
set_option linter.unusedSimpArgs false
namespace Graphiq
namespace Dag
open Relation

theorem Good.of_inv {c : Dag} {P P' : Paths} (g : Good c P') (h : Inv c P) : Good c P := by
  have : P = P' := by funext r; exact h.paths_unique g.inv r
  rw [this]; exact g

/-- `add(op)` when every register of the operation exists: succeeds, and the wires are `splicePaths` on the last edges -/
theorem add_wires_fn {c : Dag} {P : Paths} (g : Good c P) {op : Op} (hop : OpWF op) (hlive : ∀ r ∈ opRegs op, c.live r) :
    (c.add op).2 = none ∧
    Good (c.add op).1 (splicePaths (.op (c.nodeId + 1)) ((opRegs op).map (lastEdge P)) P) ∧
    (c.add op).1.nodeId = c.nodeId + 1 := by
  have hens := ensureRegs_live_eq g.inv hop.qregs_ne hlive
  have heq : c.add op = (c.add_ op, none) := by unfold add; rw [hens]
  obtain ⟨P', g', _, hid, _⟩ := add_good' g hop hlive
  rw [heq]
  exact ⟨rfl, g'.of_inv (add_struct g hop hlive), hid⟩

/-- `insert_at(op, edges)` on well-formed edges when every register of the operation exists: succeeds, and the wires are
    `splicePaths` on the given edges -/
theorem insertAt_wires_fn {c : Dag} {P : Paths} (g : Good c P) {op : Op} (hop : OpWF op) {es : List Edge} (hok : InsertOK c op es)
    (hlive : ∀ r ∈ opRegs op, c.live r) :
    (c.insertAt op es).2 = none ∧
    Good (c.insertAt op es).1 (splicePaths (.op (c.nodeId + 1)) es P) ∧
    (c.insertAt op es).1.nodeId = c.nodeId + 1 := by
  have hens := ensureRegs_live_eq g.inv hop.qregs_ne hlive
  have hlen : es.length = op.qregs.length := by rw [← hok.keys, List.length_map]
  have heq : c.insertAt op es = c.insertAt_ op es := by
    unfold insertAt; rw [hens]; simp [hlen]
  obtain ⟨hnone, P', g', _, hid, _, _⟩ := insertAt_good' g hop hok
  rw [heq]
  refine ⟨hnone, g'.of_inv ?_, hid⟩
  -- the invariant for the explicit wires (as in `insertAt_refines`)
  have hfresh := g.inv.op_fresh
  have hnP : ∀ k, NodeId.op (c.nodeId + 1) ∉ P k := fun k hm => hfresh (g.inv.mem_nodes k _ hm)
  have h0 : Inv (c.newNode op) P := newNode_inv g.inv hop
  have hn0 : NodeId.op (c.nodeId + 1) ∈ (c.newNode op).nodeIds := by simp [nodeIds, newNode_nodes g.inv op]
  have hknd : (es.map (·.key)).Nodup := by rw [hok.keys]; exact hop.qregs_nodup
  obtain ⟨hinv, hins⟩ := spliceAll_inv h0 (i := c.nodeId + 1) rfl hn0 es hok.mem hknd (fun e _ => hnP e.key)
  have heq2 : c.insertAt_ op es = ((c.newNode op).spliceAll (.op (c.nodeId + 1)) es, none) := hins
  rw [heq2]; exact hinv

/-- `remove_op(node)`: the node is erased from every wire (nothing changes if it is absent) -/
theorem removeOp_wires_fn {c : Dag} {P : Paths} (g : Good c P) (i : Nat) :
    Good (c.removeOp (.op i)).1 (erasePaths P (.op i)) ∧ (c.removeOp (.op i)).1.nodeId = c.nodeId := by
  by_cases hi : NodeId.op i ∈ c.nodeIds
  · obtain ⟨_, g', _, hid⟩ := removeOp_good g hi
    exact ⟨g', hid⟩
  · rw [removeOp_absent (opOf_eq_none.mpr hi)]
    have : erasePaths P (.op i) = P := by
      funext k
      unfold erasePaths
      exact List.erase_of_not_mem (fun hm => hi (g.inv.mem_nodes k _ hm))
    rw [this]; exact ⟨g, rfl⟩

/-- `replace_op(node, new)`: the wires are unchanged, whether the call succeeds or raises -/
theorem replaceOp_wires_fn {c : Dag} {P : Paths} (g : Good c P) (i : Nat) {new : Op} (hnew : OpWF new) :
    Good (c.replaceOp (.op i) new).1 P ∧ (c.replaceOp (.op i) new).1.nodeId = c.nodeId := by
  refine ⟨(replaceOp_good g hnew).1, ?_⟩
  unfold replaceOp
  cases c.opOf? (.op i) with
  | none => rfl
  | some old =>
    simp only
    by_cases hne : old.qregs ≠ new.qregs ∨ old.cregs ≠ new.cregs
    · rw [if_pos hne]
    · rw [if_neg hne]

end Dag
end Graphiq
