/-
  Proofs/MixtureDMBridgeMat.lean — embedding of the executable exact matrices (`Mat` over ℚ[i], `Model/Gauss.lean`) into
  Mathlib matrices over ℂ indexed by bit strings:

  * `gqC : GQ →+* ℂ` (injective ring homomorphism, commutes with conjugation and rational scaling);
  * `toC n m` : the `2^n × 2^n` matrix of `m`, row / column `idx a`;
  * `toC` turns `Mat.mul` (the zero-skipping `dot` loop), `add`, `smul`, `dagger`, `norm` (tabulation), `hermitianize`,
    `conjBy`, `eye`, `zero` into the Mathlib operations;  `toC_inj` : equal images ⇒ `Mat.EqOn`.
-/
import GraphiqModel.Proofs.MixtureDMBridgeIdx
import GraphiqModel.Proofs.MixtureDM
namespace Graphiq
namespace MixDM
open Matrix Hilbert

/-! ### ℚ[i] → ℂ -/

noncomputable def gqC (z : GQ) : ℂ := ⟨(z.re : ℝ), (z.im : ℝ)⟩

@[simp] theorem gqC_re (z : GQ) : (gqC z).re = (z.re : ℝ) := rfl
@[simp] theorem gqC_im (z : GQ) : (gqC z).im = (z.im : ℝ) := rfl

theorem gqC_zero : gqC 0 = 0 := by apply Complex.ext <;> simp
theorem gqC_one : gqC 1 = 1 := by apply Complex.ext <;> simp
theorem gqC_add (a b : GQ) : gqC (a + b) = gqC a + gqC b := by apply Complex.ext <;> simp
theorem gqC_mul (a b : GQ) : gqC (a * b) = gqC a * gqC b := by apply Complex.ext <;> simp
theorem gqC_neg (a : GQ) : gqC (-a) = -gqC a := by apply Complex.ext <;> simp
theorem gqC_neg' (a : GQ) : gqC (GQ.neg a) = -gqC a := gqC_neg a
theorem gqC_I : gqC GQ.I = Complex.I := by apply Complex.ext <;> simp [GQ.I]
theorem gqC_conj (a : GQ) : gqC a.conj = star (gqC a) := by apply Complex.ext <;> simp [GQ.conj]
theorem gqC_smul (q : Rat) (a : GQ) : gqC (GQ.smul q a) = ((q : ℚ) : ℂ) * gqC a := by
  apply Complex.ext <;> simp [GQ.smul]

theorem gqC_injective (a b : GQ) (h : gqC a = gqC b) : a = b := by
  have h1 := congrArg Complex.re h
  have h2 := congrArg Complex.im h
  simp only [gqC_re, gqC_im] at h1 h2
  exact GQ.ext' (by exact_mod_cast h1) (by exact_mod_cast h2)

/-- `gqC` as a ring homomorphism -/
noncomputable def gqHom : GQ →+* ℂ where
  toFun := gqC
  map_one' := gqC_one
  map_mul' := gqC_mul
  map_zero' := gqC_zero
  map_add' := gqC_add

theorem gqC_sum (s : Finset Nat) (f : Nat → GQ) : gqC (∑ i ∈ s, f i) = ∑ i ∈ s, gqC (f i) := map_sum gqHom f s

/-! ### `Mat` → matrices on bit strings -/

/-- the `2^n × 2^n` complex matrix of an executable matrix -/
noncomputable def toC (n : Nat) (m : Mat) : HMat n := Matrix.of fun a b => gqC (m.e (idx a) (idx b))

theorem toC_apply (n : Nat) (m : Mat) (a b : Bits n) : toC n m a b = gqC (m.e (idx a) (idx b)) := rfl

theorem toC_congr (n : Nat) (a b : Mat) (hn : a.n = 2 ^ n) (h : Mat.EqOn a b) : toC n a = toC n b := by
  ext x y
  rw [toC_apply, toC_apply, h.2 _ _ (by rw [hn]; exact idx_lt x) (by rw [hn]; exact idx_lt y)]

theorem toC_norm (n : Nat) (m : Mat) (hn : m.n = 2 ^ n) : toC n m.norm = toC n m :=
  toC_congr n _ _ hn (Mat.norm_eqOn m)

theorem toC_add (n : Nat) (a b : Mat) : toC n (Mat.add a b) = toC n a + toC n b := by
  ext x y; simp only [toC_apply, Matrix.add_apply, Mat.add, gqC_add]

theorem toC_smul (n : Nat) (q : Rat) (a : Mat) : toC n (Mat.smul q a) = ((q : ℚ) : ℂ) • toC n a := by
  ext x y; simp only [toC_apply, Matrix.smul_apply, Mat.smul, gqC_smul, smul_eq_mul]

theorem toC_dagger (n : Nat) (a : Mat) : toC n a.dagger = (toC n a)ᴴ := by
  ext x y; simp only [toC_apply, Matrix.conjTranspose_apply, Mat.dagger, gqC_conj]

theorem toC_zero (n N : Nat) : toC n (Mat.zero N) = 0 := by
  ext x y; simp only [toC_apply, Mat.zero, Matrix.zero_apply, gqC_zero]

theorem toC_eye (n N : Nat) : toC n (Mat.eye N) = 1 := by
  ext x y
  simp only [toC_apply, Mat.eye, Matrix.one_apply]
  by_cases h : x = y
  · subst h; simp [gqC_one]
  · have : idx x ≠ idx y := fun e => h (idx_injective x y e)
    simp [h, this, gqC_zero]

/-- the model's matrix product (the zero-skipping `dot` over `a.n = 2^n` indices) is the matrix product -/
theorem toC_mul (n : Nat) (a b : Mat) (hn : a.n = 2 ^ n) : toC n (Mat.mul a b) = toC n a * toC n b := by
  ext x y
  rw [toC_apply, Matrix.mul_apply]
  simp only [Mat.mul, dot_eq_gsum, gsum_eq_sum, hn, gqC_sum, gqC_mul, toC_apply]
  exact (sum_idx n fun k => gqC (a.e (idx x) k) * gqC (b.e k (idx y))).symm

theorem mul_n (a b : Mat) : (Mat.mul a b).n = a.n := rfl
theorem add_n (a b : Mat) : (Mat.add a b).n = a.n := rfl
theorem smul_n (q : Rat) (a : Mat) : (Mat.smul q a).n = a.n := rfl
theorem dagger_n (a : Mat) : a.dagger.n = a.n := rfl
theorem hermitianize_n (a : Mat) : (Mat.hermitianize a).n = a.n := rfl
theorem conjBy_n (u ρ : Mat) : (Mat.conjBy u ρ).n = u.n := rfl

theorem toC_conjBy (n : Nat) (u ρ : Mat) (hn : u.n = 2 ^ n) :
    toC n (Mat.conjBy u ρ) = conjH (toC n u) (toC n ρ) := by
  unfold Mat.conjBy conjH
  rw [toC_mul n _ _ (by rw [Mat.norm_n, mul_n]; exact hn), toC_norm n _ (by rw [mul_n]; exact hn), toC_mul n _ _ hn,
    toC_dagger]

/-- `(M + M†)/2` -/
noncomputable def hermH {n : Nat} (M : HMat n) : HMat n := (1 / 2 : ℂ) • (M + Mᴴ)

theorem hermH_of_herm {n : Nat} (M : HMat n) (h : Mᴴ = M) : hermH M = M := by
  unfold hermH
  rw [h, ← two_smul ℂ M, smul_smul]
  norm_num

theorem toC_hermitianize (n : Nat) (a : Mat) : toC n (Mat.hermitianize a) = hermH (toC n a) := by
  unfold Mat.hermitianize hermH
  rw [toC_smul, toC_add, toC_dagger]
  congr 1
  norm_num

/-- equal images ⇒ entrywise equal below the size -/
theorem toC_inj (n : Nat) (a b : Mat) (ha : a.n = 2 ^ n) (hb : b.n = 2 ^ n) (h : toC n a = toC n b) : Mat.EqOn a b := by
  refine ⟨by rw [ha, hb], ?_⟩
  intro i j hi hj
  rw [ha] at hi hj
  obtain ⟨x, rfl⟩ := idx_surj (n := n) i hi
  obtain ⟨y, rfl⟩ := idx_surj (n := n) j hj
  have := congrFun (congrFun h x) y
  rw [toC_apply, toC_apply] at this
  exact gqC_injective _ _ this

end MixDM
end Graphiq
