/-
  Proofs/HilbertMeasure.lean — the Z-measurement update of clifford.py (`z_measurement_gate`) is the projective
  measurement `ρ ↦ Π ρ Π` with `Π = (1 ± Z_q)/2`:

  * `proj_rhoTo_proj` : if exactly one generator `r k` anticommutes with `Z_q`, then
    `Π ρ Π = ½ · ρ'` where `ρ'` is the product with the `k`-th generator replaced by `±Z_q`;
  * `measRandom_state` : the random branch of the model (other anticommuting rows are first multiplied by the
    pivot, then the pivot is replaced by `(-1)^o Z_q`) computes exactly the post-measurement state, each outcome
    with probability ½;
  * `measDet_state` : the deterministic branch (no stabilizer anticommutes with `Z_q`): the scratch row is `±Z_q`
    (`Proofs/HilbertComplete.lean`), the reported outcome has probability 1 and the state is unchanged.
-/
import GraphiqModel.Proofs.HilbertPure
import GraphiqModel.Proofs.HilbertComplete
import Mathlib.Tactic.NoncommRing
namespace Graphiq
namespace Hilbert
open Matrix PRow

/-! ### projecting a product of commuting projectors -/

theorem proj_comm_of_sp (n : Nat) (a b : PRow) (h : sp n a b = false) : proj n a * proj n b = proj n b * proj n a :=
  proj_comm n a b (pauliMat_comm n a b h)

/-- `Π G Π = 0` for a Pauli `G` anticommuting with the Hermitian involution inside `Π = (1 + Z)/2` -/
theorem proj_anti_proj (n : Nat) (z g : PRow) (hz : z.ip = false) (ha : sp n g z = true) :
    proj n z * pauliMat n g * proj n z = 0 := by
  have h1 : pauliMat n z * pauliMat n g = -(pauliMat n g * pauliMat n z) := by
    have := pauliMat_anticomm n g z ha
    rw [this]; simp
  have h2 := pauliMat_sq n z hz
  unfold proj
  rw [smul_mul_assoc, smul_mul_smul_comm]
  have e : (1 + pauliMat n z) * pauliMat n g * (1 + pauliMat n z)
      = pauliMat n g + pauliMat n g * pauliMat n z + pauliMat n z * pauliMat n g
        + pauliMat n z * pauliMat n g * pauliMat n z := by noncomm_ring
  rw [e, h1, Matrix.neg_mul, Matrix.mul_assoc, h2, Matrix.mul_one]
  have : pauliMat n g + pauliMat n g * pauliMat n z + -(pauliMat n g * pauliMat n z) + -pauliMat n g = 0 := by abel
  rw [this, smul_zero]

/-- `Π (1+G)/2 Π = ½ Π` -/
theorem proj_proj_proj (n : Nat) (z g : PRow) (hz : z.ip = false) (ha : sp n g z = true) :
    proj n z * proj n g * proj n z = (1 / 2 : ℂ) • proj n z := by
  have h0 := proj_anti_proj n z g hz ha
  have h1 := proj_idem n z hz
  have e : proj n z * proj n g * proj n z
      = (1 / 2 : ℂ) • (proj n z * proj n z + proj n z * pauliMat n g * proj n z) := by
    conv_lhs => rw [show proj n g = (1 / 2 : ℂ) • (1 + pauliMat n g) from rfl]
    rw [mul_smul_comm, smul_mul_assoc, mul_add, add_mul, Matrix.mul_one]
  rw [e, h0, h1, add_zero]

/-- replace the `k`-th row -/
def replaceRow (r : Nat → PRow) (k : Nat) (z : PRow) : Nat → PRow := fun i => if i = k then z else r i

/-- **Projection of a stabilizer product.**  `z` real; the generators commute with each other; exactly `r k`
    anticommutes with `z`.  Then `Π_z · ∏_{i<m} (1+r_i)/2 · Π_z = ½ · ∏ with r_k replaced by z`. -/
theorem proj_rhoTo_proj (n : Nat) (r : Nat → PRow) (m k : Nat) (z : PRow) (hk : k < m) (hz : z.ip = false)
    (ha : sp n (r k) z = true) (hc : ∀ i, i < m → i ≠ k → sp n (r i) z = false) :
    proj n z * rhoTo n r m * proj n z = (1 / 2 : ℂ) • rhoTo n (replaceRow r k z) m := by
  -- below the pivot nothing happens
  have hlow : proj n z * rhoTo n r k = rhoTo n r k * proj n z :=
    commute_rhoTo n _ r k (fun i hi => by
      have := hc i (by omega) (by omega)
      rw [sp_comm] at this
      exact proj_comm_of_sp n _ _ this)
  have hsame : rhoTo n (replaceRow r k z) k = rhoTo n r k :=
    rhoTo_congr n _ _ k (fun i hi => by
      have : i ≠ k := by omega
      simp only [replaceRow, this, if_false]; exact EqOn.refl _ _)
  -- from the pivot on
  have main : ∀ d, k + 1 + d ≤ m →
      proj n z * rhoTo n r (k + 1 + d) * proj n z = (1 / 2 : ℂ) • rhoTo n (replaceRow r k z) (k + 1 + d) := by
    intro d
    induction d with
    | zero =>
      intro _
      show proj n z * (rhoTo n r k * proj n (r k)) * proj n z
        = (1 / 2 : ℂ) • (rhoTo n (replaceRow r k z) k * proj n (replaceRow r k z k))
      have e1 : replaceRow r k z k = z := by simp [replaceRow]
      rw [e1, hsame, ← Matrix.mul_assoc, hlow, Matrix.mul_assoc, Matrix.mul_assoc, ← Matrix.mul_assoc (proj n z),
        proj_proj_proj n z (r k) hz ha, mul_smul_comm]
    | succ d ih =>
      intro hd
      have hi : k + 1 + d < m := by omega
      have hne : k + 1 + d ≠ k := by omega
      show proj n z * (rhoTo n r (k + 1 + d) * proj n (r (k + 1 + d))) * proj n z
        = (1 / 2 : ℂ) • (rhoTo n (replaceRow r k z) (k + 1 + d) * proj n (replaceRow r k z (k + 1 + d)))
      have e1 : replaceRow r k z (k + 1 + d) = r (k + 1 + d) := by simp [replaceRow, hne]
      have hcm : proj n (r (k + 1 + d)) * proj n z = proj n z * proj n (r (k + 1 + d)) :=
        proj_comm_of_sp n _ _ (hc _ hi hne)
      rw [e1, Matrix.mul_assoc, Matrix.mul_assoc, hcm, ← Matrix.mul_assoc (rhoTo n r (k + 1 + d)),
        ← Matrix.mul_assoc (proj n z), ← Matrix.mul_assoc (proj n z), ih (by omega), smul_mul_assoc]
  have := main (m - (k + 1)) (by omega)
  have e : k + 1 + (m - (k + 1)) = m := by omega
  rw [e] at this
  exact this

/-! ### the random branch of `z_measurement_gate` -/

/-- the stabilizer rows of a tableau are real (no imaginary phase) -/
theorem ofTab_row_real (t : Tab) (hr : t.StabReal) (i : Nat) (hi : i < t.n) :
    (STab.ofTab t).row i = t.row (i + t.n) :=
  STab.with_ip_false _ (hr (i + t.n) (by omega) (by omega))

/-- **Random branch.**  Valid tableau, real stabilizer rows, a stabilizer row `p` with an X on `q`
    (so the outcome is random).  Then for both outcomes `o`
    `Π_o ρ Π_o = ½ · ρ(t.measRandom q p o)` with `Π_o = (1 + (-1)^o Z_q)/2`:
    the tableau update computes the post-measurement state and each outcome has probability ½. -/
theorem measRandom_state (t : Tab) (hv : t.Valid) (hr : t.StabReal) (q p : Nat) (o : Bool) (hq : q < t.n)
    (hp1 : t.n ≤ p) (hp2 : p < 2 * t.n) (hx : (t.row p).x q = true) :
    proj t.n (Zq q o) * rho t.n (STab.ofTab t) * proj t.n (Zq q o)
      = (1 / 2 : ℂ) • rho t.n (STab.ofTab (t.measRandom q p o)) := by
  have hgood := ofTab_good t hv
  let S := STab.ofTab t
  let k := p - t.n
  have hk : k < t.n := by show p - t.n < t.n; omega
  have hkp : k + t.n = p := by show p - t.n + t.n = p; omega
  let sel : Nat → Bool := fun m => (S.row m).x q
  let S1 := S.sweep k sel
  have hSn : S.n = t.n := rfl
  -- gauge step: multiply the other rows that anticommute with Z_q by the pivot
  have hgauge : rho t.n S = rho t.n S1 := rho_spanEq S S1 (STab.sweep_spanEq S k sel hk hgood) hgood
    (STab.sweep_good S k sel hk hgood)
  have hrow : ∀ m, m < t.n → S1.row m = if m ≠ k ∧ sel m then PRow.mul t.n (S.row k) (S.row m) else S.row m :=
    fun m hm => STab.sweep_row S k sel hk hgood m hm
  have hSk : S.row k = t.row p := by rw [ofTab_row_real t hr k hk, hkp]
  have hxk : (S1.row k).x q = true := by
    rw [hrow k hk]; simp only [ne_eq, not_true_eq_false, false_and, if_false]; rw [hSk]; exact hx
  have hxo : ∀ i, i < t.n → i ≠ k → (S1.row i).x q = false := by
    intro i hi hik
    rw [hrow i hi]
    by_cases hs : sel i = true
    · rw [if_pos ⟨hik, hs⟩]
      show xor ((S.row k).x q) ((S.row i).x q) = false
      have : (S.row i).x q = true := hs
      rw [this, hSk, hx]; rfl
    · rw [if_neg (fun h => hs h.2)]
      simpa [sel] using hs
  have hmain := proj_rhoTo_proj t.n S1.row t.n k (Zq q o) hk rfl
    (by rw [sp_Zq _ _ _ _ hq]; exact hxk)
    (fun i hi hik => by rw [sp_Zq _ _ _ _ hq]; exact hxo i hi hik)
  show proj t.n (Zq q o) * rho t.n S * proj t.n (Zq q o) = _
  rw [hgauge]
  show proj t.n (Zq q o) * rhoTo t.n S1.row t.n * proj t.n (Zq q o) = _
  rw [hmain]
  congr 1
  show rhoTo t.n (replaceRow S1.row k (Zq q o)) t.n = rhoTo t.n (STab.ofTab (t.measRandom q p o)).row t.n
  apply rhoTo_congr
  intro i hi
  by_cases hik : i = k
  · rw [hik]
    have e1 : replaceRow S1.row k (Zq q o) k = Zq q o := by simp [replaceRow]
    rw [e1]
    show EqOn t.n (Zq q o) { ((t.measRandom q p o).row (k + t.n)) with ip := false }
    rw [hkp]
    refine ⟨fun j _ => ?_, ?_, ?_⟩ <;> simp [Tab.measRandom, Zq]
  · have e1 : replaceRow S1.row k (Zq q o) i = S1.row i := by simp [replaceRow, hik]
    rw [e1, hrow i hi]
    have h1 : i + t.n ≠ p := by omega
    have h2 : i + t.n + t.n ≠ p := by omega
    show EqOn t.n _ { ((t.measRandom q p o).row (i + t.n)) with ip := false }
    rw [Tab.mr_row_o t q p (i + t.n) o h1 h2]
    have hSi : S.row i = t.row (i + t.n) := ofTab_row_real t hr i hi
    have hsel : sel i = (t.row (i + t.n)).x q := by show (S.row i).x q = _; rw [hSi]
    unfold Tab.addIf
    by_cases hs : (t.row (i + t.n)).x q = true
    · rw [if_pos ⟨hik, by rw [hsel]; exact hs⟩, if_pos hs, hSk, hSi]
      have hreal : (PRow.mul t.n (t.row p) (t.row (i + t.n))).ip = false :=
        mul_real t.n _ _ (hr p hp1 hp2) (hr (i + t.n) (by omega) (by omega))
          (by rw [hv p (i + t.n) hp2 (by omega)]; exact decide_eq_false (by omega))
      rw [STab.with_ip_false _ hreal]
      exact EqOn.refl _ _
    · rw [if_neg (fun h => hs (by rw [← hsel]; exact h.2)), if_neg hs, hSi,
        STab.with_ip_false _ (hr (i + t.n) (by omega) (by omega))]
      exact EqOn.refl _ _

/-- real stabilizer rows stay real in the random branch -/
theorem measRandom_stabReal (t : Tab) (hv : t.Valid) (hr : t.StabReal) (q p : Nat) (o : Bool)
    (hp1 : t.n ≤ p) (hp2 : p < 2 * t.n) : (t.measRandom q p o).StabReal := by
  intro i hi1 hi2
  have hn : (t.measRandom q p o).n = t.n := rfl
  rw [hn] at hi1 hi2
  by_cases hip : i = p
  · subst hip
    simp only [Tab.measRandom, if_true]
    exact hr i hp1 hp2
  · have h2 : i + t.n ≠ p := by omega
    rw [Tab.mr_row_o t q p i o hip h2]
    unfold Tab.addIf
    split
    · exact mul_real t.n _ _ (hr p hp1 hp2) (hr i hi1 hi2)
        (by rw [hv p i hp2 hi2]; exact decide_eq_false (by omega))
    · exact hr i hi1 hi2

/-- probability of each outcome in the random branch: `tr(Π_o ρ Π_o) = ½` -/
theorem measRandom_prob (t : Tab) (hv : t.Valid) (hr : t.StabReal) (q p : Nat) (o : Bool) (hq : q < t.n)
    (hp1 : t.n ≤ p) (hp2 : p < 2 * t.n) (hx : (t.row p).x q = true) :
    Matrix.trace (proj t.n (Zq q o) * rho t.n (STab.ofTab t) * proj t.n (Zq q o)) = 1 / 2 := by
  rw [measRandom_state t hv hr q p o hq hp1 hp2 hx, Matrix.trace_smul]
  have := rho_ofTab_trace (t.measRandom q p o) (Tab.measRandom_valid t q p o hv hq hp1 hp2 hx)
  have hn : (t.measRandom q p o).n = t.n := rfl
  rw [hn] at this
  rw [this]; simp

/-! ### the deterministic branch -/

/-- the span of the stabilizer half of a tableau with real stabilizer rows is the span of `ofTab` -/
theorem inSpan_ofTab (t : Tab) (hr : t.StabReal) (a : PRow) (h : Tab.InSpan t.n t.n t.stab a) :
    (STab.ofTab t).Spn a := by
  unfold STab.Spn
  show Tab.InSpan t.n t.n (STab.ofTab t).row a
  induction h with
  | one => exact Tab.InSpan.one
  | gen i hi =>
    have : t.stab i = (STab.ofTab t).row i := (ofTab_row_real t hr i hi).symm
    rw [this]; exact Tab.InSpan.gen i hi
  | mul a b _ _ iha ihb => exact Tab.InSpan.mul a b iha ihb
  | eqv a b _ hab iha => exact Tab.InSpan.eqv a b iha hab

/-- **Deterministic branch.**  Valid tableau, real stabilizer rows; if the scratch row of the deterministic branch has
    the Pauli bits of `Z_q` (it always lies in the stabilizer group), then with `s` = the reported outcome
    (`scratch.r`): `Z_q ρ = (-1)^s ρ`, the projector of the reported outcome fixes the state and the other projector
    annihilates it — the outcome has probability 1 and the state does not change, as the model's `zMeasure` says. -/
theorem measDet_state_of_bits (t : Tab) (hv : t.Valid) (hr : t.StabReal) (q : Nat)
    (hbits : SameBits t.n (t.measScratch q) (Zq q)) :
    pauliMat t.n (Zq q (t.measScratch q).r) * rho t.n (STab.ofTab t) = rho t.n (STab.ofTab t) ∧
    proj t.n (Zq q (t.measScratch q).r) * rho t.n (STab.ofTab t) * proj t.n (Zq q (t.measScratch q).r)
      = rho t.n (STab.ofTab t) ∧
    proj t.n (Zq q (!(t.measScratch q).r)) * rho t.n (STab.ofTab t) = 0 := by
  have hgood := ofTab_good t hv
  have hspan : (STab.ofTab t).Spn (t.measScratch q) := inSpan_ofTab t hr _ (Tab.measScratch_inSpan t q)
  have hreal : (t.measScratch q).ip = false := STab.spn_real _ hgood _ hspan
  have heq : EqOn t.n (t.measScratch q) (Zq q (t.measScratch q).r) := ⟨hbits, rfl, hreal⟩
  have hfix : pauliMat t.n (Zq q (t.measScratch q).r) * rho t.n (STab.ofTab t) = rho t.n (STab.ofTab t) := by
    rw [← pauliMat_congr t.n _ _ heq]
    exact span_mul_rho (STab.ofTab t) hgood _ hspan
  have hP : proj t.n (Zq q (t.measScratch q).r) * rho t.n (STab.ofTab t) = rho t.n (STab.ofTab t) := by
    unfold proj
    rw [smul_mul_assoc, add_mul, Matrix.one_mul, hfix, ← two_smul ℂ, smul_smul]; norm_num
  have hherm : (rho t.n (STab.ofTab t))ᴴ = rho t.n (STab.ofTab t) := rho_hermitian (STab.ofTab t) hgood
  have hP' : rho t.n (STab.ofTab t) * proj t.n (Zq q (t.measScratch q).r) = rho t.n (STab.ofTab t) := by
    have := congrArg Matrix.conjTranspose hP
    rw [Matrix.conjTranspose_mul, hherm, proj_hermitian t.n _ rfl] at this
    exact this
  refine ⟨hfix, by rw [hP, hP'], ?_⟩
  have hneg : pauliMat t.n (Zq q (!(t.measScratch q).r)) = -pauliMat t.n (Zq q (t.measScratch q).r) :=
    pauliMat_neg t.n (Zq q (t.measScratch q).r)
  unfold proj
  rw [smul_mul_assoc, add_mul, Matrix.one_mul, hneg, Matrix.neg_mul, hfix, add_neg_cancel, smul_zero]

/-- the deterministic branch without extra hypothesis: `pivot = none` on a valid tableau -/
theorem measDet_state (t : Tab) (hv : t.Valid) (hr : t.StabReal) (q : Nat) (hq : q < t.n) (hp : t.pivot q = none) :
    pauliMat t.n (Zq q (t.measScratch q).r) * rho t.n (STab.ofTab t) = rho t.n (STab.ofTab t) ∧
    proj t.n (Zq q (t.measScratch q).r) * rho t.n (STab.ofTab t) * proj t.n (Zq q (t.measScratch q).r)
      = rho t.n (STab.ofTab t) ∧
    proj t.n (Zq q (!(t.measScratch q).r)) * rho t.n (STab.ofTab t) = 0 :=
  measDet_state_of_bits t hv hr q (measScratch_bits t hv q hq hp)

/-! ### reality of the stabilizer rows is an invariant of gates -/

theorem map_stabReal (t : Tab) (f : PRow → PRow) (hf : ∀ a, (f a).ip = a.ip) (hr : t.StabReal) : (t.map f).StabReal := by
  intro i h1 h2
  show (f (t.row i)).ip = false
  rw [hf]; exact hr i h1 h2

theorem gate_stabReal (t : Tab) (g : Gate) (hr : t.StabReal) : (t.map g.act).StabReal :=
  map_stabReal t _ (Gate.act_ip g) hr

theorem ket0_stabReal (n : Nat) : (Tab.ket0 n).StabReal := by
  intro i h1 _
  have h1' : n ≤ i := h1
  have : ¬ i < n := by omega
  simp [Tab.ket0, this, Zq]

/-- the stabilizer half of `CliffordTableau(n)` is `StabilizerTableau(n)`, i.e. the state `|0…0⟩⟨0…0|` -/
theorem rho_ket0 (n : Nat) : rho n (STab.ofTab (Tab.ket0 n)) = rho n (STab.zero n) := by
  apply rhoTo_congr
  intro i hi
  show EqOn n { (Tab.ket0 n).row (i + n) with ip := false } (Zq i)
  have h1 : ¬ i + n < n := by omega
  have h2 : i + n - n = i := by omega
  simp only [Tab.ket0, h1, if_false, h2]
  exact EqOn.refl _ _

end Hilbert
end Graphiq
