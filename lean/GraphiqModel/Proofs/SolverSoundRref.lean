/-
  Proofs/SolverSoundRref.lean — `rref` (row-reduced echelon form of a stabilizer tableau, stabilizer.py) keeps the
  signed stabilizer group: both inclusions, and the result is again a real commuting generating set.  All sizes.

  `Proofs/StabTableau.lean` proves one inclusion (`rref_sub`).  The other inclusion needs every `tab_row_sum` of the
  algorithm to act on two DISTINCT rows (a row multiplied by itself would lose a generator); the index lists of
  `pauli_type_finder` are strictly increasing filters of `range n`, which gives the distinctness.
-/
import GraphiqModel.Proofs.StabTableau
namespace Graphiq
open PRow Tab

namespace STab

/-- the invariant carried through `rref`: same signed group as `t0`, and real commuting generators -/
structure Eqv (t0 t : STab) : Prop where
  se : SpanEq t0 t
  good : t.Good

theorem Eqv.refl (t : STab) (hg : t.Good) : Eqv t t := ⟨SpanEq.refl t, hg⟩

theorem Eqv.n_eq {t0 t : STab} (h : Eqv t0 t) : t.n = t0.n := h.se.n_eq.symm

theorem eqv_norm (t0 t : STab) (h : Eqv t0 t) : Eqv t0 t.norm :=
  ⟨h.se.trans (norm_spanEq t), norm_good t h.good⟩

theorem eqv_rowSwap (t0 t : STab) (a b : Nat) (ha : a < t.n) (hb : b < t.n) (h : Eqv t0 t) : Eqv t0 (t.rowSwap a b) :=
  ⟨h.se.trans (rowSwap_spanEq t a b ha hb), rowSwap_good t a b ha hb h.good⟩

theorem eqv_rowSum (t0 t : STab) (a b : Nat) (ha : a < t.n) (hb : b < t.n) (hne : a ≠ b) (h : Eqv t0 t) :
    Eqv t0 (t.rowSum a b) :=
  ⟨h.se.trans (rowSum_spanEq t a b ha hb hne h.good), rowSum_good t a b ha hb h.good⟩

theorem eqv_foldl_rowSum (t0 : STab) (pr : Nat) (l : List Nat) (t : STab) (hp : pr < t.n)
    (hl : ∀ i, i ∈ l → i < t.n ∧ pr ≠ i) (h : Eqv t0 t) : Eqv t0 (l.foldl (fun acc i => acc.rowSum pr i) t) := by
  induction l generalizing t with
  | nil => exact h
  | cons x rest ih =>
    simp only [List.foldl]
    exact ih (t.rowSum pr x) hp (fun i hi => hl i (List.mem_cons_of_mem _ hi))
      (eqv_rowSum t0 t pr x hp (hl x List.mem_cons_self).1 (hl x List.mem_cons_self).2 h)

/-! ### the index lists of `pauli_type_finder` are strictly increasing and sorted by Pauli type -/

theorem typeFinder_sorted (t : STab) (pr pc : Nat) :
    (t.pauliTypeFinder pr pc).1.Pairwise (· < ·) ∧ (t.pauliTypeFinder pr pc).2.1.Pairwise (· < ·) ∧
      (t.pauliTypeFinder pr pc).2.2.Pairwise (· < ·) := by
  simp only [pauliTypeFinder]
  exact ⟨List.Pairwise.filter _ (List.Pairwise.filter _ List.pairwise_lt_range),
    List.Pairwise.filter _ (List.Pairwise.filter _ List.pairwise_lt_range),
    List.Pairwise.filter _ (List.Pairwise.filter _ List.pairwise_lt_range)⟩

theorem pickType_sorted_ss (t : STab) (pr pc ty : Nat) : (t.pickType pr pc ty).Pairwise (· < ·) := by
  unfold pickType
  split
  · exact (typeFinder_sorted t pr pc).1
  · split
    · exact (typeFinder_sorted t pr pc).2.1
    · exact (typeFinder_sorted t pr pc).2.2

/-- the elements after the head of a strictly increasing list are larger than the head -/
theorem tail_gt_of_sorted (a : Nat) (l l0 : List Nat) (hs : l0.Pairwise (· < ·)) (e : l0 = a :: l) :
    ∀ i, i ∈ l → a < i := by
  subst e
  exact (List.pairwise_cons.mp hs).1

theorem pickType_tail_gt (t : STab) (pr pc ty a : Nat) (l : List Nat) (e : t.pickType pr pc ty = a :: l) :
    ∀ i, i ∈ l → a < i :=
  tail_gt_of_sorted a l _ (pickType_sorted_ss t pr pc ty) e

theorem mem_typeFinder_ptype (t : STab) (pr pc f : Nat) :
    (f ∈ (t.pauliTypeFinder pr pc).1 → t.ptype f pc = 1) ∧ (f ∈ (t.pauliTypeFinder pr pc).2.1 → t.ptype f pc = 2) ∧
      (f ∈ (t.pauliTypeFinder pr pc).2.2 → t.ptype f pc = 3) := by
  simp only [pauliTypeFinder, List.mem_filter, decide_eq_true_eq]
  exact ⟨fun h => h.2, fun h => h.2, fun h => h.2⟩

/-- the Pauli type selected by `pickType` (1 = x, 2 = y, otherwise z) -/
def tcode (ty : Nat) : Nat := if ty = 1 then 1 else if ty = 2 then 2 else 3

theorem mem_pickType_ptype (t : STab) (pr pc ty f : Nat) (h : f ∈ t.pickType pr pc ty) : t.ptype f pc = tcode ty := by
  unfold pickType at h
  unfold tcode
  split at h
  · next e => rw [if_pos e]; exact (mem_typeFinder_ptype t pr pc f).1 h
  · next e =>
    rw [if_neg e]
    split at h
    · next e2 => rw [if_pos e2]; exact (mem_typeFinder_ptype t pr pc f).2.1 h
    · next e2 => rw [if_neg e2]; exact (mem_typeFinder_ptype t pr pc f).2.2 h

/-! ### which rows a row sum / a tabulation touches -/

theorem rowSum_row_ne (t : STab) (a b i : Nat) (h : i ≠ b) : (t.rowSum a b).row i = t.row i := by
  simp [rowSum, upd, h]

theorem foldl_rowSum_row_ss (pr : Nat) (l : List Nat) (t : STab) (i : Nat) (hi : i ∉ l) :
    (l.foldl (fun acc k => acc.rowSum pr k) t).row i = t.row i := by
  induction l generalizing t with
  | nil => rfl
  | cons x rest ih =>
    simp only [List.foldl]
    rw [ih (t.rowSum pr x) (fun h => hi (List.mem_cons_of_mem _ h))]
    exact rowSum_row_ne t pr x i (fun e => hi (e ▸ List.mem_cons_self))

theorem ptype_congr (t t' : STab) (i pc : Nat) (h : t'.row i = t.row i) : t'.ptype i pc = t.ptype i pc := by
  unfold ptype; rw [h]

theorem norm_ptype (t : STab) (i pc : Nat) (hi : i < t.n) (hpc : pc < t.n) : t.norm.ptype i pc = t.ptype i pc := by
  have h := (norm_row t i hi).1 pc hpc
  unfold ptype; rw [h.1, h.2]

/-! ### `_process_one_pauli` -/

theorem eqv_processOne (t0 t : STab) (pr : Nat) (l : List Nat) (hp : pr < t.n) (hl : ∀ i, i ∈ l → pr ≤ i ∧ i < t.n)
    (hs : l.Pairwise (· < ·)) (h : Eqv t0 t) : Eqv t0 (t.processOne pr l) := by
  unfold processOne
  cases l with
  | nil => exact h
  | cons first rest =>
    simp only
    apply eqv_norm
    have hgt := (List.pairwise_cons.mp hs).1
    have hf := hl first List.mem_cons_self
    refine eqv_foldl_rowSum t0 pr rest _ hp (fun i hi => ⟨(hl i (List.mem_cons_of_mem _ hi)).2, ?_⟩)
      (eqv_rowSwap t0 t pr first hp hf.2 h)
    have := hgt i hi
    omega

/-! ### `_process_two_pauli` -/

/-- the shape of a successful `_process_two_pauli` -/
theorem processTwo_decomp (t t' : STab) (pr pc ty1 ty2 : Nat) (hr : t.processTwo pr pc ty1 ty2 = some t') :
    ∃ f1 f2 l1 l2, (pr ≤ f1 ∧ f1 < t.n) ∧ (pr ≤ f2 ∧ f2 < t.n) ∧ pr + 1 < t.n ∧
      (((t.rowSwap pr f1).norm.rowSwap (pr + 1) f2).norm).pickType pr pc ty1 = pr :: l1 ∧
      (((t.rowSwap pr f1).norm.rowSwap (pr + 1) f2).norm).pickType pr pc ty2 = (pr + 1) :: l2 ∧
      t' = (l2.foldl (fun acc i => acc.rowSum (pr + 1) i) (l1.foldl (fun acc i => acc.rowSum pr i)
        (((t.rowSwap pr f1).norm.rowSwap (pr + 1) f2).norm))).norm := by
  unfold processTwo at hr
  split at hr
  · cases hr
  · next f1 r1 e1 =>
    have b1 := mem_pickType t pr pc ty1 f1 (by rw [e1]; exact List.mem_cons_self)
    simp only at hr
    split at hr
    · cases hr
    · next f2 r2 e2 =>
      have b2 := mem_pickType _ pr pc ty2 f2 (by rw [e2]; exact List.mem_cons_self)
      split at hr
      · next hp1 =>
        split at hr
        · next a l1 b l2 ea eb =>
          split at hr
          · next hab =>
            injection hr with hr
            refine ⟨f1, f2, l1, l2, b1, b2, hp1, ?_, ?_, hr.symm⟩
            · rw [ea, hab.1]
            · rw [eb, hab.2]
          · cases hr
        · cases hr
      · cases hr

theorem eqv_processTwo (t0 t t' : STab) (pr pc ty1 ty2 : Nat) (h : Eqv t0 t)
    (hr : t.processTwo pr pc ty1 ty2 = some t') : Eqv t0 t' := by
  obtain ⟨f1, f2, l1, l2, b1, b2, hp1, ea, eb, e⟩ := processTwo_decomp t t' pr pc ty1 ty2 hr
  have hp : pr < t.n := by omega
  have s1 : Eqv t0 (t.rowSwap pr f1).norm := eqv_norm _ _ (eqv_rowSwap t0 t pr f1 hp b1.2 h)
  have s2 : Eqv t0 (((t.rowSwap pr f1).norm.rowSwap (pr + 1) f2).norm) :=
    eqv_norm _ _ (eqv_rowSwap t0 (t.rowSwap pr f1).norm (pr + 1) f2 hp1 b2.2 s1)
  have hl1 : ∀ i, i ∈ l1 → i < t.n ∧ pr ≠ i := fun i hi =>
    ⟨(mem_pickType (((t.rowSwap pr f1).norm.rowSwap (pr + 1) f2).norm) pr pc ty1 i
        (by rw [ea]; exact List.mem_cons_of_mem _ hi)).2,
      Nat.ne_of_lt (pickType_tail_gt _ pr pc ty1 pr l1 ea i hi)⟩
  have hl2 : ∀ i, i ∈ l2 → i < t.n ∧ pr + 1 ≠ i := fun i hi =>
    ⟨(mem_pickType (((t.rowSwap pr f1).norm.rowSwap (pr + 1) f2).norm) pr pc ty2 i
        (by rw [eb]; exact List.mem_cons_of_mem _ hi)).2,
      Nat.ne_of_lt (pickType_tail_gt _ pr pc ty2 (pr + 1) l2 eb i hi)⟩
  have s3 := eqv_foldl_rowSum t0 pr l1 (((t.rowSwap pr f1).norm.rowSwap (pr + 1) f2).norm) hp hl1 s2
  rw [e]
  apply eqv_norm
  exact eqv_foldl_rowSum t0 (pr + 1) l2 _ (by rw [foldl_rowSum_n]; exact hp1)
    (fun i hi => by rw [foldl_rowSum_n]; exact hl2 i hi) s3

/-- after `_process_two_pauli` for two different Pauli types, rows `pr` and `pr + 1` carry these types at the pivot column -/
theorem processTwo_ptype (t t' : STab) (pr pc ty1 ty2 : Nat) (hpc : pc < t.n) (hty : tcode ty1 ≠ tcode ty2)
    (hr : t.processTwo pr pc ty1 ty2 = some t') :
    t'.ptype pr pc = tcode ty1 ∧ t'.ptype (pr + 1) pc = tcode ty2 := by
  obtain ⟨f1, f2, l1, l2, b1, b2, hp1, ea, eb, e⟩ := processTwo_decomp t t' pr pc ty1 ty2 hr
  have hp : pr < t.n := by omega
  generalize ht2 : ((t.rowSwap pr f1).norm.rowSwap (pr + 1) f2).norm = t2 at ea eb e
  have n2 : t2.n = t.n := by rw [← ht2]; rfl
  have p1 : t2.ptype pr pc = tcode ty1 := mem_pickType_ptype t2 pr pc ty1 pr (by rw [ea]; exact List.mem_cons_self)
  have p2 : t2.ptype (pr + 1) pc = tcode ty2 :=
    mem_pickType_ptype t2 pr pc ty2 (pr + 1) (by rw [eb]; exact List.mem_cons_self)
  have g1 := pickType_tail_gt t2 pr pc ty1 pr l1 ea
  have g2 := pickType_tail_gt t2 pr pc ty2 (pr + 1) l2 eb
  have npr1 : pr ∉ l1 := fun hm => Nat.lt_irrefl _ (g1 pr hm)
  have npr2 : pr ∉ l2 := fun hm => by have := g2 pr hm; omega
  have nq2 : pr + 1 ∉ l2 := fun hm => Nat.lt_irrefl _ (g2 (pr + 1) hm)
  have nq1 : pr + 1 ∉ l1 := by
    intro hm
    have : t2.ptype (pr + 1) pc = tcode ty1 :=
      mem_pickType_ptype t2 pr pc ty1 (pr + 1) (by rw [ea]; exact List.mem_cons_of_mem _ hm)
    exact hty (this.symm.trans p2)
  have nf : (l2.foldl (fun acc i => acc.rowSum (pr + 1) i) (l1.foldl (fun acc i => acc.rowSum pr i) t2)).n = t.n := by
    rw [foldl_rowSum_n, foldl_rowSum_n, n2]
  have rowk : ∀ k, k ∉ l1 → k ∉ l2 →
      (l2.foldl (fun acc i => acc.rowSum (pr + 1) i) (l1.foldl (fun acc i => acc.rowSum pr i) t2)).row k = t2.row k := by
    intro k h1 h2
    rw [foldl_rowSum_row_ss (pr + 1) l2 _ k h2, foldl_rowSum_row_ss pr l1 t2 k h1]
  rw [e]
  constructor
  · rw [norm_ptype _ pr pc (by rw [nf]; exact hp) (by rw [nf]; exact hpc), ptype_congr _ _ pr pc (rowk pr npr1 npr2)]
    exact p1
  · rw [norm_ptype _ (pr + 1) pc (by rw [nf]; exact hp1) (by rw [nf]; exact hpc),
      ptype_congr _ _ (pr + 1) pc (rowk (pr + 1) nq1 nq2)]
    exact p2

/-! ### the "xyz" branch: `ys1.foldl (fun acc k => (acc.rowSum pr k).rowSum (pr + 1) k)` -/

theorem eqv_foldl_rowSum2 (t0 : STab) (pr : Nat) (l : List Nat) (t : STab) (hp : pr + 1 < t.n)
    (hl : ∀ i, i ∈ l → i < t.n ∧ pr ≠ i ∧ pr + 1 ≠ i) (h : Eqv t0 t) :
    Eqv t0 (l.foldl (fun acc k => (acc.rowSum pr k).rowSum (pr + 1) k) t) := by
  induction l generalizing t with
  | nil => exact h
  | cons x rest ih =>
    simp only [List.foldl]
    have hx := hl x List.mem_cons_self
    exact ih _ hp (fun i hi => hl i (List.mem_cons_of_mem _ hi))
      (eqv_rowSum t0 _ (pr + 1) x hp hx.1 hx.2.2 (eqv_rowSum t0 t pr x (by omega) hx.1 hx.2.1 h))

/-! ### `one_step_rref`, the loop, `rref` -/

theorem eqv_oneStepRref (t0 t t' : STab) (pr pc pr' pc' : Nat) (b : String) (hp : pr < t.n) (hpc : pc < t.n)
    (h : Eqv t0 t) (hr : t.oneStepRref pr pc = some (t', pr', pc', b)) : Eqv t0 t' := by
  unfold oneStepRref at hr
  have hsorted := typeFinder_sorted t pr pc
  have hmem := mem_typeFinder t pr pc
  generalize hft : t.pauliTypeFinder pr pc = ft at hr hsorted hmem
  obtain ⟨xs, ys, zs⟩ := ft
  simp only at hr hsorted hmem
  have bx : ∀ i, i ∈ xs → pr ≤ i ∧ i < t.n := fun i hi => hmem i (Or.inl hi)
  have bY : ∀ i, i ∈ ys → pr ≤ i ∧ i < t.n := fun i hi => hmem i (Or.inr (Or.inl hi))
  have bz : ∀ i, i ∈ zs → pr ≤ i ∧ i < t.n := fun i hi => hmem i (Or.inr (Or.inr hi))
  split at hr
  · injection hr with hr; injection hr with hr; rw [← hr]; exact h
  · split at hr
    · injection hr with hr; injection hr with hr; rw [← hr]
      exact eqv_processOne t0 t pr xs hp bx hsorted.1 h
    · split at hr
      · injection hr with hr; injection hr with hr; rw [← hr]
        exact eqv_processOne t0 t pr ys hp bY hsorted.2.1 h
      · split at hr
        · injection hr with hr; injection hr with hr; rw [← hr]
          exact eqv_processOne t0 t pr zs hp bz hsorted.2.2 h
        · split at hr
          · cases hpt : t.processTwo pr pc 2 3 with
            | none => rw [hpt] at hr; cases hr
            | some t2 =>
              rw [hpt] at hr; simp only [Option.map] at hr
              injection hr with hr; injection hr with hr; rw [← hr]
              exact eqv_processTwo t0 t t2 pr pc 2 3 h hpt
          · split at hr
            · cases hpt : t.processTwo pr pc 1 3 with
              | none => rw [hpt] at hr; cases hr
              | some t2 =>
                rw [hpt] at hr; simp only [Option.map] at hr
                injection hr with hr; injection hr with hr; rw [← hr]
                exact eqv_processTwo t0 t t2 pr pc 1 3 h hpt
            · split at hr
              · cases hpt : t.processTwo pr pc 1 2 with
                | none => rw [hpt] at hr; cases hr
                | some t2 =>
                  rw [hpt] at hr; simp only [Option.map] at hr
                  injection hr with hr; injection hr with hr; rw [← hr]
                  exact eqv_processTwo t0 t t2 pr pc 1 2 h hpt
              · cases hpt : t.processTwo pr pc 1 3 with
                | none => rw [hpt] at hr; cases hr
                | some t1 =>
                  rw [hpt] at hr
                  simp only at hr
                  have s1 := eqv_processTwo t0 t t1 pr pc 1 3 h hpt
                  have n1 := processTwo_n t t1 pr pc 1 3 hpt
                  have pt := processTwo_ptype t t1 pr pc 1 3 hpc (by decide) hpt
                  injection hr with hr; injection hr with hr; rw [← hr]
                  apply eqv_norm
                  apply eqv_foldl_rowSum2 t0 pr _ t1 (by rw [n1.1]; exact n1.2) _ s1
                  intro i hi
                  have hty : t1.ptype i pc = 2 := (mem_typeFinder_ptype t1 pr pc i).2.1 hi
                  refine ⟨(mem_typeFinder t1 pr pc i (Or.inr (Or.inl hi))).2, ?_, ?_⟩
                  · intro e; subst e
                    have := pt.1.symm.trans hty
                    revert this; decide
                  · intro e; subst e
                    have := pt.2.symm.trans hty
                    revert this; decide

theorem oneStepRref_n (t t' : STab) (pr pc pr' pc' : Nat) (b : String)
    (hr : t.oneStepRref pr pc = some (t', pr', pc', b)) (hg : t.Good) (hp : pr < t.n) (hpc : pc < t.n) : t'.n = t.n :=
  (eqv_oneStepRref t t t' pr pc pr' pc' b hp hpc (Eqv.refl t hg) hr).n_eq

theorem eqv_rrefLoop (t0 : STab) (fuel : Nat) (t : STab) (pr pc : Nat) (brs : List String)
    (t' : STab) (pr' pc' : Nat) (brs' : List String) (h : Eqv t0 t)
    (hr : rrefLoop fuel t pr pc brs = .ok (t', pr', pc', brs')) : Eqv t0 t' := by
  induction fuel generalizing t pr pc brs with
  | zero => simp only [rrefLoop] at hr; injection hr with hr; injection hr with hr; rw [← hr]; exact h
  | succ fuel ih =>
    simp only [rrefLoop] at hr
    split at hr
    · next hb =>
      split at hr
      · cases hr
      · next t1 pr1 pc1 b hs =>
        exact ih t1 pr1 pc1 _ (eqv_oneStepRref t0 t t1 pr pc pr1 pc1 b (by omega) (by omega) h hs) hr
    · injection hr with hr; injection hr with hr; rw [← hr]; exact h

/-- **`rref` preserves the state**: whenever it returns, the echelon form generates the same signed stabilizer group
    as the input (both inclusions) and is again a real commuting generating set, for every number of qubits -/
theorem rref_spanEq_ss (t t' : STab) (brs : List String) (hg : t.Good) (hr : t.rref = .ok (t', brs)) :
    SpanEq t t' ∧ t'.Good := by
  unfold rref at hr
  split at hr
  · cases hr
  · next t1 pr1 pc1 brs1 hl =>
    split at hr
    · injection hr with hr; injection hr with hr; rw [← hr]
      have := eqv_rrefLoop t _ t 0 0 [] t1 pr1 pc1 brs1 (Eqv.refl t hg) hl
      exact ⟨this.se, this.good⟩
    · cases hr

end STab
end Graphiq
