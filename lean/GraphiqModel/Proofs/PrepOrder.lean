/-
  PrepOrder.lean — `unwrap_nodes` on the wires, in order: on every wire the sequence of operations becomes
  `flatMap unwrap` of the old sequence (the splice-in refinement for the whole edit).
-/
import GraphiqModel.Proofs.WireOps
set_option linter.unusedSectionVars false
set_option linter.unusedSimpArgs false
namespace Graphiq
namespace Metrics
open Dag Relation

theorem wireOps_range' (c : Dag) (g : Nat → NodeId) (hg : ∀ j, ∃ i, g j = .op i) (os : List Op) :
    ∀ s, (∀ p ∈ os.zipIdx s, c.opOf? (g p.2) = some p.1) → wireOps c ((List.range' s os.length).map g) = os := by
  induction os with
  | nil => intro s _; rfl
  | cons o rest ih =>
    intro s h
    rw [List.length_cons, List.range'_succ, List.map_cons]
    have h0 : c.opOf? (g s) = some o := h (o, s) (by simp [List.zipIdx_cons])
    have hrest := ih (s + 1) (fun p hp => h p (by rw [List.zipIdx_cons]; exact List.mem_cons_of_mem _ hp))
    obtain ⟨i, hi⟩ := hg s
    unfold wireOps at hrest ⊢
    rw [List.filterMap_cons]
    rw [hi] at h0 ⊢
    simp only [h0]
    rw [hrest]

theorem flatMap_unwrap_of_base {l : List Op} (h : ∀ o ∈ l, o.kind ≠ .wrapper) : l.flatMap Op.unwrap = l := by
  induction l with
  | nil => rfl
  | cons a t ih =>
    rw [List.flatMap_cons, unwrap_of_not_wrapper (h a (by simp)), ih (fun o ho => h o (List.mem_cons_of_mem _ ho))]
    rfl

theorem unwrap_base_of_plain {w : Op} (hp : PlainOp' w) : ∀ o ∈ w.unwrap, o.kind ≠ .wrapper := by
  intro o ho
  by_cases hk : w.kind = .wrapper
  · unfold Op.unwrap at ho
    rw [hk] at ho
    obtain ⟨k, hk', rfl⟩ := List.mem_map.mp ho
    exact hp.inner_base k (List.mem_reverse.mp hk')
  · rw [unwrap_of_not_wrapper hk] at ho
    simp at ho; rw [ho]; exact hk

/-- unwrapping one wrapper node: on every wire, `flatMap unwrap` of the operation sequence is unchanged; the other
    nodes keep their operations -/
theorem unwrapNode_wires {c : Dag} {P : Paths} (g : Good c P) {i : Nat} {w : Op} (hw : (NodeId.op i, w) ∈ c.nodes)
    (hk : w.kind = .wrapper) (hp : PlainOp' w) :
    ∃ P', Good ((c.unwrapOne (.op i) w.unwrap).1.removeOp (.op i)).1 P' ∧
      (∀ r, (wireOps ((c.unwrapOne (.op i) w.unwrap).1.removeOp (.op i)).1 (P' r)).flatMap Op.unwrap =
        (wireOps c (P r)).flatMap Op.unwrap) ∧
      (∀ x, x ≠ .op i → x ∈ c.nodeIds → ((c.unwrapOne (.op i) w.unwrap).1.removeOp (.op i)).1.opOf? x = c.opOf? x) := by
  obtain ⟨r, X, Y, P', hq, hP, g2, hP', hoth, hnew⟩ := unwrapNode_refines g hw hk
  have hwf := g.inv.op_wf i w hw
  obtain ⟨_, hc, _⟩ := hwf.wrapper_shape hk
  -- operations of the other old nodes are unchanged
  obtain ⟨_, u2⟩ := opsOf_unwrapOne g hw hq hc w.unwrap (unwrap_ops_wf hwf hk hq)
  obtain ⟨_, P1, g1, _, _, a4, _⟩ := unwrapOne_good g hw hq hc w.unwrap (unwrap_ops_wf hwf hk hq)
  have hold : ∀ x, x ≠ .op i → x ∈ c.nodeIds →
      ((c.unwrapOne (.op i) w.unwrap).1.removeOp (.op i)).1.opOf? x = c.opOf? x := by
    intro x hx hxm
    obtain ⟨ox, hox⟩ := mem_nodeIds.mp hxm
    have h1 : (c.unwrapOne (.op i) w.unwrap).1.opOf? x = some ox := by
      rw [u2 x hx hxm]; exact (opOf_eq_some g.inv.ids_nodup).mpr hox
    have hm1 := (opOf_eq_some g1.inv.ids_nodup).mp h1
    have hrm := removeOp_eq ((opOf_eq_some g1.inv.ids_nodup).mpr a4)
    have F := removeFacts g1.inv (.op i)
    have hm2 : (x, ox) ∈ ((c.unwrapOne (.op i) w.unwrap).1.removeOp (.op i)).1.nodes := by
      rw [hrm]; simp only [removed, F.nodes]
      exact List.mem_filter.mpr ⟨hm1, by simpa using hx⟩
    rw [(opOf_eq_some g2.inv.ids_nodup).mpr hm2, (opOf_eq_some g.inv.ids_nodup).mpr hox]
  refine ⟨P', g2, ?_, hold⟩
  intro r'
  have hnd := g.inv.nodup r
  rw [hP] at hnd
  have hnX : NodeId.op i ∉ X := fun hm => (List.nodup_append.mp hnd).2.2 _ hm _ (by simp) rfl
  have hnY : NodeId.op i ∉ Y := by
    have := (List.nodup_append.mp hnd).2.1
    exact (List.nodup_cons.mp this).1
  have holdL : ∀ (l : List NodeId), (∀ x ∈ l, x ≠ .op i ∧ x ∈ c.nodeIds) →
      wireOps ((c.unwrapOne (.op i) w.unwrap).1.removeOp (.op i)).1 l = wireOps c l :=
    fun l hl => wireOps_congr (fun x hx => hold x (hl x hx).1 (hl x hx).2)
  by_cases hr : r' = r
  · subst hr
    rw [hP', hP]
    have e1 : X ++ NodeId.op i :: Y = X ++ ([NodeId.op i] ++ Y) := rfl
    rw [e1, wireOps_append, wireOps_append, wireOps_append, wireOps_append]
    have hXmem : ∀ x ∈ X, x ≠ .op i ∧ x ∈ c.nodeIds := fun x hx =>
      ⟨fun e => hnX (e ▸ hx), g.inv.mem_nodes r' x (by rw [hP]; exact List.mem_append_left _ hx)⟩
    have hYmem : ∀ x ∈ Y, x ≠ .op i ∧ x ∈ c.nodeIds := fun x hx =>
      ⟨fun e => hnY (e ▸ hx), g.inv.mem_nodes r' x (by rw [hP]; simp [hx])⟩
    rw [holdL X hXmem, holdL Y hYmem]
    have hnews : wireOps ((c.unwrapOne (.op i) w.unwrap).1.removeOp (.op i)).1
        ((List.range w.unwrap.length).map fun j => NodeId.op (c.nodeId + 1 + j)) = w.unwrap := by
      rw [List.range_eq_range']
      apply wireOps_range' _ (fun j => NodeId.op (c.nodeId + 1 + j)) (fun j => ⟨_, rfl⟩) w.unwrap 0
      intro p hp
      exact (opOf_eq_some g2.inv.ids_nodup).mpr (hnew p hp)
    have hone : wireOps c [NodeId.op i] = [w] := by
      simp [wireOps, (opOf_eq_some g.inv.ids_nodup).mpr hw]
    rw [hnews, hone]
    simp only [List.flatMap_append, List.flatMap_cons, List.flatMap_nil, List.append_nil]
    rw [flatMap_unwrap_of_base (unwrap_base_of_plain hp), List.append_assoc]
  · rw [hoth r' hr]
    have hn' : NodeId.op i ∉ P r' := by
      intro hm
      by_cases hkc : r'.ty = .c
      · have : r' = ⟨.c, r'.idx⟩ := by cases r' with | mk t j => simp at hkc; subst hkc; rfl
        rw [this] at hm
        have := g.mem.mem_c i w hw _ hm
        rw [hc] at this; simp at this
      · have := (g.mem.mem_q i w hw r' hkc).mp hm
        rw [hq] at this; simp at this; exact hr this
    rw [holdL (P r') (fun x hx => ⟨fun e => hn' (e ▸ hx), g.inv.mem_nodes r' x hx⟩)]

end Metrics
end Graphiq

namespace Graphiq
namespace Metrics
open Dag Relation

theorem unwrapLoop_wires {c : Dag} {P : Paths} (g : Good c P) (ns : List NodeId) (hnd : ns.Nodup)
    (hns : ∀ n ∈ ns, (∃ j, n = NodeId.op j) ∧ n ∈ c.nodeIds ∧ ∀ op, (n, op) ∈ c.nodes → op.kind = .wrapper ∧ PlainOp' op) :
    ∃ P', Good (c.unwrapLoop ns).1 P' ∧
      ∀ r, (wireOps (c.unwrapLoop ns).1 (P' r)).flatMap Op.unwrap = (wireOps c (P r)).flatMap Op.unwrap := by
  induction ns generalizing c P with
  | nil => exact ⟨P, g, fun _ => rfl⟩
  | cons n rest ih =>
    obtain ⟨⟨i, rfl⟩, hpres, hkind⟩ := hns n (by simp)
    have hnd' := List.nodup_cons.mp hnd
    obtain ⟨w, hw⟩ := mem_nodeIds.mp hpres
    have ho : c.opOf? (.op i) = some w := (opOf_eq_some g.inv.ids_nodup).mpr hw
    obtain ⟨hk, hp⟩ := hkind w hw
    have hwf := g.inv.op_wf i w hw
    obtain ⟨⟨r0, hq⟩, hc, _⟩ := hwf.wrapper_shape hk
    obtain ⟨P2, g2, hfl, hold⟩ := unwrapNode_wires g hw hk hp
    obtain ⟨a1, _, g1, _, _, a4, _⟩ := unwrapOne_good g hw hq hc w.unwrap (unwrap_ops_wf hwf hk hq)
    obtain ⟨b1, _, _, _⟩ := removeOp_good g1 (mem_nodeIds.mpr ⟨w, a4⟩)
    unfold unwrapLoop
    rw [ho]
    simp only
    cases hres : c.unwrapOne (.op i) w.unwrap with
    | mk c1 err =>
      rw [hres] at a1 b1 g2 hfl hold
      simp only at a1 b1 g2 hfl hold
      subst a1
      simp only
      cases hres2 : c1.removeOp (.op i) with
      | mk c2 err2 =>
        rw [hres2] at b1 g2 hfl hold
        simp only at b1 g2 hfl hold
        subst b1
        simp only
        have hns' : ∀ x ∈ rest, (∃ j, x = NodeId.op j) ∧ x ∈ c2.nodeIds ∧
            ∀ op, (x, op) ∈ c2.nodes → op.kind = .wrapper ∧ PlainOp' op := by
          intro x hx
          obtain ⟨hj, hxm, hkx⟩ := hns x (List.mem_cons_of_mem _ hx)
          have hxne : x ≠ .op i := fun e => hnd'.1 (e ▸ hx)
          have hop := hold x hxne hxm
          obtain ⟨ox, hox⟩ := mem_nodeIds.mp hxm
          have h2 : c2.opOf? x = some ox := by rw [hop]; exact (opOf_eq_some g.inv.ids_nodup).mpr hox
          refine ⟨hj, mem_nodeIds.mpr ⟨ox, (opOf_eq_some g2.inv.ids_nodup).mp h2⟩, ?_⟩
          intro op hopm
          have h3 := (opOf_eq_some g2.inv.ids_nodup).mpr hopm
          rw [hop] at h3
          exact hkx op ((opOf_eq_some g.inv.ids_nodup).mp h3)
        obtain ⟨P3, g3, hfl3⟩ := ih g2 hnd'.2 hns'
        exact ⟨P3, g3, fun r => (hfl3 r).trans (hfl r)⟩

theorem mem_wireOps {c : Dag} (hnd : c.nodeIds.Nodup) {l : List NodeId} {o : Op} (h : o ∈ wireOps c l) : o ∈ opsOf c := by
  unfold wireOps at h
  obtain ⟨n, _, hn⟩ := List.mem_filterMap.mp h
  cases n with
  | inp r => simp at hn
  | out r => simp at hn
  | op i => exact mem_opsOf.mpr ⟨i, (opOf_eq_some hnd).mp hn⟩

/-- **`unwrap_nodes` on the wires (splice-in, whole edit)**: on a plain circuit every wire afterwards carries, in
    order, the unwrapped operations of what it carried before -/
theorem unwrapNodes_wires {c : Dag} {P : Paths} (g : Good c P) (hpl : AllPlain c) :
    ∃ P', Good c.unwrapNodes.1 P' ∧ ∀ r, wireOps c.unwrapNodes.1 (P' r) = (wireOps c (P r)).flatMap Op.unwrap := by
  obtain ⟨hnd, hmem⟩ := classList_spec g hpl .wrapper (by decide) (by decide) (by decide) (by decide)
  have hname : Kind.wrapper.name = "OneQubitGateWrapper" := rfl
  rw [hname] at hnd hmem
  have hns : ∀ n ∈ dictGet c.nodeDict "OneQubitGateWrapper", (∃ j, n = NodeId.op j) ∧ n ∈ c.nodeIds ∧
      ∀ op, (n, op) ∈ c.nodes → op.kind = .wrapper ∧ PlainOp' op := by
    intro n hn
    obtain ⟨i, op, rfl, hm, hk⟩ := (hmem n).mp hn
    refine ⟨⟨i, rfl⟩, mem_nodeIds.mpr ⟨op, hm⟩, ?_⟩
    intro op' hm'
    have h1 := (opOf_eq_some g.inv.ids_nodup).mpr hm
    have h2 := (opOf_eq_some g.inv.ids_nodup).mpr hm'
    rw [h1] at h2; injection h2 with h2; subst h2
    exact ⟨hk, hpl i op hm⟩
  obtain ⟨P', g', hfl⟩ := unwrapLoop_wires g _ hnd hns
  rw [unwrapNodes_eq_loop]
  refine ⟨P', g', ?_⟩
  intro r
  rw [← hfl r]
  symm
  apply flatMap_unwrap_of_base
  intro o ho
  -- no wrapper is left in the circuit
  have hmemops := mem_wireOps g'.inv.ids_nodup ho
  have hcount := (unwrapNodes_count g hpl (fun o => decide (o.kind = .wrapper))).2
  rw [unwrapNodes_eq_loop] at hcount
  have hzero : ((opsOf c).flatMap Op.unwrap).countP (fun o => decide (o.kind = .wrapper)) = 0 := by
    rw [List.countP_eq_zero]
    intro o' ho'
    obtain ⟨w, hw, how⟩ := List.mem_flatMap.mp ho'
    obtain ⟨j, hj⟩ := mem_opsOf.mp hw
    simpa using unwrap_base_of_plain (hpl j w hj) o' how
  rw [hzero, List.countP_eq_zero] at hcount
  simpa using hcount o hmemops

end Metrics
end Graphiq

/-! ## `remove_identity` on the wires, in order -/
namespace Graphiq
namespace Metrics
open Dag Relation

theorem removeNode_wires {c : Dag} {P : Paths} (g : Good c P) {i : Nat} {w : Op} (hw : (NodeId.op i, w) ∈ c.nodes)
    (q : Op → Bool) (hq : q w = false) :
    Good (c.removeOp (.op i)).1 (erasePaths P (.op i)) ∧
    (∀ r, (wireOps (c.removeOp (.op i)).1 (erasePaths P (.op i) r)).filter q = (wireOps c (P r)).filter q) ∧
    (∀ x, x ≠ .op i → x ∈ c.nodeIds → (c.removeOp (.op i)).1.opOf? x = c.opOf? x) := by
  have hi := mem_nodeIds.mpr ⟨w, hw⟩
  obtain ⟨_, g2, _, _⟩ := removeOp_good g hi
  have hrm := removeOp_eq ((opOf_eq_some g.inv.ids_nodup).mpr hw)
  have F := removeFacts g.inv (.op i)
  have hold : ∀ x, x ≠ .op i → x ∈ c.nodeIds → (c.removeOp (.op i)).1.opOf? x = c.opOf? x := by
    intro x hx hxm
    obtain ⟨ox, hox⟩ := mem_nodeIds.mp hxm
    have hm2 : (x, ox) ∈ (c.removeOp (.op i)).1.nodes := by
      rw [hrm]; simp only [removed, F.nodes]
      exact List.mem_filter.mpr ⟨hox, by simpa using hx⟩
    rw [(opOf_eq_some g2.inv.ids_nodup).mpr hm2, (opOf_eq_some g.inv.ids_nodup).mpr hox]
  refine ⟨g2, ?_, hold⟩
  intro r
  have holdL : ∀ (l : List NodeId), (∀ x ∈ l, x ≠ .op i ∧ x ∈ c.nodeIds) → wireOps (c.removeOp (.op i)).1 l = wireOps c l :=
    fun l hl => wireOps_congr (fun x hx => hold x (hl x hx).1 (hl x hx).2)
  unfold erasePaths
  by_cases hn : NodeId.op i ∈ P r
  · obtain ⟨X, Y, hP⟩ := List.append_of_mem hn
    have hnd := g.inv.nodup r
    rw [hP] at hnd
    have hnX : NodeId.op i ∉ X := fun hm => (List.nodup_append.mp hnd).2.2 _ hm _ (by simp) rfl
    have hnY : NodeId.op i ∉ Y := (List.nodup_cons.mp (List.nodup_append.mp hnd).2.1).1
    rw [hP, erase_append_mid hnX]
    have e1 : X ++ NodeId.op i :: Y = X ++ ([NodeId.op i] ++ Y) := rfl
    rw [e1, wireOps_append, wireOps_append, wireOps_append]
    have hXmem : ∀ x ∈ X, x ≠ .op i ∧ x ∈ c.nodeIds := fun x hx =>
      ⟨fun e => hnX (e ▸ hx), g.inv.mem_nodes r x (by rw [hP]; exact List.mem_append_left _ hx)⟩
    have hYmem : ∀ x ∈ Y, x ≠ .op i ∧ x ∈ c.nodeIds := fun x hx =>
      ⟨fun e => hnY (e ▸ hx), g.inv.mem_nodes r x (by rw [hP]; simp [hx])⟩
    rw [holdL X hXmem, holdL Y hYmem]
    have hone : wireOps c [NodeId.op i] = [w] := by
      simp [wireOps, (opOf_eq_some g.inv.ids_nodup).mpr hw]
    rw [hone]
    simp [List.filter_append, hq]
  · rw [List.erase_of_not_mem hn]
    rw [holdL (P r) (fun x hx => ⟨fun e => hn (e ▸ hx), g.inv.mem_nodes r x hx⟩)]

theorem removeAll_wires {c : Dag} {P : Paths} (g : Good c P) (q : Op → Bool) (ns : List NodeId) (hnd : ns.Nodup)
    (hns : ∀ n ∈ ns, (∃ j, n = NodeId.op j) ∧ n ∈ c.nodeIds ∧ ∀ op, (n, op) ∈ c.nodes → q op = false) :
    ∃ P', Good (c.removeAll ns).1 P' ∧ ∀ r, (wireOps (c.removeAll ns).1 (P' r)).filter q = (wireOps c (P r)).filter q := by
  induction ns generalizing c P with
  | nil => exact ⟨P, g, fun _ => rfl⟩
  | cons n rest ih =>
    obtain ⟨⟨i, rfl⟩, hpres, hqn⟩ := hns n (by simp)
    have hnd' := List.nodup_cons.mp hnd
    obtain ⟨w, hw⟩ := mem_nodeIds.mp hpres
    obtain ⟨g2, hfl, hold⟩ := removeNode_wires g hw q (hqn w hw)
    obtain ⟨b1, _, _, _⟩ := removeOp_good g hpres
    unfold removeAll
    cases hres : c.removeOp (.op i) with
    | mk c2 err2 =>
      rw [hres] at b1 g2 hfl hold
      simp only at b1 g2 hfl hold
      subst b1
      simp only
      have hns' : ∀ x ∈ rest, (∃ j, x = NodeId.op j) ∧ x ∈ c2.nodeIds ∧ ∀ op, (x, op) ∈ c2.nodes → q op = false := by
        intro x hx
        obtain ⟨hj, hxm, hqx⟩ := hns x (List.mem_cons_of_mem _ hx)
        have hxne : x ≠ .op i := fun e => hnd'.1 (e ▸ hx)
        have hop := hold x hxne hxm
        obtain ⟨ox, hox⟩ := mem_nodeIds.mp hxm
        have h2 : c2.opOf? x = some ox := by rw [hop]; exact (opOf_eq_some g.inv.ids_nodup).mpr hox
        refine ⟨hj, mem_nodeIds.mpr ⟨ox, (opOf_eq_some g2.inv.ids_nodup).mp h2⟩, ?_⟩
        intro op hopm
        have h3 := (opOf_eq_some g2.inv.ids_nodup).mpr hopm
        rw [hop] at h3
        exact hqx op ((opOf_eq_some g.inv.ids_nodup).mp h3)
      obtain ⟨P3, g3, hfl3⟩ := ih g2 hnd'.2 hns'
      exact ⟨P3, g3, fun r => (hfl3 r).trans (hfl r)⟩

/-- **`remove_identity` on the wires**: every wire afterwards carries, in order, the non-identity operations it
    carried before -/
theorem removeIdentity_wires {c : Dag} {P : Paths} (g : Good c P) (hpl : AllPlain c) :
    ∃ P', Good c.removeIdentity.1 P' ∧
      ∀ r, wireOps c.removeIdentity.1 (P' r) = (wireOps c (P r)).filter (fun o => !decide (o.kind = .identity)) := by
  obtain ⟨hnd, hmem⟩ := classList_spec g hpl .identity (by decide) (by decide) (by decide) (by decide)
  have hname : Kind.identity.name = "Identity" := rfl
  rw [hname] at hnd hmem
  have hns : ∀ n ∈ dictGet c.nodeDict "Identity", (∃ j, n = NodeId.op j) ∧ n ∈ c.nodeIds ∧
      ∀ op, (n, op) ∈ c.nodes → (fun o : Op => !decide (o.kind = .identity)) op = false := by
    intro n hn
    obtain ⟨i, op, rfl, hm, hk⟩ := (hmem n).mp hn
    refine ⟨⟨i, rfl⟩, mem_nodeIds.mpr ⟨op, hm⟩, ?_⟩
    intro op' hm'
    have h1 := (opOf_eq_some g.inv.ids_nodup).mpr hm
    have h2 := (opOf_eq_some g.inv.ids_nodup).mpr hm'
    rw [h1] at h2; injection h2 with h2; subst h2
    simp [hk]
  obtain ⟨P', g', hfl⟩ := removeAll_wires g (fun o => !decide (o.kind = .identity)) _ hnd hns
  rw [removeIdentity_eq_all]
  refine ⟨P', g', ?_⟩
  intro r
  rw [← hfl r]
  symm
  rw [List.filter_eq_self]
  intro o ho
  have hmemops := mem_wireOps g'.inv.ids_nodup ho
  have hcount := (removeIdentity_count g hpl (fun o => decide (o.kind = .identity))).2
  rw [removeIdentity_eq_all] at hcount
  have hzero : ((opsOf c).filter (fun o => !decide (o.kind = .identity))).countP (fun o => decide (o.kind = .identity)) = 0 := by
    rw [List.countP_eq_zero]
    intro o' ho'
    have := (List.mem_filter.mp ho').2
    simpa using this
  rw [hzero, List.countP_eq_zero] at hcount
  have := hcount o hmemops
  simpa using this

end Metrics
end Graphiq
