/-
  Proofs/MixtureDMReset.lean — `MeasurementCNOTandReset` on a mixture whose branches agree, Hilbert-space level, all n.

  After the measurement of qubit `q1` with one outcome `o` for all branches (the joint measurement; before the repair of F2: a
  per-branch measurement on which the branches agreed) every branch state is fixed by `Π_o`; a Pauli on another qubit
  keeps that; `reset_z(q1, 0)` then measures again — deterministically, with the same outcome, *because* the state is fixed by
  `Π_o` (`det_of_fixed`: a Hilbert-space argument, no tableau bookkeeping) — and flips the qubit iff `o = 1`.  The
  density-matrix backend applies the Kraus pair `|0⟩⟨0|_q , |0⟩⟨1|_q` (`get_reset_qubit_kraus`), which on a state fixed by
  `Π_o` is the same map (`resetH_of_fixed`).
-/
import GraphiqModel.Proofs.MixtureDMMeasure
namespace Graphiq
namespace MixDM
open Matrix Hilbert Noise DM PRow

/-! ### projector facts -/

theorem projZ_orth (n q : Nat) (hq : q < n) (s : Bool) : projZ n q (!s) * projZ n q s = 0 := by
  unfold projZ
  rw [proj_Zq n q hq, proj_Zq n q hq, Matrix.diagonal_mul_diagonal]
  ext a b
  rw [Matrix.diagonal_apply, Matrix.zero_apply]
  split
  · cases s <;> cases bx a q <;> simp
  · rfl

theorem projZ_orth' (n q : Nat) (hq : q < n) (s : Bool) : projZ n q s * projZ n q (!s) = 0 := by
  have := projZ_orth n q hq (!s)
  rwa [Bool.not_not] at this

/-- a matrix fixed by `Π_o` on both sides is annihilated by the other projector -/
theorem fixed_other_left {n : Nat} (q : Nat) (hq : q < n) (o : Bool) (R : HMat n)
    (h : projZ n q o * R * projZ n q o = R) : projZ n q (!o) * R = 0 := by
  rw [← h, ← Matrix.mul_assoc, ← Matrix.mul_assoc, projZ_orth n q hq o]; simp

theorem fixed_other_right {n : Nat} (q : Nat) (hq : q < n) (o : Bool) (R : HMat n)
    (h : projZ n q o * R * projZ n q o = R) : R * projZ n q (!o) = 0 := by
  rw [← h, Matrix.mul_assoc, projZ_orth' n q hq o]; simp

theorem fixed_trace {n : Nat} (q : Nat) (o : Bool) (R : HMat n)
    (h : projZ n q o * R * projZ n q o = R) : (R * projZ n q o).trace = R.trace := by
  rw [trace_mul_projZ, h]

/-! ### a state fixed by `Π_o` is measured deterministically with outcome `o` -/

theorem det_of_fixed (n : Nat) (t : Tab) (hn : t.n = n) (hv : t.Valid) (hr : t.StabReal) (q : Nat) (hq : q < n) (det o : Bool)
    (h : projZ n q o * tabRho n t * projZ n q o = tabRho n t) :
    t.pivot q = none ∧ (t.zMeasure q det).2.1 = o := by
  have htr : (tabRho n t).trace = 1 := by subst hn; exact rho_ofTab_trace t hv
  have h1 : (tabRho n t * projZ n q o).trace = 1 := by rw [fixed_trace q o _ h, htr]
  cases hp : t.pivot q with
  | some p =>
    exfalso
    have := (branch_random n t hn hv hr q hq det p hp).2.2 o
    rw [h1] at this
    norm_num at this
  | none =>
    refine ⟨rfl, ?_⟩
    obtain ⟨_, _, _, b4⟩ := branch_det n t hn hv hr q hq det hp
    by_contra hne
    have e : (!(t.zMeasure q det).2.1) = o := by
      revert hne; cases (t.zMeasure q det).2.1 <;> cases o <;> simp
    rw [e, h1] at b4
    norm_num at b4

theorem resetZ_det_eq' (t : Tab) (q : Nat) (i o : Bool) (hp : t.pivot q = none) :
    t.resetZ q i o = if (t.zMeasure q o).2.1 = i then t else t.xGate q := by
  unfold Tab.resetZ
  simp [Tab.zMeasure, hp]

/-- `reset_z(q, 0)` on a branch fixed by `Π_o`: nothing if `o = 0`, `X_q` if `o = 1` -/
theorem resetZ_of_fixed (n : Nat) (t : Tab) (hn : t.n = n) (hv : t.Valid) (hr : t.StabReal) (q : Nat) (hq : q < n) (det o : Bool)
    (h : projZ n q o * tabRho n t * projZ n q o = tabRho n t) :
    t.resetZ q false det = if o then t.xGate q else t := by
  obtain ⟨hp, ho⟩ := det_of_fixed n t hn hv hr q hq det o h
  rw [resetZ_det_eq' t q false det hp, ho]
  cases o <;> simp

/-! ### Paulis on another qubit commute with the projector -/

theorem xg_Zq_other (n q1 q2 : Nat) (s : Bool) (h : q1 ≠ q2) : EqOn n (PRow.xg q2 (Zq q1 s)) (Zq q1 s) := by
  have h' : ¬ q2 = q1 := fun e => h e.symm
  refine ⟨fun j _ => ?_, ?_, ?_⟩
  · unfold PRow.xg PRow.zg PRow.h PRow.s Zq
    by_cases e : j = q2
    · subst e; simp [h']
    · simp [e]
  · unfold PRow.xg PRow.zg PRow.h PRow.s Zq
    simp [h']
  · unfold PRow.xg PRow.zg PRow.h PRow.s Zq
    simp

theorem conjX_projZ (n q1 q2 : Nat) (hq2 : q2 < n) (hne : q1 ≠ q2) (s : Bool) :
    conjH (gateMat n (.X q2)) (projZ n q1 s) = projZ n q1 s := by
  unfold conjH projZ
  apply conj_proj n _ (gate_unitary n (.X q2) hq2).1
  rw [gate_conj n (.X q2) hq2]
  exact pauliMat_congr n _ _ (xg_Zq_other n q1 q2 s hne)

theorem X_comm_projZ (n q1 q2 : Nat) (hq2 : q2 < n) (hne : q1 ≠ q2) (s : Bool) :
    gateMat n (.X q2) * projZ n q1 s = projZ n q1 s * gateMat n (.X q2) := by
  have h := conjX_projZ n q1 q2 hq2 hne s
  unfold conjH at h
  have hu := (gate_unitary n (.X q2) hq2).2
  calc gateMat n (.X q2) * projZ n q1 s
      = gateMat n (.X q2) * projZ n q1 s * ((gateMat n (.X q2))ᴴ * gateMat n (.X q2)) := by rw [hu, Matrix.mul_one]
    _ = (gateMat n (.X q2) * projZ n q1 s * (gateMat n (.X q2))ᴴ) * gateMat n (.X q2) := by simp only [Matrix.mul_assoc]
    _ = projZ n q1 s * gateMat n (.X q2) := by rw [h]

theorem Xh_comm_projZ (n q1 q2 : Nat) (hq2 : q2 < n) (hne : q1 ≠ q2) (s : Bool) :
    (gateMat n (.X q2))ᴴ * projZ n q1 s = projZ n q1 s * (gateMat n (.X q2))ᴴ := by
  have := congrArg Matrix.conjTranspose (X_comm_projZ n q1 q2 hq2 hne s)
  rw [Matrix.conjTranspose_mul, Matrix.conjTranspose_mul, projZ_herm] at this
  exact this.symm

/-- conjugating by `X` on another qubit keeps "fixed by `Π_o`" -/
theorem fixed_conjX (n q1 q2 : Nat) (hq2 : q2 < n) (hne : q1 ≠ q2) (o : Bool) (R : HMat n)
    (h : projZ n q1 o * R * projZ n q1 o = R) :
    projZ n q1 o * conjH (gateMat n (.X q2)) R * projZ n q1 o = conjH (gateMat n (.X q2)) R := by
  unfold conjH
  have c1 := X_comm_projZ n q1 q2 hq2 hne o
  have c2 := Xh_comm_projZ n q1 q2 hq2 hne o
  calc projZ n q1 o * (gateMat n (.X q2) * R * (gateMat n (.X q2))ᴴ) * projZ n q1 o
      = (projZ n q1 o * gateMat n (.X q2)) * R * ((gateMat n (.X q2))ᴴ * projZ n q1 o) := by simp only [Matrix.mul_assoc]
    _ = (gateMat n (.X q2) * projZ n q1 o) * R * (projZ n q1 o * (gateMat n (.X q2))ᴴ) := by rw [← c1, c2]
    _ = gateMat n (.X q2) * (projZ n q1 o * R * projZ n q1 o) * (gateMat n (.X q2))ᴴ := by simp only [Matrix.mul_assoc]
    _ = gateMat n (.X q2) * R * (gateMat n (.X q2))ᴴ := by rw [h]

/-! ### mixtures whose branches are all fixed by `Π_o` -/

def Fixed (n q : Nat) (o : Bool) (m : Mixture) : Prop :=
  ∀ x ∈ m, projZ n q o * tabRho n x.2 * projZ n q o = tabRho n x.2

theorem fixed_mixRho (n q : Nat) (o : Bool) : ∀ (m : Mixture), Fixed n q o m →
    projZ n q o * mixRho n m * projZ n q o = mixRho n m
  | [], _ => by simp [mixRho_nil]
  | (w, t) :: rest, h => by
    rw [mixRho_cons, Matrix.mul_add, Matrix.add_mul, Matrix.mul_smul, Matrix.smul_mul,
      h (w, t) List.mem_cons_self, fixed_mixRho n q o rest (fun x hx => h x (List.mem_cons_of_mem _ hx))]

/-- after a uniform measurement with outcome `o` every branch is fixed by `Π_o` -/
theorem measure_fixed (n q : Nat) (hq : q < n) (det r0 o : Bool) (m : Mixture) (hg : MixGood n m)
    (hu : Uniform q det r0 o m) : Fixed n q o (Mix.measureOld q det m).1 := by
  intro x hx
  simp only [Mix.measureOld, List.map_map, List.mem_map] at hx
  obtain ⟨⟨w, t⟩, hy, rfl⟩ := hx
  obtain ⟨hn, hv, hr⟩ := hg (w, t) hy
  obtain ⟨u1, u2⟩ := hu (w, t) hy
  simp only [Function.comp] at u1 u2 ⊢
  cases hp : t.pivot q with
  | some p =>
    obtain ⟨b1, b2, _⟩ := branch_random n t hn hv hr q hq det p hp
    have e : o = det := by rw [← u2, b2]
    subst e
    show projZ n q o * tabRho n (t.zMeasure q o).1.norm * projZ n q o = tabRho n (t.zMeasure q o).1.norm
    rw [b1]
    rw [Matrix.mul_smul, Matrix.smul_mul]
    congr 1
    calc projZ n q o * (projZ n q o * tabRho n t * projZ n q o) * projZ n q o
        = (projZ n q o * projZ n q o) * tabRho n t * (projZ n q o * projZ n q o) := by simp only [Matrix.mul_assoc]
      _ = projZ n q o * tabRho n t * projZ n q o := by rw [projZ_idem]
  | none =>
    obtain ⟨b1, b2, _, _⟩ := branch_det n t hn hv hr q hq det hp
    rw [u2] at b2
    show projZ n q o * tabRho n (t.zMeasure q det).1.norm * projZ n q o = tabRho n (t.zMeasure q det).1.norm
    rw [b1, b2]

theorem tabRho_xGate (n : Nat) (t : Tab) (hn : t.n = n) (q : Nat) (hq : q < n) :
    tabRho n (t.xGate q).norm = conjH (gateMat n (.X q)) (tabRho n t) := by
  have := tabRho_pauliGate n 1 q hq t hn
  exact this

theorem mapX_fixed (n q1 q2 : Nat) (hq2 : q2 < n) (hne : q1 ≠ q2) (o : Bool) (m : Mixture) (hm : MixN n m)
    (h : Fixed n q1 o m) : Fixed n q1 o (Mix.mapTab (fun t => t.xGate q2) m) := by
  intro x hx
  simp only [Mix.mapTab, List.mem_map] at hx
  obtain ⟨⟨w, t⟩, hy, rfl⟩ := hx
  show projZ n q1 o * tabRho n (t.xGate q2).norm * projZ n q1 o = tabRho n (t.xGate q2).norm
  rw [tabRho_xGate n t (hm (w, t) hy) q2 hq2]
  exact fixed_conjX n q1 q2 hq2 hne o _ (h (w, t) hy)

/-- **`reset_z(q, 0)` on every branch of a mixture fixed by `Π_o`**: `X_q R X_q` if `o = 1`, `R` if `o = 0` -/
theorem mixRho_reset (n q : Nat) (hq : q < n) (det o : Bool) : ∀ (m : Mixture), MixGood n m → Fixed n q o m →
    mixRho n (Mix.mapTab (fun t => t.resetZ q false det) m)
      = if o then conjH (gateMat n (.X q)) (mixRho n m) else mixRho n m
  | [], _, _ => by cases o <;> simp [Mix.mapTab, mixRho_nil, conjH_zero]
  | (w, t) :: rest, hg, hf => by
    obtain ⟨hn, hv, hr⟩ := hg.head
    have e : Mix.mapTab (fun t => t.resetZ q false det) ((w, t) :: rest)
        = (w, (t.resetZ q false det).norm) :: Mix.mapTab (fun t => t.resetZ q false det) rest := by simp [Mix.mapTab]
    rw [e, mixRho_cons, mixRho_cons, mixRho_reset n q hq det o rest hg.tail (fun x hx => hf x (List.mem_cons_of_mem _ hx)),
      resetZ_of_fixed n t hn hv hr q hq det o (hf (w, t) List.mem_cons_self)]
    cases o
    · simp only [Bool.false_eq_true, if_false]
      rw [tabRho_norm n t hn]
    · simp only [if_true]
      rw [tabRho_xGate n t hn q hq, conjH_add, conjH_smul]

theorem reset_good (n q : Nat) (hq : q < n) (det : Bool) (m : Mixture) (hg : MixGood n m) :
    MixGood n (Mix.mapTab (fun t => t.resetZ q false det) m) := by
  apply mixGood_of n _ (mapTab_ok n _ (keeps_resetZ n q hq false det) m hg.ok)
  intro x hx
  simp only [Mix.mapTab, List.mem_map] at hx
  obtain ⟨⟨w, t⟩, hy, rfl⟩ := hx
  obtain ⟨hn, hv, hr⟩ := hg (w, t) hy
  apply norm_stabReal
  unfold Tab.resetZ
  have hr1 := zMeasure_stabReal t hv hr q det
  generalize t.zMeasure q det = zm at hr1 ⊢
  obtain ⟨t1, outcome, p⟩ := zm
  simp only at hr1 ⊢
  have hr2 : (if p ≠ 0 then ({ t1 with row := upd t1.row p { (t1.row p) with ip := false } } : Tab) else t1).StabReal := by
    split
    · intro i h1 h2
      show (upd t1.row p { (t1.row p) with ip := false } i).ip = false
      unfold upd
      split
      · rfl
      · exact hr1 i h1 h2
    · exact hr1
  split
  · exact hr2
  · exact gate_stabReal _ (.X q) hr2

/-! ### the reset channel of the density-matrix backend -/

/-- the Hilbert-space reset channel `ρ ↦ Π_0 ρ Π_0 + X Π_1 ρ Π_1 X` on qubit `q` -/
noncomputable def resetH (n q : Nat) (R : HMat n) : HMat n :=
  conjH (projZ n q false) R + conjH (gateMat n (.X q) * projZ n q true) R

theorem resetH_of_fixed (n q : Nat) (hq : q < n) (o : Bool) (R : HMat n) (h : projZ n q o * R * projZ n q o = R) :
    resetH n q R = if o then conjH (gateMat n (.X q)) R else R := by
  unfold resetH conjH
  rw [Matrix.conjTranspose_mul, projZ_herm, projZ_herm]
  cases o
  · have l := fixed_other_left q hq false R h
    simp only [Bool.not_false] at l
    simp only [Bool.false_eq_true, if_false]
    rw [h]
    have : gateMat n (Gate.X q) * projZ n q true * R * (projZ n q true * (gateMat n (Gate.X q))ᴴ)
        = gateMat n (Gate.X q) * (projZ n q true * R) * (projZ n q true * (gateMat n (Gate.X q))ᴴ) := by
      simp only [Matrix.mul_assoc]
    rw [this, l]; simp
  · have l := fixed_other_left q hq true R h
    simp only [Bool.not_true] at l
    simp only [if_true]
    rw [l]
    have : gateMat n (Gate.X q) * projZ n q true * R * (projZ n q true * (gateMat n (Gate.X q))ᴴ)
        = gateMat n (Gate.X q) * (projZ n q true * R * projZ n q true) * (gateMat n (Gate.X q))ᴴ := by
      simp only [Matrix.mul_assoc]
    rw [this, h]; simp

end MixDM
end Graphiq
