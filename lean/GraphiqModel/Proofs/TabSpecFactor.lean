/-
  Proofs/TabSpecFactor.lean — `partial_trace` of a (possibly internally entangled) pure product factor.

  `Factor t A`: the stabilizer group of `t` is a product across the cut `A | complement` (every element, restricted to the
  complement of `A`, is in the group up to sign).  Then measuring and removing the qubits of `A` (highest first, as
  `partial_trace` does) leaves exactly the elements that act as the identity on `A`, whatever the outcomes:
  the result is the reduced state of the kept factor.
-/
import GraphiqModel.Proofs.TabSpecHistory
namespace Graphiq.TabSpec
open Graphiq PRow Tab STab

/-- the row with the sites listed in `A` replaced by the identity -/
def restrictOff (A : List Nat) (P : PRow) : PRow :=
  { P with x := fun j => if j ∈ A then false else P.x j, z := fun j => if j ∈ A then false else P.z j }

/-- `P` acts as the identity on every site of `A` -/
def IdOn (A : List Nat) (P : PRow) : Prop := ∀ a, a ∈ A → P.x a = false ∧ P.z a = false

/-- the state is a product across the cut `A | complement of A` -/
def Factor (t : Tab) (A : List Nat) : Prop :=
  ∀ P, Grp t P → Grp t (restrictOff A P) ∨ Grp t (negate (restrictOff A P))

theorem restrictOff_idOn (A : List Nat) (P : PRow) : IdOn A (restrictOff A P) := by
  intro a ha; simp [restrictOff, ha]

theorem restrictOff_ip (A : List Nat) (P : PRow) : (restrictOff A P).ip = P.ip := rfl

theorem idOn_negate (A : List Nat) (P : PRow) (h : IdOn A P) : IdOn A (negate P) := h

/-- measuring a qubit of a product factor `A` does not change which rows acting as the identity on `A` are in the group -/
theorem measure_factor (t : Tab) (q : Nat) (o : Bool) (A : List Nat) (hq : q < t.n) (hqA : q ∈ A) (hv : t.Valid)
    (hr : t.StabReal) (hf : Factor t A) (R : PRow) (hR : IdOn A R) :
    Grp (t.zMeasure q o).1 R ↔ Grp t R := by
  cases hp : t.pivot q with
  | none =>
    have e : (t.zMeasure q o).1 = t := by simp [zMeasure, hp]
    rw [e]
  | some p =>
    have e : (t.zMeasure q o).1 = t.measRandom q p o := by simp [zMeasure, hp]
    rw [e, measRandom_grp t q p o hv hr hq hp]
    obtain ⟨p1, p2, p3⟩ := pivot_spec t q p hp
    have hG := grp_isStabGrp t hv hr
    have Rx : R.x q = false := (hR q hqA).1
    constructor
    · rintro ⟨_, h | h⟩
      · exact h
      · -- R·Z_q ∈ G: its restriction off A is ±R
        have rRZ : (PRow.mul t.n R (Zq q o)).ip = false := hG.real _ h
        have rR : R.ip = false := real_of_mul_real t.n R (Zq q o) rRZ rfl (by rw [sp_Zq _ _ _ _ hq, Rx])
        have sb : SameBits t.n (restrictOff A (PRow.mul t.n R (Zq q o))) R := by
          intro j _
          by_cases hj : j ∈ A
          · simp [restrictOff, hj, (hR j hj).1, (hR j hj).2]
          · have hjq : j ≠ q := fun e => hj (e ▸ hqA)
            simp [restrictOff, hj, Zq, hjq]
        have key : Grp t R ∨ Grp t (negate R) := by
          rcases eqOn_or_negate t.n _ R sb (by rw [restrictOff_ip, rRZ, rR]) with e1 | e1
          · rcases hf _ h with h1 | h1
            · exact Or.inl (hG.eqv _ _ h1 e1)
            · exact Or.inr (hG.eqv _ _ h1 (negate_congr _ _ _ e1))
          · rcases hf _ h with h1 | h1
            · exact Or.inr (hG.eqv _ _ h1 e1)
            · refine Or.inl (hG.eqv _ _ h1 ?_)
              have := negate_congr _ _ _ e1
              rw [negate_negate] at this
              exact this
        rcases key with k | k
        · exact k
        · exfalso
          -- (-R)(R Z_q) = -Z_q would be in the group, but the pivot anticommutes with Z_q
          have hm := hG.mul _ _ k h
          have c := hG.comm _ _ hm (grp_row t p p1 p2)
          rw [sp_mul_left, sp_mul_left, sp_negate_left] at c
          have c2 : sp t.n (Zq q o) (t.row p) = true := by rw [sp_comm, sp_Zq _ _ _ _ hq]; exact p3
          rw [c2] at c
          cases hs : sp t.n R (t.row p) <;> rw [hs] at c <;> simp at c
    · intro h
      exact ⟨Rx, Or.inl h⟩

/-- the measured tableau is still a product across the cut -/
theorem factor_measure (t : Tab) (q : Nat) (o : Bool) (A : List Nat) (hq : q < t.n) (hqA : q ∈ A) (hv : t.Valid)
    (hr : t.StabReal) (hf : Factor t A) : Factor (t.zMeasure q o).1 A := by
  have M := measure_factor t q o A hq hqA hv hr hf
  have up : ∀ Q : PRow, Grp t Q →
      Grp (t.zMeasure q o).1 (restrictOff A Q) ∨ Grp (t.zMeasure q o).1 (negate (restrictOff A Q)) := by
    intro Q hQ
    rcases hf Q hQ with h | h
    · exact Or.inl ((M _ (restrictOff_idOn A Q)).mpr h)
    · exact Or.inr ((M _ (idOn_negate A _ (restrictOff_idOn A Q))).mpr h)
  cases hp : t.pivot q with
  | none =>
    have e : (t.zMeasure q o).1 = t := by simp [zMeasure, hp]
    rw [e]; exact hf
  | some p =>
    have e : (t.zMeasure q o).1 = t.measRandom q p o := by simp [zMeasure, hp]
    intro P hP
    have hP' := hP
    rw [e, measRandom_grp t q p o hv hr hq hp] at hP'
    obtain ⟨Px, h | h⟩ := hP'
    · exact up P h
    · -- P·Z_q ∈ G; restrictions of P·Z_q and P off A agree up to sign
      have hG := grp_isStabGrp t hv hr
      have rPZ : (PRow.mul t.n P (Zq q o)).ip = false := hG.real _ h
      have rP : P.ip = false := real_of_mul_real t.n P (Zq q o) rPZ rfl (by rw [sp_Zq _ _ _ _ hq, Px])
      have sb : SameBits t.n (restrictOff A (PRow.mul t.n P (Zq q o))) (restrictOff A P) := by
        intro j _
        by_cases hj : j ∈ A
        · simp [restrictOff, hj]
        · have hjq : j ≠ q := fun e => hj (e ▸ hqA)
          simp [restrictOff, hj, Zq, hjq]
      have hG1 : ∀ a b, Grp (t.zMeasure q o).1 a → EqOn t.n a b → Grp (t.zMeasure q o).1 b := by
        intro a b ha hab
        exact InSpan.eqv a b ha (by rw [zMeasure_n]; exact hab)
      rcases eqOn_or_negate t.n _ _ sb (by rw [restrictOff_ip, restrictOff_ip, rPZ, rP]) with e1 | e1
      · rcases up _ h with h1 | h1
        · exact Or.inl (hG1 _ _ h1 e1)
        · exact Or.inr (hG1 _ _ h1 (negate_congr _ _ _ e1))
      · rcases up _ h with h1 | h1
        · exact Or.inr (hG1 _ _ h1 e1)
        · refine Or.inl (hG1 _ _ h1 ?_)
          have := negate_congr _ _ _ e1
          rw [negate_negate] at this
          exact this

/-- restriction off `q :: rest` of a row with an identity inserted at `q` (all of `rest` below `q`) -/
theorem restrictOff_insertCol (n q : Nat) (rest : List Nat) (hlt : ∀ a, a ∈ rest → a < q) (P' : PRow) :
    EqOn n (restrictOff (q :: rest) (P'.insertCol q)) ((restrictOff rest P').insertCol q) := by
  refine ⟨fun j _ => ?_, rfl, rfl⟩
  simp only [restrictOff, PRow.insertCol, List.mem_cons]
  by_cases h1 : j < q
  · have hne : j ≠ q := by omega
    simp [h1, hne]
  · by_cases h2 : j = q
    · simp [h2]
    · have h3 : j ∉ rest := fun h => by have := hlt j h; omega
      have h4 : j - 1 ∉ rest := fun h => by have := hlt (j - 1) h; omega
      simp [h1, h2, h3, h4]

/-- dropping the measured qubit keeps the product structure across the remaining cut -/
theorem factor_drop (t1 t' : Tab) (q : Nat) (rest : List Nat) (hlt : ∀ a, a ∈ rest → a < q) (hn : t'.n + 1 = t1.n)
    (g : ∀ P', Grp t' P' ↔ Grp t1 (P'.insertCol q)) (hf : Factor t1 (q :: rest)) : Factor t' rest := by
  intro P' hP'
  have e := restrictOff_insertCol t1.n q rest hlt P'
  rcases hf _ ((g P').mp hP') with h | h
  · exact Or.inl ((g _).mpr (InSpan.eqv _ _ h e))
  · refine Or.inr ((g _).mpr ?_)
    rw [insertCol_negate]
    exact InSpan.eqv _ _ h (negate_congr _ _ _ e)

theorem embedCols_idOn (rem : List Nat) (hpw : rem.Pairwise (· > ·)) (P' : PRow) : IdOn rem (embedCols rem P') := by
  induction rem with
  | nil => intro a ha; cases ha
  | cons q rest ih =>
    have hp := List.pairwise_cons.mp hpw
    intro a ha
    rcases List.mem_cons.mp ha with e | e
    · subst e
      exact ⟨insertCol_x _ _, insertCol_z _ _⟩
    · have hlt : a < q := hp.1 a e
      have := ih hp.2 a e
      simp only [embedCols, PRow.insertCol, hlt, if_true]
      exact this

theorem factor_norm (t : Tab) (A : List Nat) (hf : Factor t A) : Factor t.norm A := by
  intro P hP
  rcases hf P ((norm_grp t P).mp hP) with h | h
  · exact Or.inl ((norm_grp t _).mpr h)
  · exact Or.inr ((norm_grp t _).mpr h)

/-- `partial_trace` of a product factor, by induction over the (strictly descending) removal list -/
theorem partialTrace_go_factor (rem : List Nat) :
    ∀ (t t' : Tab) (os : List Bool), t.Valid → t.StabReal → rem.Pairwise (· > ·) → (∀ q, q ∈ rem → q < t.n) →
      Factor t rem → partialTrace.go t rem os = .ok t' →
      t'.n + rem.length = t.n ∧ ∀ P', Grp t' P' ↔ Grp t (embedCols rem P') := by
  induction rem with
  | nil =>
    intro t t' os _ _ _ _ _ h
    simp [partialTrace.go] at h
    subst h
    exact ⟨rfl, fun _ => Iff.rfl⟩
  | cons q rest ih =>
    intro t t' os hv hr hpw hlt hf h
    simp only [partialTrace.go] at h
    cases hrm : t.removeQubit? q (os.headD false) with
    | error e => rw [hrm] at h; simp at h
    | ok t1 =>
      rw [hrm] at h
      simp only at h
      have hq : q < t.n := hlt q List.mem_cons_self
      have hrm' : t.removeQubit q (os.headD false) = .ok t1 := by
        unfold removeQubit? at hrm; rw [if_pos hq] at hrm; exact hrm
      obtain ⟨n1, v1, r1, g1⟩ := removeQubit_grp t t1 q _ hq hv hr hrm'
      have hpw' := List.pairwise_cons.mp hpw
      have hn1 : t1.norm.n = t.n - 1 := n1
      have hfm := factor_measure t q (os.headD false) (q :: rest) hq List.mem_cons_self hv hr hf
      have hf1 : Factor t1 rest :=
        factor_drop (t.zMeasure q (os.headD false)).1 t1 q rest hpw'.1 (by rw [zMeasure_n, n1]; omega) g1 hfm
      obtain ⟨n', g'⟩ := ih t1.norm t' _ (tnorm_valid t1 v1) (norm_stabReal t1 r1) hpw'.2
        (by
          intro q' hq'
          have := hpw'.1 q' hq'
          rw [hn1]; omega)
        (factor_norm t1 rest hf1) h
      refine ⟨?_, ?_⟩
      · simp only [List.length_cons]; rw [hn1] at n'; omega
      · intro P'
        rw [g', norm_grp, g1]
        exact measure_factor t q _ (q :: rest) hq List.mem_cons_self hv hr hf _ (embedCols_idOn (q :: rest) hpw P')

/-- **`partial_trace` of a pure product factor** (the traced-out qubits may be entangled among themselves): the result is
    the state of the kept qubits, whatever the outcomes -/
theorem partialTrace_factor_grp (t t' : Tab) (keep : List Nat) (os : List Bool) (hv : t.Valid) (hr : t.StabReal)
    (hf : Factor t (removalList t.n keep)) (h : t.partialTrace keep os = .ok t') :
    t'.n + (removalList t.n keep).length = t.n ∧
    ∀ P', Grp t' P' ↔ Grp t (embedCols (removalList t.n keep) P') := by
  rw [partialTrace_eq] at h
  exact partialTrace_go_factor (removalList t.n keep) t t' os hv hr (removalList_desc t.n keep)
    (fun q hq => ((mem_removalList t.n keep q).mp hq).1) hf h

/-! ### tracing the right factor out of a tensor product gives back the left factor -/

theorem embedCols_r (rem : List Nat) (P' : PRow) : (embedCols rem P').r = P'.r ∧ (embedCols rem P').ip = P'.ip := by
  induction rem with
  | nil => exact ⟨rfl, rfl⟩
  | cons q rest ih => exact ih

/-- sites below every inserted position are untouched -/
theorem embedCols_low (rem : List Nat) (m : Nat) (h : ∀ a, a ∈ rem → m ≤ a) (P' : PRow) (j : Nat) (hj : j < m) :
    (embedCols rem P').x j = P'.x j ∧ (embedCols rem P').z j = P'.z j := by
  induction rem with
  | nil => exact ⟨rfl, rfl⟩
  | cons q rest ih =>
    have hq := h q List.mem_cons_self
    have hlt : j < q := by omega
    simp only [embedCols, PRow.insertCol, hlt, if_true]
    exact ih (fun a ha => h a (List.mem_cons_of_mem _ ha))

theorem mem_removalList_range (na nb j : Nat) : j ∈ removalList (na + nb) (List.range na) ↔ na ≤ j ∧ j < na + nb := by
  rw [mem_removalList]
  simp only [List.mem_range]
  omega

theorem removalList_range_length (na nb : Nat) : (removalList (na + nb) (List.range na)).length = nb := by
  unfold removalList
  rw [List.length_reverse, List.range_add, List.filter_append]
  have h1 : (List.range na).filter (fun i => !(List.range na).contains i) = [] := by
    rw [List.filter_eq_nil_iff]
    intro i hi
    simp only [List.mem_range] at hi
    simp [hi]
  have h2 : ((List.range nb).map (fun x => na + x)).filter (fun i => !(List.range na).contains i)
      = (List.range nb).map (fun x => na + x) := by
    rw [List.filter_eq_self]
    intro i hi
    simp only [List.mem_map, List.mem_range] at hi
    obtain ⟨k, _, rfl⟩ := hi
    simp
  rw [h1, h2]
  simp

/-- the rows `P ⊗ I` in the group of `a ⊗ b` are those with `P` in the group of `a` -/
theorem tensor_left_iff (a b : Tab) (hb : b.Valid) (rb : b.StabReal) (P' : PRow) :
    Grp (tensor2 a b) (P'.truncCols a.n) ↔ Grp a P' := by
  constructor
  · intro h
    obtain ⟨P, Q, hP, hQ, e⟩ := (tensor_grp a b _).mp h
    have qz : ∀ j, j < b.n → Q.x j = false ∧ Q.z j = false := by
      intro j hj
      have := e.1 (a.n + j) (by omega)
      have hlt : ¬ (a.n + j < a.n) := by omega
      simp only [tensorRow_x, tensorRow_z, hlt, if_false, Nat.add_sub_cancel_left, PRow.truncCols,
        decide_false, Bool.false_and] at this
      exact ⟨this.1.symm, this.2.symm⟩
    have q1 := grp_trivial_of_bits b hb rb Q hQ qz
    have e2 : EqOn (a.n + b.n) (P'.truncCols a.n) (P.truncCols a.n) :=
      e.trans ((tensorRow_congr a.n b.n P P Q PRow.one (EqOn.refl _ _) q1).trans (tensorRow_one_right a.n b.n P))
    refine InSpan.eqv _ _ hP ⟨fun j hj => ?_, e2.2.1.symm, e2.2.2.symm⟩
    have := e2.1 j (by omega)
    simp only [PRow.truncCols, hj, decide_true, Bool.true_and] at this
    exact ⟨this.1.symm, this.2.symm⟩
  · exact tensor_grp_left a b P'

/-- `a ⊗ b` is a product across the cut "sites of `b`" -/
theorem tensor_factor (a b : Tab) (ha : a.Valid) (hb : b.Valid) (ra : a.StabReal) (rb : b.StabReal)
    (A : List Nat) (hA : ∀ j, j < a.n + b.n → (j ∈ A ↔ a.n ≤ j)) : Factor (tensor2 a b) A := by
  intro P hP
  obtain ⟨P1, Q1, hP1, hQ1, e⟩ := (tensor_grp a b P).mp hP
  have r1 := grp_real a ha ra P1 hP1
  have rQ := grp_real b hb rb Q1 hQ1
  have rP : P.ip = false := by
    have := e.2.2
    rw [this]
    unfold tensorRow
    exact mul_real _ _ _ r1 rQ (sp_trunc_shift a.n b.n P1 Q1)
  have sb : SameBits (a.n + b.n) (restrictOff A P) (P1.truncCols a.n) := by
    intro j hj
    have ej := e.1 j hj
    by_cases hlt : j < a.n
    · have hjA : j ∉ A := fun h => by have := (hA j hj).mp h; omega
      simp only [tensorRow_x, tensorRow_z, hlt, if_true] at ej
      simp [restrictOff, hjA, PRow.truncCols, hlt, ej.1, ej.2]
    · have hjA : j ∈ A := (hA j hj).mpr (by omega)
      simp [restrictOff, hjA, PRow.truncCols, hlt]
  have gl := tensor_grp_left a b P1 hP1
  rcases eqOn_or_negate (a.n + b.n) _ _ sb (by rw [restrictOff_ip, rP]; exact r1.symm) with e1 | e1
  · exact Or.inl (InSpan.eqv _ _ gl e1.symm)
  · refine Or.inr (InSpan.eqv _ _ gl ?_)
    have := negate_congr _ _ _ e1
    rw [negate_negate] at this
    exact this.symm

/-- **`partial_trace(tensor([a, b]), keep = sites of a)` is `a`** (as a state: same number of qubits, same stabilizer group),
    whatever `b` is and whatever outcomes are drawn while its qubits are measured away -/
theorem partialTrace_tensor_left (a b t' : Tab) (os : List Bool) (ha : a.Valid) (hb : b.Valid) (ra : a.StabReal)
    (rb : b.StabReal) (h : (tensor2 a b).partialTrace (List.range a.n) os = .ok t') :
    t'.n = a.n ∧ ∀ P', Grp t' P' ↔ Grp a P' := by
  have hA : ∀ j, j < a.n + b.n → (j ∈ removalList (a.n + b.n) (List.range a.n) ↔ a.n ≤ j) := by
    intro j hj; rw [mem_removalList_range]; omega
  obtain ⟨n', g⟩ := partialTrace_factor_grp (tensor2 a b) t' (List.range a.n) os (tensor2_valid a b ha hb)
    (tensor_stabReal a b ra rb) (tensor_factor a b ha hb ra rb _ hA) h
  have hn : (tensor2 a b).n = a.n + b.n := rfl
  rw [hn, removalList_range_length] at n'
  refine ⟨by omega, fun P' => ?_⟩
  rw [g, hn, ← tensor_left_iff a b hb rb P']
  have hpw := removalList_desc (a.n + b.n) (List.range a.n)
  have e : EqOn (a.n + b.n) (embedCols (removalList (a.n + b.n) (List.range a.n)) P') (P'.truncCols a.n) := by
    refine ⟨fun j hj => ?_, (embedCols_r _ P').1, (embedCols_r _ P').2⟩
    by_cases hlt : j < a.n
    · have := embedCols_low _ a.n (fun x hx => ((mem_removalList_range a.n b.n x).mp hx).1) P' j hlt
      simp [PRow.truncCols, hlt, this.1, this.2]
    · have := embedCols_idOn _ hpw P' j ((mem_removalList_range a.n b.n j).mpr ⟨by omega, hj⟩)
      simp [PRow.truncCols, hlt, this.1, this.2]
  constructor
  · intro h1; exact InSpan.eqv _ _ h1 e
  · intro h1; exact InSpan.eqv _ _ h1 e.symm

/-! ### … and tracing the left factor out gives back the right factor -/

/-- above every inserted position the sites are shifted by the number of insertions -/
theorem embedCols_high (rem : List Nat) (hpw : rem.Pairwise (· > ·)) (P' : PRow) (i : Nat) (h : ∀ a, a ∈ rem → a < i) :
    (embedCols rem P').x i = P'.x (i - rem.length) ∧ (embedCols rem P').z i = P'.z (i - rem.length) := by
  induction rem generalizing i with
  | nil => exact ⟨rfl, rfl⟩
  | cons q rest ih =>
    have hp := List.pairwise_cons.mp hpw
    have hq : q < i := h q List.mem_cons_self
    have h1 : ¬ (i < q) := by omega
    have h2 : i ≠ q := by omega
    simp only [embedCols, PRow.insertCol, h1, h2, if_false, List.length_cons]
    have := ih hp.2 (i - 1) (fun a ha => by have := hp.1 a ha; omega)
    rw [show i - (rest.length + 1) = i - 1 - rest.length by omega]
    exact this

/-- the qubits of `b` inside `a ⊗ b` -/
def rightSites (na nb : Nat) : List Nat := (List.range nb).map (fun x => na + x)

theorem mem_rightSites (na nb j : Nat) : j ∈ rightSites na nb ↔ na ≤ j ∧ j < na + nb := by
  unfold rightSites
  simp only [List.mem_map, List.mem_range]
  constructor
  · rintro ⟨k, hk, rfl⟩; omega
  · intro h; exact ⟨j - na, by omega, by omega⟩

theorem mem_removalList_right (na nb j : Nat) : j ∈ removalList (na + nb) (rightSites na nb) ↔ j < na := by
  rw [mem_removalList, mem_rightSites]
  omega

theorem removalList_right_length (na nb : Nat) : (removalList (na + nb) (rightSites na nb)).length = na := by
  unfold removalList
  rw [List.length_reverse, List.range_add, List.filter_append]
  have h1 : (List.range na).filter (fun i => !(rightSites na nb).contains i) = List.range na := by
    rw [List.filter_eq_self]
    intro i hi
    simp only [List.mem_range] at hi
    have : i ∉ rightSites na nb := fun h => by have := (mem_rightSites na nb i).mp h; omega
    simp [this]
  have h2 : ((List.range nb).map (fun x => na + x)).filter (fun i => !(rightSites na nb).contains i) = [] := by
    rw [List.filter_eq_nil_iff]
    intro i hi
    have : i ∈ rightSites na nb := hi
    simp [this]
  rw [h1, h2]
  simp

/-- the rows `I ⊗ Q` in the group of `a ⊗ b` are those with `Q` in the group of `b` -/
theorem tensor_right_iff (a b : Tab) (ha : a.Valid) (ra : a.StabReal) (Q' : PRow) :
    Grp (tensor2 a b) (Q'.shiftCols a.n) ↔ Grp b Q' := by
  constructor
  · intro h
    obtain ⟨P, Q, hP, hQ, e⟩ := (tensor_grp a b _).mp h
    have pz : ∀ j, j < a.n → P.x j = false ∧ P.z j = false := by
      intro j hj
      have := e.1 j (by omega)
      simp only [tensorRow_x, tensorRow_z, hj, if_true, PRow.shiftCols] at this
      exact ⟨this.1.symm, this.2.symm⟩
    have p1 := grp_trivial_of_bits a ha ra P hP pz
    have e2 : EqOn (a.n + b.n) (Q'.shiftCols a.n) (Q.shiftCols a.n) :=
      e.trans ((tensorRow_congr a.n b.n P PRow.one Q Q p1 (EqOn.refl _ _)).trans (tensorRow_one_left a.n b.n Q))
    refine InSpan.eqv _ _ hQ ⟨fun j hj => ?_, e2.2.1.symm, e2.2.2.symm⟩
    have := e2.1 (a.n + j) (by omega)
    have hlt : ¬ (a.n + j < a.n) := by omega
    simp only [PRow.shiftCols, hlt, if_false, Nat.add_sub_cancel_left] at this
    exact ⟨this.1.symm, this.2.symm⟩
  · exact tensor_grp_right a b Q'

/-- `a ⊗ b` is a product across the cut "sites of `a`" -/
theorem tensor_factor_right (a b : Tab) (ha : a.Valid) (hb : b.Valid) (ra : a.StabReal) (rb : b.StabReal)
    (A : List Nat) (hA : ∀ j, j < a.n + b.n → (j ∈ A ↔ j < a.n)) : Factor (tensor2 a b) A := by
  intro P hP
  obtain ⟨P1, Q1, hP1, hQ1, e⟩ := (tensor_grp a b P).mp hP
  have r1 := grp_real a ha ra P1 hP1
  have rQ := grp_real b hb rb Q1 hQ1
  have rP : P.ip = false := by
    have := e.2.2
    rw [this]
    unfold tensorRow
    exact mul_real _ _ _ r1 rQ (sp_trunc_shift a.n b.n P1 Q1)
  have sb : SameBits (a.n + b.n) (restrictOff A P) (Q1.shiftCols a.n) := by
    intro j hj
    have ej := e.1 j hj
    by_cases hlt : j < a.n
    · have hjA : j ∈ A := (hA j hj).mpr hlt
      simp [restrictOff, hjA, PRow.shiftCols, hlt]
    · have hjA : j ∉ A := fun h => hlt ((hA j hj).mp h)
      simp only [tensorRow_x, tensorRow_z, hlt, if_false] at ej
      simp [restrictOff, hjA, PRow.shiftCols, hlt, ej.1, ej.2]
  have gl := tensor_grp_right a b Q1 hQ1
  rcases eqOn_or_negate (a.n + b.n) _ _ sb (by rw [restrictOff_ip, rP]; exact rQ.symm) with e1 | e1
  · exact Or.inl (InSpan.eqv _ _ gl e1.symm)
  · refine Or.inr (InSpan.eqv _ _ gl ?_)
    have := negate_congr _ _ _ e1
    rw [negate_negate] at this
    exact this.symm

/-- **`partial_trace(tensor([a, b]), keep = sites of b)` is `b`** -/
theorem partialTrace_tensor_right (a b t' : Tab) (os : List Bool) (ha : a.Valid) (hb : b.Valid) (ra : a.StabReal)
    (rb : b.StabReal) (h : (tensor2 a b).partialTrace (rightSites a.n b.n) os = .ok t') :
    t'.n = b.n ∧ ∀ Q', Grp t' Q' ↔ Grp b Q' := by
  have hA : ∀ j, j < a.n + b.n → (j ∈ removalList (a.n + b.n) (rightSites a.n b.n) ↔ j < a.n) := by
    intro j _; exact mem_removalList_right a.n b.n j
  obtain ⟨n', g⟩ := partialTrace_factor_grp (tensor2 a b) t' (rightSites a.n b.n) os (tensor2_valid a b ha hb)
    (tensor_stabReal a b ra rb) (tensor_factor_right a b ha hb ra rb _ hA) h
  have hn : (tensor2 a b).n = a.n + b.n := rfl
  rw [hn, removalList_right_length] at n'
  refine ⟨by omega, fun Q' => ?_⟩
  rw [g, hn, ← tensor_right_iff a b ha ra Q']
  have hpw := removalList_desc (a.n + b.n) (rightSites a.n b.n)
  have e : EqOn (a.n + b.n) (embedCols (removalList (a.n + b.n) (rightSites a.n b.n)) Q') (Q'.shiftCols a.n) := by
    refine ⟨fun j _ => ?_, (embedCols_r _ Q').1, (embedCols_r _ Q').2⟩
    by_cases hlt : j < a.n
    · have := embedCols_idOn _ hpw Q' j ((mem_removalList_right a.n b.n j).mpr hlt)
      simp [PRow.shiftCols, hlt, this.1, this.2]
    · have := embedCols_high _ hpw Q' j (fun x hx => by have := (mem_removalList_right a.n b.n x).mp hx; omega)
      rw [removalList_right_length] at this
      simp [PRow.shiftCols, hlt, this.1, this.2]
  constructor
  · intro h1; exact InSpan.eqv _ _ h1 e
  · intro h1; exact InSpan.eqv _ _ h1 e.symm

end Graphiq.TabSpec
