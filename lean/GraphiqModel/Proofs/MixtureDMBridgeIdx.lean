/-
  Proofs/MixtureDMBridgeIdx.lean — the index map between the executable density-matrix model (`Mat`, rows / columns numbered
  `0 … 2^n − 1`, qubit 0 the most significant bit as in graphiq's `np.kron` chains) and the Hilbert-space development
  (matrices indexed by bit strings `Bits n`):

  * `idx a` : the big-endian number of a bit string; `idx_lt`, `idx_bit` (`(idx a / 2^(n−k−1)) % 2` is bit `k`),
    `idx_injective`, `idx_surj`;
  * `sum_idx` : `Σ_{a : Bits n} F (idx a) = Σ_{i < 2^n} F i` (what turns the model's `gsum` loops into Mathlib sums);
  * `oneSite_iff` : the test `i / (2b) = j / (2b) ∧ i % b = j % b` (`b = 2^(n−q−1)`) of `get_one_qubit_gate` /
    `np.kron(np.kron(I, g), I)` says exactly that the two strings agree away from qubit `q`.
-/
import Mathlib.Data.Nat.Bitwise
import Mathlib.Data.Finset.Card
import Mathlib.Data.Fintype.Pi
import Mathlib.Algebra.BigOperators.Group.Finset.Basic
import GraphiqModel.Proofs.HilbertKron
namespace Graphiq
namespace MixDM
open Hilbert

/-- big-endian number of a bit string (qubit 0 is the most significant bit) -/
def idx : {n : Nat} → Bits n → Nat
  | 0, _ => 0
  | _ + 1, a => 2 * idx (initB a) + (if lastB a then 1 else 0)

theorem idx_succ {n : Nat} (a : Bits (n + 1)) : idx a = 2 * idx (initB a) + (if lastB a then 1 else 0) := rfl

theorem idx_lt : ∀ {n : Nat} (a : Bits n), idx a < 2 ^ n
  | 0, _ => by simp [idx]
  | n + 1, a => by
    have := idx_lt (initB a)
    rw [idx_succ, pow_succ]
    split <;> omega

/-- `0/1` value of a bit -/
def b2n (b : Bool) : Nat := if b then 1 else 0

theorem b2n_lt (b : Bool) : b2n b < 2 := by cases b <;> decide
theorem b2n_inj (a b : Bool) (h : b2n a = b2n b) : a = b := by cases a <;> cases b <;> simp_all [b2n]

/-- bit `k` (from the left) of `idx a` is `a_k` -/
theorem idx_bit : ∀ {n : Nat} (a : Bits n) (k : Nat), k < n → (idx a / 2 ^ (n - k - 1)) % 2 = b2n (bx a k)
  | 0, _, _, h => by omega
  | n + 1, a, k, hk => by
    rw [idx_succ]
    by_cases e : k = n
    · subst e
      have : k + 1 - k - 1 = 0 := by omega
      rw [this, pow_zero, Nat.div_one, bx_lastB]
      unfold b2n
      split <;> omega
    · have hk' : k < n := by omega
      have e1 : n + 1 - k - 1 = (n - k - 1) + 1 := by omega
      rw [e1, pow_succ, Nat.mul_comm (2 ^ (n - k - 1)) 2, ← Nat.div_div_eq_div_mul]
      have e2 : (2 * idx (initB a) + if lastB a = true then 1 else 0) / 2 = idx (initB a) := by
        split <;> omega
      rw [e2, idx_bit (initB a) k hk', bx_initB a k hk']

theorem idx_injective {n : Nat} (a b : Bits n) (h : idx a = idx b) : a = b := by
  apply bits_ext
  intro k hk
  apply b2n_inj
  rw [← idx_bit a k hk, ← idx_bit b k hk, h]

/-- binary digits of `idx a` -/
theorem testBit_idx {n : Nat} (a : Bits n) (t : Nat) : (idx a).testBit t = (decide (t < n) && bx a (n - 1 - t)) := by
  by_cases ht : t < n
  · rw [Nat.testBit_eq_decide_div_mod_eq]
    have h := idx_bit a (n - 1 - t) (by omega)
    have e : n - (n - 1 - t) - 1 = t := by omega
    rw [e] at h
    rw [h]
    simp only [ht, decide_true, Bool.true_and]
    cases bx a (n - 1 - t) <;> simp [b2n]
  · have h1 : idx a < 2 ^ t := Nat.lt_of_lt_of_le (idx_lt a) (Nat.pow_le_pow_right (by norm_num) (by omega))
    rw [Nat.testBit_lt_two_pow h1]
    simp [ht]

theorem bx_eq_testBit {n : Nat} (a : Bits n) (k : Nat) (hk : k < n) : bx a k = (idx a).testBit (n - 1 - k) := by
  rw [testBit_idx]
  have : n - 1 - (n - 1 - k) = k := by omega
  rw [this]
  simp [show n - 1 - k < n by omega]

/-! ### sums over all strings = sums over all indices -/

theorem card_bits_nat (n : Nat) : Fintype.card (Bits n) = 2 ^ n := by
  simp [Bits, Fintype.card_pi]

theorem image_idx (n : Nat) : (Finset.univ : Finset (Bits n)).image idx = Finset.range (2 ^ n) := by
  apply Finset.eq_of_subset_of_card_le
  · intro i hi
    simp only [Finset.mem_image, Finset.mem_univ, true_and] at hi
    obtain ⟨a, rfl⟩ := hi
    exact Finset.mem_range.2 (idx_lt a)
  · rw [Finset.card_image_of_injective _ (fun a b h => idx_injective a b h), Finset.card_univ, card_bits_nat,
      Finset.card_range]

theorem idx_surj {n : Nat} (i : Nat) (hi : i < 2 ^ n) : ∃ a : Bits n, idx a = i := by
  have : i ∈ (Finset.univ : Finset (Bits n)).image idx := by rw [image_idx]; exact Finset.mem_range.2 hi
  simp only [Finset.mem_image, Finset.mem_univ, true_and] at this
  exact this

theorem sum_idx {M : Type} [AddCommMonoid M] (n : Nat) (F : Nat → M) :
    ∑ a : Bits n, F (idx a) = ∑ i ∈ Finset.range (2 ^ n), F i := by
  rw [← image_idx n, Finset.sum_image (fun a _ b _ h => idx_injective a b h)]

theorem idx_eq_zero {n : Nat} (a : Bits n) : idx a = 0 ↔ a = fun _ => false := by
  constructor
  · intro h
    apply bits_ext
    intro k hk
    rw [bx_eq_testBit a k hk, h, Nat.zero_testBit, bx_lt _ _ hk]
  · intro h
    apply Nat.eq_of_testBit_eq
    intro t
    rw [testBit_idx, Nat.zero_testBit, h]
    by_cases ht : t < n
    · simp [bx_lt _ _ (show n - 1 - t < n by omega)]
    · simp [ht]

/-! ### the Kronecker test of `get_one_qubit_gate` -/

/-- `i / (2b) = j / (2b) ∧ i % b = j % b` with `b = 2^(n−q−1)` ⟺ the strings agree at every qubit other than `q` -/
theorem oneSite_iff (n q : Nat) (hq : q < n) (a c : Bits n) :
    (idx a / (2 * 2 ^ (n - q - 1)) = idx c / (2 * 2 ^ (n - q - 1)) ∧ idx a % 2 ^ (n - q - 1) = idx c % 2 ^ (n - q - 1))
      ↔ ∀ j : Fin n, j.val ≠ q → a j = c j := by
  have e2 : 2 * 2 ^ (n - q - 1) = 2 ^ (n - q) := by
    obtain ⟨m, hm⟩ : ∃ m, n - q = m + 1 := ⟨n - q - 1, by omega⟩
    have hm' : n - q - 1 = m := by omega
    rw [hm', hm, pow_succ, Nat.mul_comm]
  rw [e2]
  constructor
  · intro ⟨h1, h2⟩ j hj
    have hjn := j.isLt
    have ea := bx_eq_testBit a j.val hjn
    have ec := bx_eq_testBit c j.val hjn
    rw [bx_lt _ _ hjn] at ea ec
    rw [ea, ec]
    by_cases hlt : j.val < q
    · -- a high bit: read it from the quotient
      have e : n - 1 - j.val = (q - 1 - j.val) + (n - q) := by omega
      rw [e, ← Nat.testBit_div_two_pow, ← Nat.testBit_div_two_pow, h1]
    · -- a low bit: read it from the remainder
      have hgt : q < j.val := by omega
      have hm : n - 1 - j.val < n - q - 1 := by omega
      have ra := Nat.testBit_mod_two_pow (idx a) (n - q - 1) (n - 1 - j.val)
      have rc := Nat.testBit_mod_two_pow (idx c) (n - q - 1) (n - 1 - j.val)
      simp only [hm, decide_true, Bool.true_and] at ra rc
      rw [← ra, ← rc, h2]
  · intro h
    have hb : ∀ k, k < n → k ≠ q → bx a k = bx c k := by
      intro k hk hkq
      rw [bx_lt _ _ hk, bx_lt _ _ hk]
      exact h ⟨k, hk⟩ hkq
    constructor
    · apply Nat.eq_of_testBit_eq
      intro t
      rw [Nat.testBit_div_two_pow, Nat.testBit_div_two_pow, testBit_idx, testBit_idx]
      by_cases ht : t + (n - q) < n
      · rw [hb (n - 1 - (t + (n - q))) (by omega) (by omega)]
      · simp [ht]
    · apply Nat.eq_of_testBit_eq
      intro t
      rw [Nat.testBit_mod_two_pow, Nat.testBit_mod_two_pow, testBit_idx, testBit_idx]
      by_cases ht : t < n - q - 1
      · rw [hb (n - 1 - t) (by omega) (by omega)]
      · simp [ht]

end MixDM
end Graphiq
