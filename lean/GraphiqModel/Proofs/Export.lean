/-
  Proofs/Export.lean — lemmas about the export/import model (C14).

  Part 1: facts about the *regenerated* name tables, each closed by kernel `decide` over the whole finite table
          (a changed table entry makes exactly the affected fact fail to build).
  Part 2: `tokenise` inverts concatenation of one-qubit gate names.
  Part 3: what the exporter emits for one operation (`appOf`), for a wrapper via the loop invariant of
          `single_qubit_wrapper_info`; the body loop of `to_openqasm` (`emit`).
  Part 4: the command loop of `from_openqasm` reads `emit` back (induction over the operation list).
  Part 5: JSON.
  Part 6: standard reading of the exported program.
-/
import GraphiqModel.Model.Export
namespace Graphiq.Export

/-! ## Part 1: table facts (kernel-checked on the regenerated literals) -/

theorem Cls.mem_all (k : Cls) : k ∈ Cls.all := by
  cases k with
  | g1 g => cases g <;> decide
  | g2 g => cases g <;> decide
  | gc g => cases g <;> decide
  | measZ => decide

theorem G1.mem_all (g : G1) : g ∈ G1.all := by cases g <;> decide

/-- the openQASM gate name of a one-qubit class ("" if the class had none) -/
def g1Name (g : G1) : Str := (gateName (.g1 g)).getD []
def g2Name (g : G2) : Str := (gateName (.g2 g)).getD []

theorem tbl_gateName_some : ∀ k ∈ Cls.all, (gateName k).isSome = true := by decide +kernel
theorem tbl_g1Name_nil : ∀ g ∈ G1.all, (g1Name g == []) = (g == G1.I) := by decide +kernel
theorem tbl_g1_roundtrip : ∀ g ∈ G1.all, g ≠ .I → nameToClass (g1Name g) = some (.g1 g) := by decide +kernel
theorem tbl_g2_roundtrip : ∀ g ∈ [G2.CNOT, G2.CZ], nameToClass (g2Name g) = some (.g2 g) := by decide +kernel
theorem tbl_g1_oneQubit : ∀ g ∈ G1.all, isOneQubit (.g1 g) = true := by decide +kernel
theorem tbl_g1_notMulti : ∀ g ∈ G1.all, multiComp (.g1 g) = false := by decide +kernel
theorem tbl_classical_x : nameToClass ("classical ".toList ++ ['x']) = some (.gc .CCNOT) := by decide +kernel
theorem tbl_classical_z : nameToClass ("classical ".toList ++ ['z']) = some (.gc .CCZ) := by decide +kernel
theorem tbl_classical_reset_x : nameToClass ("classical reset ".toList ++ ['x']) = some (.gc .MCR) := by decide +kernel
theorem tbl_emptyInfo : emptyInfo.usage = .empty ∧ emptyInfo.multi = false ∧ emptyInfo.imports = [] := by decide +kernel
/-- no exportable class needs an `import` line (an import line would not survive `from_openqasm`) -/
theorem tbl_imports_nil : ∀ k ∈ Cls.all, importStrings k = [] := by decide +kernel
/-- the header line passes the importer's check -/
theorem tbl_header : (Gen.header.toList.filter fun c => !isWs c) = "OPENQASM2.0;".toList := by decide +kernel

/-- JSON: every exportable class survives class → name → class, no JSON name is empty (so `if name:` keeps it), and
    `from_json` picks the constructor signature of the class -/
theorem tbl_json_roundtrip : ∀ k ∈ Cls.all, (classToName k).bind nameToClass = some k := by decide +kernel
theorem tbl_json_nonempty : ∀ k ∈ Cls.all, classToName k ≠ some [] := by decide +kernel
theorem tbl_json_shape : ∀ k ∈ Cls.all, jsonShape k = k.shape := by decide +kernel

/-- shape of a one-qubit gate name that the `sdg|.` tokeniser splits off correctly -/
def tokOK (n : Str) : Bool := n == "sdg".toList || (n.length == 1 && n.head? != some 'd')

theorem tbl_g1_tokOK : ∀ g ∈ G1.all, g ≠ .I → tokOK (g1Name g) = true := by decide +kernel

/-- the non-empty one-qubit gate names -/
def g1Names : List Str := (G1.all.filter (· != .I)).map g1Name

/-- no key of `name_to_class_map` is a concatenation of two or more one-qubit gate names -/
theorem tbl_no_key_is_concat :
    ∀ κ ∈ nameToClassTbl.map (·.1), ¬ (2 ≤ (tokenise κ).length ∧ ∀ t ∈ tokenise κ, t ∈ g1Names) := by decide +kernel

/-! ## Part 2: `re.findall(r"sdg|.", name)` inverts concatenation of one-qubit gate names -/

theorem tokenise_single (c : Char) (rest : Str) (h : c ≠ 's' ∨ rest.head? ≠ some 'd') :
    tokenise (c :: rest) = [c] :: tokenise rest := by
  apply tokenise.eq_3
  intro r hc hr
  subst hc; subst hr
  simp at h

theorem tokenise_sdg (rest : Str) : tokenise ("sdg".toList ++ rest) = "sdg".toList :: tokenise rest :=
  tokenise.eq_2 rest

theorem tokOK_head (n : Str) (h : tokOK n = true) : n ≠ [] ∧ n.head? ≠ some 'd' := by
  unfold tokOK at h
  simp only [Bool.or_eq_true, beq_iff_eq, Bool.and_eq_true, bne_iff_ne, ne_eq] at h
  rcases h with h | ⟨hl, hd⟩
  · subst h; decide
  · refine ⟨?_, hd⟩
    intro hn; subst hn; simp at hl

theorem tokenise_cons_of_tokOK (n rest : Str) (hn : tokOK n = true) (hrest : rest.head? ≠ some 'd') :
    tokenise (n ++ rest) = n :: tokenise rest := by
  unfold tokOK at hn
  simp only [Bool.or_eq_true, beq_iff_eq, Bool.and_eq_true, bne_iff_ne, ne_eq] at hn
  rcases hn with h | ⟨hl, _⟩
  · subst h; exact tokenise_sdg rest
  · match n, hl with
    | [c], _ => exact tokenise_single c rest (Or.inr hrest)

theorem flatten_head_ne_d (ns : List Str) (h : ∀ n ∈ ns, tokOK n = true) : ns.flatten.head? ≠ some 'd' := by
  cases ns with
  | nil => simp
  | cons m rest =>
    have hm := tokOK_head m (h m (by simp))
    cases m with
    | nil => exact absurd rfl hm.1
    | cons c cs => simpa using hm.2

/-- the tokeniser recovers the list of names from their concatenation -/
theorem tokenise_flatten (ns : List Str) (h : ∀ n ∈ ns, tokOK n = true) : tokenise ns.flatten = ns := by
  induction ns with
  | nil => rfl
  | cons n rest ih =>
    have hrest : ∀ m ∈ rest, tokOK m = true := fun m hm => h m (by simp [hm])
    rw [List.flatten_cons, tokenise_cons_of_tokOK n _ (h n (by simp)) (flatten_head_ne_d rest hrest), ih hrest]

/-! ## Part 3: what the exporter emits -/

theorem gateName_g1 (g : G1) : gateName (.g1 g) = some (g1Name g) := by
  have h := tbl_gateName_some (.g1 g) (Cls.mem_all _)
  unfold g1Name
  cases hg : gateName (.g1 g) with
  | none => rw [hg] at h; simp at h
  | some n => rfl

theorem gateName_g2 (g : G2) : gateName (.g2 g) = some (g2Name g) := by
  have h := tbl_gateName_some (.g2 g) (Cls.mem_all _)
  unfold g2Name
  cases hg : gateName (.g2 g) with
  | none => rw [hg] at h; simp at h
  | some n => rfl

theorem g1Name_nil_iff (g : G1) : g1Name g = [] ↔ g = .I := by
  have h := tbl_g1Name_nil g (G1.mem_all g)
  constructor
  · intro hn; rw [hn] at h; simpa using h.symm
  · intro hg; subst hg; simpa using h

/-- `classInfo` of a one-qubit class, as far as the body of the program depends on it -/
theorem classInfo_g1 (g : G1) : ∃ i, classInfo (.g1 g) = .ok i ∧ i.gateName = g1Name g ∧ i.multi = false ∧
    i.usage = (if g1Name g = [] then Usage.empty else Usage.one (g1Name g)) ∧ i.imports = [] := by
  refine ⟨{
      gateName := g1Name g, imports := importStrings (.g1 g), defs := (definitions (.g1 g)).map fun d => { text := d },
      usage := usageOf (.g1 g) (g1Name g), multi := multiComp (.g1 g) },
    by simp only [classInfo, gateName_g1], rfl, tbl_g1_notMulti g (G1.mem_all g), ?_, tbl_imports_nil _ (Cls.mem_all _)⟩
  show usageOf (.g1 g) (g1Name g) = _
  by_cases hg : g = .I
  · subst hg; simp [(g1Name_nil_iff G1.I).2 rfl, usageOf]
  · have : g1Name g ≠ [] := fun h => hg ((g1Name_nil_iff g).1 h)
    simp only [this, if_false]
    cases g <;> first | rfl | exact absurd rfl hg

theorem lookupTbl_dictSet {α : Type} (d : List (Str × α)) (k : Str) (v : α) (n : Str) :
    lookupTbl (dictSet d k v) n = if n = k then some v else lookupTbl d n := by
  unfold dictSet lookupTbl
  rw [List.find?_cons]
  by_cases hn : n = k
  · subst hn; simp
  · have : (k == n) = false := by simp [Ne.symm hn]
    simp [this, hn]

/-- loop invariant of `single_qubit_wrapper_info` (`names` = gate names of the classes seen so far, empty ones included) -/
structure WrapInv (a : WrapAcc) (names : List Str) : Prop where
  gateName : a.gateName = names.flatten
  body : a.body = (names.filter (· ≠ [])).reverse
  dictNil : (lookupTbl a.dict []).isSome = true
  dictOK : ∀ n i, lookupTbl a.dict n = some i →
    i.multi = false ∧ i.usage = (if n = [] then Usage.empty else Usage.one n) ∧ i.imports = []
  importsNil : a.imports = []

theorem wrapInv_init : WrapInv {} [] := by
  refine ⟨rfl, rfl, by simp [lookupTbl], ?_, rfl⟩
  intro n i h
  have h' : lookupTbl (dictSet [] [] emptyInfo) n = some i := h
  rw [lookupTbl_dictSet] at h'
  by_cases hn : n = []
  · subst hn; simp at h'; subst h'; simp [tbl_emptyInfo.1, tbl_emptyInfo.2.1, tbl_emptyInfo.2.2]
  · simp [hn, lookupTbl] at h'

theorem wrapStep_inv (a : WrapAcc) (names : List Str) (g : G1) (h : WrapInv a names) :
    ∃ a', wrapStep a g = .ok a' ∧ WrapInv a' (names ++ [g1Name g]) := by
  obtain ⟨i, hi, hname, hmulti, husage, himp⟩ := classInfo_g1 g
  by_cases hn : g1Name g = []
  · refine ⟨{ a with dict := dictSet a.dict i.gateName i }, ?_, ?_⟩
    · simp [wrapStep, hi, bind, Except.bind, pure, Except.pure, hname, hn]
    · refine ⟨by simp [h.gateName, hn], by simp [h.body, hn], ?_, ?_, h.importsNil⟩
      · simp [lookupTbl_dictSet, hname, hn]
      · intro n j hj
        simp only [lookupTbl_dictSet] at hj
        split at hj
        · rename_i hnk
          simp at hj; subst hj
          rw [hnk, hname]
          exact ⟨hmulti, by simp [husage, hn], himp⟩
        · exact h.dictOK n j hj
  · refine ⟨{ a with
               dict := dictSet a.dict i.gateName i, imports := a.imports ++ i.imports, defs := a.defs ++ i.defs,
               gateName := a.gateName ++ i.gateName, defUsage := i.gateName ++ " a;\n".toList ++ a.defUsage,
               body := i.gateName :: a.body }, ?_, ?_⟩
    · simp [wrapStep, hi, bind, Except.bind, pure, Except.pure, hname, hn]
    · refine ⟨by simp [h.gateName, hname], by simp [h.body, hname, hn], ?_, ?_, by simp [h.importsNil, himp]⟩
      · simp only [lookupTbl_dictSet]
        split
        · rfl
        · exact h.dictNil
      · intro n j hj
        simp only [lookupTbl_dictSet] at hj
        split at hj
        · rename_i hnk
          simp at hj; subst hj
          rw [hnk, hname]
          exact ⟨hmulti, by simp [husage, hn], himp⟩
        · exact h.dictOK n j hj

theorem wrapFold_inv (gs : List G1) (a : WrapAcc) (names : List Str) (h : WrapInv a names) :
    ∃ a', gs.foldlM wrapStep a = .ok a' ∧ WrapInv a' (names ++ gs.map g1Name) := by
  induction gs generalizing a names with
  | nil => exact ⟨a, rfl, by simpa using h⟩
  | cons g rest ih =>
    obtain ⟨a1, h1, hinv1⟩ := wrapStep_inv a names g h
    obtain ⟨a2, h2, hinv2⟩ := ih a1 _ hinv1
    refine ⟨a2, ?_, by simpa using hinv2⟩
    simp [List.foldlM_cons, h1, bind, Except.bind, h2]

/-- the concatenated gate name of a wrapper's `operations` list -/
def wrapName (gs : List G1) : Str := (gs.map g1Name).flatten

/-- `single_qubit_wrapper_info`: whether or not the "already defined" shortcut fires, the usage closure applies a gate
    called by the concatenated name (or nothing when every listed class is the identity), never multi-component -/
theorem wrapperInfo_spec (gs : List G1) : ∃ i, singleQubitWrapperInfo gs = .ok i ∧ i.multi = false ∧
    i.usage = (if wrapName gs = [] then Usage.empty else Usage.one (wrapName gs)) ∧ i.imports = [] := by
  obtain ⟨a, ha, hinv⟩ := wrapFold_inv gs {} [] wrapInv_init
  simp only [List.nil_append] at hinv
  have hgn : a.gateName = wrapName gs := hinv.gateName
  unfold singleQubitWrapperInfo
  simp only [ha, bind, Except.bind]
  cases hl : lookupTbl a.dict a.gateName with
  | some j =>
    refine ⟨j, rfl, (hinv.dictOK _ _ hl).1, ?_, (hinv.dictOK _ _ hl).2.2⟩
    rw [(hinv.dictOK _ _ hl).2.1, hgn]
  | none =>
    have hne : a.gateName ≠ [] := by
      intro h0; rw [h0] at hl; have := hinv.dictNil; rw [hl] at this; simp at this
    refine ⟨_, rfl, rfl, ?_, hinv.importsNil⟩
    simp [← hgn, hne]

/-- the group of statements `to_openqasm` appends for one operation (`[]` = nothing is appended) -/
def appOf : Op → List Stmt
  | .one g q => if g1Name g = [] then [] else [.gate (g1Name g) [q]]
  | .wrap gs q => if wrapName gs = [] then [] else [.gate (wrapName gs) [q]]
  | .ctrl g a b => [.gate (g2Name g) [a, b]]
  | .cctrl .CCNOT a b c => [.measure a c, .ifx c "x".toList b]
  | .cctrl .CCZ a b c => [.measure a c, .ifx c "z".toList b]
  | .cctrl .MCR a b c => [.measure a c, .ifx c "x".toList b, .barrier [a, b], .reset a]
  | .meas q c => [.measure q c]

theorem classInfo_ok (k : Cls) : ∃ i, classInfo k = .ok i ∧ i.usage = usageOf k ((gateName k).getD []) ∧ i.multi = multiComp k ∧
    i.imports = [] := by
  have h := tbl_gateName_some k (Cls.mem_all k)
  cases hg : gateName k with
  | none => rw [hg] at h; simp at h
  | some n =>
    refine ⟨{ gateName := n, imports := importStrings k, defs := (definitions k).map fun d => { text := d },
              usage := usageOf k n, multi := multiComp k }, by simp only [classInfo, hg], rfl, rfl, tbl_imports_nil k (Cls.mem_all k)⟩

/-- every operation has an openQASM info object whose usage closure produces `appOf` -/
theorem info_spec (op : Op) : ∃ i, op.info = .ok i ∧ useGate i.usage op = .ok (appOf op) ∧ i.imports = [] := by
  cases op with
  | one g q =>
    obtain ⟨i, hi, _, _, hu, himp⟩ := classInfo_g1 g
    refine ⟨i, hi, ?_, himp⟩
    rw [hu]; unfold appOf
    split <;> simp_all [useGate, Op.qRegs]
  | wrap gs q =>
    obtain ⟨i, hi, _, hu, himp⟩ := wrapperInfo_spec gs
    refine ⟨i, hi, ?_, himp⟩
    rw [hu]; unfold appOf
    split <;> simp_all [useGate, Op.qRegs]
  | ctrl g a b =>
    obtain ⟨i, hi, hu, _, himp⟩ := classInfo_ok (.g2 g)
    refine ⟨i, hi, ?_, himp⟩
    rw [hu]; simp [usageOf, useGate, Op.qRegs, appOf, g2Name]
  | cctrl g a b c =>
    obtain ⟨i, hi, hu, _, himp⟩ := classInfo_ok (.gc g)
    refine ⟨i, hi, ?_, himp⟩
    rw [hu]; cases g <;> simp [usageOf, useGate, Op.qRegs, Op.cRegs, appOf]
  | meas q c =>
    obtain ⟨i, hi, hu, _, himp⟩ := classInfo_ok .measZ
    refine ⟨i, hi, ?_, himp⟩
    rw [hu]; simp [usageOf, useGate, Op.qRegs, Op.cRegs, appOf]

/-- `oq_info.multi_comp` of an operation (`false` if it had no info) -/
def multiOf (op : Op) : Bool := match op.info with | .ok i => i.multi | .error _ => false

/-- the groups the body loop of `to_openqasm` appends, as a function of the `opened_barrier` flag -/
def emit (bar : Stmt) : Bool → List Op → List (List Stmt)
  | _, [] => []
  | opened, op :: rest =>
    (if (opened || multiOf op) && !(appOf op).isEmpty then [[bar]] else []) ++
    (if !(appOf op).isEmpty then [appOf op] else []) ++
    emit bar (if multiOf op then true else if !(appOf op).isEmpty then false else opened) rest

theorem bodyStep_spec (bar : Stmt) (a : BodyAcc) (op : Op) :
    bodyStep bar a op = .ok
      { opened := if multiOf op then true else if !(appOf op).isEmpty then false else a.opened,
        out := a.out ++ (if (a.opened || multiOf op) && !(appOf op).isEmpty then [[bar]] else []) ++
               (if !(appOf op).isEmpty then [appOf op] else []) } := by
  obtain ⟨i, hi, hu, _⟩ := info_spec op
  have hm : multiOf op = i.multi := by simp [multiOf, hi]
  unfold bodyStep
  simp only [hi, hu, bind, Except.bind, pure, Except.pure, hm]
  congr 1
  cases a.opened <;> cases i.multi <;> cases (appOf op).isEmpty <;> simp

theorem bodyFold_spec (bar : Stmt) (seq : List Op) (a : BodyAcc) :
    ∃ o, seq.foldlM (bodyStep bar) a = .ok { opened := o, out := a.out ++ emit bar a.opened seq } := by
  induction seq generalizing a with
  | nil => exact ⟨a.opened, by simp [emit, pure, Except.pure]⟩
  | cons op rest ih =>
    obtain ⟨o, ho⟩ := ih { opened := if multiOf op then true else if !(appOf op).isEmpty then false else a.opened,
                           out := a.out ++ (if (a.opened || multiOf op) && !(appOf op).isEmpty then [[bar]] else []) ++
                                  (if !(appOf op).isEmpty then [appOf op] else []) }
    refine ⟨o, ?_⟩
    simp only [List.append_assoc] at ho
    simp only [List.foldlM_cons, bodyStep_spec, bind, Except.bind, emit, List.append_assoc]
    exact ho

/-- the header never fails for these operations, and there are no import lines -/
theorem headerOf_ok (adds : List Op) : ∃ defs, headerOf adds = .ok ([], defs) := by
  unfold headerOf
  generalize ([] : List DefEntry) = acc
  induction adds generalizing acc with
  | nil => exact ⟨acc, rfl⟩
  | cons op rest ih =>
    obtain ⟨i, hi, _, himp⟩ := info_spec op
    simp only [List.foldlM_cons, hi, bind, Except.bind, pure, Except.pure, himp, List.foldl_nil]
    exact ih _

/-- `to_openqasm` succeeds and its body is `emit` -/
theorem toOpenqasm_spec (c : Circuit) (seq : List Op) : ∃ defs,
    headerOf c.ops = .ok ([], defs) ∧
    toOpenqasm c seq = .ok { header := Gen.header.toList, imports := [], defs := defs, decls := declsOf c,
                              body := emit (.barrier (qregsOf c)) false seq } := by
  obtain ⟨defs, hh⟩ := headerOf_ok c.ops
  obtain ⟨o, ho⟩ := bodyFold_spec (.barrier (qregsOf c)) seq {}
  refine ⟨defs, hh, ?_⟩
  unfold toOpenqasm
  simp only [hh, bind, Except.bind, ho, pure, Except.pure, List.nil_append]

/-! ## Part 4: `from_openqasm` reads the exported body back -/

/-- what one operation becomes under openQASM export followed by import: identities vanish, a wrapper keeps its
    non-identity classes (and is a plain operation again when only one is left) -/
def normWrap (q : QReg) : List G1 → Option Op
  | [] => none
  | [g] => some (.one g q)
  | gs' => some (.wrap gs' q)

def normOp : Op → Option Op
  | .one g q => if g = .I then none else some (.one g q)
  | .wrap gs q => normWrap q (gs.filter (· != .I))
  | op => some op

/-- every register of the operation exists in the circuit -/
def InRange (c : Circuit) (op : Op) : Prop := (∀ q ∈ op.qRegs, q.i < c.nOf q.t) ∧ (∀ r ∈ op.cRegs, r < c.nc)

instance (c : Circuit) (op : Op) : Decidable (InRange c op) := by unfold InRange; infer_instance

instance : DecidableEq (Except Err Circuit) := fun a b =>
  match a, b with
  | .ok x, .ok y => if h : x = y then isTrue (by rw [h]) else isFalse (by intro h'; injection h' with h''; exact h h'')
  | .error x, .error y => if h : x = y then isTrue (by rw [h]) else isFalse (by intro h'; injection h' with h''; exact h h'')
  | .ok _, .error _ => isFalse (by intro h; cases h)
  | .error _, .ok _ => isFalse (by intro h; cases h)

/-- a `OneQubitGateWrapper` object always has a non-empty `operations` list (its constructor raises otherwise) -/
def wrapOK : Op → Bool
  | .wrap [] _ => false
  | _ => true

theorem addReg_fold (n : Nat) (l : List Nat) (h : ∀ r ∈ l, r < n) : l.foldlM addRegIfAbsent n = .ok n := by
  induction l with
  | nil => rfl
  | cons r rest ih =>
    have hr : r < n := h r (by simp)
    have h1 : addRegIfAbsent n r = .ok n := by
      unfold addRegIfAbsent
      have : ¬ r = n := by omega
      have : ¬ r > n := by omega
      simp [*]
    simp only [List.foldlM_cons, h1, bind, Except.bind]
    exact ih (fun r hr => h r (by simp [hr]))

theorem addQ_inRange (c : Circuit) (q : QReg) (h : q.i < c.nOf q.t) : c.addQ q = .ok c := by
  unfold Circuit.addQ
  cases hq : q.t <;> rw [hq] at h <;> simp only [Circuit.nOf] at h
  · have h1 : addRegIfAbsent c.ne q.i = .ok c.ne := by
      unfold addRegIfAbsent
      have : ¬ q.i = c.ne := by omega
      have : ¬ q.i > c.ne := by omega
      simp [*]
    simp [h1, bind, Except.bind, pure, Except.pure]
  · have h1 : addRegIfAbsent c.np q.i = .ok c.np := by
      unfold addRegIfAbsent
      have : ¬ q.i = c.np := by omega
      have : ¬ q.i > c.np := by omega
      simp [*]
    simp [h1, bind, Except.bind, pure, Except.pure]

theorem addQ_fold (c : Circuit) (l : List QReg) (h : ∀ q ∈ l, q.i < c.nOf q.t) : l.foldlM Circuit.addQ c = .ok c := by
  induction l with
  | nil => rfl
  | cons q rest ih =>
    simp only [List.foldlM_cons, addQ_inRange c q (h q (by simp)), bind, Except.bind]
    exact ih (fun r hr => h r (by simp [hr]))

theorem mem_sortQ (l : List QReg) (q : QReg) (h : q ∈ sortQ l) : q ∈ l := by
  unfold sortQ at h
  split at h
  · split at h <;> simp_all [or_comm]
  · exact h

/-- adding an operation whose registers all exist only appends it -/
theorem add_inRange (c : Circuit) (op : Op) (h : InRange c op) : c.add op = .ok { c with ops := c.ops ++ [op] } := by
  unfold Circuit.add
  simp only [addReg_fold c.nc op.cRegs h.2, bind, Except.bind]
  have : (sortQ op.qRegs).foldlM Circuit.addQ { c with nc := c.nc } = .ok { c with nc := c.nc } :=
    addQ_fold _ _ (fun q hq => h.1 q (mem_sortQ _ _ hq))
  simp only [this, pure, Except.pure]

theorem parseCmds_skipped (c : Circuit) (s : Stmt) (l : List Stmt) (hs : s.isSkipped = true) :
    parseCmds c 0 (s :: l) = parseCmds c 0 l := by
  simp [parseCmds, parseStep, hs]

theorem parseCmds_consume (c : Circuit) (k : Nat) (s : Stmt) (l : List Stmt) :
    parseCmds c (k + 1) (s :: l) = parseCmds c k l := by
  simp [parseCmds]

theorem parseCmds_step (c c' : Circuit) (s : Stmt) (l : List Stmt) (op : Op) (k : Nat)
    (h1 : parseStep s l = .ok (some op, k)) (h2 : c.add op = .ok c') :
    parseCmds c 0 (s :: l) = parseCmds c' k l := by
  simp [parseCmds, h1, h2]

/-- first and second statement of an emitted group -/
theorem appOf_head (op : Op) (s : Stmt) (h : (appOf op).head? = some s) : s.hasIf = false ∧ s.hasReset = false := by
  cases op with
  | one g q =>
    simp only [appOf] at h; split at h
    · simp at h
    · simp at h; subst h; exact ⟨rfl, rfl⟩
  | wrap gs q =>
    simp only [appOf] at h; split at h
    · simp at h
    · simp at h; subst h; exact ⟨rfl, rfl⟩
  | ctrl g a b => simp [appOf] at h; subst h; exact ⟨rfl, rfl⟩
  | cctrl g a b c => cases g <;> simp [appOf] at h <;> subst h <;> exact ⟨rfl, rfl⟩
  | meas q c => simp [appOf] at h; subst h; exact ⟨rfl, rfl⟩

theorem appOf_second (op : Op) (s : Stmt) (h : (appOf op)[1]? = some s) : s.hasReset = false := by
  cases op with
  | one g q => simp only [appOf] at h; split at h <;> simp at h
  | wrap gs q => simp only [appOf] at h; split at h <;> simp at h
  | ctrl g a b => simp [appOf] at h
  | cctrl g a b c => cases g <;> simp [appOf] at h <;> subst h <;> rfl
  | meas q c => simp [appOf] at h

/-- shape of a command list `l` that follows an operation: its first command is neither an `if` nor a `reset`, its
    second is not a `reset` (so a preceding `measure` is not mistaken for the start of a longer idiom) -/
def RestOK (l : List Stmt) : Prop :=
  (∀ s, l[0]? = some s → s.hasIf = false ∧ s.hasReset = false) ∧ (∀ s, l[1]? = some s → s.hasReset = false)

theorem restOK_app (op : Op) (l : List Stmt) (h : RestOK l) : RestOK (appOf op ++ l) := by
  cases happ : appOf op with
  | nil => simpa using h
  | cons s1 ss =>
    have hh := appOf_head op s1 (by simp [happ])
    refine ⟨fun s hs => ?_, fun s hs => ?_⟩
    · simp at hs; subst hs; exact hh
    · cases ss with
      | nil => simp at hs; exact (h.1 s (by simpa using hs)).2
      | cons s2 ss' =>
        simp at hs; subst hs
        exact appOf_second op _ (by simp [happ])

theorem restOK_bar (bar : Stmt) (hb1 : bar.hasIf = false) (hb2 : bar.hasReset = false) (l : List Stmt) (h : RestOK l) :
    RestOK (bar :: l) := by
  refine ⟨fun s hs => ?_, fun s hs => ?_⟩
  · simp at hs; subst hs; exact ⟨hb1, hb2⟩
  · exact (h.1 s (by simpa using hs)).2

/-- the flattened groups of one loop iteration -/
theorem emit_cons_flatten (bar : Stmt) (o : Bool) (op : Op) (rest : List Op) :
    (emit bar o (op :: rest)).flatten =
      (if (o || multiOf op) && !(appOf op).isEmpty then [bar] else []) ++ appOf op ++
      (emit bar (if multiOf op then true else if !(appOf op).isEmpty then false else o) rest).flatten := by
  rw [emit]
  cases happ : appOf op <;> cases (o || multiOf op) <;> simp

/-- what follows an operation's statements in the command list never looks like the continuation of a measurement idiom -/
theorem rest_shape (bar : Stmt) (hb1 : bar.hasIf = false) (hb2 : bar.hasReset = false) (seq : List Op) (o : Bool) :
    RestOK ((emit bar o seq).flatten ++ [Stmt.empty]) := by
  induction seq generalizing o with
  | nil => refine ⟨fun s hs => ?_, fun s hs => ?_⟩ <;> simp [emit] at hs; subst hs; exact ⟨rfl, rfl⟩
  | cons op rest ih =>
    rw [emit_cons_flatten, List.append_assoc, List.append_assoc]
    have h1 := restOK_app op _ (ih (if multiOf op then true else if !(appOf op).isEmpty then false else o))
    split
    · exact restOK_bar bar hb1 hb2 _ h1
    · simpa using h1

theorem getD0_noIf (R : List Stmt) (h : RestOK R) : (R.getD 0 .empty).hasIf = false := by
  rw [List.getD_eq_getElem?_getD]
  cases hr : R[0]? with
  | none => rfl
  | some s => exact (h.1 s hr).1

theorem getD1_noReset (R : List Stmt) (h : RestOK R) : (R.getD 1 .empty).hasReset = false := by
  rw [List.getD_eq_getElem?_getD]
  cases hr : R[1]? with
  | none => rfl
  | some s => exact h.2 s hr

theorem nameToClass_mem (n : Str) (k : Cls) (h : nameToClass n = some k) : n ∈ nameToClassTbl.map (·.1) := by
  unfold nameToClass lookupTbl at h
  cases hf : nameToClassTbl.find? (fun p => p.1 == n) with
  | none => simp [hf] at h
  | some p =>
    have hm := List.mem_of_find?_eq_some hf
    have hp := List.find?_some hf
    simp at hp
    rw [← hp]
    exact List.mem_map_of_mem hm

theorem g1Name_tokOK (g : G1) (hg : g ≠ .I) : tokOK (g1Name g) = true := tbl_g1_tokOK g (G1.mem_all g) hg

theorem g1Name_mem_g1Names (g : G1) (hg : g ≠ .I) : g1Name g ∈ g1Names := by
  unfold g1Names
  apply List.mem_map_of_mem
  simp [G1.mem_all g, hg]

/-- identities contribute nothing to the concatenated name -/
theorem wrapName_filter (gs : List G1) : wrapName gs = ((gs.filter (· != .I)).map g1Name).flatten := by
  unfold wrapName
  induction gs with
  | nil => rfl
  | cons g rest ih =>
    by_cases hg : g = .I
    · subst hg
      have : g1Name .I = [] := (g1Name_nil_iff .I).2 rfl
      simp [this, ih]
    · simp [hg, ih]

theorem concat_not_a_key (gs : List G1) (hI : ∀ g ∈ gs, g ≠ .I) (hlen : 2 ≤ gs.length) :
    nameToClass ((gs.map g1Name).flatten) = none := by
  cases h : nameToClass ((gs.map g1Name).flatten) with
  | none => rfl
  | some k =>
    exfalso
    have hmem := nameToClass_mem _ _ h
    have htok : tokenise ((gs.map g1Name).flatten) = gs.map g1Name :=
      tokenise_flatten _ (by
        intro n hn
        obtain ⟨g, hg, rfl⟩ := List.mem_map.1 hn
        exact g1Name_tokOK g (hI g hg))
    apply tbl_no_key_is_concat _ hmem
    rw [htok]
    refine ⟨by simpa using hlen, ?_⟩
    intro t ht
    obtain ⟨g, hg, rfl⟩ := List.mem_map.1 ht
    exact g1Name_mem_g1Names g (hI g hg)

theorem wrapperCheck_g1 (gs : List G1) : wrapperCheck (gs.map fun g => some (Cls.g1 g)) = .ok gs := by
  induction gs with
  | nil => rfl
  | cons g rest ih =>
    simp [wrapperCheck, tbl_g1_oneQubit g (G1.mem_all g), ih, Except.map]

/-- the single-register branch of the parser on the name a wrapper is exported under -/
theorem parseOneQubit_names (gs' : List G1) (q : QReg) (op' : Op) (hI : ∀ g ∈ gs', g ≠ .I)
    (hn : normWrap q gs' = some op') : parseOneQubit ((gs'.map g1Name).flatten) q = .ok op' := by
  match gs', hn, hI with
  | [], hn, _ => simp [normWrap] at hn
  | [g], hn, hI =>
    simp [normWrap] at hn; subst hn
    have hg : g ≠ .I := hI g (by simp)
    simp [parseOneQubit, tbl_g1_roundtrip g (G1.mem_all g) hg, mkOne]
  | g1 :: g2 :: rest, hn, hI =>
    simp [normWrap] at hn; subst hn
    have hnone := concat_not_a_key (g1 :: g2 :: rest) hI (by simp)
    have htok : tokenise (((g1 :: g2 :: rest).map g1Name).flatten) = (g1 :: g2 :: rest).map g1Name :=
      tokenise_flatten _ (by
        intro n hn
        obtain ⟨g, hg, rfl⟩ := List.mem_map.1 hn
        exact g1Name_tokOK g (hI g hg))
    have hmap : ((g1 :: g2 :: rest).map g1Name).map nameToClass = (g1 :: g2 :: rest).map fun g => some (Cls.g1 g) := by
      rw [List.map_map]
      apply List.map_congr_left
      intro g hg
      exact tbl_g1_roundtrip g (G1.mem_all g) (hI g hg)
    unfold parseOneQubit
    rw [hnone]
    simp only [htok, hmap]
    have hany : ((g1 :: g2 :: rest).map fun g => some (Cls.g1 g)).any Option.isNone = false := by
      simp
    simp only [hany, Bool.false_eq_true, if_false, mkWrapperOpt, wrapperCheck_g1]
    simp [Except.map]

theorem parseOneQubit_wrapName (gs : List G1) (q : QReg) (op' : Op) (hn : normOp (.wrap gs q) = some op') :
    parseOneQubit (wrapName gs) q = .ok op' := by
  rw [wrapName_filter]
  exact parseOneQubit_names _ q op' (by intro g hg; simpa using (List.mem_filter.1 hg).2) hn

theorem mem_g2 (g : G2) : g ∈ [G2.CNOT, G2.CZ] := by cases g <;> simp

/-- reading back the statements of one operation: the parser adds the normalised operation and continues after them -/
theorem parse_app (c : Circuit) (op op' : Op) (R : List Stmt) (hR : RestOK R) (hr : InRange c op)
    (hn : normOp op = some op') (hne : appOf op ≠ []) :
    parseCmds c 0 (appOf op ++ R) = parseCmds { c with ops := c.ops ++ [op'] } 0 R := by
  have hadd : ∀ o : Op, o.qRegs = op.qRegs → o.cRegs = op.cRegs → c.add o = .ok { c with ops := c.ops ++ [o] } := by
    intro o h1 h2
    exact add_inRange c o ⟨by rw [h1]; exact hr.1, by rw [h2]; exact hr.2⟩
  cases op with
  | one g q =>
    simp only [normOp] at hn
    split at hn
    · simp at hn
    · rename_i hg
      simp at hn; subst hn
      have hnm : g1Name g ≠ [] := fun h => hg ((g1Name_nil_iff g).1 h)
      simp only [appOf, hnm, if_false, List.singleton_append]
      apply parseCmds_step _ _ _ _ _ _ _ (hadd _ rfl rfl)
      simp [parseStep, Stmt.isSkipped, parseOneQubit, tbl_g1_roundtrip g (G1.mem_all g) hg, mkOne]
  | wrap gs q =>
    have hnm : wrapName gs ≠ [] := by
      intro h; apply hne; simp [appOf, h]
    simp only [appOf, hnm, if_false, List.singleton_append]
    have hq : op'.qRegs = [q] ∧ op'.cRegs = [] := by
      simp only [normOp] at hn
      generalize gs.filter (· != .I) = gs' at hn
      match gs', hn with
      | [], hn => simp [normWrap] at hn
      | [g], hn => simp [normWrap] at hn; subst hn; exact ⟨rfl, rfl⟩
      | _ :: _ :: _, hn => simp [normWrap] at hn; subst hn; exact ⟨rfl, rfl⟩
    apply parseCmds_step _ _ _ _ _ _ _ (hadd _ hq.1 hq.2)
    simp [parseStep, Stmt.isSkipped, parseOneQubit_wrapName gs q op' hn]
  | ctrl g a b =>
    simp [normOp] at hn; subst hn
    simp only [appOf, List.singleton_append]
    apply parseCmds_step _ _ _ _ _ _ _ (hadd _ rfl rfl)
    simp [parseStep, Stmt.isSkipped, tbl_g2_roundtrip g (mem_g2 g), mkCtrl]
  | cctrl g a b cr =>
    simp [normOp] at hn; subst hn
    have h0 := getD0_noIf R hR
    have h1 := getD1_noReset R hR
    rw [List.getD_eq_getElem?_getD] at h0 h1
    have hx := tbl_classical_x
    have hz := tbl_classical_z
    have hrx := tbl_classical_reset_x
    simp at hx hz hrx
    cases g with
    | CCNOT =>
      simp only [appOf, List.cons_append, List.nil_append]
      rw [parseCmds_step c _ _ _ (.cctrl .CCNOT a b cr) 1 _ (hadd _ rfl rfl), parseCmds_consume]
      simp [parseStep, Stmt.isSkipped, Stmt.hasIf, h1, parseIf, isLower, hx, mkCctrl]
    | CCZ =>
      simp only [appOf, List.cons_append, List.nil_append]
      rw [parseCmds_step c _ _ _ (.cctrl .CCZ a b cr) 1 _ (hadd _ rfl rfl), parseCmds_consume]
      simp [parseStep, Stmt.isSkipped, Stmt.hasIf, h1, parseIf, isLower, hz, mkCctrl]
    | MCR =>
      simp only [appOf, List.cons_append, List.nil_append]
      rw [parseCmds_step c _ _ _ (.cctrl .MCR a b cr) 3 _ (hadd _ rfl rfl), parseCmds_consume, parseCmds_consume,
        parseCmds_consume]
      simp [parseStep, Stmt.isSkipped, Stmt.hasIf, Stmt.hasReset, parseIf, isLower, hrx, mkCctrl]
  | meas q cr =>
    simp [normOp] at hn; subst hn
    have h0 := getD0_noIf R hR
    rw [List.getD_eq_getElem?_getD] at h0
    simp only [appOf, List.singleton_append]
    apply parseCmds_step _ _ _ _ _ _ _ (hadd _ rfl rfl)
    simp [parseStep, Stmt.isSkipped, h0]

theorem g1Names_flatten_nil (gs : List G1) (hI : ∀ g ∈ gs, g ≠ .I) (h : (gs.map g1Name).flatten = []) : gs = [] := by
  cases gs with
  | nil => rfl
  | cons g rest =>
    exfalso
    have hg : g1Name g ≠ [] := fun h0 => hI g (by simp) ((g1Name_nil_iff g).1 h0)
    simp at h
    exact hg h.1

/-- nothing is emitted exactly for the operations that vanish in the round trip -/
theorem appOf_nil_iff (op : Op) : appOf op = [] ↔ normOp op = none := by
  cases op with
  | one g q =>
    simp only [appOf, normOp, g1Name_nil_iff]
    by_cases hg : g = .I <;> simp [hg]
  | wrap gs q =>
    simp only [appOf, normOp]
    rw [wrapName_filter]
    have hI : ∀ g ∈ gs.filter (· != .I), g ≠ .I := by
      intro g hg; simpa using (List.mem_filter.1 hg).2
    generalize gs.filter (· != .I) = gs' at hI
    constructor
    · intro h
      split at h
      · rename_i h0
        rw [g1Names_flatten_nil gs' hI h0]; rfl
      · simp at h
    · intro h
      match gs', h with
      | [], _ => simp
      | [g], h => simp [normWrap] at h
      | _ :: _ :: _, h => simp [normWrap] at h
  | ctrl g a b => simp [appOf, normOp]
  | cctrl g a b c => cases g <;> simp [appOf, normOp]
  | meas q c => simp [appOf, normOp]

theorem inRange_ops (c : Circuit) (l : List Op) (op : Op) : InRange { c with ops := l } op ↔ InRange c op := by
  unfold InRange Circuit.nOf
  exact Iff.rfl

/-- the command loop of `from_openqasm` reads the body produced by `to_openqasm` back, operation by operation -/
theorem parse_emit (bar : Stmt) (hs : bar.isSkipped = true) (hb1 : bar.hasIf = false) (hb2 : bar.hasReset = false)
    (seq : List Op) : ∀ (c : Circuit) (o : Bool), (∀ op ∈ seq, InRange c op) →
    parseCmds c 0 ((emit bar o seq).flatten ++ [Stmt.empty]) = .ok { c with ops := c.ops ++ seq.filterMap normOp } := by
  induction seq with
  | nil =>
    intro c o _
    simp [emit, parseCmds, parseStep, Stmt.isSkipped]
  | cons op rest ih =>
    intro c o hr
    have hrop : InRange c op := hr op (by simp)
    have hrrest : ∀ op' ∈ rest, InRange c op' := fun op' h => hr op' (by simp [h])
    rw [emit_cons_flatten, List.append_assoc, List.append_assoc]
    have hR := rest_shape bar hb1 hb2 rest (if multiOf op then true else if !(appOf op).isEmpty then false else o)
    by_cases happ : appOf op = []
    · have hn : normOp op = none := (appOf_nil_iff op).1 happ
      simp only [happ, List.isEmpty_nil, Bool.not_true, Bool.and_false, Bool.false_eq_true, if_false, List.nil_append,
        List.filterMap_cons, hn]
      exact ih c _ hrrest
    · have hn : ∃ op', normOp op = some op' := by
        cases h : normOp op with
        | none => exact absurd ((appOf_nil_iff op).2 h) happ
        | some op' => exact ⟨op', rfl⟩
      obtain ⟨op', hn⟩ := hn
      have hstep := parse_app c op op' _ hR hrop hn happ
      have hfin : parseCmds c 0 (appOf op ++ ((emit bar (if multiOf op then true else if !(appOf op).isEmpty then false else o) rest).flatten ++ [Stmt.empty]))
          = .ok { c with ops := c.ops ++ (op :: rest).filterMap normOp } := by
        rw [hstep, ih _ _ (fun x hx => (inRange_ops c _ x).2 (hrrest x hx))]
        simp [hn]
      split
      · rw [List.singleton_append, parseCmds_skipped _ _ _ hs]; exact hfin
      · exact hfin

theorem parseCmds_skip_prefix (c : Circuit) (pre l : List Stmt) (h : ∀ s ∈ pre, s.isSkipped = true) :
    parseCmds c 0 (pre ++ l) = parseCmds c 0 l := by
  induction pre with
  | nil => rfl
  | cons s rest ih =>
    rw [List.cons_append, parseCmds_skipped _ _ _ (h s (by simp))]
    exact ih (fun x hx => h x (by simp [hx]))

theorem decls_skipped (c : Circuit) : ∀ s ∈ declsOf c, s.isSkipped = true := by
  intro s hs
  unfold declsOf at hs
  simp only [List.mem_append, List.mem_map] at hs
  rcases hs with ⟨q, _, rfl⟩ | ⟨i, _, rfl⟩ <;> rfl

/-- statements of the body are never register declarations -/
theorem appOf_no_decl (op : Op) : ∀ s ∈ appOf op, (∀ t, isQregOf t s = false) ∧ isCreg s = false := by
  intro s hs
  cases op with
  | one g q => simp only [appOf] at hs; split at hs <;> simp at hs; subst hs; exact ⟨fun _ => rfl, rfl⟩
  | wrap gs q => simp only [appOf] at hs; split at hs <;> simp at hs; subst hs; exact ⟨fun _ => rfl, rfl⟩
  | ctrl g a b => simp [appOf] at hs; subst hs; exact ⟨fun _ => rfl, rfl⟩
  | cctrl g a b c =>
    cases g with
    | CCNOT => simp [appOf] at hs; rcases hs with h | h <;> subst h <;> exact ⟨fun _ => rfl, rfl⟩
    | CCZ => simp [appOf] at hs; rcases hs with h | h <;> subst h <;> exact ⟨fun _ => rfl, rfl⟩
    | MCR => simp [appOf] at hs; rcases hs with h | h | h | h <;> subst h <;> exact ⟨fun _ => rfl, rfl⟩
  | meas q c => simp [appOf] at hs; subst hs; exact ⟨fun _ => rfl, rfl⟩

theorem emit_no_decl (bar : Stmt) (hb : (∀ t, isQregOf t bar = false) ∧ isCreg bar = false) (seq : List Op) (o : Bool) :
    ∀ s ∈ (emit bar o seq).flatten, (∀ t, isQregOf t s = false) ∧ isCreg s = false := by
  induction seq generalizing o with
  | nil => intro s hs; simp [emit] at hs
  | cons op rest ih =>
    intro s hs
    rw [emit_cons_flatten] at hs
    simp only [List.mem_append] at hs
    rcases hs with (hs | hs) | hs
    · split at hs
      · simp at hs; subst hs; exact hb
      · simp at hs
    · exact appOf_no_decl op s hs
    · exact ih _ s hs

theorem countP_zero_of {α : Type} (p : α → Bool) (l : List α) (h : ∀ x ∈ l, p x = false) : l.countP p = 0 := by
  rw [List.countP_eq_zero]
  intro x hx; simp [h x hx]

theorem count_decls (c : Circuit) :
    (declsOf c).countP (isQregOf .p) = c.np ∧ (declsOf c).countP (isQregOf .e) = c.ne ∧ (declsOf c).countP isCreg = c.nc := by
  unfold declsOf qregsOf
  simp only [List.map_append, List.map_map, List.countP_append, List.countP_map]
  refine ⟨?_, ?_, ?_⟩
  · have h1 : (List.range c.np).countP (isQregOf .p ∘ (fun q => Stmt.qreg q 1) ∘ fun i => (⟨.p, i⟩ : QReg)) = c.np := by
      rw [List.countP_eq_length.2]; simp
      intro a _; rfl
    have h2 : (List.range c.ne).countP (isQregOf .p ∘ (fun q => Stmt.qreg q 1) ∘ fun i => (⟨.e, i⟩ : QReg)) = 0 :=
      countP_zero_of _ _ (fun _ _ => rfl)
    have h3 : (List.range c.nc).countP (isQregOf .p ∘ fun i => Stmt.creg i 1) = 0 := countP_zero_of _ _ (fun _ _ => rfl)
    omega
  · have h1 : (List.range c.np).countP (isQregOf .e ∘ (fun q => Stmt.qreg q 1) ∘ fun i => (⟨.p, i⟩ : QReg)) = 0 :=
      countP_zero_of _ _ (fun _ _ => rfl)
    have h2 : (List.range c.ne).countP (isQregOf .e ∘ (fun q => Stmt.qreg q 1) ∘ fun i => (⟨.e, i⟩ : QReg)) = c.ne := by
      rw [List.countP_eq_length.2]; simp
      intro a _; rfl
    have h3 : (List.range c.nc).countP (isQregOf .e ∘ fun i => Stmt.creg i 1) = 0 := countP_zero_of _ _ (fun _ _ => rfl)
    omega
  · have h1 : (List.range c.np).countP (isCreg ∘ (fun q => Stmt.qreg q 1) ∘ fun i => (⟨.p, i⟩ : QReg)) = 0 :=
      countP_zero_of _ _ (fun _ _ => rfl)
    have h2 : (List.range c.ne).countP (isCreg ∘ (fun q => Stmt.qreg q 1) ∘ fun i => (⟨.e, i⟩ : QReg)) = 0 :=
      countP_zero_of _ _ (fun _ _ => rfl)
    have h3 : (List.range c.nc).countP (isCreg ∘ fun i => Stmt.creg i 1) = c.nc := by
      rw [List.countP_eq_length.2]; simp
      intro a _; rfl
    omega

/-- **openQASM round trip** (statement level): importing the exported program of a circuit whose operations (in
    `sequence()` order `seq`) only use existing registers gives a circuit with the same register counts whose
    operations are, in order, the normalised operations of `seq` -/
theorem fromOpenqasm_toOpenqasm (c : Circuit) (seq : List Op) (h : ∀ op ∈ seq, InRange c op) :
    (toOpenqasm c seq).bind fromOpenqasm = .ok { ne := c.ne, np := c.np, nc := c.nc, ops := seq.filterMap normOp } := by
  obtain ⟨defs, _, hp⟩ := toOpenqasm_spec c seq
  rw [hp]
  show fromOpenqasm _ = _
  unfold fromOpenqasm
  simp only [tbl_header, ne_eq, not_true_eq_false, if_false, Program.cmds, List.map_nil, List.nil_append]
  have hbar : (∀ t, isQregOf t (Stmt.barrier (qregsOf c)) = false) ∧ isCreg (Stmt.barrier (qregsOf c)) = false :=
    ⟨fun _ => rfl, rfl⟩
  have hbody := emit_no_decl (.barrier (qregsOf c)) hbar seq false
  have hcnt := count_decls c
  have hcount : ∀ (p : Stmt → Bool), (∀ s ∈ (emit (.barrier (qregsOf c)) false seq).flatten, p s = false) → p Stmt.empty = false →
      (declsOf c ++ (emit (.barrier (qregsOf c)) false seq).flatten ++ [Stmt.empty]).countP p = (declsOf c).countP p := by
    intro p hp1 hp2
    simp only [List.countP_append, countP_zero_of p _ hp1]
    simp [hp2]
  rw [hcount _ (fun s hs => (hbody s hs).1 .p) rfl, hcount _ (fun s hs => (hbody s hs).1 .e) rfl,
    hcount _ (fun s hs => (hbody s hs).2) rfl, hcnt.1, hcnt.2.1, hcnt.2.2, List.append_assoc,
    parseCmds_skip_prefix _ _ _ (decls_skipped c)]
  have := parse_emit (.barrier (qregsOf c)) rfl rfl rfl seq { np := c.np, ne := c.ne, nc := c.nc, ops := [] } false
    (fun op hop => h op hop)
  simpa using this

/-! ## Part 5: JSON -/

theorem tbl_json_not_wrapper : ∀ k ∈ Cls.all, classToName k ≠ some "one qubit gate wrapper".toList := by decide +kernel

theorem classToName_some (k : Cls) : ∃ n, classToName k = some n ∧ n ≠ [] ∧ nameToClass n = some k ∧
    n ≠ "one qubit gate wrapper".toList := by
  have h1 := tbl_json_roundtrip k (Cls.mem_all k)
  have h2 := tbl_json_nonempty k (Cls.mem_all k)
  have h3 := tbl_json_not_wrapper k (Cls.mem_all k)
  cases hn : classToName k with
  | none => rw [hn] at h1; simp at h1
  | some n =>
    rw [hn] at h1 h2 h3
    exact ⟨n, rfl, by simpa using h2, by simpa using h1, by simpa using h3⟩

theorem jsonShape_eq (k : Cls) : jsonShape k = k.shape := tbl_json_shape k (Cls.mem_all k)

/-- one operation survives `to_json` / `from_json` unchanged -/
theorem fromJsonOp_toJsonOp (op : Op) (hw : ∀ gs q, op = .wrap gs q → gs ≠ []) : fromJsonOp (toJsonOp op) = .ok op := by
  cases op with
  | one g q =>
    obtain ⟨n, hn, _, hr, hnw⟩ := classToName_some (.g1 g)
    have hne : (some n == some "one qubit gate wrapper".toList) = false := by simpa using hnw
    have hnw' := hnw
    simp at hnw'
    simp [toJsonOp, fromJsonOp, Op.cls, hn, hnw', hr, jsonShape_eq, Cls.shape, qregAt, Op.qRegs, mkOne]
  | wrap gs q =>
    have hne : gs ≠ [] := hw gs q rfl
    have hnames : (gs.filterMap fun g => truthyName (classToName (.g1 g))) =
        gs.map fun g => (classToName (.g1 g)).getD [] := by
      induction gs with
      | nil => rfl
      | cons g rest ih =>
        obtain ⟨n, hn, hnn, _, _⟩ := classToName_some (.g1 g)
        have ih' := ih
        simp only [List.filterMap_cons, List.map_cons, hn, Option.getD_some]
        cases n with
        | nil => exact absurd rfl hnn
        | cons ch cs =>
          simp only [truthyName]
          congr 1
          by_cases hr : rest = []
          · subst hr; rfl
          · exact ih' (fun _ _ h => by cases h; exact hr) hr
    have hcls : (gs.map fun g => (classToName (.g1 g)).getD []).map nameToClass = gs.map fun g => some (Cls.g1 g) := by
      rw [List.map_map]
      apply List.map_congr_left
      intro g _
      obtain ⟨n, hn, _, hr, _⟩ := classToName_some (.g1 g)
      simp [hn, hr]
    have hemp : ((gs.map fun g => (classToName (.g1 g)).getD []).map nameToClass).isEmpty = false := by
      cases gs with
      | nil => exact absurd rfl hne
      | cons _ _ => rfl
    simp only [toJsonOp, fromJsonOp, hnames, beq_self_eq_true, if_true, qregAt, Op.qRegs, List.map_cons, List.map_nil,
      List.getElem?_cons_zero, mkWrapperOpt, hcls, wrapperCheck_g1, Except.map]
    have hemp2 : (gs.map fun g => some (Cls.g1 g)).isEmpty = false := by
      cases gs with
      | nil => exact absurd rfl hne
      | cons _ _ => rfl
    simp [hemp2]
  | ctrl g a b =>
    obtain ⟨n, hn, _, hr, hnw⟩ := classToName_some (.g2 g)
    have hne : (some n == some "one qubit gate wrapper".toList) = false := by simpa using hnw
    have hnw' := hnw
    simp at hnw'
    simp [toJsonOp, fromJsonOp, Op.cls, hn, hnw', hr, jsonShape_eq, Cls.shape, qregAt, Op.qRegs, mkCtrl]
  | cctrl g a b c =>
    obtain ⟨n, hn, _, hr, hnw⟩ := classToName_some (.gc g)
    have hne : (some n == some "one qubit gate wrapper".toList) = false := by simpa using hnw
    have hnw' := hnw
    simp at hnw'
    simp [toJsonOp, fromJsonOp, Op.cls, hn, hnw', hr, jsonShape_eq, Cls.shape, qregAt, cregAt, Op.qRegs, Op.cRegs]
  | meas q c =>
    obtain ⟨n, hn, _, hr, hnw⟩ := classToName_some .measZ
    have hne : (some n == some "one qubit gate wrapper".toList) = false := by simpa using hnw
    have hnw' := hnw
    simp at hnw'
    simp [toJsonOp, fromJsonOp, Op.cls, hn, hnw', hr, jsonShape_eq, Cls.shape, qregAt, cregAt, Op.qRegs, Op.cRegs]

theorem fromJson_fold (l : List Op) (c : Circuit) (hr : ∀ op ∈ l, InRange c op) (hw : ∀ op ∈ l, wrapOK op = true) :
    (l.map toJsonOp).foldlM fromJsonStep c =
      .ok { c with ops := c.ops ++ l } := by
  induction l generalizing c with
  | nil => simp [pure, Except.pure]
  | cons op rest ih =>
    have h1 := fromJsonOp_toJsonOp op (fun gs q h => by
      have := hw op (by simp); subst h; cases gs with
      | nil => simp [wrapOK] at this
      | cons _ _ => simp)
    have h2 := add_inRange c op (hr op (by simp))
    simp only [List.map_cons, List.foldlM_cons, fromJsonStep, h1, h2, bind, Except.bind]
    rw [ih _ (fun x hx => (inRange_ops c _ x).2 (hr x (by simp [hx]))) (fun x hx => hw x (by simp [hx]))]
    simp

/-- **JSON round trip**: `from_json(to_json(c))` has the same registers and exactly the operations of `sequence()` -/
theorem fromJson_toJson (c : Circuit) (seq : List Op) (hr : ∀ op ∈ seq, InRange c op)
    (hw : ∀ op ∈ seq, wrapOK op = true) :
    fromJson (toJson c seq) = .ok { ne := c.ne, np := c.np, nc := c.nc, ops := seq } := by
  unfold fromJson toJson
  have := fromJson_fold seq { np := c.np, ne := c.ne, nc := c.nc, ops := [] } (fun op h => hr op h) hw
  simpa using this

/-! ## Part 5b: the round trip preserves the executed operation sequence -/

theorem flat_append (a b : List Op) : flat (a ++ b) = flat a ++ flat b := by
  simp [flat, List.flatMap_append]

theorem flat_cons (op : Op) (l : List Op) : flat (op :: l) = flat [op] ++ flat l := by
  rw [← flat_append]; rfl

theorem flat_wrap (gs : List G1) (q : QReg) :
    flat [.wrap gs q] = ((gs.filter (· != .I)).reverse).map fun g => Op.one g q := by
  simp only [flat, List.flatMap_cons, List.flatMap_nil, List.append_nil, Op.unwrap]
  rw [List.filter_map, ← List.filter_reverse]
  congr 1
  apply List.filter_congr
  intro g _
  cases g <;> rfl

/-- an operation and its image under export∘import execute the same primitive operations -/
theorem flat_normOp (op : Op) : flat (normOp op).toList = flat [op] := by
  cases op with
  | one g q =>
    by_cases hg : g = .I
    · subst hg; simp [normOp, flat, Op.unwrap, Op.isIdentity]
    · simp [normOp, hg]
  | wrap gs q =>
    rw [flat_wrap]
    simp only [normOp]
    have hI : ∀ g ∈ gs.filter (· != .I), g ≠ .I := by
      intro g hg; simpa using (List.mem_filter.1 hg).2
    generalize gs.filter (· != .I) = gs' at hI
    match gs', hI with
    | [], _ => simp [normWrap, flat]
    | [g], hI =>
      have : g ≠ .I := hI g (by simp)
      simp only [normWrap, Option.toList_some, List.reverse_cons, List.reverse_nil, List.nil_append, List.map_cons, List.map_nil]
      cases g <;> first | rfl | exact absurd rfl this
    | g1 :: g2 :: rest, hI =>
      simp only [normWrap, Option.toList_some]
      rw [flat_wrap]
      congr 2
      rw [List.filter_eq_self]
      intro g hg; simpa using hI g hg
  | ctrl g a b => rfl
  | cctrl g a b c => rfl
  | meas q c => rfl

theorem flat_filterMap_normOp (seq : List Op) : flat (seq.filterMap normOp) = flat seq := by
  induction seq with
  | nil => rfl
  | cons op rest ih =>
    rw [flat_cons op rest, ← flat_normOp op, ← ih, ← flat_append]
    cases h : normOp op <;> simp [h]

/-! ## Part 6: the header's composite definitions and the standard reading of the program -/

theorem tbl_defs_no_newline : ∀ k ∈ Cls.all, ∀ d ∈ definitions k, ¬ '\n' ∈ d := by decide +kernel
theorem tbl_emptyDefs_no_newline : ∀ d ∈ emptyInfo.defs, d.comp = none ∧ ¬ '\n' ∈ d.text := by decide +kernel
theorem tbl_g1Name_no_space : ∀ g ∈ G1.all, ¬ ' ' ∈ g1Name g := by decide +kernel
theorem tbl_g2_not_concat : ∀ g ∈ [G2.CNOT, G2.CZ],
    ¬ (2 ≤ (tokenise (g2Name g)).length ∧ ∀ t ∈ tokenise (g2Name g), t ∈ g1Names) := by decide +kernel

/-- an entry of `openqasm_defs` that is a plain class definition -/
def PlainDef (d : DefEntry) : Prop := d.comp = none ∧ ¬ '\n' ∈ d.text

/-- body text of a composite definition: one call per line, in the order of `body` -/
def usageText (body : List Str) : Str := (body.map fun n => n ++ " a;\n".toList).flatten

/-- the text of a composite definition -/
def compText (name : Str) (body : List Str) : Str :=
  "gate ".toList ++ name ++ " a { \n".toList ++ usageText body ++ "}".toList

theorem classInfo_g1_defs (g : G1) (i : QInfo) (h : classInfo (.g1 g) = .ok i) : ∀ d ∈ i.defs, PlainDef d := by
  simp only [classInfo, gateName_g1] at h
  injection h with h; subst h
  intro d hd
  simp only [List.mem_map] at hd
  obtain ⟨t, ht, rfl⟩ := hd
  exact ⟨rfl, tbl_defs_no_newline _ (Cls.mem_all _) t ht⟩

/-- second loop invariant of `single_qubit_wrapper_info`: definitions collected so far are plain class definitions,
    the body text is the list of calls in application order, and the dictionary's keys are exactly "" and the names seen -/
structure WrapInv2 (a : WrapAcc) (names : List Str) : Prop where
  defsPlain : ∀ d ∈ a.defs, PlainDef d
  dictPlain : ∀ n i, lookupTbl a.dict n = some i → ∀ d ∈ i.defs, PlainDef d
  dictKeys : ∀ n, (lookupTbl a.dict n).isSome = true → n = [] ∨ n ∈ names
  dictHas : ∀ n ∈ names, (lookupTbl a.dict n).isSome = true
  defUsage : a.defUsage = usageText (names.filter (· ≠ [])).reverse

theorem wrapInv2_init : WrapInv2 {} [] := by
  refine ⟨fun d hd => by simp at hd, ?_, ?_, fun n hn => by simp at hn, rfl⟩
  · intro n i h d hd
    have h' : lookupTbl (dictSet [] [] emptyInfo) n = some i := h
    rw [lookupTbl_dictSet] at h'
    by_cases hn : n = []
    · simp [hn] at h'; subst h'; exact tbl_emptyDefs_no_newline d hd
    · simp [hn, lookupTbl] at h'
  · intro n h
    have h' : (lookupTbl (dictSet [] [] emptyInfo) n).isSome = true := h
    rw [lookupTbl_dictSet] at h'
    by_cases hn : n = []
    · exact Or.inl hn
    · simp [hn, lookupTbl] at h'

theorem usageText_snoc (l : List Str) (n : Str) : usageText (l ++ [n]) = usageText l ++ (n ++ " a;\n".toList) := by
  simp [usageText]

theorem wrapStep_inv2 (a : WrapAcc) (names : List Str) (g : G1) (h : WrapInv2 a names) :
    ∃ a', wrapStep a g = .ok a' ∧ WrapInv2 a' (names ++ [g1Name g]) := by
  obtain ⟨i, hi, hname, _, _, _⟩ := classInfo_g1 g
  have hplain := classInfo_g1_defs g i hi
  have hdict : ∀ (d : List (Str × QInfo)), d = a.dict →
      (∀ n j, lookupTbl (dictSet d i.gateName i) n = some j → ∀ x ∈ j.defs, PlainDef x) ∧
      (∀ n, (lookupTbl (dictSet d i.gateName i) n).isSome = true → n = [] ∨ n ∈ names ++ [g1Name g]) ∧
      (∀ n ∈ names ++ [g1Name g], (lookupTbl (dictSet d i.gateName i) n).isSome = true) := by
    intro d hd; subst hd
    refine ⟨?_, ?_, ?_⟩
    · intro n j hj x hx
      rw [lookupTbl_dictSet] at hj
      split at hj
      · simp at hj; subst hj; exact hplain x hx
      · exact h.dictPlain n j hj x hx
    · intro n hn
      rw [lookupTbl_dictSet] at hn
      split at hn
      · rename_i hnk; right; simp [hnk, hname]
      · rcases h.dictKeys n hn with h0 | h0
        · exact Or.inl h0
        · right; simp [h0]
    · intro n hn
      rw [lookupTbl_dictSet]
      split
      · rfl
      · rename_i hnk
        rcases List.mem_append.1 hn with h0 | h0
        · exact h.dictHas n h0
        · simp at h0; exact absurd (h0.trans hname.symm) hnk
  obtain ⟨hd1, hd2, hd3⟩ := hdict a.dict rfl
  by_cases hn : g1Name g = []
  · refine ⟨{ a with dict := dictSet a.dict i.gateName i }, ?_, ?_⟩
    · simp [wrapStep, hi, bind, Except.bind, pure, Except.pure, hname, hn]
    · exact ⟨h.defsPlain, hd1, hd2, hd3, by simp [h.defUsage, hn]⟩
  · refine ⟨{ a with
               dict := dictSet a.dict i.gateName i, imports := a.imports ++ i.imports, defs := a.defs ++ i.defs,
               gateName := a.gateName ++ i.gateName, defUsage := i.gateName ++ " a;\n".toList ++ a.defUsage,
               body := i.gateName :: a.body }, ?_, ?_⟩
    · simp [wrapStep, hi, bind, Except.bind, pure, Except.pure, hname, hn]
    · refine ⟨?_, hd1, hd2, hd3, ?_⟩
      · intro d hd
        rcases List.mem_append.1 hd with h0 | h0
        · exact h.defsPlain d h0
        · exact hplain d h0
      · show i.gateName ++ " a;\n".toList ++ a.defUsage = _
        rw [h.defUsage, hname]
        simp [hn, usageText]

theorem wrapFold_inv2 (gs : List G1) (a : WrapAcc) (names : List Str) (h : WrapInv2 a names) :
    ∃ a', gs.foldlM wrapStep a = .ok a' ∧ WrapInv2 a' (names ++ gs.map g1Name) := by
  induction gs generalizing a names with
  | nil => exact ⟨a, rfl, by simpa using h⟩
  | cons g rest ih =>
    obtain ⟨a1, h1, hinv1⟩ := wrapStep_inv2 a names g h
    obtain ⟨a2, h2, hinv2⟩ := ih a1 _ hinv1
    refine ⟨a2, ?_, by simpa using hinv2⟩
    simp [List.foldlM_cons, h1, bind, Except.bind, h2]


/-- non-empty names of the classes seen = names of the non-identity classes -/
theorem names_filter (gs : List G1) : (gs.map g1Name).filter (· ≠ []) = (gs.filter (· != .I)).map g1Name := by
  induction gs with
  | nil => rfl
  | cons g rest ih =>
    by_cases hg : g = .I
    · subst hg
      have : g1Name .I = [] := (g1Name_nil_iff .I).2 rfl
      simp [this]
      simpa using ih
    · have : g1Name g ≠ [] := fun h => hg ((g1Name_nil_iff g).1 h)
      simp [hg, this]
      simpa using ih

/-- the structured composite a wrapper with two or more non-identity classes defines -/
def compOf (gs : List G1) : Comp :=
  { name := wrapName gs, body := ((gs.filter (· != .I)).map g1Name).reverse }

theorem tokenise_wrapName (gs : List G1) : tokenise (wrapName gs) = (gs.filter (· != .I)).map g1Name := by
  rw [wrapName_filter]
  apply tokenise_flatten
  intro n hn
  obtain ⟨g, hg, rfl⟩ := List.mem_map.1 hn
  exact g1Name_tokOK g (by simpa using (List.mem_filter.1 hg).2)

theorem tokenise_g1Name (g : G1) (hg : g ≠ .I) : tokenise (g1Name g) = [g1Name g] := by
  have := tokenise_flatten [g1Name g] (by intro n hn; simp at hn; subst hn; exact g1Name_tokOK g hg)
  simpa using this

/-- the name of a wrapper with two or more non-identity classes is not "" and not the name of a single class -/
theorem wrapName_not_single (gs : List G1) (h2 : 2 ≤ (gs.filter (· != .I)).length) :
    wrapName gs ≠ [] ∧ ∀ g : G1, wrapName gs ≠ g1Name g := by
  have htok := tokenise_wrapName gs
  constructor
  · intro h0
    rw [h0] at htok
    have : tokenise [] = ([] : List Str) := rfl
    rw [this] at htok
    have hl := congrArg List.length htok
    simp at hl; omega
  · intro g hEq
    by_cases hg : g = .I
    · subst hg
      rw [(g1Name_nil_iff .I).2 rfl] at hEq
      rw [hEq] at htok
      have : tokenise [] = ([] : List Str) := rfl
      rw [this] at htok
      have hl := congrArg List.length htok
      simp at hl; omega
    · rw [hEq, tokenise_g1Name g hg] at htok
      have hl := congrArg List.length htok
      simp at hl; omega

/-- definitions a wrapper contributes to the header: plain class definitions, plus — exactly when it has two or more
    non-identity classes — the composite `compOf gs` with its text -/
theorem wrapperInfo_defs (gs : List G1) : ∃ i, singleQubitWrapperInfo gs = .ok i ∧
    (∀ d ∈ i.defs, PlainDef d ∨
      (2 ≤ (gs.filter (· != .I)).length ∧ d = { text := compText (compOf gs).name (compOf gs).body, comp := some (compOf gs) })) ∧
    (2 ≤ (gs.filter (· != .I)).length →
      { text := compText (compOf gs).name (compOf gs).body, comp := some (compOf gs) } ∈ i.defs) := by
  obtain ⟨a, ha, hinv⟩ := wrapFold_inv gs {} [] wrapInv_init
  obtain ⟨a2, ha2, hinv2⟩ := wrapFold_inv2 gs {} [] wrapInv2_init
  rw [ha] at ha2; injection ha2 with ha2; subst ha2
  simp only [List.nil_append] at hinv hinv2
  have hgn : a.gateName = wrapName gs := hinv.gateName
  have hbody : a.body = (compOf gs).body := by rw [hinv.body, names_filter]; rfl
  have husage : a.defUsage = usageText (compOf gs).body := by rw [hinv2.defUsage, names_filter]; rfl
  unfold singleQubitWrapperInfo
  simp only [ha, bind, Except.bind]
  cases hl : lookupTbl a.dict a.gateName with
  | some j =>
    refine ⟨j, rfl, fun d hd => Or.inl (hinv2.dictPlain _ _ hl d hd), ?_⟩
    intro h2
    exfalso
    have hk := hinv2.dictKeys a.gateName (by rw [hl]; rfl)
    rw [hgn] at hk
    rcases hk with h0 | h0
    · exact (wrapName_not_single gs h2).1 h0
    · obtain ⟨g, _, hg⟩ := List.mem_map.1 h0
      exact (wrapName_not_single gs h2).2 g hg.symm
  | none =>
    have h2 : 2 ≤ (gs.filter (· != .I)).length := by
      -- otherwise the name is "" or the name of one listed class, both keys of the dictionary
      rcases Nat.lt_or_ge (gs.filter (· != .I)).length 2 with hlt | hge
      case inr => exact hge
      exfalso
      have hlen : (gs.filter (· != .I)).length ≤ 1 := by omega
      have hsome : (lookupTbl a.dict a.gateName).isSome = true := by
        rw [hgn, wrapName_filter]
        cases hf : gs.filter (· != .I) with
        | nil => simpa using hinv.dictNil
        | cons g rest =>
          cases rest with
          | nil =>
            have hmem : g ∈ gs := (List.mem_filter.1 (hf ▸ List.mem_singleton.2 rfl)).1
            simpa using hinv2.dictHas (g1Name g) (List.mem_map_of_mem hmem)
          | cons g' rest' => rw [hf] at hlen; simp at hlen
      rw [hl] at hsome; cases hsome
    refine ⟨_, rfl, ?_, fun _ => ?_⟩
    · intro d hd
      simp only [List.mem_append, List.mem_singleton] at hd
      rcases hd with hd | hd
      · exact Or.inl (hinv2.defsPlain d hd)
      · right
        refine ⟨h2, ?_⟩
        rw [hd, hgn, hbody, husage]
        rfl
    · simp only [List.mem_append, List.mem_singleton]
      right
      rw [hgn, hbody, husage]
      rfl


/-! ### the accumulated header -/

def compEntry (gs : List G1) : DefEntry := { text := compText (compOf gs).name (compOf gs).body, comp := some (compOf gs) }

/-- every header entry is a plain class definition or the composite of some wrapper with ≥ 2 non-identity classes -/
def EntryOK (d : DefEntry) : Prop := PlainDef d ∨ ∃ gs, 2 ≤ (gs.filter (· != .I)).length ∧ d = compEntry gs

theorem classInfo_defs (k : Cls) (i : QInfo) (h : classInfo k = .ok i) : ∀ d ∈ i.defs, PlainDef d := by
  unfold classInfo at h
  cases hg : gateName k with
  | none => simp [hg] at h
  | some n =>
    simp only [hg] at h
    injection h with h; subst h
    intro d hd
    simp only [List.mem_map] at hd
    obtain ⟨t, ht, rfl⟩ := hd
    exact ⟨rfl, tbl_defs_no_newline _ (Cls.mem_all _) t ht⟩

theorem info_defs (op : Op) : ∃ i, op.info = .ok i ∧ i.imports = [] ∧ (∀ d ∈ i.defs, EntryOK d) ∧
    (∀ gs q, op = .wrap gs q → 2 ≤ (gs.filter (· != .I)).length → compEntry gs ∈ i.defs) := by
  cases op with
  | wrap gs q =>
    obtain ⟨i, hi, h1, h2⟩ := wrapperInfo_defs gs
    obtain ⟨i', hi', _, _, himp⟩ := wrapperInfo_spec gs
    rw [hi] at hi'; injection hi' with hi'; subst hi'
    refine ⟨i, hi, himp, ?_, ?_⟩
    · intro d hd
      rcases h1 d hd with h | ⟨h, rfl⟩
      · exact Or.inl h
      · exact Or.inr ⟨gs, h, rfl⟩
    · intro gs' q' heq hlen
      injection heq with heq _; subst heq
      exact h2 hlen
  | one g q =>
    obtain ⟨i, hi, _, _, himp⟩ := classInfo_ok (.g1 g)
    exact ⟨i, hi, himp, fun d hd => Or.inl (classInfo_defs _ i hi d hd), fun _ _ h => by cases h⟩
  | ctrl g a b =>
    obtain ⟨i, hi, _, _, himp⟩ := classInfo_ok (.g2 g)
    exact ⟨i, hi, himp, fun d hd => Or.inl (classInfo_defs _ i hi d hd), fun _ _ h => by cases h⟩
  | cctrl g a b c =>
    obtain ⟨i, hi, _, _, himp⟩ := classInfo_ok (.gc g)
    exact ⟨i, hi, himp, fun d hd => Or.inl (classInfo_defs _ i hi d hd), fun _ _ h => by cases h⟩
  | meas q c =>
    obtain ⟨i, hi, _, _, himp⟩ := classInfo_ok .measZ
    exact ⟨i, hi, himp, fun d hd => Or.inl (classInfo_defs _ i hi d hd), fun _ _ h => by cases h⟩

theorem foldl_insertDef (new acc : List DefEntry) :
    (∀ d ∈ new.foldl insertDef acc, d ∈ acc ∨ d ∈ new) ∧ (∀ d ∈ acc, d ∈ new.foldl insertDef acc) ∧
    (∀ d ∈ new, ∃ x ∈ new.foldl insertDef acc, x.text = d.text) := by
  induction new generalizing acc with
  | nil => exact ⟨fun d hd => Or.inl hd, fun d hd => hd, fun d hd => by cases hd⟩
  | cons n rest ih =>
    obtain ⟨h1, h2, h3⟩ := ih (insertDef acc n)
    simp only [List.foldl_cons]
    have hsub : ∀ d ∈ insertDef acc n, d ∈ acc ∨ d = n := by
      intro d hd
      unfold insertDef at hd
      split at hd
      · exact Or.inl hd
      · rcases List.mem_append.1 hd with h | h
        · exact Or.inl h
        · exact Or.inr (by simpa using h)
    have hsup : ∀ d ∈ acc, d ∈ insertDef acc n := by
      intro d hd
      unfold insertDef
      split
      · exact hd
      · exact List.mem_append_left _ hd
    have hn : ∃ x ∈ insertDef acc n, x.text = n.text := by
      unfold insertDef
      split
      · rename_i hany
        obtain ⟨x, hx, hxt⟩ := List.any_eq_true.1 hany
        exact ⟨x, hx, by simpa using hxt⟩
      · exact ⟨n, by simp, rfl⟩
    refine ⟨?_, fun d hd => h2 d (hsup d hd), ?_⟩
    · intro d hd
      rcases h1 d hd with h | h
      · rcases hsub d h with h' | h'
        · exact Or.inl h'
        · exact Or.inr (by simp [h'])
      · exact Or.inr (by simp [h])
    · intro d hd
      rcases List.mem_cons.1 hd with rfl | hd
      · obtain ⟨x, hx, hxt⟩ := hn
        exact ⟨x, h2 x hx, hxt⟩
      · exact h3 d hd

theorem append_sep_inj (c : Char) : ∀ (a b x y : List Char), ¬ c ∈ a → ¬ c ∈ b → a ++ c :: x = b ++ c :: y → a = b
  | [], [], _, _, _, _, _ => rfl
  | [], b0 :: bs, x, y, _, hb, h => by
    simp only [List.nil_append, List.cons_append, List.cons.injEq] at h
    exact absurd (by simp [h.1]) hb
  | a0 :: as, [], x, y, ha, _, h => by
    simp only [List.nil_append, List.cons_append, List.cons.injEq] at h
    exact absurd (by simp [h.1]) ha
  | a0 :: as, b0 :: bs, x, y, ha, hb, h => by
    simp only [List.cons_append, List.cons.injEq] at h
    rw [h.1, append_sep_inj c as bs x y (fun hm => ha (List.mem_cons_of_mem _ hm)) (fun hm => hb (List.mem_cons_of_mem _ hm)) h.2]

theorem wrapName_no_space (gs : List G1) : ¬ ' ' ∈ wrapName gs := by
  unfold wrapName
  intro h
  obtain ⟨n, hn, hc⟩ := List.mem_flatten.1 h
  obtain ⟨g, _, rfl⟩ := List.mem_map.1 hn
  exact tbl_g1Name_no_space g (G1.mem_all g) hc

/-- two wrappers with the same concatenated name define the same composite -/
theorem compOf_eq_of_name (gs1 gs2 : List G1) (h : wrapName gs1 = wrapName gs2) : compOf gs1 = compOf gs2 := by
  have h1 := tokenise_wrapName gs1
  have h2 := tokenise_wrapName gs2
  rw [h] at h1
  unfold compOf
  rw [h, ← h1, ← h2]

theorem compText_has_newline (n : Str) (b : List Str) : '\n' ∈ compText n b := by
  unfold compText
  simp

theorem compEntry_text_inj (gs1 gs2 : List G1) (h : (compEntry gs1).text = (compEntry gs2).text) : compEntry gs1 = compEntry gs2 := by
  have hname : wrapName gs1 = wrapName gs2 := by
    unfold compEntry compText at h
    simp only [compOf, List.append_assoc] at h
    have h' := List.append_cancel_left h
    exact append_sep_inj ' ' _ _ _ _ (wrapName_no_space gs1) (wrapName_no_space gs2) h'
  unfold compEntry
  rw [compOf_eq_of_name gs1 gs2 hname]

theorem entry_of_text (d : DefEntry) (gs : List G1) (hd : EntryOK d) (ht : d.text = (compEntry gs).text) : d = compEntry gs := by
  rcases hd with ⟨_, hnl⟩ | ⟨gs0, _, rfl⟩
  · exfalso; apply hnl; rw [ht]; exact compText_has_newline _ _
  · exact compEntry_text_inj gs0 gs ht

/-- the header of a circuit: all entries are well-formed and every wrapper with two or more non-identity classes has its
    composite definition in it -/
theorem headerOf_comps (adds : List Op) : ∃ defs, headerOf adds = .ok ([], defs) ∧ (∀ d ∈ defs, EntryOK d) ∧
    ∀ gs q, Op.wrap gs q ∈ adds → 2 ≤ (gs.filter (· != .I)).length → compEntry gs ∈ defs := by
  unfold headerOf
  have key : ∀ (acc : List DefEntry), (∀ d ∈ acc, EntryOK d) → ∃ defs,
      adds.foldlM (fun (acc : List Str × List DefEntry) op => do
        let info ← op.info
        return (info.imports.foldl insertNew acc.1, info.defs.foldl insertDef acc.2)) ([], acc) = .ok ([], defs) ∧
      (∀ d ∈ defs, EntryOK d) ∧ (∀ d ∈ acc, d ∈ defs) ∧
      ∀ gs q, Op.wrap gs q ∈ adds → 2 ≤ (gs.filter (· != .I)).length → compEntry gs ∈ defs := by
    induction adds with
    | nil => intro acc hacc; exact ⟨acc, rfl, hacc, fun d hd => hd, fun _ _ h => by cases h⟩
    | cons op rest ih =>
      intro acc hacc
      obtain ⟨i, hi, himp, hok, hcomp⟩ := info_defs op
      obtain ⟨f1, f2, f3⟩ := foldl_insertDef i.defs acc
      have hacc' : ∀ d ∈ i.defs.foldl insertDef acc, EntryOK d := by
        intro d hd
        rcases f1 d hd with h | h
        · exact hacc d h
        · exact hok d h
      obtain ⟨defs, hd1, hd2, hd3, hd4⟩ := ih (i.defs.foldl insertDef acc) hacc'
      refine ⟨defs, ?_, hd2, fun d hd => hd3 d (f2 d hd), ?_⟩
      · simp only [List.foldlM_cons, hi, bind, Except.bind, pure, Except.pure, himp, List.foldl_nil]
        exact hd1
      · intro gs q hmem hlen
        rcases List.mem_cons.1 hmem with heq | hmem
        · obtain ⟨x, hx, hxt⟩ := f3 (compEntry gs) (hcomp gs q heq.symm hlen)
          have := entry_of_text x gs (hacc' x hx) hxt
          exact hd3 _ (this ▸ hx)
        · exact hd4 gs q hmem hlen
  obtain ⟨defs, h1, h2, _, h4⟩ := key [] (fun d hd => by cases hd)
  exact ⟨defs, h1, h2, h4⟩


/-! ### the standard reading -/

/-- the primitive standard statements an operation stands for, in application order -/
def stdSpecOp : Op → List StdOp
  | .one g q => if g1Name g = [] then [] else [.app (g1Name g) [q]]
  | .wrap gs q => ((gs.filter (· != .I)).reverse).map fun g => .app (g1Name g) [q]
  | .ctrl g a b => [.app (g2Name g) [a, b]]
  | .cctrl .CCNOT a b c => [.measure a c, .cond c "x".toList b]
  | .cctrl .CCZ a b c => [.measure a c, .cond c "z".toList b]
  | .cctrl .MCR a b c => [.measure a c, .cond c "x".toList b, .reset a]
  | .meas q c => [.measure q c]

def stdSpec (seq : List Op) : List StdOp := seq.flatMap stdSpecOp

/-- the composites of a well-formed header -/
def CompsOK (comps : List Comp) : Prop := ∀ cp ∈ comps, ∃ gs, 2 ≤ (gs.filter (· != .I)).length ∧ cp = compOf gs

theorem compsOK_of_entries (defs : List DefEntry) (h : ∀ d ∈ defs, EntryOK d) : CompsOK (compsOf defs) := by
  intro cp hcp
  unfold compsOf at hcp
  obtain ⟨d, hd, hdc⟩ := List.mem_filterMap.1 hcp
  rcases h d hd with ⟨hn, _⟩ | ⟨gs, hl, rfl⟩
  · rw [hn] at hdc; cases hdc
  · simp only [compEntry, Option.some.injEq] at hdc
    exact ⟨gs, hl, hdc.symm⟩

theorem findComp_some (comps : List Comp) (name : Str) (cp : Comp) (h : findComp comps name = some cp) :
    cp ∈ comps ∧ cp.name = name := by
  unfold findComp at h
  exact ⟨List.mem_of_find?_eq_some h, by simpa using List.find?_some h⟩

theorem findComp_g1 (comps : List Comp) (hc : CompsOK comps) (g : G1) : findComp comps (g1Name g) = none := by
  cases h : findComp comps (g1Name g) with
  | none => rfl
  | some cp =>
    exfalso
    obtain ⟨hm, hn⟩ := findComp_some comps _ cp h
    obtain ⟨gs, hl, rfl⟩ := hc cp hm
    exact (wrapName_not_single gs hl).2 g hn

theorem findComp_g2 (comps : List Comp) (hc : CompsOK comps) (g : G2) : findComp comps (g2Name g) = none := by
  cases h : findComp comps (g2Name g) with
  | none => rfl
  | some cp =>
    exfalso
    obtain ⟨hm, hn⟩ := findComp_some comps _ cp h
    obtain ⟨gs, hl, rfl⟩ := hc cp hm
    have hn' : wrapName gs = g2Name g := hn
    have htok := tokenise_wrapName gs
    rw [hn'] at htok
    apply tbl_g2_not_concat g (mem_g2 g)
    rw [htok]
    refine ⟨by simpa using hl, ?_⟩
    intro t ht
    obtain ⟨g', hg', rfl⟩ := List.mem_map.1 ht
    exact g1Name_mem_g1Names g' (by simpa using (List.mem_filter.1 hg').2)

theorem findComp_wrap (comps : List Comp) (hc : CompsOK comps) (gs : List G1) (_hl : 2 ≤ (gs.filter (· != .I)).length)
    (hmem : compOf gs ∈ comps) : findComp comps (wrapName gs) = some (compOf gs) := by
  cases h : findComp comps (wrapName gs) with
  | none =>
    exfalso
    unfold findComp at h
    have := List.find?_eq_none.1 h (compOf gs) hmem
    simp [compOf] at this
  | some cp =>
    obtain ⟨hm, hn⟩ := findComp_some comps _ cp h
    obtain ⟨gs0, _, rfl⟩ := hc cp hm
    rw [compOf_eq_of_name gs0 gs hn]

/-- standard reading of the statements of one operation = the operation's own primitive statements -/
theorem std_appOf (comps : List Comp) (hc : CompsOK comps) (op : Op)
    (hw : ∀ gs q, op = .wrap gs q → 2 ≤ (gs.filter (· != .I)).length → compOf gs ∈ comps) :
    (appOf op).flatMap (stdStmt comps) = stdSpecOp op := by
  cases op with
  | one g q =>
    simp only [appOf, stdSpecOp]
    split
    · rfl
    · simp [stdStmt, findComp_g1 comps hc g]
  | ctrl g a b => simp [appOf, stdSpecOp, stdStmt, findComp_g2 comps hc g]
  | cctrl g a b c => cases g <;> simp [appOf, stdSpecOp, stdStmt]
  | meas q c => simp [appOf, stdSpecOp, stdStmt]
  | wrap gs q =>
    simp only [appOf, stdSpecOp]
    rcases Nat.lt_or_ge (gs.filter (· != .I)).length 2 with hlt | hge
    · -- at most one non-identity class: the name is "" or a single class name
      cases hf : gs.filter (· != .I) with
      | nil =>
        have : wrapName gs = [] := by rw [wrapName_filter, hf]; rfl
        simp [this]
      | cons g rest =>
        cases rest with
        | cons g' rest' => rw [hf] at hlt; simp at hlt; omega
        | nil =>
          have hgI : g ≠ .I := by
            have := (List.mem_filter.1 (hf ▸ List.mem_singleton.2 rfl : g ∈ gs.filter (· != .I))).2
            simpa using this
          have hname : wrapName gs = g1Name g := by rw [wrapName_filter, hf]; simp
          have hne : g1Name g ≠ [] := fun h => hgI ((g1Name_nil_iff g).1 h)
          simp [hname, hne, stdStmt, findComp_g1 comps hc g]
    · have hne := (wrapName_not_single gs hge).1
      have hfc := findComp_wrap comps hc gs hge (hw gs q rfl hge)
      simp only [hne, if_false, List.flatMap_cons, List.flatMap_nil, List.append_nil, stdStmt, hfc]
      simp [compOf, List.map_reverse]

theorem std_emit (comps : List Comp) (bar : Stmt) (hb : stdStmt comps bar = []) (seq : List Op) (o : Bool) :
    (emit bar o seq).flatten.flatMap (stdStmt comps) = seq.flatMap fun op => (appOf op).flatMap (stdStmt comps) := by
  induction seq generalizing o with
  | nil => simp [emit]
  | cons op rest ih =>
    rw [emit_cons_flatten, List.flatMap_append, List.flatMap_append, ih, List.flatMap_cons]
    split <;> simp [hb]

theorem flatMap_congr_mem {α β : Type} (l : List α) (f g : α → List β) (h : ∀ x ∈ l, f x = g x) :
    l.flatMap f = l.flatMap g := by
  induction l with
  | nil => rfl
  | cons a rest ih =>
    simp only [List.flatMap_cons, h a (by simp), ih (fun x hx => h x (by simp [hx]))]

/-- **standard reading**: read with standard openQASM 2.0 semantics (a call of a composite gate executes its body in
    textual order), the exported program denotes exactly the circuit's own primitive operations, in `sequence()` order -/
theorem qasmStd_toOpenqasm (c : Circuit) (seq : List Op) (hsub : ∀ op ∈ seq, op ∈ c.ops) :
    ∃ p, toOpenqasm c seq = .ok p ∧ qasmStd p = stdSpec seq := by
  obtain ⟨defs, hh, hentries, hcomps⟩ := headerOf_comps c.ops
  obtain ⟨defs', hh', hp⟩ := toOpenqasm_spec c seq
  rw [hh] at hh'; injection hh' with hh'
  have hdefs : defs' = defs := by injection hh' with _ h2; exact h2.symm
  subst hdefs
  refine ⟨_, hp, ?_⟩
  unfold qasmStd stdSpec
  simp only
  have hc := compsOK_of_entries defs' hentries
  rw [std_emit _ _ (by rfl) seq false]
  apply flatMap_congr_mem
  intro op hop
  apply std_appOf _ hc op
  intro gs q heq hl
  have hmem := hcomps gs q (heq ▸ hsub op hop) hl
  unfold compsOf
  exact List.mem_filterMap.2 ⟨compEntry gs, hmem, rfl⟩

theorem stdOfOp_spec (o : Op) (h : ∀ gs q, o ≠ .wrap gs q) : stdOfOp o = .ok (stdSpecOp o) := by
  cases o with
  | wrap gs q => exact absurd rfl (h gs q)
  | one g q =>
    obtain ⟨i, hi, hn, _, _, _⟩ := classInfo_g1 g
    simp only [stdOfOp, hi, bind, Except.bind, pure, Except.pure, stdSpecOp, hn]
    by_cases h0 : g1Name g = [] <;> simp [h0]
  | ctrl g a b =>
    simp only [stdOfOp, classInfo, gateName_g2, bind, Except.bind, pure, Except.pure, stdSpecOp]
  | cctrl g a b c => cases g <;> rfl
  | meas q c => rfl

theorem mapM_stdOfOp (l : List Op) (h : ∀ o ∈ l, ∀ gs q, o ≠ .wrap gs q) : l.mapM stdOfOp = .ok (l.map stdSpecOp) := by
  induction l with
  | nil => rfl
  | cons o rest ih =>
    rw [List.mapM_cons, stdOfOp_spec o (h o (by simp)), ih (fun x hx => h x (by simp [hx]))]
    rfl

theorem unwrap_no_wrap (op : Op) : ∀ o ∈ op.unwrap, ∀ gs q, o ≠ .wrap gs q := by
  intro o ho gs q heq
  subst heq
  cases op <;> simp [Op.unwrap] at ho

theorem stdSpec_unwrap (op : Op) : (op.unwrap).flatMap stdSpecOp = stdSpecOp op := by
  cases op with
  | wrap gs q =>
    simp only [Op.unwrap, stdSpecOp]
    rw [← List.filter_reverse]
    induction gs.reverse with
    | nil => rfl
    | cons g rest ih =>
      simp only [List.map_cons, List.flatMap_cons, ih, stdSpecOp]
      by_cases hg : g = .I
      · subst hg; simp [(g1Name_nil_iff G1.I).2 rfl]
      · have : g1Name g ≠ [] := fun h => hg ((g1Name_nil_iff g).1 h)
        simp [hg, this]
  | one g q => simp [Op.unwrap]
  | ctrl g a b => simp [Op.unwrap]
  | cctrl g a b c => simp [Op.unwrap]
  | meas q c => simp [Op.unwrap]

/-- the model's own reading of the circuit (`stdOfCircuit`, printed by the driver as `ref=`) is `stdSpec` -/
theorem stdOfCircuit_spec (seq : List Op) : stdOfCircuit seq = .ok (stdSpec seq) := by
  unfold stdOfCircuit
  rw [mapM_stdOfOp _ (by
    intro o ho
    obtain ⟨op, _, hop⟩ := List.mem_flatMap.1 ho
    exact unwrap_no_wrap op o hop)]
  simp only [bind, Except.bind, pure, Except.pure]
  congr 1
  unfold stdSpec
  induction seq with
  | nil => rfl
  | cons op rest ih =>
    simp only [List.flatMap_cons, List.map_append, List.flatten_append, ih]
    congr 1
    rw [← stdSpec_unwrap op]
    simp [List.flatMap]

/-! ## Part 7: register tokens — `int(tok[1:-3])` / `int(tok[1:-4])` recover any register index (any number of digits) -/

def digitStep (acc : Option Nat) (c : Char) : Option Nat :=
  acc.bind fun n => if isDigitC c then some (10 * n + (c.toNat - '0'.toNat)) else none

theorem readNat_eq (s : Str) : readNat s = if s.isEmpty then none else s.foldl digitStep (some 0) := rfl

theorem digitChar_props (d : Nat) (h : d < 10) : isDigitC (Nat.digitChar d) = true ∧ (Nat.digitChar d).toNat - '0'.toNat = d := by
  have h1 := Nat.toNat_digitChar_of_lt_ten h
  constructor
  · unfold isDigitC; rw [h1]; simp; omega
  · rw [h1]; simp

theorem foldDigits_toDigits (n : Nat) : (Nat.toDigits 10 n).foldl digitStep (some 0) = some n := by
  induction n using Nat.strongRecOn with
  | _ n ih =>
    rw [Nat.toDigits_eq_if (by decide : 1 < 10)]
    split
    · rename_i hlt
      obtain ⟨h1, h2⟩ := digitChar_props n hlt
      have h2' : n.digitChar.toNat - 48 = n := h2
      simp [digitStep, h1, h2']
    · rename_i hge
      have hlt : n % 10 < 10 := Nat.mod_lt _ (by decide)
      obtain ⟨h1, h2⟩ := digitChar_props (n % 10) hlt
      rw [List.foldl_append, ih (n / 10) (Nat.div_lt_self (by omega) (by decide))]
      simp only [List.foldl_cons, List.foldl_nil, digitStep, Option.bind_some, h1, if_true, h2]
      congr 1
      omega

/-- `int(str(n)) = n` for the model's reader and printer -/
theorem readNat_showNat (n : Nat) : readNat (showNat n) = some n := by
  rw [readNat_eq]
  have hne : (showNat n).isEmpty = false := by
    unfold showNat
    cases h : Nat.toDigits 10 n with
    | nil => exact absurd h Nat.toDigits_ne_nil
    | cons _ _ => rfl
  rw [hne]
  exact foldDigits_toDigits n

theorem pySlice_token (t : Char) (ds suffix : Str) :
    pySlice 1 suffix.length (t :: ds ++ suffix) = ds := by
  unfold pySlice
  have : (t :: ds ++ suffix).length - suffix.length = (t :: ds).length := by
    simp only [List.length_append, List.length_cons]; omega
  rw [this, List.take_left']
  · rfl
  · rfl

/-- the single-register branch reads `<type><index>[0]` back for every index, however many digits it has -/
theorem regToken_single (q : QReg) : regToken 3 (q.render ++ "[0]".toList) = .ok (q.t.ch, q.i) := by
  unfold QReg.render regToken
  have h := pySlice_token q.t.ch (showNat q.i) "[0]".toList
  simp only [List.cons_append] at h ⊢
  have h3 : ("[0]".toList).length = 3 := rfl
  rw [h3] at h
  rw [h, readNat_showNat]

/-- … and the control token of the two-register branch, which still carries the comma: `<type><index>[0],` -/
theorem regToken_control (q : QReg) : regToken 4 (q.render ++ "[0],".toList) = .ok (q.t.ch, q.i) := by
  unfold QReg.render regToken
  have h := pySlice_token q.t.ch (showNat q.i) "[0],".toList
  simp only [List.cons_append] at h ⊢
  have h4 : ("[0],".toList).length = 4 := rfl
  rw [h4] at h
  rw [h, readNat_showNat]

theorem regTOfChar_ch (t : RegT) : regTOfChar t.ch = some t := by cases t <;> rfl

end Graphiq.Export
