/-
  Proofs/LCTotalCols.lean — towards totality of `is_lc_equivalent`: the first two internal assertions cannot fire.

  * `nonzeroRows_ech`: the non-zero rows of an echelon matrix are its pivot rows `0 … k-1`
    (assertion "The number of remaining rows is less than the rank!");
  * `colFinder_exact`: `_col_finder` on the echelon matrix of the pivot rows returns exactly the non-pivot columns, in
    increasing order; hence their number is `columns − rank` (assertion "column list is not correct"), and the columns that
    remain after deleting them are the pivot columns in order (`keepCols_eq_pivots`).
-/
import GraphiqModel.Proofs.LCTotalEch
namespace Graphiq.LC
open Graphiq

/-! ### non-zero rows -/

theorem filter_lt_range (r k : Nat) (hk : k ≤ r) : (List.range r).filter (fun i => decide (i < k)) = List.range k := by
  induction r with
  | zero =>
    have : k = 0 := by omega
    subst this; rfl
  | succ r ih =>
    rw [List.range_succ, List.filter_append]
    by_cases e : k = r + 1
    · subst e
      have h1 : (List.range r).filter (fun i => decide (i < r + 1)) = List.range r := by
        rw [List.filter_eq_self]
        intro a ha
        have := List.mem_range.mp ha
        simp; omega
      rw [h1, List.range_succ]
      simp
    · rw [ih (by omega)]
      have : ¬ r < k := by omega
      simp [this]

/-- **the non-zero rows of an echelon matrix are its pivot rows** -/
theorem nonzeroRows_ech (x : BMat) (k : Nat) (piv : Nat → Nat) (hP : Piv x k x.c piv) (hE : Ech x k x.c piv)
    (hk : k ≤ x.r) : nonzeroRows x = List.range k := by
  unfold nonzeroRows
  rw [← filter_lt_range x.r k hk]
  apply List.filter_congr
  intro i hi
  have hi' := List.mem_range.mp hi
  by_cases h : i < k
  · have : ((List.range x.c).any fun j => x.f i j) = true :=
      List.any_eq_true.mpr ⟨piv i, List.mem_range.mpr (hP.bound i h), hP.one i h⟩
    rw [this]; simp [h]
  · have : ((List.range x.c).any fun j => x.f i j) = false := by
      rw [List.any_eq_false]
      intro j hj
      rw [hE.low i (by omega) hi' j (List.mem_range.mp hj)]
      simp
    rw [this]; simp [h]

/-- the matrix of the pivot rows (`np.array([row for row in m if row.any()])`) keeps the echelon structure -/
theorem selectRows_ech (x : BMat) (k : Nat) (piv : Nat → Nat) (hP : Piv x k x.c piv) (hE : Ech x k x.c piv)
    (hk : k ≤ x.r) :
    (selectRows x (List.range k)).norm.r = k ∧ (selectRows x (List.range k)).norm.c = x.c ∧
      Piv (selectRows x (List.range k)).norm k x.c piv ∧
      ∀ i, i < k → ∀ j, j < piv i → (selectRows x (List.range k)).norm.f i j = false := by
  have hr : (selectRows x (List.range k)).norm.r = k := by simp [selectRows]
  have hc : (selectRows x (List.range k)).norm.c = x.c := rfl
  have hf : ∀ i j, i < k → j < x.c → (selectRows x (List.range k)).norm.f i j = x.f i j := by
    intro i j hi hj
    rw [BMat.norm_agree (selectRows x (List.range k)) i j (by simp [selectRows]; exact hi) hj]
    show x.f ((List.range k).getD i 0) j = x.f i j
    have : (List.range k).getD i 0 = i := by simp [List.getD, hi]
    rw [this]
  refine ⟨hr, hc, ⟨?_, ?_, hP.incr, hP.bound⟩, ?_⟩
  · intro i hi
    rw [hf i _ hi (hP.bound i hi)]; exact hP.one i hi
  · intro i i' hi hii' hi'r
    rw [hr] at hi'r
    rw [hf i' _ hi'r (hP.bound i hi)]
    exact hP.below i i' hi hii' (by omega)
  · intro i hi j hj
    have := hP.bound i hi
    rw [hf i j hi (by omega)]
    exact hE.left i hi j hj

/-! ### pivot and non-pivot columns -/

/-- is `j` one of the pivot columns `piv 0 … piv (k-1)`? -/
def isPiv (k : Nat) (piv : Nat → Nat) (j : Nat) : Bool := (List.range k).any fun i => piv i == j

theorem isPiv_iff (k : Nat) (piv : Nat → Nat) (j : Nat) : isPiv k piv j = true ↔ ∃ i, i < k ∧ piv i = j := by
  unfold isPiv
  rw [List.any_eq_true]
  constructor
  · rintro ⟨i, hi, e⟩
    exact ⟨i, List.mem_range.mp hi, by simpa using e⟩
  · rintro ⟨i, hi, e⟩
    exact ⟨i, List.mem_range.mpr hi, by simpa using e⟩

theorem isPiv_false_iff (k : Nat) (piv : Nat → Nat) (j : Nat) : isPiv k piv j = false ↔ ∀ i, i < k → piv i ≠ j := by
  constructor
  · intro h i hi e
    have := (isPiv_iff k piv j).mpr ⟨i, hi, e⟩
    rw [h] at this; cases this
  · intro h
    cases hp : isPiv k piv j
    · rfl
    · obtain ⟨i, hi, e⟩ := (isPiv_iff k piv j).mp hp
      exact absurd e (h i hi)

/-- the pivot columns below `c`, listed in increasing order, are `piv 0, …, piv (t-1)` -/
theorem filter_isPiv_aux (k : Nat) (piv : Nat → Nat) (hinc : ∀ i i', i < i' → i' < k → piv i < piv i') (c : Nat) :
    ∀ t, t ≤ k → (∀ i, i < t → piv i < c) → (∀ i, t ≤ i → i < k → c ≤ piv i) →
      (List.range c).filter (isPiv k piv) = (List.range t).map piv := by
  induction c with
  | zero =>
    intro t _ h1 _
    have : t = 0 := by
      rcases Nat.eq_zero_or_pos t with e | e
      · exact e
      · have := h1 0 e; omega
    subst this; rfl
  | succ c ih =>
    intro t ht h1 h2
    rw [List.range_succ, List.filter_append]
    cases hp : isPiv k piv c
    · have hne := (isPiv_false_iff k piv c).mp hp
      rw [ih t ht (fun i hi => by have := h1 i hi; have := hne i (by omega); omega)
        (fun i hi hik => by have := h2 i hi hik; omega)]
      simp [hp]
    · obtain ⟨i0, hi0, e0⟩ := (isPiv_iff k piv c).mp hp
      have hi0t : i0 < t := by
        rcases Nat.lt_or_ge i0 t with h | h
        · exact h
        · have := h2 i0 h hi0
          omega
      have ht1 : i0 + 1 = t := by
        rcases Nat.lt_or_ge (i0 + 1) t with hlt | h
        · have := hinc i0 (i0 + 1) (by omega) (by omega)
          have := h1 (i0 + 1) hlt
          omega
        · omega
      subst ht1
      rw [ih i0 (by omega)
        (fun i hi => by have := hinc i i0 hi hi0; omega)
        (fun i hi hik => by
          rcases Nat.eq_or_lt_of_le hi with e | hlt
          · rw [← e, e0]; omega
          · have := hinc i0 i hlt hik; omega)]
      rw [List.range_succ, List.map_append]
      simp [hp, e0]

theorem filter_isPiv (k c : Nat) (piv : Nat → Nat) (hinc : ∀ i i', i < i' → i' < k → piv i < piv i')
    (hb : ∀ i, i < k → piv i < c) : (List.range c).filter (isPiv k piv) = (List.range k).map piv :=
  filter_isPiv_aux k piv hinc c k (Nat.le_refl _) hb (fun i hi hik => by omega)

theorem length_filter_not (l : List Nat) (p : Nat → Bool) :
    (l.filter fun j => !p j).length + (l.filter p).length = l.length := by
  induction l with
  | nil => rfl
  | cons a l ih =>
    simp only [List.filter_cons]
    cases p a <;> simp <;> omega

/-- splitting a filtered range at `a` -/
theorem filter_range_split (c a : Nat) (p : Nat → Bool) (ha : a ≤ c) :
    (List.range c).filter p = (List.range a).filter p ++ (List.range c).filter (fun j => decide (a ≤ j) && p j) := by
  induction c with
  | zero =>
    have : a = 0 := by omega
    subst this; rfl
  | succ c ih =>
    by_cases e : a = c + 1
    · subst e
      have : (List.range (c + 1)).filter (fun j => decide (c + 1 ≤ j) && p j) = [] := by
        rw [List.filter_eq_nil_iff]
        intro j hj
        have := List.mem_range.mp hj
        simp; omega
      rw [this, List.append_nil]
    · have ha' : a ≤ c := by omega
      rw [List.range_succ, List.filter_append, List.filter_append, ih ha', List.append_assoc]
      congr 1
      congr 1
      have : decide (a ≤ c) = true := by simp [ha']
      simp [List.filter_cons, this]

/-! ### `_col_finder` -/

/-- the staircase walk of `_col_finder`, started with the non-pivot columns `< pc` collected and the pivot of row `pr` not yet
    passed, returns all non-pivot columns -/
theorem colFinderLoop_exact (m : BMat) (k : Nat) (piv : Nat → Nat) (hr : m.r = k) (hP : Piv m k m.c piv)
    (hL : ∀ i, i < k → ∀ j, j < piv i → m.f i j = false) (fuel pr pc : Nat) (deps : List Nat)
    (hpr : pr < k) (hpc : pc ≤ piv pr) (hprev : ∀ i, i < pr → piv i < pc)
    (hdeps : deps = (List.range pc).filter fun j => !isPiv k piv j) (hfuel : pc + fuel + 1 = m.c) :
    colFinderLoop m fuel pr pc deps = (List.range m.c).filter fun j => !isPiv k piv j := by
  induction fuel generalizing pr pc deps with
  | zero =>
    simp only [colFinderLoop]
    have hb := hP.bound pr hpr
    have e : piv pr = pc := by omega
    have hp : isPiv k piv pc = true := (isPiv_iff k piv pc).mpr ⟨pr, hpr, e⟩
    have : m.c = pc + 1 := by omega
    rw [this, List.range_succ, List.filter_append, hdeps]
    simp [hp]
  | succ f ih =>
    simp only [colFinderLoop]
    by_cases hx : m.f pr pc = true
    · rw [if_pos hx]
      have e : piv pr = pc := by
        rcases Nat.lt_or_ge pc (piv pr) with h | h
        · rw [hL pr hpr pc h] at hx; cases hx
        · omega
      have hp : isPiv k piv pc = true := (isPiv_iff k piv pc).mpr ⟨pr, hpr, e⟩
      have hdeps' : deps = (List.range (pc + 1)).filter fun j => !isPiv k piv j := by
        rw [List.range_succ, List.filter_append, hdeps]; simp [hp]
      by_cases hlast : pr + 1 = m.r
      · rw [if_pos hlast]
        rw [filter_range_split m.c (pc + 1) (fun j => !isPiv k piv j) (by omega), ← hdeps']
        congr 1
        apply List.filter_congr
        intro j hj
        by_cases hj' : pc + 1 ≤ j
        · have : isPiv k piv j = false := by
            rw [isPiv_false_iff]
            intro i hi ej
            have : piv i ≤ piv pr := by
              rcases Nat.lt_or_ge i pr with h | h
              · have := hP.incr i pr h hpr; omega
              · have : i = pr := by omega
                rw [this]; exact Nat.le_refl _
            omega
          simp [hj', this]
        · simp [hj']
      · rw [if_neg hlast]
        have hpr' : pr + 1 < k := by omega
        apply ih (pr + 1) (pc + 1) deps hpr'
        · have := hP.incr pr (pr + 1) (by omega) hpr'; omega
        · intro i hi
          rcases Nat.lt_or_ge i pr with h | h
          · have := hprev i h; omega
          · have : i = pr := by omega
            rw [this]; omega
        · exact hdeps'
        · omega
    · rw [if_neg hx]
      have hne : piv pr ≠ pc := by
        intro e
        rw [← e, hP.one pr hpr] at hx
        exact hx rfl
      have hlt : pc < piv pr := by omega
      have hp : isPiv k piv pc = false := by
        rw [isPiv_false_iff]
        intro i hi ei
        rcases Nat.lt_or_ge i pr with h | h
        · have := hprev i h; omega
        · rcases Nat.eq_or_lt_of_le h with e | h'
          · rw [← e] at ei; omega
          · have := hP.incr pr i h' hi; omega
      apply ih pr (pc + 1) (deps ++ [pc]) hpr (by omega) (fun i hi => by have := hprev i hi; omega)
      · rw [List.range_succ, List.filter_append, hdeps]; simp [hp]
      · omega

/-- **`_col_finder` returns exactly the non-pivot columns** of the echelon matrix of the pivot rows, in increasing order -/
theorem colFinder_exact (m : BMat) (k : Nat) (piv : Nat → Nat) (hk : 0 < k) (hr : m.r = k) (hP : Piv m k m.c piv)
    (hL : ∀ i, i < k → ∀ j, j < piv i → m.f i j = false) :
    colFinder m = (List.range m.c).filter fun j => !isPiv k piv j := by
  unfold colFinder
  have hc : 0 < m.c := by have := hP.bound 0 hk; omega
  exact colFinderLoop_exact m k piv hr hP hL (m.c - 1) 0 0 [] hk (Nat.zero_le _) (fun i hi => by omega) rfl (by omega)

/-- hence their number is `columns − rank`: the assertion "column list is not correct" cannot fire -/
theorem colFinder_length (m : BMat) (k : Nat) (piv : Nat → Nat) (hk : 0 < k) (hr : m.r = k) (hP : Piv m k m.c piv)
    (hL : ∀ i, i < k → ∀ j, j < piv i → m.f i j = false) : (colFinder m).length + k = m.c := by
  rw [colFinder_exact m k piv hk hr hP hL]
  have h1 := length_filter_not (List.range m.c) (isPiv k piv)
  rw [filter_isPiv k m.c piv hP.incr hP.bound] at h1
  simpa using h1

/-- the columns kept by `np.delete(m, col_list, axis=1)` are the pivot columns, in order -/
theorem keepCols_eq_pivots (m : BMat) (k : Nat) (piv : Nat → Nat) (hk : 0 < k) (hr : m.r = k) (hP : Piv m k m.c piv)
    (hL : ∀ i, i < k → ∀ j, j < piv i → m.f i j = false) : keepCols m (colFinder m) = (List.range k).map piv := by
  unfold keepCols
  rw [← filter_isPiv k m.c piv hP.incr hP.bound, colFinder_exact m k piv hk hr hP hL]
  apply List.filter_congr
  intro j hj
  have hj' := List.mem_range.mp hj
  cases hp : isPiv k piv j
  · have : ((List.range m.c).filter fun j => !isPiv k piv j).contains j = true := by
      simp only [List.contains_iff_mem, List.mem_filter, List.mem_range]
      exact ⟨hj', by simp [hp]⟩
    rw [this]; rfl
  · have : ((List.range m.c).filter fun j => !isPiv k piv j).contains j = false := by
      cases hc : ((List.range m.c).filter fun j => !isPiv k piv j).contains j
      · rfl
      · simp only [List.contains_iff_mem, List.mem_filter, List.mem_range] at hc
        rw [hp] at hc; simp at hc
    rw [this]; rfl

end Graphiq.LC
