/-
  Proofs/PauliGroup.lean — the signed product `PRow.mul` makes signed Pauli rows a group (up to `EqOn`):
  associativity, identity, self-inverse for real rows; parity of the phase exponent = commutation.
-/
import GraphiqModel.Proofs.Pauli
namespace Graphiq
namespace PRow

/-! ### sums modulo 4 and modulo 2 -/

theorem sumTo_mod4_congr (n : Nat) (f g : Nat → Int) (h : ∀ j, j < n → f j % 4 = g j % 4) :
    sumTo n f % 4 = sumTo n g % 4 := by
  induction n with
  | zero => rfl
  | succ k ih =>
    simp only [sumTo]
    have h1 := ih (fun j hj => h j (Nat.lt_succ_of_lt hj))
    have h2 := h k (Nat.lt_succ_self k)
    omega

theorem sumTo_mod2_parity (n : Nat) (f : Nat → Int) (p : Nat → Bool)
    (h : ∀ j, j < n → f j % 2 = Bool.toInt' (p j)) : sumTo n f % 2 = Bool.toInt' (parityTo n p) := by
  induction n with
  | zero => rfl
  | succ k ih =>
    simp only [sumTo, parityTo]
    have h1 := ih (fun j hj => h j (Nat.lt_succ_of_lt hj))
    have h2 := h k (Nat.lt_succ_self k)
    cases hp : parityTo k p <;> cases hq : p k <;> simp [hp, hq, Bool.toInt'] at h1 h2 ⊢ <;> omega

/-! ### per-site identities of `g_function` -/

theorem gFun_assoc (x1 z1 x2 z2 x3 z3 : Bool) :
    (gFun (xor x1 x2) (xor z1 z2) x3 z3 + gFun x1 z1 x2 z2) % 4
    = (gFun x1 z1 (xor x2 x3) (xor z2 z3) + gFun x2 z2 x3 z3) % 4 := by
  cases x1 <;> cases z1 <;> cases x2 <;> cases z2 <;> cases x3 <;> cases z3 <;> decide

theorem gFun_self (x z : Bool) : gFun x z x z = 0 := by
  cases x <;> cases z <;> decide

theorem gFun_one_left (x z : Bool) : gFun false false x z = 0 := by
  cases x <;> cases z <;> decide

theorem gFun_one_right (x z : Bool) : gFun x z false false = 0 := by
  cases x <;> cases z <;> decide

theorem gFun_parity (x1 z1 x2 z2 : Bool) :
    gFun x1 z1 x2 z2 % 2 = Bool.toInt' (xor (x1 && z2) (z1 && x2)) := by
  cases x1 <;> cases z1 <;> cases x2 <;> cases z2 <;> decide

/-! ### group laws -/

theorem gSum_assoc (n : Nat) (a b c : PRow) :
    (gSum n (mul n a b) c + gSum n a b) % 4 = (gSum n a (mul n b c) + gSum n b c) % 4 := by
  unfold gSum
  rw [← sumTo_add, ← sumTo_add]
  apply sumTo_mod4_congr
  intro j _
  simp only [mul_x, mul_z]
  exact gFun_assoc _ _ _ _ _ _

theorem mul_assoc (n : Nat) (a b c : PRow) : EqOn n (mul n (mul n a b) c) (mul n a (mul n b c)) := by
  apply eqOn_of
  · intro j _
    simp only [mul_x, mul_z]
    cases a.x j <;> cases b.x j <;> cases c.x j <;> cases a.z j <;> cases b.z j <;> cases c.z j <;> exact ⟨rfl, rfl⟩
  · rw [mul_ph, mul_ph, mul_ph, mul_ph]
    have := gSum_assoc n a b c
    omega

theorem gSum_self (n : Nat) (a : PRow) : gSum n a a = 0 := by
  unfold gSum
  rw [sumTo_congr n _ (fun _ => 0) (fun j _ => gFun_self _ _)]
  exact sumTo_zero n

theorem gSum_one_left (n : Nat) (a : PRow) : gSum n one a = 0 := by
  unfold gSum
  rw [sumTo_congr n _ (fun _ => 0) (fun j _ => by show gFun false false _ _ = 0; exact gFun_one_left _ _)]
  exact sumTo_zero n

theorem gSum_one_right (n : Nat) (a : PRow) : gSum n a one = 0 := by
  unfold gSum
  rw [sumTo_congr n _ (fun _ => 0) (fun j _ => by show gFun _ _ false false = 0; exact gFun_one_right _ _)]
  exact sumTo_zero n

theorem one_ph : one.ph = 0 := by decide

theorem one_mul (n : Nat) (a : PRow) : EqOn n (mul n one a) a := by
  apply eqOn_of
  · intro j _; simp [one]
  · rw [mul_ph, gSum_one_left, one_ph]
    have := ph_range a
    omega

theorem mul_one (n : Nat) (a : PRow) : EqOn n (mul n a one) a := by
  apply eqOn_of
  · intro j _; simp [one]
  · rw [mul_ph, gSum_one_right, one_ph]
    have := ph_range a
    omega

/-- a real row (no imaginary phase) squares to the identity -/
theorem mul_self (n : Nat) (a : PRow) (hr : a.ip = false) : EqOn n (mul n a a) one := by
  apply eqOn_of
  · intro j _; simp [one]
  · rw [mul_ph, gSum_self, one_ph]
    unfold ph; rw [hr]
    cases a.r <;> simp [Bool.toInt']

/-- the parity of the phase exponent picked up by a product is the commutation bit -/
theorem gSum_parity (n : Nat) (a b : PRow) : gSum n a b % 2 = Bool.toInt' (sp n a b) := by
  unfold gSum sp
  apply sumTo_mod2_parity
  intro j _
  exact gFun_parity _ _ _ _

/-- the product of two commuting real rows is real -/
theorem mul_real (n : Nat) (a b : PRow) (ha : a.ip = false) (hb : b.ip = false) (hc : sp n a b = false) :
    (mul n a b).ip = false := by
  have hp := mul_ph n a b
  have hg := gSum_parity n a b
  rw [hc] at hg
  have e1 : a.ph % 2 = 0 := by unfold ph; rw [ha]; cases a.r <;> simp [Bool.toInt']
  have e2 : b.ph % 2 = 0 := by unfold ph; rw [hb]; cases b.r <;> simp [Bool.toInt']
  have e3 : (mul n a b).ph % 2 = 0 := by
    rw [hp]; simp [Bool.toInt'] at hg; omega
  unfold ph at e3
  cases h : (mul n a b).ip
  · rfl
  · rw [h] at e3
    cases (mul n a b).r <;> simp [Bool.toInt'] at e3

/-- products commute up to the commutation sign; for commuting rows `a·b = b·a` -/
theorem gFun_comm (x1 z1 x2 z2 : Bool) :
    (gFun x1 z1 x2 z2 - gFun x2 z2 x1 z1) % 4 = (2 * Bool.toInt' (xor (x1 && z2) (z1 && x2))) % 4 := by
  cases x1 <;> cases z1 <;> cases x2 <;> cases z2 <;> decide

theorem sumTo_sub (n : Nat) (f g : Nat → Int) : sumTo n (fun j => f j - g j) = sumTo n f - sumTo n g := by
  induction n with
  | zero => rfl
  | succ k ih => simp only [sumTo, ih]; omega

theorem sumTo_two_mul_parity (n : Nat) (p : Nat → Bool) :
    (sumTo n fun j => 2 * Bool.toInt' (p j)) % 4 = (2 * Bool.toInt' (parityTo n p)) % 4 := by
  induction n with
  | zero => rfl
  | succ k ih =>
    simp only [sumTo, parityTo]
    cases hp : parityTo k p <;> cases hq : p k <;> simp [hp, hq, Bool.toInt'] at ih ⊢ <;> omega

theorem mul_comm (n : Nat) (a b : PRow) (hc : sp n a b = false) : EqOn n (mul n a b) (mul n b a) := by
  apply eqOn_of
  · intro j _
    simp only [mul_x, mul_z]
    cases a.x j <;> cases b.x j <;> cases a.z j <;> cases b.z j <;> exact ⟨rfl, rfl⟩
  · rw [mul_ph, mul_ph]
    have key : (gSum n a b - gSum n b a) % 4 = 0 := by
      unfold gSum
      rw [← sumTo_sub]
      have h1 := sumTo_mod4_congr n
        (fun j => gFun (a.x j) (a.z j) (b.x j) (b.z j) - gFun (b.x j) (b.z j) (a.x j) (a.z j))
        (fun j => 2 * Bool.toInt' (xor (a.x j && b.z j) (a.z j && b.x j)))
        (fun j _ => gFun_comm _ _ _ _)
      rw [h1, sumTo_two_mul_parity]
      have : parityTo n (fun j => xor (a.x j && b.z j) (a.z j && b.x j)) = false := hc
      rw [this]; rfl
    omega

end PRow
end Graphiq
