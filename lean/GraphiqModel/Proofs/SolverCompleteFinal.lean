/-
  Proofs/SolverCompleteFinal.lean — `hfinal` holds WHENEVER the solver model returns (any real commuting target, no hypothesis on
  the target's shape): if `solve target = .ok s`, then the last steps of `solve` succeeded, i.e. `inverse_circuit` returned on the last
  echelon tableau `t2` and its gate list was accepted by `_add_gates_from_str`; the replayed gates take the group of `t2` to the group of
  the tableau `inverse_circuit` ended with, which is |0…0⟩ (`InvZero`: C11 `inverseCircuit_isZero`, the synthesis never stops
  elsewhere); a tableau with that group has only `+` signs, so the final sign loop is the identity.
  Consequence: the soundness theorem of the solver needs no hypothesis `hfinal` at all.
-/
import GraphiqModel.Proofs.SolverCompleteMain
namespace Graphiq.Solver
open Graphiq Graphiq.Cliff PRow STab Tab

/-- what `inverse_circuit` returns is the all-|0⟩ tableau (C11 `inverseCircuit_isZero`, on branch deep-c11), as a hypothesis -/
def InvZero : Prop := ∀ (t t' : STab) (c : List Gate), t.Good → t.inverseCircuit = .ok (t', c) → t'.isZero = true

/-- an accepted entry of the gate list is one of H, P, X, or a CNOT/CZ between emitters -/
theorem gateStep_okFor (acc a' : St) (g : Gate) (h : gateStep acc g = .ok a') : STab.Gate.okFor acc.np g := by
  unfold gateStep at h
  cases g with
  | H q => trivial
  | P q => trivial
  | X q => trivial
  | CNOT c t =>
    simp only at h
    split at h
    · next hb => exact hb
    · cases h
  | CZ c t =>
    simp only at h
    split at h
    · next hb => exact hb
    · cases h
  | Pdag q => simp at h
  | Y q => simp at h
  | Z q => simp at h
  | I q => simp at h

/-- if `_add_gates_from_str` returned, the tableau followed the gate list -/
theorem addGatesFromStr_tracks (np : Nat) (t0 : STab) (gl : List Gate) (hwf : ∀ g, g ∈ gl → g.WF t0.n)
    (acc : St) (c : List Gate) (hnp : acc.np = np) (htr : Tracks t0 ⟨acc.t, c⟩) (s' : St)
    (h : addGatesFromStr acc gl = .ok s') : s'.np = np ∧ s'.ne = acc.ne ∧ Tracks t0 ⟨s'.t, c ++ gl.flatMap expand1⟩ := by
  rw [addGatesFromStr_eq] at h
  induction gl generalizing acc c with
  | nil =>
    simp only [List.foldlM, pure, Except.pure] at h
    injection h with h
    subst h
    exact ⟨hnp, rfl, by simpa using htr⟩
  | cons g rest ih =>
    simp only [List.foldlM] at h
    cases h1 : gateStep acc g with
    | error e => rw [h1] at h; simp [bind, Except.bind] at h
    | ok a1 =>
      rw [h1] at h
      simp only [bind, Except.bind] at h
      have hok := gateStep_okFor acc a1 g h1
      rw [hnp] at hok
      obtain ⟨a1', k1, k2, k3, k4⟩ := gateStep_ok np t0 acc c g hok (hwf g List.mem_cons_self) hnp htr
      rw [h1] at k1
      injection k1 with k1
      subst k1
      obtain ⟨j2, j3, j4⟩ := ih (fun g' hg' => hwf g' (List.mem_cons_of_mem _ hg')) a1 (c ++ expand1 g) k2 k4 h
      refine ⟨j2, j3.trans k3, ?_⟩
      rw [List.flatMap_cons, ← List.append_assoc]; exact j4

/-- **`hfinal` holds whenever `solve` returns**: for every real commuting target, if the solver model returns `s` then its final working
    tableau generates exactly the signed group of |0…0⟩ -/
theorem solve_final_zero (hzero : InvZero) (target : STab) (hg : target.Good) (s : St) (h : solve target = .ok s) :
    SpanEq s.t (STab.zero (target.n + s.ne)) := by
  have hne := solve_emitter_count target s h
  unfold solve at h
  cases h0 : determineNEmitters target with
  | error e => rw [h0] at h; cases h
  | ok ne =>
    rw [h0] at h hne; simp only at h
    have ene : s.ne = ne := by injection hne with hne; exact hne.symm
    rw [ene]
    obtain ⟨g0, n0⟩ := withEmitters_good target hg ne
    have i0 : Inv target.n ne (withEmitters target ne).Spn { np := target.n, ne := ne, t := withEmitters target ne, circ := [] } :=
      ⟨rfl, rfl, n0, g0, rfl⟩
    have e0 : (List.range ne).foldl (fun (acc : STab) _ => (acc.insertQubit acc.n).norm) target = withEmitters target ne := rfl
    rw [e0] at h
    cases h1 : photonLoop { np := target.n, ne := ne, t := withEmitters target ne, circ := [] } ((List.range target.n).reverse.map (· + 1)) with
    | error e => rw [h1] at h; cases h
    | ok s1 =>
      rw [h1] at h; simp only at h
      have i1 := inv_photonLoop target.n ne _ _ (by
        intro j hj
        simp only [List.mem_map, List.mem_reverse, List.mem_range] at hj
        obtain ⟨a, ha, e⟩ := hj
        omega) _ s1 i0 h1
      cases h2 : s1.t.rref with
      | error e => rw [h2] at h; cases h
      | ok v =>
        obtain ⟨t2, b⟩ := v
        rw [h2] at h; simp only at h
        have i2 := inv_rref _ _ _ s1 t2 b i1 h2
        have hn2 : t2.n = target.n + ne := i2.n_eq
        split at h
        · cases h
        · cases h3 : t2.inverseCircuit with
          | error e => rw [h3] at h; cases h
          | ok w =>
            obtain ⟨t', inv⟩ := w
            rw [h3] at h; simp only at h
            obtain ⟨hn', hg', hwf, hfwd, hbwd⟩ := inverseCircuit_tracks t2 t' inv i2.good h3
            have hz := hzero t2 t' inv i2.good h3
            cases h4 : addGatesFromStr { s1 with t := t2 } inv with
            | error e => rw [h4] at h; cases h
            | ok s3 =>
              rw [h4] at h; simp only at h
              obtain ⟨_, _, tr3⟩ := addGatesFromStr_tracks target.n t2 inv hwf { s1 with t := t2 } [] i1.np_eq
                (tracks_init t2 i2.good) s3 h4
              have hz' : SpanEq t' (STab.zero (target.n + ne)) := by
                have := isZero_spanEq t' hg' hz
                rw [hn', hn2] at this; exact this
              have hs3 : SpanEq s3.t (STab.zero (target.n + ne)) := by
                refine ⟨tr3.n_eq.trans hn2, fun b hb => ?_, fun b hb => ?_⟩
                · obtain ⟨a, ha, ea⟩ := tr3.bwd b hb
                  rw [List.nil_append, actCirc_flatMap] at ea
                  refine hz'.sub b (InSpan.eqv _ _ (hfwd a ha) ?_)
                  rw [hn']; exact ea
                · obtain ⟨a, ha, ea⟩ := hbwd b (hz'.sup b hb)
                  have := tr3.fwd a ha
                  rw [List.nil_append, actCirc_flatMap] at this
                  refine InSpan.eqv _ _ this ?_
                  rw [tr3.n_eq]; exact ea
              -- the sign loop is the identity
              have hnoop : (List.range ne).foldlM (fun (acc : St) i =>
                  if (acc.t.row (target.n + i)).r then addOneQubit (acc.gate (.X (target.n + i))) [.X] (target.n + i) else .ok acc) s3
                  = .ok s3 := by
                apply foldlM_noop
                intro i hi
                have hi' : i < ne := List.mem_range.mp hi
                have hrow : s3.t.Spn (s3.t.row (target.n + i)) :=
                  spn_gen s3.t _ (by rw [hs3.n_eq]; show target.n + i < target.n + ne; omega)
                have := (zero_spn_plus _ _ (hs3.sub _ hrow)).2.1
                simp only [this, Bool.false_eq_true, if_false]
              rw [hnoop] at h
              injection h with h
              rw [← h]; exact hs3

end Graphiq.Solver
