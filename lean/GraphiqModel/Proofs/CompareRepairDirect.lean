/-
  Proofs/CompareRepairDirect.lean — soundness of `compare(method="direct")` stated for the model of the code itself
  (`direct`: build both DAGs, `unwrap_nodes`, `remove_identity`, then walk every register of both graphs in lock-step), not
  for its operation-list form `directL`: with the register-path invariant of the normalised DAG (`normalise_graphInv`) a
  walk that answers `True` has compared, node by node, the executed operations on that register.
-/
import GraphiqModel.Proofs.CompareRepairRenEq
namespace Graphiq.Compare
open Graphiq Graphiq.Export

theorem directMatch_gate (a b : Op) : directMatch (.gate a) (.gate b) = opMatchL a b := by
  unfold directMatch opMatchL
  congr 1
  cases a <;> cases b <;> rfl

/-- the relation the lock-step walk establishes between two nodes -/
def NodeMatch (g1 g2 : MG) (a b : Nd) : Prop :=
  ∃ o1 o2, g1.opOf a = some o1 ∧ g2.opOf b = some o2 ∧ directMatch o1 o2 = true

theorem path_last_unique {g : MG} {W : List Wire} {body : Wire → List Nd} (r : Rep0 g W body) (w : Wire) (hw : w ∈ W)
    (pre rest : List Nd) (h : pathOf body w = pre ++ Nd.out w :: rest) : rest = [] := by
  cases rest with
  | nil => rfl
  | cons y ys =>
    exfalso
    have hnd := r.pathNodup w hw
    have hlast : (pathOf body w).getLast? = some (Nd.out w) := by
      unfold pathOf
      rw [← List.cons_append, List.getLast?_append]
      simp
    rw [h] at hnd hlast
    have h2 : (y :: ys).getLast? = some (Nd.out w) := by
      have : pre ++ Nd.out w :: y :: ys = (pre ++ [Nd.out w]) ++ (y :: ys) := by simp
      rw [this, List.getLast?_append] at hlast
      cases hl : (y :: ys).getLast? with
      | none => simp at hl
      | some z => rw [hl] at hlast; simpa using hlast
    have hin : Nd.out w ∈ y :: ys := List.mem_of_getLast? h2
    have hnd2 := (List.nodup_append.1 hnd).2.1
    exact (List.nodup_cons.1 hnd2).1 hin

/-- **a lock-step walk that answers `True` has matched the two register paths node by node** -/
theorem directWalk_true (g1 g2 : MG) (W1 W2 : List Wire) (B1 B2 : Wire → List Nd) (r1 : Rep0 g1 W1 B1) (r2 : Rep0 g2 W2 B2)
    (w : Wire) (hw1 : w ∈ W1) (hw2 : w ∈ W2) :
    ∀ (fuel : Nat) (rest1 pre1 : List Nd) (n1 : Nd) (pre2 : List Nd) (n2 : Nd) (rest2 : List Nd),
      pathOf B1 w = pre1 ++ n1 :: rest1 → pathOf B2 w = pre2 ++ n2 :: rest2 → rest1.length ≤ fuel →
      NodeMatch g1 g2 n1 n2 → directWalk g1 g2 w fuel n1 n2 = .ok true →
      List.Forall₂ (NodeMatch g1 g2) rest1 rest2 := by
  -- when the first walk stands on its output node, so does the second
  have hbase : ∀ (pre1 : List Nd) (n1 : Nd) (pre2 : List Nd) (n2 : Nd) (rest2 : List Nd),
      pathOf B1 w = pre1 ++ [n1] → pathOf B2 w = pre2 ++ n2 :: rest2 → NodeMatch g1 g2 n1 n2 → rest2 = [] := by
    intro pre1 n1 pre2 n2 rest2 h1 h2 hm
    have hn1 : n1 = .out w := by
      have hlast : (pathOf B1 w).getLast? = some (Nd.out w) := by
        unfold pathOf
        rw [← List.cons_append, List.getLast?_append]
        simp
      rw [h1] at hlast
      simpa using hlast
    obtain ⟨o1, o2, ho1, ho2, hd⟩ := hm
    rw [hn1, r1.outOp w hw1] at ho1
    injection ho1 with ho1
    subst ho1
    have : ∃ w', o2 = .output w' := by
      cases o2 with
      | output w' => exact ⟨w', rfl⟩
      | input _ => simp [directMatch, isInstance] at hd
      | gate _ => simp [directMatch, isInstance] at hd
    obtain ⟨w', rfl⟩ := this
    obtain ⟨hn2, _⟩ := r2.kindOut _ _ ho2
    have hmem : n2 ∈ pathOf B2 w := by rw [h2]; simp
    rw [hn2] at hmem h2
    have := r2.out_on_path w w' hw2 hmem
    subst this
    exact path_last_unique r2 w' hw2 pre2 rest2 h2
  intro fuel
  induction fuel with
  | zero =>
    intro rest1 pre1 n1 pre2 n2 rest2 h1 h2 hlen hm _
    have : rest1 = [] := List.length_eq_zero_iff.1 (Nat.le_zero.1 hlen)
    subst this
    rw [hbase pre1 n1 pre2 n2 rest2 h1 h2 hm]
    exact List.Forall₂.nil
  | succ k ih =>
    intro rest1 pre1 n1 pre2 n2 rest2 h1 h2 hlen hm hwalk
    cases rest1 with
    | nil =>
      rw [hbase pre1 n1 pre2 n2 rest2 h1 h2 hm]
      exact List.Forall₂.nil
    | cons v1 rest1' =>
      have hadj : Adj (pathOf B1 w) n1 v1 := ⟨pre1, rest1', h1⟩
      have hn1 : (n1 == Nd.out w) = false := by
        cases hh : n1 == Nd.out w with
        | false => rfl
        | true =>
          exfalso
          rw [beq_iff_eq] at hh
          rw [hh] at h1
          have := path_last_unique r1 w hw1 pre1 (v1 :: rest1') h1
          cases this
      obtain ⟨e0, he0, hs0, hd0, hk0⟩ := r1.edge_complete w hw1 n1 v1 hadj
      obtain ⟨e1, hf1⟩ : ∃ e1, g1.outEdge n1 w = some e1 := by
        have := outEdge_isSome_of_mem g1 e0 he0
        rwa [hs0, hk0] at this
      obtain ⟨he1, hs1, hk1⟩ := outEdge_some g1 n1 w e1 hf1
      have hd1 : e1.dst = v1 := by
        rw [← hd0]
        exact r1.uniqueOut e1 e0 he1 he0 (hs1.trans hs0.symm) (hk1.trans hk0.symm)
      rw [directWalk] at hwalk
      simp only [hn1, Bool.false_eq_true, if_false, hf1] at hwalk
      cases hf2 : g2.outEdge n2 w with
      | none => rw [hf2] at hwalk; cases hwalk
      | some e2 =>
        rw [hf2] at hwalk
        simp only at hwalk
        obtain ⟨he2, hs2, hk2⟩ := outEdge_some g2 n2 w e2 hf2
        have hadj2 := (r2.edge_sound0 e2 he2).2
        rw [hk2, hs2] at hadj2
        obtain ⟨rest2', hr2⟩ := adj_next _ (r2.pathNodup w hw2) pre2 rest2 n2 e2.dst h2 hadj2
        subst hr2
        cases ho1 : g1.opOf e1.dst with
        | none => rw [ho1] at hwalk; cases hwalk
        | some o1 =>
          cases ho2 : g2.opOf e2.dst with
          | none => rw [ho1, ho2] at hwalk; cases hwalk
          | some o2 =>
            rw [ho1, ho2] at hwalk
            simp only at hwalk
            cases hdm : directMatch o1 o2 with
            | false => rw [hdm] at hwalk; simp at hwalk
            | true =>
              rw [hdm] at hwalk
              simp only [if_true] at hwalk
              rw [hd1] at hwalk ho1
              have hm' : NodeMatch g1 g2 v1 e2.dst := ⟨o1, o2, ho1, ho2, hdm⟩
              have h1' : pathOf B1 w = (pre1 ++ [n1]) ++ v1 :: rest1' := by rw [h1]; simp
              have h2' : pathOf B2 w = (pre2 ++ [n2]) ++ e2.dst :: rest2' := by rw [h2]; simp
              exact List.Forall₂.cons hm' (ih rest1' _ v1 _ e2.dst rest2' h1' h2' (by simpa using hlen) hm' hwalk)

/-- matched node lists carry the same operations up to the recording classical register -/
theorem forall2_dropC (g1 g2 : MG) : ∀ (l1 l2 : List Nd), List.Forall₂ (NodeMatch g1 g2) l1 l2 →
    (∀ a ∈ l1.filterMap (gateAt g1), ∀ gs q, a ≠ .wrap gs q) →
    (l1.filterMap (gateAt g1)).map dropC = (l2.filterMap (gateAt g2)).map dropC := by
  intro l1
  induction l1 with
  | nil => intro l2 h _; cases h; rfl
  | cons a l1' ih =>
    intro l2 h hnw
    cases h with
    | cons hab hrest =>
      rename_i b l2'
      obtain ⟨o1, o2, ho1, ho2, hd⟩ := hab
      cases o1 with
      | gate x =>
        cases o2 with
        | gate y =>
          have hga : gateAt g1 a = some x := by unfold gateAt; rw [ho1]
          have hgb : gateAt g2 b = some y := by unfold gateAt; rw [ho2]
          rw [List.filterMap_cons, List.filterMap_cons, hga, hgb]
          simp only [List.map_cons]
          rw [directMatch_gate] at hd
          have hx : ∀ gs q, x ≠ .wrap gs q := hnw x (by rw [List.filterMap_cons, hga]; simp)
          rw [opMatchL_dropC x y hx hd,
            ih l2' hrest (fun a' ha' => hnw a' (by rw [List.filterMap_cons, hga]; exact List.mem_cons_of_mem _ ha'))]
        | input _ => simp [directMatch, isInstance] at hd
        | output _ => simp [directMatch, isInstance] at hd
      | input w1 =>
        cases o2 with
        | input w2 =>
          have hga : gateAt g1 a = none := by unfold gateAt; rw [ho1]
          have hgb : gateAt g2 b = none := by unfold gateAt; rw [ho2]
          rw [List.filterMap_cons, List.filterMap_cons, hga, hgb]
          exact ih l2' hrest (fun a' ha' => hnw a' (by rw [List.filterMap_cons, hga]; exact ha'))
        | gate _ => simp [directMatch, isInstance] at hd
        | output _ => simp [directMatch, isInstance] at hd
      | output w1 =>
        cases o2 with
        | output w2 =>
          have hga : gateAt g1 a = none := by unfold gateAt; rw [ho1]
          have hgb : gateAt g2 b = none := by unfold gateAt; rw [ho2]
          rw [List.filterMap_cons, List.filterMap_cons, hga, hgb]
          exact ih l2' hrest (fun a' ha' => hnw a' (by rw [List.filterMap_cons, hga]; exact ha'))
        | gate _ => simp [directMatch, isInstance] at hd
        | input _ => simp [directMatch, isInstance] at hd

/-! ## the register counters survive the normalisation -/

def SameCnt (g g' : MG) : Prop := g'.ne = g.ne ∧ g'.np = g.np ∧ g'.nc = g.nc

theorem SameCnt.refl (g : MG) : SameCnt g g := ⟨rfl, rfl, rfl⟩
theorem SameCnt.trans {a b c : MG} (h1 : SameCnt a b) (h2 : SameCnt b c) : SameCnt a c :=
  ⟨h2.1.trans h1.1, h2.2.1.trans h1.2.1, h2.2.2.trans h1.2.2⟩

theorem sameCnt_removeOp (g : MG) (n : Nd) : SameCnt g (g.removeOp n) := by
  rw [removeOp_eq]
  show SameCnt g (rmEdges g n)
  unfold rmEdges
  refine foldl_inv rmOut (fun g' : MG => SameCnt g g') _ _ ?_ (fun b a _ hb => hb)
  refine foldl_inv (rmStep _) (fun g' : MG => SameCnt g g') _ g (SameCnt.refl g) ?_
  intro b a _ hb
  show SameCnt g (List.foldl (addNew a) b _)
  refine foldl_inv (addNew a) (fun g' : MG => SameCnt g g') _ b hb ?_
  intro b' a' _ hb'
  unfold addNew; split <;> exact hb'

theorem sameCnt_insertAll (p : Nd) (wq : Wire) (us : List Op) (g : MG) : SameCnt g (insertAll p wq us g) := by
  unfold insertAll
  refine foldl_inv _ (fun g' : MG => SameCnt g g') us g (SameCnt.refl g) ?_
  intro b o _ hb
  cases hf : b.inEdge p wq with
  | none => simpa [hf] using hb
  | some e => simp only [hf]; exact hb

theorem normalise_counts (g : MG) : g.normalise.ne = g.ne ∧ g.normalise.np = g.np ∧ g.normalise.nc = g.nc := by
  have h1 : SameCnt g g.unwrapNodes := by
    rw [unwrapNodes_eq]
    refine foldl_inv unwrapStep (fun g' : MG => SameCnt g g') _ g (SameCnt.refl g) ?_
    intro b p _ hb
    unfold unwrapStep
    split
    · exact hb.trans ((sameCnt_insertAll _ _ _ b).trans (sameCnt_removeOp _ _))
    · exact hb
  have h2 : SameCnt g.unwrapNodes g.unwrapNodes.removeIdentity := by
    rw [removeIdentity_eq]
    refine foldl_inv (fun (g : MG) (p : Nd × NOp) => g.removeOp p.1) (fun g' : MG => SameCnt g.unwrapNodes g') _ _ (SameCnt.refl _) ?_
    intro b p _ hb
    exact hb.trans (sameCnt_removeOp b p.1)
  exact h1.trans h2

/-- the `for in_node in node_dict["Input"]` loop of `direct` answers `True` only if every walk does -/
theorem foldlM_all_true (step : Bool → Wire → Except Err Bool) (f : Wire → Except Err Bool)
    (hs1 : ∀ w, step false w = .ok false) (hs2 : ∀ w, step true w = f w) :
    ∀ (ws : List Wire) (acc : Bool), ws.foldlM step acc = .ok true → acc = true ∧ ∀ w ∈ ws, f w = .ok true := by
  intro ws
  induction ws with
  | nil =>
    intro acc h
    simp only [List.foldlM_nil, pure, Except.pure] at h
    injection h with h
    exact ⟨h, fun _ hw => by cases hw⟩
  | cons w rest ih =>
    intro acc h
    rw [List.foldlM_cons] at h
    cases acc with
    | false =>
      rw [hs1] at h
      have := (ih false h).1
      cases this
    | true =>
      rw [hs2] at h
      cases hf : f w with
      | error e => rw [hf] at h; cases h
      | ok b =>
        rw [hf] at h
        obtain ⟨hb, hrest⟩ := ih b h
        subst hb
        refine ⟨rfl, ?_⟩
        intro w' hw'
        rcases List.mem_cons.1 hw' with rfl | h'
        · exact hf
        · exact hrest w' h'

/-- **soundness of `direct` for the model of the code itself**: if the lock-step walk over the two normalised DAGs reports
    equal, the circuits have the same register counts and the same executed operations on every quantum register -/
theorem direct_graph_sound (c1 c2 : Circuit) (h1 : ∀ o ∈ c1.ops, OpOK (wiresN c1.ne c1.np c1.nc) o)
    (h2 : ∀ o ∈ c2.ops, OpOK (wiresN c2.ne c2.np c2.nc) o) (h : direct c1 c2 = .ok true) : wiresEq c1 c2 = true := by
  obtain ⟨g1, hb1, i1, a1, a2, a3⟩ := build_rep c1 h1
  obtain ⟨g2, hb2, i2, b1, b2, b3⟩ := build_rep c2 h2
  obtain ⟨B1, r1, hops1, _⟩ := normalise_graphInv _ g1 c1.ops i1
  obtain ⟨B2, r2, hops2, _⟩ := normalise_graphInv _ g2 c2.ops i2
  unfold direct at h
  rw [hb1, hb2] at h
  simp only [bind, Except.bind, pure, Except.pure] at h
  split at h
  · rename_i hcond
    simp only [Bool.and_eq_true, beq_iff_eq] at hcond
    obtain ⟨⟨⟨e1, e2⟩, e3⟩, _⟩ := hcond
    -- the counters of the normalised graphs are the circuits' register counts
    have hcnt : ∀ g : MG, g.normalise.ne = g.ne ∧ g.normalise.np = g.np ∧ g.normalise.nc = g.nc := by
      intro g
      exact normalise_counts g
    rw [(hcnt g1).1, (hcnt g2).1, a1, b1] at e1
    rw [(hcnt g1).2.1, (hcnt g2).2.1, a2, b2] at e2
    rw [(hcnt g1).2.2, (hcnt g2).2.2, a3, b3] at e3
    have hW : wiresN c2.ne c2.np c2.nc = wiresN c1.ne c1.np c1.nc := by rw [e1, e2, e3]
    rw [hW] at r2 hops2
    obtain ⟨_, hall⟩ := foldlM_all_true _
      (fun w => directWalk g1.normalise g2.normalise w (g1.normalise.nodes.length + 1) (.inp w) (.inp w))
      (fun w => rfl) (fun w => rfl) _ true h
    unfold wiresEq
    simp only [Bool.and_eq_true, beq_iff_eq, List.all_eq_true, e1, e2, e3, true_and]
    intro q hq
    -- the register of `q`
    have hwq : Wire.ofQ q ∈ wiresN c1.ne c1.np c1.nc := by
      apply (mem_wiresN _ _ _ _).2
      rw [mem_qregsOf] at hq
      cases q with | mk t i => cases t <;> exact hq
    have hin : Wire.ofQ q ∈ g1.normalise.inputs :=
      (mem_inputs _ _).2 (opOf_some_mem _ _ _ (r1.inpOp _ hwq))
    have hwalk := hall _ hin
    have hlen : (B1 (Wire.ofQ q) ++ [Nd.out (Wire.ofQ q)]).length ≤ g1.normalise.nodes.length + 1 := by
      have := r1.path_length_le _ hwq
      unfold pathOf at this
      simp only [List.length_cons] at this
      omega
    have hm0 : NodeMatch g1.normalise g2.normalise (.inp (Wire.ofQ q)) (.inp (Wire.ofQ q)) := by
      refine ⟨_, _, r1.inpOp _ hwq, r2.inpOp _ hwq, ?_⟩
      cases q with | mk t i => cases t <;> simp [directMatch, isInstance, nopQRegs, Wire.ofQ, RT.ofRegT]
    have hF := directWalk_true _ _ _ _ B1 B2 r1 r2 _ hwq hwq _ _ [] _ [] _ _ rfl rfl hlen hm0 hwalk
    have hnw : ∀ a ∈ (B1 (Wire.ofQ q) ++ [Nd.out (Wire.ofQ q)]).filterMap (gateAt g1.normalise), ∀ gs q', a ≠ .wrap gs q' := by
      intro a ha
      have : a ∈ wireOps g1.normalise B1 (Wire.ofQ q) := by
        unfold wireOps
        rw [List.filterMap_append] at ha
        rcases List.mem_append.1 ha with h' | h'
        · exact h'
        · exfalso
          have hg : gateAt g1.normalise (Nd.out (Wire.ofQ q)) = none := by unfold gateAt; rw [r1.outOp _ hwq]
          simp [hg] at h'
      rw [hops1 _ hwq] at this
      exact flat_no_wrap c1.ops a (List.mem_filter.1 this).1
    have hD := forall2_dropC _ _ _ _ hF hnw
    have hg1 : gateAt g1.normalise (Nd.out (Wire.ofQ q)) = none := by unfold gateAt; rw [r1.outOp _ hwq]
    have hg2 : gateAt g2.normalise (Nd.out (Wire.ofQ q)) = none := by unfold gateAt; rw [r2.outOp _ hwq]
    simp only [List.filterMap_append, List.filterMap_cons, List.filterMap_nil, hg1, hg2, List.append_nil] at hD
    have hw1 : wireOps g1.normalise B1 (Wire.ofQ q) = (Export.flat c1.ops).filter (touches (Wire.ofQ q)) := hops1 _ hwq
    have hw2 : wireOps g2.normalise B2 (Wire.ofQ q) = (Export.flat c2.ops).filter (touches (Wire.ofQ q)) := hops2 _ hwq
    unfold wireOps at hw1 hw2
    rw [hw1, hw2] at hD
    unfold wireOf
    have hf : ∀ ops : List Op, ops.filter (touches (Wire.ofQ q)) = ops.filter (fun o => o.qRegs.contains q) := by
      intro ops; congr 1; funext o; exact touches_ofQ q o
    rw [hf, hf] at hD
    exact hD
  · injection h with h; cases h

/-! ## `direct` equals its operation-list form -/

/-- the boolean the lock-step walk computes on the remaining parts of two register paths -/
def walkB (g1 g2 : MG) : List Nd → List Nd → Bool
  | [], _ => true
  | a :: as, b :: bs =>
    (match g1.opOf a, g2.opOf b with
      | some o1, some o2 => directMatch o1 o2
      | _, _ => false) && walkB g1 g2 as bs
  | _ :: _, [] => false

theorem Rep0.path_opOf_some {g : MG} {W : List Wire} {body : Wire → List Nd} (r : Rep0 g W body) (w : Wire) (hw : w ∈ W)
    (n : Nd) (hn : n ∈ pathOf body w) : ∃ o, g.opOf n = some o := by
  rcases (mem_pathOf body w n).1 hn with rfl | h | rfl
  · exact ⟨_, r.inpOp w hw⟩
  · obtain ⟨_, o, _, ho, _⟩ := r.bodyOp w hw n h
    exact ⟨_, ho⟩
  · exact ⟨_, r.outOp w hw⟩

/-- **the lock-step walk never raises on circuit DAGs and computes `walkB`** -/
theorem directWalk_eq (g1 g2 : MG) (W1 W2 : List Wire) (B1 B2 : Wire → List Nd) (r1 : Rep0 g1 W1 B1) (r2 : Rep0 g2 W2 B2)
    (w : Wire) (hw1 : w ∈ W1) (hw2 : w ∈ W2) :
    ∀ (fuel : Nat) (rest1 pre1 : List Nd) (n1 : Nd) (pre2 : List Nd) (n2 : Nd) (rest2 : List Nd),
      pathOf B1 w = pre1 ++ n1 :: rest1 → pathOf B2 w = pre2 ++ n2 :: rest2 → rest1.length ≤ fuel →
      NodeMatch g1 g2 n1 n2 → directWalk g1 g2 w fuel n1 n2 = .ok (walkB g1 g2 rest1 rest2) := by
  intro fuel
  induction fuel with
  | zero =>
    intro rest1 pre1 n1 pre2 n2 rest2 _ _ hlen _
    have : rest1 = [] := List.length_eq_zero_iff.1 (Nat.le_zero.1 hlen)
    subst this
    rfl
  | succ k ih =>
    intro rest1 pre1 n1 pre2 n2 rest2 h1 h2 hlen hm
    cases rest1 with
    | nil =>
      have hn1 : n1 = .out w := by
        have hlast : (pathOf B1 w).getLast? = some (Nd.out w) := by
          unfold pathOf
          rw [← List.cons_append, List.getLast?_append]
          simp
        rw [h1] at hlast
        simpa using hlast
      rw [directWalk, hn1]
      simp [walkB]
    | cons v1 rest1' =>
      have hadj : Adj (pathOf B1 w) n1 v1 := ⟨pre1, rest1', h1⟩
      have hn1ne : n1 ≠ .out w := by
        intro hh
        rw [hh] at h1
        have := path_last_unique r1 w hw1 pre1 (v1 :: rest1') h1
        cases this
      have hn1 : (n1 == Nd.out w) = false := by simpa using hn1ne
      obtain ⟨e0, he0, hs0, hd0, hk0⟩ := r1.edge_complete w hw1 n1 v1 hadj
      obtain ⟨e1, hf1⟩ : ∃ e1, g1.outEdge n1 w = some e1 := by
        have := outEdge_isSome_of_mem g1 e0 he0
        rwa [hs0, hk0] at this
      obtain ⟨he1, hs1, hk1⟩ := outEdge_some g1 n1 w e1 hf1
      have hd1 : e1.dst = v1 := by
        rw [← hd0]
        exact r1.uniqueOut e1 e0 he1 he0 (hs1.trans hs0.symm) (hk1.trans hk0.symm)
      -- the second path goes on as well: otherwise `n2` is an output node matched with a non-output node
      cases rest2 with
      | nil =>
        exfalso
        have hn2 : n2 = .out w := by
          have hlast : (pathOf B2 w).getLast? = some (Nd.out w) := by
            unfold pathOf
            rw [← List.cons_append, List.getLast?_append]
            simp
          rw [h2] at hlast
          simpa using hlast
        obtain ⟨o1, o2, ho1, ho2, hd⟩ := hm
        rw [hn2, r2.outOp w hw2] at ho2
        injection ho2 with ho2
        subst ho2
        have : ∃ w', o1 = .output w' := by
          cases o1 with
          | output w' => exact ⟨w', rfl⟩
          | input _ => simp [directMatch, isInstance] at hd
          | gate _ => simp [directMatch, isInstance] at hd
        obtain ⟨w', rfl⟩ := this
        obtain ⟨hn1', _⟩ := r1.kindOut _ _ ho1
        have hmem : n1 ∈ pathOf B1 w := by rw [h1]; simp
        rw [hn1'] at hmem
        have := r1.out_on_path w w' hw1 hmem
        subst this
        exact hn1ne hn1'
      | cons v2 rest2' =>
        have hadj2 : Adj (pathOf B2 w) n2 v2 := ⟨pre2, rest2', h2⟩
        obtain ⟨f0, hf0, hs0', hd0', hk0'⟩ := r2.edge_complete w hw2 n2 v2 hadj2
        obtain ⟨e2, hf2⟩ : ∃ e2, g2.outEdge n2 w = some e2 := by
          have := outEdge_isSome_of_mem g2 f0 hf0
          rwa [hs0', hk0'] at this
        obtain ⟨he2, hs2, hk2⟩ := outEdge_some g2 n2 w e2 hf2
        have hd2 : e2.dst = v2 := by
          rw [← hd0']
          exact r2.uniqueOut e2 f0 he2 hf0 (hs2.trans hs0'.symm) (hk2.trans hk0'.symm)
        obtain ⟨o1, ho1⟩ := r1.path_opOf_some w hw1 v1 (adj_mem_right hadj)
        obtain ⟨o2, ho2⟩ := r2.path_opOf_some w hw2 v2 (adj_mem_right hadj2)
        rw [directWalk]
        simp only [hn1, Bool.false_eq_true, if_false, hf1, hf2, hd1, hd2, ho1, ho2, walkB]
        cases hdm : directMatch o1 o2 with
        | false => simp
        | true =>
          simp only [if_true, Bool.true_and]
          have h1' : pathOf B1 w = (pre1 ++ [n1]) ++ v1 :: rest1' := by rw [h1]; simp
          have h2' : pathOf B2 w = (pre2 ++ [n2]) ++ v2 :: rest2' := by rw [h2]; simp
          exact ih rest1' _ v1 _ v2 rest2' h1' h2' (by simpa using hlen) ⟨o1, o2, ho1, ho2, hdm⟩

theorem directMatch_output (w : Wire) : directMatch (.output w) (.output w) = true := by
  simp [directMatch, isInstance]

theorem directMatch_input (w : Wire) : directMatch (.input w) (.input w) = true := by
  simp [directMatch, isInstance]

/-- on two register paths (operation nodes, then the output node) `walkB` is the operation-list walk `walkL` -/
theorem walkB_eq_walkL (g1 g2 : MG) (w : Wire) (ho1 : g1.opOf (.out w) = some (.output w)) (ho2 : g2.opOf (.out w) = some (.output w)) :
    ∀ (b1 b2 : List Nd), (∀ n ∈ b1, ∃ o, g1.opOf n = some (.gate o)) → (∀ n ∈ b2, ∃ o, g2.opOf n = some (.gate o)) →
      walkB g1 g2 (b1 ++ [Nd.out w]) (b2 ++ [Nd.out w]) = walkL (b1.filterMap (gateAt g1)) (b2.filterMap (gateAt g2)) := by
  intro b1
  induction b1 with
  | nil =>
    intro b2 _ h2
    cases b2 with
    | nil => simp [walkB, walkL, ho1, ho2, directMatch_output]
    | cons b b2' =>
      obtain ⟨o, ho⟩ := h2 b (by simp)
      have hg : gateAt g2 b = some o := by unfold gateAt; rw [ho]
      simp [walkB, walkL, ho1, ho, hg, directMatch, isInstance]
  | cons a b1' ih =>
    intro b2 h1 h2
    obtain ⟨oa, hoa⟩ := h1 a (by simp)
    have hga : gateAt g1 a = some oa := by unfold gateAt; rw [hoa]
    cases b2 with
    | nil => simp [walkB, walkL, hoa, ho2, hga, directMatch, isInstance]
    | cons b b2' =>
      obtain ⟨ob, hob⟩ := h2 b (by simp)
      have hgb : gateAt g2 b = some ob := by unfold gateAt; rw [hob]
      simp only [List.cons_append, walkB, hoa, hob, List.filterMap_cons, hga, hgb, walkL, directMatch_gate]
      rw [ih b2' (fun n hn => h1 n (List.mem_cons_of_mem _ hn)) (fun n hn => h2 n (List.mem_cons_of_mem _ hn))]

theorem foldlM_eq_all (step : Bool → Wire → Except Err Bool) (b : Wire → Bool)
    (hs1 : ∀ w, step false w = .ok false) :
    ∀ (ws : List Wire) (acc : Bool), (∀ w ∈ ws, step true w = .ok (b w)) → ws.foldlM step acc = .ok (acc && ws.all b) := by
  intro ws
  induction ws with
  | nil => intro acc _; simp [pure, Except.pure]
  | cons w rest ih =>
    intro acc h
    rw [List.foldlM_cons]
    cases acc with
    | false =>
      rw [hs1]
      show rest.foldlM step false = _
      rw [ih false (fun w' hw' => h w' (List.mem_cons_of_mem _ hw'))]
      simp
    | true =>
      rw [h w (by simp)]
      show rest.foldlM step (b w) = _
      rw [ih (b w) (fun w' hw' => h w' (List.mem_cons_of_mem _ hw'))]
      simp

theorem all_congr_mem {α : Type} (l1 l2 : List α) (p : α → Bool) (h : ∀ x, x ∈ l1 ↔ x ∈ l2) : l1.all p = l2.all p := by
  apply Bool.eq_iff_iff.2
  simp only [List.all_eq_true]
  constructor
  · intro h' x hx; exact h' x ((h x).2 hx)
  · intro h' x hx; exact h' x ((h x).1 hx)

/-- **the model of `direct` (walk over the two normalised DAGs) never raises on well-formed circuits and returns exactly its
    operation-list form `directL`** — so every theorem about `directL` (soundness, reflexivity, symmetry, insensitivity to
    wrapping and identities) is a theorem about the walk -/
theorem direct_eq_directL (c1 c2 : Circuit) (h1 : ∀ o ∈ c1.ops, OpOK (wiresN c1.ne c1.np c1.nc) o)
    (h2 : ∀ o ∈ c2.ops, OpOK (wiresN c2.ne c2.np c2.nc) o) : direct c1 c2 = .ok (directL c1 c2) := by
  obtain ⟨g1, hb1, i1, a1, a2, a3⟩ := build_rep c1 h1
  obtain ⟨g2, hb2, i2, b1, b2, b3⟩ := build_rep c2 h2
  obtain ⟨⟨B1, r1, hops1, _⟩, hcount1⟩ := normalise_full _ g1 c1.ops i1
  obtain ⟨⟨B2, r2, hops2, _⟩, hcount2⟩ := normalise_full _ g2 c2.ops i2
  have hc1 := normalise_counts g1
  have hc2 := normalise_counts g2
  unfold direct
  rw [hb1, hb2]
  simp only [bind, Except.bind, pure, Except.pure]
  rw [hc1.1, hc1.2.1, hc1.2.2, hc2.1, hc2.2.1, hc2.2.2, a1, a2, a3, b1, b2, b3]
  by_cases hreg : c1.ne = c2.ne ∧ c1.np = c2.np ∧ c1.nc = c2.nc
  · obtain ⟨e1, e2, e3⟩ := hreg
    have hW : wiresN c2.ne c2.np c2.nc = wiresN c1.ne c1.np c1.nc := by rw [e1, e2, e3]
    rw [hW] at r2 hops2 hcount2
    by_cases hlen : (Export.flat c1.ops).length = (Export.flat c2.ops).length
    · have hnodes : g1.normalise.nodes.length = g2.normalise.nodes.length := by rw [hcount1, hcount2, hlen]
      have hcond : ((c1.ne == c2.ne && c1.np == c2.np && c1.nc == c2.nc) &&
          (g1.normalise.nodes.length == g2.normalise.nodes.length)) = true := by simp [e1, e2, e3, hnodes]
      rw [if_pos hcond]
      -- every walk computes the operation-list walk of its register
      have hwalk : ∀ w ∈ g1.normalise.inputs,
          directWalk g1.normalise g2.normalise w (g1.normalise.nodes.length + 1) (.inp w) (.inp w)
            = .ok (walkL ((Export.flat c1.ops).filter (touches w)) ((Export.flat c2.ops).filter (touches w))) := by
        intro w hwin
        have hw : w ∈ wiresN c1.ne c1.np c1.nc := r1.inputsW w ((mem_inputs _ _).1 hwin)
        have hfuel : (B1 w ++ [Nd.out w]).length ≤ g1.normalise.nodes.length + 1 := by
          have := r1.path_length_le w hw
          unfold pathOf at this
          simp only [List.length_cons] at this
          omega
        have hm0 : NodeMatch g1.normalise g2.normalise (.inp w) (.inp w) :=
          ⟨_, _, r1.inpOp w hw, r2.inpOp w hw, directMatch_input w⟩
        rw [directWalk_eq _ _ _ _ B1 B2 r1 r2 w hw hw _ _ [] _ [] _ _ rfl rfl hfuel hm0,
          walkB_eq_walkL _ _ w (r1.outOp w hw) (r2.outOp w hw) (B1 w) (B2 w)
            (fun n hn => by obtain ⟨_, o, _, ho, _⟩ := r1.bodyOp w hw n hn; exact ⟨o, ho⟩)
            (fun n hn => by obtain ⟨_, o, _, ho, _⟩ := r2.bodyOp w hw n hn; exact ⟨o, ho⟩)]
        have e1' := hops1 w hw
        have e2' := hops2 w hw
        unfold wireOps at e1' e2'
        rw [e1', e2']
      rw [foldlM_eq_all _ (fun w => walkL ((Export.flat c1.ops).filter (touches w)) ((Export.flat c2.ops).filter (touches w)))
        (fun w => rfl) g1.normalise.inputs true (fun w hw => hwalk w hw)]
      congr 1
      unfold directL
      simp only [e1, e2, e3, hlen, beq_self_eq_true, Bool.true_and]
      apply all_congr_mem
      intro w
      rw [mem_inputs]
      constructor
      · intro hm; exact r1.inputsW w hm
      · intro hm; exact opOf_some_mem _ _ _ (r1.inpOp w hm)
    · have hnodes : g1.normalise.nodes.length ≠ g2.normalise.nodes.length := by
        rw [hcount1, hcount2]; omega
      have hcond : ¬ ((c1.ne == c2.ne && c1.np == c2.np && c1.nc == c2.nc) &&
          (g1.normalise.nodes.length == g2.normalise.nodes.length)) = true := by simp [hnodes]
      rw [if_neg hcond]
      congr 1
      unfold directL
      simp [hlen]
  · have hcond : ¬ ((c1.ne == c2.ne && c1.np == c2.np && c1.nc == c2.nc) &&
        (g1.normalise.nodes.length == g2.normalise.nodes.length)) = true := by
      intro hh
      simp only [Bool.and_eq_true, beq_iff_eq] at hh
      exact hreg ⟨hh.1.1.1, hh.1.1.2, hh.1.2⟩
    rw [if_neg hcond]
    congr 1
    unfold directL
    symm
    apply Bool.eq_false_iff.2
    intro hh
    simp only [Bool.and_eq_true, beq_iff_eq] at hh
    exact hreg ⟨hh.1.1.1.1, hh.1.1.1.2, hh.1.1.2⟩

end Graphiq.Compare
