/-
  Proofs/LCTableaux3.lean — the modelled `lc_check` on stabilizer states (`lcCheckStates`, `lcCheckStateGraph`, built on the
  function-level `converter_gate_list`) is sound and total.
-/
import GraphiqModel.Proofs.LCPhase
namespace Graphiq.LC
open Graphiq PRow Tab Graphiq.TabSpec

/-- **the model of `lc_check` on two stabilizer tableaux is sound**: whenever it returns `(True, total)` — with or without its
    own validation — running `total` on the first state gives exactly the second state -/
theorem lcCheckStates_sound (t1 t2 : STab) (hreal1 : ∀ i, i < t1.n → (t1.row i).ip = false)
    (hreal2 : ∀ i, i < t2.n → (t2.row i).ip = false) (hn : t1.n = t2.n) (validate : Bool) (total : List Gate)
    (h : lcCheckStates t1 t2 validate = .ok (true, total)) : STab.SpanEq (t1.runCircuit total) t2 := by
  unfold lcCheckStates at h
  split at h
  · cases h
  · rename_i g1 G1 e1
    split at h
    · cases h
    · rename_i g2 G2 e2
      split at h
      · cases h
      · rename_i L ec
        have hr1 := stateToGraphWith_r _ t1 g1 G1 e1
        have hr2 := stateToGraphWith_r _ t2 g2 G2 e2
        obtain ⟨_, _, sym1, irr1⟩ := stateToGraphWith_sound S2G.gf2InvF t1 hreal1 g1 G1 e1
        obtain ⟨_, _, sym2, irr2⟩ := stateToGraphWith_sound S2G.gf2InvF t2 hreal2 g2 G2 e2
        have hL : lcCheckR g1 g2 false = .ok (true, L) := by
          rw [← lcCheckF_eq g1 g2 false (by rw [hr1, hr2, hn]) (by rw [hr1]; exact ⟨sym1, irr1⟩) (by rw [hr2]; exact ⟨sym2, irr2⟩)]
          unfold lcCheckF
          rw [ec]
          rfl
        have key := lc_check_tableaux t1 t2 hreal1 hreal2 hn g1 g2 G1 G2 e1 e2 false L hL
        simp only [] at h
        have htot : total = G1 ++ L.map toGate ++ revCirc G2 := by
          split at h
          · split at h
            · cases h
            · have := Except.ok.inj h
              exact ((Prod.mk.inj this).2).symm
            · cases h
          · have := Except.ok.inj h
            exact ((Prod.mk.inj this).2).symm
        rw [htot]
        exact key

/-- **`lc_check` on two stabilizer states is total and right**: for two stabilizer states (commuting, real, independent
    generators) on the same `n ≥ 1` qubits, the modelled `lc_check` — `state_to_graph` twice, `converter_gate_list`, the total
    gate list, and (if asked) the validation by canonical forms — returns `(False, [])` or `(True, total)`; no assertion, no
    warning; and in the second case `total` maps the first state exactly onto the second -/
theorem lcCheckStates_total (t1 t2 : STab) (hn1 : 0 < t1.n) (hn : t1.n = t2.n) (g1 : t1.Good) (i1 : t1.Indep)
    (g2 : t2.Good) (i2 : t2.Indep) (validate : Bool) :
    lcCheckStates t1 t2 validate = .ok (false, []) ∨
      ∃ total, lcCheckStates t1 t2 validate = .ok (true, total) ∧ STab.SpanEq (t1.runCircuit total) t2 := by
  obtain ⟨a1, G1, e1⟩ := stateToGraph_complete t1 hn1 g1 i1
  obtain ⟨a2, G2, e2⟩ := stateToGraph_complete t2 (by omega) g2 i2
  have hr1 := stateToGraphWith_r _ t1 a1 G1 e1
  have hr2 := stateToGraphWith_r _ t2 a2 G2 e2
  obtain ⟨wf1, _, sym1, irr1⟩ := stateToGraphWith_sound S2G.gf2InvF t1 g1.real a1 G1 e1
  obtain ⟨wf2, _, sym2, irr2⟩ := stateToGraphWith_sound S2G.gf2InvF t2 g2.real a2 G2 e2
  unfold lcCheckStates
  rw [e1]
  simp only []
  rw [e2]
  simp only []
  cases hc : converterGateListF a1 a2 with
  | error e => exact Or.inl rfl
  | ok L =>
    right
    have hL : lcCheckR a1 a2 false = .ok (true, L) := by
      rw [← lcCheckF_eq a1 a2 false (by rw [hr1, hr2, hn]) (by rw [hr1]; exact ⟨sym1, irr1⟩) (by rw [hr2]; exact ⟨sym2, irr2⟩)]
      unfold lcCheckF
      rw [hc]
      rfl
    have key := lc_check_tableaux t1 t2 g1.real g2.real hn a1 a2 G1 G2 e1 e2 false L hL
    have himg := lc_gates_image a1 a2 (by rw [hr1, hr2, hn]) (by rw [hr1]; exact ⟨sym1, irr1⟩)
      (by rw [hr2]; exact ⟨sym2, irr2⟩) false L hL
    have hwf : ∀ g, g ∈ G1 ++ L.map toGate ++ revCirc G2 → g.WF t1.n := by
      intro g hg
      rcases List.mem_append.mp hg with h | h
      · rcases List.mem_append.mp h with h | h
        · exact wf1 g h
        · have := himg.wf g h
          rw [hr1] at this; exact this
      · have := revCirc_wf t2.n G2 wf2 g h
        rw [← hn] at this; exact this
    refine ⟨G1 ++ L.map toGate ++ revCirc G2, ?_, key⟩
    simp only []
    cases validate
    · rfl
    · have hgood := (tracks_runCircuit t1 g1 _ hwf).good
      have hind := indep_runCircuit t1 i1 _ hwf
      have hsame := sameStabilizerState_of_spanEq _ t2 hgood g2 hind i2 key
      have hsame' : S2G.sameStabilizerState (t1.runCircuit (G1 ++ L.map toGate ++ G2.reverse.map Gate.rev)) t2 = .ok true :=
        hsame
      rw [if_pos rfl, hsame']
      rfl

/-- the same when the second argument of `lc_check` is a graph: total and right -/
theorem lcCheckStateGraph_total (t1 : STab) (g2 : BMat) (hn1 : 0 < t1.n) (hr : g2.r = t1.n) (hs2 : Simple g2.r g2.f)
    (g1 : t1.Good) (i1 : t1.Indep) (validate : Bool) :
    lcCheckStateGraph t1 g2 validate = .ok (false, []) ∨
      ∃ total, lcCheckStateGraph t1 g2 validate = .ok (true, total) ∧
        STab.SpanEq (t1.runCircuit total) (graphSTab g2.r g2.f) := by
  obtain ⟨a1, G1, e1⟩ := stateToGraph_complete t1 hn1 g1 i1
  have hr1 := stateToGraphWith_r _ t1 a1 G1 e1
  obtain ⟨wf1, s1, sym1, irr1⟩ := stateToGraphWith_sound S2G.gf2InvF t1 g1.real a1 G1 e1
  unfold lcCheckStateGraph
  rw [e1]
  simp only []
  cases hc : converterGateListF a1 g2 with
  | error e => exact Or.inl rfl
  | ok L =>
    right
    have hL : lcCheckR a1 g2 false = .ok (true, L) := by
      rw [← lcCheckF_eq a1 g2 false (by rw [hr1, hr]) (by rw [hr1]; exact ⟨sym1, irr1⟩) hs2]
      unfold lcCheckF
      rw [hc]
      rfl
    have himg := lc_gates_image a1 g2 (by rw [hr1, hr]) (by rw [hr1]; exact ⟨sym1, irr1⟩) hs2 false L hL
    rw [hr1] at himg
    have i1' : CircImage t1.n G1 t1 (graphSTab t1.n a1.f) :=
      (circImage_runCircuit t1 G1 wf1).congr (STab.SpanEq.refl t1) s1
    have itot := circImage_comp i1' himg
    have key : STab.SpanEq (t1.runCircuit (G1 ++ L.map toGate)) (graphSTab g2.r g2.f) := by
      rw [hr]
      exact circImage_unique (circImage_runCircuit t1 _ itot.wf) itot
    refine ⟨G1 ++ L.map toGate, ?_, key⟩
    simp only []
    cases validate
    · rfl
    · have hgood := (tracks_runCircuit t1 g1 _ itot.wf).good
      have hind := indep_runCircuit t1 i1 _ itot.wf
      have hgG := graphSTab_good g2.r g2.f hs2.1
      have hiG := STab.graphSTab_indep g2.r g2.f
      have hsame := sameStabilizerState_of_spanEq _ _ hgood hgG hind hiG key
      rw [if_pos rfl, hsame]

end Graphiq.LC
