/-
  Proofs/InnerProduct.lean — `inner_product` (metric.py) computes the stabilizer overlap, at the level of signed groups,
  *provided the synthesis `inverse_circuit` of its first argument reached |0…0⟩* (hypothesis `s1.isZero`; without it the
  claim is false on the current code: C11 `synthesis_incomplete`, finding D42).

  Route: the gate list `circ` found for the first state maps its group onto that of |0…0⟩ (tracking invariant) and the
  group of the second state onto that of the tableau `s2` the code brings to canonical form; `Orth` and `OverlapDim` are
  invariant under this (Proofs/InnerProductCirc.lean); for |0…0⟩ against a `Canon` tableau both are read off the rows
  (Proofs/InnerProductCanon.lean); and under the hypothesis the scratch row the code accumulates from the rows of `s1` is
  the `+Z`-string of the row under test, so the loop is exactly that read-off.  All sizes.  No Mathlib.
-/
import GraphiqModel.Proofs.InnerProductCirc
import GraphiqModel.Proofs.InnerProductCanon
namespace Graphiq
open PRow Tab
namespace STab

theorem eqOn_beqOn (n : Nat) (a b : PRow) (h : EqOn n a b) : PRow.beqOn n a b = true := by
  unfold PRow.beqOn
  simp only [Bool.and_eq_true, List.all_eq_true, List.mem_range, beq_iff_eq]
  exact ⟨⟨fun j hj => h.1 j hj, h.2.1⟩, h.2.2⟩

/-- the loop body of `inner_product` (the `fun acc i => …` of `STab.innerProduct`, verbatim) -/
def ipStep (n : Nat) (s1 s2 : STab) (acc : Option Nat) (i : Nat) : Option Nat :=
  match acc with
  | none => none
  | some counter =>
    if (List.range n).any fun j => (s2.row i).x j then some (counter + 1)
    else
      let zl := (List.range n).filter fun j => (s2.row i).z j && !(s2.row i).x j
      let scratch := zl.foldl (fun sc idx => PRow.mul n (s1.row idx) sc) PRow.one
      if PRow.beqOn n { scratch with r := false, ip := false } { (s2.row i) with r := false, ip := false }
          && scratch.r != (s2.row i).r then none
      else some counter

/-- what a normal return of `innerProduct` means -/
theorem innerProduct_inv (a b : Tab) (r : Option Nat) (h : STab.innerProduct a b = .ok r) :
    a.n = b.n ∧ ∃ s1 circ s2, (STab.ofTab a).inverseCircuit = .ok (s1, circ) ∧
      (STab.ofTab (b.runCircuit circ)).canonicalForm = .ok s2 ∧
      r = (List.range a.n).foldl (ipStep a.n s1 s2) (some 0) := by
  unfold STab.innerProduct at h
  split at h
  · cases h
  · next hn =>
    have hn : a.n = b.n := Classical.byContradiction hn
    refine ⟨hn, ?_⟩
    simp only at h
    split at h
    · cases h
    · next s1 circ h1 =>
      split at h
      · cases h
      · next s2 h2 =>
        injection h with h
        exact ⟨s1, circ, s2, h1, h2, h.symm⟩

/-- conversely: the value of `innerProduct` once the two inner calls returned -/
theorem innerProduct_eq (a b : Tab) (s1 s2 : STab) (circ : List Gate) (hn : a.n = b.n)
    (h1 : (STab.ofTab a).inverseCircuit = .ok (s1, circ))
    (h2 : (STab.ofTab (b.runCircuit circ)).canonicalForm = .ok s2) :
    STab.innerProduct a b = .ok ((List.range a.n).foldl (ipStep a.n s1 s2) (some 0)) := by
  unfold STab.innerProduct
  rw [if_neg (by intro hc; exact hc hn)]
  simp only [h1, h2]
  rfl

/-- under "`s1` is the tableau of |0…0⟩" the scratch row is the `+Z`-string of the row under test, so the body only
    looks at the row's sign -/
theorem ipStep_eval (n : Nat) (s1 s2 : STab) (hz : ∀ idx, idx < n → EqOn n (s1.row idx) (PRow.Zq idx))
    (acc : Option Nat) (i : Nat) :
    ipStep n s1 s2 acc i
      = ipSimple (fun i => (List.range n).any fun j => (s2.row i).x j) (fun i => (s2.row i).r) acc i := by
  unfold ipStep ipSimple
  cases acc with
  | none => rfl
  | some counter =>
    simp only
    by_cases hX : ((List.range n).any fun j => (s2.row i).x j) = true
    · rw [if_pos hX, if_pos hX]
    · rw [if_neg hX, if_neg hX]
      have xf : XFree n (s2.row i) := by
        intro j hj
        cases hb : (s2.row i).x j
        · rfl
        · exfalso; apply hX
          simp only [List.any_eq_true, List.mem_range]
          exact ⟨j, hj, hb⟩
      rw [sprod_foldl n s1.row (fun j => (s2.row i).z j && !(s2.row i).x j) n]
      have e1 : EqOn n (sprod n s1.row (fun j => (s2.row i).z j && !(s2.row i).x j) n)
          (zstr n (fun j => (s2.row i).z j && !(s2.row i).x j)) :=
        sprod_eqOn_rows n s1.row (STab.zero n).row _ n hz
      obtain ⟨b1, _, b3, b4⟩ := zstr_bits n (fun j => (s2.row i).z j && !(s2.row i).x j)
      generalize sprod n s1.row (fun j => (s2.row i).z j && !(s2.row i).x j) n = scratch at e1
      have hr : scratch.r = false := by rw [e1.2.1]; exact b3
      have hbeq : PRow.beqOn n { scratch with r := false, ip := false } { (s2.row i) with r := false, ip := false } = true := by
        apply eqOn_beqOn
        refine ⟨fun j hj => ⟨?_, ?_⟩, rfl, rfl⟩
        · show scratch.x j = (s2.row i).x j
          rw [(e1.1 j hj).1, b1 j hj, xf j hj]
        · show scratch.z j = (s2.row i).z j
          rw [(e1.1 j hj).2, b4 j hj, xf j hj]; simp
      rw [hbeq, hr]
      have eb : ∀ x : Bool, (true && (false != x)) = x := by intro x; cases x <;> rfl
      rw [eb]

/-- the gate-list action preserves commutation -/
theorem actCirc_sp (n : Nat) (c : List Gate) (hc : ∀ g, g ∈ c → g.WF n) (x y : PRow) :
    sp n (actCirc c x) (actCirc c y) = sp n x y := by
  induction c generalizing x y with
  | nil => rfl
  | cons g rest ih =>
    show sp n (actCirc rest (g.act x)) (actCirc rest (g.act y)) = _
    rw [ih (fun g' hg' => hc g' (List.mem_cons_of_mem _ hg')), (g.isAut n (hc g List.mem_cons_self)).sp]

/-- the stabilizer half of `run_circuit(b, circ)`: its group is the image of the group of `b`, and it is again a real
    commuting generating set -/
theorem ofTab_runCircuit_image (n : Nat) (circ : List Gate) (wf : ∀ g, g ∈ circ → g.WF n) (b : Tab) (hn : b.n = n)
    (gb : (STab.ofTab b).Good) :
    CircImage n circ (STab.ofTab b) (STab.ofTab (b.runCircuit circ)) ∧ (STab.ofTab (b.runCircuit circ)).Good := by
  have nB : (STab.ofTab b).n = n := hn
  have nB' : (STab.ofTab (b.runCircuit circ)).n = n := (Tab.runCircuit_rows n circ wf b hn).1
  refine ⟨circImage_of_rows n circ wf _ _ nB nB' (fun i hi => ofTab_runCircuit_row n circ wf b hn i hi), ?_⟩
  constructor
  · intro i _; rfl
  · intro i k hi hk
    rw [nB'] at hi hk ⊢
    rw [sp_eqOn _ _ _ _ _ (ofTab_runCircuit_row n circ wf b hn i hi) (ofTab_runCircuit_row n circ wf b hn k hk),
      actCirc_sp n circ wf]
    have := gb.comm i k (by rw [nB]; exact hi) (by rw [nB]; exact hk)
    rw [nB] at this; exact this

/-- the facts behind every theorem on `inner_product`: the canonical form `s2` the code inspects, its `Canon` data, the
    two group images, and the value of the loop -/
theorem innerProduct_analysis (a b : Tab) (s1 : STab) (circ : List Gate) (r : Option Nat)
    (ga : (STab.ofTab a).Good) (gb : (STab.ofTab b).Good)
    (hs : (STab.ofTab a).inverseCircuit = .ok (s1, circ)) (hzero : s1.isZero = true)
    (h : STab.innerProduct a b = .ok r) :
    ∃ (s2 : STab) (k : Nat) (px pz : Nat → Nat),
      (STab.ofTab (b.runCircuit circ)).canonicalForm = .ok s2 ∧ s2.n = a.n ∧ a.n = b.n ∧ s2.Good ∧
      PInv s2.n (xb s2) px 0 k s2.n ∧ PInv s2.n (zb s2) pz k s2.n s2.n ∧
      CircImage a.n circ (STab.ofTab a) (STab.zero s2.n) ∧ CircImage a.n circ (STab.ofTab b) s2 ∧
      r = (List.range s2.n).foldl (ipSimple (fun i => decide (i < k)) (fun i => (s2.row i).r)) (some 0) := by
  obtain ⟨hn, s1', circ', s2, h1, h2, hr⟩ := innerProduct_inv a b r h
  rw [hs] at h1
  injection h1 with h1
  have e1 : s1 = s1' := congrArg Prod.fst h1
  have e2 : circ = circ' := congrArg Prod.snd h1
  subst e1; subst e2
  -- the first state
  obtain ⟨n1, g1, wf, fwd, bwd⟩ := inverseCircuit_tracks (STab.ofTab a) s1 circ ga hs
  have nA : (STab.ofTab a).n = a.n := rfl
  rw [nA] at n1 wf bwd
  have imgA : CircImage a.n circ (STab.ofTab a) s1 := ⟨rfl, n1, wf, fwd, bwd⟩
  have z1 := isZero_spanEq s1 g1 hzero
  rw [n1] at z1
  -- the second state
  obtain ⟨imgB, gB'⟩ := ofTab_runCircuit_image a.n circ wf b hn.symm gb
  have nB' : (STab.ofTab (b.runCircuit circ)).n = a.n := imgB.nT'
  obtain ⟨sc, g2⟩ := canonicalForm_spanEq _ s2 gB' h2
  have n2 : s2.n = a.n := sc.n_eq.symm.trans nB'
  obtain ⟨k, px, pz, hx, hz⟩ := canonicalForm_canon _ s2 h2
  refine ⟨s2, k, px, pz, h2, n2, hn, g2, hx, hz, ?_, imgB.congr (SpanEq.refl _) sc, ?_⟩
  · rw [n2]; exact imgA.congr (SpanEq.refl _) z1
  · rw [hr, n2]
    have rows := isZero_rows s1 g1 hzero
    rw [n1] at rows
    apply foldl_congr_mem
    intro acc i hi
    have hi : i < a.n := List.mem_range.mp hi
    rw [ipStep_eval a.n s1 s2 rows acc i]
    have := canon_hasX s2 k px hx i (by rw [n2]; exact hi)
    rw [n2] at this
    unfold ipSimple
    simp only [this]

/-! ### the three read-offs -/

section readoff
variable (a b : Tab) (s1 : STab) (circ : List Gate) (r : Option Nat)
variable (ga : (STab.ofTab a).Good) (gb : (STab.ofTab b).Good)
variable (hs : (STab.ofTab a).inverseCircuit = .ok (s1, circ)) (hzero : s1.isZero = true)
variable (h : STab.innerProduct a b = .ok r)
include ga gb hs hzero h

/-- the result is `0` exactly when the two groups contain a Pauli with opposite signs -/
theorem innerProduct_none_iff : r = none ↔ Orth (STab.ofTab a) (STab.ofTab b) := by
  obtain ⟨s2, k, px, pz, _, n2, _, g2, hx, hz, iA, iB, hr⟩ := innerProduct_analysis a b s1 circ r ga gb hs hzero h
  rw [orth_image_iff iA iB, orth_zero_canon s2 k px hx g2]
  have spec := ipFold_spec k (fun i => (s2.row i).r) s2.n
  rw [← hr] at spec
  constructor
  · intro hn; exact spec.2 hn
  · rintro ⟨i, h1, h2, h3⟩
    cases hr' : r with
    | none => rfl
    | some e =>
      have := (spec.1 e hr').2 i h1 h2
      rw [this] at h3; cases h3

/-- a non-zero result `2^{-e/2}`: `e ≤ n`, the groups are not orthogonal, and the common subgroup has rank `n − e` -/
theorem innerProduct_some (e : Nat) (he : r = some e) :
    e ≤ a.n ∧ ¬ Orth (STab.ofTab a) (STab.ofTab b) ∧ OverlapDim (STab.ofTab a) (STab.ofTab b) (a.n - e) := by
  have hno : ¬ Orth (STab.ofTab a) (STab.ofTab b) := by
    intro ho
    have := (innerProduct_none_iff a b s1 circ r ga gb hs hzero h).2 ho
    rw [this] at he; cases he
  obtain ⟨s2, k, px, pz, _, n2, _, g2, hx, hz, iA, iB, hr⟩ := innerProduct_analysis a b s1 circ r ga gb hs hzero h
  have spec := ipFold_spec k (fun i => (s2.row i).r) s2.n
  rw [← hr] at spec
  obtain ⟨ek, hpos⟩ := spec.1 e he
  have hkn : k ≤ s2.n := hx.pr_le
  have ek : e = k := by omega
  refine ⟨by omega, hno, ?_⟩
  rw [overlapDim_image_iff iA iB, ek, ← n2]
  exact ⟨_, overlap_zero_canon s2 k px pz hx hz g2 hpos⟩

/-- … and `e` is the number of rows with an x-bit of the canonical form the code inspects; the x-free rows are positive -/
theorem innerProduct_some_rows (e : Nat) (he : r = some e) :
    ∃ s2, (STab.ofTab (b.runCircuit circ)).canonicalForm = .ok s2 ∧
      (∀ i, i < a.n → (((List.range a.n).any fun j => (s2.row i).x j) = true ↔ i < e)) ∧
      (∀ i, e ≤ i → i < a.n → (s2.row i).r = false) := by
  obtain ⟨s2, k, px, pz, hc, n2, _, g2, hx, hz, iA, iB, hr⟩ := innerProduct_analysis a b s1 circ r ga gb hs hzero h
  have spec := ipFold_spec k (fun i => (s2.row i).r) s2.n
  rw [← hr] at spec
  obtain ⟨ek, hpos⟩ := spec.1 e he
  have hkn : k ≤ s2.n := hx.pr_le
  have ek : e = k := by omega
  refine ⟨s2, hc, fun i hi => ?_, fun i h1 h2 => hpos i (by omega) (by omega)⟩
  have := canon_hasX s2 k px hx i (by omega)
  rw [n2] at this
  rw [this, ek]
  simp

/-- the result is `1` exactly when the two signed groups coincide -/
theorem innerProduct_one_iff : r = some 0 ↔ SpanEq (STab.ofTab a) (STab.ofTab b) := by
  obtain ⟨s2, k, px, pz, _, n2, _, g2, hx, hz, iA, iB, hr⟩ := innerProduct_analysis a b s1 circ r ga gb hs hzero h
  have spec := ipFold_spec k (fun i => (s2.row i).r) s2.n
  rw [← hr] at spec
  have hkn : k ≤ s2.n := hx.pr_le
  constructor
  · intro h0
    obtain ⟨ek, hpos⟩ := spec.1 0 h0
    have hk : k = 0 := by
      apply Classical.byContradiction; intro hc
      have : 0 < s2.n := by omega
      omega
    have hpos' : ∀ i, i < s2.n → (s2.row i).r = false := fun i hi => hpos i (by omega) hi
    have s := canon_zero_spanEq s2 k px pz hx hz g2 hk hpos'
    -- pull back along the reversed circuit
    have back := spanEq_image iA.rev iB.rev s.symm
    exact back
  · intro s
    have s' : SpanEq (STab.zero s2.n) s2 := spanEq_image iA iB s
    obtain ⟨hk, hpos⟩ := canon_of_zero s2 k px hx s'.symm
    cases hr' : r with
    | none =>
      obtain ⟨i, _, h2, h3⟩ := spec.2 hr'
      rw [hpos i h2] at h3; cases h3
    | some e =>
      have := (spec.1 e hr').1
      rw [hk] at this
      have : e = 0 := by omega
      rw [this]

end readoff

end STab
end Graphiq
