/-
  Proofs/HilbertBridgeKron.lean — the remaining entrywise primitives of the Hilbert-space reading are Kronecker chains
  (complementing Proofs/HilbertKron.lean, where this is shown for `pauliMat` and `oneQ`; the last qubit is the right-most,
  least significant factor, so by induction qubit 0 is the left-most one as in `reduce(np.kron, …)`):

  * `ket0H_succ`   : `|0…0⟩⟨0…0|` on `n+1` qubits is `|0…0⟩⟨0…0| ⊗ |0⟩⟨0|` (`create_n_product_state`);
  * `twoQ_succ_*`  : the chain with two non-identity factors — both below the last qubit: `twoQ ⊗ 1`; second factor on the
                     last qubit: `oneQ(first) ⊗ v`; first factor on the last qubit: `oneQ(second) ⊗ u`
                     (the two branches `control < target`, `control > target` of `get_two_qubit_controlled_gate`).
-/
import GraphiqModel.Proofs.DMCompileH
namespace Graphiq
namespace Hilbert
open Matrix

theorem ket0H_succ (n : Nat) (a b : Bits (n + 1)) :
    DMH.ket0H (n + 1) a b = DMH.ket0H n (initB a) (initB b) * ketBra2 false false (lastB a) (lastB b) := by
  have hz : ∀ c : Bits (n + 1), c = (fun _ => false) ↔ initB c = (fun _ => false) ∧ lastB c = false := by
    intro c
    rw [bits_succ_ext c (fun _ => false)]
    rfl
  simp only [DMH.ket0H, ketBra2, Matrix.of_apply, hz a, hz b]
  by_cases h1 : initB a = fun _ => false <;> by_cases h2 : lastB a = false <;>
    by_cases h3 : initB b = fun _ => false <;> by_cases h4 : lastB b = false <;> simp [h1, h2, h3, h4]

theorem off_two_succ_lower {n : Nat} (c t : Nat) (hc : c < n) (ht : t < n) (a b : Bits (n + 1)) :
    (∀ j : Fin (n + 1), j.val ≠ c → j.val ≠ t → a j = b j) ↔
      (∀ j : Fin n, j.val ≠ c → j.val ≠ t → initB a j = initB b j) ∧ lastB a = lastB b := by
  constructor
  · intro h
    exact ⟨fun j h1 h2 => h ⟨j.val, Nat.lt_succ_of_lt j.isLt⟩ h1 h2,
      h ⟨n, Nat.lt_succ_self n⟩ (by simp; omega) (by simp; omega)⟩
  · intro ⟨h1, h2⟩ j hj1 hj2
    by_cases e : j.val = n
    · have : j = ⟨n, Nat.lt_succ_self n⟩ := Fin.ext e
      rw [this]; exact h2
    · have hj' : j.val < n := by have := j.isLt; omega
      exact h1 ⟨j.val, hj'⟩ hj1 hj2

/-- both non-identity factors below the last qubit: `twoQ ⊗ 1` -/
theorem twoQ_succ_lower (n c t : Nat) (hc : c < n) (ht : t < n) (u v : Matrix Bool Bool ℂ) (a b : Bits (n + 1)) :
    twoQ (n + 1) c t u v a b = twoQ n c t u v (initB a) (initB b) * (1 : Matrix Bool Bool ℂ) (lastB a) (lastB b) := by
  simp only [twoQ, Matrix.of_apply, Matrix.one_apply]
  rw [bx_initB a c hc, bx_initB b c hc, bx_initB a t ht, bx_initB b t ht]
  have h := off_two_succ_lower c t hc ht a b
  by_cases h1 : ∀ j : Fin n, j.val ≠ c → j.val ≠ t → initB a j = initB b j
  · by_cases h2 : lastB a = lastB b
    · rw [if_pos (h.mpr ⟨h1, h2⟩), if_pos h1, if_pos h2, _root_.mul_one]
    · rw [if_neg (fun h3 => h2 (h.mp h3).2), if_neg h2, mul_zero]
  · rw [if_neg (fun h3 => h1 (h.mp h3).1), if_neg h1, zero_mul]

theorem off_two_succ_last {n : Nat} (c : Nat) (hc : c < n) (a b : Bits (n + 1)) :
    (∀ j : Fin (n + 1), j.val ≠ c → j.val ≠ n → a j = b j) ↔ (∀ j : Fin n, j.val ≠ c → initB a j = initB b j) := by
  constructor
  · intro h j hj
    exact h ⟨j.val, Nat.lt_succ_of_lt j.isLt⟩ hj (by have := j.isLt; simp; omega)
  · intro h j hj1 hj2
    have hj' : j.val < n := by have := j.isLt; omega
    exact h ⟨j.val, hj'⟩ hj1

/-- second factor on the last qubit (`control < target = n`): `oneQ(first) ⊗ v` -/
theorem twoQ_succ_target_last (n c : Nat) (hc : c < n) (u v : Matrix Bool Bool ℂ) (a b : Bits (n + 1)) :
    twoQ (n + 1) c n u v a b = oneQ n c u (initB a) (initB b) * v (lastB a) (lastB b) := by
  simp only [twoQ, Matrix.of_apply, oneQ_apply]
  rw [bx_initB a c hc, bx_initB b c hc, bx_lastB, bx_lastB]
  have h := off_two_succ_last c hc a b
  by_cases h1 : ∀ j : Fin n, j.val ≠ c → initB a j = initB b j
  · rw [if_pos (h.mpr h1), if_pos h1]
  · rw [if_neg (fun h3 => h1 (h.mp h3)), if_neg h1, zero_mul]

/-- first factor on the last qubit (`control = n > target`): `oneQ(second) ⊗ u` -/
theorem twoQ_succ_control_last (n t : Nat) (ht : t < n) (u v : Matrix Bool Bool ℂ) (a b : Bits (n + 1)) :
    twoQ (n + 1) n t u v a b = oneQ n t v (initB a) (initB b) * u (lastB a) (lastB b) := by
  simp only [twoQ, Matrix.of_apply, oneQ_apply]
  rw [bx_initB a t ht, bx_initB b t ht, bx_lastB, bx_lastB]
  have h : (∀ j : Fin (n + 1), j.val ≠ n → j.val ≠ t → a j = b j) ↔ (∀ j : Fin n, j.val ≠ t → initB a j = initB b j) := by
    constructor
    · intro h j hj
      exact h ⟨j.val, Nat.lt_succ_of_lt j.isLt⟩ (by have := j.isLt; simp; omega) hj
    · intro h j hj1 hj2
      have hj' : j.val < n := by have := j.isLt; omega
      exact h ⟨j.val, hj'⟩ hj2
  by_cases h1 : ∀ j : Fin n, j.val ≠ t → initB a j = initB b j
  · rw [if_pos (h.mpr h1), if_pos h1, mul_comm]
  · rw [if_neg (fun h3 => h1 (h.mp h3)), if_neg h1, zero_mul]

end Hilbert
end Graphiq
