/-
  Proofs/InvHilbert.lean — the Hilbert-space reading of `inverse_circuit`: with `U` the unitary of the returned gate list,
  `U ρ(t) U† = |0…0⟩⟨0…0|`, and the unitary `V` of the reversed list (`run_circuit(reverse=True)`) prepares the state:
  `V |0…0⟩⟨0…0| V† = ρ(t)`.  Hence every stabilizer state is literally a rank-one projector `ρ = |ψ⟩⟨ψ|` with the unit
  vector `ψ = V|0…0⟩`, and the overlap of two stabilizer states is `tr(ρ_a ρ_b) = |⟨ψ_a|ψ_b⟩|²`.  All sizes.
-/
import GraphiqModel.Proofs.InnerProductHilbert
namespace Graphiq
namespace Hilbert
open Matrix PRow STab Tab

/-- the image of the input's group under the returned gate list is the group of |0…0⟩ -/
theorem inverseCircuit_image (t t' : STab) (circ : List Gate) (hg : t.Good) (h : t.inverseCircuit = .ok (t', circ)) :
    CircImage t.n circ t (STab.zero t.n) := by
  obtain ⟨hn, hgood, hwf, hfwd, hbwd⟩ := inverseCircuit_tracks t t' circ hg h
  have hz := isZero_spanEq t' hgood (inverseCircuit_isZero t t' circ hg h)
  rw [hn] at hz
  have img : CircImage t.n circ t t' := ⟨rfl, hn, hwf, hfwd, hbwd⟩
  exact img.congr (SpanEq.refl _) hz

/-- **the synthesised circuit maps the state to |0…0⟩**: `U ρ(t) U† = ρ(|0…0⟩)` -/
theorem inverseCircuit_rho (t t' : STab) (circ : List Gate) (hg : t.Good) (h : t.inverseCircuit = .ok (t', circ)) :
    circMat t.n circ * rho t.n t * (circMat t.n circ)ᴴ = rho t.n (STab.zero t.n) :=
  conj_rho_image t.n circ t _ (inverseCircuit_image t t' circ hg h) hg (zero_good t.n)

/-- **the reversed circuit prepares the state**: `V ρ(|0…0⟩) V† = ρ(t)` for the unitary `V` of the reversed list -/
theorem inverseCircuit_prepares_rho (t t' : STab) (circ : List Gate) (hg : t.Good) (h : t.inverseCircuit = .ok (t', circ)) :
    circMat t.n (revCirc circ) * rho t.n (STab.zero t.n) * (circMat t.n (revCirc circ))ᴴ = rho t.n t :=
  conj_rho_image t.n (revCirc circ) _ t (inverseCircuit_image t t' circ hg h).rev (zero_good t.n) hg

/-! ### rank one -/

/-- the all-zero bit string -/
def zbits (n : Nat) : Bits n := fun _ => false

/-- `ρ(|0…0⟩) = e₀ e₀ᵀ` -/
theorem rho_zero_vecMulVec (n : Nat) :
    rho n (STab.zero n) = Matrix.vecMulVec (Pi.single (zbits n) (1 : ℂ)) (Pi.single (zbits n) (1 : ℂ)) := by
  ext a b
  rw [rho_zero, Matrix.vecMulVec_apply]
  by_cases ha : a = zbits n
  · by_cases hb : b = zbits n
    · subst ha; subst hb
      rw [if_pos ⟨rfl, rfl⟩]; simp
    · have : ¬ (a = (fun _ => false) ∧ b = (fun _ => false)) := fun hh => hb hh.2
      rw [if_neg this, Pi.single_eq_of_ne hb]; simp
  · have : ¬ (a = (fun _ => false) ∧ b = (fun _ => false)) := fun hh => ha hh.1
    rw [if_neg this, Pi.single_eq_of_ne ha]; simp

/-- conjugating `e₀ e₀ᵀ` by `V` gives `ψ ψ†` with `ψ` = column 0 of `V` -/
theorem conj_zero_entry (n : Nat) (V : Matrix (Bits n) (Bits n) ℂ) (a b : Bits n) :
    (V * rho n (STab.zero n) * Vᴴ) a b = V a (zbits n) * star (V b (zbits n)) := by
  rw [rho_zero_vecMulVec, Matrix.mul_vecMulVec, Matrix.vecMulVec_mul, Matrix.vecMulVec_apply,
    Matrix.mulVec_single_one, Matrix.single_one_vecMul]
  rfl

/-- **every stabilizer state is a rank-one projector** `ρ = |ψ⟩⟨ψ|`, `⟨ψ|ψ⟩ = 1`, with `ψ = V|0…0⟩` for the unitary `V` of
    the reversed synthesised circuit -/
theorem rho_rank_one (t t' : STab) (circ : List Gate) (hg : t.Good) (h : t.inverseCircuit = .ok (t', circ)) :
    let ψ : Bits t.n → ℂ := fun a => circMat t.n (revCirc circ) a (zbits t.n)
    (∀ a b, rho t.n t a b = ψ a * star (ψ b)) ∧ ∑ a, star (ψ a) * ψ a = 1 := by
  intro ψ
  constructor
  · intro a b
    rw [← inverseCircuit_prepares_rho t t' circ hg h, conj_zero_entry]
  · have hwf := (inverseCircuit_image t t' circ hg h).rev.wf
    have hU := (circ_unitary t.n (revCirc circ) hwf).2
    have := congrFun (congrFun hU (zbits t.n)) (zbits t.n)
    rw [Matrix.mul_apply, Matrix.one_apply_eq] at this
    rw [← this]
    apply Finset.sum_congr rfl
    intro a _
    rfl

/-- the overlap of two rank-one projectors is the squared modulus of the inner product of the vectors -/
theorem trace_rank_one {n : Nat} (A B : Matrix (Bits n) (Bits n) ℂ) (u w : Bits n → ℂ)
    (hA : ∀ a b, A a b = u a * star (u b)) (hB : ∀ a b, B a b = w a * star (w b)) :
    Matrix.trace (A * B) = (∑ x, star (u x) * w x) * star (∑ x, star (u x) * w x) := by
  unfold Matrix.trace
  simp only [Matrix.diag_apply, Matrix.mul_apply, hA, hB]
  rw [star_sum, Finset.sum_mul_sum]
  rw [Finset.sum_comm]
  apply Finset.sum_congr rfl
  intro x _
  apply Finset.sum_congr rfl
  intro y _
  rw [star_mul, star_star]
  ring

end Hilbert
end Graphiq
