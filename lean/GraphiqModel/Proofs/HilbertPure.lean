/-
  Proofs/HilbertPure.lean — the stabilizer state of a valid Clifford tableau is a pure state:

  * `rho_zero` : the all-`+Z` tableau is `|0…0⟩⟨0…0|`;
  * `trace_rhoTo_succ` : a generator that has an anticommuting partner commuting with the earlier generators halves
    the trace (this is what the destabilizer rows of a Clifford tableau provide);
  * `rho_ofTab_trace` : for a `Tab.Valid` tableau, `tr ρ = 1`; with `ρ² = ρ = ρ†` this is a pure state, and `ρ` is
    positive semidefinite.
-/
import GraphiqModel.Proofs.HilbertState
import Mathlib.LinearAlgebra.Matrix.Trace
import Mathlib.LinearAlgebra.Matrix.PosDef
import Mathlib.Analysis.Complex.Order
import Mathlib.Analysis.RCLike.Basic
import Mathlib.Analysis.Complex.Basic
namespace Graphiq
namespace Hilbert
open Matrix PRow

/-! ### the all-zero state -/

/-- `(1 + (-1)^s Z_q)/2` is the diagonal projector on the strings with `b_q = s` -/
theorem proj_Zq (n q : Nat) (hq : q < n) (s : Bool) :
    proj n (Zq q s) = Matrix.diagonal (fun b : Bits n => if bx b q = s then (1 : ℂ) else 0) := by
  ext a b
  unfold proj
  rw [Matrix.smul_apply, Matrix.add_apply, pauliMat_Zq_apply n q s hq, Matrix.one_apply, Matrix.diagonal_apply]
  by_cases h : a = b
  · subst h
    rw [if_pos rfl, if_pos rfl, if_pos rfl]
    cases s <;> cases bx a q <;> simp <;> norm_num
  · rw [if_neg h, if_neg h, if_neg h]; simp

theorem rhoTo_zero (n k : Nat) (hk : k ≤ n) :
    rhoTo n (fun i => Zq i) k
      = Matrix.diagonal (fun b : Bits n => if ∀ j, j < k → bx b j = false then (1 : ℂ) else 0) := by
  induction k with
  | zero =>
    show (1 : Matrix (Bits n) (Bits n) ℂ) = _
    rw [← Matrix.diagonal_one]
    congr 1
  | succ m ih =>
    show rhoTo n (fun i => Zq i) m * proj n (Zq m) = _
    rw [ih (Nat.le_of_succ_le hk), proj_Zq n m (Nat.lt_of_succ_le hk), Matrix.diagonal_mul_diagonal]
    congr 1
    funext b
    by_cases h1 : ∀ j, j < m → bx b j = false
    · by_cases h2 : bx b m = false
      · have : ∀ j, j < m + 1 → bx b j = false := by
          intro j hj
          by_cases e : j = m
          · rw [e]; exact h2
          · exact h1 j (by omega)
        rw [if_pos h1, if_pos h2, if_pos this]; simp
      · have : ¬ ∀ j, j < m + 1 → bx b j = false := fun h => h2 (h m (Nat.lt_succ_self m))
        rw [if_pos h1, if_neg h2, if_neg this]; simp
    · have : ¬ ∀ j, j < m + 1 → bx b j = false := fun h => h1 (fun j hj => h j (Nat.lt_succ_of_lt hj))
      rw [if_neg h1, if_neg this]; simp

/-- the tableau `StabilizerTableau(n)` (all `+Z_i`) is the density matrix `|0…0⟩⟨0…0|` -/
theorem rho_zero (n : Nat) (a b : Bits n) :
    rho n (STab.zero n) a b = if a = (fun _ => false) ∧ b = (fun _ => false) then 1 else 0 := by
  show rhoTo n (fun i => Zq i) n a b = _
  rw [rhoTo_zero n n (Nat.le_refl n), Matrix.diagonal_apply]
  have key : ∀ c : Bits n, (∀ j, j < n → bx c j = false) ↔ c = (fun _ => false) := by
    intro c
    constructor
    · intro h; apply bits_ext; intro j hj; rw [h j hj, bx_lt _ _ hj]
    · intro h j hj; rw [h, bx_lt _ _ hj]
  by_cases h : a = b
  · subst h
    rw [if_pos rfl]
    by_cases h2 : a = (fun _ => false)
    · rw [if_pos ((key a).mpr h2), if_pos ⟨h2, h2⟩]
    · rw [if_neg (fun h3 => h2 ((key a).mp h3)), if_neg (fun h3 => h2 h3.1)]
  · rw [if_neg h, if_neg (fun h3 => h (h3.1.trans h3.2.symm))]

/-! ### trace -/

theorem trace_conj_unitary {n : Nat} (D X : Matrix (Bits n) (Bits n) ℂ) (hD : Dᴴ * D = 1) :
    Matrix.trace (D * X * Dᴴ) = Matrix.trace X := by
  rw [Matrix.trace_mul_comm, ← Matrix.mul_assoc, hD, Matrix.one_mul]

/-- a generator `r k` with a partner `d` that anticommutes with it and commutes with the earlier generators
    halves the trace of the partial product -/
theorem trace_rhoTo_succ (n : Nat) (r : Nat → PRow) (k : Nat) (d : PRow)
    (hc : ∀ j, j < k → sp n d (r j) = false) (ha : sp n d (r k) = true) :
    Matrix.trace (rhoTo n r (k + 1)) = (1 / 2 : ℂ) * Matrix.trace (rhoTo n r k) := by
  have hz : Matrix.trace (rhoTo n r k * pauliMat n (r k)) = 0 := by
    have hD := pauliMat_conjTranspose_mul n d
    have hD' := pauliMat_mul_conjTranspose n d
    have h1 := trace_conj_unitary (pauliMat n d) (rhoTo n r k * pauliMat n (r k)) hD
    have hcomm : pauliMat n d * rhoTo n r k = rhoTo n r k * pauliMat n d :=
      commute_rhoTo n _ r k (fun j hj => by
        have h := pauliMat_comm n _ _ (hc j hj)
        unfold proj
        rw [mul_smul_comm, smul_mul_assoc, mul_add, add_mul, h, Matrix.mul_one, Matrix.one_mul])
    have hanti := pauliMat_anticomm n _ _ ha
    have e : pauliMat n d * (rhoTo n r k * pauliMat n (r k)) * (pauliMat n d)ᴴ
        = -(rhoTo n r k * pauliMat n (r k)) := by
      rw [← Matrix.mul_assoc, hcomm, Matrix.mul_assoc (rhoTo n r k), hanti, Matrix.mul_neg, Matrix.neg_mul,
        Matrix.mul_assoc, Matrix.mul_assoc, hD', Matrix.mul_one]
    rw [e, Matrix.trace_neg] at h1
    have h2 : (2 : ℂ) * Matrix.trace (rhoTo n r k * pauliMat n (r k)) = 0 := by
      rw [two_mul]; nth_rewrite 1 [← h1]; simp
    exact (mul_eq_zero.mp h2).resolve_left (by norm_num)
  show Matrix.trace (rhoTo n r k * proj n (r k)) = _
  unfold proj
  rw [mul_smul_comm, Matrix.trace_smul, mul_add, Matrix.mul_one, Matrix.trace_add, hz, add_zero, smul_eq_mul]

theorem card_bits (n : Nat) : (Fintype.card (Bits n) : ℂ) = 2 ^ n := by
  rw [Fintype.card_fun, Fintype.card_bool, Fintype.card_fin]; norm_cast

/-- rows `r 0 … r (k-1)` with partners `d 0 … d (k-1)` (`d i` anticommutes with `r i` and commutes with `r j`, `j < i`) -/
theorem trace_rhoTo_paired (n : Nat) (r d : Nat → PRow) (k : Nat)
    (h : ∀ i j, i < k → j ≤ i → sp n (d i) (r j) = decide (j = i)) :
    Matrix.trace (rhoTo n r k) = (1 / 2 : ℂ) ^ k * 2 ^ n := by
  induction k with
  | zero =>
    show Matrix.trace (1 : Matrix (Bits n) (Bits n) ℂ) = _
    rw [Matrix.trace_one, card_bits]; simp
  | succ m ih =>
    rw [trace_rhoTo_succ n r m (d m)
      (fun j hj => by rw [h m j (Nat.lt_succ_self m) (Nat.le_of_lt hj)]; exact decide_eq_false (by omega))
      (by rw [h m m (Nat.lt_succ_self m) (Nat.le_refl m)]; exact decide_eq_true rfl),
      ih (fun i j hi hj => h i j (Nat.lt_succ_of_lt hi) hj), pow_succ]
    ring

/-! ### the state of a valid Clifford tableau -/

theorem ofTab_good (t : Tab) (hv : t.Valid) : (STab.ofTab t).Good := by
  constructor
  · intro i _; rfl
  · intro i k hi hk
    show sp t.n (t.row (i + t.n)) (t.row (k + t.n)) = false
    have hi' : i < t.n := hi
    have hk' : k < t.n := hk
    rw [hv (i + t.n) (k + t.n) (by omega) (by omega)]
    exact decide_eq_false (by omega)

/-- **Trace one.**  The stabilizer half of a valid Clifford tableau has `tr ρ = 1` (the destabilizers witness the
    independence of the generators) -/
theorem rho_ofTab_trace (t : Tab) (hv : t.Valid) : Matrix.trace (rho t.n (STab.ofTab t)) = 1 := by
  show Matrix.trace (rhoTo t.n (STab.ofTab t).row t.n) = 1
  rw [trace_rhoTo_paired t.n (STab.ofTab t).row t.row t.n (by
    intro i j hi hj
    show sp t.n (t.row i) (t.row (j + t.n)) = decide (j = i)
    rw [hv i (j + t.n) (by omega) (by omega)]
    apply decide_eq_decide.mpr
    omega)]
  rw [← mul_pow]; norm_num

open scoped ComplexOrder in
/-- a Hermitian idempotent is positive semidefinite -/
theorem posSemidef_of_projector {n : Nat} (ρ : Matrix (Bits n) (Bits n) ℂ) (h1 : ρ * ρ = ρ) (h2 : ρᴴ = ρ) :
    ρ.PosSemidef := by
  have := Matrix.posSemidef_conjTranspose_mul_self ρ
  rw [h2, h1] at this
  exact this

end Hilbert
end Graphiq
