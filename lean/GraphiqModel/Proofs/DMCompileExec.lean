/-
  Proofs/DMCompileExec.lean — the *executable* exact model of the density-matrix backend (`Model/DMSem.lean`:
  `applyUnitary`, `applyChannel`, `applyMeasurement`, the gate builders; `Model/Noise.lean`: `dmGate`, `compileDM`) is the
  Hilbert-space semantics `DMH.dmRunH` of Proofs/DMCompileH.lean under the representation `Rep` of
  Proofs/HilbertBridgeMat.lean (`Mat` of size `2^n` over ℚ[i], numpy index ↔ bit string), and therefore

      compileDM (noise off) on the translated circuit = ρ(stabRun circuit), with the same classical registers

  for every circuit, every register mix and both forced measurement settings (`compileDM_eq_stab`).
  (`compileDM` takes the setting as a `Bool`; probabilistic runs are replayed by the harness as forced ones.)
-/
import GraphiqModel.Proofs.HilbertBridgeMat
import GraphiqModel.Proofs.DMCompileH
import GraphiqModel.Model.Noise
namespace Graphiq
namespace DMX
open Hilbert DMH Matrix

/-! ### `DensityMatrix` methods of the executable model -/

theorem rep_applyUnitary {n : Nat} {ρ : Mat} {R : DMat n} (u : DM.SMat) {U : DMat n} (hρ : Rep n ρ R)
    (hu : Rep n u.m U) :
    ∃ m, DM.applyUnitary ρ u = .ok m ∧ Rep n m (herm (((u.sq : ℝ) : ℂ) • (U * R * Uᴴ))) := by
  unfold DM.applyUnitary
  rw [if_neg (not_not.mpr (hρ.1.trans hu.1.symm))]
  exact ⟨_, rfl, (Rep.hermitianize (Rep.smul _ (Rep.conjBy hu hρ)).norm).norm⟩

theorem rep_applyUnitary_one {n : Nat} {ρ u : Mat} {R U : DMat n} (hρ : Rep n ρ R) (hu : Rep n u U) :
    ∃ m, DM.applyUnitary ρ ⟨1, u⟩ = .ok m ∧ Rep n m (applyUnitary R U) := by
  obtain ⟨m, h1, h2⟩ := rep_applyUnitary ⟨1, u⟩ hρ hu
  refine ⟨m, h1, h2.congr ?_⟩
  unfold applyUnitary
  simp

/-- `½ · H₂ ρ H₂†` (the executable Hadamard) is `apply_unitary` with `hadamard() = H₂/√2` -/
theorem rep_applyUnitary_had {n : Nat} {ρ u : Mat} {R : DMat n} (q : Nat) (hρ : Rep n ρ R)
    (hu : Rep n u (oneQ n q hadM)) :
    ∃ m, DM.applyUnitary ρ ⟨1 / 2, u⟩ = .ok m ∧ Rep n m (applyUnitary R (oneQ n q hadamardM)) := by
  obtain ⟨m, h1, h2⟩ := rep_applyUnitary ⟨1 / 2, u⟩ hρ hu
  refine ⟨m, h1, h2.congr ?_⟩
  unfold applyUnitary hadamardM
  rw [oneQ_smul, Matrix.conjTranspose_smul, star_invSqrt2, smul_mul_assoc, smul_mul_assoc, mul_smul_comm, smul_smul,
    invSqrt2_mul_self]
  congr 2
  norm_num

theorem rep_resetChannel {n : Nat} {ρ : Mat} {R : DMat n} (q : Nat) (hq : q < n) (hρ : Rep n ρ R) :
    ∃ m, DM.applyChannel ρ (DM.resetKraus n q) = .ok m ∧ Rep n m (applyChannel R (resetKraus n q)) := by
  have h0 := rep_getOneQubitGate n q hq _ _ rep2_ketbra00
  have h1 := rep_getOneQubitGate n q hq _ _ rep2_ketbra01
  unfold DM.applyChannel DM.resetKraus
  simp only
  rw [if_neg (not_not.mpr (hρ.1.trans h0.1.symm))]
  refine ⟨_, rfl, ?_⟩
  unfold applyChannel resetKraus
  simp only [List.foldl]
  have hz : Rep n (Mat.zero ρ.n) (0 : DMat n) := by rw [hρ.1]; exact Rep.zero n
  have s0 := (Rep.add hz (Rep.smul 1 (Rep.conjBy h0 hρ)).norm).norm
  have s1 := (Rep.add s0 (Rep.smul 1 (Rep.conjBy h1 hρ)).norm).norm
  refine (Rep.hermitianize s1).norm.congr ?_
  simp

theorem cast_clip (x : Rat) : (((if x < 0 then 0 else x : Rat)) : ℝ) = max 0 (x : ℝ) := by
  split
  · rename_i h
    have : (x : ℝ) < 0 := by exact_mod_cast h
    rw [max_eq_left (le_of_lt this)]; simp
  · rename_i h
    have : (0 : ℝ) ≤ (x : ℝ) := by exact_mod_cast (not_lt.mp h)
    rw [max_eq_right this]

open Classical in
theorem isclose0_cast (x : Rat) : DM.isclose0 x = decide (Hilbert.isclose0 (x : ℝ)) := by
  unfold DM.isclose0 Hilbert.isclose0
  rw [DM.rat_abs_eq]
  apply decide_eq_decide.mpr
  constructor
  · intro h
    have : ((|x| : Rat) : ℝ) ≤ ((1 / 100000000 : Rat) : ℝ) := by exact_mod_cast h
    simpa using this
  · intro h
    have : ((|x| : Rat) : ℝ) ≤ ((1 / 100000000 : Rat) : ℝ) := by simpa using h
    exact_mod_cast this

/-- the two forced settings of the executable model as `Det` -/
def detOf (b : Bool) : Det := if b then .one else .zero

/-- **`apply_measurement` of the executable model** represents `measureH`, provided the divisor is positive -/
theorem rep_applyMeasurement {n : Nat} {ρ p0 p1 : Mat} {R P0 P1 : DMat n} (hρ : Rep n ρ R) (h0 : Rep n p0 P0)
    (h1 : Rep n p1 P1) (det : Bool) (script : List Bool) (hpos : 0 < measNormH R P0 P1 (detOf det) script) :
    ∃ m, DM.applyMeasurement ρ p0 p1 det = .ok (some m, (measureH R P0 P1 (detOf det) script).2.1) ∧
      Rep n m (measureH R P0 P1 (detOf det) script).1 := by
  have e0 : (((if (ρ.mul p0).trace.re < 0 then 0 else (ρ.mul p0).trace.re : Rat)) : ℝ) = probOf R P0 := by
    rw [cast_clip, (Rep.mul hρ h0).trace_re]; rfl
  have e1 : (((if (ρ.mul p1).trace.re < 0 then 0 else (ρ.mul p1).trace.re : Rat)) : ℝ) = probOf R P1 := by
    rw [cast_clip, (Rep.mul hρ h1).trace_re]; rfl
  unfold DM.applyMeasurement
  rw [if_neg (not_not.mpr (hρ.1.trans h0.1.symm))]
  simp only
  generalize (if (ρ.mul p0).trace.re < 0 then 0 else (ρ.mul p0).trace.re : Rat) = q0 at e0 ⊢
  generalize (if (ρ.mul p1).trace.re < 0 then 0 else (ρ.mul p1).trace.re : Rat) = q1 at e1 ⊢
  -- the outcome
  have hout : (if det = true then !DM.isclose0 q1 else DM.isclose0 q0) = (measureH R P0 P1 (detOf det) script).2.1 := by
    rw [measureH_out, ← e0, ← e1, isclose0_cast, isclose0_cast]
    cases det
    · simp [detOf, outcomeOf]
    · simp [detOf, outcomeOf]
  rw [hout]
  generalize hO : (measureH R P0 P1 (detOf det) script).2.1 = o at hout ⊢
  -- the divisor
  have hnorm : (((if 0 < q0 + q1 then (if o = true then q1 else q0) / (q0 + q1) else 1 : Rat)) : ℝ)
      = measNormH R P0 P1 (detOf det) script := by
    unfold measNormH
    simp only
    rw [← measureH_out, hO, ← e0, ← e1]
    by_cases ht : 0 < q0 + q1
    · have ht' : (0 : ℝ) < (q0 : ℝ) + (q1 : ℝ) := by exact_mod_cast ht
      rw [if_pos ht, if_pos ht']
      cases o <;> simp
    · have ht' : ¬ (0 : ℝ) < (q0 : ℝ) + (q1 : ℝ) := by
        intro h; apply ht; exact_mod_cast h
      rw [if_neg ht, if_neg ht']
      simp
  generalize (if 0 < q0 + q1 then (if o = true then q1 else q0) / (q0 + q1) else 1 : Rat) = nm at hnorm ⊢
  have hne : nm ≠ 0 := by
    intro h
    rw [h] at hnorm
    rw [← hnorm] at hpos
    simp at hpos
  rw [if_neg hne]
  refine ⟨_, rfl, ?_⟩
  have hm : Rep n (if o = true then p1 else p0) (if o = true then P1 else P0) := by
    cases o
    · exact h0
    · exact h1
  refine (Rep.smul (1 / nm) (Rep.conjBy hm hρ)).norm.congr ?_
  rw [measureH_fst, hO, ← hnorm]
  congr 1
  push_cast
  simp

/-! ### translation of circuits, classical registers -/

def regT : Graphiq.RegT → Noise.RegT
  | .e => .e
  | .p => .p

def kindOfGen : Cliff.Gen → Noise.Kind
  | .I => .identity | .H => .h | .P => .s | .X => .x | .Y => .y | .Z => .z

/-- the operations of `circuit.sequence(unwrapped=True)` for one circuit operation -/
def trOp : Graphiq.COp → List Noise.COp
  | .gate1 g q => [{ kind := kindOfGen g, r1 := q.idx, t1 := regT q.ty }]
  | .pdag q => [{ kind := .sdg, r1 := q.idx, t1 := regT q.ty }]
  | .cnot c t => [{ kind := .cnot, r1 := c.idx, t1 := regT c.ty, r2 := t.idx, t2 := regT t.ty }]
  | .cz c t => [{ kind := .cz, r1 := c.idx, t1 := regT c.ty, r2 := t.idx, t2 := regT t.ty }]
  | .ccx c t creg => [{ kind := .ccnot, r1 := c.idx, t1 := regT c.ty, r2 := t.idx, t2 := regT t.ty, c := creg }]
  | .ccz c t creg => [{ kind := .ccz, r1 := c.idx, t1 := regT c.ty, r2 := t.idx, t2 := regT t.ty, c := creg }]
  | .mcr c t creg => [{ kind := .mcr, r1 := c.idx, t1 := regT c.ty, r2 := t.idx, t2 := regT t.ty, c := creg }]
  | .measz q creg => [{ kind := .measZ, r1 := q.idx, t1 := regT q.ty, c := creg }]
  | .wrap gs q => gs.reverse.map fun g => { kind := kindOfGen g, r1 := q.idx, t1 := regT q.ty }

def trOps (ops : List Graphiq.COp) : List Noise.COp := ops.flatMap trOp

theorem qIndex_tr (np : Nat) (q : QReg) : Noise.qIndex np q.idx (regT q.ty) = Graphiq.qIndex np q := by
  cases q with
  | mk ty idx => cases ty <;> rfl

/-- the register array after a list of writes, from all zeros (`classical_registers[c] = outcome`) -/
def regsOf (nc : Nat) (w : List (Nat × Bool)) : List Nat :=
  w.foldl (fun r cw => Noise.setRec r cw.1 (if cw.2 then 1 else 0)) (List.replicate nc 0)

theorem regsOf_append (nc : Nat) (w : List (Nat × Bool)) (c : Nat) (v : Bool) :
    regsOf nc (w ++ [(c, v)]) = Noise.setRec (regsOf nc w) c (if v then 1 else 0) := by
  simp [regsOf, List.foldl_append]

/-- the executable state represents the Hilbert-space state -/
def RepSt (n nc : Nat) (st : Noise.DmSt) (h : HState n) : Prop :=
  ∃ m, st.ρ = some m ∧ Rep n m h.ρ ∧ st.creg = regsOf nc h.writes

/-! ### `dmGate`, one kind at a time -/

theorem exec_gen1 (np n nc : Nat) (det : Bool) (st : Noise.DmSt) (h : HState n) (hst : RepSt n nc st h) (g : Cliff.Gen)
    (r1 : Nat) (t1 : Noise.RegT) (hq : Noise.qIndex np r1 t1 < n) :
    ∃ st', Noise.dmGate np n det { kind := kindOfGen g, r1 := r1, t1 := t1 } st = .ok st' ∧
      RepSt n nc st' { h with ρ := gen1H n h.ρ g (Noise.qIndex np r1 t1) } := by
  obtain ⟨m, hm, hrep, hc⟩ := hst
  cases g with
  | I => exact ⟨st, by simp [Noise.dmGate, kindOfGen, hm], m, hm, hrep, hc⟩
  | H =>
    obtain ⟨m', e, r⟩ := rep_applyUnitary_had (Noise.qIndex np r1 t1) hrep (rep_getOneQubitGate n _ hq _ _ rep2_had2)
    exact ⟨{ st with ρ := some m' }, by simp only [Noise.dmGate, kindOfGen, hm, e, Except.map], m', rfl, r, hc⟩
  | P =>
    obtain ⟨m', e, r⟩ := rep_applyUnitary_one hrep (rep_getOneQubitGate n _ hq _ _ rep2_phase)
    exact ⟨{ st with ρ := some m' }, by simp only [Noise.dmGate, kindOfGen, hm, e, Except.map], m', rfl, r, hc⟩
  | X =>
    obtain ⟨m', e, r⟩ := rep_applyUnitary_one hrep (rep_getOneQubitGate n _ hq _ _ rep2_sigmax)
    exact ⟨{ st with ρ := some m' }, by simp only [Noise.dmGate, kindOfGen, hm, e, Except.map], m', rfl, r, hc⟩
  | Y =>
    obtain ⟨m', e, r⟩ := rep_applyUnitary_one hrep (rep_getOneQubitGate n _ hq _ _ rep2_sigmay)
    exact ⟨{ st with ρ := some m' }, by simp only [Noise.dmGate, kindOfGen, hm, e, Except.map], m', rfl, r, hc⟩
  | Z =>
    obtain ⟨m', e, r⟩ := rep_applyUnitary_one hrep (rep_getOneQubitGate n _ hq _ _ rep2_sigmaz)
    exact ⟨{ st with ρ := some m' }, by simp only [Noise.dmGate, kindOfGen, hm, e, Except.map], m', rfl, r, hc⟩

theorem exec_sdg (np n nc : Nat) (det : Bool) (st : Noise.DmSt) (h : HState n) (hst : RepSt n nc st h)
    (r1 : Nat) (t1 : Noise.RegT) (hq : Noise.qIndex np r1 t1 < n) :
    ∃ st', Noise.dmGate np n det { kind := .sdg, r1 := r1, t1 := t1 } st = .ok st' ∧
      RepSt n nc st' { h with ρ := applyUnitary h.ρ (oneQ n (Noise.qIndex np r1 t1) phaseDagM) } := by
  obtain ⟨m, hm, hrep, hc⟩ := hst
  obtain ⟨m', e, r⟩ := rep_applyUnitary_one hrep (rep_getOneQubitGate n _ hq _ _ rep2_phaseDag)
  exact ⟨{ st with ρ := some m' }, by simp only [Noise.dmGate, hm, e, Except.map], m', rfl, r, hc⟩

theorem exec_ctrl (np n nc : Nat) (det : Bool) (st : Noise.DmSt) (h : HState n) (hst : RepSt n nc st h)
    (r1 r2 : Nat) (t1 t2 : Noise.RegT) (hc1 : Noise.qIndex np r1 t1 < n) (hc2 : Noise.qIndex np r2 t2 < n)
    (hne : Noise.qIndex np r1 t1 ≠ Noise.qIndex np r2 t2) :
    (∃ st', Noise.dmGate np n det { kind := .cnot, r1 := r1, t1 := t1, r2 := r2, t2 := t2 } st = .ok st' ∧
      RepSt n nc st' { h with ρ := applyUnitary h.ρ (ctrlG n (Noise.qIndex np r1 t1) (Noise.qIndex np r2 t2) sigmaX) }) ∧
    (∃ st', Noise.dmGate np n det { kind := .cz, r1 := r1, t1 := t1, r2 := r2, t2 := t2 } st = .ok st' ∧
      RepSt n nc st' { h with ρ := applyUnitary h.ρ (ctrlG n (Noise.qIndex np r1 t1) (Noise.qIndex np r2 t2) sigmaZ) }) := by
  obtain ⟨m, hm, hrep, hc⟩ := hst
  constructor
  · obtain ⟨u, eu, ru⟩ := rep_getTwoQubitControlledGate n _ _ hc1 hc2 hne _ _ rep2_sigmax
    obtain ⟨m', e, r⟩ := rep_applyUnitary_one hrep ru
    rw [← ctrlG_eq n _ _ hc1 hne] at r
    exact ⟨{ st with ρ := some m' }, by simp only [Noise.dmGate, hm, eu, e, Except.map], m', rfl, r, hc⟩
  · obtain ⟨u, eu, ru⟩ := rep_getTwoQubitControlledGate n _ _ hc1 hc2 hne _ _ rep2_sigmaz
    obtain ⟨m', e, r⟩ := rep_applyUnitary_one hrep ru
    rw [← ctrlG_eq n _ _ hc1 hne] at r
    exact ⟨{ st with ρ := some m' }, by simp only [Noise.dmGate, hm, eu, e, Except.map], m', rfl, r, hc⟩

theorem exec_measZ (np n nc : Nat) (det : Bool) (st : Noise.DmSt) (h : HState n) (hst : RepSt n nc st h)
    (r1 : Nat) (t1 : Noise.RegT) (creg : Nat) (hq : Noise.qIndex np r1 t1 < n)
    (hpos : 0 < measNormH h.ρ (projZ n (Noise.qIndex np r1 t1) false) (projZ n (Noise.qIndex np r1 t1) true) (detOf det)
      h.script) :
    ∃ st', Noise.dmGate np n det { kind := .measZ, r1 := r1, t1 := t1, c := creg } st = .ok st' ∧
      RepSt n nc st' ((h.measure (detOf det) (Noise.qIndex np r1 t1)).1.write creg
        (h.measure (detOf det) (Noise.qIndex np r1 t1)).2) := by
  obtain ⟨m, hm, hrep, hc⟩ := hst
  obtain ⟨p0, p1, ep, r0, r1'⟩ := rep_projectorsZ n (Noise.qIndex np r1 t1) hq
  obtain ⟨m', e, r⟩ := rep_applyMeasurement hrep r0 r1' det h.script hpos
  refine ⟨_, by simp [Noise.dmGate, hm, ep, e]; rfl, m', rfl, r, ?_⟩
  show Noise.setRec st.creg creg _ = regsOf nc (h.writes ++ [(creg, _)])
  rw [regsOf_append, hc]
  rfl

theorem exec_classical (np n nc : Nat) (det : Bool) (st : Noise.DmSt) (h : HState n) (hst : RepSt n nc st h)
    (r1 r2 : Nat) (t1 t2 : Noise.RegT) (creg : Nat) (hc1 : Noise.qIndex np r1 t1 < n) (hc2 : Noise.qIndex np r2 t2 < n)
    (hpos : 0 < measNormH h.ρ (projZ n (Noise.qIndex np r1 t1) false) (projZ n (Noise.qIndex np r1 t1) true) (detOf det)
      h.script) :
    let m := h.measure (detOf det) (Noise.qIndex np r1 t1)
    (∃ st', Noise.dmGate np n det { kind := .ccnot, r1 := r1, t1 := t1, r2 := r2, t2 := t2, c := creg } st = .ok st' ∧
      RepSt n nc st' ((m.1.condU m.2 (oneQ n (Noise.qIndex np r2 t2) sigmaX)).write creg m.2)) ∧
    (∃ st', Noise.dmGate np n det { kind := .ccz, r1 := r1, t1 := t1, r2 := r2, t2 := t2, c := creg } st = .ok st' ∧
      RepSt n nc st' ((m.1.condU m.2 (oneQ n (Noise.qIndex np r2 t2) sigmaZ)).write creg m.2)) ∧
    (∃ st', Noise.dmGate np n det { kind := .mcr, r1 := r1, t1 := t1, r2 := r2, t2 := t2, c := creg } st = .ok st' ∧
      RepSt n nc st' (((m.1.condU m.2 (oneQ n (Noise.qIndex np r2 t2) sigmaX)).write creg m.2).reset
        (Noise.qIndex np r1 t1))) := by
  intro mm
  obtain ⟨m, hm, hrep, hc⟩ := hst
  obtain ⟨p0, p1, ep, r0, r1'⟩ := rep_projectorsZ n (Noise.qIndex np r1 t1) hc1
  obtain ⟨m1, e1, rep1⟩ := rep_applyMeasurement hrep r0 r1' det h.script hpos
  have hcreg : Noise.setRec st.creg creg (if mm.2 = true then 1 else 0) = regsOf nc (h.writes ++ [(creg, mm.2)]) := by
    rw [regsOf_append, hc]
  -- the conditional gate, for a 2×2 block `u` represented by `g`
  have cond : ∀ (g : Mat) (u : Matrix Bool Bool ℂ), Rep2 g u →
      ∃ m2, (if mm.2 = true then DM.applyUnitary m1 ⟨1, DM.getOneQubitGate n (Noise.qIndex np r2 t2) g⟩ else .ok m1) = .ok m2 ∧
        Rep n m2 (mm.1.condU mm.2 (oneQ n (Noise.qIndex np r2 t2) u)).ρ := by
    intro g u hg
    cases hb : mm.2 with
    | false =>
      refine ⟨m1, by simp, ?_⟩
      simp only [HState.condU, Bool.false_eq_true, if_false]
      exact rep1
    | true =>
      obtain ⟨m2, e2, rep2⟩ := rep_applyUnitary_one rep1 (rep_getOneQubitGate n _ hc2 _ _ hg)
      refine ⟨m2, by simp [e2], ?_⟩
      simp only [HState.condU, if_true]
      exact rep2
  have hmm2 : (measureH h.ρ (projZ n (Noise.qIndex np r1 t1) false) (projZ n (Noise.qIndex np r1 t1) true) (detOf det)
      h.script).2.1 = mm.2 := rfl
  rw [hmm2] at e1
  refine ⟨?_, ?_, ?_⟩
  · obtain ⟨m2, e2, rep2⟩ := cond _ _ rep2_sigmax
    refine ⟨{ ρ := some m2, creg := Noise.setRec st.creg creg (if mm.2 = true then 1 else 0) }, ?_, m2, rfl, rep2, hcreg⟩
    simp only [Noise.dmGate, hm, ep, e1, e2]
    rfl
  · obtain ⟨m2, e2, rep2⟩ := cond _ _ rep2_sigmaz
    refine ⟨{ ρ := some m2, creg := Noise.setRec st.creg creg (if mm.2 = true then 1 else 0) }, ?_, m2, rfl, rep2, hcreg⟩
    simp only [Noise.dmGate, hm, ep, e1, e2]
    rfl
  · obtain ⟨m2, e2, rep2⟩ := cond _ _ rep2_sigmax
    obtain ⟨m3, e3, rep3⟩ := rep_resetChannel (Noise.qIndex np r1 t1) hc1 rep2
    refine ⟨{ ρ := some m3, creg := Noise.setRec st.creg creg (if mm.2 = true then 1 else 0) }, ?_, m3, rfl, rep3, hcreg⟩
    simp only [Noise.dmGate, hm, ep, e1, e2, e3]
    rfl

end DMX
end Graphiq
