/-
  Proofs/DMCompileExec.lean — the *executable* exact model of the density-matrix backend (`Model/DMSem.lean`:
  `applyUnitary`, `applyChannel`, `applyMeasurement`, the gate builders; `Model/Noise.lean`: `dmGate`, `compileDM`) is the
  Hilbert-space semantics `DMH.dmRunH` of Proofs/DMCompileH.lean under the representation `Rep` of
  Proofs/HilbertBridgeMat.lean (`Mat` of size `2^n` over ℚ[i], numpy index ↔ bit string), and therefore

      compileDM (noise off) on the translated circuit = ρ(stabRun circuit), with the same classical registers

  for every circuit, every register mix and both forced measurement settings (`compileDM_eq_stab`).
  (`compileDM` takes the setting as a `Bool`; probabilistic runs are replayed by the harness as forced ones.)
-/
import GraphiqModel.Proofs.HilbertBridgeExec
import GraphiqModel.Proofs.HilbertBridgeDensity
import GraphiqModel.Proofs.DMCompileH
import GraphiqModel.Model.Noise
namespace Graphiq
namespace DMX
open Hilbert DMH Matrix

/-! ### translation of circuits, classical registers -/

def regT : Graphiq.RegT → Noise.RegT
  | .e => .e
  | .p => .p

def kindOfGen : Cliff.Gen → Noise.Kind
  | .I => .identity | .H => .h | .P => .s | .X => .x | .Y => .y | .Z => .z

/-- the operations of `circuit.sequence(unwrapped=True)` for one circuit operation -/
def trOp : Graphiq.COp → List Noise.COp
  | .gate1 g q => [{ kind := kindOfGen g, r1 := q.idx, t1 := regT q.ty }]
  | .pdag q => [{ kind := .sdg, r1 := q.idx, t1 := regT q.ty }]
  | .cnot c t => [{ kind := .cnot, r1 := c.idx, t1 := regT c.ty, r2 := t.idx, t2 := regT t.ty }]
  | .cz c t => [{ kind := .cz, r1 := c.idx, t1 := regT c.ty, r2 := t.idx, t2 := regT t.ty }]
  | .ccx c t creg => [{ kind := .ccnot, r1 := c.idx, t1 := regT c.ty, r2 := t.idx, t2 := regT t.ty, c := creg }]
  | .ccz c t creg => [{ kind := .ccz, r1 := c.idx, t1 := regT c.ty, r2 := t.idx, t2 := regT t.ty, c := creg }]
  | .mcr c t creg => [{ kind := .mcr, r1 := c.idx, t1 := regT c.ty, r2 := t.idx, t2 := regT t.ty, c := creg }]
  | .measz q creg => [{ kind := .measZ, r1 := q.idx, t1 := regT q.ty, c := creg }]
  | .wrap gs q => gs.reverse.map fun g => { kind := kindOfGen g, r1 := q.idx, t1 := regT q.ty }

def trOps (ops : List Graphiq.COp) : List Noise.COp := ops.flatMap trOp

theorem qIndex_tr (np : Nat) (q : QReg) : Noise.qIndex np q.idx (regT q.ty) = Graphiq.qIndex np q := by
  cases q with
  | mk ty idx => cases ty <;> rfl

/-- the register array after a list of writes, from all zeros (`classical_registers[c] = outcome`) -/
def regsOf (nc : Nat) (w : List (Nat × Bool)) : List Nat :=
  w.foldl (fun r cw => Noise.setRec r cw.1 (if cw.2 then 1 else 0)) (List.replicate nc 0)

theorem regsOf_append (nc : Nat) (w : List (Nat × Bool)) (c : Nat) (v : Bool) :
    regsOf nc (w ++ [(c, v)]) = Noise.setRec (regsOf nc w) c (if v then 1 else 0) := by
  simp [regsOf, List.foldl_append]

/-- the executable state represents the Hilbert-space state -/
def RepSt (n nc : Nat) (st : Noise.DmSt) (h : HState n) : Prop :=
  ∃ m, st.ρ = some m ∧ Rep n m h.ρ ∧ st.creg = regsOf nc h.writes

/-! ### `dmGate`, one kind at a time -/

theorem exec_gen1 (np n nc : Nat) (det : Bool) (st : Noise.DmSt) (h : HState n) (hst : RepSt n nc st h) (g : Cliff.Gen)
    (r1 : Nat) (t1 : Noise.RegT) (hq : Noise.qIndex np r1 t1 < n) :
    ∃ st', Noise.dmGate np n det { kind := kindOfGen g, r1 := r1, t1 := t1 } st = .ok st' ∧
      RepSt n nc st' { h with ρ := gen1H n h.ρ g (Noise.qIndex np r1 t1) } := by
  obtain ⟨m, hm, hrep, hc⟩ := hst
  cases g with
  | I => exact ⟨st, by simp [Noise.dmGate, kindOfGen, hm], m, hm, hrep, hc⟩
  | H =>
    obtain ⟨m', e, r⟩ := rep_applyUnitary_had (Noise.qIndex np r1 t1) hrep (rep_getOneQubitGate n _ hq _ _ rep2_had2)
    exact ⟨{ st with ρ := some m' }, by simp only [Noise.dmGate, kindOfGen, hm, e, Except.map], m', rfl, r, hc⟩
  | P =>
    obtain ⟨m', e, r⟩ := rep_applyUnitary_one hrep (rep_getOneQubitGate n _ hq _ _ rep2_phase)
    exact ⟨{ st with ρ := some m' }, by simp only [Noise.dmGate, kindOfGen, hm, e, Except.map], m', rfl, r, hc⟩
  | X =>
    obtain ⟨m', e, r⟩ := rep_applyUnitary_one hrep (rep_getOneQubitGate n _ hq _ _ rep2_sigmax)
    exact ⟨{ st with ρ := some m' }, by simp only [Noise.dmGate, kindOfGen, hm, e, Except.map], m', rfl, r, hc⟩
  | Y =>
    obtain ⟨m', e, r⟩ := rep_applyUnitary_one hrep (rep_getOneQubitGate n _ hq _ _ rep2_sigmay)
    exact ⟨{ st with ρ := some m' }, by simp only [Noise.dmGate, kindOfGen, hm, e, Except.map], m', rfl, r, hc⟩
  | Z =>
    obtain ⟨m', e, r⟩ := rep_applyUnitary_one hrep (rep_getOneQubitGate n _ hq _ _ rep2_sigmaz)
    exact ⟨{ st with ρ := some m' }, by simp only [Noise.dmGate, kindOfGen, hm, e, Except.map], m', rfl, r, hc⟩

theorem exec_sdg (np n nc : Nat) (det : Bool) (st : Noise.DmSt) (h : HState n) (hst : RepSt n nc st h)
    (r1 : Nat) (t1 : Noise.RegT) (hq : Noise.qIndex np r1 t1 < n) :
    ∃ st', Noise.dmGate np n det { kind := .sdg, r1 := r1, t1 := t1 } st = .ok st' ∧
      RepSt n nc st' { h with ρ := applyUnitary h.ρ (oneQ n (Noise.qIndex np r1 t1) phaseDagM) } := by
  obtain ⟨m, hm, hrep, hc⟩ := hst
  obtain ⟨m', e, r⟩ := rep_applyUnitary_one hrep (rep_getOneQubitGate n _ hq _ _ rep2_phaseDag)
  exact ⟨{ st with ρ := some m' }, by simp only [Noise.dmGate, hm, e, Except.map], m', rfl, r, hc⟩

theorem exec_ctrl (np n nc : Nat) (det : Bool) (st : Noise.DmSt) (h : HState n) (hst : RepSt n nc st h)
    (r1 r2 : Nat) (t1 t2 : Noise.RegT) (hc1 : Noise.qIndex np r1 t1 < n) (hc2 : Noise.qIndex np r2 t2 < n)
    (hne : Noise.qIndex np r1 t1 ≠ Noise.qIndex np r2 t2) :
    (∃ st', Noise.dmGate np n det { kind := .cnot, r1 := r1, t1 := t1, r2 := r2, t2 := t2 } st = .ok st' ∧
      RepSt n nc st' { h with ρ := applyUnitary h.ρ (ctrlG n (Noise.qIndex np r1 t1) (Noise.qIndex np r2 t2) sigmaX) }) ∧
    (∃ st', Noise.dmGate np n det { kind := .cz, r1 := r1, t1 := t1, r2 := r2, t2 := t2 } st = .ok st' ∧
      RepSt n nc st' { h with ρ := applyUnitary h.ρ (ctrlG n (Noise.qIndex np r1 t1) (Noise.qIndex np r2 t2) sigmaZ) }) := by
  obtain ⟨m, hm, hrep, hc⟩ := hst
  constructor
  · obtain ⟨u, eu, ru⟩ := rep_getTwoQubitControlledGate n _ _ hc1 hc2 hne _ _ rep2_sigmax
    obtain ⟨m', e, r⟩ := rep_applyUnitary_one hrep ru
    rw [← ctrlG_eq n _ _ hc1 hc2 hne] at r
    exact ⟨{ st with ρ := some m' }, by simp only [Noise.dmGate, hm, eu, e, Except.map], m', rfl, r, hc⟩
  · obtain ⟨u, eu, ru⟩ := rep_getTwoQubitControlledGate n _ _ hc1 hc2 hne _ _ rep2_sigmaz
    obtain ⟨m', e, r⟩ := rep_applyUnitary_one hrep ru
    rw [← ctrlG_eq n _ _ hc1 hc2 hne] at r
    exact ⟨{ st with ρ := some m' }, by simp only [Noise.dmGate, hm, eu, e, Except.map], m', rfl, r, hc⟩

theorem exec_measZ (np n nc : Nat) (det : Bool) (st : Noise.DmSt) (h : HState n) (hst : RepSt n nc st h)
    (r1 : Nat) (t1 : Noise.RegT) (creg : Nat) (hq : Noise.qIndex np r1 t1 < n)
    (hpos : 0 < measNormH h.ρ (projZ n (Noise.qIndex np r1 t1) false) (projZ n (Noise.qIndex np r1 t1) true) (detOf det)
      h.script) :
    ∃ st', Noise.dmGate np n det { kind := .measZ, r1 := r1, t1 := t1, c := creg } st = .ok st' ∧
      RepSt n nc st' ((h.measure (detOf det) (Noise.qIndex np r1 t1)).1.write creg
        (h.measure (detOf det) (Noise.qIndex np r1 t1)).2) := by
  obtain ⟨m, hm, hrep, hc⟩ := hst
  obtain ⟨p0, p1, ep, r0, r1'⟩ := rep_projectorsZ n (Noise.qIndex np r1 t1) hq
  obtain ⟨m', e, r⟩ := rep_applyMeasurement hrep r0 r1' det h.script hpos
  refine ⟨_, by simp [Noise.dmGate, hm, ep, e]; rfl, m', rfl, r, ?_⟩
  show Noise.setRec st.creg creg _ = regsOf nc (h.writes ++ [(creg, _)])
  rw [regsOf_append, hc]
  rfl

theorem exec_classical (np n nc : Nat) (det : Bool) (st : Noise.DmSt) (h : HState n) (hst : RepSt n nc st h)
    (r1 r2 : Nat) (t1 t2 : Noise.RegT) (creg : Nat) (hc1 : Noise.qIndex np r1 t1 < n) (hc2 : Noise.qIndex np r2 t2 < n)
    (hpos : 0 < measNormH h.ρ (projZ n (Noise.qIndex np r1 t1) false) (projZ n (Noise.qIndex np r1 t1) true) (detOf det)
      h.script) :
    let m := h.measure (detOf det) (Noise.qIndex np r1 t1)
    (∃ st', Noise.dmGate np n det { kind := .ccnot, r1 := r1, t1 := t1, r2 := r2, t2 := t2, c := creg } st = .ok st' ∧
      RepSt n nc st' ((m.1.condU m.2 (oneQ n (Noise.qIndex np r2 t2) sigmaX)).write creg m.2)) ∧
    (∃ st', Noise.dmGate np n det { kind := .ccz, r1 := r1, t1 := t1, r2 := r2, t2 := t2, c := creg } st = .ok st' ∧
      RepSt n nc st' ((m.1.condU m.2 (oneQ n (Noise.qIndex np r2 t2) sigmaZ)).write creg m.2)) ∧
    (∃ st', Noise.dmGate np n det { kind := .mcr, r1 := r1, t1 := t1, r2 := r2, t2 := t2, c := creg } st = .ok st' ∧
      RepSt n nc st' (((m.1.condU m.2 (oneQ n (Noise.qIndex np r2 t2) sigmaX)).write creg m.2).reset
        (Noise.qIndex np r1 t1))) := by
  intro mm
  obtain ⟨m, hm, hrep, hc⟩ := hst
  obtain ⟨p0, p1, ep, r0, r1'⟩ := rep_projectorsZ n (Noise.qIndex np r1 t1) hc1
  obtain ⟨m1, e1, rep1⟩ := rep_applyMeasurement hrep r0 r1' det h.script hpos
  have hcreg : Noise.setRec st.creg creg (if mm.2 = true then 1 else 0) = regsOf nc (h.writes ++ [(creg, mm.2)]) := by
    rw [regsOf_append, hc]
  -- the conditional gate, for a 2×2 block `u` represented by `g`
  have cond : ∀ (g : Mat) (u : Matrix Bool Bool ℂ), Rep2 g u →
      ∃ m2, (if mm.2 = true then DM.applyUnitary m1 ⟨1, DM.getOneQubitGate n (Noise.qIndex np r2 t2) g⟩ else .ok m1) = .ok m2 ∧
        Rep n m2 (mm.1.condU mm.2 (oneQ n (Noise.qIndex np r2 t2) u)).ρ := by
    intro g u hg
    cases hb : mm.2 with
    | false =>
      refine ⟨m1, by simp, ?_⟩
      simp only [HState.condU, Bool.false_eq_true, if_false]
      exact rep1
    | true =>
      obtain ⟨m2, e2, rep2⟩ := rep_applyUnitary_one rep1 (rep_getOneQubitGate n _ hc2 _ _ hg)
      refine ⟨m2, by simp [e2], ?_⟩
      simp only [HState.condU, if_true]
      exact rep2
  have hmm2 : (measureH h.ρ (projZ n (Noise.qIndex np r1 t1) false) (projZ n (Noise.qIndex np r1 t1) true) (detOf det)
      h.script).2.1 = mm.2 := rfl
  rw [hmm2] at e1
  refine ⟨?_, ?_, ?_⟩
  · obtain ⟨m2, e2, rep2⟩ := cond _ _ rep2_sigmax
    refine ⟨{ ρ := some m2, creg := Noise.setRec st.creg creg (if mm.2 = true then 1 else 0) }, ?_, m2, rfl, rep2, hcreg⟩
    simp only [Noise.dmGate, hm, ep, e1, e2]
    rfl
  · obtain ⟨m2, e2, rep2⟩ := cond _ _ rep2_sigmaz
    refine ⟨{ ρ := some m2, creg := Noise.setRec st.creg creg (if mm.2 = true then 1 else 0) }, ?_, m2, rfl, rep2, hcreg⟩
    simp only [Noise.dmGate, hm, ep, e1, e2]
    rfl
  · obtain ⟨m2, e2, rep2⟩ := cond _ _ rep2_sigmax
    obtain ⟨m3, e3, rep3⟩ := rep_resetChannel (Noise.qIndex np r1 t1) hc1 rep2
    refine ⟨{ ρ := some m3, creg := Noise.setRec st.creg creg (if mm.2 = true then 1 else 0) }, ?_, m3, rfl, rep3, hcreg⟩
    simp only [Noise.dmGate, hm, ep, e1, e2, e3]
    rfl

/-! ### the compile loop -/

/-- the noise-free `for op in seq` loop of the executable model: a fold of `dmGate` -/
def dmFoldX (np n : Nat) (det : Bool) : List Noise.COp → Noise.DmSt → Except Err Noise.DmSt
  | [], s => .ok s
  | op :: rest, s =>
    match Noise.dmGate np n det op s with
    | .ok s' => dmFoldX np n det rest s'
    | .error e => .error e

theorem dmFoldX_append (np n : Nat) (det : Bool) (a b : List Noise.COp) (s s' : Noise.DmSt)
    (h : dmFoldX np n det a s = .ok s') : dmFoldX np n det (a ++ b) s = dmFoldX np n det b s' := by
  induction a generalizing s with
  | nil => simp only [dmFoldX] at h; injection h with h; subst h; rfl
  | cons op rest ih =>
    simp only [List.cons_append, dmFoldX] at h ⊢
    cases h1 : Noise.dmGate np n det op s with
    | error e => rw [h1] at h; cases h
    | ok s1 => rw [h1] at h; simp only at h ⊢; exact ih s1 h

theorem placeOp_off' (np : Nat) (op : Noise.COp) (k : Nat) : Noise.placeOp false .dm np op k = .ok [.gate k] := by
  unfold Noise.placeOp
  simp

/-- with noise simulation off, `compileDM`'s loop is the fold of `dmGate` -/
theorem dmGo_off (np n : Nat) (det : Bool) (arr : Array Noise.COp) :
    ∀ (rest : List Noise.COp) (k : Nat) (s : Noise.DmSt),
      (∀ i (hi : i < rest.length), arr.getD (k + i) { kind := .identity } = rest[i]) →
      Noise.dmGo false np n det arr rest k s = dmFoldX np n det rest s := by
  intro rest
  induction rest with
  | nil => intro k s _; rfl
  | cons op rest ih =>
    intro k s harr
    have h0 : arr.getD k { kind := .identity } = op := by
      have := harr 0 (by simp)
      simpa using this
    simp only [Noise.dmGo, placeOp_off', Noise.runDmActs, Noise.dmAct, h0, dmFoldX]
    cases h1 : Noise.dmGate np n det op s with
    | error e => rfl
    | ok s1 =>
      simp only
      apply ih
      intro i hi
      have := harr (i + 1) (by simp; omega)
      simp only [List.getElem_cons_succ] at this
      rw [← this]
      congr 1
      omega

theorem exec_gen1_list (np n nc : Nat) (det : Bool) (r1 : Nat) (t1 : Noise.RegT) (hq : Noise.qIndex np r1 t1 < n)
    (gs : List Cliff.Gen) :
    ∀ (st : Noise.DmSt) (h : HState n), RepSt n nc st h →
      ∃ st', dmFoldX np n det (gs.map fun g => { kind := kindOfGen g, r1 := r1, t1 := t1 }) st = .ok st' ∧
        RepSt n nc st' { h with ρ := gs.foldl (fun ρ g => gen1H n ρ g (Noise.qIndex np r1 t1)) h.ρ } := by
  induction gs with
  | nil => intro st h hst; exact ⟨st, rfl, hst⟩
  | cons g rest ih =>
    intro st h hst
    obtain ⟨st1, e1, r1'⟩ := exec_gen1 np n nc det st h hst g r1 t1 hq
    obtain ⟨st2, e2, r2⟩ := ih st1 _ r1'
    refine ⟨st2, ?_, r2⟩
    simp only [List.map_cons, dmFoldX, e1]
    exact e2

/-- **One circuit operation**: the executable model's steps for the translated operation take a state representing
    `ρ(s.t)` (with the registers of `s`) to one representing `ρ(s'.t)` (with the registers of `s'`). -/
theorem exec_op (np n nc : Nat) (det : Bool) (s s' : RunState) (op : Graphiq.COp) (hwf : op.WF np) (hinv : RunInv n s)
    (hs : stepOp np n (detOf det) s op = some s') (st : Noise.DmSt) (hst : RepSt n nc st (hstate n s)) :
    ∃ st', dmFoldX np n det (trOp op) st = .ok st' ∧ RepSt n nc st' (hstate n s') := by
  have hH := dmStepH_stab np n (detOf det) s s' op hwf hinv hs
  obtain ⟨hv, hn, hr⟩ := hinv
  have hpos : ∀ q, q < n → 0 < measNormH (hstate n s).ρ (projZ n q false) (projZ n q true) (detOf det) (hstate n s).script := by
    intro q hq
    subst hn
    exact measNormH_pos_tab s hv hr (detOf det) q hq
  have one : ∀ (o : Noise.COp) (h' : HState n),
      (∃ st', Noise.dmGate np n det o st = .ok st' ∧ RepSt n nc st' h') → some h' = some (hstate n s') →
      ∃ st', dmFoldX np n det [o] st = .ok st' ∧ RepSt n nc st' (hstate n s') := by
    intro o h' ⟨st', e, r⟩ heq
    injection heq with heq
    refine ⟨st', ?_, heq ▸ r⟩
    simp only [dmFoldX, e]
  cases op with
  | gate1 g q =>
    simp only [stepOp] at hs
    split at hs
    · next hq =>
      simp only [dmStepH, if_pos hq] at hH
      rw [← qIndex_tr] at hq hH
      exact one _ _ (exec_gen1 np n nc det st _ hst g q.idx (regT q.ty) hq) hH
    · cases hs
  | pdag q =>
    simp only [stepOp] at hs
    split at hs
    · next hq =>
      simp only [dmStepH, if_pos hq] at hH
      rw [← qIndex_tr] at hq hH
      exact one _ _ (exec_sdg np n nc det st _ hst q.idx (regT q.ty) hq) hH
    · cases hs
  | cnot c t =>
    simp only [stepOp] at hs
    split at hs
    · next hq =>
      have hne : Graphiq.qIndex np c ≠ Graphiq.qIndex np t := hwf
      simp only [dmStepH, if_pos hq, if_neg hne] at hH
      rw [← qIndex_tr np c, ← qIndex_tr np t] at hq hH hne
      exact one _ _ (exec_ctrl np n nc det st _ hst c.idx t.idx (regT c.ty) (regT t.ty) hq.1 hq.2 hne).1 hH
    · cases hs
  | cz c t =>
    simp only [stepOp] at hs
    split at hs
    · next hq =>
      have hne : Graphiq.qIndex np c ≠ Graphiq.qIndex np t := hwf
      simp only [dmStepH, if_pos hq, if_neg hne] at hH
      rw [← qIndex_tr np c, ← qIndex_tr np t] at hq hH hne
      exact one _ _ (exec_ctrl np n nc det st _ hst c.idx t.idx (regT c.ty) (regT t.ty) hq.1 hq.2 hne).2 hH
    · cases hs
  | ccx c t creg =>
    simp only [stepOp] at hs
    split at hs
    · next hq =>
      simp only [dmStepH, if_pos hq] at hH
      have hp := hpos _ hq.1
      rw [← qIndex_tr np c, ← qIndex_tr np t] at hq hH
      rw [← qIndex_tr np c] at hp
      exact one _ _ (exec_classical np n nc det st _ hst c.idx t.idx (regT c.ty) (regT t.ty) creg hq.1 hq.2 hp).1 hH
    · cases hs
  | ccz c t creg =>
    simp only [stepOp] at hs
    split at hs
    · next hq =>
      simp only [dmStepH, if_pos hq] at hH
      have hp := hpos _ hq.1
      rw [← qIndex_tr np c, ← qIndex_tr np t] at hq hH
      rw [← qIndex_tr np c] at hp
      exact one _ _ (exec_classical np n nc det st _ hst c.idx t.idx (regT c.ty) (regT t.ty) creg hq.1 hq.2 hp).2.1 hH
    · cases hs
  | mcr c t creg =>
    simp only [stepOp] at hs
    split at hs
    · next hq =>
      simp only [dmStepH, if_pos hq] at hH
      have hp := hpos _ hq.1
      rw [← qIndex_tr np c, ← qIndex_tr np t] at hq hH
      rw [← qIndex_tr np c] at hp
      exact one _ _ (exec_classical np n nc det st _ hst c.idx t.idx (regT c.ty) (regT t.ty) creg hq.1 hq.2 hp).2.2 hH
    · cases hs
  | measz q creg =>
    simp only [stepOp] at hs
    split at hs
    · next hq =>
      simp only [dmStepH, if_pos hq] at hH
      have hp := hpos _ hq
      rw [← qIndex_tr np q] at hq hH hp
      exact one _ _ (exec_measZ np n nc det st _ hst q.idx (regT q.ty) creg hq hp) hH
    · cases hs
  | wrap gs q =>
    simp only [stepOp] at hs
    split at hs
    · next hq =>
      simp only [dmStepH, if_pos hq] at hH
      rw [← qIndex_tr np q] at hq hH
      obtain ⟨st', e, r⟩ := exec_gen1_list np n nc det q.idx (regT q.ty) hq gs.reverse st _ hst
      injection hH with hH
      exact ⟨st', e, hH ▸ r⟩
    · cases hs

theorem trOps_cons (op : Graphiq.COp) (rest : List Graphiq.COp) : trOps (op :: rest) = trOp op ++ trOps rest := by
  simp [trOps]

theorem exec_fold (np n nc : Nat) (det : Bool) (ops : List Graphiq.COp) (hwf : ∀ op, op ∈ ops → op.WF np) :
    ∀ (s s' : RunState) (st : Noise.DmSt), RunInv n s → RepSt n nc st (hstate n s) →
      ops.foldlM (stepOp np n (detOf det)) s = some s' →
      ∃ st', dmFoldX np n det (trOps ops) st = .ok st' ∧ RepSt n nc st' (hstate n s') := by
  induction ops with
  | nil =>
    intro s s' st _ hst hs
    simp only [List.foldlM] at hs
    injection hs with hs
    subst hs
    exact ⟨st, rfl, hst⟩
  | cons op rest ih =>
    intro s s' st hinv hst hs
    simp only [List.foldlM] at hs
    cases h1 : stepOp np n (detOf det) s op with
    | none => rw [h1] at hs; simp at hs
    | some s1 =>
      rw [h1] at hs
      simp only [Option.bind_eq_bind, Option.bind_some] at hs
      obtain ⟨st1, e1, r1⟩ := exec_op np n nc det s s1 op (hwf op List.mem_cons_self) hinv h1 st hst
      obtain ⟨st2, e2, r2⟩ := ih (fun o ho => hwf o (List.mem_cons_of_mem _ ho)) s1 s' st1
        (stepOp_inv np n (detOf det) s s1 op (hwf op List.mem_cons_self) hinv h1) r1 hs
      refine ⟨st2, ?_, r2⟩
      rw [trOps_cons, dmFoldX_append np n det _ _ st st1 e1]
      exact e2

/-- **The executable density-matrix model agrees with the stabilizer model.**  For every circuit, every register mix,
    both forced settings (any script — forced runs never read it): if the stabilizer compile loop returns `s`, then
    `compileDM` (noise simulation off) on the unwrapped circuit returns a matrix of size `2^(ne+np)` whose entry at the
    numpy indices of the basis strings `a, b` is the entry `ρ(s.t) a b` of `∏ (1 + g_i)/2`, and the classical registers
    are those written by `s`. -/
theorem compileDM_eq_stab (ne np nc : Nat) (det : Bool) (script : List Bool) (ops : List Graphiq.COp)
    (hwf : ∀ op, op ∈ ops → op.WF np) (s : RunState) (h : stabRun ne np (detOf det) script ops = some s) :
    ∃ m, Noise.compileDM false ne np nc det (trOps ops) = .ok { ρ := some m, creg := regsOf nc s.writes } ∧
      Rep (ne + np) m (rho (ne + np) (STab.ofTab s.t)) := by
  unfold stabRun stabRunFrom at h
  have hst0 : RepSt (ne + np) nc
      { ρ := some (⟨DM.pow2 (ne + np), fun i j => if i = 0 ∧ j = 0 then 1 else 0⟩ : Mat).norm, creg := List.replicate nc 0 }
      (hstate (ne + np) { t := Tab.ket0 (ne + np), writes := [], script := script, rand := [], outs := [] }) := by
    refine ⟨_, rfl, ?_, rfl⟩
    have := (rep_rho0 (ne + np)).norm
    refine this.congr ?_
    show ket0H (ne + np) = _
    exact ket0H_eq (ne + np)
  obtain ⟨st', e, m, hm, hrep, hc⟩ := exec_fold np (ne + np) nc det ops hwf _ s _
    ⟨Tab.ket0_valid _, rfl, ket0_stabReal _⟩ hst0 h
  refine ⟨m, ?_, hrep⟩
  unfold Noise.compileDM
  simp only
  rw [dmGo_off np (ne + np) det (trOps ops).toArray (trOps ops) 0 _ (by intro i hi; simp [Array.getD, hi]), e]
  cases st' with
  | mk ρ' creg' =>
    simp only at hm hc
    rw [hm, hc]
    rfl

/-! ### the register array is the final record -/

theorem setRec_eq (r : List Nat) (c v : Nat) : Noise.setRec r c v = r.set c v := rfl

theorem finalRecord_length (nc : Nat) (w : List (Nat × Bool)) : (finalRecord nc w).length = nc := by
  simp [finalRecord]

theorem finalRecord_get (nc : Nat) (w : List (Nat × Bool)) (i : Nat) (hi : i < nc) :
    (finalRecord nc w)[i]'(by rw [finalRecord_length]; exact hi)
      = ((w.filter fun x => x.1 = i).getLast?.map (·.2)).getD false := by
  simp [finalRecord]

/-- the register array of the executable model is the final record of the run (as 0/1) -/
theorem regsOf_eq_finalRecord (nc : Nat) (w : List (Nat × Bool)) :
    regsOf nc w = (finalRecord nc w).map fun b => if b then 1 else 0 := by
  induction w using List.reverseRecOn with
  | nil =>
    apply List.ext_getElem
    · simp [regsOf, finalRecord]
    · intro i h1 h2
      simp [regsOf, finalRecord]
  | append_singleton w x ih =>
    obtain ⟨c, v⟩ := x
    rw [regsOf_append, ih, setRec_eq]
    apply List.ext_getElem
    · simp [finalRecord]
    · intro i h1 h2
      have hi : i < nc := by simpa [finalRecord] using h2
      rw [List.getElem_set]
      simp only [List.getElem_map]
      rw [finalRecord_get nc _ i hi, finalRecord_get nc _ i hi]
      by_cases hci : c = i
      · subst hci
        simp [List.filter_append]
      · rw [if_neg hci]
        simp [List.filter_append, hci]

/-! ### entirely inside the executable world -/

/-- **`compileDM` returns the executable `stabilizerDensity` of the stabilizer run's tableau**, entry by entry:
    both sides are computable exact matrices over ℚ[i] (`Mat.EqOn` = same size, equal entries below the size). -/
theorem compileDM_eq_stabilizerDensity (ne np nc : Nat) (det : Bool) (script : List Bool) (ops : List Graphiq.COp)
    (hwf : ∀ op, op ∈ ops → op.WF np) (s : RunState) (h : stabRun ne np (detOf det) script ops = some s) :
    ∃ m, Noise.compileDM false ne np nc det (trOps ops)
        = .ok { ρ := some m, creg := (finalRecord nc s.writes).map fun b => if b then 1 else 0 } ∧
      Mat.EqOn m (DM.stabilizerDensity s.t) := by
  obtain ⟨m, e, hrep⟩ := compileDM_eq_stab ne np nc det script ops hwf s h
  rw [regsOf_eq_finalRecord] at e
  refine ⟨m, e, ?_⟩
  have hn : s.t.n = ne + np := (stabRun_inv ne np (detOf det) script ops hwf s h).2.1
  have h2 := rep_stabilizerDensity s.t
  rw [hn] at h2
  exact rep_eqOn hrep h2

end DMX
end Graphiq
