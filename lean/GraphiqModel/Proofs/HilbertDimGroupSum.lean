/-
  Proofs/HilbertDimGroupSum.lean — the state of a tableau as the average over its stabilizer group, and the mask calculus for
  subset products (`STab.mprod`): `∏ (1 + P_i)/2 = 2^{-k} Σ_{mask < 2^k} (subset product)`.

  This file deliberately does not import the `InnerProduct*` (C05) or `Echelon*` (C03) developments — they cannot be imported
  together — so the few row-product lemmas it needs are proved here (primed names).
-/
import GraphiqModel.Proofs.HilbertDimExpect
import GraphiqModel.Model.OverlapSpec
namespace Graphiq
namespace Hilbert
open Matrix PRow TabSpec Tab STab

/-! ### masks and subset products -/

theorem mprod_eq_sprod' (n : Nat) (row : Nat → PRow) (mask m : Nat) :
    mprod n row mask m = sprod n row (fun i => mask.testBit i) m := by
  induction m with
  | zero => rfl
  | succ k ih => simp only [mprod, sprod, ih]

/-- every subset of `{0..n-1}` is the bit pattern of a number below `2^n` -/
theorem mask_of_subset' (n : Nat) (S : Nat → Bool) : ∃ m, m < 2 ^ n ∧ ∀ i, i < n → m.testBit i = S i := by
  induction n with
  | zero => exact ⟨0, by decide, fun i hi => by omega⟩
  | succ k ih =>
    obtain ⟨m, hm, hb⟩ := ih
    cases hS : S k
    · refine ⟨m, by rw [Nat.pow_succ]; omega, fun i hi => ?_⟩
      by_cases hik : i = k
      · subst hik; rw [hS]; exact Nat.testBit_lt_two_pow hm
      · exact hb i (by omega)
    · refine ⟨2 ^ k + m, by rw [Nat.pow_succ]; omega, fun i hi => ?_⟩
      by_cases hik : i = k
      · subst hik; rw [hS, Nat.testBit_two_pow_add_eq, Nat.testBit_lt_two_pow hm]; rfl
      · have hlt : i < k := by omega
        rw [Nat.testBit_two_pow_add_gt hlt]; exact hb i hlt

/-- membership in the signed group of a real commuting tableau = being one of the `2^n` subset products -/
theorem spn_iff_mask' (t : STab) (hg : t.Good) (g : PRow) :
    t.Spn g ↔ ∃ m, m < 2 ^ t.n ∧ EqOn t.n g (mprod t.n t.row m t.n) := by
  constructor
  · intro h
    obtain ⟨S, hS⟩ := spn_repr t hg g h
    obtain ⟨m, hm, hb⟩ := mask_of_subset' t.n S
    refine ⟨m, hm, ?_⟩
    rw [mprod_eq_sprod', sprod_congr t.n t.row _ S t.n hb]
    exact hS
  · rintro ⟨m, _, e⟩
    rw [mprod_eq_sprod'] at e
    exact InSpan.eqv _ _ (sprod_spn t _ t.n (Nat.le_refl _)) e.symm

theorem sprod_eqOn_rows' (n : Nat) (row row' : Nat → PRow) (S : Nat → Bool) (m : Nat)
    (h : ∀ i, i < m → EqOn n (row i) (row' i)) : EqOn n (sprod n row S m) (sprod n row' S m) := by
  induction m with
  | zero => exact EqOn.refl _ _
  | succ k ih =>
    have ih := ih (fun i hi => h i (Nat.lt_succ_of_lt hi))
    simp only [sprod]
    cases S k
    · exact ih
    · exact mul_congr n _ _ _ _ (h k (Nat.lt_succ_self k)) ih

theorem sprod_spn_gens' (A : STab) (gens : Nat → PRow) (d : Nat) (hm : ∀ i, i < d → A.Spn (gens i)) (S : Nat → Bool)
    (m : Nat) (hmd : m ≤ d) : A.Spn (sprod A.n gens S m) := by
  induction m with
  | zero => exact InSpan.one
  | succ k ih =>
    simp only [sprod]
    cases S k
    · exact ih (by omega)
    · exact InSpan.mul _ _ (hm k (by omega)) (ih (by omega))

/-- product of two subset products of elements of a real commuting group = subset product of the symmetric difference -/
theorem sprod_mul_gens' (A : STab) (hg : A.Good) (gens : Nat → PRow) (d : Nat) (hm : ∀ i, i < d → A.Spn (gens i))
    (S T : Nat → Bool) (m : Nat) (hmd : m ≤ d) :
    EqOn A.n (PRow.mul A.n (sprod A.n gens S m) (sprod A.n gens T m)) (sprod A.n gens (fun i => xor (S i) (T i)) m) := by
  induction m with
  | zero => exact one_mul A.n _
  | succ k ih =>
    have ih := ih (by omega)
    have hk : k < d := by omega
    have hA := sprod_spn_gens' A gens d hm S k (by omega)
    have hr := hm k hk
    have rr := spn_real A hg _ hr
    have cA : sp A.n (sprod A.n gens S k) (gens k) = false := spn_comm A hg _ _ hA hr
    simp only [sprod]
    cases hS : S k <;> cases hT : T k <;> simp only [cond_true, cond_false, Bool.xor_false,
      Bool.xor_true, Bool.not_false, Bool.not_true]
    · exact ih
    · exact (((mul_assoc A.n _ _ _).symm.trans
        (mul_congr A.n _ _ _ _ (mul_comm A.n _ _ cA) (EqOn.refl _ _))).trans (mul_assoc A.n _ _ _)).trans
        (mul_congr A.n _ _ _ _ (EqOn.refl _ _) ih)
    · exact (mul_assoc A.n _ _ _).trans (mul_congr A.n _ _ _ _ (EqOn.refl _ _) ih)
    · have e1 : EqOn A.n (PRow.mul A.n (gens k) (PRow.mul A.n (gens k) (sprod A.n gens T k))) (sprod A.n gens T k) :=
        ((mul_assoc A.n _ _ _).symm.trans
          (mul_congr A.n _ _ _ _ (mul_self A.n _ rr) (EqOn.refl _ _))).trans (one_mul A.n _)
      have cA' : sp A.n (gens k) (sprod A.n gens S k) = false := by rw [sp_comm]; exact cA
      exact (((mul_congr A.n _ _ _ _ (mul_comm A.n _ _ cA') (EqOn.refl _ _)).trans (mul_assoc A.n _ _ _)).trans
        (mul_congr A.n _ _ _ _ (EqOn.refl _ _) e1)).trans ih

theorem mprod_congr (n : Nat) (row : Nat → PRow) (m m' k : Nat) (h : ∀ i, i < k → m.testBit i = m'.testBit i) :
    mprod n row m k = mprod n row m' k := by
  induction k with
  | zero => rfl
  | succ j ih =>
    simp only [mprod]
    rw [h j (Nat.lt_succ_self j), ih (fun i hi => h i (Nat.lt_succ_of_lt hi))]

theorem mprod_low (n : Nat) (row : Nat → PRow) (m k : Nat) (hm : m < 2 ^ k) :
    mprod n row m (k + 1) = mprod n row m k := by
  simp only [mprod, Nat.testBit_lt_two_pow hm, cond_false]

theorem mprod_high (n : Nat) (row : Nat → PRow) (m k : Nat) (hm : m < 2 ^ k) :
    mprod n row (2 ^ k + m) (k + 1) = PRow.mul n (row k) (mprod n row m k) := by
  have hb : (2 ^ k + m).testBit k = true := by
    rw [Nat.testBit_two_pow_add_eq, Nat.testBit_lt_two_pow hm]; rfl
  simp only [mprod, hb, cond_true]
  rw [mprod_congr n row (2 ^ k + m) m k (fun i hi => Nat.testBit_two_pow_add_gt hi m)]

/-! ### the product of projectors as a sum over subset products -/

/-- **`∏ (1 + P_i)/2 = 2^{-k} Σ_S ∏_{i∈S} P_i`** -/
theorem rhoTo_mask_sum (n : Nat) (r : Nat → PRow) (k : Nat) (hg : GoodTo n r k) :
    rhoTo n r k = (1 / 2 : ℂ) ^ k • ∑ m ∈ Finset.range (2 ^ k), pauliMat n (mprod n r m k) := by
  induction k with
  | zero =>
    show (1 : Matrix (Bits n) (Bits n) ℂ) = _
    simp [mprod, pauliMat_one]
  | succ j ih =>
    have hc := proj_commute_rhoTo n r j hg
    show rhoTo n r j * proj n (r j) = _
    rw [← hc, ih (hg.mono (Nat.le_succ j))]
    have hsplit : ∑ m ∈ Finset.range (2 ^ (j + 1)), pauliMat n (mprod n r m (j + 1))
        = ∑ m ∈ Finset.range (2 ^ j), pauliMat n (mprod n r m j)
          + ∑ m ∈ Finset.range (2 ^ j), pauliMat n (r j) * pauliMat n (mprod n r m j) := by
      have e : 2 ^ (j + 1) = 2 ^ j + 2 ^ j := by rw [Nat.pow_succ]; omega
      rw [e, Finset.sum_range_add]
      congr 1
      · apply Finset.sum_congr rfl
        intro m hm
        rw [mprod_low n r m j (Finset.mem_range.mp hm)]
      · apply Finset.sum_congr rfl
        intro m hm
        rw [mprod_high n r m j (Finset.mem_range.mp hm), pauliMat_mul]
    rw [hsplit]
    unfold proj
    rw [smul_mul_smul_comm, add_mul, Matrix.one_mul, Finset.mul_sum, pow_succ, _root_.mul_comm]

/-! ### group of a Clifford tableau vs span of its stabilizer half -/

theorem spn_of_grp (t : Tab) (hr : t.StabReal) (g : PRow) : Grp t g ↔ (STab.ofTab t).Spn g := by
  constructor
  · exact inSpan_ofTab t hr g
  · intro h
    unfold STab.Spn at h
    show Tab.InSpan t.n t.n t.stab g
    have h' : Tab.InSpan t.n t.n (STab.ofTab t).row g := h
    induction h' with
    | one => exact Tab.InSpan.one
    | gen i hi =>
      rw [ofTab_row_real t hr i hi]; exact Tab.InSpan.gen i hi
    | mul a b _ _ iha ihb => exact Tab.InSpan.mul a b (iha (by assumption)) (ihb (by assumption))
    | eqv a b _ hab iha => exact Tab.InSpan.eqv a b (iha (by assumption)) hab

/-- the subset of generators is read off a subset product (valid tableau: the destabilizers witness independence) -/
theorem mask_unique (a : Tab) (va : a.Valid) (ra : a.StabReal) (m m' : Nat) (hm : m < 2 ^ a.n) (hm' : m' < 2 ^ a.n)
    (h : EqOn a.n (mprod a.n (STab.ofTab a).row m a.n) (mprod a.n (STab.ofTab a).row m' a.n)) : m = m' := by
  have rows : ∀ i, i < a.n → EqOn a.n ((STab.ofTab a).row i) (a.stab i) := by
    intro i hi; rw [ofTab_row_real a ra i hi]; exact EqOn.refl _ _
  have bit : ∀ (x : Nat) k, k < a.n →
      sp a.n (a.row k) (mprod a.n (STab.ofTab a).row x a.n) = x.testBit k := by
    intro x k hk
    rw [mprod_eq_sprod', sp_eqOn _ _ _ _ _ (EqOn.refl _ _) (sprod_eqOn_rows' a.n _ a.stab _ a.n rows)]
    exact sp_destab_sprod a va _ k hk
  apply Nat.eq_of_testBit_eq
  intro k
  by_cases hk : k < a.n
  · rw [← bit m k hk, ← bit m' k hk, sp_eqOn _ _ _ _ _ (EqOn.refl _ _) h]
  · have h1 : m < 2 ^ k := Nat.lt_of_lt_of_le hm (Nat.pow_le_pow_right (by decide) (by omega))
    have h2 : m' < 2 ^ k := Nat.lt_of_lt_of_le hm' (Nat.pow_le_pow_right (by decide) (by omega))
    rw [Nat.testBit_lt_two_pow h1, Nat.testBit_lt_two_pow h2]

open Classical in
/-- expectation value of a real Pauli in the state of `b`, read off the group -/
noncomputable def expVal (b : Tab) (g : PRow) : ℂ := if Grp b g then 1 else if Grp b (negate g) then -1 else 0

theorem trace_pauli_rho_eq_expVal (b : Tab) (vb : b.Valid) (rb : b.StabReal) (g : PRow) (hg : g.ip = false) :
    Matrix.trace (pauliMat b.n g * rho b.n (STab.ofTab b)) = expVal b g := by
  obtain ⟨f1, f2, f3⟩ := pauli_expectation b vb rb g hg
  unfold expVal
  by_cases h1 : Grp b g
  · rw [if_pos h1]; exact f1 h1
  · rw [if_neg h1]
    by_cases h2 : Grp b (negate g)
    · rw [if_pos h2]; exact f2 h2
    · rw [if_neg h2]; exact f3 h1 h2

/-- **`tr(ρ_a ρ_b) = 2^{-n} Σ_mask ⟨g_mask⟩_b`** -/
theorem trace_rho_mul_rho (a b : Tab) (hn : a.n = b.n) (va : a.Valid) (vb : b.Valid) (rb : b.StabReal) :
    Matrix.trace (rho b.n (STab.ofTab a) * rho b.n (STab.ofTab b))
      = (1 / 2 : ℂ) ^ b.n * ∑ m ∈ Finset.range (2 ^ b.n), expVal b (mprod b.n (STab.ofTab a).row m b.n) := by
  have ga := ofTab_good a va
  have gto : GoodTo b.n (STab.ofTab a).row b.n := by
    have := ga.goodTo
    have e : (STab.ofTab a).n = b.n := hn
    rw [e] at this; exact this
  have hrho : rho b.n (STab.ofTab a) = rhoTo b.n (STab.ofTab a).row b.n := by
    show rhoTo b.n (STab.ofTab a).row a.n = _; rw [hn]
  rw [hrho, rhoTo_mask_sum b.n _ b.n gto, smul_mul_assoc, Matrix.trace_smul, Finset.sum_mul, Matrix.trace_sum, smul_eq_mul]
  congr 1
  apply Finset.sum_congr rfl
  intro m _
  apply trace_pauli_rho_eq_expVal b vb rb
  have hs : (STab.ofTab a).Spn (mprod a.n (STab.ofTab a).row m a.n) := by
    rw [mprod_eq_sprod']; exact STab.sprod_spn (STab.ofTab a) _ a.n (Nat.le_refl _)
  rw [← hn]
  exact STab.spn_real (STab.ofTab a) ga _ hs

end Hilbert
end Graphiq
