/-
  Proofs/InvIndepLin.lean — the bit-level independence predicate of Proofs/InvTotal.lean (`STab.Indep`: no non-empty
  subset of the rows has a GF(2) combination without any bit) is linear independence over `ZMod 2` of the symplectic
  vectors `PRow.vec` used by C03 (`height_returns_iff_independent`, `rref_total`).

  This file imports only the echelon chain (Proofs/HeightEntropy.lean) and spells the predicate out, so that it can be
  used from either chain: the right-hand side below is, by unfolding `STab.xb`/`STab.zb`, literally `STab.Indep t`.
-/
import GraphiqModel.Proofs.HeightEntropy
namespace Graphiq
open Module Tab
namespace STab

theorem selOf_b2z {n : Nat} (S : Nat → Bool) (i : Nat) (hi : i < n) :
    selOf (fun k : Fin n => b2z (S k.val)) i = S i := by
  unfold selOf
  rw [dif_pos hi]
  show decide (b2z (S i) = 1) = S i
  cases S i
  · exact decide_eq_false (by decide)
  · exact decide_eq_true (by decide)

/-- **linear independence of the symplectic vectors = bit-level independence of the rows** -/
theorem linearIndependent_iff_bits (t : STab) :
    LinearIndependent (ZMod 2) (fun i : Fin t.n => (t.row i).vec t.n) ↔
    ∀ S : Nat → Bool,
      (∀ j, j < t.n → parityTo t.n (fun i => S i && (t.row i).x j) = false ∧
        parityTo t.n (fun i => S i && (t.row i).z j) = false) →
      ∀ i, i < t.n → S i = false := by
  constructor
  · intro h S hS i hi
    have hsum : ∑ k : Fin t.n, (fun k : Fin t.n => b2z (S k.val)) k • (t.row k).vec t.n = 0 := by
      funext j
      rw [lincomb_apply t.n t.row _ j]
      have e1 : parityTo t.n (fun i => selOf (fun k : Fin t.n => b2z (S k.val)) i && (t.row i).x j)
          = parityTo t.n (fun i => S i && (t.row i).x j) :=
        parityTo_congr _ _ _ (fun i hi => by rw [selOf_b2z S i hi])
      have e2 : parityTo t.n (fun i => selOf (fun k : Fin t.n => b2z (S k.val)) i && (t.row i).z j)
          = parityTo t.n (fun i => S i && (t.row i).z j) :=
        parityTo_congr _ _ _ (fun i hi => by rw [selOf_b2z S i hi])
      rw [e1, e2, (hS j j.isLt).1, (hS j j.isLt).2]
      rfl
    have := Fintype.linearIndependent_iff.1 h _ hsum ⟨i, hi⟩
    exact (b2z_eq_zero (S i)).1 this
  · intro h
    apply Fintype.linearIndependent_iff.2
    intro c hc i
    have hz := h (selOf c) (by
      intro j hj
      have := congrFun hc ⟨j, hj⟩
      rw [lincomb_apply t.n t.row c ⟨j, hj⟩] at this
      have h1 := congrArg Prod.fst this
      have h2 := congrArg Prod.snd this
      exact ⟨(b2z_eq_zero _).1 h1, (b2z_eq_zero _).1 h2⟩) i.val i.isLt
    rw [selOf_val] at hz
    rcases zmod2_cases (c i) with h0 | h1
    · exact h0
    · rw [h1] at hz; simp at hz

end STab
end Graphiq
