/-
  Proofs/LCTotalR.lean — totality of the repaired `is_lc_equivalent` (`isLcEquivalentR`): every component is non-empty, so
  every call of `_is_lc_equivalent_component` returns (`isLcEquivalent_total`), hence so does the loop over the components.
-/
import GraphiqModel.Proofs.LCRepair
import GraphiqModel.Proofs.LCTotal
namespace Graphiq.LC
open Graphiq

theorem componentLoop_total (a b : BMat) (mode : Mode) (hmode : mode ≠ .other) (comps : List (List Nat))
    (hne : ∀ c ∈ comps, 0 < c.length) (draws : List (List Bool)) (sol : List Bool) (parts : List EqOut) :
    ∃ r, componentLoop a b mode comps draws sol parts = .ok r := by
  induction comps generalizing draws sol parts with
  | nil => exact ⟨_, rfl⟩
  | cons c rest ih =>
    obtain ⟨out, ho⟩ := isLcEquivalent_total (subMat a c) (subMat b c) mode (draws.headD [])
      (hne c List.mem_cons_self) rfl hmode
    simp only [componentLoop, ho]
    split
    · exact ⟨_, rfl⟩
    · exact ih (fun c' h' => hne c' (List.mem_cons_of_mem _ h')) _ _ _

/-- **the repaired `is_lc_equivalent` is total**: on two simple graphs of the same size, in deterministic or random mode, it
    returns — no assertion of `_is_lc_equivalent_component` can fire on any component -/
theorem isLcEquivalentR_total (a b : BMat) (mode : Mode) (draws : List (List Bool)) (hab : a.r = b.r)
    (ha : Simple a.r a.f) (hmode : mode ≠ .other) : ∃ out, isLcEquivalentR a b mode draws = .ok out := by
  unfold isLcEquivalentR
  simp only []
  rw [if_neg (by rw [hab]; simp)]
  split
  · exact ⟨_, rfl⟩
  · obtain ⟨r, hr⟩ := componentLoop_total a b mode hmode (connectedComponents a.r a.f)
      (fun c hc => (component_facts a.r a.f ha c hc).1) draws (List.replicate (4 * a.r) false) []
    rw [hr]
    exact ⟨_, rfl⟩

end Graphiq.LC
