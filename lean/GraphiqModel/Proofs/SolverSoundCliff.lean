/-
  Proofs/SolverSoundCliff.lean — `simplify_local_clifford` preserves the tableau action of a one-qubit gate word.

  `Cliff.simplify` (Model/Clifford1.lean) is defined through products of 2×2 Gaussian-integer matrices and equality up to a
  scalar; the tableau semantics of a word is its four-entry table `tblW` (Proofs/SolverSoundLocal.lean).  The bridge is the
  invariant of Proofs/Clifford1.lean strengthened by the table: along every word the pair (matrix product, table) stays, up to
  non-zero scalars, at one of the 24 enumerated members *with the table of that member*.  Three finite, kernel-decided tables
  carry the argument: the 24×6 step table (`step_table_full`), and the pairwise projective distinctness of the 24 member
  matrices (`mats24_distinct`); the initial entry is decided directly.
-/
import GraphiqModel.Proofs.Clifford1
import GraphiqModel.Proofs.SolverSoundLocal
namespace Graphiq.Solver
open Graphiq Graphiq.Cliff

instance : Inhabited L1 := ⟨L1.one⟩

/-- the tables of the 24 enumerated Cliffords -/
def tbl24 : List L1 := all24.map tblW

/-! ### the finite tables -/

/-- **joint step table** (finite, kernel-checked): for the member `k'` that `stepOf k g` finds, the scalars are non-zero,
    the matrix equation holds, and the tables compose accordingly (`prodW` multiplies the new gate on the right, so the new
    gate acts first: `tbl_k ∘ genTbl g`). -/
theorem step_table_full : (List.range 24).all (fun k => Gen.all.all fun g =>
    match stepOf k g with
    | some (k', s, t) =>
        decide (k' < 24) && decide (0 < s.norm) && decide (0 < t.norm)
          && (M2.smul t ((mats24[k]!).mul (gmat g)) == M2.smul s (mats24[k']!))
          && decide ((tbl24[k]!).comp (genTbl g) = tbl24[k']!)
    | none => false) = true := by
  decide +kernel

/-- **distinctness table** (finite, kernel-checked): two of the 24 member matrices equal up to a scalar are the same member -/
theorem mats24_distinct : (List.range 24).all (fun j => (List.range 24).all fun k =>
    !((mats24[j]!).peq (mats24[k]!)) || j == k) = true := by
  decide +kernel

theorem mats24_inj (j k : Nat) (hj : j < 24) (hk : k < 24) (h : (mats24[j]!).peq (mats24[k]!) = true) : j = k := by
  have tbl := mats24_distinct
  simp only [List.all_eq_true, List.mem_range] at tbl
  have h' := tbl j hj k hk
  rw [h] at h'
  simpa using h'

theorem step_table' (k : Nat) (hk : k < 24) (g : Gen) :
    ∃ k', k' < 24 ∧ ∃ s t : GI, 0 < s.norm ∧ 0 < t.norm ∧
      M2.smul t ((mats24[k]!).mul (gmat g)) = M2.smul s (mats24[k']!) ∧
      (tbl24[k]!).comp (genTbl g) = tbl24[k']! := by
  have tbl := step_table_full
  simp only [List.all_eq_true, List.mem_range] at tbl
  have hg : g ∈ Gen.all := by cases g <;> simp [Gen.all]
  have h := tbl k hk g hg
  cases h1 : stepOf k g with
  | none => rw [h1] at h; simp at h
  | some r =>
    obtain ⟨k', s, t⟩ := r
    rw [h1] at h
    simp only [Bool.and_eq_true, decide_eq_true_eq, beq_iff_eq] at h
    obtain ⟨⟨⟨⟨a1, a2⟩, a3⟩, a4⟩, a5⟩ := h
    exact ⟨k', a1, s, t, a2, a3, a4, a5⟩

/-! ### the strengthened invariant -/

/-- the invariant carried along a word: the partial product equals a member up to non-zero scalars, and the partial table is
    the table of that same member -/
def IsMember' (m : M2) (t : L1) : Prop :=
  ∃ k, k < 24 ∧ ∃ s t' : GI, 0 < s.norm ∧ 0 < t'.norm ∧ M2.smul t' m = M2.smul s (mats24[k]!) ∧ t = tbl24[k]!

theorem tbl24_zero : tbl24[0]! = L1.one := by decide

theorem isMember'_init : IsMember' I2 L1.one := by
  refine ⟨0, by decide, ⟨1, 0⟩, ⟨1, 0⟩, by decide, by decide, ?_, tbl24_zero.symm⟩
  decide

theorem isMember'_step (m : M2) (tb : L1) (g : Gen) (h : IsMember' m tb) :
    IsMember' (m.mul (gmat g)) (tb.comp (genTbl g)) := by
  obtain ⟨k, hk, s, t, hs, ht, e, et⟩ := h
  obtain ⟨k', hk', s', t', hs', ht', e', et'⟩ := step_table' k hk g
  refine ⟨k', hk', s * s', t' * t, ?_, ?_, ?_, ?_⟩
  · rw [GI.norm_mul]; exact Int.mul_pos hs hs'
  · rw [GI.norm_mul]; exact Int.mul_pos ht' ht
  · rw [← smul_smul, ← smul_mul t m, e, smul_mul, smul_comm, e', smul_smul]
  · rw [et, et']

theorem isMember'_foldl (w : List Gen) (accM : M2) (accT : L1) (h : IsMember' accM accT) :
    IsMember' (w.foldl (fun acc g => acc.mul (gmat g)) accM) (w.foldl (fun t g => t.comp (genTbl g)) accT) := by
  induction w generalizing accM accT with
  | nil => exact h
  | cons g rest ih => exact ih _ _ (isMember'_step accM accT g h)

/-- the table of a word as a left fold (the way `prodW` walks the word) -/
theorem foldl_tbl (w : List Gen) (a : L1) : w.foldl (fun t g => t.comp (genTbl g)) a = a.comp (tblW w) := by
  induction w generalizing a with
  | nil => exact (L1.comp_one a).symm
  | cons g rest ih =>
    show rest.foldl (fun t g => t.comp (genTbl g)) (a.comp (genTbl g)) = a.comp ((genTbl g).comp (tblW rest))
    rw [ih, L1.comp_assoc]

/-- every word is, jointly in its matrix (up to non-zero scalars) and its table, one of the 24 members -/
theorem prodW_isMember' (w : List Gen) : IsMember' (prodW w) (tblW w) := by
  have h := isMember'_foldl w I2 L1.one isMember'_init
  rw [foldl_tbl, L1.one_comp] at h
  exact h

/-! ### `peq` transported along a scalar relation -/

theorem GI.mul_left_comm' (a b c : GI) : a * (b * c) = b * (a * c) := by
  rw [← GI.mul_assoc', GI.mul_comm' a b, GI.mul_assoc']

/-- if `E ~ f` (up to a scalar) and `t • f = s • G` with `s ≠ 0`, then `E ~ G` -/
theorem peq_trans_scalars (s t : GI) (hs : 0 < s.norm) (E f G : M2) (h1 : E.peq f = true)
    (h2 : M2.smul t f = M2.smul s G) : E.peq G = true := by
  have ha : t * f.a = s * G.a := congrArg M2.a h2
  have hb : t * f.b = s * G.b := congrArg M2.b h2
  have hc : t * f.c = s * G.c := congrArg M2.c h2
  have hd : t * f.d = s * G.d := congrArg M2.d h2
  have hf : ∀ i, i < 4 → t * f.entries[i]! = s * G.entries[i]! := by
    intro i hi
    have hi' : i = 0 ∨ i = 1 ∨ i = 2 ∨ i = 3 := by omega
    rcases hi' with h | h | h | h <;> subst h <;>
      simp only [M2.entries, List.getElem!_cons_zero, List.getElem!_cons_succ] <;> assumption
  unfold M2.peq at h1 ⊢
  simp only [List.all_eq_true, List.mem_range, beq_iff_eq] at h1 ⊢
  intro i hi j hj
  have e1 := h1 i hi j hj
  have e2 := hf i hi
  have e3 := hf j hj
  generalize E.entries[i]! = ei at e1 ⊢
  generalize E.entries[j]! = ej at e1 ⊢
  generalize f.entries[i]! = fi at e1 e2
  generalize f.entries[j]! = fj at e1 e3
  generalize G.entries[i]! = gi at e2 ⊢
  generalize G.entries[j]! = gj at e3 ⊢
  apply GI.sub_eq_of_mul s _ _ hs
  -- s (e_i g_j) = e_i (t f_j) = t (e_i f_j) = t (e_j f_i) = e_j (s g_i) = s (e_j g_i)
  rw [GI.mul_left_comm' s ei gj, ← e3, GI.mul_left_comm' ei t fj, e1, GI.mul_left_comm' t ej fi, e2,
    GI.mul_left_comm' ej s gi]

/-! ### the bridge -/

theorem all24_length : all24.length = 24 := by decide

/-- **`simplify_local_clifford` returns a word with the same tableau action** (conjugation action on signed Paulis) -/
theorem simplify_tbl (w m : List Gen) (h : simplify w = some m) : tblW m = tblW w := by
  unfold simplify find at h
  have hmem : m ∈ all24 := List.mem_of_find?_eq_some h
  have hp : (prodW m).peq (prodW w) = true := by simpa using List.find?_some h
  obtain ⟨j, hj, ej⟩ := List.getElem_of_mem hmem
  have hj24 : j < 24 := by rw [all24_length] at hj; exact hj
  have mj : mats24[j]! = prodW m := by
    unfold mats24
    simp [hj, ej]
  have tj : tbl24[j]! = tblW m := by
    unfold tbl24
    simp [hj, ej]
  obtain ⟨k, hk, s, t, hs, _, e, et⟩ := prodW_isMember' w
  have hjk : (mats24[j]!).peq (mats24[k]!) = true := by
    rw [mj]
    exact peq_trans_scalars s t hs _ _ _ hp e
  have := mats24_inj j k hj24 hk hjk
  rw [et, ← tj, this]

/-- and it never fails -/
theorem simplify_isSome (w : List Gen) : ∃ m, simplify w = some m := by
  obtain ⟨m, hm, _⟩ := simplify_correct w
  exact ⟨m, hm⟩

/-- the identity pair acts trivially -/
theorem tblW_identityPair : tblW identityPair = L1.one := by decide

end Graphiq.Solver
