/-
  Proofs/InvBits.lean — the bit-level effect of the steps of `inverse_circuit` (gate, row swap, row product) on the x-bit
  matrix, the z-bit matrix and the sign column of the current tableau, and induction principles for its loops.  No Mathlib.
-/
import GraphiqModel.Proofs.InverseCircuit
import GraphiqModel.Proofs.CanonShape
namespace Graphiq
open PRow Tab
namespace STab

/-- the sign column -/
def rb (t : STab) : Nat → Bool := fun m => (t.row m).r

/-! ### rows of the gates, bit by bit -/

theorem h_x (q : Nat) (p : PRow) (j : Nat) : (PRow.h q p).x j = if j = q then p.z j else p.x j := rfl
theorem h_z (q : Nat) (p : PRow) (j : Nat) : (PRow.h q p).z j = if j = q then p.x j else p.z j := rfl
theorem s_x (q : Nat) (p : PRow) (j : Nat) : (PRow.s q p).x j = p.x j := rfl
theorem s_z (q : Nat) (p : PRow) (j : Nat) : (PRow.s q p).z j = if j = q then xor (p.z j) (p.x q) else p.z j := rfl
theorem cnot_x (c t : Nat) (p : PRow) (j : Nat) : (PRow.cnot c t p).x j = if j = t then xor (p.x j) (p.x c) else p.x j := rfl
theorem cnot_z (c t : Nat) (p : PRow) (j : Nat) : (PRow.cnot c t p).z j = if j = c then xor (p.z j) (p.z t) else p.z j := rfl

theorem cz_x (c t : Nat) (hct : c ≠ t) (p : PRow) (j : Nat) : (PRow.cz c t p).x j = p.x j := by
  have htc : t ≠ c := Ne.symm hct
  unfold PRow.cz
  simp only [h_x, cnot_x, h_z, cnot_z]
  by_cases h1 : j = t
  · subst h1; simp [htc]
  · simp [h1]

theorem cz_z (c t : Nat) (hct : c ≠ t) (p : PRow) (j : Nat) :
    (PRow.cz c t p).z j = if j = c then xor (p.z j) (p.x t) else if j = t then xor (p.z j) (p.x c) else p.z j := by
  have htc : t ≠ c := Ne.symm hct
  unfold PRow.cz
  simp only [h_x, cnot_x, h_z, cnot_z]
  by_cases h1 : j = t
  · subst h1; simp [htc]; intro h; exact absurd h hct
  · by_cases h2 : j = c
    · subst h2; simp [hct]
    · simp [h1, h2]

theorem xg_x (q : Nat) (p : PRow) (j : Nat) : (PRow.xg q p).x j = p.x j := by
  unfold PRow.xg PRow.zg
  simp only [h_x, s_x, h_z, s_z]
  by_cases h1 : j = q
  · subst h1; simp
  · simp [h1]

theorem xg_z (q : Nat) (p : PRow) (j : Nat) : (PRow.xg q p).z j = p.z j := by
  unfold PRow.xg PRow.zg
  simp only [h_x, s_x, h_z, s_z]
  by_cases h1 : j = q
  · subst h1; simp
  · simp [h1]

theorem xg_r (q : Nat) (p : PRow) : (PRow.xg q p).r = xor p.r (p.z q) := by
  unfold PRow.xg PRow.zg PRow.h PRow.s
  simp
  cases p.r <;> cases p.x q <;> cases p.z q <;> rfl

/-! ### the three state operations -/

theorem gate_n (st : InvState) (g : Gate) : (st.gate g).t.n = st.t.n := rfl
theorem swap_n (st : InvState) (a b : Nat) : (st.swap a b).t.n = st.t.n := rfl
theorem rsum_n (st : InvState) (a b : Nat) : (st.rsum a b).t.n = st.t.n := rfl
theorem swap_circ (st : InvState) (a b : Nat) : (st.swap a b).circ = st.circ := rfl
theorem rsum_circ (st : InvState) (a b : Nat) : (st.rsum a b).circ = st.circ := rfl

theorem gate_row (st : InvState) (g : Gate) (m : Nat) (hm : m < st.t.n) :
    EqOn st.t.n ((st.gate g).t.row m) (g.act (st.t.row m)) :=
  norm_row (st.t.applyGate g) m hm

theorem gate_xb (st : InvState) (g : Gate) (m c : Nat) (hm : m < st.t.n) (hc : c < st.t.n) :
    xb (st.gate g).t m c = (g.act (st.t.row m)).x c := ((gate_row st g m hm).1 c hc).1
theorem gate_zb (st : InvState) (g : Gate) (m c : Nat) (hm : m < st.t.n) (hc : c < st.t.n) :
    zb (st.gate g).t m c = (g.act (st.t.row m)).z c := ((gate_row st g m hm).1 c hc).2
theorem gate_rb (st : InvState) (g : Gate) (m : Nat) (hm : m < st.t.n) :
    rb (st.gate g).t m = (g.act (st.t.row m)).r := (gate_row st g m hm).2.1

theorem swap_xb (st : InvState) (a b m c : Nat) (hm : m < st.t.n) (hc : c < st.t.n) :
    xb (st.swap a b).t m c = xb st.t (swp a b m) c := swapNorm_bit bitSel_x st.t a b m c hm hc
theorem swap_zb (st : InvState) (a b m c : Nat) (hm : m < st.t.n) (hc : c < st.t.n) :
    zb (st.swap a b).t m c = zb st.t (swp a b m) c := swapNorm_bit bitSel_z st.t a b m c hm hc

theorem rsum_xb (st : InvState) (a b m c : Nat) (hm : m < st.t.n) (hc : c < st.t.n) :
    xb (st.rsum a b).t m c = if m = b then xor (xb st.t a c) (xb st.t b c) else xb st.t m c := by
  show ((st.t.rowSum a b).norm.row m).x c = _
  rw [((norm_row (st.t.rowSum a b) m hm).1 c hc).1]
  simp only [rowSum, upd]
  split
  · next h => subst h; rfl
  · rfl
theorem rsum_zb (st : InvState) (a b m c : Nat) (hm : m < st.t.n) (hc : c < st.t.n) :
    zb (st.rsum a b).t m c = if m = b then xor (zb st.t a c) (zb st.t b c) else zb st.t m c := by
  show ((st.t.rowSum a b).norm.row m).z c = _
  rw [((norm_row (st.t.rowSum a b) m hm).1 c hc).2]
  simp only [rowSum, upd]
  split
  · next h => subst h; rfl
  · rfl

/-! ### real commuting generators are kept -/

theorem gate_good (st : InvState) (g : Gate) (hg : g.WF st.t.n) (h : st.t.Good) : (st.gate g).t.Good :=
  norm_good _ (applyGate_good st.t g hg h)
theorem swap_good (st : InvState) (a b : Nat) (ha : a < st.t.n) (hb : b < st.t.n) (h : st.t.Good) : (st.swap a b).t.Good :=
  norm_good _ (rowSwap_good st.t a b ha hb h)
theorem rsum_good (st : InvState) (a b : Nat) (ha : a < st.t.n) (hb : b < st.t.n) (h : st.t.Good) : (st.rsum a b).t.Good :=
  norm_good _ (rowSum_good st.t a b ha hb h)

/-! ### loops -/

theorem foldl_range_inv {σ : Type} (f : σ → Nat → σ) (P : Nat → σ → Prop) (n : Nat) (s0 : σ) (h0 : P 0 s0)
    (hs : ∀ i s, i < n → P i s → P (i + 1) (f s i)) : P n ((List.range n).foldl f s0) := by
  have key : ∀ m, m ≤ n → P m ((List.range m).foldl f s0) := by
    intro m
    induction m with
    | zero => intro _; exact h0
    | succ k ih =>
      intro hk
      rw [List.range_succ, List.foldl_append]
      exact hs k _ (by omega) (ih (by omega))
  exact key n (Nat.le_refl _)

theorem foldl_filter {σ α : Type} (f : σ → α → σ) (p : α → Bool) (l : List α) (s : σ) :
    (l.filter p).foldl f s = l.foldl (fun s a => if p a then f s a else s) s := by
  induction l generalizing s with
  | nil => rfl
  | cons a l ih =>
    simp only [List.filter]
    cases h : p a
    · simp only [List.foldl, h]; exact ih s
    · simp only [List.foldl, h, if_true]; exact ih (f s a)

theorem foldl_flatMap {σ α β : Type} (f : σ → β → σ) (g : α → List β) (l : List α) (s : σ) :
    (l.flatMap g).foldl f s = l.foldl (fun s a => (g a).foldl f s) s := by
  induction l generalizing s with
  | nil => rfl
  | cons a l ih => simp only [List.flatMap_cons, List.foldl_append, List.foldl]; exact ih _

/-- the loop `for k in range(j + 1, n)` -/
theorem foldl_above_inv {σ : Type} (f : σ → Nat → σ) (j n : Nat) (hj : j < n) (P : Nat → σ → Prop) (s0 : σ)
    (h0 : P (j + 1) s0) (hs : ∀ k s, j < k → k < n → P k s → P (k + 1) (f s k)) :
    P n (((List.range n).filter fun k => j < k).foldl f s0) := by
  rw [foldl_filter]
  have := foldl_range_inv (fun s a => if (decide (j < a)) = true then f s a else s)
    (fun m s => P (if m ≤ j then j + 1 else m) s) n s0 (by simpa using h0) (by
      intro i s hi hp
      by_cases hij : j < i
      · have e1 : ¬ i ≤ j := by omega
        have e2 : ¬ i + 1 ≤ j := by omega
        simp only [e1, e2, if_false] at hp ⊢
        simp only [hij, decide_true, if_true]
        exact hs i s hij hi hp
      · have e1 : i ≤ j := by omega
        simp only [e1, if_true] at hp
        have hd : decide (j < i) = false := by simp [hij]
        have e3 : (if i + 1 ≤ j then j + 1 else i + 1) = j + 1 := by split <;> omega
        rw [e3, hd]
        exact hp)
  have e : ¬ n ≤ j := by omega
  simpa only [e, if_false] using this

/-- the nested loops `for j in range(n): for k in range(j + 1, n)` -/
theorem foldl_pairsLt_inv {σ : Type} (f : σ → Nat × Nat → σ) (Q : Nat → σ → Prop) (P : Nat → Nat → σ → Prop)
    (n : Nat) (s0 : σ) (h0 : Q 0 s0)
    (hin : ∀ j s, j < n → Q j s → P j (j + 1) s)
    (hs : ∀ j k s, j < k → k < n → P j k s → P j (k + 1) (f s (j, k)))
    (hout : ∀ j s, j < n → P j n s → Q (j + 1) s) : Q n ((pairsLt n).foldl f s0) := by
  unfold pairsLt
  rw [foldl_flatMap]
  apply foldl_range_inv _ Q n s0 h0
  intro j s hj hq
  apply hout j _ hj
  rw [List.foldl_map]
  exact foldl_above_inv (fun s k => f s (j, k)) j n hj (P j) s (hin j s hj hq) (fun k s' h1 h2 hp => hs j k s' h1 h2 hp)

end STab
end Graphiq
