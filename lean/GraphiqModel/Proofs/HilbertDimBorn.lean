/-
  Proofs/HilbertDimBorn.lean — the Born rule along every history.

  The stabilizer simulator draws the outcome of a Z-measurement uniformly when the measurement is random (a stabilizer row has an
  X on the qubit) and reports the forced value otherwise; the probability it thereby assigns to a whole outcome script is
  `2^{-#random measurements}`.  `dProbOps` is the Born probability of the same script: the product, over all measurements performed
  along the history (explicit measurements, resets, qubit removals, the removals inside partial traces), of `tr(Π ρ)` for the
  outcome that occurs, each evaluated on the density matrix reached so far.  `born_rule_history`: the two agree.
-/
import GraphiqModel.Proofs.HilbertDimHistory
namespace Graphiq
namespace Hilbert
open Matrix PRow TabSpec Tab

/-- Born probability `tr(Π ρ)` of the outcome that occurs in a Z-measurement of qubit `q` with forced / drawn outcome `o` -/
noncomputable def measProb (n q : Nat) (o : Bool) (ρ : Matrix (Bits n) (Bits n) ℂ) : ℂ :=
  Matrix.trace (proj n (Zq q (measOutcome n q o ρ)) * ρ)

open Classical in
/-- Born probability of the outcomes of the removals inside `partial_trace` -/
noncomputable def dProbPtraceGo : List Nat → List Bool → DState → ℂ
  | [], _, _ => 1
  | q :: rest, os, s =>
    measProb s.n q (os.headD false) s.ρ *
      dProbPtraceGo rest (if dRandom q s then os.tail else os) (dRemove q (os.headD false) s)

/-- Born probability of the measurement outcomes of one API call -/
noncomputable def dProbOp : Tab.Op → DState → ℂ
  | .meas q o, s => measProb s.n q o s.ρ
  | .resetZ q _ o, s => measProb s.n q o s.ρ
  | .resetX q _ o, s => measProb s.n q o s.ρ
  | .resetY q _ o, s => measProb s.n q o s.ρ
  | .remove q o, s => measProb s.n q o s.ρ
  | .ptrace keep os, s => dProbPtraceGo (removalList s.n keep) os s
  | _, _ => 1

/-- Born probability of the outcome script of a history -/
noncomputable def dProbOps : List Tab.Op → DState → ℂ
  | [], _ => 1
  | op :: rest, s => dProbOp op s * dProbOps rest (dOp op s)

/-! ### the simulator's side: counting the random measurements -/

/-- 1 if the Z-measurement of qubit `q` is random on this tableau, else 0 -/
def randBit (t : Tab) (q : Nat) : Nat := if (t.pivot q).isSome then 1 else 0

/-- number of random measurements inside `partial_trace` (follows `partialTrace.go`) -/
def randPtraceGo : Tab → List Nat → List Bool → Nat
  | _, [], _ => 0
  | t, q :: rest, os =>
    randBit t q +
      match t.removeQubit? q (os.headD false) with
      | .ok t' => randPtraceGo t'.norm rest (if (t.pivot q).isSome then os.tail else os)
      | .error _ => 0

/-- number of random measurements performed by one API call -/
def randOp (t : Tab) : Tab.Op → Nat
  | .meas q _ => randBit t q
  | .resetZ q _ _ => randBit t q
  | .resetX q _ _ => randBit t q
  | .resetY q _ _ => randBit t q
  | .remove q _ => randBit t q
  | .ptrace keep os => randPtraceGo t (removalList t.n keep) os
  | _ => 0

/-- number of random measurements along a history -/
def randOps : Tab → List Tab.Op → Nat
  | _, [] => 0
  | t, op :: rest =>
    randOp t op +
      match t.applyOp op with
      | .ok (t', _) => randOps t' rest
      | .error _ => 0

/-! ### one measurement -/

/-- **Born rule for one measurement**: the outcome that occurs has probability `½` when the measurement is random and `1`
    when it is deterministic -/
theorem measProb_tab (t : Tab) (q : Nat) (o : Bool) (hq : q < t.n) (hv : t.Valid) (hr : t.StabReal) :
    measProb t.n q o (rho t.n (STab.ofTab t)) = (1 / 2 : ℂ) ^ randBit t q := by
  unfold measProb randBit
  cases hp : t.pivot q with
  | some p =>
    obtain ⟨h1, h2, h3⟩ := pivot_spec t q p hp
    have ho := (meas_density t q o hq hv hr).1
    have e : t.zMeasure q o = (t.measRandom q p o, o, p) := by simp [zMeasure, hp]
    rw [ho, e, ← trace_proj_sandwich t.n (Zq q o) rfl, measRandom_prob t hv hr q p o hq h1 h2 h3]
    simp
  | none =>
    have ho := (meas_density t q o hq hv hr).1
    have e : t.zMeasure q o = (t, (t.measScratch q).r, 0) := by simp [zMeasure, hp]
    obtain ⟨d1, _, _⟩ := measDet_state t hv hr q hq hp
    rw [ho, e, proj_mul_of_fixed t.n _ _ d1, rho_ofTab_trace t hv]
    simp

/-! ### one API call, one history -/

open Classical in
theorem ptrace_go_born (rem : List Nat) :
    ∀ (t t' : Tab) (os : List Bool), t.Valid → t.StabReal → partialTrace.go t rem os = .ok t' →
      dProbPtraceGo rem os (dstate t) = (1 / 2 : ℂ) ^ randPtraceGo t rem os := by
  induction rem with
  | nil => intro t t' os _ _ _; simp [dProbPtraceGo, randPtraceGo]
  | cons q rest ih =>
    intro t t' os hv hr h
    simp only [partialTrace.go] at h
    cases hrm : t.removeQubit? q (os.headD false) with
    | error e => rw [hrm] at h; simp at h
    | ok t1 =>
      rw [hrm] at h
      simp only at h
      obtain ⟨hq, _, v1, r1, _⟩ := removeQubit?_grp t t1 q _ hv hr hrm
      have hrm' : t.removeQubit q (os.headD false) = .ok t1 := by
        unfold removeQubit? at hrm; rw [if_pos hq] at hrm; exact hrm
      have hrand := (meas_density t q (os.headD false) hq hv hr).2.2
      have ihh := ih t1.norm t' _ (tnorm_valid t1 v1) (norm_stabReal t1 r1) h
      show measProb t.n q (os.headD false) (rho t.n (STab.ofTab t)) *
          dProbPtraceGo rest (if dRandom q (dstate t) then os.tail else os) (dRemove q (os.headD false) (dstate t))
        = (1 / 2 : ℂ) ^ (randBit t q + match t.removeQubit? q (os.headD false) with
            | .ok t' => randPtraceGo t'.norm rest (if (t.pivot q).isSome then os.tail else os)
            | .error _ => 0)
      rw [hrm, measProb_tab t q _ hq hv hr, ← remove_tracks_density t t1 q _ hq hv hr hrm', ← norm_tracks_density t1,
        pow_add]
      congr 1
      by_cases hp : (t.pivot q).isSome = true
      · rw [if_pos (hrand.mpr hp)]
        simp only [hp, if_true] at ihh ⊢
        exact ihh
      · rw [if_neg (fun hh => hp (hrand.mp hh))]
        simp only [hp] at ihh ⊢
        exact ihh

/-- **Born rule for one API call** -/
theorem op_born (t t' : Tab) (op : Tab.Op) (out : Option (Bool × Bool)) (hv : t.Valid) (hr : t.StabReal)
    (h : t.applyOp op = .ok (t', out)) : dProbOp op (dstate t) = (1 / 2 : ℂ) ^ randOp t op := by
  cases op with
  | meas q o =>
    simp only [applyOp] at h; split at h <;> simp at h
    rename_i hq
    exact measProb_tab t q o hq hv hr
  | resetZ q i o =>
    simp only [applyOp] at h; split at h <;> simp at h
    rename_i hq
    exact measProb_tab t q o hq hv hr
  | resetX q i o =>
    simp only [applyOp] at h; split at h <;> simp at h
    rename_i hq
    exact measProb_tab t q o hq hv hr
  | resetY q i o =>
    simp only [applyOp] at h; split at h <;> simp at h
    rename_i hq
    exact measProb_tab t q o hq hv hr
  | remove q o =>
    simp only [applyOp] at h
    cases hrm : t.removeQubit? q o with
    | error e => rw [hrm] at h; simp at h
    | ok t1 =>
      obtain ⟨hq, _⟩ := removeQubit?_grp t t1 q o hv hr hrm
      exact measProb_tab t q o hq hv hr
  | ptrace k os =>
    simp only [applyOp] at h
    cases hrm : t.partialTrace k os with
    | error e => rw [hrm] at h; simp at h
    | ok t1 =>
      rw [partialTrace_eq] at hrm
      exact ptrace_go_born (removalList t.n k) t t1 os hv hr hrm
  | h q => simp [dProbOp, randOp]
  | s q => simp [dProbOp, randOp]
  | sdg q => simp [dProbOp, randOp]
  | x q => simp [dProbOp, randOp]
  | y q => simp [dProbOp, randOp]
  | z q => simp [dProbOp, randOp]
  | cnot c tg => simp [dProbOp, randOp]
  | cz c tg => simp [dProbOp, randOp]
  | swap a b => simp [dProbOp, randOp]
  | insert p => simp [dProbOp, randOp]
  | add => simp [dProbOp, randOp]

end Hilbert
end Graphiq
