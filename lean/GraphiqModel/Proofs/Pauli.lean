/-
  Proofs/Pauli.lean — algebra of signed Pauli rows, for every number of qubits:
  * the symplectic form is symmetric, alternating and bilinear w.r.t. the row product;
  * each gate map (`h`, `s`, `cnot`, and the derived gates) preserves the symplectic form and is a homomorphism
    for the signed product `mul` (phases included), i.e. it acts as a group automorphism of the Pauli group.
-/
import GraphiqModel.Model.Pauli
import GraphiqModel.Proofs.Bits
namespace Graphiq
namespace PRow

/-! ### phase words -/

theorem toInt'_cases (b : Bool) : Bool.toInt' b = 0 ∨ Bool.toInt' b = 1 := by
  cases b <;> simp [Bool.toInt']

theorem ph_range (a : PRow) : 0 ≤ a.ph ∧ a.ph < 4 := by
  unfold ph
  rcases toInt'_cases a.r with h1 | h1 <;> rcases toInt'_cases a.ip with h2 | h2 <;> omega

theorem ph_inj (a b : PRow) (h : a.ph = b.ph) : a.r = b.r ∧ a.ip = b.ip := by
  unfold ph at h
  cases ha : a.r <;> cases hb : b.r <;> cases hc : a.ip <;> cases hd : b.ip <;>
    simp [ha, hb, hc, hd, Bool.toInt'] at h ⊢

theorem ph_decode (p : Int) (h0 : 0 ≤ p) (h4 : p < 4) :
    2 * Bool.toInt' (decide (p / 2 = 1)) + Bool.toInt' (decide (p % 2 = 1)) = p := by
  have : p = 0 ∨ p = 1 ∨ p = 2 ∨ p = 3 := by omega
  rcases this with h | h | h | h <;> subst h <;> decide

theorem mul_ph (n : Nat) (a b : PRow) : (mul n a b).ph = (a.ph + b.ph + gSum n a b) % 4 := by
  have h0 : 0 ≤ (b.ph + a.ph + gSum n a b) % 4 := Int.emod_nonneg _ (by decide)
  have h4 : (b.ph + a.ph + gSum n a b) % 4 < 4 := Int.emod_lt_of_pos _ (by decide)
  have := ph_decode _ h0 h4
  show 2 * Bool.toInt' (decide ((b.ph + a.ph + gSum n a b) % 4 / 2 = 1))
      + Bool.toInt' (decide ((b.ph + a.ph + gSum n a b) % 4 % 2 = 1)) = _
  rw [this]; congr 1; omega

@[simp] theorem mul_x (n : Nat) (a b : PRow) (j : Nat) : (mul n a b).x j = xor (a.x j) (b.x j) := rfl
@[simp] theorem mul_z (n : Nat) (a b : PRow) (j : Nat) : (mul n a b).z j = xor (a.z j) (b.z j) := rfl

/-- equality of rows from equality of bits and of the phase word -/
theorem eqOn_of (n : Nat) (a b : PRow) (hb : ∀ j, j < n → a.x j = b.x j ∧ a.z j = b.z j) (hp : a.ph = b.ph) :
    EqOn n a b := ⟨hb, ph_inj a b hp⟩

/-! ### symplectic form -/

theorem sp_comm (n : Nat) (a b : PRow) : sp n a b = sp n b a := by
  unfold sp
  apply parityTo_congr
  intro j _
  cases a.x j <;> cases a.z j <;> cases b.x j <;> cases b.z j <;> rfl

theorem sp_self (n : Nat) (a : PRow) : sp n a a = false := by
  unfold sp
  apply parityTo_zero
  intro j _
  cases a.x j <;> cases a.z j <;> rfl

theorem sp_mul_left (n m : Nat) (a b c : PRow) : sp n (mul m a b) c = xor (sp n a c) (sp n b c) := by
  unfold sp
  rw [← parityTo_xor]
  apply parityTo_congr
  intro j _
  simp only [mul_x, mul_z]
  cases a.x j <;> cases a.z j <;> cases b.x j <;> cases b.z j <;> cases c.x j <;> cases c.z j <;> rfl

theorem sp_mul_right (n m : Nat) (a b c : PRow) : sp n c (mul m a b) = xor (sp n c a) (sp n c b) := by
  rw [sp_comm, sp_mul_left, sp_comm n a c, sp_comm n b c]

theorem sp_congr (n : Nat) (a a' b b' : PRow) (ha : SameBits n a a') (hb : SameBits n b b') :
    sp n a b = sp n a' b' := by
  unfold sp
  apply parityTo_congr
  intro j hj
  rw [(ha j hj).1, (ha j hj).2, (hb j hj).1, (hb j hj).2]

theorem sp_Zq (n q : Nat) (a : PRow) (s : Bool) (hq : q < n) : sp n a (Zq q s) = a.x q := by
  unfold sp Zq
  rw [parityTo_congr n _ (fun j => decide (j = q) && a.x j)
     (by intro j _; show xor (a.x j && decide (j = q)) (a.z j && false) = (decide (j = q) && a.x j)
         cases a.x j <;> cases a.z j <;> cases decide (j = q) <;> rfl)]
  exact parityTo_single n q a.x hq

theorem sp_Xq (n q : Nat) (a : PRow) (s : Bool) (hq : q < n) : sp n a (Xq q s) = a.z q := by
  unfold sp Xq
  rw [parityTo_congr n _ (fun j => decide (j = q) && a.z j)
     (by intro j _; show xor (a.x j && false) (a.z j && decide (j = q)) = (decide (j = q) && a.z j)
         cases a.x j <;> cases a.z j <;> cases decide (j = q) <;> rfl)]
  exact parityTo_single n q a.z hq

/-! ### gates preserve the symplectic form -/

theorem sp_h (n q : Nat) (a b : PRow) : sp n (h q a) (h q b) = sp n a b := by
  unfold sp h
  apply parityTo_congr
  intro j _
  by_cases hj : j = q
  · subst hj; simp
    cases a.x j <;> cases a.z j <;> cases b.x j <;> cases b.z j <;> rfl
  · simp [hj]

theorem sp_s (n q : Nat) (a b : PRow) : sp n (s q a) (s q b) = sp n a b := by
  unfold sp s
  apply parityTo_congr
  intro j _
  by_cases hj : j = q
  · subst hj; simp
    cases a.x j <;> cases a.z j <;> cases b.x j <;> cases b.z j <;> rfl
  · simp [hj]

theorem sp_cnot (n c t : Nat) (a b : PRow) (hc : c < n) (ht : t < n) (hct : c ≠ t) :
    sp n (cnot c t a) (cnot c t b) = sp n a b := by
  have key : xor (sp n (cnot c t a) (cnot c t b)) (sp n a b) = false := by
    unfold sp
    rw [← parityTo_xor]
    rw [parityTo_two n c t _ hc ht hct]
    · simp [cnot, hct, Ne.symm hct]
      cases a.x c <;> cases a.z c <;> cases b.x c <;> cases b.z c <;>
      cases a.x t <;> cases a.z t <;> cases b.x t <;> cases b.z t <;> rfl
    · intro j h1 h2
      simp [cnot, h1, h2]
  cases h1 : sp n (cnot c t a) (cnot c t b) <;> cases h2 : sp n a b <;> simp [h1, h2] at key ⊢

/-! ### gates are homomorphisms for the signed product -/

theorem h_ph (q : Nat) (a : PRow) : (h q a).ph = (a.ph + 2 * Bool.toInt' (a.x q && a.z q)) % 4 := by
  unfold ph h
  cases a.r <;> cases a.ip <;> cases a.x q <;> cases a.z q <;> simp [Bool.toInt'] <;> decide

theorem s_ph (q : Nat) (a : PRow) : (s q a).ph = (a.ph + 2 * Bool.toInt' (a.x q && a.z q)) % 4 := by
  unfold ph s
  cases a.r <;> cases a.ip <;> cases a.x q <;> cases a.z q <;> simp [Bool.toInt'] <;> decide

theorem cnot_ph (c t : Nat) (a : PRow) :
    (cnot c t a).ph = (a.ph + 2 * Bool.toInt' (a.x c && a.z t && (xor (xor (a.x t) (a.z c)) true))) % 4 := by
  unfold ph cnot
  cases a.r <;> cases a.ip <;> cases a.x c <;> cases a.z t <;> cases a.x t <;> cases a.z c <;>
    simp [Bool.toInt'] <;> decide

theorem g_h (x1 z1 x2 z2 : Bool) :
    (gFun z1 x1 z2 x2 + 2 * Bool.toInt' (x1 && z1) + 2 * Bool.toInt' (x2 && z2)) % 4
    = (gFun x1 z1 x2 z2 + 2 * Bool.toInt' ((xor x1 x2) && (xor z1 z2))) % 4 := by
  cases x1 <;> cases z1 <;> cases x2 <;> cases z2 <;> decide

theorem g_s (x1 z1 x2 z2 : Bool) :
    (gFun x1 (xor z1 x1) x2 (xor z2 x2) + 2 * Bool.toInt' (x1 && z1) + 2 * Bool.toInt' (x2 && z2)) % 4
    = (gFun x1 z1 x2 z2 + 2 * Bool.toInt' ((xor x1 x2) && (xor z1 z2))) % 4 := by
  cases x1 <;> cases z1 <;> cases x2 <;> cases z2 <;> decide

def cnotF (xc zc xt zt : Bool) : Int := 2 * Bool.toInt' (xc && zt && (xor (xor xt zc) true))

theorem g_cnot (xc1 zc1 xt1 zt1 xc2 zc2 xt2 zt2 : Bool) :
    (gFun xc1 (xor zc1 zt1) xc2 (xor zc2 zt2) + gFun (xor xt1 xc1) zt1 (xor xt2 xc2) zt2
      + cnotF xc1 zc1 xt1 zt1 + cnotF xc2 zc2 xt2 zt2) % 4
    = (gFun xc1 zc1 xc2 zc2 + gFun xt1 zt1 xt2 zt2
      + cnotF (xor xc1 xc2) (xor zc1 zc2) (xor xt1 xt2) (xor zt1 zt2)) % 4 := by
  cases xc1 <;> cases zc1 <;> cases xt1 <;> cases zt1 <;> cases xc2 <;> cases zc2 <;> cases xt2 <;> cases zt2 <;> decide

theorem h_mul (n q : Nat) (hq : q < n) (a b : PRow) : EqOn n (h q (mul n a b)) (mul n (h q a) (h q b)) := by
  apply eqOn_of
  · intro j _
    by_cases hj : j = q <;> simp [h, hj]
  · rw [h_ph, mul_ph, mul_ph, h_ph, h_ph]
    have key := sumTo_diff_one n q
      (fun j => gFun (a.x j) (a.z j) (b.x j) (b.z j))
      (fun j => gFun ((h q a).x j) ((h q a).z j) ((h q b).x j) ((h q b).z j)) hq
      (by intro j hj; simp [h, hj])
    have gh := g_h (a.x q) (a.z q) (b.x q) (b.z q)
    simp only [h, if_true] at key
    simp only [mul_x, mul_z, gSum]
    show (_ : Int) = _
    simp only [h]
    generalize sumTo n (fun j => gFun (a.x j) (a.z j) (b.x j) (b.z j)) = S at *
    generalize sumTo n (fun j => gFun (if j = q then a.z j else a.x j) (if j = q then a.x j else a.z j)
        (if j = q then b.z j else b.x j) (if j = q then b.x j else b.z j)) = S' at *
    generalize gFun (a.x q) (a.z q) (b.x q) (b.z q) = G at *
    generalize gFun (a.z q) (a.x q) (b.z q) (b.x q) = G' at *
    generalize Bool.toInt' ((xor (a.x q) (b.x q)) && (xor (a.z q) (b.z q))) = c at *
    generalize Bool.toInt' (a.x q && a.z q) = ca at *
    generalize Bool.toInt' (b.x q && b.z q) = cb at *
    omega

theorem s_mul (n q : Nat) (hq : q < n) (a b : PRow) : EqOn n (s q (mul n a b)) (mul n (s q a) (s q b)) := by
  apply eqOn_of
  · intro j _
    by_cases hj : j = q
    · subst hj; simp [s]; cases a.x j <;> cases a.z j <;> cases b.x j <;> cases b.z j <;> rfl
    · simp [s, hj]
  · rw [s_ph, mul_ph, mul_ph, s_ph, s_ph]
    have key := sumTo_diff_one n q
      (fun j => gFun (a.x j) (a.z j) (b.x j) (b.z j))
      (fun j => gFun ((s q a).x j) ((s q a).z j) ((s q b).x j) ((s q b).z j)) hq
      (by intro j hj; simp [s, hj])
    have gh := g_s (a.x q) (a.z q) (b.x q) (b.z q)
    simp only [s, if_true] at key
    simp only [mul_x, mul_z, gSum]
    show (_ : Int) = _
    simp only [s]
    generalize sumTo n (fun j => gFun (a.x j) (a.z j) (b.x j) (b.z j)) = S at *
    generalize sumTo n (fun j => gFun (a.x j) (if j = q then xor (a.z j) (a.x q) else a.z j)
        (b.x j) (if j = q then xor (b.z j) (b.x q) else b.z j)) = S' at *
    generalize gFun (a.x q) (a.z q) (b.x q) (b.z q) = G at *
    generalize gFun (a.x q) (xor (a.z q) (a.x q)) (b.x q) (xor (b.z q) (b.x q)) = G' at *
    generalize Bool.toInt' ((xor (a.x q) (b.x q)) && (xor (a.z q) (b.z q))) = c at *
    generalize Bool.toInt' (a.x q && a.z q) = ca at *
    generalize Bool.toInt' (b.x q && b.z q) = cb at *
    omega

theorem cnot_mul (n c t : Nat) (hc : c < n) (ht : t < n) (hct : c ≠ t) (a b : PRow) :
    EqOn n (cnot c t (mul n a b)) (mul n (cnot c t a) (cnot c t b)) := by
  have htc : t ≠ c := Ne.symm hct
  apply eqOn_of
  · intro j _
    by_cases h1 : j = t
    · subst h1; simp [cnot, htc]
      cases a.x j <;> cases b.x j <;> cases a.x c <;> cases b.x c <;> rfl
    · by_cases h2 : j = c
      · subst h2; simp [cnot, hct]
        cases a.z j <;> cases b.z j <;> cases a.z t <;> cases b.z t <;> rfl
      · simp [cnot, h1, h2]
  · rw [cnot_ph, mul_ph, mul_ph, cnot_ph, cnot_ph]
    have key := sumTo_diff_two n c t
      (fun j => gFun (a.x j) (a.z j) (b.x j) (b.z j))
      (fun j => gFun ((cnot c t a).x j) ((cnot c t a).z j) ((cnot c t b).x j) ((cnot c t b).z j)) hc ht hct
      (by intro j h1 h2; simp [cnot, h1, h2])
    have gc := g_cnot (a.x c) (a.z c) (a.x t) (a.z t) (b.x c) (b.z c) (b.x t) (b.z t)
    simp only [cnot, if_true, hct, htc, if_false] at key
    simp only [mul_x, mul_z, gSum, cnotF] at *
    show (_ : Int) = _
    simp only [cnot]
    generalize sumTo n (fun j => gFun (a.x j) (a.z j) (b.x j) (b.z j)) = S at *
    generalize sumTo n (fun j => gFun (if j = t then xor (a.x j) (a.x c) else a.x j)
        (if j = c then xor (a.z j) (a.z t) else a.z j) (if j = t then xor (b.x j) (b.x c) else b.x j)
        (if j = c then xor (b.z j) (b.z t) else b.z j)) = S' at *
    generalize gFun (a.x c) (a.z c) (b.x c) (b.z c) = Gc at *
    generalize gFun (a.x t) (a.z t) (b.x t) (b.z t) = Gt at *
    generalize gFun (a.x c) (xor (a.z c) (a.z t)) (b.x c) (xor (b.z c) (b.z t)) = Gc' at *
    generalize gFun (xor (a.x t) (a.x c)) (a.z t) (xor (b.x t) (b.x c)) (b.z t) = Gt' at *
    generalize Bool.toInt' (a.x c && a.z t && (xor (xor (a.x t) (a.z c)) true)) = fa at *
    generalize Bool.toInt' (b.x c && b.z t && (xor (xor (b.x t) (b.z c)) true)) = fb at *
    generalize Bool.toInt' ((xor (a.x c) (b.x c)) && (xor (a.z t) (b.z t)) &&
      (xor (xor (xor (a.x t) (b.x t)) (xor (a.z c) (b.z c))) true)) = fab at *
    omega

/-! ### `EqOn` is a congruence -/

theorem EqOn.refl (n : Nat) (a : PRow) : EqOn n a a := ⟨fun _ _ => ⟨rfl, rfl⟩, rfl, rfl⟩
theorem EqOn.symm {n : Nat} {a b : PRow} (h : EqOn n a b) : EqOn n b a :=
  ⟨fun j hj => ⟨(h.1 j hj).1.symm, (h.1 j hj).2.symm⟩, h.2.1.symm, h.2.2.symm⟩
theorem EqOn.trans {n : Nat} {a b c : PRow} (h1 : EqOn n a b) (h2 : EqOn n b c) : EqOn n a c :=
  ⟨fun j hj => ⟨(h1.1 j hj).1.trans (h2.1 j hj).1, (h1.1 j hj).2.trans (h2.1 j hj).2⟩,
   h1.2.1.trans h2.2.1, h1.2.2.trans h2.2.2⟩

theorem EqOn.ph {n : Nat} {a b : PRow} (h : EqOn n a b) : a.ph = b.ph := by
  unfold PRow.ph; rw [h.2.1, h.2.2]

theorem gSum_congr (n : Nat) (a a' b b' : PRow) (ha : SameBits n a a') (hb : SameBits n b b') :
    gSum n a b = gSum n a' b' := by
  unfold gSum
  apply sumTo_congr
  intro j hj
  rw [(ha j hj).1, (ha j hj).2, (hb j hj).1, (hb j hj).2]

theorem mul_congr (n : Nat) (a a' b b' : PRow) (ha : EqOn n a a') (hb : EqOn n b b') :
    EqOn n (mul n a b) (mul n a' b') := by
  apply eqOn_of
  · intro j hj
    simp only [mul_x, mul_z]
    rw [(ha.1 j hj).1, (ha.1 j hj).2, (hb.1 j hj).1, (hb.1 j hj).2]; exact ⟨rfl, rfl⟩
  · rw [mul_ph, mul_ph, ha.ph, hb.ph, gSum_congr n a a' b b' ha.1 hb.1]

theorem sp_eqOn (n : Nat) (a a' b b' : PRow) (ha : EqOn n a a') (hb : EqOn n b b') : sp n a b = sp n a' b' :=
  sp_congr n a a' b b' ha.1 hb.1

/-- a map on rows that acts as an automorphism of the `n`-qubit Pauli group (in its signed-row presentation) -/
structure IsAut (n : Nat) (f : PRow → PRow) : Prop where
  sp : ∀ a b, PRow.sp n (f a) (f b) = PRow.sp n a b
  mul : ∀ a b, EqOn n (f (PRow.mul n a b)) (PRow.mul n (f a) (f b))
  congr : ∀ a b, EqOn n a b → EqOn n (f a) (f b)

theorem IsAut.comp {n : Nat} {f g : PRow → PRow} (hf : IsAut n f) (hg : IsAut n g) : IsAut n (fun a => f (g a)) where
  sp a b := by rw [hf.sp, hg.sp]
  mul a b := (hf.congr _ _ (hg.mul a b)).trans (hf.mul _ _)
  congr a b h := hf.congr _ _ (hg.congr _ _ h)

theorem h_congr (n q : Nat) (hq : q < n) (a b : PRow) (hab : EqOn n a b) : EqOn n (h q a) (h q b) := by
  obtain ⟨hb, hr, hi⟩ := hab
  refine ⟨?_, ?_, ?_⟩
  · intro j hj
    by_cases e : j = q
    · subst e; simp [h, (hb j hj).1, (hb j hj).2]
    · simp [h, e, (hb j hj).1, (hb j hj).2]
  · simp [h, hr, (hb q hq).1, (hb q hq).2]
  · simp [h, hi]

theorem s_congr (n q : Nat) (hq : q < n) (a b : PRow) (hab : EqOn n a b) : EqOn n (s q a) (s q b) := by
  obtain ⟨hb, hr, hi⟩ := hab
  refine ⟨?_, ?_, ?_⟩
  · intro j hj
    by_cases e : j = q
    · subst e; simp [s, (hb j hj).1, (hb j hj).2]
    · simp [s, e, (hb j hj).1, (hb j hj).2]
  · simp [s, hr, (hb q hq).1, (hb q hq).2]
  · simp [s, hi]

theorem cnot_congr (n c t : Nat) (hc : c < n) (ht : t < n) (a b : PRow) (hab : EqOn n a b) :
    EqOn n (cnot c t a) (cnot c t b) := by
  obtain ⟨hb, hr, hi⟩ := hab
  refine ⟨?_, ?_, ?_⟩
  · intro j hj
    simp only [cnot]
    rw [(hb j hj).1, (hb j hj).2, (hb c hc).1, (hb t ht).2]; exact ⟨rfl, rfl⟩
  · simp [cnot, hr, (hb c hc).1, (hb c hc).2, (hb t ht).1, (hb t ht).2]
  · simp [cnot, hi]

theorem isAut_h (n q : Nat) (hq : q < n) : IsAut n (h q) :=
  ⟨sp_h n q, h_mul n q hq, h_congr n q hq⟩
theorem isAut_s (n q : Nat) (hq : q < n) : IsAut n (s q) :=
  ⟨sp_s n q, s_mul n q hq, s_congr n q hq⟩
theorem isAut_cnot (n c t : Nat) (hc : c < n) (ht : t < n) (hct : c ≠ t) : IsAut n (cnot c t) :=
  ⟨fun a b => sp_cnot n c t a b hc ht hct, cnot_mul n c t hc ht hct, cnot_congr n c t hc ht⟩

theorem isAut_sdg (n q : Nat) (hq : q < n) : IsAut n (sdg q) :=
  ((isAut_s n q hq).comp ((isAut_s n q hq).comp (isAut_s n q hq)))
theorem isAut_zg (n q : Nat) (hq : q < n) : IsAut n (zg q) :=
  ((isAut_s n q hq).comp (isAut_s n q hq))
theorem isAut_xg (n q : Nat) (hq : q < n) : IsAut n (xg q) :=
  ((isAut_h n q hq).comp ((isAut_zg n q hq).comp (isAut_h n q hq)))
theorem isAut_yg (n q : Nat) (hq : q < n) : IsAut n (yg q) :=
  ((isAut_s n q hq).comp ((isAut_xg n q hq).comp ((isAut_zg n q hq).comp (isAut_s n q hq))))
theorem isAut_cz (n c t : Nat) (hc : c < n) (ht : t < n) (hct : c ≠ t) : IsAut n (cz c t) :=
  ((isAut_h n t ht).comp ((isAut_cnot n c t hc ht hct).comp (isAut_h n t ht)))

end PRow
end Graphiq
