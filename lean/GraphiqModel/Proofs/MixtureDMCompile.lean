/-
  Proofs/MixtureDMCompile.lean — C06 (c) at the Hilbert-space level for whole circuits, every number of qubits.

  The Hilbert-space semantics `actH` of one compile action (what the density-matrix backend does: a gate is `U ρ U†`, a Pauli
  error `P ρ P†`, depolarizing noise `(1−p) ρ + p/3 (XρX + YρY + ZρZ)`, photon loss `(1−λ) ρ`) and its fold `runH` over an
  action trace;  `stabGo_mixRho` / `compileStab_mixRho`: for a measurement-free circuit on existing qubits with depolarizing
  probabilities in `[0,1]`, whenever `StabilizerCompiler.compile` returns, the placement tree produced a trace `tr` and

      Σ_k w_k ρ(T_k)  =  runH tr |0…0⟩⟨0…0|

  for the mixture `[(w_k, T_k)]` it returns.
-/
import GraphiqModel.Proofs.MixtureDM
namespace Graphiq
namespace MixDM
open Matrix Hilbert Noise

/-! ### Hilbert-space semantics of the compile actions -/

/-- the unitary gate of a measurement-free operation (`none`: measurement, classically controlled, unsupported) -/
def opGate (np : Nat) (op : COp) : Option Gate :=
  match op.kind with
  | .input | .output | .identity => some (.I (qIndex np op.r1 op.t1))
  | .h => some (.H (qIndex np op.r1 op.t1))
  | .s => some (.P (qIndex np op.r1 op.t1))
  | .sdg => some (.Pdag (qIndex np op.r1 op.t1))
  | .x => some (.X (qIndex np op.r1 op.t1))
  | .y => some (.Y (qIndex np op.r1 op.t1))
  | .z => some (.Z (qIndex np op.r1 op.t1))
  | .cnot => some (.CNOT (qIndex np op.r1 op.t1) (qIndex np op.r2 op.t2))
  | .cz => some (.CZ (qIndex np op.r1 op.t1) (qIndex np op.r2 op.t2))
  | _ => none

/-- a gate action: `U ρ U†` -/
noncomputable def gateH (np n : Nat) (op : COp) (ρ : HMat n) : HMat n :=
  match opGate np op with
  | some g => conjH (gateMat n g) ρ
  | none => ρ

/-- a noise action on qubit `q` -/
noncomputable def noiseH (n : Nat) (nm : NoiseM) (q : Nat) (ρ : HMat n) : HMat n :=
  match nm with
  | .depol p _ => depolH n q p ρ
  | .pauli k _ => pauliH n q k ρ
  | .loss r _ => ((1 - r : ℚ) : ℂ) • ρ
  | _ => ρ

/-- one action of the compile loop -/
noncomputable def actH (np n : Nat) (arr : Array COp) (a : Act) (ρ : HMat n) : HMat n :=
  match a with
  | .gate k => gateH np n (arr.getD k { kind := .identity }) ρ
  | .noise _ _ q nm => noiseH n nm q ρ
  | .replace _ => ρ

/-- an action trace, first action first -/
noncomputable def runH (np n : Nat) (arr : Array COp) : List Act → HMat n → HMat n
  | [], ρ => ρ
  | a :: as, ρ => runH np n arr as (actH np n arr a ρ)

theorem runH_append (np n : Nat) (arr : Array COp) (a b : List Act) (ρ : HMat n) :
    runH np n arr (a ++ b) ρ = runH np n arr b (runH np n arr a ρ) := by
  induction a generalizing ρ with
  | nil => rfl
  | cons x xs ih => exact ih _

/-! ### side conditions -/

/-- measurement-free operation: one-qubit gate or CNOT / CZ -/
def MFree (op : COp) : Prop := op.kind.isOneQubit = true ∨ op.kind.isCtrlPair = true

/-- a depolarizing probability lies in `[0,1]` -/
def ParamOK : NoiseM → Prop
  | .depol p _ => 0 ≤ p ∧ p ≤ 1
  | _ => True

/-- the operations clause (c) speaks about: existing qubits (control ≠ target), no measurement, probabilities in `[0,1]` -/
structure OpOK (n np : Nat) (op : COp) : Prop where
  wf : OpWF n np op
  mfree : MFree op
  p0 : ParamOK op.n0
  p1 : ParamOK op.n1

def ActOK (n np : Nat) (arr : Array COp) : Act → Prop
  | .gate k => ∀ op, arr[k]? = some op →
      MFree op ∧ (op.kind.isCtrlPair = true → qIndex np op.r1 op.t1 ≠ qIndex np op.r2 op.t2)
  | .noise _ _ q nm => q < n ∧ ParamOK nm
  | .replace _ => True

/-! ### one gate -/

theorem stabMap1_mixRho (n q : Nat) (g : Gate) (hg : q < n → g.WF n) (s s' : StabSt) (hm : MixN n s.mix)
    (h : stabMap1 n q (fun t => t.map g.act) s = .ok s') :
    mixRho n s'.mix = conjH (gateMat n g) (mixRho n s.mix) ∧ MixN n s'.mix := by
  unfold stabMap1 at h; split at h
  · rename_i hq; injection h with h; subst h
    exact ⟨mixRho_mapGate n g (hg hq) _ hm, mapTab_mixN n (fun t => t.map g.act) (fun _ h => h) _ hm⟩
  · cases h

theorem stabMap2_mixRho (n q1 q2 : Nat) (g : Gate) (hg : q1 < n → q2 < n → g.WF n) (s s' : StabSt) (hm : MixN n s.mix)
    (h : stabMap2 n q1 q2 (fun t => t.map g.act) s = .ok s') :
    mixRho n s'.mix = conjH (gateMat n g) (mixRho n s.mix) ∧ MixN n s'.mix := by
  unfold stabMap2 at h; split at h
  · rename_i hq; injection h with h; subst h
    exact ⟨mixRho_mapGate n g (hg hq.1 hq.2) _ hm, mapTab_mixN n (fun t => t.map g.act) (fun _ h => h) _ hm⟩
  · cases h

/-- **`StabilizerCompiler.compile_one_gate` on a mixture is `U ρ U†`** for every measurement-free operation -/
theorem stabGate_mixRho (np n : Nat) (det : Bool) (op : COp) (hf : MFree op)
    (hne : op.kind.isCtrlPair = true → qIndex np op.r1 op.t1 ≠ qIndex np op.r2 op.t2)
    (s s' : StabSt) (hm : MixN n s.mix) (h : stabGate np n det op s = .ok s') :
    mixRho n s'.mix = gateH np n op (mixRho n s.mix) ∧ MixN n s'.mix := by
  unfold stabGate at h
  simp only at h
  unfold gateH opGate
  cases hk : op.kind <;> simp only [hk] at h ⊢
  case input => injection h with h; subst h; exact ⟨(conjH_one _).symm, hm⟩
  case output => injection h with h; subst h; exact ⟨(conjH_one _).symm, hm⟩
  case identity => injection h with h; subst h; exact ⟨(conjH_one _).symm, hm⟩
  case h => exact stabMap1_mixRho n _ (.H _) (fun hq => hq) s s' hm h
  case s => exact stabMap1_mixRho n _ (.P _) (fun hq => hq) s s' hm h
  case sdg => exact stabMap1_mixRho n _ (.Pdag _) (fun hq => hq) s s' hm h
  case x => exact stabMap1_mixRho n _ (.X _) (fun hq => hq) s s' hm h
  case y => exact stabMap1_mixRho n _ (.Y _) (fun hq => hq) s s' hm h
  case z => exact stabMap1_mixRho n _ (.Z _) (fun hq => hq) s s' hm h
  case cnot =>
    exact stabMap2_mixRho n _ _ (.CNOT _ _) (fun h1 h2 => ⟨h1, h2, hne (by simp [hk, Kind.isCtrlPair])⟩) s s' hm h
  case cz =>
    exact stabMap2_mixRho n _ _ (.CZ _ _) (fun h1 h2 => ⟨h1, h2, hne (by simp [hk, Kind.isCtrlPair])⟩) s s' hm h
  case ccnot => rcases hf with hf | hf <;> simp [hk, Kind.isOneQubit, Kind.isCtrlPair] at hf
  case ccz => rcases hf with hf | hf <;> simp [hk, Kind.isOneQubit, Kind.isCtrlPair] at hf
  case mcr => rcases hf with hf | hf <;> simp [hk, Kind.isOneQubit, Kind.isCtrlPair] at hf
  case measZ => rcases hf with hf | hf <;> simp [hk, Kind.isOneQubit, Kind.isCtrlPair] at hf
  case param => cases h

/-! ### one noise application -/

theorem photonLoss_mixN (n : Nat) (r : Rat) (m : Mixture) (hm : MixN n m) : MixN n (Mix.photonLoss r m) := by
  intro x hx
  simp only [Mix.photonLoss, List.mem_map] at hx
  obtain ⟨⟨p, t⟩, hy, rfl⟩ := hx
  exact hm (p, t) hy

/-- **every additive noise model on a mixture is its channel on `Σ w_k ρ(T_k)`** -/
theorem applyNoise_mixRho (n q : Nat) (hq : q < n) (nm : NoiseM) (hp : ParamOK nm) (m m' : Mixture) (hm : MixN n m)
    (h : Mix.applyNoise nm q m = .ok m') : mixRho n m' = noiseH n nm q (mixRho n m) ∧ MixN n m' := by
  cases nm with
  | none => simp [Mix.applyNoise] at h; subst h; exact ⟨rfl, hm⟩
  | depol p a =>
    exact ⟨mixRho_depolarize n q hq p hp.1 hp.2 m m' hm h, depolarize_mixN n q p m m' hm h⟩
  | pauli k a => exact ⟨mixRho_pauliError n q hq k m m' hm h, pauliError_mixN n q k m m' hm h⟩
  | loss r a =>
    simp [Mix.applyNoise] at h; subst h
    exact ⟨mixRho_photonLoss n r m, photonLoss_mixN n r m hm⟩
  | replace => simp [Mix.applyNoise] at h
  | other => simp [Mix.applyNoise] at h

/-! ### actions, traces, the compile loop -/

theorem stabAct_mixRho (np n : Nat) (det : Bool) (arr : Array COp) (s s' : StabSt) (a : Act) (ha : ActOK n np arr a)
    (hm : MixN n s.mix) (h : stabAct np n det arr s a = .ok s') :
    mixRho n s'.mix = actH np n arr a (mixRho n s.mix) ∧ MixN n s'.mix := by
  cases a with
  | gate k =>
    simp only [stabAct] at h
    show mixRho n s'.mix = gateH np n (arr.getD k { kind := .identity }) (mixRho n s.mix) ∧ _
    refine stabGate_mixRho np n det _ ?_ ?_ s s' hm h
    · cases hk : arr[k]? with
      | none =>
        have : arr.getD k { kind := .identity } = { kind := .identity } := by
          simp [Array.getD, Array.getElem?_eq_none_iff.1 hk |> Nat.not_lt.2]
        rw [this]; exact Or.inl rfl
      | some op =>
        have : arr.getD k { kind := .identity } = op := by
          have hlt : k < arr.size := by
            rcases Nat.lt_or_ge k arr.size with h' | h'
            · exact h'
            · rw [Array.getElem?_eq_none_iff.2 h'] at hk; cases hk
          simp [Array.getD, hlt]
          have := Array.getElem?_eq_getElem hlt
          rw [this] at hk; injection hk
        rw [this]; exact (ha op hk).1
    · cases hk : arr[k]? with
      | none => simp [Array.getD, Array.getElem?_eq_none_iff.1 hk |> Nat.not_lt.2, Kind.isCtrlPair]
      | some op =>
        have : arr.getD k { kind := .identity } = op := by
          have hlt : k < arr.size := by
            rcases Nat.lt_or_ge k arr.size with h' | h'
            · exact h'
            · rw [Array.getElem?_eq_none_iff.2 h'] at hk; cases hk
          simp [Array.getD, hlt]
          have := Array.getElem?_eq_getElem hlt
          rw [this] at hk; injection hk
        rw [this]; exact (ha op hk).2
  | noise k side q nm =>
    simp only [stabAct] at h
    cases hn : Mix.applyNoise nm q s.mix with
    | error e => rw [hn] at h; cases h
    | ok m' =>
      rw [hn] at h; injection h with h; subst h
      exact applyNoise_mixRho n q ha.1 nm ha.2 s.mix m' hm hn
  | replace k => simp [stabAct] at h

theorem runStabActs_mixRho (np n : Nat) (det : Bool) (arr : Array COp) :
    ∀ (acts : List Act) (s s' : StabSt), (∀ a ∈ acts, ActOK n np arr a) → MixN n s.mix →
      runStabActs np n det arr acts s = .ok s' →
      mixRho n s'.mix = runH np n arr acts (mixRho n s.mix) ∧ MixN n s'.mix
  | [], s, s', _, hm, h => by simp [runStabActs] at h; subst h; exact ⟨rfl, hm⟩
  | a :: as, s, s', hw, hm, h => by
    simp only [runStabActs] at h
    cases ha : stabAct np n det arr s a with
    | error e => rw [ha] at h; cases h
    | ok s1 =>
      rw [ha] at h
      obtain ⟨e1, m1⟩ := stabAct_mixRho np n det arr s s1 a (hw a List.mem_cons_self) hm ha
      obtain ⟨e2, m2⟩ := runStabActs_mixRho np n det arr as s1 s' (fun b hb => hw b (List.mem_cons_of_mem _ hb)) m1 h
      exact ⟨by rw [e2, e1]; rfl, m2⟩

/-- what `placeOp` can emit for operation `k`: noise only on existing qubits, with parameters satisfying `P` -/
def GoodActP (P : NoiseM → Prop) (n k : Nat) (a : Act) : Prop :=
  a = .gate k ∨ a = .replace k ∨ ∃ side q nm, a = .noise k side q nm ∧ q < n ∧ P nm

/-- … with depolarizing probabilities in `[0,1]` -/
abbrev GoodAct' (n k : Nat) (a : Act) : Prop := GoodActP ParamOK n k a

theorem addl_goodP (P : NoiseM → Prop) (n np : Nat) (be : Backend) (op : COp) (k : Nat) (a b : NoiseM) (hw : OpWF n np op)
    (pa : P a) (pb : P b) (l : List Act)
    (h : addl be np op k a b = .ok l) : ∀ x ∈ l, GoodActP P n k x := by
  unfold addl at h
  split at h
  · injection h with h; subst h
    intro x hx
    split at hx
    · cases hx
    · simp only [List.mem_singleton] at hx
      exact Or.inr (Or.inr ⟨0, _, _, hx, hw.1, pa⟩)
  · split at h
    · rename_i hc
      injection h with h; subst h
      intro x hx
      simp only [List.mem_append] at hx
      rcases hx with hx | hx
      · split at hx
        · cases hx
        · simp only [List.mem_singleton] at hx
          exact Or.inr (Or.inr ⟨0, _, _, hx, hw.1, pa⟩)
      · split at hx
        · cases hx
        · simp only [List.mem_singleton] at hx
          exact Or.inr (Or.inr ⟨1, _, _, hx, hw.2.1 (Or.inl hc), pb⟩)
    · cases be
      · cases h
      · injection h with h; subst h; intro x hx; cases hx

theorem good_gateP (P : NoiseM → Prop) (n k : Nat) : ∀ x ∈ [Act.gate k], GoodActP P n k x := by
  intro x hx; simp only [List.mem_singleton] at hx; exact Or.inl hx

theorem good_appendP (P : NoiseM → Prop) (n k : Nat) (l1 l2 : List Act) (h1 : ∀ x ∈ l1, GoodActP P n k x)
    (h2 : ∀ x ∈ l2, GoodActP P n k x) : ∀ x ∈ l1 ++ l2, GoodActP P n k x := by
  intro x hx; rcases List.mem_append.1 hx with h | h
  · exact h1 x h
  · exact h2 x h

theorem placeOp_goodP (P : NoiseM → Prop) (pn : P NoiseM.none) (n np : Nat) (ns : Bool) (be : Backend) (op : COp) (k : Nat)
    (hw : OpWF n np op) (p0 : P op.n0) (p1 : P op.n1) (acts : List Act)
    (h : placeOp ns be np op k = .ok acts) : ∀ x ∈ acts, GoodActP P n k x := by
  unfold placeOp at h
  cases hctl : (op.kind.isCtrlPair || op.kind.isClassicalCtrl) <;> simp only [hctl, Bool.false_eq_true, if_false, if_true] at h
  · -- not a controlled operation
    split at h
    · injection h with h; subst h; exact good_gateP P n k
    · split at h
      · split at h
        · cases ha : addl be np op k op.n0 .none with
          | error e => rw [ha] at h; cases h
          | ok l => rw [ha] at h; injection h with h; subst h
                    exact good_appendP P n k _ _ (good_gateP P n k) (addl_goodP P n np be op k _ _ hw p0 pn l ha)
        · cases ha : addl be np op k op.n0 .none with
          | error e => rw [ha] at h; cases h
          | ok l => rw [ha] at h; injection h with h; subst h
                    exact good_appendP P n k _ _ (addl_goodP P n np be op k _ _ hw p0 pn l ha) (good_gateP P n k)
      · split at h
        · injection h with h; subst h
          intro x hx; simp only [List.mem_singleton] at hx; exact Or.inr (Or.inl hx)
        · cases h
  · split at h
    · injection h with h; subst h; exact good_gateP P n k
    · split at h
      · -- both additive: four placements
        split at h
        · cases ha : addl be np op k op.n0 op.n1 with
          | error e => rw [ha] at h; cases h
          | ok l => rw [ha] at h; injection h with h; subst h
                    exact good_appendP P n k _ _ (good_gateP P n k) (addl_goodP P n np be op k _ _ hw p0 p1 l ha)
        · cases ha : addl be np op k op.n0 op.n1 with
          | error e => rw [ha] at h; cases h
          | ok l => rw [ha] at h; injection h with h; subst h
                    exact good_appendP P n k _ _ (addl_goodP P n np be op k _ _ hw p0 p1 l ha) (good_gateP P n k)
        · cases ha : addl be np op k .none op.n1 with
          | error e => rw [ha] at h; cases h
          | ok l1 =>
            cases hb : addl be np op k op.n0 .none with
            | error e => rw [ha, hb] at h; cases h
            | ok l2 =>
              rw [ha, hb] at h; injection h with h; subst h
              exact good_appendP P n k _ _ (good_appendP P n k _ _ (addl_goodP P n np be op k _ _ hw pn p1 l1 ha) (good_gateP P n k))
                (addl_goodP P n np be op k _ _ hw p0 pn l2 hb)
        · cases ha : addl be np op k op.n0 .none with
          | error e => rw [ha] at h; cases h
          | ok l1 =>
            cases hb : addl be np op k .none op.n1 with
            | error e => rw [ha, hb] at h; cases h
            | ok l2 =>
              rw [ha, hb] at h; injection h with h; subst h
              exact good_appendP P n k _ _ (good_appendP P n k _ _ (addl_goodP P n np be op k _ _ hw p0 pn l1 ha) (good_gateP P n k))
                (addl_goodP P n np be op k _ _ hw pn p1 l2 hb)
      · cases h

theorem placeOp_good' (n np : Nat) (ns : Bool) (be : Backend) (op : COp) (k : Nat) (hw : OpWF n np op)
    (p0 : ParamOK op.n0) (p1 : ParamOK op.n1) (acts : List Act)
    (h : placeOp ns be np op k = .ok acts) : ∀ x ∈ acts, GoodAct' n k x :=
  placeOp_goodP ParamOK trivial n np ns be op k hw p0 p1 acts h

theorem good_to_ok (n np k : Nat) (arr : Array COp) (harr : ∀ (j : Nat) (op : COp), arr[j]? = some op → OpOK n np op) (a : Act)
    (h : GoodAct' n k a) : ActOK n np arr a := by
  rcases h with h | h | ⟨side, q, nm, h, hq, hp⟩
  · subst h; intro op hop; exact ⟨(harr k op hop).mfree, (harr k op hop).wf.2.2⟩
  · subst h; trivial
  · subst h; exact ⟨hq, hp⟩

/-- **the compile loop**: the trace of the placement tree, read as Hilbert-space actions, produces `Σ w_k ρ(T_k)` -/
theorem stabGo_mixRho (ns : Bool) (np n : Nat) (det : Bool) (arr : Array COp)
    (harr : ∀ (j : Nat) (op : COp), arr[j]? = some op → OpOK n np op) :
    ∀ (ops : List COp) (k : Nat) (s s' : StabSt), (∀ op ∈ ops, OpOK n np op) → MixN n s.mix →
      stabGo ns np n det arr ops k s = .ok s' →
      ∃ tr, traceGo ns .stab np ops k = .ok tr ∧ mixRho n s'.mix = runH np n arr tr (mixRho n s.mix) ∧ MixN n s'.mix
  | [], k, s, s', _, hm, h => by simp [stabGo] at h; subst h; exact ⟨[], rfl, rfl, hm⟩
  | op :: rest, k, s, s', hw, hm, h => by
    simp only [stabGo] at h
    split at h
    · cases h
    · cases hp : placeOp ns .stab np op k with
      | error e => rw [hp] at h; cases h
      | ok acts =>
        rw [hp] at h; simp only at h
        cases hr : runStabActs np n det arr acts s with
        | error e => rw [hr] at h; cases h
        | ok s1 =>
          rw [hr] at h; simp only at h
          have ho := hw op List.mem_cons_self
          have hg := placeOp_good' n np ns .stab op k ho.wf ho.p0 ho.p1 acts hp
          obtain ⟨e1, m1⟩ := runStabActs_mixRho np n det arr acts s s1
            (fun a ha => good_to_ok n np k arr harr a (hg a ha)) hm hr
          obtain ⟨tr, htr, e2, m2⟩ := stabGo_mixRho ns np n det arr harr rest (k + 1) s1 s'
            (fun o ho => hw o (List.mem_cons_of_mem _ ho)) m1 h
          refine ⟨acts ++ tr, ?_, ?_, m2⟩
          · simp only [traceGo, hp, htr]
          · rw [e2, e1, runH_append]

/-- the initial state of both compilers: `|0…0⟩⟨0…0|` -/
noncomputable def rho0 (n : Nat) : HMat n := rho n (STab.zero n)

theorem mixRho_init (n : Nat) : mixRho n [(1, (Tab.ket0 n).norm)] = rho0 n := by
  rw [mixRho_cons, mixRho_nil, tabRho_norm n _ rfl]
  show ((1 : ℚ) : ℂ) • rho n (STab.ofTab (Tab.ket0 n)) + 0 = rho0 n
  rw [rho_ket0]
  simp [rho0]

/-- **C06 (c), Hilbert level, every circuit and every number of qubits.**  For a measurement-free circuit on existing qubits
    with depolarizing probabilities in `[0,1]` (any Pauli errors, any loss rates, either placement): whenever
    `StabilizerCompiler.compile` returns the mixture `[(w_k, T_k)]`, the placement tree produced a trace `tr`, and

        Σ_k w_k ρ(T_k) = runH tr (|0…0⟩⟨0…0|),

    the result of applying to the initial state, action by action, what the density-matrix backend applies. -/
theorem compileStab_mixRho (ns : Bool) (ne np nc : Nat) (det : Bool) (ops : List COp)
    (hw : ∀ op ∈ ops, OpOK (ne + np) np op) (s : StabSt) (h : compileStab ns ne np nc det ops = .ok s) :
    ∃ tr, compileTrace ns .stab np ops = .ok tr ∧
      mixRho (ne + np) s.mix = runH np (ne + np) ops.toArray tr (rho0 (ne + np)) ∧ MixN (ne + np) s.mix := by
  unfold compileStab at h
  obtain ⟨tr, htr, e, m⟩ := stabGo_mixRho ns np (ne + np) det ops.toArray (by
      intro j op hop
      apply hw
      have : op ∈ ops.toArray := Array.mem_of_getElem? hop
      simpa using this) ops 0 _ s hw (by
      intro x hx
      simp only [List.mem_singleton] at hx
      subst hx
      rfl) h
  exact ⟨tr, htr, by rw [e, mixRho_init], m⟩

/-! ### clause (a) for whole circuits -/

/-- the action trace clause (a) asks for: per operation, the noise that asks for "before", the gate, the noise that asks for
    "after" -/
def wantedAll (np : Nat) : List COp → Nat → List Act
  | [], _ => []
  | op :: rest, k => wanted np op k false ++ [Act.gate k] ++ wanted np op k true ++ wantedAll np rest (k + 1)

theorem traceGo_supported (be : Backend) (np : Nat) : ∀ (ops : List COp) (k : Nat), (∀ op ∈ ops, Supported op) →
    traceGo true be np ops k = .ok (wantedAll np ops k)
  | [], _, _ => rfl
  | op :: rest, k, h => by
    simp only [traceGo, wantedAll]
    rw [placeOp_supported be np op k (h op List.mem_cons_self),
      traceGo_supported be np rest (k + 1) (fun o ho => h o (List.mem_cons_of_mem _ ho))]

end MixDM
end Graphiq
