/-
  Proofs/HilbertDimEntropy.lean — the dimension in the height function of C03 is an entanglement entropy in Hilbert space.

  For the cut `{0..k} | {k+1..n-1}` of a valid tableau, `κ = dim_GF(2) (G ∩ {supported right of k})` (Mathlib `finrank`, the
  quantity of `height_is_entropy_value`) is the rank of a local basis in the sense of `IsLocalBasis`; hence the reduced state of
  the right part is `2^κ/2^m` times a projector (`m = n-k-1`) and its purity is `2^{-(m-κ)}`:
  the entry `m − κ` of the height function is the (Rényi-2 = von Neumann, flat spectrum) entanglement entropy of the cut.
-/
import GraphiqModel.Proofs.HilbertDimReduced
import GraphiqModel.Proofs.HeightEntropy
import GraphiqModel.Proofs.InvClifford
import GraphiqModel.Proofs.HeightTotal
namespace Graphiq
namespace Hilbert
open Matrix PRow TabSpec Tab STab Module

/-- the symplectic vector of a subset product is the GF(2) combination of the vectors of the selected rows -/
theorem vec_sprod (n : Nat) (rows : Nat → PRow) (S : Nat → Bool) (m : Nat) :
    (sprod n rows S m).vec n = ∑ i ∈ Finset.range m, Graphiq.b2z (S i) • (rows i).vec n := by
  induction m with
  | zero => simp [sprod, PRow.vec_one]
  | succ k ih =>
    rw [Finset.sum_range_succ, ← ih]
    simp only [sprod]
    cases S k
    · simp [Graphiq.b2z]
    · simp only [cond_true, PRow.vec_mul, Graphiq.b2z, if_true, one_smul]
      rw [add_comm]

theorem vec_eq_zero_of_eqOn_one (n : Nat) (g : PRow) (h : EqOn n g PRow.one) : g.vec n = 0 := by
  rw [PRow.vec_congr n g PRow.one h.1, PRow.vec_one]

/-- sites `k, k-1, …, 0` (the left part of the cut, highest first) -/
def leftSites (k : Nat) : List Nat := (List.range (k + 1)).reverse

theorem leftSites_length (k : Nat) : (leftSites k).length = k + 1 := by simp [leftSites]
theorem mem_leftSites (k q : Nat) : q ∈ leftSites k ↔ q ≤ k := by
  simp [leftSites]
theorem leftSites_desc (k : Nat) : (leftSites k).Pairwise (· > ·) := by
  unfold leftSites
  rw [List.pairwise_reverse]
  exact List.pairwise_lt_range

/-! ### a local basis from a GF(2) basis of the subspace -/

/-- every vector of the group subspace is the vector of a subset product of the generators -/
theorem exists_sprod_of_mem_gspace (A : STab) (v : PVec A.n) (hv : v ∈ A.gspace) :
    ∃ S : Nat → Bool, (sprod A.n A.row S A.n).vec A.n = v := by
  obtain ⟨cf, rfl⟩ := (Submodule.mem_span_range_iff_exists_fun (ZMod 2)).1 hv
  refine ⟨selOf cf, ?_⟩
  funext j
  rw [lincomb_apply A.n A.row cf j]
  show (Graphiq.b2z ((sprod A.n A.row (selOf cf) A.n).x j), Graphiq.b2z ((sprod A.n A.row (selOf cf) A.n).z j)) = _
  rw [sprod_x, sprod_z]

theorem vec_bits_zero (n : Nat) (g : PRow) (j : Nat) (hj : j < n) (h : g.vec n ⟨j, hj⟩ = 0) :
    g.x j = false ∧ g.z j = false := by
  have h1 : Graphiq.b2z (g.x j) = 0 := congrArg Prod.fst h
  have h2 : Graphiq.b2z (g.z j) = 0 := congrArg Prod.snd h
  exact ⟨(Graphiq.b2z_eq_zero _).1 h1, (Graphiq.b2z_eq_zero _).1 h2⟩

theorem sameBits_of_vec_eq (n : Nat) (a b : PRow) (h : a.vec n = b.vec n) : SameBits n a b := by
  intro j hj
  have hj' := congrFun h ⟨j, hj⟩
  have h1 : Graphiq.b2z (a.x j) = Graphiq.b2z (b.x j) := congrArg Prod.fst hj'
  have h2 : Graphiq.b2z (a.z j) = Graphiq.b2z (b.z j) := congrArg Prod.snd hj'
  constructor
  · revert h1; cases a.x j <;> cases b.x j <;> simp [Graphiq.b2z]
  · revert h2; cases a.z j <;> cases b.z j <;> simp [Graphiq.b2z]

/-- a GF(2) basis of the subspace of stabilizers supported right of `k` lifts to a local basis of the same length -/
theorem exists_localBasis_of_basis (t : Tab) (hv : t.Valid) (hr : t.StabReal) (rem : List Nat)
    (hlt : ∀ q, q ∈ rem → q < t.n) (V : Submodule (ZMod 2) (PVec t.n))
    (hV : ∀ v : PVec t.n, v ∈ V ↔ ∀ j : Fin t.n, j.val ∈ rem → v j = 0) (κ : Nat)
    (b : Basis (Fin κ) (ZMod 2) ↥((STab.ofTab t).gspace ⊓ V)) :
    ∃ c : Nat → PRow, IsLocalBasis t rem κ c := by
  classical
  have ga : (STab.ofTab t).Good := ofTab_good t hv
  -- lift each basis vector to a group element
  have lift : ∀ i : Fin κ, ∃ S : Nat → Bool,
      (sprod t.n (STab.ofTab t).row S t.n).vec t.n = (b i).val :=
    fun i => exists_sprod_of_mem_gspace (STab.ofTab t) _ (b i).property.1
  obtain ⟨c, hcdef⟩ : ∃ c : Nat → PRow, ∀ i (h : i < κ),
      c i = sprod t.n (STab.ofTab t).row (Classical.choose (lift ⟨i, h⟩)) t.n :=
    ⟨fun i => if h : i < κ then sprod t.n (STab.ofTab t).row (Classical.choose (lift ⟨i, h⟩)) t.n else PRow.one,
      fun i h => by simp only [dif_pos h]⟩
  have hc : ∀ i (h : i < κ), (c i).vec t.n = (b ⟨i, h⟩).val := by
    intro i h
    rw [hcdef i h]
    exact Classical.choose_spec (lift ⟨i, h⟩)
  have hcmem : ∀ i, i < κ → (STab.ofTab t).Spn (c i) := by
    intro i h
    rw [hcdef i h]
    exact sprod_spn (STab.ofTab t) _ t.n (Nat.le_refl _)
  -- the vector of a subset product of the `c i`
  have hvec : ∀ S : Nat → Bool, (sprod t.n c S κ).vec t.n
      = (∑ i : Fin κ, Graphiq.b2z (S i.val) • b i).val := by
    intro S
    rw [vec_sprod, Submodule.coe_sum, ← Fin.sum_univ_eq_sum_range (fun i => Graphiq.b2z (S i) • (c i).vec t.n) κ]
    apply Finset.sum_congr rfl
    intro i _
    rw [Submodule.coe_smul, hc i.val i.isLt]
    rfl
  refine ⟨c, ⟨fun i hi => (spn_of_grp t hr _).mpr (hcmem i hi), ?_, ?_, ?_⟩⟩
  · -- identity on the left part
    intro i hi q hq
    have hqn : q < t.n := hlt q hq
    apply vec_bits_zero t.n (c i) q hqn
    rw [hc i hi]
    exact (hV _).mp (b ⟨i, hi⟩).property.2 ⟨q, hqn⟩ hq
  · -- independence
    intro S hS i hi
    have h0 := vec_eq_zero_of_eqOn_one t.n _ hS
    rw [hvec S] at h0
    have h1 : (∑ i : Fin κ, Graphiq.b2z (S i.val) • b i : ↥((STab.ofTab t).gspace ⊓ V)) = 0 :=
      Subtype.ext h0
    have := (Fintype.linearIndependent_iff.mp b.linearIndependent) (fun i => Graphiq.b2z (S i.val)) h1 ⟨i, hi⟩
    exact (Graphiq.b2z_eq_zero _).1 this
  · -- spanning
    intro g hg hid
    have hgA : (STab.ofTab t).Spn g := (spn_of_grp t hr g).mp hg
    have hgW : g.vec t.n ∈ (STab.ofTab t).gspace ⊓ V := by
      refine ⟨inSpan_vec_mem t.n (STab.ofTab t).row g hgA, (hV _).mpr ?_⟩
      intro j hj
      have := hid j.val hj
      show (Graphiq.b2z (g.x j), Graphiq.b2z (g.z j)) = 0
      rw [this.1, this.2]; rfl
    obtain ⟨S, hS⟩ : ∃ S : Nat → Bool, ∀ i : Fin κ, Graphiq.b2z (S i.val) = b.repr ⟨g.vec t.n, hgW⟩ i :=
      ⟨fun i => if h : i < κ then decide (b.repr ⟨g.vec t.n, hgW⟩ ⟨i, h⟩ = 1) else false, fun i => by
        simp only [dif_pos i.isLt]
        exact b2z_decide_eq_one _⟩
    have hsum : (∑ i : Fin κ, Graphiq.b2z (S i.val) • b i : ↥((STab.ofTab t).gspace ⊓ V))
        = ⟨g.vec t.n, hgW⟩ := by
      rw [Finset.sum_congr rfl (fun i _ => by rw [hS i])]
      exact b.sum_repr _
    have hvg : (sprod t.n c S κ).vec t.n = g.vec t.n := by
      rw [hvec S, hsum]
    refine ⟨S, ?_⟩
    have sb : SameBits t.n g (sprod t.n c S κ) := sameBits_of_vec_eq t.n _ _ hvg.symm
    have hg' : Grp t (sprod t.n c S κ) :=
      (spn_of_grp t hr _).mpr (sprod_spn_gens' (STab.ofTab t) c κ hcmem S κ (Nat.le_refl _))
    have r1 := grp_real t hv hr g hg
    have r2 := grp_real t hv hr _ hg'
    rcases eqOn_or_negate t.n g _ sb (r1.trans r2.symm) with e | e
    · exact e
    · exfalso
      have hneg : Grp t (negate (sprod t.n c S κ)) := InSpan.eqv _ _ hg e
      exact (grp_isStabGrp t hv hr).cons _ hg' hneg

/-- **existence of a local basis of rank `finrank`**: for the cut after site `k` of a valid tableau the subgroup of
    stabilizers supported right of `k` has an independent generating set with
    `κ = dim_GF(2) (gspace ⊓ rightOf k)` elements -/
theorem exists_localBasis_cut (t : Tab) (hv : t.Valid) (hr : t.StabReal) (k : Nat) (hk : k < t.n) :
    ∃ c : Nat → PRow,
      IsLocalBasis t (leftSites k) (finrank (ZMod 2) ↥((STab.ofTab t).gspace ⊓ rightOf t.n k)) c :=
  exists_localBasis_of_basis t hv hr (leftSites k) (fun q hq => by have := (mem_leftSites k q).mp hq; omega)
    (rightOf t.n k)
    (fun v => by
      rw [mem_rightOf]
      exact ⟨fun h j hj => h j ((mem_leftSites k j.val).mp hj), fun h j hj => h j ((mem_leftSites k j.val).mpr hj)⟩)
    _ (Module.finBasis (ZMod 2) ↥((STab.ofTab t).gspace ⊓ rightOf t.n k))

/-- vectors that are trivial on the sites of `rem` -/
def idOnSub (n : Nat) (rem : List Nat) : Submodule (ZMod 2) (PVec n) where
  carrier := {v | ∀ j : Fin n, j.val ∈ rem → v j = 0}
  add_mem' := by
    intro a b ha hb j hj
    show a j + b j = 0
    rw [ha j hj, hb j hj, add_zero]
  zero_mem' := by intro j _; rfl
  smul_mem' := by
    intro c a ha j hj
    show c • a j = 0
    rw [ha j hj, smul_zero]

/-- **every reduced state of a stabilizer state has a flat spectrum** (unconditional): for every valid tableau and every
    (strictly descending) list of traced-out sites there are `κ` and an orthogonal projector `Π` with
    `Tr_rem ρ = (2^κ/2^m) · Π`; so `σ² = (2^κ/2^m) σ` and the purity is `2^κ/2^m`, with
    `κ = dim_GF(2) (G ∩ {trivial on rem})` -/
theorem reduced_state_flat (m : Nat) (t : Tab) (rem : List Nat) (hn : t.n = m + rem.length) (hv : t.Valid)
    (hr : t.StabReal) (hpw : rem.Pairwise (· > ·)) (hlt : ∀ q, q ∈ rem → q < t.n) :
    ∃ Pr : Matrix (Bits m) (Bits m) ℂ, Pr * Pr = Pr ∧ Prᴴ = Pr ∧
      ptraceList rem (rho (m + rem.length) (STab.ofTab t))
        = ((2 : ℂ) ^ (finrank (ZMod 2) ↥((STab.ofTab t).gspace ⊓ idOnSub t.n rem)) / 2 ^ m) • Pr ∧
      Matrix.trace (ptraceList rem (rho (m + rem.length) (STab.ofTab t))
          * ptraceList rem (rho (m + rem.length) (STab.ofTab t)))
        = (2 : ℂ) ^ (finrank (ZMod 2) ↥((STab.ofTab t).gspace ⊓ idOnSub t.n rem)) / 2 ^ m := by
  obtain ⟨c, hb⟩ := exists_localBasis_of_basis t hv hr rem hlt (idOnSub t.n rem) (fun _ => Iff.rfl) _
    (Module.finBasis (ZMod 2) ↥((STab.ofTab t).gspace ⊓ idOnSub t.n rem))
  obtain ⟨h1, h2, h3, _, h5⟩ := reduced_state_eq_proj m t rem hn hv hr hpw hlt _ c hb
  exact ⟨_, h2, h3, h1, h5⟩

/-- **The height-function dimension is an entanglement entropy.**  Valid tableau on `n` qubits, cut after site `k < n`,
    `m = n − (k+1)` qubits on the right, `κ = dim_GF(2) (G ∩ supported right of k)`.  The reduced state of the right part
    `σ = Tr_{0..k} ρ` satisfies `σ² = (2^κ/2^m) σ` and has purity `tr σ² = 2^κ / 2^m = 2^{-(m-κ)}`. -/
theorem cut_entropy (m : Nat) (t : Tab) (k : Nat) (hn : t.n = m + (leftSites k).length) (hv : t.Valid)
    (hr : t.StabReal) :
    ptraceList (leftSites k) (rho (m + (leftSites k).length) (STab.ofTab t))
        * ptraceList (leftSites k) (rho (m + (leftSites k).length) (STab.ofTab t))
      = ((2 : ℂ) ^ (finrank (ZMod 2) ↥((STab.ofTab t).gspace ⊓ rightOf t.n k)) / 2 ^ m)
          • ptraceList (leftSites k) (rho (m + (leftSites k).length) (STab.ofTab t)) ∧
    Matrix.trace (ptraceList (leftSites k) (rho (m + (leftSites k).length) (STab.ofTab t))
        * ptraceList (leftSites k) (rho (m + (leftSites k).length) (STab.ofTab t)))
      = (2 : ℂ) ^ (finrank (ZMod 2) ↥((STab.ofTab t).gspace ⊓ rightOf t.n k)) / 2 ^ m := by
  have hk : k < t.n := by rw [hn, leftSites_length]; omega
  obtain ⟨c, hb⟩ := exists_localBasis_cut t hv hr k hk
  have hlt : ∀ q, q ∈ leftSites k → q < t.n := fun q hq => by
    have := (mem_leftSites k q).mp hq; omega
  obtain ⟨_, _, _, h4, h5⟩ := reduced_state_eq_proj m t (leftSites k) hn hv hr (leftSites_desc k) hlt _ c hb
  exact ⟨h4, h5⟩

/-- **graphiq's height function is the entanglement entropy of the cut**: whenever `height_func_list` returns the list `l`
    for the stabilizer half of a valid tableau, its entry `k` is `−log₂` of the purity of the reduced state of the qubits
    right of `k`: `tr (Tr_{0..k} ρ)² = 2^{−l[k]}` -/
theorem height_is_renyi_entropy (m : Nat) (t : Tab) (k : Nat) (hn : t.n = m + (leftSites k).length) (hv : t.Valid)
    (hr : t.StabReal) (l : List Int) (h : (STab.ofTab t).heightFuncList = .ok l) :
    Matrix.trace (ptraceList (leftSites k) (rho (m + (leftSites k).length) (STab.ofTab t))
        * ptraceList (leftSites k) (rho (m + (leftSites k).length) (STab.ofTab t)))
      = (2 : ℂ) ^ (-(l.getD k 0)) := by
  have hlen := leftSites_length k
  have hk : k < t.n := by rw [hn, hlen]; omega
  rw [(cut_entropy m t k hn hv hr).2, heightFuncList_eq_finrank (STab.ofTab t) l h]
  have hget : ((List.range (STab.ofTab t).n).map fun (k : Nat) =>
      Int.ofNat (STab.ofTab t).n - (Int.ofNat k + 1)
        - Int.ofNat (finrank (ZMod 2) ↥((STab.ofTab t).gspace ⊓ rightOf (STab.ofTab t).n k))).getD k 0
      = Int.ofNat t.n - (Int.ofNat k + 1) - Int.ofNat (finrank (ZMod 2) ↥((STab.ofTab t).gspace ⊓ rightOf t.n k)) := by
    rw [List.getD_eq_getElem?_getD, List.getElem?_map, List.getElem?_range (by exact hk)]
    rfl
  rw [hget]
  generalize finrank (ZMod 2) ↥((STab.ofTab t).gspace ⊓ rightOf t.n k) = κ
  have he : -(Int.ofNat t.n - (Int.ofNat k + 1) - Int.ofNat κ) = ((κ : ℕ) : ℤ) - ((m : ℕ) : ℤ) := by
    simp only [Int.ofNat_eq_natCast]
    omega
  rw [he, zpow_sub₀ (by norm_num : (2 : ℂ) ≠ 0), zpow_natCast, zpow_natCast]

/-! ### arbitrary stabilizer tableaux (`STab`): real commuting generators on which `height_func_list` returns -/

/-- linear independence of the symplectic vectors over GF(2) is the independence notion `STab.Indep` -/
theorem indep_of_linearIndependent (t : STab)
    (hli : LinearIndependent (ZMod 2) (fun i : Fin t.n => (t.row i).vec t.n)) : t.Indep := by
  intro S hS i hi
  rw [Fintype.linearIndependent_iff] at hli
  have hz : ∑ j : Fin t.n, (Graphiq.b2z (S j.val)) • (t.row j).vec t.n = 0 := by
    funext j
    rw [lincomb_apply t.n t.row (fun j : Fin t.n => Graphiq.b2z (S j.val)) j]
    have hsel : ∀ i, i < t.n → selOf (fun j : Fin t.n => Graphiq.b2z (S j.val)) i = S i := by
      intro i hi
      unfold selOf
      rw [dif_pos hi]
      show decide (Graphiq.b2z (S i) = 1) = S i
      cases hsi : S i <;> simp [Graphiq.b2z]
    have hx : parityTo t.n (fun i => selOf (fun j : Fin t.n => Graphiq.b2z (S j.val)) i && (t.row i).x j)
        = parityTo t.n (fun i => S i && STab.xb t i j) :=
      parityTo_congr t.n _ _ (fun i hi => by rw [hsel i hi]; rfl)
    have hzz : parityTo t.n (fun i => selOf (fun j : Fin t.n => Graphiq.b2z (S j.val)) i && (t.row i).z j)
        = parityTo t.n (fun i => S i && STab.zb t i j) :=
      parityTo_congr t.n _ _ (fun i hi => by rw [hsel i hi]; rfl)
    rw [hx, hzz, (hS j.val j.isLt).1, (hS j.val j.isLt).2]
    rfl
  have := hli (fun j : Fin t.n => Graphiq.b2z (S j.val)) hz ⟨i, hi⟩
  exact (Graphiq.b2z_eq_zero _).1 this

/-- **graphiq's height function is the entanglement entropy of the cut, for every stabilizer tableau** (real commuting
    generators, any gauge): whenever `height_func_list` returns the list `l`, the reduced state `σ = Tr_{0..k} ρ` of the
    qubits right of `k` satisfies `σ² = 2^{−l[k]} σ` (flat spectrum: maximally mixed on a subspace of dimension `2^{l[k]}`),
    `tr σ = 1`, and its purity is `tr σ² = 2^{−l[k]}` -/
theorem height_is_renyi_entropy_stab (m : Nat) (t : STab) (k : Nat) (hn : t.n = m + (leftSites k).length)
    (hg : t.Good) (l : List Int) (h : t.heightFuncList = .ok l) :
    ptraceList (leftSites k) (rho (m + (leftSites k).length) t) * ptraceList (leftSites k) (rho (m + (leftSites k).length) t)
      = ((2 : ℂ) ^ (-(l.getD k 0))) • ptraceList (leftSites k) (rho (m + (leftSites k).length) t) ∧
    Matrix.trace (ptraceList (leftSites k) (rho (m + (leftSites k).length) t)) = 1 ∧
    Matrix.trace (ptraceList (leftSites k) (rho (m + (leftSites k).length) t)
        * ptraceList (leftSites k) (rho (m + (leftSites k).length) t)) = (2 : ℂ) ^ (-(l.getD k 0)) := by
  have hlen := leftSites_length k
  have hk : k < t.n := by rw [hn, hlen]; omega
  have hli := (heightFuncList_ok_iff_indep t).mp ⟨l, h⟩
  obtain ⟨T, _, hTn, vT, rT, sT⟩ := cliffordFromStabilizer_complete t hg (indep_of_linearIndependent t hli)
  have rT' : T.StabReal := fun i h1 h2 => rT i (by rw [← hTn]; exact h2)
  obtain ⟨n, row⟩ := t
  simp only at hTn hn hk
  subst hTn
  -- same density matrix
  have hρ : rho (m + (leftSites k).length) (STab.mk T.n row) = rho (m + (leftSites k).length) (STab.ofTab T) := by
    have := rho_spanEq (STab.ofTab T) (STab.mk T.n row) sT (ofTab_good T vT) hg
    have e : (STab.ofTab T).n = m + (leftSites k).length := hn
    rw [e] at this
    exact this.symm
  -- same subspace
  have hgs : (STab.ofTab T).gspace = (STab.mk T.n row).gspace :=
    gspaceOf_eq_of_inSpan T.n (STab.ofTab T).row row (fun p => ⟨sT.sub p, sT.sup p⟩)
  obtain ⟨c1, c2⟩ := cut_entropy m T k hn vT rT'
  have tr1 : Matrix.trace (ptraceList (leftSites k) (rho (m + (leftSites k).length) (STab.ofTab T))) = 1 := by
    rw [trace_ptraceList (leftSites k) (fun q hq => by have := (mem_leftSites k q).mp hq; omega) (leftSites_desc k)]
    have := rho_ofTab_trace T vT
    rw [hn] at this; exact this
  -- the exponent
  have hexp : (2 : ℂ) ^ (finrank (ZMod 2) ↥((STab.ofTab T).gspace ⊓ rightOf T.n k)) / 2 ^ m
      = (2 : ℂ) ^ (-(l.getD k 0)) := by
    rw [heightFuncList_eq_finrank (STab.mk T.n row) l h, hgs]
    have hget : ((List.range (STab.mk T.n row).n).map fun (k : Nat) =>
        Int.ofNat (STab.mk T.n row).n - (Int.ofNat k + 1)
          - Int.ofNat (finrank (ZMod 2) ↥((STab.mk T.n row).gspace ⊓ rightOf (STab.mk T.n row).n k))).getD k 0
        = Int.ofNat T.n - (Int.ofNat k + 1)
          - Int.ofNat (finrank (ZMod 2) ↥((STab.mk T.n row).gspace ⊓ rightOf T.n k)) := by
      rw [List.getD_eq_getElem?_getD, List.getElem?_map, List.getElem?_range (by exact hk)]
      rfl
    rw [hget]
    have he : ∀ κ : ℕ, -(Int.ofNat T.n - (Int.ofNat k + 1) - Int.ofNat κ) = ((κ : ℕ) : ℤ) - ((m : ℕ) : ℤ) := by
      intro κ
      simp only [Int.ofNat_eq_natCast]
      omega
    rw [he, zpow_sub₀ (by norm_num : (2 : ℂ) ≠ 0), zpow_natCast, zpow_natCast]
    rfl
  rw [hρ, ← hexp]
  exact ⟨c1, tr1, c2⟩

/-- every element of a list is below its running maximum -/
theorem le_foldl_max (hs : List Int) : ∀ h0 : Int, h0 ≤ hs.foldl max h0 ∧ ∀ x, x ∈ hs → x ≤ hs.foldl max h0 := by
  induction hs with
  | nil => intro h0; exact ⟨le_refl _, fun x hx => by cases hx⟩
  | cons a rest ih =>
    intro h0
    obtain ⟨i1, i2⟩ := ih (max h0 a)
    refine ⟨le_trans (le_max_left h0 a) i1, fun x hx => ?_⟩
    rcases List.mem_cons.mp hx with e | e
    · rw [e]; exact le_trans (le_max_right h0 a) i1
    · exact i2 x e


/-! ### non-vacuity: the Bell pair -/

/-- Bell pair with generators `XX`, `ZZ` and destabilizers `Z₀`, `X₁` -/
def bellE : Tab :=
  Tab.ofRows 2 #[PRow.Zq 0, PRow.Xq 1,
    PRow.ofArrays #[true, true] #[false, false] false false, PRow.ofArrays #[false, false] #[true, true] false false]

theorem bellE_valid : bellE.Valid := (Tab.isSymplectic_iff bellE).mp (by decide)
theorem bellE_real : bellE.StabReal := stabRealB_spec bellE (by decide)

/-- `height_func_list` returns `[1, 0]` on the Bell pair, and the purity of the reduced state of qubit 1 is `2^{-1}` -/
example : ∃ l, (STab.ofTab bellE).heightFuncList = .ok l ∧ l.getD 0 0 = 1 ∧
    Matrix.trace (ptraceList (leftSites 0) (rho (1 + (leftSites 0).length) (STab.ofTab bellE))
        * ptraceList (leftSites 0) (rho (1 + (leftSites 0).length) (STab.ofTab bellE))) = (2 : ℂ) ^ (-(l.getD 0 0)) := by
  cases hl : (STab.ofTab bellE).heightFuncList with
  | error e =>
    exfalso
    have : (match (STab.ofTab bellE).heightFuncList with | .ok l => l == [1, 0] | .error _ => false) = true := by
      decide +kernel
    rw [hl] at this; cases this
  | ok l =>
    have h10 : (match (STab.ofTab bellE).heightFuncList with | .ok l => l == [1, 0] | .error _ => false) = true := by
      decide +kernel
    rw [hl] at h10
    have hl' : l = [1, 0] := by simpa using h10
    refine ⟨l, rfl, by rw [hl']; rfl, ?_⟩
    exact height_is_renyi_entropy 1 bellE 0 rfl bellE_valid bellE_real l hl

end Hilbert
end Graphiq
