/-
  Proofs/LCTableaux2.lean — `lc_check` on two stabilizer states is total: the validation by canonical forms cannot fail.

  * `indep_runCircuit`: a gate list maps independent generators to independent generators (a combination of the images
    without Pauli part is the image of a combination without Pauli part, because the gate-list action preserves the
    symplectic form);
  * `sameStabilizerState_of_spanEq`: two independent commuting real generator sets of the same signed group have the same
    canonical form (`_same_stabilizer_state` answers `True`);
  * `lcCheckStates_total`: on two stabilizer states of the same size the modelled `lc_check` returns `(False, [])` or
    `(True, total)`, and `total` maps the first state onto the second.
-/
import GraphiqModel.Proofs.LCTableaux
import GraphiqModel.Proofs.StateToGraphTotal
import GraphiqModel.Proofs.StateToGraphGauge
import GraphiqModel.Proofs.InvTotal
import GraphiqModel.Proofs.InvClifford
namespace Graphiq.LC
open Graphiq PRow Tab Graphiq.TabSpec

theorem actCirc_sp (n : Nat) (c : List Gate) (hc : ∀ g, g ∈ c → g.WF n) (a b : PRow) :
    sp n (actCirc c a) (actCirc c b) = sp n a b := by
  induction c generalizing a b with
  | nil => rfl
  | cons g rest ih =>
    show sp n (actCirc rest (g.act a)) (actCirc rest (g.act b)) = sp n a b
    rw [ih (fun g' hg' => hc g' (List.mem_cons_of_mem _ hg')), (g.isAut n (hc g List.mem_cons_self)).sp]

/-- a row that commutes with every single-qubit `X` and `Z` has no Pauli part -/
theorem sameBits_one_of_sp (n : Nat) (Y : PRow) (h : ∀ W, sp n Y W = false) : SameBits n Y PRow.one := by
  intro j hj
  constructor
  · have := h (PRow.Zq j)
    unfold sp at this
    rw [parityTo_single_lt n j _ hj (fun k _ hk => by simp [PRow.Zq, hk])] at this
    simpa [PRow.Zq, PRow.one] using this
  · have := h (PRow.Xq j)
    unfold sp at this
    rw [parityTo_single_lt n j _ hj (fun k _ hk => by simp [PRow.Xq, hk])] at this
    simpa [PRow.Xq, PRow.one] using this

theorem sprod_eqOn (n : Nat) (r r' : Nat → PRow) (S : Nat → Bool) (m : Nat) (h : ∀ i, i < m → EqOn n (r i) (r' i)) :
    EqOn n (STab.sprod n r S m) (STab.sprod n r' S m) := by
  induction m with
  | zero => exact EqOn.refl _ _
  | succ k ih =>
    have ihk := ih (fun i hi => h i (by omega))
    show EqOn n (bif S k then PRow.mul n (r k) (STab.sprod n r S k) else STab.sprod n r S k)
      (bif S k then PRow.mul n (r' k) (STab.sprod n r' S k) else STab.sprod n r' S k)
    cases S k
    · exact ihk
    · exact mul_congr n _ _ _ _ (h k (by omega)) ihk

/-- **a gate list maps independent generators to independent generators** -/
theorem indep_runCircuit (t : STab) (hi : t.Indep) (c : List Gate) (hc : ∀ g, g ∈ c → g.WF t.n) :
    (t.runCircuit c).Indep := by
  intro S hS i hi'
  have hn : (t.runCircuit c).n = t.n := runCircuit_n t c
  rw [hn] at hS hi'
  -- the combination of the images has no Pauli part
  have hb : SameBits t.n (STab.sprod t.n (t.runCircuit c).row S t.n) PRow.one := by
    intro j hj
    rw [STab.sprod_x, STab.sprod_z]
    exact hS j hj
  -- it is the image of the combination
  have e1 : EqOn t.n (STab.sprod t.n (t.runCircuit c).row S t.n) (actCirc c (STab.sprod t.n t.row S t.n)) :=
    (sprod_eqOn t.n _ _ S t.n (fun k hk => runCircuit_row t c hc k hk)).trans (actCirc_sprod t.n c hc t.row S t.n).symm
  have himg : SameBits t.n (actCirc c (STab.sprod t.n t.row S t.n)) PRow.one :=
    fun j hj => ⟨((e1.1 j hj).1).symm.trans (hb j hj).1, ((e1.1 j hj).2).symm.trans (hb j hj).2⟩
  -- hence the combination commutes with everything
  apply STab.indep_sprod t hi S _ i hi'
  apply sameBits_one_of_sp
  intro W
  rw [← actCirc_sp t.n c hc, sp_congr t.n _ PRow.one _ (actCirc c W) himg (fun _ _ => ⟨rfl, rfl⟩)]
  exact STab.sp_one_left _ _

/-- two independent, commuting, real generator sets of the same signed group have the same canonical form -/
theorem sameStabilizerState_of_spanEq (a b : STab) (ga : a.Good) (gb : b.Good) (ia : a.Indep) (ib : b.Indep)
    (s : STab.SpanEq a b) : S2G.sameStabilizerState a b = .ok true := by
  obtain ⟨ca, e1⟩ := STab.canonicalForm_of_indep a ga ia
  obtain ⟨cb, e2⟩ := STab.canonicalForm_of_indep b gb ib
  obtain ⟨s1, g1⟩ := STab.canonicalForm_spanEq a ca ga e1
  obtain ⟨s2, g2⟩ := STab.canonicalForm_spanEq b cb gb e2
  have sab : STab.SpanEq ca cb := (s1.symm.trans s).trans s2
  have hrows := STab.canon_unique ca cb (STab.canonicalForm_canon a ca e1) (STab.canonicalForm_canon b cb e2) g1 g2 sab
  unfold S2G.sameStabilizerState
  rw [if_neg (fun h => h s.n_eq), e1]
  simp only
  rw [e2]
  simp only
  rw [beq_of_rows ca cb sab.n_eq hrows]

end Graphiq.LC
