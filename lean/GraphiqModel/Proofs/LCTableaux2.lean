/-
  Proofs/LCTableaux2.lean — `lc_check` on two stabilizer states is total: the validation by canonical forms cannot fail.

  * `indep_runCircuit`: a gate list maps independent generators to independent generators (a combination of the images
    without Pauli part is the image of a combination without Pauli part, because the gate-list action preserves the
    symplectic form);
  * `sameStabilizerState_of_spanEq`: two independent commuting real generator sets of the same signed group have the same
    canonical form (`_same_stabilizer_state` answers `True`);
  * `lcCheckStates_total`: on two stabilizer states of the same size the modelled `lc_check` returns `(False, [])` or
    `(True, total)`, and `total` maps the first state onto the second.
-/
import GraphiqModel.Proofs.LCTableaux
import GraphiqModel.Proofs.StateToGraphTotal
import GraphiqModel.Proofs.StateToGraphGauge
import GraphiqModel.Proofs.InvTotal
import GraphiqModel.Proofs.InvClifford
namespace Graphiq.LC
open Graphiq PRow Tab Graphiq.TabSpec

theorem actCirc_sp (n : Nat) (c : List Gate) (hc : ∀ g, g ∈ c → g.WF n) (a b : PRow) :
    sp n (actCirc c a) (actCirc c b) = sp n a b := by
  induction c generalizing a b with
  | nil => rfl
  | cons g rest ih =>
    show sp n (actCirc rest (g.act a)) (actCirc rest (g.act b)) = sp n a b
    rw [ih (fun g' hg' => hc g' (List.mem_cons_of_mem _ hg')), (g.isAut n (hc g List.mem_cons_self)).sp]

/-- a row that commutes with every single-qubit `X` and `Z` has no Pauli part -/
theorem sameBits_one_of_sp (n : Nat) (Y : PRow) (h : ∀ W, sp n Y W = false) : SameBits n Y PRow.one := by
  intro j hj
  constructor
  · have := h (PRow.Zq j)
    unfold sp at this
    rw [parityTo_single_lt n j _ hj (fun k _ hk => by simp [PRow.Zq, hk])] at this
    simpa [PRow.Zq, PRow.one] using this
  · have := h (PRow.Xq j)
    unfold sp at this
    rw [parityTo_single_lt n j _ hj (fun k _ hk => by simp [PRow.Xq, hk])] at this
    simpa [PRow.Xq, PRow.one] using this

theorem sprod_eqOn (n : Nat) (r r' : Nat → PRow) (S : Nat → Bool) (m : Nat) (h : ∀ i, i < m → EqOn n (r i) (r' i)) :
    EqOn n (STab.sprod n r S m) (STab.sprod n r' S m) := by
  induction m with
  | zero => exact EqOn.refl _ _
  | succ k ih =>
    have ihk := ih (fun i hi => h i (by omega))
    show EqOn n (bif S k then PRow.mul n (r k) (STab.sprod n r S k) else STab.sprod n r S k)
      (bif S k then PRow.mul n (r' k) (STab.sprod n r' S k) else STab.sprod n r' S k)
    cases S k
    · exact ihk
    · exact mul_congr n _ _ _ _ (h k (by omega)) ihk

/-- **a gate list maps independent generators to independent generators** -/
theorem indep_runCircuit (t : STab) (hi : t.Indep) (c : List Gate) (hc : ∀ g, g ∈ c → g.WF t.n) :
    (t.runCircuit c).Indep := by
  intro S hS i hi'
  have hn : (t.runCircuit c).n = t.n := runCircuit_n t c
  rw [hn] at hS hi'
  -- the combination of the images has no Pauli part
  have hb : SameBits t.n (STab.sprod t.n (t.runCircuit c).row S t.n) PRow.one := by
    intro j hj
    rw [STab.sprod_x, STab.sprod_z]
    exact hS j hj
  -- it is the image of the combination
  have e1 : EqOn t.n (STab.sprod t.n (t.runCircuit c).row S t.n) (actCirc c (STab.sprod t.n t.row S t.n)) :=
    (sprod_eqOn t.n _ _ S t.n (fun k hk => runCircuit_row t c hc k hk)).trans (actCirc_sprod t.n c hc t.row S t.n).symm
  have himg : SameBits t.n (actCirc c (STab.sprod t.n t.row S t.n)) PRow.one :=
    fun j hj => ⟨((e1.1 j hj).1).symm.trans (hb j hj).1, ((e1.1 j hj).2).symm.trans (hb j hj).2⟩
  -- hence the combination commutes with everything
  apply STab.indep_sprod t hi S _ i hi'
  apply sameBits_one_of_sp
  intro W
  rw [← actCirc_sp t.n c hc, sp_congr t.n _ PRow.one _ (actCirc c W) himg (fun _ _ => ⟨rfl, rfl⟩)]
  exact STab.sp_one_left _ _

/-- two independent, commuting, real generator sets of the same signed group have the same canonical form -/
theorem sameStabilizerState_of_spanEq (a b : STab) (ga : a.Good) (gb : b.Good) (ia : a.Indep) (ib : b.Indep)
    (s : STab.SpanEq a b) : S2G.sameStabilizerState a b = .ok true := by
  obtain ⟨ca, e1⟩ := STab.canonicalForm_of_indep a ga ia
  obtain ⟨cb, e2⟩ := STab.canonicalForm_of_indep b gb ib
  obtain ⟨s1, g1⟩ := STab.canonicalForm_spanEq a ca ga e1
  obtain ⟨s2, g2⟩ := STab.canonicalForm_spanEq b cb gb e2
  have sab : STab.SpanEq ca cb := (s1.symm.trans s).trans s2
  have hrows := STab.canon_unique ca cb (STab.canonicalForm_canon a ca e1) (STab.canonicalForm_canon b cb e2) g1 g2 sab
  unfold S2G.sameStabilizerState
  rw [if_neg (fun h => h s.n_eq), e1]
  simp only
  rw [e2]
  simp only
  rw [beq_of_rows ca cb sab.n_eq hrows]

/-- **`lc_check` on two stabilizer states is total and right**: for two stabilizer states (commuting, real, independent
    generators) on the same `n ≥ 1` qubits, the modelled `lc_check` — `state_to_graph` twice, `converter_gate_list`, the total
    gate list, and (if asked) the validation by canonical forms — returns `(False, [])` or `(True, total)`; no assertion, no
    warning; and in the second case `total` maps the first state exactly onto the second -/
theorem lcCheckStates_total (t1 t2 : STab) (hn1 : 0 < t1.n) (hn : t1.n = t2.n) (g1 : t1.Good) (i1 : t1.Indep)
    (g2 : t2.Good) (i2 : t2.Indep) (validate : Bool) :
    lcCheckStates t1 t2 validate = .ok (false, []) ∨
      ∃ total, lcCheckStates t1 t2 validate = .ok (true, total) ∧ STab.SpanEq (t1.runCircuit total) t2 := by
  obtain ⟨a1, G1, e1⟩ := stateToGraph_complete t1 hn1 g1 i1
  obtain ⟨a2, G2, e2⟩ := stateToGraph_complete t2 (by omega) g2 i2
  have hr1 := stateToGraphWith_r _ t1 a1 G1 e1
  have hr2 := stateToGraphWith_r _ t2 a2 G2 e2
  obtain ⟨wf1, _, sym1, irr1⟩ := stateToGraphWith_sound S2G.gf2InvF t1 g1.real a1 G1 e1
  obtain ⟨wf2, _, sym2, irr2⟩ := stateToGraphWith_sound S2G.gf2InvF t2 g2.real a2 G2 e2
  unfold lcCheckStates
  rw [e1]
  simp only []
  rw [e2]
  simp only []
  cases hc : converterGateListR a1 a2 with
  | error e => exact Or.inl rfl
  | ok r =>
    obtain ⟨L, flag⟩ := r
    right
    have hL : lcCheckR a1 a2 false = .ok (true, L) := by
      unfold lcCheckR
      rw [hc]
      rfl
    have key := lc_check_tableaux t1 t2 g1.real g2.real hn a1 a2 G1 G2 e1 e2 false L hL
    have himg := lc_gates_image a1 a2 (by rw [hr1, hr2, hn]) (by rw [hr1]; exact ⟨sym1, irr1⟩)
      (by rw [hr2]; exact ⟨sym2, irr2⟩) false L hL
    have hwf : ∀ g, g ∈ G1 ++ L.map toGate ++ revCirc G2 → g.WF t1.n := by
      intro g hg
      rcases List.mem_append.mp hg with h | h
      · rcases List.mem_append.mp h with h | h
        · exact wf1 g h
        · have := himg.wf g h
          rw [hr1] at this; exact this
      · have := revCirc_wf t2.n G2 wf2 g h
        rw [← hn] at this; exact this
    refine ⟨G1 ++ L.map toGate ++ revCirc G2, ?_, key⟩
    simp only []
    cases validate
    · rfl
    · have hgood := (tracks_runCircuit t1 g1 _ hwf).good
      have hind := indep_runCircuit t1 i1 _ hwf
      have hsame := sameStabilizerState_of_spanEq _ t2 hgood g2 hind i2 key
      have hsame' : S2G.sameStabilizerState (t1.runCircuit (G1 ++ L.map toGate ++ G2.reverse.map Gate.rev)) t2 = .ok true :=
        hsame
      rw [if_pos rfl, hsame']
      rfl

/-- the same when the second argument of `lc_check` is a graph: total and right -/
theorem lcCheckStateGraph_total (t1 : STab) (g2 : BMat) (hn1 : 0 < t1.n) (hr : g2.r = t1.n) (hs2 : Simple g2.r g2.f)
    (g1 : t1.Good) (i1 : t1.Indep) (validate : Bool) :
    lcCheckStateGraph t1 g2 validate = .ok (false, []) ∨
      ∃ total, lcCheckStateGraph t1 g2 validate = .ok (true, total) ∧
        STab.SpanEq (t1.runCircuit total) (graphSTab g2.r g2.f) := by
  obtain ⟨a1, G1, e1⟩ := stateToGraph_complete t1 hn1 g1 i1
  have hr1 := stateToGraphWith_r _ t1 a1 G1 e1
  obtain ⟨wf1, s1, sym1, irr1⟩ := stateToGraphWith_sound S2G.gf2InvF t1 g1.real a1 G1 e1
  unfold lcCheckStateGraph
  rw [e1]
  simp only []
  cases hc : converterGateListR a1 g2 with
  | error e => exact Or.inl rfl
  | ok r =>
    obtain ⟨L, flag⟩ := r
    right
    have hL : lcCheckR a1 g2 false = .ok (true, L) := by
      unfold lcCheckR
      rw [hc]
      rfl
    have himg := lc_gates_image a1 g2 (by rw [hr1, hr]) (by rw [hr1]; exact ⟨sym1, irr1⟩) hs2 false L hL
    rw [hr1] at himg
    have i1' : CircImage t1.n G1 t1 (graphSTab t1.n a1.f) :=
      (circImage_runCircuit t1 G1 wf1).congr (STab.SpanEq.refl t1) s1
    have itot := circImage_comp i1' himg
    have key : STab.SpanEq (t1.runCircuit (G1 ++ L.map toGate)) (graphSTab g2.r g2.f) := by
      rw [hr]
      exact circImage_unique (circImage_runCircuit t1 _ itot.wf) itot
    refine ⟨G1 ++ L.map toGate, ?_, key⟩
    simp only []
    cases validate
    · rfl
    · have hgood := (tracks_runCircuit t1 g1 _ itot.wf).good
      have hind := indep_runCircuit t1 i1 _ itot.wf
      have hgG := graphSTab_good g2.r g2.f hs2.1
      have hiG := STab.graphSTab_indep g2.r g2.f
      have hsame := sameStabilizerState_of_spanEq _ _ hgood hgG hind hiG key
      rw [if_pos rfl, hsame]

end Graphiq.LC
