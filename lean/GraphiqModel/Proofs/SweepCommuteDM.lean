/-
  Proofs/SweepCommuteDM.lean — the commutation hypothesis `hcomm` of C13's abstract theorems, discharged for a
  density-matrix semantics of the compile sequence (the stabilizer semantics is `Commute.appG`, Proofs/CommuteSem.lean).

  `appD ne np : SOp → DSt → DSt` reads an operation of the compile sequence exactly as `Commute.appRaw` does — same
  decoding into primitives (`Commute.decode`), same outcome streams attached to the measured registers — but acts on
  complex `2ⁿ × 2ⁿ` matrices: a gate conjugates by its unitary (`Hilbert.gateMat`, C07 / C01), a measurement with recorded
  outcome `o` conjugates by the projector `Hilbert.projZ n q o` (the *unnormalised* post-measurement branch: its trace is
  the probability of the recorded outcomes, an impossible branch is the zero matrix), classically controlled corrections
  are applied when the recorded outcome is 1.  Operations on disjoint registers act through matrices that are local on
  disjoint qubit sets, so they commute (`Hilbert.local_conj_comm`, deep-c01).
-/
import GraphiqModel.Proofs.CommuteSem
import GraphiqModel.Proofs.HilbertBridgeCommute
namespace Graphiq.Commute
open Graphiq Matrix Classical
open Graphiq.Wire (Reg RegType SOp Item Kind G1 runSeq)

/-- the matrix of one primitive on `n` qubits; a recorded measurement outcome is its projector -/
noncomputable def primMat (n : Nat) : Tab.Op → Hilbert.DMat n
  | .h q => Hilbert.gateMat n (.H q)
  | .s q => Hilbert.gateMat n (.P q)
  | .sdg q => Hilbert.gateMat n (.Pdag q)
  | .x q => Hilbert.gateMat n (.X q)
  | .y q => Hilbert.gateMat n (.Y q)
  | .z q => Hilbert.gateMat n (.Z q)
  | .cnot c t => Hilbert.gateMat n (.CNOT c t)
  | .cz c t => Hilbert.gateMat n (.CZ c t)
  | .meas q o => Hilbert.projZ n q o
  | _ => 1

/-- the matrix of a primitive that passes the compiler's assertions is local on the primitive's qubits -/
theorem primMat_local (n : Nat) (p : Tab.Op) (hok : primOk n p = true) :
    Hilbert.Local n (fun j => j ∈ primSupp p) (primMat n p) := by
  cases p with
  | h q =>
    have hq : q < n := by simpa [primOk] using hok
    exact (Hilbert.gateMat_local n (.H q) hq).mono (fun j hj => by simp [primSupp]; exact hj)
  | s q =>
    have hq : q < n := by simpa [primOk] using hok
    exact (Hilbert.gateMat_local n (.P q) hq).mono (fun j hj => by simp [primSupp]; exact hj)
  | sdg q =>
    have hq : q < n := by simpa [primOk] using hok
    exact (Hilbert.gateMat_local n (.Pdag q) hq).mono (fun j hj => by simp [primSupp]; exact hj)
  | x q =>
    have hq : q < n := by simpa [primOk] using hok
    exact (Hilbert.gateMat_local n (.X q) hq).mono (fun j hj => by simp [primSupp]; exact hj)
  | y q =>
    have hq : q < n := by simpa [primOk] using hok
    exact (Hilbert.gateMat_local n (.Y q) hq).mono (fun j hj => by simp [primSupp]; exact hj)
  | z q =>
    have hq : q < n := by simpa [primOk] using hok
    exact (Hilbert.gateMat_local n (.Z q) hq).mono (fun j hj => by simp [primSupp]; exact hj)
  | cnot c t =>
    have hq : c < n ∧ t < n ∧ c ≠ t := by simpa [primOk] using hok
    exact (Hilbert.gateMat_local n (.CNOT c t) hq).mono (fun j hj => by simp [primSupp]; exact hj)
  | cz c t =>
    have hq : c < n ∧ t < n ∧ c ≠ t := by simpa [primOk] using hok
    exact (Hilbert.gateMat_local n (.CZ c t) hq).mono (fun j hj => by simp [primSupp]; exact hj)
  | meas q o =>
    have hq : q < n := by simpa [primOk] using hok
    exact (Hilbert.projZ_local n q hq o).mono (fun j hj => by simp [primSupp]; exact hj)
  | swap _ _ => simp [primOk] at hok
  | resetZ _ _ _ => simp [primOk] at hok
  | resetX _ _ _ => simp [primOk] at hok
  | resetY _ _ _ => simp [primOk] at hok
  | insert _ => simp [primOk] at hok
  | add => simp [primOk] at hok
  | remove _ _ => simp [primOk] at hok
  | ptrace _ _ => simp [primOk] at hok

/-- **density-matrix semantics of a primitive**: conjugation by its matrix; undefined when a compiler assertion fails -/
noncomputable def appPD (n : Nat) (op : Tab.Op) (s : Option (Hilbert.DMat n)) : Option (Hilbert.DMat n) :=
  if primOk n op then s.map fun ρ => primMat n op * ρ * (primMat n op)ᴴ else none

theorem appPD_none (n : Nat) (op : Tab.Op) : appPD n op none = none := by
  unfold appPD; split <;> rfl

theorem appPD_not_ok (n : Nat) (op : Tab.Op) (h : primOk n op ≠ true) (s : Option (Hilbert.DMat n)) : appPD n op s = none := by
  unfold appPD; rw [if_neg h]

/-- primitives with disjoint supports commute on every matrix -/
theorem appPD_comm (n : Nat) (a b : Tab.Op) (hd : ∀ j, j ∈ primSupp a → j ∉ primSupp b) (s : Option (Hilbert.DMat n)) :
    appPD n a (appPD n b s) = appPD n b (appPD n a s) := by
  by_cases hoa : primOk n a = true
  · by_cases hob : primOk n b = true
    · unfold appPD
      simp only [hoa, hob, if_true]
      cases s with
      | none => rfl
      | some ρ =>
        simp only [Option.map_some]
        exact congrArg some (Hilbert.local_conj_comm (primMat_local n a hoa) (primMat_local n b hob) hd ρ)
    · rw [appPD_not_ok n b hob, appPD_not_ok n b hob, appPD_none]
  · rw [appPD_not_ok n a hoa, appPD_not_ok n a hoa, appPD_none]

/-- run a list of primitives, first element first -/
noncomputable def runPD (n : Nat) (l : List Tab.Op) (s : Option (Hilbert.DMat n)) : Option (Hilbert.DMat n) :=
  l.foldl (fun s a => appPD n a s) s

theorem runPD_cons (n : Nat) (a : Tab.Op) (l : List Tab.Op) (s : Option (Hilbert.DMat n)) :
    runPD n (a :: l) s = runPD n l (appPD n a s) := rfl

theorem runPD_none (n : Nat) (l : List Tab.Op) : runPD n l none = none := by
  induction l with
  | nil => rfl
  | cons a l ih => rw [runPD_cons, appPD_none, ih]

theorem appPD_runPD_comm (n : Nat) (a : Tab.Op) (l : List Tab.Op)
    (hd : ∀ b, b ∈ l → ∀ j, j ∈ primSupp a → j ∉ primSupp b) (s : Option (Hilbert.DMat n)) :
    appPD n a (runPD n l s) = runPD n l (appPD n a s) := by
  induction l generalizing s with
  | nil => rfl
  | cons b l ih =>
    rw [runPD_cons, runPD_cons, ih (fun c hc => hd c (List.mem_cons_of_mem _ hc)), appPD_comm n a b (hd b List.mem_cons_self) s]

theorem runPD_comm (n : Nat) (l1 l2 : List Tab.Op)
    (hd : ∀ a, a ∈ l1 → ∀ b, b ∈ l2 → ∀ j, j ∈ primSupp a → j ∉ primSupp b) (s : Option (Hilbert.DMat n)) :
    runPD n l1 (runPD n l2 s) = runPD n l2 (runPD n l1 s) := by
  induction l1 generalizing s with
  | nil => rfl
  | cons a l1 ih =>
    rw [runPD_cons, runPD_cons, ← ih (fun c hc => hd c (List.mem_cons_of_mem _ hc)),
      appPD_runPD_comm n a l2 (hd a List.mem_cons_self) s]

/-- density matrix + unread outcome streams, or `none` = "a compiler assertion failed / no outcome supplied" -/
abbrev DSt (n : Nat) := Option (Hilbert.DMat n × Script)

/-- **density-matrix semantics of one operation of the compile sequence** (same decoding, same outcome streams as the
    stabilizer semantics `appRaw`) -/
noncomputable def appD (ne np : Nat) (a : SOp) (s : DSt (ne + np)) : DSt (ne + np) :=
  s.bind fun st =>
    match decode ne np a with
    | none => none
    | some d =>
      if d.has st.2 then (runPD (ne + np) (d.prims (d.out st.2)) (some st.1)).map fun ρ' => (ρ', d.pop st.2) else none

theorem appD_none (ne np : Nat) (a : SOp) : appD ne np a none = none := rfl

theorem appD_undecodable (ne np : Nat) (a : SOp) (h : decode ne np a = none) (s : DSt (ne + np)) : appD ne np a s = none := by
  cases s with
  | none => rfl
  | some st => simp only [appD, Option.bind_some, h]

theorem appD_map (ne np : Nat) (a : SOp) (d : Dec) (h : decode ne np a = some d) (og : Option (Hilbert.DMat (ne + np)))
    (sc : Script) :
    appD ne np a (og.map fun g => (g, sc)) =
      if d.has sc then (runPD (ne + np) (d.prims (d.out sc)) og).map fun g' => (g', d.pop sc) else none := by
  cases og with
  | none => rw [runPD_none]; split <;> rfl
  | some g => simp only [appD, Option.map_some, Option.bind_some, h]

/-- **operations on disjoint quantum registers commute in the density-matrix semantics** — for every matrix, every
    assignment of outcomes -/
theorem appD_comm (ne np : Nat) (a b : SOp) (hd : ∀ r, r ∈ a.regs → r ∉ b.regs) (s : DSt (ne + np)) :
    appD ne np a (appD ne np b s) = appD ne np b (appD ne np a s) := by
  cases hda : decode ne np a with
  | none => rw [appD_undecodable ne np a hda, appD_undecodable ne np a hda, appD_none]
  | some da =>
    cases hdb : decode ne np b with
    | none => rw [appD_undecodable ne np b hdb, appD_undecodable ne np b hdb, appD_none]
    | some db =>
      cases s with
      | none => rfl
      | some st =>
        obtain ⟨g, sc⟩ := st
        have hwa := decode_within ne np a da hda
        have hwb := decode_within ne np b db hdb
        have houta : da.out (db.pop sc) = da.out sc := by
          unfold Dec.out Dec.pop
          cases hma : da.mreg with
          | none => rfl
          | some ra =>
            cases hmb : db.mreg with
            | none => rfl
            | some rb =>
              simp only
              rw [popReg_other]
              intro he
              exact hd ra (hwa.1 ra hma) (he ▸ hwb.1 rb hmb)
        have houtb : db.out (da.pop sc) = db.out sc := by
          unfold Dec.out Dec.pop
          cases hmb : db.mreg with
          | none => rfl
          | some rb =>
            cases hma : da.mreg with
            | none => rfl
            | some ra =>
              simp only
              rw [popReg_other]
              intro he
              exact hd ra (hwa.1 ra hma) (he ▸ hwb.1 rb hmb)
        have hhasa : da.has (db.pop sc) ↔ da.has sc := by
          unfold Dec.has Dec.pop
          cases hma : da.mreg with
          | none => exact Iff.rfl
          | some ra =>
            cases hmb : db.mreg with
            | none => exact Iff.rfl
            | some rb =>
              simp only
              rw [popReg_other]
              intro he
              exact hd ra (hwa.1 ra hma) (he ▸ hwb.1 rb hmb)
        have hhasb : db.has (da.pop sc) ↔ db.has sc := by
          unfold Dec.has Dec.pop
          cases hmb : db.mreg with
          | none => exact Iff.rfl
          | some rb =>
            cases hma : da.mreg with
            | none => exact Iff.rfl
            | some ra =>
              simp only
              rw [popReg_other]
              intro he
              exact hd ra (hwa.1 ra hma) (he ▸ hwb.1 rb hmb)
        have hpop : da.pop (db.pop sc) = db.pop (da.pop sc) := by
          unfold Dec.pop
          cases da.mreg <;> cases db.mreg <;> simp only
          exact popReg_comm _ _ _
        have hsupp : ∀ p, p ∈ da.prims (da.out sc) → ∀ p', p' ∈ db.prims (db.out sc) →
            ∀ j, j ∈ primSupp p → j ∉ primSupp p' := by
          intro p hp p' hp' j hj hj'
          obtain ⟨r, hr, hrj⟩ := hwa.2 _ p hp j hj
          obtain ⟨r', hr', hrj'⟩ := hwb.2 _ p' hp' j hj'
          exact hd r hr (regIx_inj hrj hrj' ▸ hr')
        have e1 : appD ne np b (some (g, sc)) =
            if db.has sc then (runPD (ne + np) (db.prims (db.out sc)) (some g)).map fun g' => (g', db.pop sc) else none :=
          appD_map ne np b db hdb (some g) sc
        have e2 : appD ne np a (some (g, sc)) =
            if da.has sc then (runPD (ne + np) (da.prims (da.out sc)) (some g)).map fun g' => (g', da.pop sc) else none :=
          appD_map ne np a da hda (some g) sc
        rw [e1, e2]
        by_cases hha : da.has sc
        · by_cases hhb : db.has sc
          · rw [if_pos hha, if_pos hhb, appD_map ne np a da hda, appD_map ne np b db hdb, if_pos (hhasa.mpr hha),
              if_pos (hhasb.mpr hhb), houta, houtb, hpop, runPD_comm (ne + np) _ _ hsupp (some g)]
          · rw [if_pos hha, if_neg hhb, appD_none, appD_map ne np b db hdb, if_neg (fun h => hhb (hhasb.mp h))]
        · by_cases hhb : db.has sc
          · rw [if_neg hha, if_pos hhb, appD_none, appD_map ne np a da hda, if_neg (fun h => hha (hhasa.mp h))]
          · rw [if_neg hha, if_neg hhb, appD_none, appD_none]

end Graphiq.Commute
