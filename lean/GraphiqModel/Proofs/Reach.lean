/-
  Reach.lean — the driver's instances of `nx.ancestors` / `nx.descendants` (`Dag.reachLoop`, a breadth-first closure
  with fuel) meet the recorded specification (`AncSpec`, `DescSpec`), so that `find_incompatible_edges` of the model is
  a verified computation of the set the property talks about.
-/
import GraphiqModel.Proofs.Dag
set_option linter.unusedSectionVars false
set_option linter.unusedSimpArgs false
namespace Graphiq
namespace Dag
open Relation

theorem nodup_eraseDups_aux {α : Type} [DecidableEq α] (k : Nat) : ∀ (l : List α), l.length ≤ k → l.eraseDups.Nodup := by
  induction k with
  | zero => intro l hl; cases l with | nil => simp | cons a t => simp at hl
  | succ k ih =>
    intro l hl
    cases l with
    | nil => simp
    | cons a t =>
      rw [List.eraseDups_cons, List.nodup_cons]
      constructor
      · intro hm
        rw [List.mem_eraseDups, List.mem_filter] at hm
        simp at hm
      · apply ih
        have := List.length_filter_le (fun b => !b == a) t
        simp at hl; omega

theorem nodup_eraseDups {α : Type} [DecidableEq α] (l : List α) : l.eraseDups.Nodup :=
  nodup_eraseDups_aux l.length l (Nat.le_refl _)

section BFS
variable (step : NodeId → List NodeId) (n : NodeId)

/-- one step of `step` -/
def StepRel (a b : NodeId) : Prop := b ∈ step a

theorem reachLoop_spec (U : List NodeId) (hU : ∀ a, ∀ b ∈ step a, b ∈ U) :
    ∀ (fuel : Nat) (frontier seen : List NodeId),
      (∀ x ∈ seen, TransGen (StepRel step) n x) →
      (∀ x ∈ frontier, x = n ∨ TransGen (StepRel step) n x) →
      (∀ x, (x = n ∨ x ∈ seen) → x ∉ frontier → ∀ y ∈ step x, y ∈ seen) →
      seen.Nodup → (∀ x ∈ seen, x ∈ U) → U.length + 1 ≤ fuel + seen.length → U.Nodup →
      ∀ x, x ∈ reachLoop step fuel frontier seen ↔ TransGen (StepRel step) n x := by
  intro fuel
  induction fuel with
  | zero =>
    intro frontier seen _ _ _ hnd hsub hfuel hUnd
    have := hnd.length_le_of_subset (fun x hx => hsub x hx)
    omega
  | succ fuel ih =>
    intro frontier seen h1 h2 h3 hnd hsub hfuel hUnd x
    unfold reachLoop
    simp only
    by_cases hnew : ((frontier.flatMap step).eraseDups.filter (fun x => !seen.contains x)).isEmpty = true
    · rw [if_pos hnew]
      have hempty : ∀ y, y ∈ frontier.flatMap step → y ∈ seen := by
        intro y hy
        by_cases hys : y ∈ seen
        · exact hys
        · exfalso
          have : y ∈ (frontier.flatMap step).eraseDups.filter (fun x => !seen.contains x) := by
            rw [List.mem_filter, List.mem_eraseDups]; exact ⟨hy, by simpa using hys⟩
          rw [List.isEmpty_iff.mp hnew] at this; simp at this
      have hclosed : ∀ a, (a = n ∨ a ∈ seen) → ∀ y ∈ step a, y ∈ seen := by
        intro a ha y hy
        by_cases haf : a ∈ frontier
        · exact hempty y (List.mem_flatMap.mpr ⟨a, haf, hy⟩)
        · exact h3 a ha haf y hy
      constructor
      · exact h1 x
      · intro ht
        induction ht with
        | single h => exact hclosed n (Or.inl rfl) _ h
        | tail _ h ih' => exact hclosed _ (Or.inr ih') _ h
    · rw [if_neg hnew]
      let new := (frontier.flatMap step).eraseDups.filter (fun x => !seen.contains x)
      have hmem_new : ∀ y, y ∈ new ↔ y ∈ frontier.flatMap step ∧ y ∉ seen := by
        intro y
        show y ∈ (frontier.flatMap step).eraseDups.filter (fun x => !seen.contains x) ↔ _
        rw [List.mem_filter, List.mem_eraseDups]; simp
      have hne : new ≠ [] := fun e => hnew (by show new.isEmpty = true; rw [e]; rfl)
      apply ih new (seen ++ new)
      · intro y hy
        rcases List.mem_append.mp hy with hy | hy
        · exact h1 y hy
        · obtain ⟨hy1, _⟩ := (hmem_new y).mp hy
          obtain ⟨a, ha, hya⟩ := List.mem_flatMap.mp hy1
          rcases h2 a ha with rfl | hta
          · exact TransGen.single hya
          · exact TransGen.tail hta hya
      · intro y hy
        obtain ⟨hy1, _⟩ := (hmem_new y).mp hy
        obtain ⟨a, ha, hya⟩ := List.mem_flatMap.mp hy1
        rcases h2 a ha with rfl | hta
        · exact Or.inr (TransGen.single hya)
        · exact Or.inr (TransGen.tail hta hya)
      · intro a ha hanew y hy
        have ha' : a = n ∨ a ∈ seen := by
          rcases ha with ha | ha
          · exact Or.inl ha
          · rcases List.mem_append.mp ha with ha | ha
            · exact Or.inr ha
            · exact absurd ha hanew
        by_cases haf : a ∈ frontier
        · by_cases hys : y ∈ seen
          · exact List.mem_append_left _ hys
          · exact List.mem_append_right _ ((hmem_new y).mpr ⟨List.mem_flatMap.mpr ⟨a, haf, hy⟩, hys⟩)
        · exact List.mem_append_left _ (h3 a ha' haf y hy)
      · rw [List.nodup_append]
        refine ⟨hnd, (nodup_eraseDups _).sublist List.filter_sublist |> fun h => h, ?_⟩
        intro a ha b hb e; subst e
        exact ((hmem_new a).mp hb).2 ha
      · intro y hy
        rcases List.mem_append.mp hy with hy | hy
        · exact hsub y hy
        · obtain ⟨hy1, _⟩ := (hmem_new y).mp hy
          obtain ⟨a, _, hya⟩ := List.mem_flatMap.mp hy1
          exact hU a y hya
      · have : 0 < new.length := List.length_pos_iff.mpr hne
        rw [List.length_append]; omega
      · exact hUnd

end BFS

/-- `descendants` meets the specification of `nx.descendants` on every circuit satisfying the invariant -/
theorem descendants_spec {c : Dag} {P : Paths} (g : Good c P) (n : NodeId) : DescSpec c n (c.descendants n) := by
  intro x
  unfold descendants
  have hrel : ∀ a b, StepRel (fun x => (c.outEdges x).map (·.dst)) a b ↔ c.E a b := by
    intro a b
    unfold StepRel E
    simp only [List.mem_map, outEdges, List.mem_filter, decide_eq_true_eq]
    constructor
    · rintro ⟨e, ⟨he, hs⟩, hd⟩; exact ⟨e, he, hs, hd⟩
    · rintro ⟨e, he, hs, hd⟩; exact ⟨e, ⟨he, hs⟩, hd⟩
  have hspec := reachLoop_spec (fun x => (c.outEdges x).map (·.dst)) n c.nodeIds
    (by
      intro a b hb
      exact (E_nodes g.inv ((hrel a b).mp hb)).2)
    (c.nodes.length + 1) [n] [] (by simp) (by simp) (by simp) (by simp) (by simp)
    (by simp [nodeIds]) g.inv.ids_nodup x
  have hT : TransGen (StepRel (fun x => (c.outEdges x).map (·.dst))) n x ↔ TransGen c.E n x := by
    constructor
    · intro h; exact TransGen.mono (fun a b hab => (hrel a b).mp hab) _ _ h
    · intro h; exact TransGen.mono (fun a b hab => (hrel a b).mpr hab) _ _ h
  rw [List.mem_filter, hspec, hT]
  constructor
  · exact fun h => h.1
  · intro h
    refine ⟨h, ?_⟩
    have : x ≠ n := fun e => g.acyc n (e ▸ h)
    simpa using this

/-- `ancestors` meets the specification of `nx.ancestors` -/
theorem ancestors_spec {c : Dag} {P : Paths} (g : Good c P) (n : NodeId) : AncSpec c n (c.ancestors n) := by
  intro x
  unfold ancestors
  have hrel : ∀ a b, StepRel (fun x => (c.inEdges x).map (·.src)) a b ↔ c.E b a := by
    intro a b
    unfold StepRel E
    simp only [List.mem_map, inEdges, List.mem_filter, decide_eq_true_eq]
    constructor
    · rintro ⟨e, ⟨he, hd⟩, hs⟩; exact ⟨e, he, hs, hd⟩
    · rintro ⟨e, he, hs, hd⟩; exact ⟨e, ⟨he, hd⟩, hs⟩
  -- a backward path from n to x is a forward path from x to n
  have hT : TransGen (StepRel (fun x => (c.inEdges x).map (·.src))) n x ↔ TransGen c.E x n := by
    constructor
    · intro h
      induction h with
      | single h1 => exact TransGen.single ((hrel _ _).mp h1)
      | tail _ h2 ih => exact TransGen.head ((hrel _ _).mp h2) ih
    · intro h
      induction h using TransGen.head_induction_on with
      | single h1 => exact TransGen.single ((hrel _ _).mpr h1)
      | head h1 _ ih => exact TransGen.tail ih ((hrel _ _).mpr h1)
  have hspec := reachLoop_spec (fun x => (c.inEdges x).map (·.src)) n c.nodeIds
    (by
      intro a b hb
      exact (E_nodes g.inv ((hrel a b).mp hb)).1)
    (c.nodes.length + 1) [n] [] (by simp) (by simp) (by simp) (by simp) (by simp)
    (by simp [nodeIds]) g.inv.ids_nodup x
  rw [List.mem_filter, hspec, hT]
  constructor
  · exact fun h => h.1
  · intro h
    refine ⟨h, ?_⟩
    have : x ≠ n := fun e => g.acyc n (e ▸ h)
    simpa using this

end Dag
end Graphiq

/-! ## the register prologue does not create paths between existing nodes -/
namespace Graphiq
namespace Dag
open Relation

/-- `c1` extends `c` by isolated material: old edges stay, every new edge starts at a new node, old nodes stay -/
structure EdgeExt (c c1 : Dag) : Prop where
  keep : ∀ e ∈ c.edges, e ∈ c1.edges
  fresh : ∀ e ∈ c1.edges, e ∈ c.edges ∨ e.src ∉ c.nodeIds
  nodes : ∀ n ∈ c.nodeIds, n ∈ c1.nodeIds

theorem EdgeExt.refl (c : Dag) : EdgeExt c c := ⟨fun _ h => h, fun _ h => Or.inl h, fun _ h => h⟩

theorem EdgeExt.trans {c c1 c2 : Dag} (h1 : EdgeExt c c1) (h2 : EdgeExt c1 c2) : EdgeExt c c2 := by
  refine ⟨fun e he => h2.keep e (h1.keep e he), ?_, fun n hn => h2.nodes n (h1.nodes n hn)⟩
  intro e he
  rcases h2.fresh e he with h | h
  · exact h1.fresh e h
  · exact Or.inr (fun hm => h (h1.nodes _ hm))

theorem withNewReg_ext {c : Dag} {P : Paths} (h : Inv c P) {r : Reg} (hr : r.idx = c.regs r.ty) : EdgeExt c (c.withNewReg r) := by
  have hnl : ¬ c.live r := by simp [live, hr]
  have hinp : NodeId.inp r ∉ c.nodeIds := fun hm => hnl ((h.inp_iff r).mp hm)
  have hedges : (c.withNewReg r).edges = c.edges ++ [⟨.inp r, .out r, r⟩] := rfl
  have hids : (c.withNewReg r).nodeIds = c.nodeIds ++ [.inp r, .out r] := by simp [nodeIds, withNewReg]
  refine ⟨fun e he => by rw [hedges]; exact List.mem_append_left _ he, ?_, fun n hn => by rw [hids]; exact List.mem_append_left _ hn⟩
  intro e he
  rw [hedges] at he
  rcases List.mem_append.mp he with he | he
  · exact Or.inl he
  · simp at he; subst he; exact Or.inr hinp

theorem addRegIfAbsent_ext {c : Dag} {P : Paths} (g : Good c P) (r : Reg) : EdgeExt c (c.addRegIfAbsent r).1 := by
  by_cases h1 : c.regs r.ty < r.idx
  · rw [addRegIfAbsent_gap h1]; exact EdgeExt.refl c
  · by_cases h2 : r.idx = c.regs r.ty
    · rw [addRegIfAbsent_new g.inv h2]; exact withNewReg_ext g.inv h2
    · have hl : c.live r := by unfold live; omega
      rw [addRegIfAbsent_old g.inv hl]; exact EdgeExt.refl c

theorem addRegs_ext {c : Dag} {P : Paths} (g : Good c P) (rs : List Reg) : EdgeExt c (c.addRegs rs).1 := by
  induction rs generalizing c P with
  | nil => exact EdgeExt.refl c
  | cons r rest ih =>
    have h1 := addRegIfAbsent_ext g r
    obtain ⟨P1, g1, _⟩ := addRegIfAbsent_good g r
    unfold addRegs
    cases hres : c.addRegIfAbsent r with
    | mk c1 err =>
      rw [hres] at h1 g1
      simp only at h1 g1
      cases err with
      | some e => exact h1
      | none => exact h1.trans (ih g1)

theorem ensureRegs_ext {c : Dag} {P : Paths} (g : Good c P) (op : Op) : EdgeExt c (c.ensureRegs op).1 := by
  have h1 := addRegs_ext g (op.cregs.map (Reg.mk .c))
  obtain ⟨P1, g1, _⟩ := addRegs_good g (op.cregs.map (Reg.mk .c))
  unfold ensureRegs
  cases hres : c.addRegs (op.cregs.map (Reg.mk .c)) with
  | mk c1 err =>
    rw [hres] at h1 g1
    simp only at h1 g1
    cases err with
    | some e => exact h1
    | none =>
      simp only
      by_cases hq : op.qregs.isEmpty = true
      · simp only [hq, if_true]; exact h1
      · have hq' : op.qregs.isEmpty = false := by simpa using hq
        simp only [hq', Bool.false_eq_true, if_false]
        exact h1.trans (addRegs_ext g1 _)

/-- a path of the extended circuit that starts at an old node is a path of the old circuit -/
theorem EdgeExt.reach {c c1 : Dag} {P : Paths} (hext : EdgeExt c c1) (h : Inv c P) {a b : NodeId} (ha : a ∈ c.nodeIds)
    (hr : ReflTransGen c1.E a b) : ReflTransGen c.E a b ∧ b ∈ c.nodeIds := by
  induction hr with
  | refl => exact ⟨ReflTransGen.refl, ha⟩
  | tail _ hxy ih =>
    obtain ⟨e, he, hs, hd⟩ := hxy
    rcases hext.fresh e he with he' | hfr
    · have hE : c.E _ _ := ⟨e, he', hs, hd⟩
      exact ⟨ih.1.tail hE, (E_nodes h hE).2⟩
    · exact absurd (hs ▸ ih.2) hfr

/-- **well-formedness of `insert_at` edges can be checked before the register prologue** -/
theorem InsertOK.of_pre {c : Dag} {P : Paths} (g : Good c P) {op : Op} {es : List Edge} (hok : InsertOK c op es) :
    InsertOK (c.ensureRegs op).1 op es := by
  have hext := ensureRegs_ext g op
  refine ⟨fun e he => hext.keep e (hok.mem e he), hok.keys, ?_⟩
  intro e1 he1 e2 he2 hne hr
  have hdst : e1.dst ∈ c.nodeIds := (g.inv.edge_nodes (hok.mem e1 he1)).2
  exact hok.compat e1 he1 e2 he2 hne (hext.reach g.inv hdst hr).1

end Dag
end Graphiq
