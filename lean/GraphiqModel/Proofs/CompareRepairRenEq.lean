/-
  Proofs/CompareRepairRenEq.lean — the conclusion of `iso2_sound` in the vocabulary of the original full statement of C15
  (`renEq`: the executable "some renaming of the registers within each type makes the two circuits the same, quantum wire
  by quantum wire", the notion the harness evaluates by brute force): `RenamedBy π c1 c2 → renEq c1 c2 = true`.
-/
import GraphiqModel.Proofs.CompareRepairStab
namespace Graphiq.Compare
open Graphiq Graphiq.Export

/-! ## `perms` lists every permutation -/

theorem mem_insertions (x : Nat) (a b : List Nat) : a ++ x :: b ∈ insertions x (a ++ b) := by
  induction a with
  | nil =>
    cases b with
    | nil => simp [insertions]
    | cons y ys => simp [insertions]
  | cons y a' ih =>
    simp only [List.cons_append, insertions, List.mem_cons, List.mem_map]
    right
    exact ⟨_, ih, rfl⟩

theorem mem_perms_of_perm : ∀ (l l' : List Nat), l'.Perm l → l' ∈ perms l := by
  intro l
  induction l with
  | nil =>
    intro l' h
    rw [List.perm_nil.1 h]
    simp [perms]
  | cons x xs ih =>
    intro l' h
    have hx : x ∈ l' := h.mem_iff.2 (by simp)
    obtain ⟨a, b, rfl⟩ := List.append_of_mem hx
    have h2 : (x :: (a ++ b)).Perm (x :: xs) := (List.perm_middle.symm).trans h
    have h3 : (a ++ b).Perm xs := List.Perm.cons_inv h2
    simp only [perms, List.mem_flatMap]
    exact ⟨a ++ b, ih _ h3, mem_insertions x a b⟩

/-! ## the renaming lists of a register map -/

def permOf (π : Wire → Wire) (t : RT) (n : Nat) : List Nat := (List.range n).map fun i => (π ⟨t, i⟩).i

theorem permOf_getD (π : Wire → Wire) (t : RT) (n i : Nat) (hi : i < n) : (permOf π t n).getD i i = (π ⟨t, i⟩).i := by
  unfold permOf
  rw [List.getD_eq_getElem?_getD, List.getElem?_map, List.getElem?_range hi]
  rfl

theorem permOf_perm (π : Wire → Wire) (t : RT) (n : Nat) (hinto : ∀ i, i < n → (π ⟨t, i⟩).i < n)
    (hinj : ∀ i, i < n → ∀ j, j < n → (π ⟨t, i⟩).i = (π ⟨t, j⟩).i → i = j) : (permOf π t n).Perm (List.range n) := by
  have hnd : (permOf π t n).Nodup := by
    unfold permOf
    apply List.Nodup.map_on _ List.nodup_range
    intro i hi j hj h
    exact hinj i (List.mem_range.1 hi) j (List.mem_range.1 hj) h
  have hsub : permOf π t n ⊆ List.range n := by
    intro k hk
    unfold permOf at hk
    obtain ⟨i, hi, rfl⟩ := List.mem_map.1 hk
    exact List.mem_range.2 (hinto i (List.mem_range.1 hi))
  exact (List.subperm_of_subset hnd hsub).perm_of_length_le (by simp [permOf])

def renamingOf (π : Wire → Wire) (ne np : Nat) : Renaming := ⟨permOf π .e ne, permOf π .p np, []⟩

theorem renamingOf_q (π : Wire → Wire) (ne np : Nat) (q : QReg) (hq : q.i < (match q.t with | .e => ne | .p => np)) :
    (renamingOf π ne np).q q = renQ π q := by
  cases q with | mk t i =>
  cases t with
  | e =>
    simp only at hq
    show (⟨.e, (permOf π .e ne).getD i i⟩ : QReg) = _
    rw [permOf_getD π .e ne i hq]; rfl
  | p =>
    simp only at hq
    show (⟨.p, (permOf π .p np).getD i i⟩ : QReg) = _
    rw [permOf_getD π .p np i hq]; rfl

theorem dropC_renamingOf (π : Wire → Wire) (ne np : Nat) (o : Op)
    (hq : ∀ q ∈ o.qRegs, q.i < (match q.t with | .e => ne | .p => np)) :
    dropC ((renamingOf π ne np).op o) = dropC (renOp π o) := by
  cases o with
  | one g q => simp only [Renaming.op, renOp, dropC]; rw [renamingOf_q π ne np q (hq q (by simp [Op.qRegs]))]
  | wrap gs q => simp only [Renaming.op, renOp, dropC]; rw [renamingOf_q π ne np q (hq q (by simp [Op.qRegs]))]
  | ctrl g a b =>
    simp only [Renaming.op, renOp, dropC]
    rw [renamingOf_q π ne np a (hq a (by simp [Op.qRegs])), renamingOf_q π ne np b (hq b (by simp [Op.qRegs]))]
  | cctrl g a b m =>
    simp only [Renaming.op, renOp, dropC]
    rw [renamingOf_q π ne np a (hq a (by simp [Op.qRegs])), renamingOf_q π ne np b (hq b (by simp [Op.qRegs]))]
  | meas q m => simp only [Renaming.op, renOp, dropC]; rw [renamingOf_q π ne np q (hq q (by simp [Op.qRegs]))]

/-- **the original reference notion holds**: a register-by-register renaming makes the executable `renEq` true -/
theorem RenamedBy.renEq {π : Wire → Wire} {c1 c2 : Circuit} (h : RenamedBy π c1 c2)
    (h1 : ∀ o ∈ c1.ops, OpOK (wiresN c1.ne c1.np c1.nc) o) (h2 : ∀ o ∈ c2.ops, OpOK (wiresN c2.ne c2.np c2.nc) o) :
    renEq c1 c2 = true := by
  have hf := h.flat
  have hok1 := flat_opOK _ _ h1
  have hok2 := flat_opOK _ _ h2
  unfold Compare.renEq
  simp only [Bool.and_eq_true, beq_iff_eq, List.any_eq_true]
  refine ⟨⟨h.ne, h.np⟩, renamingOf π c1.ne c1.np, ?_, ?_⟩
  · -- the renaming is one of the enumerated ones
    have he : permOf π .e c1.ne ∈ perms (List.range c1.ne) := by
      apply mem_perms_of_perm
      apply permOf_perm
      · intro i hi
        have hw : (⟨.e, i⟩ : Wire) ∈ wiresN c1.ne c1.np c1.nc := (mem_wiresN _ _ _ _).2 hi
        obtain ⟨a, b⟩ := h.into _ hw
        have := (mem_wiresN _ _ _ _).1 a
        rw [b] at this
        exact this
      · intro i hi j hj hij
        have hwi : (⟨.e, i⟩ : Wire) ∈ wiresN c1.ne c1.np c1.nc := (mem_wiresN _ _ _ _).2 hi
        have hwj : (⟨.e, j⟩ : Wire) ∈ wiresN c1.ne c1.np c1.nc := (mem_wiresN _ _ _ _).2 hj
        have : π ⟨.e, i⟩ = π ⟨.e, j⟩ := by
          have ti := (h.into _ hwi).2
          have tj := (h.into _ hwj).2
          cases hπi : π ⟨.e, i⟩ with | mk t1 i1 =>
          cases hπj : π ⟨.e, j⟩ with | mk t2 i2 =>
          rw [hπi] at ti hij; rw [hπj] at tj hij
          simp only at ti tj hij
          rw [ti, tj, hij]
        have := h.inj _ hwi _ hwj this
        injection this
    have hp : permOf π .p c1.np ∈ perms (List.range c1.np) := by
      apply mem_perms_of_perm
      apply permOf_perm
      · intro i hi
        have hw : (⟨.p, i⟩ : Wire) ∈ wiresN c1.ne c1.np c1.nc := (mem_wiresN _ _ _ _).2 hi
        obtain ⟨a, b⟩ := h.into _ hw
        have := (mem_wiresN _ _ _ _).1 a
        rw [b] at this
        exact this
      · intro i hi j hj hij
        have hwi : (⟨.p, i⟩ : Wire) ∈ wiresN c1.ne c1.np c1.nc := (mem_wiresN _ _ _ _).2 hi
        have hwj : (⟨.p, j⟩ : Wire) ∈ wiresN c1.ne c1.np c1.nc := (mem_wiresN _ _ _ _).2 hj
        have : π ⟨.p, i⟩ = π ⟨.p, j⟩ := by
          have ti := (h.into _ hwi).2
          have tj := (h.into _ hwj).2
          cases hπi : π ⟨.p, i⟩ with | mk t1 i1 =>
          cases hπj : π ⟨.p, j⟩ with | mk t2 i2 =>
          rw [hπi] at ti hij; rw [hπj] at tj hij
          simp only at ti tj hij
          rw [ti, tj, hij]
        have := h.inj _ hwi _ hwj this
        injection this
    unfold renamings
    simp only [List.mem_flatMap, List.mem_map]
    exact ⟨_, he, _, hp, [], by simp [perms], rfl⟩
  · unfold renEqBy
    simp only [List.all_eq_true, beq_iff_eq]
    intro q _
    have hvalid : ∀ o ∈ Export.flat c1.ops, ∀ q' ∈ o.qRegs, q'.i < (match q'.t with | .e => c1.ne | .p => c1.np) := by
      intro o ho q' hq'
      have := (mem_wiresN _ _ _ _).1 ((hok1 o ho).1 (Wire.ofQ q') (by unfold opWires; exact List.mem_append_left _ (List.mem_map_of_mem hq')))
      cases q' with | mk t i => cases t <;> exact this
    have e1 : (Export.flat c1.ops).map (fun o => dropC ((renamingOf π c1.ne c1.np).op o))
        = ((Export.flat c1.ops).map (renOp π)).map dropC := by
      rw [List.map_map]
      apply List.map_congr_left
      intro o ho
      exact dropC_renamingOf π c1.ne c1.np o (hvalid o ho)
    rw [e1]
    have e2 := filter_map_dropC ((Export.flat c1.ops).map (renOp π)) q
    have e3 := hf.wires_q hok1 hok2 q
    show List.filter (onReg q) _ = _
    rw [e2]
    unfold wireOf
    congr 1

theorem flat_flat (l : List Op) : Export.flat (Export.flat l) = Export.flat l := by
  have h1 : (Export.flat l).flatMap Op.unwrap = Export.flat l := flatMap_unwrap_of_no_wrap _ (flat_no_wrap l)
  have h2 : Export.flat (Export.flat l) = ((Export.flat l).flatMap Op.unwrap).filter (fun o => !o.isIdentity) := rfl
  rw [h2, h1, List.filter_eq_self]
  intro o ho
  unfold Export.flat at ho
  exact (List.mem_filter.1 ho).2

theorem renEq_flatC (c1 c2 : Circuit) : Compare.renEq (flatC c1) (flatC c2) = Compare.renEq c1 c2 := by
  unfold Compare.renEq renEqBy wireOf flatC
  simp only [flat_flat]
  rfl

end Graphiq.Compare
