/-
  Proofs/CompareRepairStab.lean — the conclusion of `iso2_sound` read in the verified stabilizer semantics of C13
  (`Commute.appG`: C07's group transformers, measurement outcomes attached to the measuring operations).

  `toSOp` translates an executed operation of the C14/C15 model (`Export.Op`) into an operation of C13's compile sequence
  (`Wire.SOp`): same class, same quantum registers (control first), same classical register.  With it, operations that
  share no quantum register commute (`Commute.appG_comm`), so `SwapEquiv` lists run to the same state.
-/
import GraphiqModel.Proofs.CompareRepairNorm
import GraphiqModel.Proofs.CommuteSem
namespace Graphiq.Compare
open Graphiq Graphiq.Export

def toReg (q : QReg) : Wire.Reg := ⟨match q.t with | .e => .e | .p => .p, q.i⟩

def toG1 : G1 → Wire.G1
  | .H => .H | .X => .X | .Y => .Y | .Z => .Z | .S => .P | .Sdg => .Pdg | .I => .I

/-- an operation of the C14/C15 model as an operation of C13's compile sequence -/
def toSOp : Op → Wire.SOp
  | .one g q => ⟨.g (toG1 g), [toReg q]⟩
  | .wrap gs q => ⟨.node (.wrapper (gs.map toG1)) [toReg q] [], [toReg q]⟩
  | .ctrl .CNOT c t => ⟨.node .cnot [toReg c, toReg t] [], [toReg c, toReg t]⟩
  | .ctrl .CZ c t => ⟨.node .cz [toReg c, toReg t] [], [toReg c, toReg t]⟩
  | .cctrl .CCNOT c t m => ⟨.node .ccnot [toReg c, toReg t] [m], [toReg c, toReg t]⟩
  | .cctrl .CCZ c t m => ⟨.node .ccz [toReg c, toReg t] [m], [toReg c, toReg t]⟩
  | .cctrl .MCR c t m => ⟨.node .mcr [toReg c, toReg t] [m], [toReg c, toReg t]⟩
  | .meas q m => ⟨.node .measZ [toReg q] [m], [toReg q]⟩

theorem toReg_inj (a b : QReg) (h : toReg a = toReg b) : a = b := by
  cases a with | mk t i => cases b with | mk t' i' =>
  cases t <;> cases t' <;> simp_all [toReg]

theorem regs_toSOp (o : Op) : (toSOp o).regs = o.qRegs.map toReg := by
  cases o with
  | one g q => rfl
  | wrap gs q => rfl
  | ctrl g c t => cases g <;> rfl
  | cctrl g c t m => cases g <;> rfl
  | meas q m => rfl

/-- operations that share no quantum register commute in the stabilizer semantics -/
theorem stab_comm (ne np : Nat) (a b : Op) (h : disjointOps a b = true) (s : Commute.GSt ne np) :
    Commute.appG ne np (toSOp b) (Commute.appG ne np (toSOp a) s) = Commute.appG ne np (toSOp a) (Commute.appG ne np (toSOp b) s) := by
  apply Commute.appG_comm
  intro r hr hr'
  rw [regs_toSOp] at hr hr'
  obtain ⟨qb, hqb, rfl⟩ := List.mem_map.1 hr
  obtain ⟨qa, hqa, hab⟩ := List.mem_map.1 hr'
  have := toReg_inj _ _ hab
  subst this
  unfold disjointOps at h
  simp only [List.all_eq_true, Bool.not_eq_true', List.contains_eq_mem, decide_eq_false_iff_not] at h
  exact h qa hqa hqb

/-- `SwapEquiv` operation lists run to the same stabilizer state (same group, same unread outcomes), from every state -/
theorem SwapEquiv.same_stab_state {l1 l2 : List Op} (h : SwapEquiv l1 l2) (ne np : Nat) (s : Commute.GSt ne np) :
    Wire.runSeq (Commute.appG ne np) (l1.map toSOp) s = Wire.runSeq (Commute.appG ne np) (l2.map toSOp) s := by
  have := h.same_state (fun o s => Commute.appG ne np (toSOp o) s) (fun a b hd s => stab_comm ne np a b hd s) s
  unfold Wire.runSeq
  rw [List.foldl_map, List.foldl_map]
  exact this

/-! ## renaming commutes with flattening -/

theorem unwrap_renOp (π : Wire → Wire) (o : Op) : Op.unwrap (renOp π o) = (Op.unwrap o).map (renOp π) := by
  cases o with
  | wrap gs q => simp [renOp, Op.unwrap, Function.comp]
  | one _ _ => rfl
  | ctrl _ _ _ => rfl
  | cctrl _ _ _ _ => rfl
  | meas _ _ => rfl

theorem isIdentity_renOp (π : Wire → Wire) (o : Op) : (renOp π o).isIdentity = o.isIdentity := by
  cases o with
  | one g q => cases g <;> rfl
  | wrap _ _ => rfl
  | ctrl _ _ _ => rfl
  | cctrl _ _ _ _ => rfl
  | meas _ _ => rfl

theorem flatMap_unwrap_map_renOp (π : Wire → Wire) (l : List Op) :
    (l.map (renOp π)).flatMap Op.unwrap = (l.flatMap Op.unwrap).map (renOp π) := by
  induction l with
  | nil => rfl
  | cons a rest ih => simp only [List.map_cons, List.flatMap_cons, List.map_append, ih, unwrap_renOp]

theorem filter_nonId_map_renOp (π : Wire → Wire) (l : List Op) :
    (l.map (renOp π)).filter nonId = (l.filter nonId).map (renOp π) := by
  rw [List.filter_map]
  congr 1
  apply List.filter_congr
  intro o _
  simp only [Function.comp, nonId, isIdentity_renOp]

/-- a renaming of the circuits is a renaming of their executed operations -/
theorem RenamedBy.flat {π : Wire → Wire} {c1 c2 : Circuit} (h : RenamedBy π c1 c2) : RenamedBy π (flatC c1) (flatC c2) := by
  refine ⟨h.ne, h.np, h.nc, h.into, h.inj, h.surj, ?_⟩
  intro w hw
  show (Export.flat c2.ops).filter (touches (π w)) = ((Export.flat c1.ops).filter (touches w)).map (renOp π)
  rw [flat_filter_touches, flat_filter_touches, h.wires w hw, flatMap_unwrap_map_renOp, filter_nonId_map_renOp]

end Graphiq.Compare
