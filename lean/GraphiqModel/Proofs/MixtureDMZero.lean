/-
  Proofs/MixtureDMZero.lean — clause (d) of C06 for whole circuits, every number of qubits:

  * `compileStab_off`, `compileDM_off` : with noise simulation switched off both compilers return *literally* what they return
    on the circuit with every noise replaced by `NoNoise` (= the empty noise map) with the switch on — any circuit,
    measurements included;
  * `dm_zero_strength` : for a measurement-free circuit all of whose noise has zero strength (`DepolarizingNoise(0)`,
    `PhotonLoss(0)`, `PauliError("I")`, `NoNoise`), the density matrix equals, entry by entry, the density matrix of the
    noiseless circuit; `mix_zero_strength` : the mixtures stand for the same state.
-/
import GraphiqModel.Proofs.MixtureDMFinal
namespace Graphiq
namespace MixDM
open Matrix Hilbert Noise DM

/-- the operation with its noise removed (`NoNoise` on every slot: what an empty noise map attaches) -/
def strip (op : COp) : COp := { op with n0 := .none, n1 := .none }

theorem strip_default : strip { kind := .identity } = { kind := .identity } := rfl

/-- the array of the stripped circuit -/
def StripRel (arr arr' : Array COp) : Prop :=
  ∀ k, arr'.getD k { kind := .identity } = strip (arr.getD k { kind := .identity })

theorem stripRel_toArray (ops : List COp) : StripRel ops.toArray (ops.map strip).toArray := by
  intro k
  simp only [Array.getD_eq_getD_getElem?, List.getElem?_toArray, List.getElem?_map]
  cases ops[k]? <;> rfl

/-! ### noise simulation off = the noiseless circuit, exactly -/

theorem stabGo_off (np n : Nat) (det : Bool) (arr arr' : Array COp) (hr : StripRel arr arr') :
    ∀ (ops : List COp) (k : Nat) (s : StabSt),
      stabGo false np n det arr ops k s = stabGo true np n det arr' (ops.map strip) k s
  | [], _, _ => rfl
  | op :: rest, k, s => by
    simp only [List.map_cons, stabGo]
    have hk : (strip op).kind = op.kind := rfl
    rw [hk, placeOp_off, placeOp_none true .stab np (strip op) k rfl rfl]
    simp only [runStabActs, stabAct]
    rw [hr k]
    have hg : stabGate np n det (strip (arr.getD k { kind := .identity })) s
        = stabGate np n det (arr.getD k { kind := .identity }) s := rfl
    rw [hg]
    cases stabGate np n det (arr.getD k { kind := .identity }) s with
    | error e => rfl
    | ok s1 => simp only; rw [stabGo_off np n det arr arr' hr rest (k + 1) s1]

theorem dmGo_off (np n : Nat) (det : Bool) (arr arr' : Array COp) (hr : StripRel arr arr') :
    ∀ (ops : List COp) (k : Nat) (d : DmSt),
      dmGo false np n det arr ops k d = dmGo true np n det arr' (ops.map strip) k d
  | [], _, _ => rfl
  | op :: rest, k, d => by
    simp only [List.map_cons, dmGo]
    rw [placeOp_off, placeOp_none true .dm np (strip op) k rfl rfl]
    simp only [runDmActs, dmAct]
    rw [hr k]
    have hg : dmGate np n det (strip (arr.getD k { kind := .identity })) d
        = dmGate np n det (arr.getD k { kind := .identity }) d := rfl
    rw [hg]
    cases dmGate np n det (arr.getD k { kind := .identity }) d with
    | error e => rfl
    | ok d1 => simp only; rw [dmGo_off np n det arr arr' hr rest (k + 1) d1]

/-- **noise simulation off = empty noise map, stabilizer backend, any circuit**: the same result, literally -/
theorem compileStab_off (ne np nc : Nat) (det : Bool) (ops : List COp) :
    compileStab false ne np nc det ops = compileStab true ne np nc det (ops.map strip) := by
  unfold compileStab
  exact stabGo_off np (ne + np) det _ _ (stripRel_toArray ops) ops 0 _

/-- **noise simulation off = empty noise map, density-matrix backend, any circuit** -/
theorem compileDM_off (ne np nc : Nat) (det : Bool) (ops : List COp) :
    compileDM false ne np nc det ops = compileDM true ne np nc det (ops.map strip) := by
  unfold compileDM
  exact dmGo_off np (ne + np) det _ _ (stripRel_toArray ops) ops 0 _

/-! ### zero strength = noiseless, as states -/

theorem zero_additive (nm : NoiseM) (h : nm.isZeroStrength = true) : nm.isAdditive = true := by
  cases nm <;> simp_all [NoiseM.isZeroStrength, NoiseM.isAdditive]

theorem noiseH_zero (n : Nat) (nm : NoiseM) (h : nm.isZeroStrength = true) (q : Nat) (R : HMat n) : noiseH n nm q R = R := by
  cases nm with
  | none => rfl
  | depol p a =>
    have hp : p = 0 := by simpa [NoiseM.isZeroStrength] using h
    subst hp
    simp [noiseH, depolH]
  | pauli k a =>
    have hk : k = .I := by simpa [NoiseM.isZeroStrength] using h
    subst hk; rfl
  | loss r a =>
    have hr : r = 0 := by simpa [NoiseM.isZeroStrength] using h
    subst hr
    simp [noiseH]
  | replace => simp [NoiseM.isZeroStrength] at h
  | other => simp [NoiseM.isZeroStrength] at h

/-- all noise attached to the operation has zero strength -/
def ZeroNoise (op : COp) : Prop := op.n0.isZeroStrength = true ∧ op.n1.isZeroStrength = true

theorem runH_wanted_zero (np n : Nat) (arr : Array COp) (op : COp) (k : Nat) (hz : ZeroNoise op) (af : Bool) (R : HMat n) :
    runH np n arr (wanted np op k af) R = R := by
  unfold wanted
  rw [runH_append]
  have h0 : runH np n arr (if (!op.n0.isNone && op.n0.after == af) = true
      then [Act.noise k 0 (qIndex np op.r1 op.t1) op.n0] else []) R = R := by
    split
    · exact noiseH_zero n op.n0 hz.1 _ R
    · rfl
  rw [h0]
  split
  · exact noiseH_zero n op.n1 hz.2 _ R
  · rfl

theorem stripRel_gateH (np n : Nat) (arr arr' : Array COp) (hr : StripRel arr arr') (k : Nat) (R : HMat n) :
    actH np n arr' (.gate k) R = actH np n arr (.gate k) R := by
  show gateH np n (arr'.getD k { kind := .identity }) R = gateH np n (arr.getD k { kind := .identity }) R
  rw [hr k]
  rfl

/-- the Hilbert-space run of a zero-strength circuit is the run of the noiseless circuit -/
theorem runH_zero (ns : Bool) (be : Backend) (np n : Nat) (arr arr' : Array COp) (hr : StripRel arr arr') :
    ∀ (ops : List COp) (k : Nat) (tr tr0 : List Act), (∀ op ∈ ops, MFree op ∧ ZeroNoise op) →
      traceGo ns be np ops k = .ok tr → traceGo ns be np (ops.map strip) k = .ok tr0 →
      ∀ R : HMat n, runH np n arr tr R = runH np n arr' tr0 R
  | [], _, tr, tr0, _, h, h0 => by
    simp [traceGo] at h h0; subst h; subst h0; intro R; rfl
  | op :: rest, k, tr, tr0, hw, h, h0 => by
    obtain ⟨hf, hz⟩ := hw op List.mem_cons_self
    simp only [List.map_cons, traceGo] at h h0
    rw [placeOp_none ns be np (strip op) k rfl rfl] at h0
    simp only at h0
    have hsup : Supported op := ⟨hf, zero_additive _ hz.1, fun _ => zero_additive _ hz.2⟩
    cases hr0 : traceGo ns be np (rest.map strip) (k + 1) with
    | error e => rw [hr0] at h0; cases h0
    | ok tr0' =>
      rw [hr0] at h0; injection h0 with h0; subst h0
      cases hr1 : traceGo ns be np rest (k + 1) with
      | error e =>
        rw [hr1] at h
        cases hp : placeOp ns be np op k <;> rw [hp] at h <;> cases h
      | ok tr' =>
        rw [hr1] at h
        have ih := runH_zero ns be np n arr arr' hr rest (k + 1) tr' tr0'
          (fun o ho => hw o (List.mem_cons_of_mem _ ho)) hr1 hr0
        intro R
        cases ns with
        | false =>
          rw [placeOp_off] at h
          injection h with h; subst h
          show runH np n arr tr' (actH np n arr (.gate k) R) = runH np n arr' tr0' (actH np n arr' (.gate k) R)
          rw [stripRel_gateH np n arr arr' hr k R]
          exact ih _
        | true =>
          rw [placeOp_supported be np op k hsup] at h
          injection h with h; subst h
          rw [runH_append, runH_append, runH_append, runH_wanted_zero np n arr op k hz false]
          show runH np n arr tr' (runH np n arr (wanted np op k true) (actH np n arr (.gate k) R)) = _
          rw [runH_wanted_zero np n arr op k hz true]
          show _ = runH np n arr' tr0' (actH np n arr' (.gate k) R)
          rw [stripRel_gateH np n arr arr' hr k R]
          exact ih _

theorem strip_ok (n np : Nat) (op : COp) (h : OpOK n np op) : OpOK n np (strip op) :=
  ⟨h.wf, h.mfree, trivial, trivial⟩

/-- **zero strength ⇒ the noiseless density matrix, exactly** (measurement-free circuits on existing qubits, all n) -/
theorem dm_zero_strength (ns : Bool) (ne np nc : Nat) (det : Bool) (ops : List COp)
    (hw : ∀ op ∈ ops, OpOK (ne + np) np op) (hz : ∀ op ∈ ops, ZeroNoise op) (d d0 : DmSt) (ρ ρ0 : Mat)
    (hd : compileDM ns ne np nc det ops = .ok d) (hd0 : compileDM ns ne np nc det (ops.map strip) = .ok d0)
    (hρ : d.ρ = some ρ) (hρ0 : d0.ρ = some ρ0) : Mat.EqOn ρ ρ0 := by
  have hw0 : ∀ op ∈ ops.map strip, OpOK (ne + np) np op := by
    intro op ho
    obtain ⟨o, ho', rfl⟩ := List.mem_map.1 ho
    exact strip_ok _ _ o (hw o ho')
  obtain ⟨tr, htr, r, hr, e, hn, _⟩ := compileDM_toC ns ne np nc det ops hw d hd
  obtain ⟨tr0, htr0, r0, hr0, e0, hn0, _⟩ := compileDM_toC ns ne np nc det (ops.map strip) hw0 d0 hd0
  rw [hρ] at hr; injection hr with hr; subst hr
  rw [hρ0] at hr0; injection hr0 with hr0; subst hr0
  apply toC_inj (ne + np) _ _ hn hn0
  rw [e, e0]
  exact runH_zero ns .dm np (ne + np) _ _ (stripRel_toArray ops) ops 0 tr tr0
    (fun op ho => ⟨(hw op ho).mfree, hz op ho⟩) htr htr0 _

/-- … and the mixtures of the stabilizer backend stand for the same state -/
theorem mix_zero_strength (ns : Bool) (ne np nc : Nat) (det : Bool) (ops : List COp)
    (hw : ∀ op ∈ ops, OpOK (ne + np) np op) (hz : ∀ op ∈ ops, ZeroNoise op) (s s0 : StabSt)
    (hs : compileStab ns ne np nc det ops = .ok s) (hs0 : compileStab ns ne np nc det (ops.map strip) = .ok s0) :
    mixRho (ne + np) s.mix = mixRho (ne + np) s0.mix := by
  have hw0 : ∀ op ∈ ops.map strip, OpOK (ne + np) np op := by
    intro op ho
    obtain ⟨o, ho', rfl⟩ := List.mem_map.1 ho
    exact strip_ok _ _ o (hw o ho')
  obtain ⟨tr, htr, e, _⟩ := compileStab_mixRho ns ne np nc det ops hw s hs
  obtain ⟨tr0, htr0, e0, _⟩ := compileStab_mixRho ns ne np nc det (ops.map strip) hw0 s0 hs0
  rw [e, e0]
  exact runH_zero ns .stab np (ne + np) _ _ (stripRel_toArray ops) ops 0 tr tr0
    (fun op ho => ⟨(hw op ho).mfree, hz op ho⟩) htr htr0 _

end MixDM
end Graphiq
