/-
  Proofs/HilbertDimCY.lean — `control_y_gate` of transformation.py (`phase_gate; z_gate; cnot_gate; phase_gate` on the target) is
  conjugation by the controlled-Y unitary `get_two_qubit_controlled_gate(n, c, t, sigmay())`.
-/
import GraphiqModel.Proofs.HilbertDimHistory
namespace Graphiq
namespace Hilbert
open Matrix PRow TabSpec Tab

/-- `Z_c` as a diagonal matrix -/
theorem pauliMat_Zq_diagonal (n c : Nat) (hc : c < n) :
    pauliMat n (Zq c) = Matrix.diagonal (fun b : Bits n => if bx b c then (-1 : ℂ) else 1) := by
  ext a b
  rw [pauliMat_Zq_apply n c false hc, Matrix.diagonal_apply]
  by_cases h : a = b
  · subst h; simp
  · simp [h]

/-- `Z_c` commutes with a one-qubit operator on another qubit -/
theorem pauliZ_comm_oneQ (n c t : Nat) (hc : c < n) (hct : c ≠ t) (v : Matrix Bool Bool ℂ) :
    pauliMat n (Zq c) * oneQ n t v = oneQ n t v * pauliMat n (Zq c) := by
  rw [pauliMat_Zq_diagonal n c hc]
  ext a b
  rw [Matrix.diagonal_mul, Matrix.mul_diagonal, oneQ_apply]
  by_cases h : ∀ j : Fin n, j.val ≠ t → a j = b j
  · have hab : bx a c = bx b c := by rw [bx_lt _ _ hc, bx_lt _ _ hc]; exact h ⟨c, hc⟩ hct
    rw [if_pos h, hab, _root_.mul_comm]
  · rw [if_neg h, mul_zero, zero_mul]

theorem oneQ_sub (n q : Nat) (u v : Matrix Bool Bool ℂ) : oneQ n q (u - v) = oneQ n q u - oneQ n q v := by
  ext a b
  simp only [oneQ_apply, Matrix.sub_apply]
  split <;> simp

/-- one-qubit operators on the target around a controlled gate: `a_t · C(u) · b_t = C(a u b)` when `a b = 1` -/
theorem ctrlQ_conj_oneQ (n c t : Nat) (hc : c < n) (ht : t < n) (hct : c ≠ t) (a b u : Matrix Bool Bool ℂ)
    (hab : a * b = 1) :
    oneQ n t a * ctrlQ n c t u * oneQ n t b = ctrlQ n c t (a * u * b) := by
  rw [ctrlQ_eq_graphiq n c t hc hct, ctrlQ_eq_graphiq n c t hc hct]
  have hcomm : oneQ n t a * (1 - pauliMat n (Zq c)) = (1 - pauliMat n (Zq c)) * oneQ n t a := by
    rw [Matrix.mul_sub, Matrix.sub_mul, Matrix.mul_one, Matrix.one_mul, pauliZ_comm_oneQ n c t hc hct]
  rw [Matrix.mul_add, Matrix.add_mul, Matrix.mul_one, oneQ_mul n t ht, hab, oneQ_one, Matrix.mul_smul, Matrix.smul_mul,
    ← Matrix.mul_assoc, hcomm, Matrix.mul_assoc, Matrix.mul_assoc, oneQ_mul n t ht, oneQ_mul n t ht]
  congr 3
  rw [Matrix.sub_mul, Matrix.one_mul, Matrix.mul_sub, hab, Matrix.mul_assoc]

set_option linter.unusedSimpArgs false in
theorem cy_2x2 : phaseM * (sigmaZ * phaseM) = 1 ∧ phaseM * sigmaX * (sigmaZ * phaseM) = sigmaY := by
  constructor <;>
    (ext a b
     cases a <;> cases b <;>
      simp [phaseM, sigmaX, sigmaY, sigmaZ, Matrix.mul_apply, Fintype.sum_bool, Matrix.one_apply])

/-- **`control_y_gate` is CY**: `P_t · CNOT_{c,t} · Z_t · P_t = get_two_qubit_controlled_gate(n, c, t, Y)` -/
theorem control_y_unitary (n c t : Nat) (hc : c < n) (ht : t < n) (hct : c ≠ t) :
    gateMat n (.P t) * gateMat n (.CNOT c t) * gateMat n (.Z t) * gateMat n (.P t) = ctrlQ n c t sigmaY := by
  show oneQ n t phaseM * ctrlQ n c t sigmaX * oneQ n t sigmaZ * oneQ n t phaseM = _
  rw [Matrix.mul_assoc, oneQ_mul n t ht, ctrlQ_conj_oneQ n c t hc ht hct _ _ _ cy_2x2.1, cy_2x2.2]

/-- **`control_y_gate` on the state**: `ρ(cyGate t c tg) = CY ρ CY†` -/
theorem rho_cyGate (t : Tab) (c tg : Nat) (hc : c < t.n) (ht : tg < t.n) (hct : c ≠ tg) :
    rho t.n (STab.ofTab (t.cyGate c tg))
      = ctrlQ t.n c tg sigmaY * rho t.n (STab.ofTab t) * (ctrlQ t.n c tg sigmaY)ᴴ := by
  have h1 := rho_tab_gate t (.P tg) ht
  have h2 := rho_tab_gate (t.sGate tg) (.Z tg) ht
  have h3 := rho_tab_gate ((t.sGate tg).zGate tg) (.CNOT c tg) ⟨hc, ht, hct⟩
  have h4 := rho_tab_gate (((t.sGate tg).zGate tg).cnotGate c tg) (.P tg) ht
  have e1 : (t.sGate tg).n = t.n := rfl
  have e2 : ((t.sGate tg).zGate tg).n = t.n := rfl
  have e3 : (((t.sGate tg).zGate tg).cnotGate c tg).n = t.n := rfl
  rw [e1] at h2
  rw [e2] at h3
  rw [e3] at h4
  show rho t.n (STab.ofTab ((((t.sGate tg).zGate tg).cnotGate c tg).map (Gate.P tg).act)) = _
  rw [← h4]
  show gateMat t.n (.P tg) * rho t.n (STab.ofTab (((t.sGate tg).zGate tg).map (Gate.CNOT c tg).act)) * _ = _
  rw [← h3]
  show gateMat t.n (.P tg) * (gateMat t.n (.CNOT c tg) * rho t.n (STab.ofTab ((t.sGate tg).map (Gate.Z tg).act)) * _) * _ = _
  rw [← h2]
  show gateMat t.n (.P tg) * (gateMat t.n (.CNOT c tg) * (gateMat t.n (.Z tg) *
      rho t.n (STab.ofTab (t.map (Gate.P tg).act)) * _) * _) * _ = _
  rw [← h1, ← control_y_unitary t.n c tg hc ht hct]
  simp only [Matrix.conjTranspose_mul, Matrix.mul_assoc]

end Hilbert
end Graphiq
