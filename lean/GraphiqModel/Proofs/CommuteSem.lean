/-
  Proofs/CommuteSem.lean — the verified stabilizer semantics of the compile sequence, and the proof that operations on
  disjoint quantum registers commute in it.

  Layer 1, *primitives*: the tableau API calls `compile_one_gate` makes (`Tab.Op`: the eight gates and the Z measurement with
  its recorded outcome).  `appP n op` is C07's group transformer `specOp op` with one addition: a measurement whose recorded
  outcome has probability zero in the current state (`(-1)^(1-o) Z_q` is a stabilizer) is *impossible* (`none`).  Primitives
  with disjoint supports commute on the group of any valid tableau (`appP_comm`, from `Proofs/CommuteGroup`).

  Layer 2, *operations of the compile sequence* (`Wire.SOp`): `decode` expands an operation into its primitives as a
  function of the outcome of its measurement (if it has one); the outcome is read from the **outcome stream of the measured
  register** (`Script = Reg → List Bool`: the k-th measuring operation on wire `r` has outcome `script r [k]` — this names the
  outcome by the operation, independently of the topological order in which the compiler meets the operations).  A state is
  a stabilizer group of a valid tableau together with the unread outcome streams, or `none` ("this sequence of operations
  and outcomes cannot occur": an assertion of the compiler fails — register out of range, `cnot` on one qubit —, an
  outcome has probability zero, or no outcome is supplied for a measurement).

  Main theorem: `appRaw_comm` / `appG_comm` — **operations on disjoint quantum registers commute**, for every state.
-/
import GraphiqModel.Proofs.CommuteGroup
import GraphiqModel.Proofs.Wire
namespace Graphiq.Commute
open Graphiq PRow Tab TabSpec Classical
open Graphiq.Wire (Reg RegType SOp Item Kind G1 runSeq)

/-! ## 1. primitives -/

/-- the API calls given a semantics here, with the compiler's assertions (index in range, distinct control and target) -/
def primOk (n : Nat) : Tab.Op → Bool
  | .h q | .s q | .sdg q | .x q | .y q | .z q => decide (q < n)
  | .cnot c t | .cz c t => decide (c < n ∧ t < n ∧ c ≠ t)
  | .meas q _ => decide (q < n)
  | _ => false

/-- the qubits a primitive acts on -/
def primSupp : Tab.Op → List Nat
  | .h q | .s q | .sdg q | .x q | .y q | .z q => [q]
  | .cnot c t | .cz c t => [c, t]
  | .meas q _ => [q]
  | _ => []

/-- the recorded outcome of a measurement has probability zero -/
def primInfeasible : Tab.Op → GState → Prop
  | .meas q o, g => g.G (Zq q (!o))
  | _, _ => False

/-- **semantics of a primitive**: C07's `specOp`, undefined when an assertion fails or the recorded outcome is impossible -/
noncomputable def appP (n : Nat) (op : Tab.Op) (s : Option GState) : Option GState :=
  if primOk n op then s.bind fun g => if primInfeasible op g then none else some (specOp op g) else none

theorem appP_none (n : Nat) (op : Tab.Op) : appP n op none = none := by
  unfold appP; split <;> rfl

theorem appP_not_ok (n : Nat) (op : Tab.Op) (h : primOk n op ≠ true) (s : Option GState) : appP n op s = none := by
  unfold appP; rw [if_neg h]

theorem appP_meas (n q : Nat) (o : Bool) (hq : q < n) (s : Option GState) : appP n (.meas q o) s = measStep q o s := by
  unfold appP
  rw [if_pos (by simpa [primOk] using hq)]
  rfl

theorem appP_gate_aux (n : Nat) (op : Tab.Op) (f : PRow → PRow) (hok : primOk n op = true)
    (hinf : ∀ g, ¬ primInfeasible op g) (hspec : ∀ g, specOp op g = specGate f g) (s : Option GState) :
    appP n op s = gateStep f s := by
  unfold appP gateStep
  rw [if_pos hok]
  cases s with
  | none => rfl
  | some g => simp only [Option.bind_some, if_neg (hinf g), hspec g, Option.map_some]

/-- a primitive is a measurement, or a gate whose row action is a local automorphism on its support -/
theorem prim_cases (n : Nat) (op : Tab.Op) (hok : primOk n op = true) :
    (∃ q o, op = .meas q o ∧ q < n) ∨
    (∃ f : PRow → PRow, (∀ s, appP n op s = gateStep f s) ∧ IsAut1 n f ∧ Local (fun j => j ∈ primSupp op) f) := by
  cases op with
  | h q =>
    have hq : q < n := by simpa [primOk] using hok
    exact Or.inr ⟨PRow.h q, appP_gate_aux n _ _ hok (fun _ h => h) (fun _ => rfl), isAut1_h n q hq,
      (local_h q).mono (fun j hj => by simp [primSupp, hj])⟩
  | s q =>
    have hq : q < n := by simpa [primOk] using hok
    exact Or.inr ⟨PRow.s q, appP_gate_aux n _ _ hok (fun _ h => h) (fun _ => rfl), isAut1_s n q hq,
      (local_s q).mono (fun j hj => by simp [primSupp, hj])⟩
  | sdg q =>
    have hq : q < n := by simpa [primOk] using hok
    exact Or.inr ⟨PRow.sdg q, appP_gate_aux n _ _ hok (fun _ h => h) (fun _ => rfl), isAut1_sdg n q hq,
      (local_sdg q).mono (fun j hj => by simp [primSupp, hj])⟩
  | x q =>
    have hq : q < n := by simpa [primOk] using hok
    exact Or.inr ⟨PRow.xg q, appP_gate_aux n _ _ hok (fun _ h => h) (fun _ => rfl), isAut1_xg n q hq,
      (local_xg q).mono (fun j hj => by simp [primSupp, hj])⟩
  | y q =>
    have hq : q < n := by simpa [primOk] using hok
    exact Or.inr ⟨PRow.yg q, appP_gate_aux n _ _ hok (fun _ h => h) (fun _ => rfl), isAut1_yg n q hq,
      (local_yg q).mono (fun j hj => by simp [primSupp, hj])⟩
  | z q =>
    have hq : q < n := by simpa [primOk] using hok
    exact Or.inr ⟨PRow.zg q, appP_gate_aux n _ _ hok (fun _ h => h) (fun _ => rfl), isAut1_zg n q hq,
      (local_zg q).mono (fun j hj => by simp [primSupp, hj])⟩
  | cnot c t =>
    have hq : c < n ∧ t < n ∧ c ≠ t := by simpa [primOk] using hok
    exact Or.inr ⟨PRow.cnot c t, appP_gate_aux n _ _ hok (fun _ h => h) (fun _ => rfl),
      isAut1_cnot n c t hq.1 hq.2.1 hq.2.2, (local_cnot c t).mono (fun j hj => by simpa [primSupp] using hj)⟩
  | cz c t =>
    have hq : c < n ∧ t < n ∧ c ≠ t := by simpa [primOk] using hok
    exact Or.inr ⟨PRow.cz c t, appP_gate_aux n _ _ hok (fun _ h => h) (fun _ => rfl),
      isAut1_cz n c t hq.1 hq.2.1 hq.2.2, (local_cz c t).mono (fun j hj => by simpa [primSupp] using hj)⟩
  | meas q o => exact Or.inl ⟨q, o, rfl, by simpa [primOk] using hok⟩
  | swap a b => simp [primOk] at hok
  | resetZ q i o => simp [primOk] at hok
  | resetX q i o => simp [primOk] at hok
  | resetY q i o => simp [primOk] at hok
  | insert p => simp [primOk] at hok
  | add => simp [primOk] at hok
  | remove q o => simp [primOk] at hok
  | ptrace k os => simp [primOk] at hok

/-- the invariant of the group part of a state: it is the stabilizer group of a valid tableau on `n` qubits -/
def OkSt (n : Nat) (s : Option GState) : Prop := ∀ g, s = some g → IsTab n g

theorem okSt_none (n : Nat) : OkSt n none := fun _ h => by cases h

theorem okSt_gateStep {n : Nat} {f : PRow → PRow} (hf : IsAut1 n f) {s : Option GState} (hs : OkSt n s) :
    OkSt n (gateStep f s) := by
  intro g' h
  cases s with
  | none => cases h
  | some g =>
    simp only [gateStep, Option.map_some, Option.some.injEq] at h
    rw [← h]; exact isTab_gate (hs g rfl) f hf

theorem okSt_measStep {n q : Nat} (o : Bool) (hq : q < n) {s : Option GState} (hs : OkSt n s) :
    OkSt n (measStep q o s) := by
  intro g' h
  cases s with
  | none => cases h
  | some g =>
    simp only [measStep, Option.bind_some] at h
    split at h
    · cases h
    · simp only [Option.some.injEq] at h
      rw [← h]; exact isTab_meas (hs g rfl) q o hq

theorem appP_ok (n : Nat) (op : Tab.Op) {s : Option GState} (hs : OkSt n s) : OkSt n (appP n op s) := by
  by_cases hok : primOk n op = true
  · rcases prim_cases n op hok with ⟨q, o, rfl, hq⟩ | ⟨f, hf, ha, _⟩
    · rw [appP_meas n q o hq]; exact okSt_measStep o hq hs
    · rw [hf]; exact okSt_gateStep ha hs
  · rw [appP_not_ok n op hok]; exact okSt_none n

/-- **primitives with disjoint supports commute** on the group of every valid tableau, feasibility included -/
theorem appP_comm (n : Nat) (a b : Tab.Op) (hd : ∀ j, j ∈ primSupp a → j ∉ primSupp b) (s : Option GState) (hs : OkSt n s) :
    appP n a (appP n b s) = appP n b (appP n a s) := by
  by_cases hoa : primOk n a = true
  · by_cases hob : primOk n b = true
    · rcases prim_cases n a hoa with ⟨q, o, rfl, hq⟩ | ⟨f, hf, haf, hlf⟩
      · rcases prim_cases n b hob with ⟨q', o', rfl, hq'⟩ | ⟨h, hh, hah, hlh⟩
        · rw [appP_meas n q o hq, appP_meas n q' o' hq', appP_meas n q o hq, appP_meas n q' o' hq']
          exact meas_meas_comm q q' o o' hq hq' s hs
        · rw [appP_meas n q o hq, hh, hh, appP_meas n q o hq]
          exact (gate_meas_comm hah hlh hq (hd q (by simp [primSupp])) o s hs).symm
      · rcases prim_cases n b hob with ⟨q', o', rfl, hq'⟩ | ⟨h, hh, hah, hlh⟩
        · rw [appP_meas n q' o' hq', hf, hf, appP_meas n q' o' hq']
          exact gate_meas_comm haf hlf hq' (fun hin => hd q' hin (by simp [primSupp])) o' s hs
        · rw [hf, hh, hf, hh]
          exact gate_gate_comm f h haf.aut hah.aut (fun p => hlf.comm hlh hd p) s (fun g hg => (hs g hg).n_eq)
    · rw [appP_not_ok n b hob, appP_not_ok n b hob, appP_none]
  · rw [appP_not_ok n a hoa, appP_not_ok n a hoa, appP_none]

/-- run a list of primitives, first element first -/
noncomputable def runP (n : Nat) (l : List Tab.Op) (s : Option GState) : Option GState := l.foldl (fun s a => appP n a s) s

theorem runP_nil (n : Nat) (s : Option GState) : runP n [] s = s := rfl
theorem runP_cons (n : Nat) (a : Tab.Op) (l : List Tab.Op) (s : Option GState) : runP n (a :: l) s = runP n l (appP n a s) := rfl

theorem runP_none (n : Nat) (l : List Tab.Op) : runP n l none = none := by
  induction l with
  | nil => rfl
  | cons a l ih => rw [runP_cons, appP_none, ih]

theorem runP_ok (n : Nat) (l : List Tab.Op) {s : Option GState} (hs : OkSt n s) : OkSt n (runP n l s) := by
  induction l generalizing s with
  | nil => exact hs
  | cons a l ih => rw [runP_cons]; exact ih (appP_ok n a hs)

theorem appP_runP_comm (n : Nat) (a : Tab.Op) (l : List Tab.Op)
    (hd : ∀ b, b ∈ l → ∀ j, j ∈ primSupp a → j ∉ primSupp b) (s : Option GState) (hs : OkSt n s) :
    appP n a (runP n l s) = runP n l (appP n a s) := by
  induction l generalizing s with
  | nil => rfl
  | cons b l ih =>
    rw [runP_cons, runP_cons, ih (fun c hc => hd c (List.mem_cons_of_mem _ hc)) _ (appP_ok n b hs),
      appP_comm n a b (hd b List.mem_cons_self) s hs]

/-- two blocks of primitives with disjoint supports commute -/
theorem runP_comm (n : Nat) (l1 l2 : List Tab.Op)
    (hd : ∀ a, a ∈ l1 → ∀ b, b ∈ l2 → ∀ j, j ∈ primSupp a → j ∉ primSupp b) (s : Option GState) (hs : OkSt n s) :
    runP n l1 (runP n l2 s) = runP n l2 (runP n l1 s) := by
  induction l1 generalizing s with
  | nil => rfl
  | cons a l1 ih =>
    rw [runP_cons, runP_cons, ← ih (fun c hc => hd c (List.mem_cons_of_mem _ hc)) _ (appP_ok n a hs),
      appP_runP_comm n a l2 (hd a List.mem_cons_self) s hs]

/-! ## 2. operations of the compile sequence -/

/-- `reg_to_index_func(n_photon)`, with the range assertions: photons first, then emitters; classical registers carry no qubit -/
def regIx (ne np : Nat) (r : Reg) : Option Nat :=
  match r.ty with
  | .p => if r.idx < np then some r.idx else none
  | .e => if r.idx < ne then some (r.idx + np) else none
  | .c => none

theorem regIx_spec {ne np : Nat} {r : Reg} {q : Nat} (hr : regIx ne np r = some q) :
    (r.ty = .p ∧ r.idx < np ∧ q = r.idx) ∨ (r.ty = .e ∧ r.idx < ne ∧ q = r.idx + np) := by
  obtain ⟨ty, idx⟩ := r
  cases ty <;> simp only [regIx] at hr
  · by_cases hlt : idx < ne
    · rw [if_pos hlt] at hr; cases hr; exact Or.inr ⟨rfl, hlt, rfl⟩
    · rw [if_neg hlt] at hr; cases hr
  · by_cases hlt : idx < np
    · rw [if_pos hlt] at hr; cases hr; exact Or.inl ⟨rfl, hlt, rfl⟩
    · rw [if_neg hlt] at hr; cases hr
  · cases hr

theorem regIx_lt {ne np : Nat} {r : Reg} {q : Nat} (hr : regIx ne np r = some q) : q < ne + np := by
  rcases regIx_spec hr with ⟨_, h1, h2⟩ | ⟨_, h1, h2⟩ <;> omega

theorem regIx_inj {ne np : Nat} {r r' : Reg} {q : Nat} (hr : regIx ne np r = some q) (hr' : regIx ne np r' = some q) :
    r = r' := by
  obtain ⟨ty, idx⟩ := r
  obtain ⟨ty', idx'⟩ := r'
  rcases regIx_spec hr with ⟨h0, h1, h2⟩ | ⟨h0, h1, h2⟩ <;> rcases regIx_spec hr' with ⟨h0', h1', h2'⟩ | ⟨h0', h1', h2'⟩ <;>
    simp only at h0 h1 h2 h0' h1' h2'
  · subst h0 h0'; have : idx = idx' := by omega
    subst this; rfl
  · exfalso; omega
  · exfalso; omega
  · subst h0 h0'; have : idx = idx' := by omega
    subst this; rfl

/-- the primitives of a base one-qubit gate (`Identity` compiles to nothing) -/
def g1Prims (g : G1) (q : Nat) : List Tab.Op :=
  match g with
  | .I => [] | .H => [.h q] | .P => [.s q] | .Pdg => [.sdg q] | .X => [.x q] | .Y => [.y q] | .Z => [.z q]

/-- a decoded operation: the register whose outcome stream it reads (the measured qubit), and the API calls it makes as a
    function of that outcome -/
structure Dec where
  mreg : Option Reg
  prims : Bool → List Tab.Op

/-- the primitives of a two-register operation on qubits `qc` (control / measured) and `qt` (target):
    `ClassicalCNOT` / `ClassicalCZ`: measure the control, `X` / `Z` on the target iff the outcome is 1;
    `MeasurementCNOTandReset`: the same as `ClassicalCNOT`, then reset the control to `|0⟩` — after a measurement with
    outcome `o` the reset is "`X` iff `o = 1`" (`Proofs/CommuteRefine`: `specResetZ_after_meas`). -/
def pairPrims (k : Kind) (c : Reg) (qc qt : Nat) : Option Dec :=
  match k with
  | .cnot => some ⟨none, fun _ => [.cnot qc qt]⟩
  | .cz => some ⟨none, fun _ => [.cz qc qt]⟩
  | .ccnot => some ⟨some c, fun o => .meas qc o :: (if o then [.x qt] else [])⟩
  | .ccz => some ⟨some c, fun o => .meas qc o :: (if o then [.z qt] else [])⟩
  | .mcr => some ⟨some c, fun o => .meas qc o :: (if o then [.x qt, .x qc] else [])⟩
  | _ => none

/-- expansion of an operation of the compile sequence; the registers acted on are `a.regs` -/
def decode (ne np : Nat) (a : SOp) : Option Dec :=
  match a.item, a.regs with
  | .g g, [r] => (regIx ne np r).map fun q => ⟨none, fun _ => g1Prims g q⟩
  | .node .measZ _ _, [r] => (regIx ne np r).map fun q => ⟨some r, fun o => [.meas q o]⟩
  | .node k _ _, [c, t] =>
    match regIx ne np c, regIx ne np t with
    | some qc, some qt => pairPrims k c qc qt
    | _, _ => none
  | _, _ => none

/-- every qubit a decoded operation touches is the index of one of its registers -/
def Dec.Within (ne np : Nat) (d : Dec) (regs : List Reg) : Prop :=
  (∀ r, d.mreg = some r → r ∈ regs) ∧
  ∀ o p, p ∈ d.prims o → ∀ j, j ∈ primSupp p → ∃ r, r ∈ regs ∧ regIx ne np r = some j

theorem g1Prims_supp (g : G1) (q : Nat) (p : Tab.Op) (hp : p ∈ g1Prims g q) (j : Nat) (hj : j ∈ primSupp p) : j = q := by
  cases g <;> simp only [g1Prims, List.mem_singleton, List.not_mem_nil] at hp <;> subst hp <;>
    simpa [primSupp] using hj

theorem pairPrims_within (ne np : Nat) (k : Kind) (c t : Reg) (qc qt : Nat) (d : Dec) (hc : regIx ne np c = some qc)
    (ht : regIx ne np t = some qt) (hdec : pairPrims k c qc qt = some d) : d.Within ne np [c, t] := by
  have hqc : ∃ r, r ∈ [c, t] ∧ regIx ne np r = some qc := ⟨c, by simp, hc⟩
  have hqt : ∃ r, r ∈ [c, t] ∧ regIx ne np r = some qt := ⟨t, by simp, ht⟩
  cases k <;> simp only [pairPrims, Option.some.injEq, reduceCtorEq] at hdec
  all_goals subst hdec
  · -- cnot
    refine ⟨fun r hr => (by cases hr), fun o p hp j hj => ?_⟩
    simp only [List.mem_singleton] at hp; subst hp
    simp only [primSupp, List.mem_cons, List.not_mem_nil, or_false] at hj
    rcases hj with rfl | rfl
    · exact hqc
    · exact hqt
  · -- cz
    refine ⟨fun r hr => (by cases hr), fun o p hp j hj => ?_⟩
    simp only [List.mem_singleton] at hp; subst hp
    simp only [primSupp, List.mem_cons, List.not_mem_nil, or_false] at hj
    rcases hj with rfl | rfl
    · exact hqc
    · exact hqt
  · -- ccnot
    refine ⟨fun r hr => (by simp only [Option.some.injEq] at hr; subst hr; simp), fun o p hp j hj => ?_⟩
    cases o <;> simp only [List.mem_cons, List.not_mem_nil, or_false, if_true, Bool.false_eq_true, if_false] at hp
    · subst hp; simp only [primSupp, List.mem_singleton] at hj; subst hj; exact hqc
    · rcases hp with rfl | rfl <;> simp only [primSupp, List.mem_singleton] at hj <;> subst hj
      · exact hqc
      · exact hqt
  · -- ccz
    refine ⟨fun r hr => (by simp only [Option.some.injEq] at hr; subst hr; simp), fun o p hp j hj => ?_⟩
    cases o <;> simp only [List.mem_cons, List.not_mem_nil, or_false, if_true, Bool.false_eq_true, if_false] at hp
    · subst hp; simp only [primSupp, List.mem_singleton] at hj; subst hj; exact hqc
    · rcases hp with rfl | rfl <;> simp only [primSupp, List.mem_singleton] at hj <;> subst hj
      · exact hqc
      · exact hqt
  · -- mcr
    refine ⟨fun r hr => (by simp only [Option.some.injEq] at hr; subst hr; simp), fun o p hp j hj => ?_⟩
    cases o <;> simp only [List.mem_cons, List.not_mem_nil, or_false, if_true, Bool.false_eq_true, if_false] at hp
    · subst hp; simp only [primSupp, List.mem_singleton] at hj; subst hj; exact hqc
    · rcases hp with rfl | rfl | rfl <;> simp only [primSupp, List.mem_singleton] at hj <;> subst hj
      · exact hqc
      · exact hqt
      · exact hqc

theorem decode_within (ne np : Nat) (a : SOp) (d : Dec) (hdec : decode ne np a = some d) : d.Within ne np a.regs := by
  have h := hdec
  unfold decode at h
  split at h
  · next g r _ hregs =>
    rw [hregs]
    cases hq : regIx ne np r with
    | none => rw [hq] at h; cases h
    | some q =>
      rw [hq] at h
      simp only [Option.map_some, Option.some.injEq] at h
      subst h
      refine ⟨fun r hr => (by cases hr), fun o p hp j hj => ?_⟩
      have := g1Prims_supp g q p hp j hj
      subst this
      exact ⟨r, by simp, hq⟩
  · next _ _ r _ hregs =>
    rw [hregs]
    cases hq : regIx ne np r with
    | none => rw [hq] at h; cases h
    | some q =>
      rw [hq] at h
      simp only [Option.map_some, Option.some.injEq] at h
      subst h
      refine ⟨fun r' hr => (by simp only [Option.some.injEq] at hr; subst hr; simp), fun o p hp j hj => ?_⟩
      simp only [List.mem_singleton] at hp; subst hp
      simp only [primSupp, List.mem_singleton] at hj; subst hj
      exact ⟨r, by simp, hq⟩
  · next k _ _ c t _ hregs =>
    rw [hregs]
    split at h
    · next qc qt hc ht => exact pairPrims_within ne np k c t qc qt d hc ht h
    · cases h
  · cases h

/-! ### states and the semantics of one operation -/

/-- the unread outcome stream of every register -/
abbrev Script := Reg → List Bool

/-- stabilizer group + outcome streams, or `none` = "cannot occur" -/
abbrev RawSt := Option (GState × Script)

def popReg (sc : Script) (r : Reg) : Script := fun r' => if r' = r then (sc r').tail else sc r'

/-- the outcome of the operation's measurement -/
def Dec.out (d : Dec) (sc : Script) : Bool :=
  match d.mreg with
  | some r => (sc r).headD false
  | none => false

/-- the outcome streams after the operation -/
def Dec.pop (d : Dec) (sc : Script) : Script :=
  match d.mreg with
  | some r => popReg sc r
  | none => sc

/-- an outcome is supplied for the operation's measurement (if it has one) -/
def Dec.has (d : Dec) (sc : Script) : Prop :=
  match d.mreg with
  | some r => sc r ≠ []
  | none => True

/-- **semantics of one operation of the compile sequence** on (stabilizer group, outcome streams); a measuring operation
    whose register has no outcome left cannot run -/
noncomputable def appRaw (ne np : Nat) (a : SOp) (s : RawSt) : RawSt :=
  s.bind fun st =>
    match decode ne np a with
    | none => none
    | some d =>
      if d.has st.2 then (runP (ne + np) (d.prims (d.out st.2)) (some st.1)).map fun g' => (g', d.pop st.2) else none

theorem appRaw_none (ne np : Nat) (a : SOp) : appRaw ne np a none = none := rfl

theorem appRaw_undecodable (ne np : Nat) (a : SOp) (h : decode ne np a = none) (s : RawSt) : appRaw ne np a s = none := by
  cases s with
  | none => rfl
  | some st => simp only [appRaw, Option.bind_some, h]

theorem appRaw_map (ne np : Nat) (a : SOp) (d : Dec) (h : decode ne np a = some d) (og : Option GState) (sc : Script) :
    appRaw ne np a (og.map fun g => (g, sc)) =
      if d.has sc then (runP (ne + np) (d.prims (d.out sc)) og).map fun g' => (g', d.pop sc) else none := by
  cases og with
  | none => rw [runP_none]; split <;> rfl
  | some g => simp only [appRaw, Option.map_some, Option.bind_some, h]

/-- the invariant of a state: its group is the stabilizer group of a valid tableau -/
def OkRaw (n : Nat) (s : RawSt) : Prop := ∀ g sc, s = some (g, sc) → IsTab n g

theorem appRaw_ok (ne np : Nat) (a : SOp) {s : RawSt} (hs : OkRaw (ne + np) s) : OkRaw (ne + np) (appRaw ne np a s) := by
  intro g' sc' h
  cases s with
  | none => cases h
  | some st =>
    obtain ⟨g, sc⟩ := st
    simp only [appRaw, Option.bind_some] at h
    split at h
    · cases h
    · next d _ =>
      split at h
      case isFalse => cases h
      have hok := runP_ok (ne + np) (d.prims (d.out sc)) (s := some g) (fun g0 h0 => by cases h0; exact hs g sc rfl)
      cases hr : runP (ne + np) (d.prims (d.out sc)) (some g) with
      | none => rw [hr] at h; cases h
      | some g1 =>
        rw [hr] at h
        simp only [Option.map_some, Option.some.injEq, Prod.mk.injEq] at h
        rw [← h.1]; exact hok g1 hr

theorem popReg_comm (sc : Script) (r r' : Reg) : popReg (popReg sc r) r' = popReg (popReg sc r') r := by
  funext x
  unfold popReg
  by_cases h1 : x = r
  · subst h1
    by_cases h2 : x = r'
    · subst h2; simp
    · simp [h2]
  · by_cases h2 : x = r'
    · subst h2; simp [h1]
    · simp [h1, h2]

theorem popReg_other (sc : Script) (r r' : Reg) (h : r' ≠ r) : popReg sc r r' = sc r' := by
  unfold popReg; rw [if_neg h]

/-- **operations on disjoint quantum registers commute** — gates, measurements, classically controlled gates and
    measure-and-reset; an outcome assignment possible in one order is possible in the other and leads to the same
    stabilizer group and the same unread outcome streams -/
theorem appRaw_comm (ne np : Nat) (a b : SOp) (hd : ∀ r, r ∈ a.regs → r ∉ b.regs) (s : RawSt) (hs : OkRaw (ne + np) s) :
    appRaw ne np a (appRaw ne np b s) = appRaw ne np b (appRaw ne np a s) := by
  cases hda : decode ne np a with
  | none => rw [appRaw_undecodable ne np a hda, appRaw_undecodable ne np a hda, appRaw_none]
  | some da =>
    cases hdb : decode ne np b with
    | none => rw [appRaw_undecodable ne np b hdb, appRaw_undecodable ne np b hdb, appRaw_none]
    | some db =>
      cases s with
      | none => rfl
      | some st =>
        obtain ⟨g, sc⟩ := st
        have hwa := decode_within ne np a da hda
        have hwb := decode_within ne np b db hdb
        have hg : OkSt (ne + np) (some g) := fun g0 h0 => by cases h0; exact hs g sc rfl
        -- the outcome an operation reads is not affected by the other operation
        have houta : da.out (db.pop sc) = da.out sc := by
          unfold Dec.out Dec.pop
          cases hma : da.mreg with
          | none => rfl
          | some ra =>
            cases hmb : db.mreg with
            | none => rfl
            | some rb =>
              simp only
              rw [popReg_other]
              intro he
              exact hd ra (hwa.1 ra hma) (he ▸ hwb.1 rb hmb)
        have houtb : db.out (da.pop sc) = db.out sc := by
          unfold Dec.out Dec.pop
          cases hmb : db.mreg with
          | none => rfl
          | some rb =>
            cases hma : da.mreg with
            | none => rfl
            | some ra =>
              simp only
              rw [popReg_other]
              intro he
              exact hd ra (hwa.1 ra hma) (he ▸ hwb.1 rb hmb)
        have hhasa : da.has (db.pop sc) ↔ da.has sc := by
          unfold Dec.has Dec.pop
          cases hma : da.mreg with
          | none => exact Iff.rfl
          | some ra =>
            cases hmb : db.mreg with
            | none => exact Iff.rfl
            | some rb =>
              simp only
              rw [popReg_other]
              intro he
              exact hd ra (hwa.1 ra hma) (he ▸ hwb.1 rb hmb)
        have hhasb : db.has (da.pop sc) ↔ db.has sc := by
          unfold Dec.has Dec.pop
          cases hmb : db.mreg with
          | none => exact Iff.rfl
          | some rb =>
            cases hma : da.mreg with
            | none => exact Iff.rfl
            | some ra =>
              simp only
              rw [popReg_other]
              intro he
              exact hd ra (hwa.1 ra hma) (he ▸ hwb.1 rb hmb)
        have hpop : da.pop (db.pop sc) = db.pop (da.pop sc) := by
          unfold Dec.pop
          cases da.mreg <;> cases db.mreg <;> simp only
          exact popReg_comm _ _ _
        -- the primitives act on disjoint qubits
        have hsupp : ∀ p, p ∈ da.prims (da.out sc) → ∀ p', p' ∈ db.prims (db.out sc) →
            ∀ j, j ∈ primSupp p → j ∉ primSupp p' := by
          intro p hp p' hp' j hj hj'
          obtain ⟨r, hr, hrj⟩ := hwa.2 _ p hp j hj
          obtain ⟨r', hr', hrj'⟩ := hwb.2 _ p' hp' j hj'
          exact hd r hr (regIx_inj hrj hrj' ▸ hr')
        have e1 : appRaw ne np b (some (g, sc)) =
            if db.has sc then (runP (ne + np) (db.prims (db.out sc)) (some g)).map fun g' => (g', db.pop sc) else none :=
          appRaw_map ne np b db hdb (some g) sc
        have e2 : appRaw ne np a (some (g, sc)) =
            if da.has sc then (runP (ne + np) (da.prims (da.out sc)) (some g)).map fun g' => (g', da.pop sc) else none :=
          appRaw_map ne np a da hda (some g) sc
        rw [e1, e2]
        by_cases hha : da.has sc
        · by_cases hhb : db.has sc
          · rw [if_pos hha, if_pos hhb, appRaw_map ne np a da hda, appRaw_map ne np b db hdb, if_pos (hhasa.mpr hha),
              if_pos (hhasb.mpr hhb), houta, houtb, hpop, runP_comm (ne + np) _ _ hsupp (some g) hg]
          · rw [if_pos hha, if_neg hhb, appRaw_none, appRaw_map ne np b db hdb, if_neg (fun h => hhb (hhasb.mp h))]
        · by_cases hhb : db.has sc
          · rw [if_neg hha, if_pos hhb, appRaw_none, appRaw_map ne np a da hda, if_neg (fun h => hha (hhasa.mp h))]
          · rw [if_neg hha, if_neg hhb, appRaw_none, appRaw_none]

/-! ### the state type of the instantiated theorems -/

/-- states whose group is the stabilizer group of a valid tableau on `ne + np` qubits (or "cannot occur") -/
def GSt (ne np : Nat) : Type := { s : RawSt // OkRaw (ne + np) s }

/-- **the stabilizer semantics of an operation of the compile sequence** -/
noncomputable def appG (ne np : Nat) (a : SOp) (s : GSt ne np) : GSt ne np := ⟨appRaw ne np a s.1, appRaw_ok ne np a s.2⟩

/-- the commutation hypothesis of C13, proved: in the stabilizer semantics, operations on disjoint quantum registers
    commute, on every state -/
theorem appG_comm (ne np : Nat) (a b : SOp) (hd : ∀ r, r ∈ a.regs → r ∉ b.regs) (s : GSt ne np) :
    appG ne np a (appG ne np b s) = appG ne np b (appG ne np a s) :=
  Subtype.ext (appRaw_comm ne np a b hd s.1 s.2)

/-- the initial state of a compilation: all qubits in `|0⟩`, with the given outcome streams -/
noncomputable def GSt.init (ne np : Nat) (sc : Script) : GSt ne np :=
  ⟨some (gstate (Tab.ket0 (ne + np)), sc), fun g sc' h => by
    simp only [Option.some.injEq, Prod.mk.injEq] at h
    rw [← h.1]; exact isTab_ket0 _⟩

theorem runSeq_appG_val (ne np : Nat) (l : List SOp) (s : GSt ne np) :
    (runSeq (appG ne np) l s).1 = runSeq (appRaw ne np) l s.1 := by
  induction l generalizing s with
  | nil => rfl
  | cons a l ih => exact ih (appG ne np a s)

end Graphiq.Commute
