/-
  Proofs/CommuteRecord.lean — the classical record.

  The state of `Proofs/CommuteSem` is extended by the classical registers (`Nat → Bool`, all `0` initially): a measuring
  operation writes the outcome of its measurement into its classical register.  Two operations now commute when they
  touch disjoint quantum registers *and* do not write the same classical register (`regsC`: the quantum registers plus the
  classical register written) — two measurements on different qubits that write the same classical register are ordered by
  the classical wire, not by commutation.

  * `appRawC` / `appC`, `appC_comm`: the semantics with the record and its commutation theorem.
  * `proj_regsC_eq`: on a sane circuit whose measuring operations are threaded on the classical wire they write (which is
    what `add` does; `insert_at` may omit it), the per-register projections (classical registers included) of any two
    compile sequences agree — so `same_wires_same_state` applies and the record too is independent of the topological order.
  * `run_refines_record`: the compile loop's `writes` refine the record of the semantics.
-/
import GraphiqModel.Proofs.CommuteComplete
namespace Graphiq.Commute
open Graphiq PRow Tab TabSpec Classical
open Graphiq.Wire (Reg RegType SOp Item Kind G1 runSeq projReg Circuit)

/-- the classical register a measuring operation writes -/
def wreg (a : SOp) : Option Nat :=
  match a.item with
  | .node .measZ _ cr | .node .ccnot _ cr | .node .ccz _ cr | .node .mcr _ cr => some (cr.headD 0)
  | _ => none

/-- quantum registers acted on and classical register written -/
def regsC (a : SOp) : List Reg := a.regs ++ (wreg a).toList.map (Reg.mk .c)

def setRec (rec : Nat → Bool) (i : Nat) (o : Bool) : Nat → Bool := fun j => if j = i then o else rec j

theorem setRec_comm (rec : Nat → Bool) (i j : Nat) (o o' : Bool) (h : i ≠ j) :
    setRec (setRec rec i o) j o' = setRec (setRec rec j o') i o := by
  funext k
  simp only [setRec]
  by_cases h1 : k = j
  · have h2 : ¬ k = i := fun e => h (e.symm.trans h1)
    simp only [if_pos h1, if_neg h2]
  · simp only [if_neg h1]

/-- the record after the operation, given the outcome of its measurement -/
def writeRec (a : SOp) (o : Bool) (rec : Nat → Bool) : Nat → Bool :=
  match wreg a with
  | some i => setRec rec i o
  | none => rec

/-- stabilizer group + outcome streams + classical registers -/
abbrev RawC := Option (GState × Script × (Nat → Bool))

/-- the outcome the operation reads from the streams -/
def outOf (ne np : Nat) (a : SOp) (sc : Script) : Bool :=
  match decode ne np a with
  | some d => d.out sc
  | none => false

/-- **semantics of one operation with the classical record**: as `appRaw`, and the outcome goes into the written register -/
noncomputable def appRawC (ne np : Nat) (a : SOp) (s : RawC) : RawC :=
  s.bind fun st => (appRaw ne np a (some (st.1, st.2.1))).map fun x => (x.1, x.2, writeRec a (outOf ne np a st.2.1) st.2.2)

theorem appRawC_none (ne np : Nat) (a : SOp) : appRawC ne np a none = none := rfl

/-- the outcome streams after an operation -/
theorem appRaw_script (ne np : Nat) (a : SOp) (g g1 : GState) (sc sc1 : Script)
    (h : appRaw ne np a (some (g, sc)) = some (g1, sc1)) :
    ∃ d, decode ne np a = some d ∧ sc1 = d.pop sc := by
  cases hd : decode ne np a with
  | none => rw [appRaw_undecodable ne np a hd] at h; cases h
  | some d =>
    refine ⟨d, rfl, ?_⟩
    have e := appRaw_map ne np a d hd (some g) sc
    simp only [Option.map_some] at e
    rw [e] at h
    split at h
    · cases hr : runP (ne + np) (d.prims (d.out sc)) (some g) with
      | none => rw [hr] at h; cases h
      | some g' =>
        rw [hr] at h
        simp only [Option.map_some, Option.some.injEq, Prod.mk.injEq] at h
        exact h.2.symm
    · cases h

/-- the outcome an operation reads is not affected by an operation on other registers -/
theorem outOf_pop_other (ne np : Nat) (a b : SOp) (hd : ∀ r, r ∈ a.regs → r ∉ b.regs) (db : Dec)
    (hdb : decode ne np b = some db) (sc : Script) : outOf ne np a (db.pop sc) = outOf ne np a sc := by
  unfold outOf
  cases hda : decode ne np a with
  | none => rfl
  | some da =>
    have hwa := decode_within ne np a da hda
    have hwb := decode_within ne np b db hdb
    simp only
    unfold Dec.out Dec.pop
    cases hma : da.mreg with
    | none => rfl
    | some ra =>
      cases hmb : db.mreg with
      | none => rfl
      | some rb =>
        simp only
        rw [popReg_other]
        intro he
        exact hd ra (hwa.1 ra hma) (he ▸ hwb.1 rb hmb)

theorem appRawC_eq (ne np : Nat) (a : SOp) (g : GState) (sc : Script) (rec : Nat → Bool) :
    appRawC ne np a (some (g, sc, rec)) =
      (appRaw ne np a (some (g, sc))).map fun x => (x.1, x.2, writeRec a (outOf ne np a sc) rec) := rfl

/-- two operations in a row -/
theorem appRawC_appRawC (ne np : Nat) (a b : SOp) (hd : ∀ r, r ∈ a.regs → r ∉ b.regs) (g : GState) (sc : Script)
    (rec : Nat → Bool) :
    appRawC ne np a (appRawC ne np b (some (g, sc, rec))) =
      (appRaw ne np a (appRaw ne np b (some (g, sc)))).map fun x =>
        (x.1, x.2, writeRec a (outOf ne np a sc) (writeRec b (outOf ne np b sc) rec)) := by
  rw [appRawC_eq]
  cases hb : appRaw ne np b (some (g, sc)) with
  | none => rfl
  | some x =>
    obtain ⟨g1, sc1⟩ := x
    obtain ⟨db, hdb, hsc⟩ := appRaw_script ne np b g g1 sc sc1 hb
    simp only [Option.map_some]
    rw [appRawC_eq, hsc, outOf_pop_other ne np a b hd db hdb sc]

/-- **operations on disjoint quantum registers that do not write the same classical register commute**, record included -/
theorem appRawC_comm (ne np : Nat) (a b : SOp) (hd : ∀ r, r ∈ regsC a → r ∉ regsC b) (s : RawC)
    (hs : ∀ g sc rec, s = some (g, sc, rec) → IsTab (ne + np) g) :
    appRawC ne np a (appRawC ne np b s) = appRawC ne np b (appRawC ne np a s) := by
  have hq : ∀ r, r ∈ a.regs → r ∉ b.regs := by
    intro r hr hr'
    exact hd r (List.mem_append_left _ hr) (List.mem_append_left _ hr')
  have hq' : ∀ r, r ∈ b.regs → r ∉ a.regs := fun r hr hr' => hq r hr' hr
  cases s with
  | none => rfl
  | some st =>
    obtain ⟨g, sc, rec⟩ := st
    rw [appRawC_appRawC ne np a b hq, appRawC_appRawC ne np b a hq',
      appRaw_comm ne np a b hq (some (g, sc)) (fun g' sc' h => by cases h; exact hs g sc rec rfl)]
    congr 1
    funext x
    congr 2
    -- the two writes commute
    unfold writeRec
    cases hwa : wreg a with
    | none => rfl
    | some i =>
      cases hwb : wreg b with
      | none => rfl
      | some j =>
        simp only
        apply setRec_comm
        intro e
        rw [← e] at hwa
        refine hd ⟨.c, j⟩ ?_ ?_
        · exact List.mem_append_right _ (by simp [hwa])
        · exact List.mem_append_right _ (by simp [hwb])

/-- invariant -/
def OkRawC (n : Nat) (s : RawC) : Prop := ∀ g sc rec, s = some (g, sc, rec) → IsTab n g

theorem appRawC_ok (ne np : Nat) (a : SOp) {s : RawC} (hs : OkRawC (ne + np) s) : OkRawC (ne + np) (appRawC ne np a s) := by
  intro g' sc' rec' h
  cases s with
  | none => cases h
  | some st =>
    obtain ⟨g, sc, rec⟩ := st
    rw [appRawC_eq] at h
    cases hr : appRaw ne np a (some (g, sc)) with
    | none => rw [hr] at h; cases h
    | some x =>
      rw [hr] at h
      simp only [Option.map_some, Option.some.injEq, Prod.mk.injEq] at h
      have := appRaw_ok ne np a (s := some (g, sc)) (fun g0 sc0 h0 => by cases h0; exact hs g sc rec rfl) x.1 x.2 hr
      rw [← h.1]; exact this

/-- states with the classical record whose group is the stabilizer group of a valid tableau -/
def CSt (ne np : Nat) : Type := { s : RawC // OkRawC (ne + np) s }

noncomputable def appC (ne np : Nat) (a : SOp) (s : CSt ne np) : CSt ne np := ⟨appRawC ne np a s.1, appRawC_ok ne np a s.2⟩

theorem appC_comm (ne np : Nat) (a b : SOp) (hd : ∀ r, r ∈ regsC a → r ∉ regsC b) (s : CSt ne np) :
    appC ne np a (appC ne np b s) = appC ne np b (appC ne np a s) :=
  Subtype.ext (appRawC_comm ne np a b hd s.1 s.2)

theorem runSeq_appC_val (ne np : Nat) (l : List SOp) (s : CSt ne np) :
    (runSeq (appC ne np) l s).1 = runSeq (appRawC ne np) l s.1 := by
  induction l generalizing s with
  | nil => rfl
  | cons a l ih => exact ih (appC ne np a s)

noncomputable def CSt.init (ne np : Nat) (sc : Script) : CSt ne np :=
  ⟨some (gstate (Tab.ket0 (ne + np)), sc, fun _ => false), fun g sc' rec h => by
    simp only [Option.some.injEq, Prod.mk.injEq] at h
    rw [← h.1]; exact isTab_ket0 _⟩

/-- forgetting the record gives the semantics of `Proofs/CommuteSem` -/
theorem runSeq_appRawC_fst (ne np : Nat) (l : List SOp) (s : RawC) :
    (runSeq (appRawC ne np) l s).map (fun x => (x.1, x.2.1)) = runSeq (appRaw ne np) l (s.map fun x => (x.1, x.2.1)) := by
  induction l generalizing s with
  | nil => rfl
  | cons a l ih =>
    rw [Wire.runSeq_cons, Wire.runSeq_cons, ih]
    congr 1
    cases s with
    | none => rfl
    | some st =>
      obtain ⟨g, sc, rec⟩ := st
      rw [appRawC_eq]
      show _ = appRaw ne np a (some (g, sc))
      cases appRaw ne np a (some (g, sc)) <;> rfl

/-! ## the projections of a compile sequence on classical registers -/

/-- every operation lies on the classical wire of each classical register it has (what `add` builds) -/
def CThreaded (c : Circuit) : Prop := ∀ n op, c.node n = some op → ∀ i, i ∈ op.cr → n ∈ c.wire ⟨.c, i⟩

/-- measuring operations have exactly one classical register, all others none -/
def CArity (c : Circuit) : Prop :=
  c.NodesSat fun op => match op.kind with
    | .measZ | .ccnot | .ccz | .mcr => ∃ i, op.cr = [i]
    | _ => op.cr = []

theorem mem_regsC_quantum (a : SOp) (r : Reg) (hr : r.ty ≠ .c) : r ∈ regsC a ↔ r ∈ a.regs := by
  unfold regsC
  rw [List.mem_append]
  constructor
  · rintro (h | h)
    · exact h
    · simp only [List.mem_map] at h
      obtain ⟨i, _, rfl⟩ := h
      exact absurd rfl hr
  · exact Or.inl

/-- for an operation of a sane threaded circuit: it writes classical register `i` iff its node is on the wire of `c_i` -/
theorem mem_regsC_classical (c : Circuit) (hgood : c.Good) (hthr : CThreaded c) (hca : CArity c) (n : Nat) (op : Wire.Op)
    (hop : c.node n = some op) (a : SOp) (ha : a ∈ c.sopsOfNode n) (i : Nat) :
    (⟨.c, i⟩ : Reg) ∈ regsC a ↔ n ∈ c.wire ⟨.c, i⟩ := by
  have hregs := Wire.sops_regs hop ha
  have hnoc : (⟨.c, i⟩ : Reg) ∉ a.regs := by
    rw [hregs]; intro h
    exact (hgood.1.qvalid n op hop _ h).2 rfl
  have hcw := hgood.1.cwire n op hop i
  have hA := hca n op hop
  simp only at hA
  simp only [Circuit.sopsOfNode, hop, Wire.sopsOfOp, List.mem_map] at ha
  obtain ⟨it, hit, rfl⟩ := ha
  have key : (⟨.c, i⟩ : Reg) ∈ regsC ⟨it, op.q⟩ ↔ wreg ⟨it, op.q⟩ = some i := by
    unfold regsC
    rw [List.mem_append]
    constructor
    · rintro (h | h)
      · exact absurd h hnoc
      · simp only [List.mem_map, Option.mem_toList, Reg.mk.injEq, true_and] at h
        obtain ⟨j, hj, rfl⟩ := h
        exact hj
    · intro h
      exact Or.inr (by simp [h])
  rw [key]
  cases hk : op.kind with
  | wrapper gs =>
    rw [hk] at hA
    simp only [Wire.flatOp, hk, List.mem_map] at hit
    obtain ⟨g, _, rfl⟩ := hit
    constructor
    · intro h; simp [wreg] at h
    · intro h; have := hcw h; rw [hA] at this; cases this
  | base g0 =>
    rw [hk] at hA
    simp only [Wire.flatOp, hk, List.mem_map] at hit
    obtain ⟨g, _, rfl⟩ := hit
    constructor
    · intro h; simp [wreg] at h
    · intro h; have := hcw h; rw [hA] at this; cases this
  | cnot =>
    rw [hk] at hA
    simp only [Wire.flatOp, hk, List.mem_singleton] at hit
    subst hit
    constructor
    · intro h; simp [wreg] at h
    · intro h; have := hcw h; rw [hA] at this; cases this
  | cz =>
    rw [hk] at hA
    simp only [Wire.flatOp, hk, List.mem_singleton] at hit
    subst hit
    constructor
    · intro h; simp [wreg] at h
    · intro h; have := hcw h; rw [hA] at this; cases this
  | measZ =>
    rw [hk] at hA
    obtain ⟨j, hj⟩ := hA
    simp only [Wire.flatOp, hk, List.mem_singleton] at hit
    subst hit
    simp only [wreg, hj, List.headD_cons, Option.some.injEq]
    constructor
    · intro h; subst h; exact hthr n op hop j (by rw [hj]; simp)
    · intro h; have := hcw h; rw [hj] at this; exact (List.mem_singleton.mp this).symm
  | ccnot =>
    rw [hk] at hA
    obtain ⟨j, hj⟩ := hA
    simp only [Wire.flatOp, hk, List.mem_singleton] at hit
    subst hit
    simp only [wreg, hj, List.headD_cons, Option.some.injEq]
    constructor
    · intro h; subst h; exact hthr n op hop j (by rw [hj]; simp)
    · intro h; have := hcw h; rw [hj] at this; exact (List.mem_singleton.mp this).symm
  | ccz =>
    rw [hk] at hA
    obtain ⟨j, hj⟩ := hA
    simp only [Wire.flatOp, hk, List.mem_singleton] at hit
    subst hit
    simp only [wreg, hj, List.headD_cons, Option.some.injEq]
    constructor
    · intro h; subst h; exact hthr n op hop j (by rw [hj]; simp)
    · intro h; have := hcw h; rw [hj] at this; exact (List.mem_singleton.mp this).symm
  | mcr =>
    rw [hk] at hA
    obtain ⟨j, hj⟩ := hA
    simp only [Wire.flatOp, hk, List.mem_singleton] at hit
    subst hit
    simp only [wreg, hj, List.headD_cons, Option.some.injEq]
    constructor
    · intro h; subst h; exact hthr n op hop j (by rw [hj]; simp)
    · intro h; have := hcw h; rw [hj] at this; exact (List.mem_singleton.mp this).symm

/-- the operations of a compile sequence that write classical register `i`: those of the nodes on its wire, in wire order -/
theorem proj_regsC_classical (c : Circuit) (hgood : c.Good) (hthr : CThreaded c) (hca : CArity c) (seq : List Nat)
    (hlin : c.isLinearExtension seq = true) (i : Nat) :
    projReg regsC ⟨.c, i⟩ (c.sops seq) = (c.wire ⟨.c, i⟩).flatMap c.sopsOfNode := by
  simp only [Circuit.isLinearExtension, Bool.and_eq_true, List.all_eq_true, decide_eq_true_eq] at hlin
  obtain ⟨⟨⟨_, hsome⟩, _⟩, hwires⟩ := hlin
  have hrw : seq.filter (fun n => decide (n ∈ c.wire ⟨.c, i⟩)) = c.wire ⟨.c, i⟩ := by
    by_cases hv : c.validReg ⟨.c, i⟩ = true
    · exact hwires _ ((Wire.mem_regs_iff c _).mpr hv)
    · have : c.wire ⟨.c, i⟩ = [] := hgood.1.invalidEmpty _ (by simpa using hv)
      rw [this]; simp
  have hnode : ∀ n, n ∈ seq → (c.sopsOfNode n).filter (fun a => decide ((⟨.c, i⟩ : Reg) ∈ regsC a)) =
      if n ∈ c.wire ⟨.c, i⟩ then c.sopsOfNode n else [] := by
    intro n hn
    have := hsome n hn
    cases hop : c.node n with
    | none => rw [hop] at this; cases this
    | some op =>
      split
      · next hin =>
        rw [List.filter_eq_self]
        intro a ha
        simpa using (mem_regsC_classical c hgood hthr hca n op hop a ha i).mpr hin
      · next hin =>
        rw [List.filter_eq_nil_iff]
        intro a ha
        simpa using fun h => hin ((mem_regsC_classical c hgood hthr hca n op hop a ha i).mp h)
  unfold projReg Circuit.sops
  rw [Wire.filter_flatMap, Wire.flatMap_congr' hnode,
    Wire.flatMap_filter_eq (fun n => decide (n ∈ c.wire ⟨.c, i⟩)) _ seq
      (fun n _ hq => by simp only [decide_eq_false_iff_not] at hq; rw [if_neg hq]), hrw]
  exact Wire.flatMap_congr' (fun n hn => by rw [if_pos hn])

/-- **all per-register projections (classical registers included) of two compile sequences of a sane threaded circuit agree** -/
theorem proj_regsC_eq (c : Circuit) (hgood : c.Good) (hthr : CThreaded c) (hca : CArity c) (seq1 seq2 : List Nat)
    (hl1 : c.isLinearExtension seq1 = true) (hl2 : c.isLinearExtension seq2 = true) (r : Reg) :
    projReg regsC r (c.sops seq1) = projReg regsC r (c.sops seq2) := by
  by_cases hty : r.ty = .c
  · obtain ⟨ty, i⟩ := r
    simp only at hty
    subst hty
    rw [proj_regsC_classical c hgood hthr hca seq1 hl1 i, proj_regsC_classical c hgood hthr hca seq2 hl2 i]
  · have hconv : ∀ l : List SOp, projReg regsC r l = projReg SOp.regs r l := by
      intro l
      unfold projReg
      apply List.filter_congr
      intro a _
      simp only [decide_eq_decide]
      exact mem_regsC_quantum a r hty
    rw [hconv, hconv]
    by_cases hr : r ∈ c.qregs
    · rw [Wire.proj_sops c hgood.1 (Wire.good_arity1 hgood) seq1 hl1 r hr,
        Wire.proj_sops c hgood.1 (Wire.good_arity1 hgood) seq2 hl2 r hr]
    · have hnone : ∀ seq, projReg SOp.regs r (c.sops seq) = [] := by
        intro seq
        unfold projReg
        rw [List.filter_eq_nil_iff]
        intro x hx
        obtain ⟨n, op, hop, hxr⟩ := Wire.sops_mem hx
        rw [hxr]
        simp only [decide_eq_true_eq]
        intro hin
        exact hr ((Wire.mem_qregs c r).mpr (hgood.1.qvalid n op hop r hin))
      rw [hnone, hnone]

theorem regsC_ne_nil (c : Circuit) (hgood : c.Good) (seq : List Nat) : ∀ a, a ∈ c.sops seq → regsC a ≠ [] := by
  intro a ha
  obtain ⟨n, op, hop, hr⟩ := Wire.sops_mem ha
  unfold regsC
  rw [hr]
  intro h
  exact (Wire.good_qNonempty hgood) n op hop (List.append_eq_nil_iff.mp h).1

/-! ## the compile loop's classical writes refine the record -/

/-- the classical register a circuit operation writes (0 for operations that write none) -/
def cCreg : COp → Nat
  | .ccx _ _ c | .ccz _ _ c | .mcr _ _ c | .measz _ c => c
  | _ => 0

/-- register values after a list of writes (zeros overwritten in order) — pointwise form of `finalRecord` -/
def recOf (writes : List (Nat × Bool)) (c : Nat) : Bool :=
  ((writes.filter fun w => w.1 = c).getLast?.map (·.2)).getD false

theorem finalRecord_eq (nc : Nat) (writes : List (Nat × Bool)) : finalRecord nc writes = (List.range nc).map (recOf writes) := rfl

theorem recOf_append_one (w : List (Nat × Bool)) (i : Nat) (o : Bool) : recOf (w ++ [(i, o)]) = setRec (recOf w) i o := by
  funext c
  unfold recOf setRec
  rw [List.filter_append]
  by_cases h : c = i
  · subst h
    simp
  · have : ([(i, o)] : List (Nat × Bool)).filter (fun w => decide (w.1 = c)) = [] := by
      simp [Ne.symm h]
    rw [this, List.append_nil, if_neg h]

/-- one step of the compile loop appends the recorded outcomes to `outs` and writes them into the operation's register -/
theorem stepOp_writes (np n : Nat) (d : Det) (s s' : RunState) (op : COp) (h : stepOp np n d s op = some s') :
    ∃ new : List Bool, s'.outs = s.outs ++ new ∧ s'.writes = s.writes ++ new.map fun o => (cCreg op, o) := by
  cases op <;> simp only [stepOp] at h <;> split at h <;> (try cases h)
  · exact ⟨[], by simp, by simp⟩
  · exact ⟨[], by simp, by simp⟩
  · exact ⟨[], by simp, by simp⟩
  · exact ⟨[], by simp, by simp⟩
  · exact ⟨[(s.measure d _).2], rfl, rfl⟩
  · exact ⟨[(s.measure d _).2], rfl, rfl⟩
  · exact ⟨[(s.measure d _).2], rfl, rfl⟩
  · exact ⟨[(s.measure d _).2], rfl, rfl⟩
  · exact ⟨[], by simp, by simp⟩

theorem decode_wreg (ne np : Nat) (a : SOp) (d : Dec) (hdec : decode ne np a = some d) :
    (cMeasures (toCOp a) = false → wreg a = none) ∧ (cMeasures (toCOp a) = true → wreg a = some (cCreg (toCOp a))) := by
  have h := hdec
  unfold decode at h
  unfold toCOp wreg
  split at h
  · next g r hitem hregs =>
    rw [hitem, hregs]
    refine ⟨fun _ => rfl, fun hm => ?_⟩
    cases g <;> simp [g1COp, cMeasures] at hm
  · next _ cr r hitem hregs =>
    rw [hitem, hregs]
    exact ⟨fun hm => by simp [cMeasures] at hm, fun _ => rfl⟩
  · next k _ cr c t hitem hregs =>
    split at h
    · rw [hitem, hregs]
      cases k <;> simp only [pairPrims, reduceCtorEq] at h
      all_goals first
        | exact ⟨fun _ => rfl, fun hm => by simp [pairCOp, cMeasures] at hm⟩
        | exact ⟨fun hm => by simp [pairCOp, cMeasures] at hm, fun _ => rfl⟩
    · cases h
  · cases h

theorem feed_cons (ne np : Nat) (a : SOp) (l : List SOp) (new rest : List Bool) (sc : Script)
    (hlen : new.length = if ((decode ne np a).bind Dec.mreg).isSome then 1 else 0) :
    feed ne np (a :: l) (new ++ rest) sc = feed ne np [a] new (feed ne np l rest sc) := by
  unfold feed
  cases hm : (decode ne np a).bind Dec.mreg with
  | none =>
    rw [hm] at hlen
    have : new = [] := List.length_eq_zero_iff.mp (by simpa using hlen)
    subst this
    simp only [List.nil_append, feed]
  | some r =>
    rw [hm] at hlen
    obtain ⟨o, ho⟩ : ∃ o, new = [o] := List.length_eq_one_iff.mp (by simpa using hlen)
    subst ho
    simp only [List.singleton_append, List.tail_cons, List.headD_cons, feed]

/-- one operation, in the form needed for the record -/
theorem sop_step (ne np : Nat) (d : Det) (a : SOp) (hdec : (decode ne np a).isSome = true) (hnd : a.regs.Nodup)
    (s s' : RunState) (ht : TInv (ne + np) s.t) (hs : stepOp np (ne + np) d s (toCOp a) = some s') :
    TInv (ne + np) s'.t ∧ ∃ new : List Bool, s'.outs = s.outs ++ new ∧
      new.length = (if ((decode ne np a).bind Dec.mreg).isSome then 1 else 0) ∧
      (new.length = if cMeasures (toCOp a) then 1 else 0) ∧
      ∀ X, appRaw ne np a (some (gstate s.t, feed ne np [a] new X)) = some (gstate s'.t, X) ∧
        outOf ne np a (feed ne np [a] new X) = new.headD false := by
  obtain ⟨dd, hdd⟩ := Option.isSome_iff_exists.mp hdec
  obtain ⟨hwf, hpr, hms⟩ := decode_toCOp ne np a dd hdd hnd
  obtain ⟨ht', new, hnew, hlen, hrun⟩ := cop_refines np (ne + np) d s s' (toCOp a) hwf ht hs
  have hbind : ((decode ne np a).bind Dec.mreg) = dd.mreg := by rw [hdd]; rfl
  refine ⟨ht', new, hnew, by rw [hbind, hms]; exact hlen, hlen, fun X => ?_⟩
  have e0 := appRaw_map ne np a dd hdd (some (gstate s.t))
  simp only [Option.map_some] at e0
  rw [e0]
  unfold outOf
  rw [hdd]
  simp only
  cases hm : dd.mreg with
  | none =>
    have hmf : cMeasures (toCOp a) = false := by rw [← hms, hm]; rfl
    rw [hmf] at hlen
    have hnil : new = [] := List.length_eq_zero_iff.mp (by simpa using hlen)
    subst hnil
    have hfeed : feed ne np [a] [] X = X := by simp only [feed, hdd, Option.bind_some, hm]
    have hout : dd.out X = false := by simp [Dec.out, hm]
    have hhas : dd.has X := by simp [Dec.has, hm]
    simp only [List.headD_nil] at hrun ⊢
    rw [hfeed, if_pos hhas, hout, hpr, hrun]
    simp only [Option.map_some, Dec.pop, hm, and_self]
  | some r =>
    have hmt : cMeasures (toCOp a) = true := by rw [← hms, hm]; rfl
    rw [hmt] at hlen
    obtain ⟨o, ho⟩ : ∃ o, new = [o] := List.length_eq_one_iff.mp (by simpa using hlen)
    subst ho
    have hfeed : feed ne np [a] [o] X = pushOut X r o := by
      simp only [feed, hdd, Option.bind_some, hm, List.headD_cons]
    have hout : dd.out (pushOut X r o) = o := by simp [Dec.out, hm, pushOut]
    have hhas : dd.has (pushOut X r o) := by simp [Dec.has, hm, pushOut]
    simp only [List.headD_cons] at hrun ⊢
    rw [hfeed, if_pos hhas, hout, hpr, hrun]
    simp only [Option.map_some, Dec.pop, hm, popReg_pushOut, and_self]

/-- **a whole run with the classical record**: the group semantics with record, run on the outcome streams made of the
    recorded outcomes from the register values `recOf s.writes`, ends in the stabilizer group of the final tableau and the
    register values `recOf s'.writes` of the compile loop -/
theorem run_refines_record (ne np : Nat) (d : Det) (l : List SOp)
    (hok : ∀ a, a ∈ l → (decode ne np a).isSome = true ∧ a.regs.Nodup) (s s' : RunState) (ht : TInv (ne + np) s.t)
    (hs : (l.map toCOp).foldlM (stepOp np (ne + np) d) s = some s') :
    ∃ new : List Bool, s'.outs = s.outs ++ new ∧
      ∀ sc, runSeq (appRawC ne np) l (some (gstate s.t, feed ne np l new sc, recOf s.writes)) =
        some (gstate s'.t, sc, recOf s'.writes) := by
  induction l generalizing s with
  | nil =>
    simp only [List.map_nil, List.foldlM, Option.pure_def, Option.some.injEq] at hs
    subst hs
    exact ⟨[], by simp, fun sc => rfl⟩
  | cons a l ih =>
    simp only [List.map_cons, List.foldlM] at hs
    cases h1 : stepOp np (ne + np) d s (toCOp a) with
    | none => rw [h1] at hs; simp at hs
    | some s1 =>
      rw [h1] at hs
      simp only [Option.bind_eq_bind, Option.bind_some] at hs
      obtain ⟨hd1, hd2⟩ := hok a List.mem_cons_self
      obtain ⟨dd, hdd⟩ := Option.isSome_iff_exists.mp hd1
      obtain ⟨ht1, new1, hn1, hlen1, hlen1', hstep⟩ := sop_step ne np d a hd1 hd2 s s1 ht h1
      obtain ⟨new1', hn1', hw1⟩ := stepOp_writes np (ne + np) d s s1 (toCOp a) h1
      have hnn : new1' = new1 := List.append_cancel_left (hn1'.symm.trans hn1)
      subst hnn
      obtain ⟨new2, hn2, hr2⟩ := ih (fun b hb => hok b (List.mem_cons_of_mem _ hb)) s1 ht1 hs
      refine ⟨new1' ++ new2, by rw [hn2, hn1, List.append_assoc], fun sc => ?_⟩
      rw [Wire.runSeq_cons, feed_cons ne np a l new1' new2 sc hlen1, appRawC_eq, (hstep _).1, (hstep _).2]
      simp only [Option.map_some]
      have hrec : writeRec a (new1'.headD false) (recOf s.writes) = recOf s1.writes := by
        obtain ⟨hw0, hw1'⟩ := decode_wreg ne np a dd hdd
        cases hm : cMeasures (toCOp a) with
        | false =>
          rw [hm] at hlen1'
          have : new1' = [] := List.length_eq_zero_iff.mp (by simpa using hlen1')
          subst this
          simp only [List.map_nil, List.append_nil] at hw1
          unfold writeRec
          rw [hw0 hm, hw1]
        | true =>
          rw [hm] at hlen1'
          obtain ⟨o, ho⟩ : ∃ o, new1' = [o] := List.length_eq_one_iff.mp (by simpa using hlen1')
          subst ho
          unfold writeRec
          rw [hw1' hm, hw1]
          simp only [List.headD_cons, List.map_cons, List.map_nil]
          exact (recOf_append_one _ _ _).symm
      rw [hrec]
      exact hr2 sc

theorem recOf_nil : recOf [] = fun _ => false := by
  funext c; simp [recOf]

/-- the compile loop on a sane circuit from `|0…0⟩` and zeroed registers refines the semantics with record -/
theorem stabRun_refines_record (c : Circuit) (hgood : c.Good) (har : ArityOk c) (seq : List Nat) (d : Det)
    (script : List Bool) (s' : RunState) (h : stabRun c.ne c.np d script ((c.sops seq).map toCOp) = some s') :
    ∀ sc, runSeq (appRawC c.ne c.np) (c.sops seq)
        (some (gstate (Tab.ket0 (c.ne + c.np)), feed c.ne c.np (c.sops seq) s'.outs sc, fun _ => false)) =
      some (gstate s'.t, sc, recOf s'.writes) := by
  obtain ⟨new, hnew, hrun⟩ := run_refines_record c.ne c.np d (c.sops seq) (sops_ok c hgood har seq)
    { t := Tab.ket0 (c.ne + c.np), writes := [], script := script, rand := [], outs := [] } s' (tinv_ket0 _) h
  simp only [List.nil_append] at hnew
  rw [hnew]
  intro sc
  have := hrun sc
  rw [recOf_nil] at this
  exact this

/-! ### boolean checkers for concrete circuits -/

def cThreadedB (c : Circuit) : Bool :=
  c.nodeIds.all fun n => match c.node n with
    | some op => op.cr.all fun i => decide (n ∈ c.wire ⟨.c, i⟩)
    | none => true

def cArityB (c : Circuit) : Bool :=
  c.nodeIds.all fun n => match c.node n with
    | some op => (match op.kind with
      | .measZ | .ccnot | .ccz | .mcr => op.cr.length == 1
      | _ => op.cr.isEmpty)
    | none => true

theorem mem_nodeIds (c : Circuit) (hwf : c.WF) (n : Nat) (op : Wire.Op) (h : c.node n = some op) : n ∈ c.nodeIds := by
  unfold Circuit.nodeIds
  rw [List.mem_filter]
  have := (hwf.bound n op h).2
  exact ⟨List.mem_range.mpr (by omega), by rw [h]; rfl⟩

theorem cThreaded_of_check (c : Circuit) (hwf : c.WF) (h : cThreadedB c = true) : CThreaded c := by
  intro n op hop i hi
  unfold cThreadedB at h
  rw [List.all_eq_true] at h
  have := h n (mem_nodeIds c hwf n op hop)
  rw [hop] at this
  simp only [List.all_eq_true, decide_eq_true_eq] at this
  exact this i hi

theorem cArity_of_check (c : Circuit) (hwf : c.WF) (h : cArityB c = true) : CArity c := by
  intro n op hop
  unfold cArityB at h
  rw [List.all_eq_true] at h
  have := h n (mem_nodeIds c hwf n op hop)
  rw [hop] at this
  simp only at this
  show match op.kind with
    | .measZ | .ccnot | .ccz | .mcr => ∃ i, op.cr = [i]
    | _ => op.cr = []
  cases hk : op.kind <;> rw [hk] at this <;> simp only [beq_iff_eq, List.isEmpty_iff] at this
  all_goals first
    | exact this
    | exact List.length_eq_one_iff.mp this

end Graphiq.Commute
