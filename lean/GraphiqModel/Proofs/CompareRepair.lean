/-
  Proofs/CompareRepair.lean — soundness of the *repaired* `circuit_is_isomorphic` (handoff/repairs/d22), graph level.

  A circuit DAG is a family of register paths: for every register `w` the edges with key `w` are the consecutive pairs
  of `inp w :: body w ++ [out w]`, and after the repaired `add_control_target_to_dag` every edge carries the pair
  (role of its register at its tail, role at its head).  `Rep g W body` says exactly that about a multigraph `g`.

  Main theorem (`iso2_wires`): a node bijection that passes the repaired check between two such graphs maps the path of
  every register of the first graph onto the path of one register of the second (of the same type), node by node, with
  matching operations and equal roles.  The induction runs along the path: the edge leaving the image of a node with
  tail role `r` is the one on which the register with role `r` leaves — different registers of one operation never share
  a role (`role_inj`).  This is the step the coded matcher cannot make (`Properties/C15.iso_sound_refuted`).
-/
import GraphiqModel.Proofs.Compare
namespace Graphiq.Compare
open Graphiq Graphiq.Export

/-! ## what a successful repaired check says -/

structure IsoFacts2 (g1 g2 : MG) (φ : Nd → Nd) : Prop where
  len : (g1.nodes.map (·.1)).length = (g2.nodes.map (·.1)).length
  nodup : ((g1.nodes.map (·.1)).map φ).Nodup
  into : ∀ n ∈ g1.nodes.map (·.1), φ n ∈ g2.nodes.map (·.1)
  nodes : ∀ n ∈ g1.nodes.map (·.1), ∃ a b, g1.opOf n = some a ∧ g2.opOf (φ n) = some b ∧ nodeMatch a b = true
  edges : ∀ u ∈ g1.nodes.map (·.1), ∀ v ∈ g1.nodes.map (·.1),
    (g1.edgesBetween u v).length = (g2.edgesBetween (φ u) (φ v)).length ∧
    edgeMatch2 (g1.edgesBetween u v) (g2.edgesBetween (φ u) (φ v)) = true

theorem isoCheck2_facts (g1 g2 : MG) (f : List (Nd × Nd)) (h : isoCheck2 g1 g2 f = true) :
    (∀ n ∈ g1.nodes.map (·.1), applyMap f n = some (mapFn f n)) ∧ IsoFacts2 g1 g2 (mapFn f) := by
  unfold isoCheck2 at h
  simp only [Bool.and_eq_true, List.all_eq_true, beq_iff_eq] at h
  obtain ⟨⟨⟨⟨⟨hlen, hsome⟩, hnd⟩, hinto⟩, hnodes⟩, hedges⟩ := h
  have happ : ∀ n ∈ g1.nodes.map (·.1), applyMap f n = some (mapFn f n) := by
    intro n hn
    have := hsome (applyMap f n) (List.mem_map_of_mem hn)
    unfold mapFn
    cases hm : applyMap f n with
    | none => rw [hm] at this; cases this
    | some m => rfl
  have himg : ((g1.nodes.map (·.1)).map (applyMap f)).filterMap id = (g1.nodes.map (·.1)).map (mapFn f) := by
    rw [List.filterMap_map]
    generalize g1.nodes.map (·.1) = ns at happ
    induction ns with
    | nil => rfl
    | cons n rest ih =>
      have ih' := ih (fun x hx => happ x (by simp [hx]))
      simp only [List.filterMap_cons, Function.comp, id, happ n (by simp), List.map_cons]
      exact congrArg _ ih'
  rw [himg] at hnd hinto
  refine ⟨happ, ⟨hlen, (nodupNd_iff _).1 hnd, ?_, ?_, ?_⟩⟩
  · intro n hn
    have := hinto (mapFn f n) (List.mem_map_of_mem hn)
    simpa using this
  · intro n hn
    have := hnodes n hn
    rw [happ n hn] at this
    cases ha : g1.opOf n with
    | none => simp [ha] at this
    | some a =>
      cases hb : g2.opOf (mapFn f n) with
      | none => simp [ha, hb] at this
      | some b => simp only [ha, hb] at this; exact ⟨a, b, rfl, rfl, this⟩
  · intro u hu v hv
    have := hedges u hu v hv
    rw [happ u hu, happ v hv] at this
    simpa using this

/-- whatever the search does, a positive answer of the repaired comparison exhibits a map that passes the full check -/
theorem isoGraphs2_witness (g1 g2 : MG) (h : isoGraphs2 g1 g2 = true) :
    ∃ f, isoCheck2 g1.addControlTarget2 g2.addControlTarget2 f = true := by
  unfold isoGraphs2 at h
  simp only [Bool.and_eq_true, List.any_eq_true] at h
  obtain ⟨_, f, _, hf⟩ := h
  exact ⟨f, hf⟩

/-- equal multisets of attributes: every attribute of the first bundle of parallel edges occurs in the second -/
theorem edgeMatch2_mem (es1 es2 : List Edge) (h : edgeMatch2 es1 es2 = true) (e : Edge) (he : e ∈ es1) :
    ∃ e' ∈ es2, e'.ct2 = e.ct2 := by
  unfold edgeMatch2 at h
  simp only [List.all_eq_true, beq_iff_eq] at h
  have hm : e.ct2 ∈ es1.map (·.ct2) := List.mem_map_of_mem he
  have h1 := h e.ct2 (List.mem_append_left _ hm)
  have h2 : 0 < (es2.map (·.ct2)).count e.ct2 := by
    rw [← h1]; exact List.count_pos_iff.2 hm
  obtain ⟨e', he', hc⟩ := List.mem_map.1 (List.count_pos_iff.1 h2)
  exact ⟨e', he', hc⟩

theorem mem_edgesBetween (g : MG) (u v : Nd) (e : Edge) : e ∈ g.edgesBetween u v ↔ e ∈ g.edges ∧ e.src = u ∧ e.dst = v := by
  unfold MG.edgesBetween
  simp [List.mem_filter]

theorem opOf_some_mem (g : MG) (n : Nd) (o : NOp) (h : g.opOf n = some o) : n ∈ g.nodes.map (·.1) := by
  unfold MG.opOf at h
  cases hf : g.nodes.find? (fun p => p.1 == n) with
  | none => rw [hf] at h; cases h
  | some p =>
    have hp := List.find?_some hf
    have hm := List.mem_of_find?_eq_some hf
    simp only [beq_iff_eq] at hp
    rw [← hp]
    exact List.mem_map_of_mem hm

/-! ## roles -/

/-- **different registers of one operation never have the same role** -/
theorem role_inj (o : Op) (hn : (opWires o).Nodup) (w w' : Wire) (hw : w ∈ opWires o) (hw' : w' ∈ opWires o)
    (h : role (some (.gate o)) w = role (some (.gate o)) w') : w = w' := by
  cases o with
  | one g q => simp [opWires, Op.qRegs, Op.cRegs] at hw hw'; rw [hw, hw']
  | wrap gs q => simp [opWires, Op.qRegs, Op.cRegs] at hw hw'; rw [hw, hw']
  | ctrl g c t =>
    simp only [opWires, Op.qRegs, Op.cRegs, List.map_cons, List.map_nil, List.append_nil, List.mem_cons,
      List.not_mem_nil, or_false] at hw hw'
    simp only [opWires, Op.qRegs, Op.cRegs, List.map_cons, List.map_nil, List.append_nil, List.nodup_cons,
      List.mem_cons, List.not_mem_nil, or_false, List.nodup_nil, and_true, not_false_eq_true] at hn
    have rc : role (some (.gate (.ctrl g c t))) (Wire.ofQ c) = some 'c' := by simp [role]
    have rt : role (some (.gate (.ctrl g c t))) (Wire.ofQ t) = some 't' := by simp [role, hn]
    rcases hw with rfl | rfl <;> rcases hw' with rfl | rfl
    · rfl
    · rw [rc, rt] at h; exact absurd h (by decide)
    · rw [rc, rt] at h; exact absurd h (by decide)
    · rfl
  | cctrl g c t m =>
    have hc : Wire.ofQ c ≠ ⟨.c, m⟩ := by cases c with | mk ct ci => cases ct <;> simp [Wire.ofQ, RT.ofRegT]
    have ht : Wire.ofQ t ≠ ⟨.c, m⟩ := by cases t with | mk ct ci => cases ct <;> simp [Wire.ofQ, RT.ofRegT]
    simp only [opWires, Op.qRegs, Op.cRegs, List.map_cons, List.map_nil, List.cons_append, List.nil_append, List.mem_cons,
      List.not_mem_nil, or_false] at hw hw'
    simp only [opWires, Op.qRegs, Op.cRegs, List.map_cons, List.map_nil, List.cons_append, List.nil_append, List.nodup_cons,
      List.mem_cons, List.not_mem_nil, or_false, List.nodup_nil, and_true, not_false_eq_true, not_or] at hn
    have hct : Wire.ofQ c ≠ Wire.ofQ t := hn.1.1
    have rc : role (some (.gate (.cctrl g c t m))) (Wire.ofQ c) = some 'c' := by simp [role]
    have rt : role (some (.gate (.cctrl g c t m))) (Wire.ofQ t) = some 't' := by simp [role, hct]
    have rm : role (some (.gate (.cctrl g c t m))) ⟨.c, m⟩ = some 'm' := by simp [role, hc, ht]
    rcases hw with rfl | rfl | rfl <;> rcases hw' with rfl | rfl | rfl
    · rfl
    · rw [rc, rt] at h; exact absurd h (by decide)
    · rw [rc, rm] at h; exact absurd h (by decide)
    · rw [rc, rt] at h; exact absurd h (by decide)
    · rfl
    · rw [rt, rm] at h; exact absurd h (by decide)
    · rw [rc, rm] at h; exact absurd h (by decide)
    · rw [rt, rm] at h; exact absurd h (by decide)
    · rfl
  | meas q m =>
    have hq : Wire.ofQ q ≠ ⟨.c, m⟩ := by cases q with | mk ct ci => cases ct <;> simp [Wire.ofQ, RT.ofRegT]
    simp only [opWires, Op.qRegs, Op.cRegs, List.map_cons, List.map_nil, List.cons_append, List.nil_append, List.mem_cons,
      List.not_mem_nil, or_false] at hw hw'
    have rq : role (some (.gate (.meas q m))) (Wire.ofQ q) = none := by simp [role, hq]
    have rm : role (some (.gate (.meas q m))) ⟨.c, m⟩ = some 'm' := by simp [role]
    rcases hw with rfl | rfl <;> rcases hw' with rfl | rfl
    · rfl
    · rw [rq, rm] at h; exact absurd h (by decide)
    · rw [rq, rm] at h; exact absurd h (by decide)
    · rfl

/-! ## register paths -/

/-- `v` follows `u` immediately in `l` -/
def Adj (l : List Nd) (u v : Nd) : Prop := ∃ l1 l2, l = l1 ++ u :: v :: l2

theorem adj_next (l : List Nd) (hn : l.Nodup) (p r : List Nd) (a b : Nd) (hl : l = p ++ a :: r) (h : Adj l a b) :
    ∃ r', r = b :: r' := by
  obtain ⟨l1, l2, h12⟩ := h
  subst hl
  induction p generalizing l1 with
  | nil =>
    cases l1 with
    | nil => simp only [List.nil_append, List.cons.injEq, true_and] at h12; exact ⟨l2, h12⟩
    | cons x l1' =>
      exfalso
      simp only [List.nil_append, List.cons_append, List.cons.injEq] at h12
      obtain ⟨rfl, hr⟩ := h12
      have : a ∈ r := by rw [hr]; simp
      exact (List.nodup_cons.1 hn).1 this
  | cons y p' ih =>
    cases l1 with
    | nil =>
      exfalso
      simp only [List.nil_append, List.cons_append, List.cons.injEq] at h12
      obtain ⟨rfl, _⟩ := h12
      exact (List.nodup_cons.1 hn).1 (by simp)
    | cons x l1' =>
      simp only [List.cons_append, List.cons.injEq] at h12
      exact ih l1' (List.nodup_cons.1 hn).2 h12.2

theorem adj_mem_left {l : List Nd} {u v : Nd} (h : Adj l u v) : u ∈ l := by
  obtain ⟨l1, l2, rfl⟩ := h; simp

theorem adj_mem_right {l : List Nd} {u v : Nd} (h : Adj l u v) : v ∈ l := by
  obtain ⟨l1, l2, rfl⟩ := h; simp

/-- the path of register `w`: its input node, the operation nodes in order, its output node -/
def pathOf (body : Wire → List Nd) (w : Wire) : List Nd := Nd.inp w :: (body w ++ [Nd.out w])

theorem mem_pathOf (body : Wire → List Nd) (w : Wire) (n : Nd) :
    n ∈ pathOf body w ↔ n = .inp w ∨ n ∈ body w ∨ n = .out w := by
  simp [pathOf]

/-- **the graph is a family of register paths** (edge attributes not yet considered) -/
structure Rep0 (g : MG) (W : List Wire) (body : Wire → List Nd) : Prop where
  pathNodup : ∀ w ∈ W, (pathOf body w).Nodup
  bodyOp : ∀ w ∈ W, ∀ n ∈ body w, ∃ id o, n = .op id ∧ g.opOf n = some (.gate o) ∧ w ∈ opWires o
  inpOp : ∀ w ∈ W, g.opOf (.inp w) = some (.input w)
  outOp : ∀ w ∈ W, g.opOf (.out w) = some (.output w)
  kindIn : ∀ n w, g.opOf n = some (.input w) → n = .inp w ∧ w ∈ W
  kindOut : ∀ n w, g.opOf n = some (.output w) → n = .out w ∧ w ∈ W
  wiresNodup : ∀ n o, g.opOf n = some (.gate o) → (opWires o).Nodup
  edge_sound0 : ∀ e ∈ g.edges, e.key ∈ W ∧ Adj (pathOf body e.key) e.src e.dst
  edge_complete : ∀ w ∈ W, ∀ u v, Adj (pathOf body w) u v → ∃ e ∈ g.edges, e.src = u ∧ e.dst = v ∧ e.key = w
  inputsW : ∀ w, Nd.inp w ∈ g.nodes.map (·.1) → w ∈ W

/-- **… and every edge carries the repaired attribute**: the pair (role of its register at its tail, role at its head) -/
structure Rep (g : MG) (W : List Wire) (body : Wire → List Nd) : Prop extends Rep0 g W body where
  lab : ∀ e ∈ g.edges, e.ct2 = (role (g.opOf e.src) e.key, role (g.opOf e.dst) e.key)

namespace Rep0
variable {g : MG} {W : List Wire} {body : Wire → List Nd}

theorem path_mem_nodes (r : Rep0 g W body) (w : Wire) (hw : w ∈ W) (n : Nd) (hn : n ∈ pathOf body w) :
    n ∈ g.nodes.map (·.1) := by
  rcases (mem_pathOf body w n).1 hn with rfl | h | rfl
  · exact opOf_some_mem g _ _ (r.inpOp w hw)
  · obtain ⟨id, o, _, ho, _⟩ := r.bodyOp w hw n h
    exact opOf_some_mem g _ _ ho
  · exact opOf_some_mem g _ _ (r.outOp w hw)

/-- a node carrying a gate that lies on the path of `w` is in the body of `w`, and `w` is a register of the gate -/
theorem gate_on_path (r : Rep0 g W body) (w : Wire) (hw : w ∈ W) (n : Nd) (o : Op) (ho : g.opOf n = some (.gate o))
    (hn : n ∈ pathOf body w) : n ∈ body w ∧ w ∈ opWires o := by
  rcases (mem_pathOf body w n).1 hn with rfl | h | rfl
  · rw [r.inpOp w hw] at ho; cases ho
  · obtain ⟨id, o', _, ho', hw'⟩ := r.bodyOp w hw n h
    rw [ho] at ho'
    injection ho' with ho'
    injection ho' with ho'
    subst ho'
    exact ⟨h, hw'⟩
  · rw [r.outOp w hw] at ho; cases ho

theorem inp_on_path (r : Rep0 g W body) (w x : Wire) (hw : w ∈ W) (hn : Nd.inp x ∈ pathOf body w) : x = w := by
  rcases (mem_pathOf body w _).1 hn with h | h | h
  · injection h
  · obtain ⟨id, o, he, _⟩ := r.bodyOp w hw _ h; cases he
  · cases h

theorem out_on_path (r : Rep0 g W body) (w x : Wire) (hw : w ∈ W) (hn : Nd.out x ∈ pathOf body w) : x = w := by
  rcases (mem_pathOf body w _).1 hn with h | h | h
  · cases h
  · obtain ⟨id, o, he, _⟩ := r.bodyOp w hw _ h; cases he
  · injection h

end Rep0

namespace Rep
variable {g : MG} {W : List Wire} {body : Wire → List Nd}

theorem edge_sound (r : Rep g W body) (e : Edge) (he : e ∈ g.edges) : e.key ∈ W ∧ Adj (pathOf body e.key) e.src e.dst ∧
    e.ct2 = (role (g.opOf e.src) e.key, role (g.opOf e.dst) e.key) :=
  ⟨(r.edge_sound0 e he).1, (r.edge_sound0 e he).2, r.lab e he⟩

end Rep

/-! ## node facts -/

theorem nodeMatch_input (w : Wire) (b : NOp) (h : nodeMatch (.input w) b = true) : ∃ w2, b = .input w2 ∧ w2.t = w.t := by
  cases b with
  | input w2 =>
    refine ⟨w2, rfl, ?_⟩
    cases w with | mk t1 i1 => cases w2 with | mk t2 i2 => cases t1 <;> cases t2 <;> simp [nodeMatch] at h ⊢
  | output _ => simp [nodeMatch] at h
  | gate _ => simp [nodeMatch] at h

theorem nodeMatch_output (w : Wire) (b : NOp) (h : nodeMatch (.output w) b = true) : ∃ w2, b = .output w2 ∧ w2.t = w.t := by
  cases b with
  | output w2 =>
    refine ⟨w2, rfl, ?_⟩
    cases w with | mk t1 i1 => cases w2 with | mk t2 i2 => cases t1 <;> cases t2 <;> simp [nodeMatch] at h ⊢
  | input _ => simp [nodeMatch] at h
  | gate _ => simp [nodeMatch] at h

theorem nodeMatch_gate (o : Op) (b : NOp) (h : nodeMatch (.gate o) b = true) : ∃ o2, b = .gate o2 := by
  cases b with
  | gate o2 => exact ⟨o2, rfl⟩
  | input _ => simp [nodeMatch] at h
  | output _ => simp [nodeMatch] at h

/-! ## the main induction: an isomorphism follows every register -/

/-- what makes the edge leaving the image of `u` the one of register `w2`: `u` is the input node of `w` and goes to the
    input node of `w2`, or `u` is an operation node and `w2` plays at its image the role `w` plays at `u` -/
def KeyDet (g1 g2 : MG) (φ : Nd → Nd) (w w2 : Wire) (u : Nd) : Prop :=
  (u = .inp w ∧ φ u = .inp w2) ∨ ((∃ id, u = .op id) ∧ role (g2.opOf (φ u)) w2 = role (g1.opOf u) w)

theorem iso2_follow (g1 g2 : MG) (W1 W2 : List Wire) (B1 B2 : Wire → List Nd) (r1 : Rep g1 W1 B1) (r2 : Rep g2 W2 B2)
    (φ : Nd → Nd) (hf : IsoFacts2 g1 g2 φ) (w w2 : Wire) (hw : w ∈ W1) (hw2 : w2 ∈ W2) :
    ∀ (rest pre : List Nd) (u : Nd) (pre2 rest2 : List Nd),
      pathOf B1 w = pre ++ u :: rest → pathOf B2 w2 = pre2 ++ φ u :: rest2 →
      (rest ≠ [] → KeyDet g1 g2 φ w w2 u) →
      rest2 = rest.map φ ∧ ∀ n ∈ rest, role (g2.opOf (φ n)) w2 = role (g1.opOf n) w := by
  intro rest
  induction rest with
  | nil =>
    intro pre u pre2 rest2 h1 h2 _
    refine ⟨?_, by simp⟩
    -- `u` is the output node of `w`; its image is an output node on the path of `w2`, hence the last node
    have hu : u = .out w := by
      have : (pathOf B1 w).getLast? = some u := by rw [h1]; simp
      unfold pathOf at this
      rw [← List.cons_append, List.getLast?_append] at this
      simp at this
      exact this.symm
    subst hu
    obtain ⟨a, b, ha, hb, hab⟩ := hf.nodes _ (opOf_some_mem g1 _ _ (r1.outOp w hw))
    rw [r1.outOp w hw] at ha
    injection ha with ha
    subst ha
    obtain ⟨x, rfl, _⟩ := nodeMatch_output w b hab
    obtain ⟨hφ, hx⟩ := r2.kindOut _ _ hb
    have hmem : φ (.out w) ∈ pathOf B2 w2 := by rw [h2]; simp
    rw [hφ] at hmem h2
    have hxw := r2.toRep0.out_on_path w2 x hw2 hmem
    subst hxw
    -- `out x` is the last element of a duplicate-free list, so nothing follows it
    cases rest2 with
    | nil => rfl
    | cons y ys =>
      exfalso
      have hnd := r2.pathNodup x hw2
      have hlast : (pathOf B2 x).getLast? = some (Nd.out x) := by
        unfold pathOf
        rw [← List.cons_append, List.getLast?_append]
        simp
      rw [h2] at hnd hlast
      have : (y :: ys).getLast? = some (Nd.out x) := by
        rw [List.getLast?_append, List.getLast?_cons_cons] at hlast
        cases hl : (y :: ys).getLast? with
        | none => simp at hl
        | some z => rw [hl] at hlast; simpa using hlast
      have hin : Nd.out x ∈ y :: ys := List.mem_of_getLast? this
      have hnd2 := (List.nodup_append.1 hnd).2.1
      exact (List.nodup_cons.1 hnd2).1 hin
  | cons v rest' ih =>
    intro pre u pre2 rest2 h1 h2 hkd
    have hadj : Adj (pathOf B1 w) u v := ⟨pre, rest', h1⟩
    have hkd := hkd (by simp)
    have hu1 : u ∈ pathOf B1 w := adj_mem_left hadj
    have hv1 : v ∈ pathOf B1 w := adj_mem_right hadj
    -- the edge of `g1` and its twin in `g2`
    obtain ⟨e, he, hes, hed, hek⟩ := r1.edge_complete w hw u v hadj
    obtain ⟨_, _, hlab⟩ := r1.edge_sound e he
    have hmatch := (hf.edges u (r1.toRep0.path_mem_nodes w hw u hu1) v (r1.toRep0.path_mem_nodes w hw v hv1)).2
    obtain ⟨e', he', hct⟩ := edgeMatch2_mem _ _ hmatch e ((mem_edgesBetween g1 u v e).2 ⟨he, hes, hed⟩)
    obtain ⟨he'm, hes', hed'⟩ := (mem_edgesBetween g2 _ _ e').1 he'
    obtain ⟨hk'W, hadj', hlab'⟩ := r2.edge_sound e' he'm
    rw [hes', hed'] at hadj' hlab'
    rw [hes, hed, hek] at hlab
    -- the twin lies on the path of `w2`
    have hkey : e'.key = w2 := by
      rcases hkd with ⟨hui, hφi⟩ | ⟨⟨id, hid⟩, hrole⟩
      · have := adj_mem_left hadj'
        rw [hφi] at this
        exact (r2.toRep0.inp_on_path e'.key w2 hk'W this).symm
      · -- `u` is an operation node; so is its image, and the two registers have the same role there
        have hub : u ∈ B1 w := by
          rcases (mem_pathOf B1 w u).1 hu1 with h | h | h
          · rw [hid] at h; cases h
          · exact h
          · rw [hid] at h; cases h
        obtain ⟨id', o1, _, ho1, _⟩ := r1.bodyOp w hw u hub
        obtain ⟨a, b, ha, hb, hab⟩ := hf.nodes u (r1.toRep0.path_mem_nodes w hw u hu1)
        rw [ho1] at ha
        injection ha with ha
        subst ha
        obtain ⟨o2, rfl⟩ := nodeMatch_gate o1 b hab
        have hφu2 : φ u ∈ pathOf B2 w2 := by rw [h2]; simp
        have hin2 := (r2.toRep0.gate_on_path w2 hw2 (φ u) o2 hb hφu2).2
        have hin' := (r2.toRep0.gate_on_path e'.key hk'W (φ u) o2 hb (adj_mem_left hadj')).2
        have e1 : role (g2.opOf (φ u)) e'.key = role (g1.opOf u) w := by
          rw [hlab'] at hct
          have h3 := congrArg Prod.fst hct
          simp only at h3
          rw [h3]
          exact congrArg Prod.fst hlab
        rw [← hrole, hb] at e1
        exact role_inj o2 (r2.wiresNodup _ _ hb) _ _ hin' hin2 e1
    rw [hkey] at hadj' hlab'
    obtain ⟨rest2', hr2⟩ := adj_next (pathOf B2 w2) (r2.pathNodup w2 hw2) pre2 rest2 (φ u) (φ v) h2 hadj'
    subst hr2
    -- the head roles agree
    have hrv : role (g2.opOf (φ v)) w2 = role (g1.opOf v) w := by
      rw [hlab'] at hct
      have h3 := congrArg Prod.snd hct
      simp only at h3
      rw [h3]
      exact congrArg Prod.snd hlab
    have h1' : pathOf B1 w = (pre ++ [u]) ++ v :: rest' := by rw [h1]; simp
    have h2' : pathOf B2 w2 = (pre2 ++ [φ u]) ++ φ v :: rest2' := by rw [h2]; simp
    have hkd' : rest' ≠ [] → KeyDet g1 g2 φ w w2 v := by
      intro hne
      right
      refine ⟨?_, hrv⟩
      -- `v` is neither the first nor the last node of the path, so it is an operation node
      have hvb : v ∈ B1 w := by
        have hnd := r1.pathNodup w hw
        rcases (mem_pathOf B1 w v).1 hv1 with h | h | h
        · exfalso
          subst h
          unfold pathOf at h1
          cases pre with
          | nil =>
            simp only [List.nil_append, List.cons.injEq] at h1
            have : Nd.inp w ∈ B1 w ++ [Nd.out w] := by rw [h1.2]; simp
            unfold pathOf at hnd
            exact (List.nodup_cons.1 hnd).1 this
          | cons p ps =>
            simp only [List.cons_append, List.cons.injEq] at h1
            have : Nd.inp w ∈ B1 w ++ [Nd.out w] := by rw [h1.2]; simp
            unfold pathOf at hnd
            exact (List.nodup_cons.1 hnd).1 this
        · exact h
        · exfalso
          subst h
          -- `out w` is the last node, but `rest'` follows it
          have hlast : (pathOf B1 w).getLast? = some (Nd.out w) := by
            unfold pathOf
            rw [← List.cons_append, List.getLast?_append]
            simp
          rw [h1'] at hnd hlast
          cases rest' with
          | nil => exact hne rfl
          | cons y ys =>
            have : (y :: ys).getLast? = some (Nd.out w) := by
              rw [List.getLast?_append, List.getLast?_cons_cons] at hlast
              cases hl : (y :: ys).getLast? with
              | none => simp at hl
              | some z => rw [hl] at hlast; simpa using hlast
            have hin : Nd.out w ∈ y :: ys := List.mem_of_getLast? this
            have hnd2 := (List.nodup_append.1 hnd).2.1
            exact (List.nodup_cons.1 hnd2).1 hin
      obtain ⟨id, _, hid, _⟩ := r1.bodyOp w hw v hvb
      exact ⟨id, hid⟩
    obtain ⟨ihm, ihr⟩ := ih (pre ++ [u]) v (pre2 ++ [φ u]) rest2' h1' h2' hkd'
    refine ⟨by rw [ihm]; rfl, ?_⟩
    intro n hn
    rcases List.mem_cons.1 hn with rfl | hn'
    · exact hrv
    · exact ihr n hn'

/-- the register of the second graph that the isomorphism assigns to register `w` of the first -/
def wireMap (φ : Nd → Nd) (w : Wire) : Wire :=
  match φ (.inp w) with
  | .inp w2 => w2
  | _ => w

/-- **an isomorphism of the repaired check maps every register path onto a register path**: same register type, input to
    input, output to output, the operation nodes in order, and every operation node is matched with a node at which the
    image register plays the same role -/
theorem iso2_wires (g1 g2 : MG) (W1 W2 : List Wire) (B1 B2 : Wire → List Nd) (r1 : Rep g1 W1 B1) (r2 : Rep g2 W2 B2)
    (φ : Nd → Nd) (hf : IsoFacts2 g1 g2 φ) (w : Wire) (hw : w ∈ W1) :
    wireMap φ w ∈ W2 ∧ (wireMap φ w).t = w.t ∧ φ (.inp w) = .inp (wireMap φ w) ∧ φ (.out w) = .out (wireMap φ w) ∧
    B2 (wireMap φ w) = (B1 w).map φ ∧ ∀ n ∈ B1 w, role (g2.opOf (φ n)) (wireMap φ w) = role (g1.opOf n) w := by
  obtain ⟨a, b, ha, hb, hab⟩ := hf.nodes _ (opOf_some_mem g1 _ _ (r1.inpOp w hw))
  rw [r1.inpOp w hw] at ha
  injection ha with ha
  subst ha
  obtain ⟨w2, rfl, ht⟩ := nodeMatch_input w b hab
  obtain ⟨hφ, hw2⟩ := r2.kindIn _ _ hb
  have hwm : wireMap φ w = w2 := by unfold wireMap; rw [hφ]
  rw [hwm]
  have h1 : pathOf B1 w = [] ++ Nd.inp w :: (B1 w ++ [Nd.out w]) := rfl
  have h2 : pathOf B2 w2 = [] ++ φ (Nd.inp w) :: (B2 w2 ++ [Nd.out w2]) := by rw [hφ]; rfl
  obtain ⟨hm, hr⟩ := iso2_follow g1 g2 W1 W2 B1 B2 r1 r2 φ hf w w2 hw hw2 _ _ _ _ _ h1 h2 (fun _ => Or.inl ⟨rfl, hφ⟩)
  rw [List.map_append, List.map_cons, List.map_nil] at hm
  obtain ⟨hb2, hout⟩ := List.append_inj' hm rfl
  refine ⟨hw2, ht, hφ, ?_, hb2, ?_⟩
  · injection hout with h _
    exact h.symm
  · intro n hn
    exact hr n (List.mem_append_left _ hn)

/-- the node map of a successful check is onto the nodes of the second graph -/
theorem IsoFacts2.surj {g1 g2 : MG} {φ : Nd → Nd} (hf : IsoFacts2 g1 g2 φ) :
    ∀ m ∈ g2.nodes.map (·.1), ∃ n ∈ g1.nodes.map (·.1), φ n = m := by
  have hsub : (g1.nodes.map (·.1)).map φ ⊆ g2.nodes.map (·.1) := by
    intro m hm
    obtain ⟨n, hn, rfl⟩ := List.mem_map.1 hm
    exact hf.into n hn
  have hperm : ((g1.nodes.map (·.1)).map φ).Perm (g2.nodes.map (·.1)) :=
    (List.subperm_of_subset hf.nodup hsub).perm_of_length_le (by simp [← hf.len])
  intro m hm
  obtain ⟨n, hn, rfl⟩ := List.mem_map.1 (hperm.mem_iff.2 hm)
  exact ⟨n, hn, rfl⟩

theorem IsoFacts2.inj {g1 g2 : MG} {φ : Nd → Nd} (hf : IsoFacts2 g1 g2 φ) :
    ∀ a ∈ g1.nodes.map (·.1), ∀ b ∈ g1.nodes.map (·.1), φ a = φ b → a = b :=
  fun _ ha _ hb hab => List.inj_on_of_nodup_map hf.nodup ha hb hab

/-- the register map is one-to-one … -/
theorem wireMap_inj (g1 g2 : MG) (W1 W2 : List Wire) (B1 B2 : Wire → List Nd) (r1 : Rep g1 W1 B1) (r2 : Rep g2 W2 B2)
    (φ : Nd → Nd) (hf : IsoFacts2 g1 g2 φ) (w w' : Wire) (hw : w ∈ W1) (hw' : w' ∈ W1)
    (h : wireMap φ w = wireMap φ w') : w = w' := by
  have h1 := (iso2_wires g1 g2 W1 W2 B1 B2 r1 r2 φ hf w hw).2.2.1
  have h2 := (iso2_wires g1 g2 W1 W2 B1 B2 r1 r2 φ hf w' hw').2.2.1
  rw [h] at h1
  have := hf.inj _ (opOf_some_mem g1 _ _ (r1.inpOp w hw)) _ (opOf_some_mem g1 _ _ (r1.inpOp w' hw')) (h1.trans h2.symm)
  injection this

/-- … and onto the registers of the second graph -/
theorem wireMap_surj (g1 g2 : MG) (W1 W2 : List Wire) (B1 B2 : Wire → List Nd) (r1 : Rep g1 W1 B1) (r2 : Rep g2 W2 B2)
    (φ : Nd → Nd) (hf : IsoFacts2 g1 g2 φ) (w2 : Wire) (hw2 : w2 ∈ W2) : ∃ w ∈ W1, wireMap φ w = w2 := by
  obtain ⟨n, hn, hφ⟩ := hf.surj _ (opOf_some_mem g2 _ _ (r2.inpOp w2 hw2))
  obtain ⟨a, b, ha, hb, hab⟩ := hf.nodes n hn
  rw [hφ, r2.inpOp w2 hw2] at hb
  injection hb with hb
  subst hb
  rw [nodeMatch_symm] at hab
  obtain ⟨w, rfl, _⟩ := nodeMatch_input w2 a hab
  obtain ⟨rfl, hw⟩ := r1.kindIn _ _ ha
  refine ⟨w, hw, ?_⟩
  unfold wireMap
  rw [hφ]

end Graphiq.Compare
