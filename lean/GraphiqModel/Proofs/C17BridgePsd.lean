/-
  Proofs/C17BridgePsd.lean — completeness of the exact positive-semidefiniteness test of the model (`DM.psdElim`, symmetric
  `LDL†` elimination over ℚ[i]): on every Hermitian positive semidefinite matrix it answers `true`.

  Pure mathematics first, on `ℕ`-indexed complex entries restricted to an index block `[k, n)`:
  a Hermitian PSD block has a real nonnegative leading entry (`diag_nonneg`); if that entry is 0 its row vanishes
  (`zero_row`); the block without its first index is PSD (`restrict`); and if the entry is `d > 0` the Schur complement
  `C' i j = C i j − C i k · conj (C j k) / d` is PSD (`schur`).  Then the induction over the elimination steps.
-/
import GraphiqModel.Proofs.DMSem
import GraphiqModel.Proofs.HilbertBridgeMat
import GraphiqModel.Proofs.HilbertBridgeDensity
import GraphiqModel.Proofs.HilbertPure
import Mathlib.Analysis.Matrix.Hermitian
import Mathlib.Algebra.BigOperators.Intervals
import Mathlib.Data.Complex.BigOperators
namespace Graphiq
namespace C17B
open Finset

/-- the quadratic form of the block `[k, n)` -/
noncomputable def qf (n k : Nat) (C : Nat → Nat → ℂ) (v : Nat → ℂ) : ℂ :=
  ∑ i ∈ Ico k n, ∑ j ∈ Ico k n, star (v i) * C i j * v j

/-- the block `[k, n)` of `C` is Hermitian and positive semidefinite -/
structure BlockPSD (n k : Nat) (C : Nat → Nat → ℂ) : Prop where
  herm : ∀ i j, k ≤ i → i < n → k ≤ j → j < n → C j i = star (C i j)
  nonneg : ∀ v : Nat → ℂ, 0 ≤ (qf n k C v).re

theorem BlockPSD.congr {n k : Nat} {C C' : Nat → Nat → ℂ} (h : BlockPSD n k C)
    (e : ∀ i j, k ≤ i → i < n → k ≤ j → j < n → C' i j = C i j) : BlockPSD n k C' := by
  refine ⟨fun i j h1 h2 h3 h4 => by rw [e j i h3 h4 h1 h2, e i j h1 h2 h3 h4]; exact h.herm i j h1 h2 h3 h4, fun v => ?_⟩
  have : qf n k C' v = qf n k C v := by
    unfold qf
    apply sum_congr rfl
    intro i hi
    apply sum_congr rfl
    intro j hj
    rw [mem_Ico] at hi hj
    rw [e i j hi.1 hi.2 hj.1 hj.2]
  rw [this]; exact h.nonneg v

/-- the leading entry of a Hermitian PSD block is real and nonnegative -/
theorem BlockPSD.diag_nonneg {n k : Nat} {C : Nat → Nat → ℂ} (h : BlockPSD n k C) (hk : k < n) :
    (C k k).im = 0 ∧ 0 ≤ (C k k).re := by
  have hkm : k ∈ Ico k n := mem_Ico.mpr ⟨Nat.le_refl _, hk⟩
  constructor
  · have := h.herm k k (Nat.le_refl _) hk (Nat.le_refl _) hk
    have h2 := congrArg Complex.im this
    simp only [Complex.star_def, Complex.conj_im] at h2
    linarith
  · have := h.nonneg (fun i => if i = k then 1 else 0)
    have e : qf n k C (fun i => if i = k then 1 else 0) = C k k := by
      unfold qf
      rw [sum_eq_single k]
      · rw [sum_eq_single k]
        · simp
        · intro j _ hj; simp [hj]
        · intro hh; exact absurd hkm hh
      · intro i _ hi
        apply sum_eq_zero
        intro j _
        simp [hi]
      · intro hh; exact absurd hkm hh
    rw [e] at this; exact this

/-- dropping the first index of a PSD block -/
theorem BlockPSD.restrict {n k : Nat} {C : Nat → Nat → ℂ} (h : BlockPSD n k C) (hk : k < n) : BlockPSD n (k + 1) C := by
  refine ⟨fun i j h1 h2 h3 h4 => h.herm i j (by omega) h2 (by omega) h4, fun v => ?_⟩
  have := h.nonneg (fun i => if i = k then 0 else v i)
  have e : qf n k C (fun i => if i = k then 0 else v i) = qf n (k + 1) C v := by
    unfold qf
    rw [sum_eq_sum_Ico_succ_bot hk]
    have h0 : ∑ j ∈ Ico k n, star ((fun i => if i = k then (0 : ℂ) else v i) k) * C k j
        * (fun i => if i = k then (0 : ℂ) else v i) j = 0 := by
      apply sum_eq_zero; intro j _; simp
    rw [h0, zero_add]
    apply sum_congr rfl
    intro i hi
    rw [mem_Ico] at hi
    have hik : i ≠ k := by omega
    rw [sum_eq_sum_Ico_succ_bot hk]
    simp only [hik, if_false, if_true, mul_zero, zero_add]
    apply sum_congr rfl
    intro j hj
    rw [mem_Ico] at hj
    have hjk : j ≠ k := by omega
    simp [hjk]
  rw [e] at this; exact this


/-- the quadratic form on a vector supported on two indices -/
theorem qf_two (n k : Nat) (C : Nat → Nat → ℂ) (a b : Nat) (ha : a ∈ Ico k n) (hb : b ∈ Ico k n) (hab : a ≠ b) (x y : ℂ) :
    qf n k C (fun i => if i = a then x else if i = b then y else 0)
      = star x * C a a * x + star x * C a b * y + (star y * C b a * x + star y * C b b * y) := by
  unfold qf
  have hba : b ≠ a := fun e => hab e.symm
  rw [sum_eq_add a b hab]
  · rw [sum_eq_add a b hab, sum_eq_add a b hab]
    · simp [hba]
    · intro c _ hc; simp [hc.1, hc.2]
    · intro h; exact absurd ha h
    · intro h; exact absurd hb h
    · intro c _ hc; simp [hc.1, hc.2]
    · intro h; exact absurd ha h
    · intro h; exact absurd hb h
  · intro c _ hc
    apply sum_eq_zero
    intro j _
    simp [hc.1, hc.2]
  · intro h; exact absurd ha h
  · intro h; exact absurd hb h

/-- a PSD block whose leading entry vanishes has a vanishing first row -/
theorem BlockPSD.zero_row {n k : Nat} {C : Nat → Nat → ℂ} (h : BlockPSD n k C) (hk : k < n) (h0 : C k k = 0)
    (j : Nat) (hkj : k < j) (hj : j < n) : C k j = 0 := by
  by_contra hz
  obtain ⟨z, hzdef⟩ : ∃ z, z = C k j := ⟨_, rfl⟩
  rw [← hzdef] at hz
  have hpos : 0 < Complex.normSq z := Complex.normSq_pos.mpr hz
  obtain ⟨t, ht⟩ : ∃ t : ℝ, t = ((C j j).re + 1) / (2 * Complex.normSq z) := ⟨_, rfl⟩
  have hka : k ∈ Ico k n := mem_Ico.mpr ⟨Nat.le_refl _, hk⟩
  have hja : j ∈ Ico k n := mem_Ico.mpr ⟨by omega, hj⟩
  have key := h.nonneg (fun i => if i = k then -(t : ℂ) * z else if i = j then 1 else 0)
  rw [qf_two n k C k j hka hja (by omega)] at key
  have hjk : C j k = star z := by rw [hzdef]; exact h.herm k j (Nat.le_refl _) hk (by omega) hj
  rw [h0, hjk, ← hzdef] at key
  have hn : star z * z = (Complex.normSq z : ℂ) := by
    rw [Complex.star_def, Complex.normSq_eq_conj_mul_self]
  have e1 : star (-(t : ℂ) * z) * z = -((t : ℂ) * (Complex.normSq z : ℂ)) := by
    rw [star_mul', star_neg, Complex.star_def, Complex.conj_ofReal, ← Complex.star_def, neg_mul, neg_mul, mul_assoc, hn]
  have e2 : star z * (-(t : ℂ) * z) = -((t : ℂ) * (Complex.normSq z : ℂ)) := by
    rw [mul_comm (-(t : ℂ)) z, ← mul_assoc, hn]; ring
  have e : (star (-(t : ℂ) * z) * 0 * (-(t : ℂ) * z) + star (-(t : ℂ) * z) * z * 1
      + (star (1 : ℂ) * star z * (-(t : ℂ) * z) + star (1 : ℂ) * C j j * 1)).re
      = -2 * t * Complex.normSq z + (C j j).re := by
    simp only [mul_zero, zero_mul, zero_add, mul_one, star_one, one_mul]
    rw [e1, e2]
    simp only [Complex.add_re, Complex.neg_re, Complex.mul_re, Complex.ofReal_re, Complex.ofReal_im]
    ring
  rw [e] at key
  have : -2 * t * Complex.normSq z + (C j j).re = -1 := by
    rw [ht]; field_simp; ring
  rw [this] at key
  linarith


/-- the quadratic form of the block `[k, n)` on `x e_k + w`, split at the first index -/
theorem qf_split (n k : Nat) (C : Nat → Nat → ℂ) (hk : k < n) (x : ℂ) (w : Nat → ℂ) :
    qf n k C (fun i => if i = k then x else w i)
      = star x * C k k * x + star x * (∑ j ∈ Ico (k + 1) n, C k j * w j)
        + ((∑ i ∈ Ico (k + 1) n, star (w i) * C i k) * x + qf n (k + 1) C w) := by
  unfold qf
  rw [sum_eq_sum_Ico_succ_bot hk]
  congr 1
  · rw [sum_eq_sum_Ico_succ_bot hk]
    simp only [if_true]
    congr 1
    rw [mul_sum]
    apply sum_congr rfl
    intro j hj
    rw [mem_Ico] at hj
    have : j ≠ k := by omega
    simp only [this, if_false]
    ring
  · rw [sum_mul, ← sum_add_distrib]
    apply sum_congr rfl
    intro i hi
    rw [mem_Ico] at hi
    have hik : i ≠ k := by omega
    rw [sum_eq_sum_Ico_succ_bot hk]
    simp only [hik, if_false, if_true]
    congr 1
    apply sum_congr rfl
    intro j hj
    rw [mem_Ico] at hj
    have : j ≠ k := by omega
    simp only [this, if_false]

/-- the quadratic form of the Schur complement -/
theorem qf_schur (n k : Nat) (C : Nat → Nat → ℂ) (c : ℂ) (w : Nat → ℂ) :
    qf n (k + 1) (fun i j => C i j - c * (C i k * star (C j k))) w
      = qf n (k + 1) C w - c * ((∑ i ∈ Ico (k + 1) n, star (w i) * C i k) * (∑ j ∈ Ico (k + 1) n, star (C j k) * w j)) := by
  unfold qf
  rw [sum_mul_sum, mul_sum, ← sum_sub_distrib]
  apply sum_congr rfl
  intro i _
  rw [mul_sum, ← sum_sub_distrib]
  apply sum_congr rfl
  intro j _
  ring


/-- **Schur complement**: eliminating a positive leading entry of a Hermitian PSD block leaves a Hermitian PSD block -/
theorem BlockPSD.schur {n k : Nat} {C : Nat → Nat → ℂ} (h : BlockPSD n k C) (hk : k < n) (d : ℝ) (hd : 0 < d)
    (hkk : C k k = (d : ℂ)) :
    BlockPSD n (k + 1) (fun i j => C i j - ((1 / d : ℝ) : ℂ) * (C i k * star (C j k))) := by
  have hcstar : star (((1 / d : ℝ) : ℂ)) = ((1 / d : ℝ) : ℂ) := by rw [Complex.star_def, Complex.conj_ofReal]
  refine ⟨fun i j h1 h2 h3 h4 => ?_, fun w => ?_⟩
  · show C j i - _ * (C j k * star (C i k)) = star (C i j - _ * (C i k * star (C j k)))
    rw [star_sub, star_mul', star_mul', star_star, hcstar, h.herm i j (by omega) h2 (by omega) h4]
    ring
  · -- the vector `x e_k + w` with `x = −S/d`
    have hS2 : ∑ j ∈ Ico (k + 1) n, star (C j k) * w j = ∑ j ∈ Ico (k + 1) n, C k j * w j := by
      apply sum_congr rfl
      intro j hj
      rw [mem_Ico] at hj
      rw [h.herm k j (Nat.le_refl _) hk (by omega) hj.2, star_star]
    have hS1 : ∑ i ∈ Ico (k + 1) n, star (w i) * C i k = star (∑ j ∈ Ico (k + 1) n, C k j * w j) := by
      rw [star_sum]
      apply sum_congr rfl
      intro i hi
      rw [mem_Ico] at hi
      rw [h.herm k i (Nat.le_refl _) hk (by omega) hi.2, star_mul']
      ring
    obtain ⟨S, hSdef⟩ : ∃ S, S = ∑ j ∈ Ico (k + 1) n, C k j * w j := ⟨_, rfl⟩
    have key := h.nonneg (fun i => if i = k then -(((1 / d : ℝ) : ℂ)) * S else w i)
    rw [qf_split n k C hk, hS1, ← hSdef, hkk] at key
    rw [qf_schur, hS1, hS2, ← hSdef]
    have hdc : ((1 / d : ℝ) : ℂ) * (d : ℂ) = 1 := by
      rw [← Complex.ofReal_mul]; rw [one_div, inv_mul_cancel₀ (ne_of_gt hd)]; simp
    have e : star (-(((1 / d : ℝ) : ℂ)) * S) * (d : ℂ) * (-(((1 / d : ℝ) : ℂ)) * S) + star (-(((1 / d : ℝ) : ℂ)) * S) * S
        + (star S * (-(((1 / d : ℝ) : ℂ)) * S) + qf n (k + 1) C w)
        = qf n (k + 1) C w - ((1 / d : ℝ) : ℂ) * (star S * S) := by
      rw [star_mul', star_neg, hcstar]
      have : -(((1 / d : ℝ) : ℂ)) * star S * (d : ℂ) * (-(((1 / d : ℝ) : ℂ)) * S)
          = (((1 / d : ℝ) : ℂ) * (d : ℂ)) * (((1 / d : ℝ) : ℂ) * (star S * S)) := by ring
      rw [this, hdc]
      ring
    rw [e] at key
    exact key


/-! ### the elimination -/

open Hilbert in
section

theorem lookupG_ofFn (n : Nat) (f : Nat → Nat → GQ) (i j : Nat) (hi : i < n) (hj : j < n) :
    Mat.lookupG (Array.ofFn (n := n) fun i' => Array.ofFn (n := n) fun j' => f i'.val j'.val) i j = f i j := by
  unfold Mat.lookupG
  simp [Array.getD, hi, hj]

theorem gq_eq_zero (a : GQ) (h : gqC a = 0) : a = 0 := gqC_injective (by rw [h, map_zero])

/-- **the exact PSD test accepts every Hermitian positive semidefinite block** -/
theorem psdElim_complete (n : Nat) : ∀ (fuel : Nat) (a : Nat → Nat → GQ), fuel ≤ n →
    BlockPSD n (n - fuel) (fun i j => gqC (a i j)) → DM.psdElim fuel n a = true
  | 0, _, _, _ => rfl
  | fuel + 1, a, hf, h => by
    have hk : n - (fuel + 1) < n := by omega
    have hk1 : n - fuel = n - (fuel + 1) + 1 := by omega
    obtain ⟨him, hre⟩ := h.diag_nonneg hk
    simp only [gqC_im, gqC_re] at him hre
    have hre' : (0 : Rat) ≤ (a (n - (fuel + 1)) (n - (fuel + 1))).re := by exact_mod_cast hre
    have him' : (a (n - (fuel + 1)) (n - (fuel + 1))).im = 0 := by exact_mod_cast him
    unfold DM.psdElim
    simp only
    rw [if_neg (not_lt.mpr hre')]
    split
    · next hd0 =>
      -- zero pivot: the row vanishes
      have hakk : a (n - (fuel + 1)) (n - (fuel + 1)) = 0 := by
        apply GQ.ext'
        · exact hd0
        · exact him'
      have hrow : ((List.range n).all fun j => decide (j ≤ n - (fuel + 1)) || (a (n - (fuel + 1)) j).isZero) = true := by
        rw [List.all_eq_true]
        intro j hj
        have hjn := List.mem_range.mp hj
        by_cases hle : j ≤ n - (fuel + 1)
        · simp [hle]
        · have := h.zero_row hk (by show gqC (a _ _) = 0; rw [hakk, map_zero]) j (by omega) hjn
          rw [(isZero_iff _).2 (gq_eq_zero _ this)]; simp
      rw [if_pos hrow]
      apply psdElim_complete n fuel a (by omega)
      rw [hk1]; exact h.restrict hk
    · next hd0 =>
      have hdpos : (0 : Rat) < (a (n - (fuel + 1)) (n - (fuel + 1))).re := lt_of_le_of_ne hre' (fun e => hd0 e.symm)
      apply psdElim_complete n fuel _ (by omega)
      rw [hk1]
      have hdR : (0 : ℝ) < (((a (n - (fuel + 1)) (n - (fuel + 1))).re : Rat) : ℝ) := by exact_mod_cast hdpos
      have hkk : gqC (a (n - (fuel + 1)) (n - (fuel + 1))) = ((((a (n - (fuel + 1)) (n - (fuel + 1))).re : Rat) : ℝ) : ℂ) := by
        apply Complex.ext
        · simp [gqC_re]
        · simp [gqC_im, him']
      refine (h.schur hk _ hdR hkk).congr (fun i j h1 h2 h3 h4 => ?_)
      have hl := lookupG_ofFn n (fun i' j' => if n - (fuel + 1) < i' ∧ n - (fuel + 1) < j' then
          a i' j' - GQ.smul (1 / (a (n - (fuel + 1)) (n - (fuel + 1))).re)
            (a i' (n - (fuel + 1)) * (a j' (n - (fuel + 1))).conj) else a i' j') i j h2 h4
      have c1 : n - (fuel + 1) < i := by omega
      have c2 : n - (fuel + 1) < j := by omega
      simp only [c1, c2, and_self, if_true] at hl
      rw [hl]
      rw [map_sub, gqC_smul, map_mul, gqC_conj]
      congr 2
      push_cast
      rfl

end

/-! ### from a representation -/

section rep
open Hilbert Matrix
open scoped ComplexOrder

/-- a representation of a Hermitian PSD matrix is a Hermitian PSD block -/
theorem blockPSD_of_rep {n : Nat} {m : Mat} {M : DMat n} (hm : Rep n m M) (hM : M.PosSemidef) :
    BlockPSD (2 ^ n) 0 (fun i j => gqC (m.e i j)) := by
  refine ⟨fun i j _ hi _ hj => ?_, fun v => ?_⟩
  · have e1 := hm.2 (bitsOf n j) (bitsOf n i)
    have e2 := hm.2 (bitsOf n i) (bitsOf n j)
    rw [idx_bitsOf n i hi, idx_bitsOf n j hj] at e1 e2
    show gqC (m.e j i) = star (gqC (m.e i j))
    rw [e1, e2]
    exact (hM.1.apply (bitsOf n j) (bitsOf n i)).symm
  · have h0 := hM.dotProduct_mulVec_nonneg (fun a => v (idx n a))
    have e : qf (2 ^ n) 0 (fun i j => gqC (m.e i j)) v = star (fun a => v (idx n a)) ⬝ᵥ (M *ᵥ fun a => v (idx n a)) := by
      unfold qf
      rw [Nat.Ico_zero_eq_range, sum_range_pow]
      unfold dotProduct Matrix.mulVec dotProduct
      apply sum_congr rfl
      intro a _
      rw [sum_range_pow, mul_sum]
      apply sum_congr rfl
      intro b _
      show star (v (idx n a)) * gqC (m.e (idx n a) (idx n b)) * v (idx n b)
        = star (v (idx n a)) * (M a b * v (idx n b))
      rw [hm.2 a b]
      ring
    rw [e]
    exact (Complex.le_def.mp h0).1

theorem isHermitian_of_rep {n : Nat} {m : Mat} {M : DMat n} (hm : Rep n m M) (hH : M.IsHermitian) :
    m.isHermitian = true := by
  unfold Mat.isHermitian
  rw [List.all_eq_true]
  intro i hi
  rw [List.all_eq_true]
  intro j hj
  have hi' := List.mem_range.mp hi
  have hj' := List.mem_range.mp hj
  rw [hm.1] at hi' hj'
  rw [beq_iff_eq]
  apply gqC_injective
  have e1 := hm.2 (bitsOf n j) (bitsOf n i)
  have e2 := hm.2 (bitsOf n i) (bitsOf n j)
  rw [idx_bitsOf n i hi', idx_bitsOf n j hj'] at e1 e2
  rw [gqC_conj, e1, e2]
  exact (hH.apply (bitsOf n i) (bitsOf n j)).symm

/-- **the model's `is_psd` accepts every representation of a positive semidefinite matrix** -/
theorem isPsd_of_rep {n : Nat} {m : Mat} {M : DMat n} (hm : Rep n m M) (hM : M.PosSemidef) : DM.isPsd m = true := by
  unfold DM.isPsd
  rw [isHermitian_of_rep hm hM.1, Bool.true_and, hm.1]
  apply psdElim_complete (2 ^ n) (2 ^ n) m.e (Nat.le_refl _)
  rw [Nat.sub_self]
  exact blockPSD_of_rep hm hM

theorem trace_of_rep {n : Nat} {m : Mat} {M : DMat n} (hm : Rep n m M) (ht : Matrix.trace M = 1) : m.trace = 1 := by
  apply gqC_injective
  rw [hm.trace, ht, map_one]

/-- … and `is_density_matrix` every representation of a PSD matrix of trace 1 -/
theorem isDensityMatrix_of_rep {n : Nat} {m : Mat} {M : DMat n} (hm : Rep n m M) (hM : M.PosSemidef)
    (ht : Matrix.trace M = 1) : DM.isDensityMatrix m = true := by
  unfold DM.isDensityMatrix
  rw [isPsd_of_rep hm hM, trace_of_rep hm ht]
  have h1 : (1 : GQ).re = 1 := rfl
  have h2 : (1 : GQ).im = 0 := rfl
  rw [h1, h2]
  unfold DM.allclose1 DM.isclose0
  simp only [DM.rat_abs_eq, sub_self, abs_zero, Bool.true_and, Bool.and_eq_true, decide_eq_true_eq]
  constructor <;> norm_num

/-- … and `is_pure` every representation of a projector of trace 1 -/
theorem isPure_of_rep {n : Nat} {m : Mat} {M : DMat n} (hm : Rep n m M) (hp : M * M = M)
    (ht : Matrix.trace M = 1) : DM.isPure m = true := by
  unfold DM.isPure
  have := trace_of_rep (hm.mul hm) (by rw [hp]; exact ht)
  rw [this]
  have h1 : (1 : GQ).re = 1 := rfl
  rw [h1]
  unfold DM.allclose1Tight
  simp only [DM.rat_abs_eq, sub_self, abs_zero, decide_eq_true_eq]
  norm_num

end rep

/-! ### soundness of the elimination, and the decision statement -/

section sound0
open Finset Hilbert

/-- Hermitian on the block `[k, n)` -/
def BlockHerm (n k : Nat) (C : Nat → Nat → ℂ) : Prop :=
  ∀ i j, k ≤ i → i < n → k ≤ j → j < n → C j i = star (C i j)

theorem schur_herm {n k : Nat} {C : Nat → Nat → ℂ} (h : BlockHerm n k C) (c : ℝ) :
    BlockHerm n (k + 1) (fun i j => C i j - ((c : ℝ) : ℂ) * (C i k * star (C j k))) := by
  intro i j h1 h2 h3 h4
  have hcstar : star ((c : ℝ) : ℂ) = ((c : ℝ) : ℂ) := by rw [Complex.star_def, Complex.conj_ofReal]
  show C j i - _ * (C j k * star (C i k)) = star (C i j - _ * (C i k * star (C j k)))
  rw [star_sub, star_mul', star_mul', star_star, hcstar, h i j (by omega) h2 (by omega) h4]
  ring

/-- completing the square: the quadratic form of a Hermitian block with positive leading entry `d` is
    `d |x + S/d|²` plus the quadratic form of the Schur complement -/
theorem qf_complete_square {n k : Nat} {C : Nat → Nat → ℂ} (h : BlockHerm n k C) (hk : k < n) (d : ℝ) (hd : 0 < d)
    (hkk : C k k = (d : ℂ)) (v : Nat → ℂ) :
    ∃ y : ℂ, qf n k C v = (d : ℂ) * (star y * y)
      + qf n (k + 1) (fun i j => C i j - ((1 / d : ℝ) : ℂ) * (C i k * star (C j k))) v := by
  have hcstar : star (((1 / d : ℝ) : ℂ)) = ((1 / d : ℝ) : ℂ) := by rw [Complex.star_def, Complex.conj_ofReal]
  have hS2 : ∑ j ∈ Ico (k + 1) n, star (C j k) * v j = ∑ j ∈ Ico (k + 1) n, C k j * v j := by
    apply sum_congr rfl
    intro j hj
    rw [mem_Ico] at hj
    rw [h k j (Nat.le_refl _) hk (by omega) hj.2, star_star]
  have hS1 : ∑ i ∈ Ico (k + 1) n, star (v i) * C i k = star (∑ j ∈ Ico (k + 1) n, C k j * v j) := by
    rw [star_sum]
    apply sum_congr rfl
    intro i hi
    rw [mem_Ico] at hi
    rw [h k i (Nat.le_refl _) hk (by omega) hi.2, star_mul']
    ring
  obtain ⟨S, hSdef⟩ : ∃ S, S = ∑ j ∈ Ico (k + 1) n, C k j * v j := ⟨_, rfl⟩
  have hv : v = fun i => if i = k then v k else v i := by
    funext i; split
    · next e => rw [e]
    · rfl
  refine ⟨v k + ((1 / d : ℝ) : ℂ) * S, ?_⟩
  rw [qf_schur, hS1, hS2, ← hSdef]
  conv_lhs => rw [hv]
  rw [qf_split n k C hk, hS1, ← hSdef, hkk]
  have hdc : (d : ℂ) * ((1 / d : ℝ) : ℂ) = 1 := by
    rw [← Complex.ofReal_mul, one_div, mul_inv_cancel₀ (ne_of_gt hd)]; simp
  rw [star_add, star_mul', hcstar]
  have e1 : (d : ℂ) * ((star (v k) + ((1 / d : ℝ) : ℂ) * star S) * (v k + ((1 / d : ℝ) : ℂ) * S))
      = star (v k) * (d : ℂ) * v k + ((d : ℂ) * ((1 / d : ℝ) : ℂ)) * (star (v k) * S)
        + ((d : ℂ) * ((1 / d : ℝ) : ℂ)) * (star S * v k)
        + ((d : ℂ) * ((1 / d : ℝ) : ℂ)) * (((1 / d : ℝ) : ℂ) * (star S * S)) := by ring
  rw [e1, hdc]
  ring

end sound0

section sound1
open Finset Hilbert

theorem qf_nonneg_of_square {n k : Nat} {C C' : Nat → Nat → ℂ} (d : ℝ) (hd : 0 < d) (v : Nat → ℂ) (y : ℂ)
    (e : qf n k C v = (d : ℂ) * (star y * y) + qf n (k + 1) C' v) (h' : 0 ≤ (qf n (k + 1) C' v).re) :
    0 ≤ (qf n k C v).re := by
  rw [e]
  have : ((d : ℂ) * (star y * y)).re = d * Complex.normSq y := by
    rw [Complex.star_def, ← Complex.normSq_eq_conj_mul_self, ← Complex.ofReal_mul, Complex.ofReal_re]
  rw [Complex.add_re, this]
  have := Complex.normSq_nonneg y
  positivity

/-- **the exact PSD test is sound**: if the elimination answers `true` on a Hermitian block, the block is PSD -/
theorem psdElim_sound (n : Nat) : ∀ (fuel : Nat) (a : Nat → Nat → GQ), fuel ≤ n →
    BlockHerm n (n - fuel) (fun i j => gqC (a i j)) → DM.psdElim fuel n a = true →
    BlockPSD n (n - fuel) (fun i j => gqC (a i j))
  | 0, a, _, hh, _ => by
    refine ⟨hh, fun v => ?_⟩
    unfold qf
    rw [Nat.sub_zero, Finset.Ico_self]
    simp
  | fuel + 1, a, hf, hh, he => by
    have hk : n - (fuel + 1) < n := by omega
    have hk1 : n - fuel = n - (fuel + 1) + 1 := by omega
    have hkk_im : (a (n - (fuel + 1)) (n - (fuel + 1))).im = 0 := by
      have := hh _ _ (Nat.le_refl _) hk (Nat.le_refl _) hk
      have h2 := congrArg Complex.im this
      simp only [Complex.star_def, Complex.conj_im, gqC_im] at h2
      have : (((a (n - (fuel + 1)) (n - (fuel + 1))).im : Rat) : ℝ) = 0 := by linarith
      exact_mod_cast this
    unfold DM.psdElim at he
    simp only at he
    split at he
    · cases he
    · next hnn =>
      split at he
      · next hd0 =>
        -- zero pivot
        split at he
        · next hrow =>
          have hakk : a (n - (fuel + 1)) (n - (fuel + 1)) = 0 := GQ.ext' hd0 hkk_im
          rw [List.all_eq_true] at hrow
          have hzero : ∀ j, n - (fuel + 1) < j → j < n → gqC (a (n - (fuel + 1)) j) = 0 := by
            intro j h1 h2
            have := hrow j (List.mem_range.mpr h2)
            have hle : ¬ j ≤ n - (fuel + 1) := by omega
            simp only [hle, decide_false, Bool.false_or] at this
            rw [(isZero_iff _).1 this, map_zero]
          have ih := psdElim_sound n fuel a (by omega)
            (by rw [hk1]; exact fun i j h1 h2 h3 h4 => hh i j (by omega) h2 (by omega) h4) he
          rw [hk1] at ih
          refine ⟨hh, fun v => ?_⟩
          have hv : v = fun i => if i = n - (fuel + 1) then v (n - (fuel + 1)) else v i := by
            funext i; split
            · next e => rw [e]
            · rfl
          rw [hv, qf_split n _ _ hk]
          have s1 : ∑ j ∈ Ico (n - (fuel + 1) + 1) n, gqC (a (n - (fuel + 1)) j) * v j = 0 := by
            apply sum_eq_zero; intro j hj; rw [mem_Ico] at hj; rw [hzero j (by omega) hj.2, zero_mul]
          have s2 : ∑ i ∈ Ico (n - (fuel + 1) + 1) n, star (v i) * gqC (a i (n - (fuel + 1))) = 0 := by
            apply sum_eq_zero; intro i hi; rw [mem_Ico] at hi
            have e : gqC (a i (n - (fuel + 1))) = star (gqC (a (n - (fuel + 1)) i)) :=
              hh _ i (Nat.le_refl _) hk (by omega) hi.2
            rw [e, hzero i (by omega) hi.2, star_zero, mul_zero]
          show 0 ≤ (star (v (n - (fuel + 1))) * gqC (a (n - (fuel + 1)) (n - (fuel + 1))) * v (n - (fuel + 1))
            + star (v (n - (fuel + 1))) * (∑ j ∈ Ico (n - (fuel + 1) + 1) n, gqC (a (n - (fuel + 1)) j) * v j)
            + ((∑ i ∈ Ico (n - (fuel + 1) + 1) n, star (v i) * gqC (a i (n - (fuel + 1)))) * v (n - (fuel + 1))
              + qf n (n - (fuel + 1) + 1) (fun i j => gqC (a i j)) v)).re
          rw [s1, s2, hakk, map_zero]
          simp only [mul_zero, zero_mul, zero_add]
          exact ih.nonneg v
        · cases he
      · next hd0 =>
        have hdpos : (0 : Rat) < (a (n - (fuel + 1)) (n - (fuel + 1))).re :=
          lt_of_le_of_ne (not_lt.mp hnn) (fun e => hd0 e.symm)
        have hdR : (0 : ℝ) < (((a (n - (fuel + 1)) (n - (fuel + 1))).re : Rat) : ℝ) := by exact_mod_cast hdpos
        have hkk : gqC (a (n - (fuel + 1)) (n - (fuel + 1))) = ((((a (n - (fuel + 1)) (n - (fuel + 1))).re : Rat) : ℝ) : ℂ) := by
          apply Complex.ext
          · simp [gqC_re]
          · simp [gqC_im, hkk_im]
        -- entries of the updated matrix on the remaining block
        have hent : ∀ i j, n - (fuel + 1) + 1 ≤ i → i < n → n - (fuel + 1) + 1 ≤ j → j < n →
            gqC (Mat.lookupG (Array.ofFn (n := n) fun i' => Array.ofFn (n := n) fun j' =>
              if n - (fuel + 1) < i'.val ∧ n - (fuel + 1) < j'.val then
                a i'.val j'.val - GQ.smul (1 / (a (n - (fuel + 1)) (n - (fuel + 1))).re)
                  (a i'.val (n - (fuel + 1)) * (a j'.val (n - (fuel + 1))).conj)
              else a i'.val j'.val) i j)
            = gqC (a i j) - (((1 / (((a (n - (fuel + 1)) (n - (fuel + 1))).re : Rat) : ℝ) : ℝ)) : ℂ)
                * (gqC (a i (n - (fuel + 1))) * star (gqC (a j (n - (fuel + 1))))) := by
          intro i j h1 h2 h3 h4
          have hl := lookupG_ofFn n (fun i' j' => if n - (fuel + 1) < i' ∧ n - (fuel + 1) < j' then
            a i' j' - GQ.smul (1 / (a (n - (fuel + 1)) (n - (fuel + 1))).re)
              (a i' (n - (fuel + 1)) * (a j' (n - (fuel + 1))).conj) else a i' j') i j h2 h4
          have c1 : n - (fuel + 1) < i := by omega
          have c2 : n - (fuel + 1) < j := by omega
          simp only [c1, c2, and_self, if_true] at hl
          rw [hl, map_sub, gqC_smul, map_mul, gqC_conj]
          congr 2
          push_cast
          rfl
        have hh' := schur_herm hh (1 / (((a (n - (fuel + 1)) (n - (fuel + 1))).re : Rat) : ℝ))
        have ih := psdElim_sound n fuel _ (by omega)
          (by
            rw [hk1]
            intro i j h1 h2 h3 h4
            beta_reduce
            rw [hent j i h3 h4 h1 h2, hent i j h1 h2 h3 h4]
            exact hh' i j h1 h2 h3 h4) he
        rw [hk1] at ih
        have ih' := ih.congr (C' := fun i j => gqC (a i j) - (((1 / (((a (n - (fuel + 1)) (n - (fuel + 1))).re : Rat) : ℝ) : ℝ)) : ℂ)
                * (gqC (a i (n - (fuel + 1))) * star (gqC (a j (n - (fuel + 1))))))
          (fun i j h1 h2 h3 h4 => (hent i j h1 h2 h3 h4).symm)
        refine ⟨hh, fun v => ?_⟩
        obtain ⟨y, ey⟩ := qf_complete_square hh hk _ hdR hkk v
        exact qf_nonneg_of_square _ hdR v y ey (ih'.nonneg v)

end sound1

section sound2
open Finset Hilbert Matrix
open scoped ComplexOrder

theorem isHermitian_rep_iff {n : Nat} {m : Mat} {M : DMat n} (hm : Rep n m M) :
    m.isHermitian = true ↔ M.IsHermitian := by
  constructor
  · intro h
    unfold Mat.isHermitian at h
    rw [List.all_eq_true] at h
    apply Matrix.IsHermitian.ext
    intro a b
    have h1 := h (idx n a) (List.mem_range.mpr (by rw [hm.1]; exact idx_lt n a))
    rw [List.all_eq_true] at h1
    have h2 := h1 (idx n b) (List.mem_range.mpr (by rw [hm.1]; exact idx_lt n b))
    rw [beq_iff_eq] at h2
    rw [← hm.2 a b, ← hm.2 b a, h2, gqC_conj]
  · exact isHermitian_of_rep hm

/-- **the model's `is_psd` decides positive semidefiniteness** of the matrix it is given -/
theorem isPsd_rep_iff {n : Nat} {m : Mat} {M : DMat n} (hm : Rep n m M) : DM.isPsd m = true ↔ M.PosSemidef := by
  constructor
  · intro h
    unfold DM.isPsd at h
    rw [Bool.and_eq_true] at h
    have hH := (isHermitian_rep_iff hm).1 h.1
    have hel := h.2
    rw [hm.1] at hel
    have hb : BlockHerm (2 ^ n) (2 ^ n - 2 ^ n) (fun i j => gqC (m.e i j)) := by
      intro i j _ hi _ hj
      have e1 := hm.2 (bitsOf n j) (bitsOf n i)
      have e2 := hm.2 (bitsOf n i) (bitsOf n j)
      rw [idx_bitsOf n i hi, idx_bitsOf n j hj] at e1 e2
      show gqC (m.e j i) = star (gqC (m.e i j))
      rw [e1, e2]
      exact (hH.apply (bitsOf n j) (bitsOf n i)).symm
    have hp := psdElim_sound (2 ^ n) (2 ^ n) m.e (Nat.le_refl _) hb hel
    rw [Nat.sub_self] at hp
    apply Matrix.PosSemidef.of_dotProduct_mulVec_nonneg hH
    intro x
    have e : qf (2 ^ n) 0 (fun i j => gqC (m.e i j)) (fun i => x (bitsOf n i)) = star x ⬝ᵥ (M *ᵥ x) := by
      unfold qf
      rw [Nat.Ico_zero_eq_range, sum_range_pow]
      unfold dotProduct Matrix.mulVec dotProduct
      apply sum_congr rfl
      intro a _
      rw [sum_range_pow, mul_sum]
      apply sum_congr rfl
      intro b _
      show star (x (bitsOf n (idx n a))) * gqC (m.e (idx n a) (idx n b)) * x (bitsOf n (idx n b))
        = star (x a) * (M a b * x b)
      rw [hm.2 a b, bitsOf_idx, bitsOf_idx]
      ring
    have hre := hp.nonneg (fun i => x (bitsOf n i))
    rw [e] at hre
    have him : (star x ⬝ᵥ (M *ᵥ x)).im = 0 := Matrix.IsHermitian.im_star_dotProduct_mulVec_self hH x
    rw [Complex.le_def]
    exact ⟨hre, him.symm⟩
  · exact isPsd_of_rep hm

end sound2

end C17B
end Graphiq
