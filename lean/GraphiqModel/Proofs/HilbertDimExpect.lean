/-
  Proofs/HilbertDimExpect.lean — Pauli expectation values in a stabilizer state, and faithfulness of the tableau → state map.

  * `pauli_expectation` : for a valid Clifford tableau and a real Pauli row `g`:
    `tr(g ρ) = 1` if `g` is in the stabilizer group, `-1` if `-g` is, `0` otherwise;
  * `rho_determines_group` : two valid tableaux with the same density matrix have the same stabilizer group
    (the converse of gauge independence): the density matrix and the signed group determine each other;
  * `rho_mul_eq_zero_of_orth` : if some `P` is in one group and `-P` in the other, the states are orthogonal, `ρ_a ρ_b = 0`.
-/
import GraphiqModel.Proofs.HilbertDimPtrace
namespace Graphiq
namespace Hilbert
open Matrix PRow TabSpec Tab

/-- a group element also fixes the state from the right -/
theorem rho_mul_grp (t : Tab) (hv : t.Valid) (hr : t.StabReal) (g : PRow) (hg : Grp t g) :
    rho t.n (STab.ofTab t) * pauliMat t.n g = rho t.n (STab.ofTab t) := by
  have h := congrArg Matrix.conjTranspose (grp_mul_rho t hv hr g hg)
  have hh : (rho t.n (STab.ofTab t))ᴴ = rho t.n (STab.ofTab t) := rho_hermitian _ (ofTab_good t hv)
  rw [Matrix.conjTranspose_mul, hh, pauliMat_hermitian t.n g (grp_real t hv hr g hg)] at h
  exact h

/-- a Pauli that anticommutes with some element of the stabilizer group has expectation value 0 -/
theorem trace_pauli_rho_of_anticomm (t : Tab) (hv : t.Valid) (hr : t.StabReal) (g h : PRow) (hh : Grp t h)
    (ha : sp t.n g h = true) : Matrix.trace (pauliMat t.n g * rho t.n (STab.ofTab t)) = 0 := by
  have e1 := grp_mul_rho t hv hr h hh
  have e2 := rho_mul_grp t hv hr h hh
  have anti := pauliMat_anticomm t.n g h ha
  have key : Matrix.trace (pauliMat t.n g * rho t.n (STab.ofTab t))
      = -Matrix.trace (pauliMat t.n g * rho t.n (STab.ofTab t)) := by
    calc Matrix.trace (pauliMat t.n g * rho t.n (STab.ofTab t))
        = Matrix.trace (pauliMat t.n g * (pauliMat t.n h * rho t.n (STab.ofTab t))) := by rw [e1]
      _ = Matrix.trace (-(pauliMat t.n h * pauliMat t.n g) * rho t.n (STab.ofTab t)) := by
          rw [← Matrix.mul_assoc, anti]
      _ = -Matrix.trace (pauliMat t.n h * (pauliMat t.n g * rho t.n (STab.ofTab t))) := by
          rw [Matrix.neg_mul, Matrix.trace_neg, Matrix.mul_assoc]
      _ = -Matrix.trace (pauliMat t.n g * rho t.n (STab.ofTab t) * pauliMat t.n h) := by
          rw [Matrix.trace_mul_comm]
      _ = -Matrix.trace (pauliMat t.n g * rho t.n (STab.ofTab t)) := by
          rw [Matrix.mul_assoc, e2]
  have h2 : (2 : ℂ) * Matrix.trace (pauliMat t.n g * rho t.n (STab.ofTab t)) = 0 := by
    rw [two_mul]; nth_rewrite 1 [key]; simp
  exact (mul_eq_zero.mp h2).resolve_left (by norm_num)

/-- **Pauli expectation values in a stabilizer state** -/
theorem pauli_expectation (t : Tab) (hv : t.Valid) (hr : t.StabReal) (g : PRow) (hg : g.ip = false) :
    (Grp t g → Matrix.trace (pauliMat t.n g * rho t.n (STab.ofTab t)) = 1) ∧
    (Grp t (negate g) → Matrix.trace (pauliMat t.n g * rho t.n (STab.ofTab t)) = -1) ∧
    (¬ Grp t g → ¬ Grp t (negate g) → Matrix.trace (pauliMat t.n g * rho t.n (STab.ofTab t)) = 0) := by
  have tr1 := rho_ofTab_trace t hv
  refine ⟨?_, ?_, ?_⟩
  · intro h; rw [grp_mul_rho t hv hr g h, tr1]
  · intro h
    have e := grp_mul_rho t hv hr _ h
    have hneg : pauliMat t.n (negate g) = -pauliMat t.n g := pauliMat_neg t.n g
    rw [hneg, Matrix.neg_mul] at e
    have : pauliMat t.n g * rho t.n (STab.ofTab t) = -rho t.n (STab.ofTab t) := neg_eq_iff_eq_neg.mp e
    rw [this, Matrix.trace_neg, tr1]
  · intro h1 h2
    by_cases hc : ∀ i, i < t.n → sp t.n g (t.stab i) = false
    · rcases grp_maximal t hv hr g hg hc with h | h
      · exact absurd h h1
      · exact absurd h h2
    · obtain ⟨i, hi'⟩ := not_forall.mp hc
      obtain ⟨hi, hs⟩ := Classical.not_imp.mp hi'
      have hs' : sp t.n g (t.stab i) = true := by
        revert hs; cases sp t.n g (t.stab i) <;> simp
      exact trace_pauli_rho_of_anticomm t hv hr g _ (grp_gen t i hi) hs'

/-- **the density matrix determines the stabilizer group** (converse of gauge independence) -/
theorem rho_determines_group (n : Nat) (a b : Tab) (ha : a.n = n) (hb : b.n = n) (va : a.Valid) (ra : a.StabReal)
    (vb : b.Valid) (rb : b.StabReal) (h : rho n (STab.ofTab a) = rho n (STab.ofTab b)) :
    ∀ P, Grp a P ↔ Grp b P := by
  subst ha
  have one_dir : ∀ (x y : Tab), x.n = y.n → x.Valid → x.StabReal → y.Valid → y.StabReal →
      rho x.n (STab.ofTab x) = rho x.n (STab.ofTab y) → ∀ P, Grp x P → Grp y P := by
    intro x y hn vx rx vy ry hxy P hP
    have hPr := grp_real x vx rx P hP
    have e1 := (pauli_expectation x vx rx P hPr).1 hP
    rw [hxy, hn] at e1
    obtain ⟨_, f2, f3⟩ := pauli_expectation y vy ry P hPr
    by_contra hne
    by_cases hneg : Grp y (negate P)
    · have := f2 hneg
      rw [e1] at this; norm_num at this
    · have := f3 hne hneg
      rw [e1] at this; norm_num at this
  intro P
  constructor
  · exact one_dir a b hb.symm va ra vb rb h P
  · have h' : rho b.n (STab.ofTab b) = rho b.n (STab.ofTab a) := by rw [hb]; exact h.symm
    exact one_dir b a hb vb rb va ra h' P

/-- **same state ⇔ same stabilizer group** -/
theorem rho_eq_iff_grp_eq (n : Nat) (a b : Tab) (ha : a.n = n) (hb : b.n = n) (va : a.Valid) (ra : a.StabReal)
    (vb : b.Valid) (rb : b.StabReal) :
    rho n (STab.ofTab a) = rho n (STab.ofTab b) ↔ ∀ P, Grp a P ↔ Grp b P :=
  ⟨rho_determines_group n a b ha hb va ra vb rb,
   fun h => rho_eq_of_gens n a b ha hb va ra vb rb (fun i hi => (h _).mpr (grp_gen b i (by omega)))⟩

/-- **orthogonality**: some `P` in the group of `a` with `-P` in the group of `b` ⇒ `ρ_a ρ_b = 0` -/
theorem rho_mul_eq_zero_of_orth (n : Nat) (a b : Tab) (ha : a.n = n) (hb : b.n = n) (va : a.Valid) (ra : a.StabReal)
    (vb : b.Valid) (rb : b.StabReal) (P : PRow) (hPa : Grp a P) (hPb : Grp b (negate P)) :
    rho n (STab.ofTab a) * rho n (STab.ofTab b) = 0 := by
  subst ha
  have e1 := rho_mul_grp a va ra P hPa
  have e2 := grp_mul_rho b vb rb _ hPb
  rw [hb] at e2
  have hneg : pauliMat a.n (negate P) = -pauliMat a.n P := pauliMat_neg a.n P
  rw [hneg, Matrix.neg_mul] at e2
  have key : rho a.n (STab.ofTab a) * rho a.n (STab.ofTab b) = -(rho a.n (STab.ofTab a) * rho a.n (STab.ofTab b)) := by
    calc rho a.n (STab.ofTab a) * rho a.n (STab.ofTab b)
        = rho a.n (STab.ofTab a) * pauliMat a.n P * rho a.n (STab.ofTab b) := by rw [e1]
      _ = rho a.n (STab.ofTab a) * (pauliMat a.n P * rho a.n (STab.ofTab b)) := by rw [Matrix.mul_assoc]
      _ = rho a.n (STab.ofTab a) * -(rho a.n (STab.ofTab b)) := by
          rw [neg_eq_iff_eq_neg.mp e2]
      _ = -(rho a.n (STab.ofTab a) * rho a.n (STab.ofTab b)) := by rw [Matrix.mul_neg]
  have h2 : (2 : ℂ) • (rho a.n (STab.ofTab a) * rho a.n (STab.ofTab b)) = 0 := by
    rw [two_smul]; nth_rewrite 1 [key]; simp
  exact (smul_eq_zero.mp h2).resolve_left (by norm_num)

end Hilbert
end Graphiq
