/-
  Proofs/SweepNoisePsd.lean — a cross-property corollary of the bridge identity `Sweep.rep_iff_toC`: the density matrix
  the exact model of the noisy `DensityMatrixCompiler` returns (C06) passes the exact rational positivity test of C17
  (`DM.isPsd`, whose correctness `isPsd_rep_iff` is stated through deep-c01's `Hilbert.Rep`), and is Hermitian for the model's
  own test.  C06 proves positivity through `MixDM.toC`; the two embeddings coincide.
-/
import GraphiqModel.Proofs.SweepBridge
import GraphiqModel.Proofs.MixtureDMPhysical
import GraphiqModel.Proofs.C17BridgePsd
namespace Graphiq.Sweep
open Graphiq

open scoped ComplexOrder in
/-- **the compiled noisy density matrix passes the exact positivity test** -/
theorem compileDM_isPsd (ns : Bool) (ne np nc : Nat) (det : Bool) (ops : List Noise.COp)
    (hw : ∀ op ∈ ops, MixDM.OpOK (ne + np) np op) (hl : ∀ op ∈ ops, MixDM.ParamPhys op.n0 ∧ MixDM.ParamPhys op.n1)
    (d : Noise.DmSt) (ρ : Mat) (h : Noise.compileDM ns ne np nc det ops = .ok d) (hρ : d.ρ = some ρ) :
    DM.isPsd ρ = true ∧ Hilbert.Rep (ne + np) ρ (MixDM.toC (ne + np) ρ) := by
  obtain ⟨_, _, ρ', hρ', _, hn, _⟩ := MixDM.compileDM_toC ns ne np nc det ops hw d h
  rw [hρ] at hρ'
  injection hρ' with hρ'
  subst hρ'
  have hrep := rep_toC (ne + np) ρ hn
  exact ⟨C17B.isPsd_of_rep hrep (MixDM.compileDM_psd ns ne np nc det ops hw hl d ρ h hρ), hrep⟩

end Graphiq.Sweep
