/-
  Proofs/SweepBridge.lean — the two embeddings of the exact ℚ[i] matrix model into Mathlib's complex matrices are the same
  embedding.

  deep-c01's bridge (`Hilbert.Rep n m M`: "the model matrix `m` represents `M`", Proofs/HilbertBridge*.lean, used by C01 and
  C17) and deep-c06's bridge (`MixDM.toC n m`: the complex matrix of `m`, Proofs/MixtureDMBridge*.lean, used by C06) were
  built independently on the same model type `Graphiq.Mat`, the same target `Matrix (Bits n) (Bits n) ℂ` and the same
  big-endian index map.  `rep_iff_toC` makes that a theorem, so every result stated through one transfers to the other.
-/
import GraphiqModel.Proofs.HilbertBridgeDensity
import GraphiqModel.Proofs.MixtureDMBridgeStab
namespace Graphiq.Sweep
open Graphiq

/-- the two index maps (bit string ↦ big-endian row index) coincide -/
theorem idx_eq : ∀ (n : Nat) (a : Hilbert.Bits n), MixDM.idx a = Hilbert.idx n a := by
  intro n
  induction n with
  | zero => intro a; rfl
  | succ k ih =>
    intro a
    show 2 * MixDM.idx (Hilbert.initB a) + _ = 2 * Hilbert.idx k (Hilbert.initB a) + _
    rw [ih]

/-- the two entry maps ℚ[i] → ℂ coincide -/
theorem gqC_eq (z : GQ) : Hilbert.gqC z = MixDM.gqC z := rfl

/-- `toC n m` is the matrix `m` represents -/
theorem rep_toC (n : Nat) (m : Mat) (hn : m.n = 2 ^ n) : Hilbert.Rep n m (MixDM.toC n m) :=
  ⟨hn, fun a b => by rw [MixDM.toC_apply, idx_eq, idx_eq]; rfl⟩

/-- a represented matrix is `toC` of its representative -/
theorem toC_of_rep {n : Nat} {m : Mat} {M : Hilbert.DMat n} (h : Hilbert.Rep n m M) : MixDM.toC n m = M := by
  ext a b
  rw [MixDM.toC_apply, idx_eq, idx_eq]
  exact h.2 a b

/-- **the two bridges are one**: `Rep n m M` says exactly "`m` has size `2ⁿ` and `toC n m = M`" -/
theorem rep_iff_toC (n : Nat) (m : Mat) (M : Hilbert.DMat n) : Hilbert.Rep n m M ↔ m.n = 2 ^ n ∧ MixDM.toC n m = M :=
  ⟨fun h => ⟨h.1, toC_of_rep h⟩, fun h => h.2 ▸ rep_toC n m h.1⟩

/-- the two density matrices of a tableau coincide (same definition in both developments) -/
theorem tabRho_eq (n : Nat) (t : Tab) : MixDM.tabRho n t = Hilbert.tabRho n t := rfl

end Graphiq.Sweep
