/-
  Proofs/MixtureDMDefined.lean — the density-matrix backend never produces its NaN state while the photon survival probability
  stays above `np.isclose`'s tolerance `1e-8`: for every circuit of the class of Proofs/MixtureDMPhysMeas (measurements with
  arbitrary outcomes included) with loss rates in `[0,1]`, if `∏ (1 − loss_j) > 1e-8` then `DensityMatrixCompiler.compile`
  returns a matrix (and that matrix is positive semidefinite with trace `∏ (1 − loss_j)`).  Every number of qubits.

  The only source of NaN is `apply_measurement` dividing by a zero conditional probability; `measurement_defined` shows the
  outcome rule never selects an outcome of probability 0 when the trace exceeds `1e-8`.
-/
import GraphiqModel.Proofs.MixtureDMPhysMeas
namespace Graphiq
namespace MixDM
open Matrix Hilbert Noise DM PRow
open scoped ComplexOrder

/-- the absolute tolerance of `np.isclose` -/
def tol : Rat := 1 / 100000000

theorem tol_pos : 0 < tol := by unfold tol; norm_num

theorem isclose0_true_le (x : Rat) (h0 : 0 ≤ x) (h : isclose0 x = true) : x ≤ tol := by
  unfold isclose0 at h
  rw [rat_abs_eq, abs_of_nonneg h0] at h
  exact of_decide_eq_true h

theorem isclose0_false_gt (x : Rat) (h0 : 0 ≤ x) (h : isclose0 x = false) : tol < x := by
  unfold isclose0 at h
  rw [rat_abs_eq, abs_of_nonneg h0] at h
  exact not_le.1 (of_decide_eq_false h)

/-- **`apply_measurement` returns a matrix whenever the trace of the state exceeds `1e-8`** -/
theorem measurement_defined (n q : Nat) (hq : q < n) (ρ p0 p1 : Mat) (hp : projectorsZ n q = .ok (p0, p1)) (τ : ℚ)
    (hg : DGood n ρ τ) (hτ : tol < τ) (det : Bool) : ∃ ρ' o, applyMeasurement ρ p0 p1 det = .ok (some ρ', o) := by
  obtain ⟨e0, e1, n0, n1⟩ := toC_projectorsZ n q hq p0 p1 hp
  obtain ⟨x0n, t0⟩ := prob_rat n q ρ p0 false hg.size hg.psd e0
  obtain ⟨x1n, t1⟩ := prob_rat n q ρ p1 true hg.size hg.psd e1
  have pr0 : prOf ρ p0 = (ρ.mul p0).trace.re := by unfold prOf; simp only; rw [if_neg (not_lt.2 x0n)]
  have pr1 : prOf ρ p1 = (ρ.mul p1).trace.re := by unfold prOf; simp only; rw [if_neg (not_lt.2 x1n)]
  have hτs : τ = (ρ.mul p0).trace.re + (ρ.mul p1).trace.re := by
    have : (toC n ρ).trace = (toC n ρ * projZ n q false).trace + (toC n ρ * projZ n q true).trace := by
      rw [← Matrix.trace_add, ← Matrix.mul_add, projZ_sum n q hq, Matrix.mul_one]
    rw [hg.tr, t0, t1] at this
    exact_mod_cast this
  rw [applyMeasurement_eq ρ p0 p1 det (by rw [hg.size, n0]), pr0, pr1]
  generalize (ρ.mul p0).trace.re = x0 at *
  generalize (ρ.mul p1).trace.re = x1 at *
  simp only
  have htp := tol_pos
  have hpos : 0 < x0 + x1 := by linarith
  -- the selected outcome has positive probability
  have hsel : (if (if det = true then !isclose0 x1 else isclose0 x0) = true then x1 else x0) ≠ 0 := by
    cases det with
    | true =>
      simp only [if_true]
      cases hc : isclose0 x1 with
      | true =>
        have := isclose0_true_le x1 x1n hc
        simp only [Bool.not_true, Bool.false_eq_true, if_false]
        intro e; linarith
      | false =>
        have := isclose0_false_gt x1 x1n hc
        simp only [Bool.not_false, if_true]
        intro e; linarith
    | false =>
      simp only [Bool.false_eq_true, if_false]
      cases hc : isclose0 x0 with
      | true =>
        have := isclose0_true_le x0 x0n hc
        simp only [if_true]
        intro e; linarith
      | false =>
        have := isclose0_false_gt x0 x0n hc
        simp only [Bool.false_eq_true, if_false]
        intro e; linarith
  rw [if_pos hpos]
  rw [if_neg (div_ne_zero hsel (ne_of_gt hpos))]
  exact ⟨_, _, rfl⟩

/-- a gate with a measurement returns a matrix when the trace exceeds the tolerance -/
theorem dmMeasGate_defined (np n : Nat) (det : Bool) (op : COp) (hk : MeasAny op.kind) (hw : OpWF n np op) (d d1 : DmSt)
    (ρ : Mat) (hd : d.ρ = some ρ) (τ : ℚ) (hg : DGood n ρ τ) (hτ : tol < τ) (h : dmGate np n det op d = .ok d1) :
    ∃ ρ1, d1.ρ = some ρ1 := by
  have hq1 := hw.1
  unfold dmGate at h
  simp only [hd] at h
  have hproj : ∃ p0 p1, projectorsZ n (qIndex np op.r1 op.t1) = .ok (p0, p1) := by
    unfold projectorsZ; rw [if_pos hq1]; exact ⟨_, _, rfl⟩
  obtain ⟨p0, p1, hp⟩ := hproj
  obtain ⟨ρm, o, ha⟩ := measurement_defined n _ hq1 ρ p0 p1 hp τ hg hτ det
  rcases hk with hk | hk | hk | hk <;> simp only [hk, hp, ha] at h
  · simp only [Except.map] at h
    injection h with h; subst h
    exact ⟨ρm, rfl⟩
  all_goals
    cases h2 : (if o then applyUnitary ρm ⟨1, getOneQubitGate n (qIndex np op.r2 op.t2) _⟩ else .ok ρm : Except Err Mat) with
    | error e => rw [h2] at h; cases h
    | ok ρ2 =>
      rw [h2] at h
      simp only at h
      first
      | (simp only [Bool.false_eq_true, if_false, Except.map] at h
         injection h with h; subst h
         exact ⟨ρ2, rfl⟩)
      | (simp only [if_true] at h
         cases h3 : applyChannel ρ2 (resetKraus n (qIndex np op.r1 op.t1)) with
         | error e => rw [h3] at h; cases h
         | ok r =>
           rw [h3] at h
           simp only [Except.map] at h
           injection h with h; subst h
           exact ⟨r, rfl⟩)

theorem dmAct_defined (np n : Nat) (det : Bool) (arr : Array COp) (d d1 : DmSt) (a : Act) (ha : ActOK3 n np arr a)
    (ρ : Mat) (hd : d.ρ = some ρ) (τ : ℚ) (hg : DGood n ρ τ) (hτ : tol < τ) (h : dmAct np n det arr d a = .ok d1) :
    ∃ ρ1, d1.ρ = some ρ1 := by
  cases a with
  | gate k =>
    simp only [dmAct] at h
    cases hk : arr[k]? with
    | none =>
      rw [getD_none arr k hk] at h
      simp only [dmGate, hd] at h
      injection h with h; subst h
      exact ⟨ρ, hd⟩
    | some op =>
      rw [getD_some arr k op hk] at h
      obtain ⟨hw, hkind⟩ := ha op hk
      rcases hkind with hf | hm
      · obtain ⟨ρ', hρ', _, _⟩ := dmGate_toC np n det op hf hw d d1 ρ hd hg.size hg.herm h
        exact ⟨ρ', hρ'⟩
      · exact dmMeasGate_defined np n det op hm hw d d1 ρ hd τ hg hτ h
  | noise k side q nm =>
    simp only [dmAct, hd] at h
    cases hn : DMx.applyNoise n nm q ρ with
    | error e => rw [hn] at h; cases h
    | ok r => rw [hn] at h; injection h with h; subst h; exact ⟨r, rfl⟩
  | replace k => simp [dmAct] at h

theorem runDmActs_defined (np n : Nat) (det : Bool) (arr : Array COp) : ∀ (acts : List Act) (d d' : DmSt) (ρ : Mat) (τ : ℚ),
    (∀ a ∈ acts, ActOK3 n np arr a) → TraceP LossOK acts → d.ρ = some ρ → DGood n ρ τ → tol < lossFactor acts * τ →
    runDmActs np n det arr acts d = .ok d' → ∃ ρ', d'.ρ = some ρ' ∧ DGood n ρ' (lossFactor acts * τ)
  | [], d, d', ρ, τ, _, _, hd, hg, _, h => by
    simp [runDmActs] at h; subst h
    exact ⟨ρ, hd, by simp only [lossFactor, _root_.one_mul]; exact hg⟩
  | a :: as, d, d', ρ, τ, hw, hl, hd, hg, hτ, h => by
    simp only [runDmActs] at h
    cases ha : dmAct np n det arr d a with
    | error e => rw [ha] at h; cases h
    | ok d1 =>
      rw [ha] at h
      have hlas : TraceP LossOK as := fun k side q nm hm => hl k side q nm (List.mem_cons_of_mem _ hm)
      obtain ⟨a0, a1⟩ := lossOf_range a (fun k side q nm e => hl k side q nm (by rw [e]; exact List.mem_cons_self))
      obtain ⟨f0, f1⟩ := lossFactor_range as hlas
      simp only [lossFactor] at hτ
      have hτ1 : tol < lossFactor as * (lossOf a * τ) := by
        rw [show lossFactor as * (lossOf a * τ) = lossOf a * lossFactor as * τ by ring]; exact hτ
      have hτa : tol < lossOf a * τ := weight_mono _ _ _ tol_pos f0 f1 hτ1
      have hτ0 : tol < τ := weight_mono _ _ _ tol_pos a0 a1 hτa
      obtain ⟨ρ1, hρ1⟩ := dmAct_defined np n det arr d d1 a (hw a List.mem_cons_self) ρ hd τ hg hτ0 ha
      have g1 := dmAct_phys np n det arr d d1 a (hw a List.mem_cons_self) τ
        (fun r hr => by rw [hd] at hr; injection hr with hr; subst hr; exact hg) ha ρ1 hρ1
      obtain ⟨ρ', hρ', g'⟩ := runDmActs_defined np n det arr as d1 d' ρ1 _
        (fun b hb => hw b (List.mem_cons_of_mem _ hb)) hlas hρ1 g1 hτ1 h
      refine ⟨ρ', hρ', ?_⟩
      simp only [lossFactor]
      rw [show lossOf a * lossFactor as * τ = lossFactor as * (lossOf a * τ) by ring]
      exact g'

/-- the class: `OpOK3` with loss rates in `[0,1]` -/
def OpOK4 (n np : Nat) (op : COp) : Prop := OpOK3 n np op ∧ LossOK op.n0 ∧ LossOK op.n1

theorem dmGo_defined (ns : Bool) (np n : Nat) (det : Bool) (arr : Array COp)
    (harr : ∀ (j : Nat) (op : COp), arr[j]? = some op → OpOK3 n np op) :
    ∀ (ops : List COp) (k : Nat) (d d' : DmSt) (ρ : Mat) (τ : ℚ) (tr : List Act), (∀ op ∈ ops, OpOK4 n np op) →
      d.ρ = some ρ → DGood n ρ τ → traceGo ns .dm np ops k = .ok tr → tol < lossFactor tr * τ →
      dmGo ns np n det arr ops k d = .ok d' → ∃ ρ', d'.ρ = some ρ' ∧ DGood n ρ' (lossFactor tr * τ)
  | [], k, d, d', ρ, τ, tr, _, hd, hg, htr, _, h => by
    simp [dmGo] at h; subst h
    simp [traceGo] at htr; subst htr
    exact ⟨ρ, hd, by simp only [lossFactor, _root_.one_mul]; exact hg⟩
  | op :: rest, k, d, d', ρ, τ, tr, hw, hd, hg, htr, hτ, h => by
    simp only [dmGo] at h
    simp only [traceGo] at htr
    cases hp : placeOp ns .dm np op k with
    | error e => rw [hp] at h; cases h
    | ok acts =>
      rw [hp] at h htr; simp only at h htr
      cases hr' : traceGo ns .dm np rest (k + 1) with
      | error e => rw [hr'] at htr; cases htr
      | ok tr' =>
        rw [hr'] at htr; injection htr with htr; subst htr
        cases hr : runDmActs np n det arr acts d with
        | error e => rw [hr] at h; cases h
        | ok d1 =>
          rw [hr] at h; simp only at h
          have ho := hw op List.mem_cons_self
          have gate_ok : ActOK3 n np arr (.gate k) := fun op' hop' => ⟨(harr k op' hop').wf, (harr k op' hop').kind⟩
          have hacts : ∀ a ∈ acts, ActOK3 n np arr a := by
            cases ho.1 with
            | unitary h' l0 l1 =>
              intro a ha
              rcases placeOp_goodP ParamPhys trivial n np ns .dm op k h'.wf l0 l1 acts hp a ha with e | e | ⟨sd, q, nm, e, hq, hP⟩
              · subst e; exact gate_ok
              · subst e; trivial
              · subst e; exact ⟨hq, hP⟩
            | meas hk hw' h0 h1 =>
              rw [placeOp_none ns .dm np op k h0 h1] at hp
              injection hp with hp; subst hp
              intro a ha
              simp only [List.mem_singleton] at ha
              subst ha; exact gate_ok
          have hlacts : TraceP LossOK acts := by
            have := traceGo_P LossOK trivial ns .dm np n [op] k (acts ++ []) (by
              intro o ho'
              simp only [List.mem_singleton] at ho'
              subst ho'
              exact ⟨ho.1.wf, ho.2.1, ho.2.2⟩) (by simp [traceGo, hp])
            simpa using this
          have hltr : TraceP LossOK tr' := traceGo_P LossOK trivial ns .dm np n rest (k + 1) tr'
            (fun o ho' => ⟨(hw o (List.mem_cons_of_mem _ ho')).1.wf, (hw o (List.mem_cons_of_mem _ ho')).2.1,
              (hw o (List.mem_cons_of_mem _ ho')).2.2⟩) hr'
          obtain ⟨f0, f1⟩ := lossFactor_range tr' hltr
          rw [lossFactor_append] at hτ ⊢
          have hτ1 : tol < lossFactor tr' * (lossFactor acts * τ) := by
            rw [show lossFactor tr' * (lossFactor acts * τ) = lossFactor acts * lossFactor tr' * τ by ring]; exact hτ
          have hτa : tol < lossFactor acts * τ := weight_mono _ _ _ tol_pos f0 f1 hτ1
          obtain ⟨ρ1, hρ1, g1⟩ := runDmActs_defined np n det arr acts d d1 ρ τ hacts hlacts hd hg hτa hr
          obtain ⟨ρ', hρ', g'⟩ := dmGo_defined ns np n det arr harr rest (k + 1) d1 d' ρ1 _ tr'
            (fun o ho' => hw o (List.mem_cons_of_mem _ ho')) hρ1 g1 hr' hτ1 h
          refine ⟨ρ', hρ', ?_⟩
          rw [show lossFactor acts * lossFactor tr' * τ = lossFactor tr' * (lossFactor acts * τ) by ring]
          exact g'

/-- **no NaN while the survival probability exceeds `1e-8`**: measurements with arbitrary outcomes included, every n -/
theorem compileDM_defined (ns : Bool) (ne np nc : Nat) (det : Bool) (ops : List COp)
    (hw : ∀ op ∈ ops, OpOK4 (ne + np) np op) (tr : List Act) (htr : compileTrace ns .dm np ops = .ok tr)
    (hτ : tol < lossFactor tr) (d : DmSt) (h : compileDM ns ne np nc det ops = .ok d) :
    ∃ ρ, d.ρ = some ρ ∧ DGood (ne + np) ρ (lossFactor tr) := by
  unfold compileDM at h
  unfold compileTrace at htr
  have e0 := toC_rho0 (ne + np)
  obtain ⟨ρ, hρ, g⟩ := dmGo_defined ns np (ne + np) det ops.toArray (by
      intro j op hop
      have : op ∈ ops.toArray := Array.mem_of_getElem? hop
      exact (hw op (by simpa using this)).1) ops 0 _ d _ 1 tr hw rfl
      ⟨rfl, by rw [e0]; exact rho0_psd _, by rw [e0, rho0_trace]; simp⟩ htr (by rw [_root_.mul_one]; exact hτ) h
  exact ⟨ρ, hρ, by rwa [_root_.mul_one] at g⟩

end MixDM
end Graphiq
