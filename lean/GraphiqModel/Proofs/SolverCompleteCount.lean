/-
  Proofs/SolverCompleteCount.lean — resource accounting of the time-reversed solver: the recorded circuit contains exactly one
  `MeasurementCNOTandReset` per round in which the height function drops (`_time_reversed_measurement` is the only place one is created,
  and nothing removes it).  Bookkeeping of the operation list through every helper, as for the emission count in `Proofs/Solver.lean`.
-/
import GraphiqModel.Proofs.SolverCompleteAbsorb
import GraphiqModel.Proofs.SolverSoundInv
namespace Graphiq.Solver
open Graphiq Graphiq.Cliff PRow STab

def isMcr : SOp → Bool
  | .mcr _ _ => true
  | _ => false

/-- number of measure-and-reset operations in the recorded circuit -/
def mcrCount (c : List SOp) : Nat := c.countP isMcr

theorem mcrCount_append (a b : List SOp) : mcrCount (a ++ b) = mcrCount a + mcrCount b := by
  simp [mcrCount, List.countP_append]
theorem mcrCount_cons_wrap (gs : List Gen) (q : Nat) (c : List SOp) : mcrCount (.wrap gs q :: c) = mcrCount c := by
  simp [mcrCount, isMcr]
theorem mcrCount_cons_cnotEE (a b : Nat) (c : List SOp) : mcrCount (.cnotEE a b :: c) = mcrCount c := by
  simp [mcrCount, isMcr]
theorem mcrCount_cons_emit (a b : Nat) (c : List SOp) : mcrCount (.emit a b :: c) = mcrCount c := by
  simp [mcrCount, isMcr]
theorem mcrCount_cons_mcr (a b : Nat) (c : List SOp) : mcrCount (.mcr a b :: c) = mcrCount c + 1 := by
  simp [mcrCount, List.countP_cons, isMcr]

/-- the helper leaves the number of measure-and-reset operations alone -/
def KeepsM (s s' : St) : Prop := mcrCount s'.circ = mcrCount s.circ

theorem KeepsM.refl (s : St) : KeepsM s s := rfl
theorem KeepsM.trans {a b c : St} (h1 : KeepsM a b) (h2 : KeepsM b c) : KeepsM a c := Eq.trans h2 h1

theorem keepsM_gate (s : St) (g : Gate) : KeepsM s (s.gate g) := rfl

theorem keepsM_addOneQubit (s s' : St) (gs : List Gen) (q : Nat) (h : addOneQubit s gs q = .ok s') : KeepsM s s' := by
  unfold addOneQubit at h
  simp only at h
  have hsplit : s.circ = s.circ.takeWhile (fun o => !o.touches s.np q) ++ s.circ.dropWhile (fun o => !o.touches s.np q) :=
    (List.takeWhile_append_dropWhile).symm
  generalize s.circ.takeWhile (fun o => !o.touches s.np q) = pre at h hsplit
  generalize s.circ.dropWhile (fun o => !o.touches s.np q) = post at h hsplit
  split at h
  · next old q' rest =>
    split at h
    · cases h
    · split at h
      · injection h with h; rw [← h]
        show mcrCount (pre ++ rest) = mcrCount s.circ
        rw [hsplit, mcrCount_append, mcrCount_append, mcrCount_cons_wrap]
      · injection h with h; rw [← h]
        show mcrCount (pre ++ SOp.wrap _ q :: rest) = mcrCount s.circ
        rw [hsplit, mcrCount_append, mcrCount_append, mcrCount_cons_wrap, mcrCount_cons_wrap]
  · split at h
    · cases h
    · split at h
      · injection h with h; rw [← h]; exact KeepsM.refl s
      · injection h with h; rw [← h]
        exact mcrCount_cons_wrap _ q s.circ

theorem keepsM_changeToZ (s : St) (row col : Nat) : KeepsM s (changeToZ s row col).1 := by
  rcases changeToZ_cases' s row col with e | e | e <;> rw [e] <;> rfl

theorem keepsM_addEmitterCnot (s : St) (c t : Nat) : KeepsM s (addEmitterCnot s c t) :=
  mcrCount_cons_cnotEE c t s.circ

theorem keepsM_foldl {α : Type} (f : St → α → St) (hf : ∀ s x, KeepsM s (f s x)) (l : List α) (s : St) :
    KeepsM s (l.foldl f s) := by
  induction l generalizing s with
  | nil => exact KeepsM.refl s
  | cons x rest ih => simp only [List.foldl]; exact (hf s x).trans (ih (f s x))

theorem keepsM_foldlM {α : Type} (f : St → α → Except Err St) (hf : ∀ s x s', f s x = .ok s' → KeepsM s s')
    (l : List α) (s s' : St) (h : l.foldlM f s = .ok s') : KeepsM s s' := by
  induction l generalizing s with
  | nil =>
    simp only [List.foldlM, pure, Except.pure] at h
    injection h with h; rw [← h]; exact KeepsM.refl s
  | cons x rest ih =>
    simp only [List.foldlM] at h
    cases h1 : f s x with
    | error e => rw [h1] at h; simp [bind, Except.bind] at h
    | ok s1 =>
      rw [h1] at h
      simp only [bind, Except.bind] at h
      exact (hf s x s1 h1).trans (ih s1 h)

theorem keepsM_transformGeneratorEmitters (s s' : St) (g tgt : Nat) (h : transformGeneratorEmitters s g tgt = .ok s') :
    KeepsM s s' := by
  unfold transformGeneratorEmitters at h
  split at h
  · injection h with h; rw [← h]; exact KeepsM.refl s
  · split at h
    · cases h
    · injection h with h; rw [← h]
      exact keepsM_foldl _ (fun a c => keepsM_addEmitterCnot a c tgt) _ s

theorem keepsM_allEmittersToZ (s s' : St) (g : Nat) (skip : Bool) (h : allEmittersToZ s g skip = .ok s') : KeepsM s s' := by
  unfold allEmittersToZ at h
  apply keepsM_foldlM _ _ _ s s' h
  intro a i a' ha
  simp only at ha
  have k1 := keepsM_changeToZ a g (a.np + i)
  generalize changeToZ a g (a.np + i) = r at ha k1
  obtain ⟨a1, gl⟩ := r
  simp only at ha k1
  split at ha
  · injection ha with ha; rw [← ha]; exact k1
  · exact k1.trans (keepsM_addOneQubit a1 a' gl _ ha)

theorem keepsM_fixSign (s s' : St) (g e : Nat) (h : fixSign s g e = .ok s') : KeepsM s s' := by
  unfold fixSign at h
  split at h
  · exact (keepsM_gate s _).trans (keepsM_addOneQubit _ s' _ _ h)
  · injection h with h; rw [← h]; exact KeepsM.refl s

/-- the time-reversed measurement records exactly one measure-and-reset -/
theorem timeReversedMeasurement_mcr (s s' : St) (photon : Nat) (h : timeReversedMeasurement s photon = .ok s') :
    mcrCount s'.circ = mcrCount s.circ + 1 := by
  unfold timeReversedMeasurement at h
  simp only at h
  split at h
  · cases h
  · next g _ _ =>
    split at h
    · cases h
    · next e _ _ =>
      cases h1 : allEmittersToZ s g true with
      | error err => rw [h1] at h; cases h
      | ok s1 =>
        rw [h1] at h; simp only at h
        cases h2 : transformGeneratorEmitters s1 g e with
        | error err => rw [h2] at h; cases h
        | ok s2 =>
          rw [h2] at h; simp only at h
          cases h3 : fixSign s2 g e with
          | error err => rw [h3] at h; cases h
          | ok s3 =>
            rw [h3] at h; simp only at h
            injection h with h; rw [← h]
            have k : KeepsM s s3 := ((keepsM_allEmittersToZ s s1 g true h1).trans (keepsM_transformGeneratorEmitters s1 s2 g e h2)).trans
              (keepsM_fixSign s2 s3 g e h3)
            show mcrCount (SOp.mcr e photon :: s3.circ) = _
            rw [mcrCount_cons_mcr, k]

/-- photon absorption records no measure-and-reset -/
theorem addPhotonAbsorption_mcr (s s' : St) (photon : Nat) (h : addPhotonAbsorption s photon = .ok s') : KeepsM s s' := by
  unfold addPhotonAbsorption at h
  split at h
  · cases h
  · next g _ =>
    have k0 := keepsM_changeToZ s g photon
    generalize changeToZ s g photon = r at h k0
    obtain ⟨s0, gl⟩ := r
    simp only at h k0
    cases h1 : addOneQubit s0 gl photon with
    | error err => rw [h1] at h; cases h
    | ok s1 =>
      rw [h1] at h; simp only at h
      split at h
      · cases h
      · next e _ _ =>
        cases h2 : allEmittersToZ s1 g false with
        | error err => rw [h2] at h; cases h
        | ok s2 =>
          rw [h2] at h; simp only at h
          cases h3 : transformGeneratorEmitters s2 g e with
          | error err => rw [h3] at h; cases h
          | ok s3 =>
            rw [h3] at h; simp only at h
            cases h4 : fixSign s3 g e with
            | error err => rw [h4] at h; cases h
            | ok s4 =>
              rw [h4] at h; simp only at h
              injection h with h; rw [← h]
              have k : KeepsM s s4 := (((k0.trans (keepsM_addOneQubit s0 s1 gl photon h1)).trans (keepsM_allEmittersToZ s1 s2 g false h2)).trans
                (keepsM_transformGeneratorEmitters s2 s3 g e h3)).trans (keepsM_fixSign s3 s4 g e h4)
              show mcrCount (SOp.emit e photon :: s4.circ) = _
              rw [mcrCount_cons_emit]; exact k

/-- the replay of the inverse circuit records no measure-and-reset -/
theorem addGatesFromStr_mcr (s s' : St) (gl : List Gate) (h : addGatesFromStr s gl = .ok s') : KeepsM s s' := by
  rw [addGatesFromStr_eq] at h
  apply keepsM_foldlM _ _ _ s s' h
  intro a g a' ha
  unfold gateStep at ha
  cases g with
  | H q =>
    simp only at ha
    cases h1 : addOneQubit a [.H] q with
    | error e => rw [h1] at ha; simp [Except.map] at ha
    | ok a1 =>
      rw [h1] at ha; simp only [Except.map] at ha
      injection ha with ha; rw [← ha]
      exact (keepsM_addOneQubit a a1 _ q h1).trans (keepsM_gate a1 _)
  | P q =>
    simp only at ha
    cases h1 : addOneQubit a [.Z, .P] q with
    | error e => rw [h1] at ha; simp [Except.map] at ha
    | ok a1 =>
      rw [h1] at ha; simp only [Except.map] at ha
      injection ha with ha; rw [← ha]
      exact (keepsM_addOneQubit a a1 _ q h1).trans (keepsM_gate a1 _)
  | X q =>
    simp only at ha
    cases h1 : addOneQubit a [.X] q with
    | error e => rw [h1] at ha; simp [Except.map] at ha
    | ok a1 =>
      rw [h1] at ha; simp only [Except.map] at ha
      injection ha with ha; rw [← ha]
      exact (keepsM_addOneQubit a a1 _ q h1).trans (keepsM_gate a1 _)
  | CNOT c t =>
    simp only at ha
    split at ha
    · injection ha with ha; rw [← ha]; exact keepsM_addEmitterCnot a _ _
    · cases ha
  | CZ c t =>
    simp only at ha
    split at ha
    · cases h1 : addOneQubit a [.H] t with
      | error e => rw [h1] at ha; cases ha
      | ok a1 =>
        rw [h1] at ha; simp only at ha
        cases h2 : addOneQubit (addEmitterCnot (a1.gate (.H t)) (c - a.np) (t - a.np)) [.H] t with
        | error e => rw [h2] at ha; simp [Except.map] at ha
        | ok a3 =>
          rw [h2] at ha; simp only [Except.map] at ha
          injection ha with ha; rw [← ha]
          exact ((((keepsM_addOneQubit a a1 _ t h1).trans (keepsM_gate a1 _)).trans (keepsM_addEmitterCnot _ _ _)).trans
            (keepsM_addOneQubit _ a3 _ t h2)).trans (keepsM_gate a3 _)
    · cases ha
  | Pdag q => simp at ha
  | Y q => simp at ha
  | Z q => simp at ha
  | I q => simp at ha

end Graphiq.Solver
