/-
  Topo.lean — an acyclic circuit graph has a topological order (a linear extension that is injective on the nodes):
  position = (number of proper ancestors, index in the node list).
-/
import GraphiqModel.Proofs.Dag
set_option linter.unusedSectionVars false
set_option linter.unusedSimpArgs false
namespace Graphiq
namespace Dag
open Relation Classical

theorem length_filter_lt_of_imp {α : Type} {l : List α} {p q : α → Bool} (himp : ∀ x ∈ l, p x = true → q x = true)
    (hex : ∃ y ∈ l, q y = true ∧ p y = false) : (l.filter p).length < (l.filter q).length := by
  induction l with
  | nil => obtain ⟨y, hy, _⟩ := hex; simp at hy
  | cons a t ih =>
    have hle : (t.filter p).length ≤ (t.filter q).length := by
      rw [← List.countP_eq_length_filter, ← List.countP_eq_length_filter]
      apply List.countP_mono_left
      intro x hx hpx; exact himp x (List.mem_cons_of_mem _ hx) hpx
    obtain ⟨y, hy, hqy, hpy⟩ := hex
    by_cases hpa : p a = true
    · have hqa := himp a (by simp) hpa
      rw [List.filter_cons_of_pos hpa, List.filter_cons_of_pos hqa]
      rcases List.mem_cons.mp hy with rfl | hy
      · rw [hpa] at hpy; simp at hpy
      · have := ih (fun x hx => himp x (List.mem_cons_of_mem _ hx)) ⟨y, hy, hqy, hpy⟩
        simp only [List.length_cons]; omega
    · rw [List.filter_cons_of_neg hpa]
      by_cases hqa : q a = true
      · rw [List.filter_cons_of_pos hqa]; simp only [List.length_cons]; omega
      · rw [List.filter_cons_of_neg hqa]
        rcases List.mem_cons.mp hy with rfl | hy
        · exact absurd hqy hqa
        · exact ih (fun x hx => himp x (List.mem_cons_of_mem _ hx)) ⟨y, hy, hqy, hpy⟩

/-- number of nodes with a non-empty path to `a` -/
noncomputable def ancCount (c : Dag) (a : NodeId) : Nat :=
  (c.nodeIds.filter (fun x => decide (TransGen c.E x a))).length

theorem ancCount_lt {c : Dag} {P : Paths} (g : Good c P) {a b : NodeId} (hab : c.E a b) : ancCount c a < ancCount c b := by
  unfold ancCount
  apply length_filter_lt_of_imp
  · intro x _ hx
    have : TransGen c.E x a := by simpa using hx
    simpa using TransGen.tail this hab
  · refine ⟨a, (E_nodes g.inv hab).1, by simpa using TransGen.single hab, ?_⟩
    have : ¬ TransGen c.E a a := g.acyc a
    simpa using this

/-- a position function: ancestors first, ties broken by the index in the node list -/
noncomputable def topoPos (c : Dag) (a : NodeId) : Nat :=
  ancCount c a * (c.nodeIds.length + 1) + c.nodeIds.idxOf a

theorem topoPos_lt {c : Dag} {a b : NodeId} (ha : a ∈ c.nodeIds) (h : ancCount c a < ancCount c b) :
    topoPos c a < topoPos c b := by
  unfold topoPos
  have hi : c.nodeIds.idxOf a < c.nodeIds.length := List.idxOf_lt_length_of_mem ha
  have h1 : (ancCount c a + 1) * (c.nodeIds.length + 1) ≤ ancCount c b * (c.nodeIds.length + 1) :=
    Nat.mul_le_mul_right _ h
  rw [Nat.succ_mul] at h1
  omega

/-- **every circuit satisfying DagInv has a topological order**: a position function that increases along every edge and
    is injective on the nodes -/
theorem topo_exists {c : Dag} (h : DagInv c) :
    ∃ pos : NodeId → Nat, LinearExt c pos ∧ ∀ a ∈ c.nodeIds, ∀ b ∈ c.nodeIds, pos a = pos b → a = b := by
  obtain ⟨P, g⟩ := h
  refine ⟨topoPos c, ?_, ?_⟩
  · intro e he
    have hE : c.E e.src e.dst := ⟨e, he, rfl, rfl⟩
    exact topoPos_lt (E_nodes g.inv hE).1 (ancCount_lt g hE)
  · intro a ha b hb heq
    have hia : c.nodeIds.idxOf a < c.nodeIds.length := List.idxOf_lt_length_of_mem ha
    have hib : c.nodeIds.idxOf b < c.nodeIds.length := List.idxOf_lt_length_of_mem hb
    rcases Nat.lt_trichotomy (ancCount c a) (ancCount c b) with hlt | hEq | hgt
    · have := topoPos_lt ha hlt; omega
    · unfold topoPos at heq
      rw [hEq] at heq
      have hidx : c.nodeIds.idxOf a = c.nodeIds.idxOf b := by omega
      have e1 := List.getElem_idxOf hia
      have e2 := List.getElem_idxOf hib
      rw [← e1, ← e2]
      simp only [hidx]
    · have := topoPos_lt hb hgt; omega

end Dag
end Graphiq
