/-
  Proofs/EchelonCheck.lean — the executable predicate `STab.echelonB` is equivalent to the echelon form `Echelon` proved of `rref`.
-/
import GraphiqModel.Model.Echelon
import GraphiqModel.Proofs.EchelonSpan
namespace Graphiq
namespace STab

theorem mapM_option_of_forall {α : Type} (f : α → Option Nat) (g : α → Nat) (l : List α)
    (h : ∀ a, a ∈ l → f a = some (g a)) : l.mapM f = some (l.map g) := by
  induction l with
  | nil => rfl
  | cons a rest ih =>
    rw [List.mapM_cons, h a List.mem_cons_self, ih (fun x hx => h x (List.mem_cons_of_mem _ hx))]
    rfl

theorem getD_map_range (n i : Nat) (g : Nat → Nat) (hi : i < n) : ((List.range n).map g).getD i 0 = g i := by
  simp [List.getD_eq_getElem?_getD, hi]

theorem leftmost_some (t : STab) (i c : Nat) (h : t.leftmost i = some c) :
    c < t.n ∧ (∀ j, j < c → t.ptype i j = 0) ∧ t.ptype i c ≠ 0 := by
  unfold leftmost at h
  rw [List.head?_filter, List.find?_range_eq_some] at h
  refine ⟨List.mem_range.1 h.2.1, ?_, ?_⟩
  · intro j hj
    have := h.2.2 j hj
    apply (PRow.pt_eq_zero_iff _ _).2
    cases hb : ((t.row i).x j || (t.row i).z j)
    · rfl
    · rw [hb] at this; cases this
  · intro e
    have := (PRow.pt_eq_zero_iff _ _).1 e
    rw [this] at h; cases h.1

/-- an echelon tableau passes the executable check -/
theorem echelonB_of_echelon (t : STab) (piv : Nat → Nat) (he : Echelon t piv) : t.echelonB = true := by
  unfold echelonB
  have hm : (List.range t.n).mapM (fun i => t.leftmost i) = some ((List.range t.n).map piv) := by
    apply mapM_option_of_forall
    intro i hi
    have hl := he.lead i (List.mem_range.1 hi)
    exact leftmost_of_lead t i (piv i) hl.1 hl.2.1 hl.2.2
  rw [hm]
  simp only [List.all_eq_true, List.mem_range]
  intro i hi k hk
  rw [getD_map_range t.n i piv hi, getD_map_range t.n k piv hk]
  by_cases hik : i < k
  · have hs := he.sorted i k hik hk
    simp only [hik, decide_true, Bool.not_true, Bool.false_or, Bool.and_eq_true, decide_eq_true_eq, Bool.or_eq_true,
      bne_iff_ne, beq_iff_eq]
    refine ⟨hs.1, ?_⟩
    by_cases e : piv i = piv k
    · right; exact ⟨(hs.2 e).1, (hs.2 e).2⟩
    · left; exact e
  · simp [hik]

/-- the executable check is sound: a tableau that passes it is in echelon form -/
theorem echelon_of_echelonB (t : STab) (h : t.echelonB = true) : ∃ piv, Echelon t piv := by
  unfold echelonB at h
  cases hm : (List.range t.n).mapM (fun i => t.leftmost i) with
  | none => rw [hm] at h; cases h
  | some lm =>
    rw [hm] at h
    obtain ⟨hlm, hsome⟩ := mapM_option_some _ _ _ hm
    simp only [List.all_eq_true, List.mem_range] at h
    have hget : ∀ i, i < t.n → t.leftmost i = some (lm.getD i 0) := by
      intro i hi
      have hs := hsome i (List.mem_range.2 hi)
      rw [hlm, getD_map_range t.n i _ hi]
      cases hl : t.leftmost i with
      | none => rw [hl] at hs; cases hs
      | some c => rfl
    refine ⟨fun i => lm.getD i 0, ⟨fun i hi => leftmost_some t i _ (hget i hi), ?_⟩⟩
    intro i k hik hk
    have := h i (by omega) k hk
    simp only [hik, decide_true, Bool.not_true, Bool.false_or, Bool.and_eq_true, decide_eq_true_eq, Bool.or_eq_true,
      bne_iff_ne, beq_iff_eq] at this
    refine ⟨this.1, fun e => ?_⟩
    rcases this.2 with h2 | h2
    · exact absurd e h2
    · exact ⟨h2.1, h2.2⟩

theorem echelonB_iff (t : STab) : t.echelonB = true ↔ ∃ piv, Echelon t piv :=
  ⟨echelon_of_echelonB t, fun ⟨piv, he⟩ => echelonB_of_echelon t piv he⟩

/-- **every output of `rref` passes the executable echelon check**, unless its last row is the identity -/
theorem rref_echelonB (t t' : STab) (brs : List String) (hr : t.rref = .ok (t', brs)) :
    t'.echelonB = true ∨ (0 < t'.n ∧ ∀ j, j < t'.n → t'.ptype (t'.n - 1) j = 0) := by
  rcases rref_echelon_or_trivial t t' brs hr with ⟨piv, he⟩ | h
  · exact Or.inl (echelonB_of_echelon t' piv he)
  · exact Or.inr h

end STab
end Graphiq
