/-
  Proofs/CommuteProb.lean — the *probability* of an outcome assignment does not depend on the order.

  A Z measurement on a stabilizer state is either deterministic (probability 1 for the feasible outcome) or random
  (probability ½ for each outcome).  The probability of a whole outcome assignment is therefore `2^(-r)`, `r` = the number of
  measurements that were random when they were executed.  This file adds that counter to the state and proves that it, too,
  is the same in both orders of two operations on disjoint registers (`appRawR_comm`), and that the compile loop's `rand`
  record refines it (`run_refines_rand`).

  Key facts: a gate elsewhere does not change whether a measurement is random (`random_image_iff`); for two measurements
  `[q' random in G] + [q random after q'] = [q random in G] + [q' random after q]` (`random_count_comm`, from closure of
  the group under products alone).
-/
import GraphiqModel.Proofs.CommuteRecord
namespace Graphiq.Commute
open Graphiq PRow Tab TabSpec Classical
open Graphiq.Wire (Reg RegType SOp Item Kind G1 runSeq)

/-! ## group level -/

/-- a gate acting elsewhere does not change whether the measurement of `q` is random -/
theorem random_image_iff {n : Nat} {S : Nat → Prop} {f : PRow → PRow} (hl : Local S f) (H : PRow → Prop) {q : Nat}
    (hq : q < n) (hqS : ¬ S q) : Random (imageGrp n f H) q ↔ Random H q := by
  constructor
  · rintro ⟨P, ⟨Q, hQ, e⟩, hx⟩
    refine ⟨Q, hQ, ?_⟩
    rw [← hl.x_off hqS Q, ← (e.1 q hq).1]; exact hx
  · rintro ⟨Q, hQ, hx⟩
    exact ⟨f Q, ⟨Q, hQ, EqOn.refl _ _⟩, by rw [hl.x_off hqS Q]; exact hx⟩

/-- after the measurement of `q'`, the measurement of `q ≠ q'` is random iff some element of the old group anticommutes with
    `Z_q` and commutes with `Z_q'` -/
theorem random_measG_iff {n : Nat} (H : PRow → Prop) (q q' : Nat) (o' : Bool) :
    Random (measG n q' o' H) q ↔ ∃ h, H h ∧ h.x q' = false ∧ h.x q = true := by
  constructor
  · rintro ⟨P, ⟨hx', hP | hP⟩, hx⟩
    · exact ⟨P, hP, hx', hx⟩
    · refine ⟨_, hP, ?_, ?_⟩
      · simp only [mul_x, hx']; simp [Zq]
      · simp only [mul_x, hx]; simp [Zq]
  · rintro ⟨h, hh, hx', hx⟩
    exact ⟨h, ⟨hx', Or.inl hh⟩, hx⟩

def b2n (p : Prop) [Decidable p] : Nat := if p then 1 else 0

theorem b2n_congr {p q : Prop} [Decidable p] [Decidable q] (h : p ↔ q) : b2n p = b2n q := by
  unfold b2n
  by_cases hp : p
  · rw [if_pos hp, if_pos (h.mp hp)]
  · rw [if_neg hp, if_neg (fun hq => hp (h.mpr hq))]

/-- **the number of random measurements among two Z measurements does not depend on their order** — only closure of the
    group under products is used -/
theorem random_count_comm {n : Nat} (H : PRow → Prop) (hmul : ∀ a b, H a → H b → H (PRow.mul n a b)) (q q' : Nat)
    (o o' : Bool) :
    b2n (Random H q') + b2n (Random (measG n q' o' H) q) = b2n (Random H q) + b2n (Random (measG n q o H) q') := by
  have hA := random_measG_iff (n := n) H q q' o'
  have hB := random_measG_iff (n := n) H q' q o
  by_cases hRA : Random H q
  · by_cases hRB : Random H q'
    · -- both random: the two mixed conditions are equivalent
      have hiff : Random (measG n q' o' H) q ↔ Random (measG n q o H) q' := by
        rw [hA, hB]
        constructor
        · rintro ⟨h, hh, hx', hx⟩
          obtain ⟨k, hk, hkx⟩ := hRB
          by_cases hkq : k.x q = true
          · exact ⟨PRow.mul n h k, hmul _ _ hh hk, by simp [hx, hkq], by simp [hx', hkx]⟩
          · exact ⟨k, hk, by simpa using hkq, hkx⟩
        · rintro ⟨h, hh, hx, hx'⟩
          obtain ⟨k, hk, hkx⟩ := hRA
          by_cases hkq : k.x q' = true
          · exact ⟨PRow.mul n h k, hmul _ _ hh hk, by simp [hx', hkq], by simp [hx, hkx]⟩
          · exact ⟨k, hk, by simpa using hkq, hkx⟩
      by_cases h1 : Random (measG n q' o' H) q
      · simp [b2n, hRA, hRB, h1, hiff.mp h1]
      · have h2 : ¬ Random (measG n q o H) q' := fun h => h1 (hiff.mpr h)
        simp [b2n, hRA, hRB, h1, h2]
    · -- q random, q' not: after q' nothing changes for q; after q, q' stays deterministic
      have h1 : Random (measG n q' o' H) q := by
        rw [hA]
        obtain ⟨k, hk, hkx⟩ := hRA
        refine ⟨k, hk, ?_, hkx⟩
        cases hx : k.x q'
        · rfl
        · exact absurd ⟨k, hk, hx⟩ hRB
      have h2 : ¬ Random (measG n q o H) q' := by
        rw [hB]
        rintro ⟨h, hh, _, hx'⟩
        exact hRB ⟨h, hh, hx'⟩
      simp [b2n, hRA, hRB, h1, h2]
  · by_cases hRB : Random H q'
    · have h1 : ¬ Random (measG n q' o' H) q := by
        rw [hA]
        rintro ⟨h, hh, _, hx⟩
        exact hRA ⟨h, hh, hx⟩
      have h2 : Random (measG n q o H) q' := by
        rw [hB]
        obtain ⟨k, hk, hkx⟩ := hRB
        refine ⟨k, hk, ?_, hkx⟩
        cases hx : k.x q
        · rfl
        · exact absurd ⟨k, hk, hx⟩ hRA
      simp [b2n, hRA, hRB, h1, h2]
    · have h1 : ¬ Random (measG n q' o' H) q := by
        rw [hA]; rintro ⟨h, hh, _, hx⟩; exact hRA ⟨h, hh, hx⟩
      have h2 : ¬ Random (measG n q o H) q' := by
        rw [hB]; rintro ⟨h, hh, _, hx'⟩; exact hRB ⟨h, hh, hx'⟩
      simp [b2n, hRA, hRB, h1, h2]

/-! ## the shape of a decoded operation: at most one measurement, and it comes first -/

def isMeasP : Tab.Op → Bool
  | .meas .. => true
  | _ => false

theorem g1Prims_noMeas (g : G1) (q : Nat) : ∀ p, p ∈ g1Prims g q → isMeasP p = false := by
  intro p hp
  cases g <;> simp only [g1Prims, List.mem_singleton, List.not_mem_nil] at hp <;> subst hp <;> rfl

theorem decode_shape (ne np : Nat) (a : SOp) (d : Dec) (hdec : decode ne np a = some d) :
    (d.mreg = none ∧ ∀ o p, p ∈ d.prims o → isMeasP p = false) ∨
    (∃ r q, d.mreg = some r ∧ regIx ne np r = some q ∧
      ∀ o, ∃ rest, d.prims o = .meas q o :: rest ∧ ∀ p, p ∈ rest → isMeasP p = false) := by
  have h := hdec
  unfold decode at h
  split at h
  · next g r _ hregs =>
    cases hq : regIx ne np r with
    | none => rw [hq] at h; cases h
    | some q =>
      rw [hq] at h
      simp only [Option.map_some, Option.some.injEq] at h
      subst h
      exact Or.inl ⟨rfl, fun o p hp => g1Prims_noMeas g q p hp⟩
  · next _ _ r _ hregs =>
    cases hq : regIx ne np r with
    | none => rw [hq] at h; cases h
    | some q =>
      rw [hq] at h
      simp only [Option.map_some, Option.some.injEq] at h
      subst h
      exact Or.inr ⟨r, q, rfl, hq, fun o => ⟨[], rfl, fun p hp => by cases hp⟩⟩
  · next k _ _ c t _ hregs =>
    split at h
    · next qc qt hc ht =>
      cases k <;> simp only [pairPrims, Option.some.injEq, reduceCtorEq] at h
      all_goals subst h
      · exact Or.inl ⟨rfl, fun o p hp => by simp only [List.mem_singleton] at hp; subst hp; rfl⟩
      · exact Or.inl ⟨rfl, fun o p hp => by simp only [List.mem_singleton] at hp; subst hp; rfl⟩
      · refine Or.inr ⟨c, qc, rfl, hc, fun o => ⟨_, rfl, fun p hp => ?_⟩⟩
        cases o <;> simp only [if_true, Bool.false_eq_true, if_false, List.mem_singleton, List.not_mem_nil] at hp
        subst hp; rfl
      · refine Or.inr ⟨c, qc, rfl, hc, fun o => ⟨_, rfl, fun p hp => ?_⟩⟩
        cases o <;> simp only [if_true, Bool.false_eq_true, if_false, List.mem_singleton, List.not_mem_nil] at hp
        subst hp; rfl
      · refine Or.inr ⟨c, qc, rfl, hc, fun o => ⟨_, rfl, fun p hp => ?_⟩⟩
        cases o <;> simp only [if_true, Bool.false_eq_true, if_false, List.mem_cons, List.not_mem_nil, or_false] at hp
        rcases hp with rfl | rfl <;> rfl
    · cases h
  · cases h

/-- gate primitives elsewhere do not change whether the measurement of `q` is random -/
theorem random_runP_gates (n : Nat) (l : List Tab.Op) (hl : ∀ p, p ∈ l → isMeasP p = false) (q : Nat) (hq : q < n)
    (hsupp : ∀ p, p ∈ l → q ∉ primSupp p) (g g' : GState) (hg : IsTab n g) (h : runP n l (some g) = some g') :
    Random g'.G q ↔ Random g.G q := by
  induction l generalizing g with
  | nil => simp only [runP_nil, Option.some.injEq] at h; rw [h]
  | cons p l ih =>
    rw [runP_cons] at h
    by_cases hok : primOk n p = true
    · rcases prim_cases n p hok with ⟨q0, o0, rfl, _⟩ | ⟨f, hf, haf, hlf⟩
      · have := hl _ List.mem_cons_self; simp [isMeasP] at this
      · rw [hf] at h
        have hT' := isTab_gate hg f haf
        have := ih (fun p' hp' => hl p' (List.mem_cons_of_mem _ hp')) (fun p' hp' => hsupp p' (List.mem_cons_of_mem _ hp'))
          (specGate f g) hT' h
        rw [this]
        show Random (imageGrp g.n f g.G) q ↔ _
        rw [hg.n_eq]
        exact random_image_iff hlf g.G hq (hsupp p List.mem_cons_self)
    · rw [appP_not_ok n p hok, runP_none] at h; cases h

/-! ## the semantics with the counter of random measurements -/

/-- the qubit the operation measures -/
def mqubit (ne np : Nat) (a : SOp) : Option Nat := (decode ne np a).bind fun d => d.mreg.bind (regIx ne np)

/-- the operation's measurement is random in the group `g` -/
def randOf (ne np : Nat) (a : SOp) (g : GState) : Prop :=
  match mqubit ne np a with
  | some q => Random g.G q
  | none => False

/-- stabilizer group + outcome streams + number of random measurements so far -/
abbrev RawR := Option (GState × Script × Nat)

noncomputable def appRawR (ne np : Nat) (a : SOp) (s : RawR) : RawR :=
  s.bind fun st => (appRaw ne np a (some (st.1, st.2.1))).map fun x => (x.1, x.2, st.2.2 + b2n (randOf ne np a st.1))

theorem appRawR_eq (ne np : Nat) (a : SOp) (g : GState) (sc : Script) (k : Nat) :
    appRawR ne np a (some (g, sc, k)) =
      (appRaw ne np a (some (g, sc))).map fun x => (x.1, x.2, k + b2n (randOf ne np a g)) := rfl

/-- whether a measurement on `q` (a qubit the operation `a` does not touch) is random after `a` -/
theorem random_after (ne np : Nat) (a : SOp) (g ga : GState) (sc sca : Script) (hT : IsTab (ne + np) g)
    (h : appRaw ne np a (some (g, sc)) = some (ga, sca)) (q : Nat) (hq : q < ne + np)
    (hqa : ∀ r, r ∈ a.regs → regIx ne np r ≠ some q) :
    Random ga.G q ↔
      match mqubit ne np a with
      | some qa => Random (measG (ne + np) qa (outOf ne np a sc) g.G) q
      | none => Random g.G q := by
  cases hd : decode ne np a with
  | none => rw [appRaw_undecodable ne np a hd] at h; cases h
  | some d =>
    have hw := decode_within ne np a d hd
    have e := appRaw_map ne np a d hd (some g) sc
    simp only [Option.map_some] at e
    rw [e] at h
    split at h
    swap
    · cases h
    cases hr : runP (ne + np) (d.prims (d.out sc)) (some g) with
    | none => rw [hr] at h; cases h
    | some g1 =>
      rw [hr] at h
      simp only [Option.map_some, Option.some.injEq, Prod.mk.injEq] at h
      obtain ⟨h1, _⟩ := h
      subst h1
      have hsupp : ∀ p, p ∈ d.prims (d.out sc) → q ∉ primSupp p := by
        intro p hp hin
        obtain ⟨r, hr', hrq⟩ := hw.2 _ p hp q hin
        exact hqa r hr' hrq
      have hout : outOf ne np a sc = d.out sc := by simp [outOf, hd]
      rcases decode_shape ne np a d hd with ⟨hm, hng⟩ | ⟨r, qa, hm, hrq, hsh⟩
      · have hmq : mqubit ne np a = none := by simp [mqubit, hd, hm]
        rw [hmq]
        exact random_runP_gates (ne + np) _ (hng _) q hq hsupp g g1 hT hr
      · have hmq : mqubit ne np a = some qa := by simp [mqubit, hd, hm, hrq]
        rw [hmq, hout]
        obtain ⟨rest, hprims, hrest⟩ := hsh (d.out sc)
        rw [hprims, runP_cons, appP_meas _ _ _ (regIx_lt hrq), measStep_some hT qa _ (regIx_lt hrq)] at hr
        split at hr
        · rw [runP_none] at hr; cases hr
        · next hfe =>
          have hT1 := isTab_measG hT qa (d.out sc) (regIx_lt hrq) hfe
          have hs2 : ∀ p, p ∈ rest → q ∉ primSupp p := fun p hp => hsupp p (by rw [hprims]; exact List.mem_cons_of_mem _ hp)
          exact random_runP_gates (ne + np) rest hrest q hq hs2 _ g1 hT1 hr

theorem mqubit_mem (ne np : Nat) (a : SOp) (q : Nat) (h : mqubit ne np a = some q) :
    q < ne + np ∧ ∃ r, r ∈ a.regs ∧ regIx ne np r = some q := by
  unfold mqubit at h
  cases hd : decode ne np a with
  | none => rw [hd] at h; cases h
  | some d =>
    rw [hd] at h
    simp only [Option.bind_some] at h
    cases hm : d.mreg with
    | none => rw [hm] at h; cases h
    | some r =>
      rw [hm] at h
      simp only [Option.bind_some] at h
      exact ⟨regIx_lt h, r, (decode_within ne np a d hd).1 r hm, h⟩

/-- **the counter of random measurements commutes too**: two operations on disjoint registers, both orders possible -/
theorem rand_count_comm (ne np : Nat) (a b : SOp) (hd : ∀ r, r ∈ a.regs → r ∉ b.regs) (g ga gb : GState)
    (sc sca scb : Script) (hT : IsTab (ne + np) g) (ha : appRaw ne np a (some (g, sc)) = some (ga, sca))
    (hb : appRaw ne np b (some (g, sc)) = some (gb, scb)) :
    b2n (randOf ne np b g) + b2n (randOf ne np a gb) = b2n (randOf ne np a g) + b2n (randOf ne np b ga) := by
  have hmul := hT.stab.mul
  unfold randOf
  cases hqa : mqubit ne np a with
  | none =>
    simp only [b2n, if_false, Nat.add_zero, Nat.zero_add]
    cases hqb : mqubit ne np b with
    | none => rfl
    | some qb =>
      simp only
      obtain ⟨hqb_lt, rb, hrb, hrbq⟩ := mqubit_mem ne np b qb hqb
      have := random_after ne np a g ga sc sca hT ha qb hqb_lt
        (fun r hr e => hd r hr (regIx_inj e hrbq ▸ hrb))
      rw [hqa] at this
      simp only at this
      by_cases hR : Random g.G qb
      · rw [if_pos hR, if_pos (this.mpr hR)]
      · rw [if_neg hR, if_neg (fun h => hR (this.mp h))]
  | some qa =>
    obtain ⟨hqa_lt, ra, hra, hraq⟩ := mqubit_mem ne np a qa hqa
    have hA := random_after ne np b g gb sc scb hT hb qa hqa_lt
      (fun r hr e => hd ra hra (regIx_inj hraq e ▸ hr))
    cases hqb : mqubit ne np b with
    | none =>
      rw [hqb] at hA
      simp only at hA ⊢
      simp only [b2n, if_false, Nat.add_zero, Nat.zero_add]
      by_cases hR : Random g.G qa
      · rw [if_pos hR, if_pos (hA.mpr hR)]
      · rw [if_neg hR, if_neg (fun h => hR (hA.mp h))]
    | some qb =>
      obtain ⟨hqb_lt, rb, hrb, hrbq⟩ := mqubit_mem ne np b qb hqb
      have hB := random_after ne np a g ga sc sca hT ha qb hqb_lt
        (fun r hr e => hd r hr (regIx_inj e hrbq ▸ hrb))
      rw [hqb] at hA
      rw [hqa] at hB
      simp only at hA hB ⊢
      have key := random_count_comm (n := ne + np) g.G hmul qa qb (outOf ne np a sc) (outOf ne np b sc)
      rw [b2n_congr hA, b2n_congr hB]
      exact key

def OkRawR (n : Nat) (s : RawR) : Prop := ∀ g sc k, s = some (g, sc, k) → IsTab n g

theorem appRawR_none (ne np : Nat) (a : SOp) : appRawR ne np a none = none := rfl

/-- **operations on disjoint quantum registers commute, the number of random measurements included** — so an outcome
    assignment has the same probability `2^(-r)` in both orders -/
theorem appRawR_comm (ne np : Nat) (a b : SOp) (hd : ∀ r, r ∈ a.regs → r ∉ b.regs) (s : RawR)
    (hs : OkRawR (ne + np) s) : appRawR ne np a (appRawR ne np b s) = appRawR ne np b (appRawR ne np a s) := by
  cases s with
  | none => rfl
  | some st =>
    obtain ⟨g, sc, k⟩ := st
    have hT := hs g sc k rfl
    have hok : OkRaw (ne + np) (some (g, sc)) := fun g' sc' h => by cases h; exact hT
    have hcomm := appRaw_comm ne np a b hd (some (g, sc)) hok
    rw [appRawR_eq, appRawR_eq]
    cases hb : appRaw ne np b (some (g, sc)) with
    | none =>
      rw [hb, appRaw_none] at hcomm
      cases ha : appRaw ne np a (some (g, sc)) with
      | none => rfl
      | some xa =>
        obtain ⟨ga, sca⟩ := xa
        rw [ha] at hcomm
        simp only [Option.map_none, Option.map_some, appRawR_none, appRawR_eq, ← hcomm]
    | some xb =>
      obtain ⟨gb, scb⟩ := xb
      rw [hb] at hcomm
      cases ha : appRaw ne np a (some (g, sc)) with
      | none =>
        rw [ha, appRaw_none] at hcomm
        simp only [Option.map_none, Option.map_some, appRawR_none, appRawR_eq, hcomm]
      | some xa =>
        obtain ⟨ga, sca⟩ := xa
        rw [ha] at hcomm
        simp only [Option.map_some, appRawR_eq, hcomm]
        have hcnt := rand_count_comm ne np a b hd g ga gb sc sca scb hT ha hb
        have : k + b2n (randOf ne np b g) + b2n (randOf ne np a gb) = k + b2n (randOf ne np a g) + b2n (randOf ne np b ga) := by
          omega
        rw [this]

theorem appRawR_ok (ne np : Nat) (a : SOp) {s : RawR} (hs : OkRawR (ne + np) s) : OkRawR (ne + np) (appRawR ne np a s) := by
  intro g' sc' k' h
  cases s with
  | none => cases h
  | some st =>
    obtain ⟨g, sc, k⟩ := st
    rw [appRawR_eq] at h
    cases hr : appRaw ne np a (some (g, sc)) with
    | none => rw [hr] at h; cases h
    | some x =>
      rw [hr] at h
      simp only [Option.map_some, Option.some.injEq, Prod.mk.injEq] at h
      have := appRaw_ok ne np a (s := some (g, sc)) (fun g0 sc0 h0 => by cases h0; exact hs g sc k rfl) x.1 x.2 hr
      rw [← h.1]; exact this

/-- states with the counter -/
def RSt (ne np : Nat) : Type := { s : RawR // OkRawR (ne + np) s }

noncomputable def appR (ne np : Nat) (a : SOp) (s : RSt ne np) : RSt ne np := ⟨appRawR ne np a s.1, appRawR_ok ne np a s.2⟩

theorem appR_comm (ne np : Nat) (a b : SOp) (hd : ∀ r, r ∈ a.regs → r ∉ b.regs) (s : RSt ne np) :
    appR ne np a (appR ne np b s) = appR ne np b (appR ne np a s) :=
  Subtype.ext (appRawR_comm ne np a b hd s.1 s.2)

theorem runSeq_appR_val (ne np : Nat) (l : List SOp) (s : RSt ne np) :
    (runSeq (appR ne np) l s).1 = runSeq (appRawR ne np) l s.1 := by
  induction l generalizing s with
  | nil => rfl
  | cons a l ih => exact ih (appR ne np a s)

noncomputable def RSt.init (ne np : Nat) (sc : Script) : RSt ne np :=
  ⟨some (gstate (Tab.ket0 (ne + np)), sc, 0), fun g sc' k h => by
    simp only [Option.some.injEq, Prod.mk.injEq] at h
    rw [← h.1]; exact isTab_ket0 _⟩

/-! ## the compile loop's `rand` record refines the counter -/

/-- the qubit a circuit operation measures -/
def cMq (np : Nat) : COp → Option Nat
  | .ccx c _ _ | .ccz c _ _ | .mcr c _ _ => some (qIndex np c)
  | .measz q _ => some (qIndex np q)
  | _ => none

/-- one step appends to `rand` whether its measurement (if any) was random -/
theorem stepOp_rand (np n : Nat) (d : Det) (s s' : RunState) (op : COp) (h : stepOp np n d s op = some s') :
    s'.rand = s.rand ++ (match cMq np op with
      | some q => [(s.t.pivot q).isSome]
      | none => []) := by
  cases op <;> simp only [stepOp] at h <;> split at h <;> (try cases h)
  · simp [cMq]
  · simp [cMq]
  · simp [cMq]
  · simp [cMq]
  · rfl
  · rfl
  · rfl
  · rfl
  · simp [cMq]

theorem decode_mq (ne np : Nat) (a : SOp) (d : Dec) (hdec : decode ne np a = some d) :
    mqubit ne np a = cMq np (toCOp a) := by
  have h := hdec
  unfold decode at h
  unfold mqubit
  rw [hdec]
  simp only [Option.bind_some]
  unfold toCOp
  split at h
  · next g r hitem hregs =>
    rw [hitem, hregs]
    cases hq : regIx ne np r with
    | none => rw [hq] at h; cases h
    | some q =>
      rw [hq] at h
      simp only [Option.map_some, Option.some.injEq] at h
      subst h
      cases g <;> rfl
  · next _ cr r hitem hregs =>
    rw [hitem, hregs]
    cases hq : regIx ne np r with
    | none => rw [hq] at h; cases h
    | some q =>
      rw [hq] at h
      simp only [Option.map_some, Option.some.injEq] at h
      subst h
      simp only [Option.bind_some, hq, cMq, regIx_qIndex hq]
  · next k _ cr c t hitem hregs =>
    split at h
    · next qc qt hc ht =>
      rw [hitem, hregs]
      cases k <;> simp only [pairPrims, Option.some.injEq, reduceCtorEq] at h
      all_goals subst h
      all_goals simp only [Option.bind_some, Option.bind_none, hc, cMq, pairCOp, regIx_qIndex hc]
    · cases h
  · cases h

/-- **a whole run with the counter**: the number of measurements the compile loop found random (`rand`) is the counter of
    the group semantics -/
theorem run_refines_rand (ne np : Nat) (d : Det) (l : List SOp)
    (hok : ∀ a, a ∈ l → (decode ne np a).isSome = true ∧ a.regs.Nodup) (s s' : RunState) (ht : TInv (ne + np) s.t)
    (hs : (l.map toCOp).foldlM (stepOp np (ne + np) d) s = some s') :
    ∃ new : List Bool, s'.outs = s.outs ++ new ∧
      ∀ sc, runSeq (appRawR ne np) l (some (gstate s.t, feed ne np l new sc, s.rand.count true)) =
        some (gstate s'.t, sc, s'.rand.count true) := by
  induction l generalizing s with
  | nil =>
    simp only [List.map_nil, List.foldlM, Option.pure_def, Option.some.injEq] at hs
    subst hs
    exact ⟨[], by simp, fun sc => rfl⟩
  | cons a l ih =>
    simp only [List.map_cons, List.foldlM] at hs
    cases h1 : stepOp np (ne + np) d s (toCOp a) with
    | none => rw [h1] at hs; simp at hs
    | some s1 =>
      rw [h1] at hs
      simp only [Option.bind_eq_bind, Option.bind_some] at hs
      obtain ⟨hd1, hd2⟩ := hok a List.mem_cons_self
      obtain ⟨dd, hdd⟩ := Option.isSome_iff_exists.mp hd1
      obtain ⟨ht1, new1, hn1, hlen1, _, hstep⟩ := sop_step ne np d a hd1 hd2 s s1 ht h1
      have hrand := stepOp_rand np (ne + np) d s s1 (toCOp a) h1
      obtain ⟨new2, hn2, hr2⟩ := ih (fun b hb => hok b (List.mem_cons_of_mem _ hb)) s1 ht1 hs
      refine ⟨new1 ++ new2, by rw [hn2, hn1, List.append_assoc], fun sc => ?_⟩
      rw [Wire.runSeq_cons, feed_cons ne np a l new1 new2 sc hlen1, appRawR_eq, (hstep _).1]
      simp only [Option.map_some]
      have hcnt : s.rand.count true + b2n (randOf ne np a (gstate s.t)) = s1.rand.count true := by
        rw [hrand, List.count_append]
        congr 1
        unfold randOf
        rw [decode_mq ne np a dd hdd]
        cases hmq : cMq np (toCOp a) with
        | none => simp [b2n]
        | some q =>
          simp only
          have hq : q < s.t.n := by
            have := mqubit_mem ne np a q (by rw [decode_mq ne np a dd hdd]; exact hmq)
            rw [ht.n_eq]; exact this.1
          have hiff := random_iff_pivot s.t q hq
          rw [b2n_congr (show Random (gstate s.t).G q ↔ (s.t.pivot q).isSome = true from hiff)]
          cases (s.t.pivot q).isSome <;> simp [b2n]
      rw [hcnt]
      exact hr2 sc

theorem stabRun_refines_rand (c : Wire.Circuit) (hgood : c.Good) (har : ArityOk c) (seq : List Nat) (d : Det)
    (script : List Bool) (s' : RunState) (h : stabRun c.ne c.np d script ((c.sops seq).map toCOp) = some s') :
    ∀ sc, runSeq (appRawR c.ne c.np) (c.sops seq)
        (some (gstate (Tab.ket0 (c.ne + c.np)), feed c.ne c.np (c.sops seq) s'.outs sc, 0)) =
      some (gstate s'.t, sc, s'.rand.count true) := by
  obtain ⟨new, hnew, hrun⟩ := run_refines_rand c.ne c.np d (c.sops seq) (sops_ok c hgood har seq)
    { t := Tab.ket0 (c.ne + c.np), writes := [], script := script, rand := [], outs := [] } s' (tinv_ket0 _) h
  simp only [List.nil_append] at hnew
  rw [hnew]
  intro sc
  exact hrun sc

end Graphiq.Commute
