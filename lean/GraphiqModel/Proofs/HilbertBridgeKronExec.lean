/-
  Proofs/HilbertBridgeKronExec.lean — the *closed forms* in which `Model/DMSem.lean` writes graphiq's gate builders are the
  *literal* Kronecker constructions of functions.py, for every `n` and every position (`Mat.kron` = `np.kron`,
  `Mat.eye` = `np.eye`/`np.identity`), as equalities of executable matrices (`Mat.EqOn`):

  * `getOneQubitGate_eq_kron` : `np.kron(np.kron(I_{2^q}, g), I_{2^(n-q-1)})`;
  * `getTwoQubitControlledGate_eq_literal` : `np.eye(2^n) + K/2` with
      `K = kron(kron(kron(kron(I_{2^c}, I₂ − Z), I_{2^(t-c-1)}), g − I₂), I_{2^(n-t-1)})` for `c < t` and
      `K = kron(kron(kron(kron(I_{2^t}, g − I₂), I_{2^(c-t-1)}), I₂ − Z), I_{2^(n-c-1)})` for `c > t`;
  * `projectorsZ_eq_literal` : `reduce(np.kron, [P_s if i == q else I₂ for i in range(n)])`;
  * `rho0_eq_literal` : `reduce(np.kron, n * [|0⟩⟨0|])` (`create_n_product_state`).

  Method: `Rep` is compatible with `kron` by a 2×2 block on a new last qubit (`rep_kronLast`) and by an identity block
  (`rep_kronEye`); on the Hilbert side the chains are `oneQ` / `twoQ` by the Kronecker recursions of
  Proofs/HilbertKron.lean and Proofs/HilbertBridgeKron.lean; two executable matrices representing the same complex
  matrix are entrywise equal (`rep_eqOn`).
-/
import GraphiqModel.Proofs.HilbertBridgeKron
import GraphiqModel.Proofs.HilbertBridgeDensity
namespace Graphiq
namespace Hilbert
open Matrix

/-! ### the one-qubit embedding, directly -/

/-- **the closed form of the executable one-qubit embedding is the literal double Kronecker product**
    `np.kron(np.kron(np.identity(a), g), np.identity(b))` of `get_one_qubit_gate` -/
theorem embed1_eq_kron (a b : Nat) (g : Mat) (hg : g.n = 2) :
    Mat.EqOn (DM.embed1 a b g) (Mat.kron (Mat.kron (Mat.eye a) g) (Mat.eye b)) := by
  refine ⟨by simp [DM.embed1, Mat.kron, Mat.eye, hg], fun i j _ _ => ?_⟩
  show (if i / (2 * b) = j / (2 * b) ∧ i % b = j % b then g.e ((i / b) % 2) ((j / b) % 2) else 0)
    = ((if i / b / g.n = j / b / g.n then (1 : GQ) else 0) * g.e (i / b % g.n) (j / b % g.n)) * (if i % b = j % b then 1 else 0)
  rw [hg, Nat.div_div_eq_div_mul, Nat.div_div_eq_div_mul, Nat.mul_comm b 2]
  by_cases h1 : i / (2 * b) = j / (2 * b)
  · by_cases h2 : i % b = j % b
    · rw [if_pos ⟨h1, h2⟩, if_pos h1, if_pos h2]; ring
    · rw [if_neg (fun h => h2 h.2), if_neg h2]; ring
  · rw [if_neg (fun h => h1 h.1), if_neg h1]; ring

theorem getOneQubitGate_eq_kron (n q : Nat) (g : Mat) (hg : g.n = 2) (hn : n ≠ 1) :
    Mat.EqOn (DM.getOneQubitGate n q g)
      (Mat.kron (Mat.kron (Mat.eye (DM.pow2 q)) g) (Mat.eye (DM.pow2 (n - q - 1)))) := by
  have : DM.getOneQubitGate n q g = DM.embed1 (DM.pow2 q) (DM.pow2 (n - q - 1)) g := by
    unfold DM.getOneQubitGate DM.embed1
    rw [if_neg hn]
  rw [this]
  exact embed1_eq_kron _ _ g hg

/-! ### Kronecker products on the Hilbert side -/

/-- `X ⊗ v` with the 2×2 block `v` on a new last qubit -/
noncomputable def kronLast {m : Nat} (X : DMat m) (v : Matrix Bool Bool ℂ) : DMat (m + 1) :=
  Matrix.of fun a b => X (initB a) (initB b) * v (lastB a) (lastB b)

/-- `X ⊗ 1_{2^k}` -/
noncomputable def kronEye {m : Nat} (X : DMat m) : (k : Nat) → DMat (m + k)
  | 0 => X
  | k + 1 => kronLast (kronEye X k) 1

theorem kronLast_one (m : Nat) (v : Matrix Bool Bool ℂ) : kronLast (1 : DMat m) v = oneQ (m + 1) m v := by
  ext a b; exact (oneQ_succ_last m v a b).symm

theorem kronEye_oneQ (m q : Nat) (hq : q < m) (u : Matrix Bool Bool ℂ) : ∀ k, kronEye (oneQ m q u) k = oneQ (m + k) q u
  | 0 => rfl
  | k + 1 => by
    show kronLast (kronEye (oneQ m q u) k) 1 = oneQ (m + k + 1) q u
    rw [kronEye_oneQ m q hq u k]
    ext a b; exact (oneQ_succ_lower (m + k) q (by omega) u a b).symm

theorem kronLast_oneQ (m c : Nat) (hc : c < m) (u v : Matrix Bool Bool ℂ) : kronLast (oneQ m c u) v = twoQ (m + 1) c m u v := by
  ext a b; exact (twoQ_succ_target_last m c hc u v a b).symm

theorem kronLast_oneQ' (m t : Nat) (ht : t < m) (u v : Matrix Bool Bool ℂ) : kronLast (oneQ m t v) u = twoQ (m + 1) m t u v := by
  ext a b; exact (twoQ_succ_control_last m t ht u v a b).symm

theorem kronEye_twoQ (m c t : Nat) (hc : c < m) (ht : t < m) (u v : Matrix Bool Bool ℂ) :
    ∀ k, kronEye (twoQ m c t u v) k = twoQ (m + k) c t u v
  | 0 => rfl
  | k + 1 => by
    show kronLast (kronEye (twoQ m c t u v) k) 1 = twoQ (m + k + 1) c t u v
    rw [kronEye_twoQ m c t hc ht u v k]
    ext a b; exact (twoQ_succ_lower (m + k) c t (by omega) (by omega) u v a b).symm

/-! ### `Rep` and `Mat.kron` -/

theorem idx_succ_div (m : Nat) (a : Bits (m + 1)) : idx (m + 1) a / 2 = idx m (initB a) := by
  simp only [idx]; split <;> omega

theorem idx_succ_mod (m : Nat) (a : Bits (m + 1)) : idx (m + 1) a % 2 = b2n (lastB a) := by
  simp only [idx, b2n]; split <;> omega

/-- a 2×2 block on a new last qubit -/
theorem rep_kronLast {m : Nat} {x y : Mat} {X : DMat m} {v : Matrix Bool Bool ℂ} (hx : Rep m x X) (hy : Rep2 y v) :
    Rep (m + 1) (Mat.kron x y) (kronLast X v) := by
  refine ⟨by show x.n * y.n = 2 ^ (m + 1); rw [hx.1, hy.1, pow_succ], fun a b => ?_⟩
  show gqC (x.e (idx (m + 1) a / y.n) (idx (m + 1) b / y.n) * y.e (idx (m + 1) a % y.n) (idx (m + 1) b % y.n)) = _
  rw [hy.1, idx_succ_div, idx_succ_div, idx_succ_mod, idx_succ_mod, map_mul, hx.2, hy.2]
  rfl

theorem id2_entry (x y : Nat) (hx : x < 2) (hy : y < 2) : Mat.id2.e x y = if x = y then 1 else 0 := by
  have h1 : x = 0 ∨ x = 1 := by omega
  have h2 : y = 0 ∨ y = 1 := by omega
  rcases h1 with rfl | rfl <;> rcases h2 with rfl | rfl <;> simp [Mat.id2, Mat.m2]

theorem mod_pow_succ_eq_iff (i j k : Nat) :
    i % 2 ^ (k + 1) = j % 2 ^ (k + 1) ↔ (i / 2) % 2 ^ k = (j / 2) % 2 ^ k ∧ i % 2 = j % 2 := by
  rw [show 2 ^ (k + 1) = 2 * 2 ^ k by rw [pow_succ, Nat.mul_comm], Nat.mod_mul, Nat.mod_mul]
  have hi : i % 2 < 2 := Nat.mod_lt _ (by norm_num)
  have hj : j % 2 < 2 := Nat.mod_lt _ (by norm_num)
  constructor
  · intro h; constructor <;> omega
  · intro ⟨h1, h2⟩; rw [h1, h2]

/-- `np.kron(x, np.eye(2^(k+1)))` is `np.kron(np.kron(x, np.eye(2^k)), np.eye(2))` -/
theorem kron_eye_succ (x : Mat) (k : Nat) :
    Mat.EqOn (Mat.kron x (Mat.eye (2 ^ (k + 1)))) (Mat.kron (Mat.kron x (Mat.eye (2 ^ k))) Mat.id2) := by
  refine ⟨by show x.n * 2 ^ (k + 1) = x.n * 2 ^ k * 2; rw [pow_succ, Nat.mul_assoc], fun i j _ _ => ?_⟩
  show x.e (i / 2 ^ (k + 1)) (j / 2 ^ (k + 1)) * (if i % 2 ^ (k + 1) = j % 2 ^ (k + 1) then 1 else 0)
    = (x.e (i / 2 / 2 ^ k) (j / 2 / 2 ^ k) * (if i / 2 % 2 ^ k = j / 2 % 2 ^ k then 1 else 0)) * Mat.id2.e (i % 2) (j % 2)
  rw [id2_entry _ _ (Nat.mod_lt _ (by norm_num)) (Nat.mod_lt _ (by norm_num)), Nat.div_div_eq_div_mul,
    Nat.div_div_eq_div_mul, show 2 * 2 ^ k = 2 ^ (k + 1) by rw [pow_succ, Nat.mul_comm]]
  by_cases h : i % 2 ^ (k + 1) = j % 2 ^ (k + 1)
  · obtain ⟨h1, h2⟩ := (mod_pow_succ_eq_iff i j k).mp h
    rw [if_pos h, if_pos h1, if_pos h2]; ring
  · rw [if_neg h]
    by_cases h1 : i / 2 % 2 ^ k = j / 2 % 2 ^ k
    · have h2 : ¬ i % 2 = j % 2 := fun h2 => h ((mod_pow_succ_eq_iff i j k).mpr ⟨h1, h2⟩)
      rw [if_neg h2]; ring
    · rw [if_neg h1]; ring

/-- an identity block on `k` new last qubits -/
theorem rep_kronEye {m : Nat} {x : Mat} {X : DMat m} (hx : Rep m x X) :
    ∀ k, Rep (m + k) (Mat.kron x (Mat.eye (2 ^ k))) (kronEye X k)
  | 0 => by
    refine ⟨by show x.n * 2 ^ 0 = 2 ^ m; rw [hx.1]; simp, fun a b => ?_⟩
    show gqC (x.e (idx m a / 2 ^ 0) (idx m b / 2 ^ 0) * (if idx m a % 2 ^ 0 = idx m b % 2 ^ 0 then 1 else 0)) = X a b
    simp only [pow_zero, Nat.div_one, Nat.mod_one, if_true, mul_one]
    exact hx.2 a b
  | k + 1 => (rep_kronLast (rep_kronEye hx k) rep2_id2).of_eqOn (kron_eye_succ x k)

theorem Rep.sub {n : Nat} {x y : Mat} {X Y : DMat n} (hx : Rep n x X) (hy : Rep n y Y) : Rep n (x.sub y) (X - Y) := by
  refine ⟨hx.1, fun a b => ?_⟩
  show gqC (x.e _ _ - y.e _ _) = _
  rw [map_sub, hx.2, hy.2, Matrix.sub_apply]

theorem rep2_sub {g h : Mat} {u v : Matrix Bool Bool ℂ} (hg : Rep2 g u) (hh : Rep2 h v) : Rep2 (Mat.sub g h) (u - v) := by
  refine ⟨hg.1, fun x y => ?_⟩
  show gqC (g.e _ _ - h.e _ _) = _
  rw [map_sub, hg.2, hh.2, Matrix.sub_apply]

/-- every 2×2 `Mat` represents the block of its own entries -/
theorem rep2_self (g : Mat) (hg : g.n = 2) : Rep2 g (Matrix.of fun x y => gqC (g.e (b2n x) (b2n y))) := ⟨hg, fun _ _ => rfl⟩

/-! ### the controlled gate -/

/-- the literal construction of `get_two_qubit_controlled_gate` (both branches) -/
def literalCtrl (n c t : Nat) (g : Mat) : Mat :=
  let K : Mat :=
    if c < t then
      Mat.kron (Mat.kron (Mat.kron (Mat.kron (Mat.eye (2 ^ c)) (Mat.sub Mat.id2 Mat.sigmaz)) (Mat.eye (2 ^ (t - c - 1))))
        (Mat.sub g Mat.id2)) (Mat.eye (2 ^ (n - t - 1)))
    else
      Mat.kron (Mat.kron (Mat.kron (Mat.kron (Mat.eye (2 ^ t)) (Mat.sub g Mat.id2)) (Mat.eye (2 ^ (c - t - 1))))
        (Mat.sub Mat.id2 Mat.sigmaz)) (Mat.eye (2 ^ (n - c - 1)))
  Mat.add (Mat.eye (2 ^ n)) (Mat.smul (1 / 2) K)

/-- the chain for `control < target`, on `c + 1 + B + 1 + C` qubits -/
theorem rep_chain_lt (c B C : Nat) (g : Mat) (u : Matrix Bool Bool ℂ) (hg : Rep2 g u) :
    Rep (c + 1 + B + 1 + C)
      (Mat.kron (Mat.kron (Mat.kron (Mat.kron (Mat.eye (2 ^ c)) (Mat.sub Mat.id2 Mat.sigmaz)) (Mat.eye (2 ^ B)))
        (Mat.sub g Mat.id2)) (Mat.eye (2 ^ C)))
      (twoQ (c + 1 + B + 1 + C) c (c + 1 + B) (1 - sigmaZ) (u - 1)) := by
  have h1 := rep_kronLast (Rep.eye c) (rep2_sub rep2_id2 rep2_sigmaz)
  rw [kronLast_one] at h1
  have h2 := rep_kronEye h1 B
  rw [kronEye_oneQ (c + 1) c (by omega)] at h2
  have h3 := rep_kronLast h2 (rep2_sub hg rep2_id2)
  rw [kronLast_oneQ (c + 1 + B) c (by omega)] at h3
  have h4 := rep_kronEye h3 C
  rw [kronEye_twoQ (c + 1 + B + 1) c (c + 1 + B) (by omega) (by omega)] at h4
  exact h4

/-- the chain for `control > target`, on `t + 1 + B + 1 + C` qubits -/
theorem rep_chain_gt (t B C : Nat) (g : Mat) (u : Matrix Bool Bool ℂ) (hg : Rep2 g u) :
    Rep (t + 1 + B + 1 + C)
      (Mat.kron (Mat.kron (Mat.kron (Mat.kron (Mat.eye (2 ^ t)) (Mat.sub g Mat.id2)) (Mat.eye (2 ^ B)))
        (Mat.sub Mat.id2 Mat.sigmaz)) (Mat.eye (2 ^ C)))
      (twoQ (t + 1 + B + 1 + C) (t + 1 + B) t (1 - sigmaZ) (u - 1)) := by
  have h1 := rep_kronLast (Rep.eye t) (rep2_sub hg rep2_id2)
  rw [kronLast_one] at h1
  have h2 := rep_kronEye h1 B
  rw [kronEye_oneQ (t + 1) t (by omega)] at h2
  have h3 := rep_kronLast h2 (rep2_sub rep2_id2 rep2_sigmaz)
  rw [kronLast_oneQ' (t + 1 + B) t (by omega)] at h3
  have h4 := rep_kronEye h3 C
  rw [kronEye_twoQ (t + 1 + B + 1) (t + 1 + B) t (by omega) (by omega)] at h4
  exact h4

theorem rep_literalCtrl (n c t : Nat) (hc : c < n) (ht : t < n) (hct : c ≠ t) (g : Mat) (u : Matrix Bool Bool ℂ)
    (hg : Rep2 g u) : Rep n (literalCtrl n c t g) (ctrlG n c t u) := by
  unfold literalCtrl ctrlG
  simp only
  by_cases hlt : c < t
  · rw [if_pos hlt]
    obtain ⟨B, hB⟩ : ∃ B, t = c + 1 + B := ⟨t - c - 1, by omega⟩
    obtain ⟨C, hC⟩ : ∃ C, n = t + 1 + C := ⟨n - t - 1, by omega⟩
    subst hB
    subst hC
    have e1 : c + 1 + B - c - 1 = B := by omega
    have e2 : c + 1 + B + 1 + C - (c + 1 + B) - 1 = C := by omega
    rw [e1, e2]
    have := Rep.add (Rep.eye (c + 1 + B + 1 + C)) (Rep.smul (1 / 2) (rep_chain_lt c B C g u hg))
    refine this.congr ?_
    congr 2
    norm_num
  · rw [if_neg hlt]
    have hgt : t < c := by omega
    obtain ⟨B, hB⟩ : ∃ B, c = t + 1 + B := ⟨c - t - 1, by omega⟩
    obtain ⟨C, hC⟩ : ∃ C, n = c + 1 + C := ⟨n - c - 1, by omega⟩
    subst hB
    subst hC
    have e1 : t + 1 + B - t - 1 = B := by omega
    have e2 : t + 1 + B + 1 + C - (t + 1 + B) - 1 = C := by omega
    rw [e1, e2]
    have := Rep.add (Rep.eye (t + 1 + B + 1 + C)) (Rep.smul (1 / 2) (rep_chain_gt t B C g u hg))
    refine this.congr ?_
    congr 2
    norm_num

/-- **the closed form of the executable controlled gate is the literal Kronecker construction of
    `get_two_qubit_controlled_gate`**, every `n`, every pair of distinct positions, every 2×2 target block -/
theorem getTwoQubitControlledGate_eq_literal (n c t : Nat) (hc : c < n) (ht : t < n) (hct : c ≠ t) (g : Mat) (hg : g.n = 2) :
    ∃ m, DM.getTwoQubitControlledGate n c t g = .ok m ∧ Mat.EqOn m (literalCtrl n c t g) := by
  have hg2 := rep2_self g hg
  obtain ⟨m, e, hrep⟩ := rep_getTwoQubitControlledGate n c t hc ht hct g _ hg2
  refine ⟨m, e, ?_⟩
  have h2 := rep_literalCtrl n c t hc ht hct g _ hg2
  rw [ctrlG_eq n c t hc ht hct] at h2
  exact rep_eqOn hrep h2

/-! ### `reduce(np.kron, …)`: the Z projectors and the initial state -/

/-- `functools.reduce(np.kron, list)` (no initial value: starts from the first element) -/
def reduceKron : List Mat → Mat
  | [] => Mat.eye 1
  | x :: rest => rest.foldl Mat.kron x

theorem reduceKron_snoc (l : List Mat) (y : Mat) (hl : l ≠ []) : reduceKron (l ++ [y]) = Mat.kron (reduceKron l) y := by
  cases l with
  | nil => exact absurd rfl hl
  | cons x rest => simp [reduceKron, List.foldl_append]

theorem rep1_of_rep2 {g : Mat} {u : Matrix Bool Bool ℂ} (hg : Rep2 g u) : Rep 1 g (oneQ 1 0 u) := by
  have := rep_getOneQubitGate 1 0 (by norm_num) g u hg
  unfold DM.getOneQubitGate at this
  rwa [if_pos rfl] at this

theorem kronLast_one_one (m : Nat) : kronLast (1 : DMat m) 1 = 1 := by
  rw [kronLast_one, oneQ_one]

/-- the list `[blk if i == q else I₂ for i in range(m+1)]` reduced by `np.kron` -/
theorem rep_reduce_site (q : Nat) (blk : Mat) (u : Matrix Bool Bool ℂ) (hb : Rep2 blk u) : ∀ m : Nat,
    Rep (m + 1) (reduceKron ((List.range (m + 1)).map fun i => if i = q then blk else Mat.id2))
      (if q ≤ m then oneQ (m + 1) q u else 1)
  | 0 => by
    show Rep 1 (if 0 = q then blk else Mat.id2) _
    by_cases h : q = 0
    · subst h
      rw [if_pos rfl, if_pos (Nat.le_refl 0)]
      exact rep1_of_rep2 hb
    · rw [if_neg (fun e => h e.symm), if_neg (by omega)]
      have := rep1_of_rep2 rep2_id2
      rwa [oneQ_one] at this
  | m + 1 => by
    rw [List.range_succ, List.map_append, List.map_singleton, reduceKron_snoc _ _ (by simp)]
    have ih := rep_reduce_site q blk u hb m
    by_cases h1 : q ≤ m
    · rw [if_pos h1] at ih
      have hne : ¬ m + 1 = q := by omega
      rw [if_neg hne, if_pos (by omega)]
      have := rep_kronLast ih rep2_id2
      refine this.congr ?_
      ext a b
      exact (oneQ_succ_lower (m + 1) q (by omega) u a b).symm
    · rw [if_neg h1] at ih
      by_cases h2 : q = m + 1
      · subst h2
        rw [if_pos rfl, if_pos (Nat.le_refl _)]
        have := rep_kronLast ih hb
        rwa [kronLast_one] at this
      · rw [if_neg (fun e => h2 e.symm), if_neg (by omega)]
        have := rep_kronLast ih rep2_id2
        rwa [kronLast_one_one] at this

theorem rep2_proj0 : Rep2 Mat.proj0 (ketBra2 false false) := rep2_ketBra00
theorem rep2_proj1 : Rep2 Mat.proj1 (ketBra2 true true) :=
  rep2_m2 _ _ _ _ _ (by simp [ketBra2]) (by simp [ketBra2]) (by simp [ketBra2]) (by simp [ketBra2])

/-- **`projectors_zbasis`: the closed form is the literal `reduce(np.kron, [P_s if i == q else I₂ …])`** -/
theorem projectorsZ_eq_literal (n q : Nat) (hq : q < n) :
    ∃ p0 p1, DM.projectorsZ n q = .ok (p0, p1) ∧
      Mat.EqOn p0 (reduceKron ((List.range n).map fun i => if i = q then Mat.proj0 else Mat.id2)) ∧
      Mat.EqOn p1 (reduceKron ((List.range n).map fun i => if i = q then Mat.proj1 else Mat.id2)) := by
  obtain ⟨p0, p1, e, r0, r1⟩ := rep_projectorsZ n q hq
  obtain ⟨m, hm⟩ : ∃ m, n = m + 1 := ⟨n - 1, by omega⟩
  subst hm
  have l0 := rep_reduce_site q Mat.proj0 _ rep2_proj0 m
  have l1 := rep_reduce_site q Mat.proj1 _ rep2_proj1 m
  rw [if_pos (by omega)] at l0 l1
  exact ⟨p0, p1, e, rep_eqOn r0 l0, rep_eqOn r1 l1⟩

/-- `create_n_product_state(n, |0⟩)` = `reduce(np.kron, n * [|0⟩⟨0|])` -/
theorem rep_reduce_ket0 : ∀ m : Nat,
    Rep (m + 1) (reduceKron (List.replicate (m + 1) Mat.proj0)) (DMH.ket0H (m + 1))
  | 0 => by
    have := rep1_of_rep2 rep2_proj0
    refine this.congr ?_
    ext a b
    rw [ket0H_succ 0 a b, oneQ_succ_last 0 _ a b]
    congr 1
  | m + 1 => by
    rw [List.replicate_succ', reduceKron_snoc _ _ (by simp)]
    have := rep_kronLast (rep_reduce_ket0 m) rep2_proj0
    refine this.congr ?_
    ext a b
    exact (ket0H_succ (m + 1) a b).symm

/-- the initial matrix of `compileDM` is the literal `reduce(np.kron, n * [|0⟩⟨0|])` -/
theorem rho0_eq_literal (m : Nat) :
    Mat.EqOn (⟨DM.pow2 (m + 1), fun i j => if i = 0 ∧ j = 0 then 1 else 0⟩ : Mat) (reduceKron (List.replicate (m + 1) Mat.proj0)) :=
  rep_eqOn (rep_rho0 (m + 1)) (rep_reduce_ket0 m)

end Hilbert
end Graphiq
