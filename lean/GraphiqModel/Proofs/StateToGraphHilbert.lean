/-
  Proofs/StateToGraphHilbert.lean — the Hilbert-space reading of the completeness + soundness theorem of `state_to_graph`, using the
  verified matrix semantics of the C07 development (`rho T = ∏ (1 + P_i)/2`, `circMat` = the unitary of a gate list):
  for every stabilizer state `t` (n ≥ 1) the modelled `state_to_graph` returns `(G, gates)` with
      `U_gates · ρ(t) · U_gates† = |G⟩⟨G|`,
  where `|G⟩⟨G| := U_prep |0…0⟩⟨0…0| U_prep†`, `U_prep` = Hadamard on every qubit followed by one CZ per edge (the textbook graph state,
  the construction `_graph_to_density_pure` runs), and `ρ(graphSTab n A) = |G⟩⟨G|` for every simple graph.  All sizes.
-/
import GraphiqModel.Proofs.StateToGraphTotal
import GraphiqModel.Proofs.GraphStateGroup
import GraphiqModel.Proofs.HilbertPure
namespace Graphiq
open PRow Tab STab S2G Matrix Hilbert

/-- the textbook preparation of `|G⟩` from `|0…0⟩`: `H` on every qubit, then `CZ` on every edge `u < v` (in the order of `list(graph.edges)`) -/
def graphPrep (n : Nat) (A : Adj) : List Gate :=
  (List.range n).map Gate.H ++ (edgesOf n A).map fun e => Gate.CZ e.1 e.2

/-- `|G⟩⟨G| = U_prep |0…0⟩⟨0…0| U_prep†` as a `2ⁿ × 2ⁿ` complex matrix (`rho n (STab.zero n)` is `|0…0⟩⟨0…0|`: `rho_zero`) -/
noncomputable def graphStateMat (n : Nat) (A : Adj) : Matrix (Bits n) (Bits n) ℂ :=
  circMat n (graphPrep n A) * rho n (STab.zero n) * (circMat n (graphPrep n A))ᴴ

/-- Hadamards on distinct qubits do not change the sign of a row that has no `Y` on them -/
theorem actCirc_H_r (l : List Nat) (hl : l.Nodup) (p : PRow) (h : ∀ q, q ∈ l → (p.x q && p.z q) = false) :
    (actCirc (l.map Gate.H) p).r = p.r := by
  induction l generalizing p with
  | nil => rfl
  | cons q rest ih =>
    have e : actCirc ((q :: rest).map Gate.H) p = actCirc (rest.map Gate.H) (PRow.h q p) := rfl
    have hq : q ∉ rest := (List.nodup_cons.mp hl).1
    rw [e, ih (List.nodup_cons.mp hl).2 (PRow.h q p) (fun q' hq' => by
      have hne : q' ≠ q := fun e => hq (e ▸ hq')
      have := h q' (List.mem_cons_of_mem _ hq')
      simpa [PRow.h, hne] using this)]
    have := h q List.mem_cons_self
    simp [PRow.h, this]

/-- `H^{⊗n}` maps `Z_i` to `X_i` -/
theorem actCirc_H_Zq (n i : Nat) (_hi : i < n) : EqOn n (actCirc ((List.range n).map Gate.H) (Zq i)) (Xq i) := by
  refine ⟨fun j hj => ?_, ?_, ?_⟩
  · obtain ⟨h1, h2, _⟩ := actCirc_H_bits (List.range n) List.nodup_range (Zq i) j
    rw [h1, h2]
    have hc : (List.range n).contains j = true := List.contains_iff_mem.mpr (List.mem_range.mpr hj)
    simp only [hx, hc, if_true]
    exact ⟨rfl, rfl⟩
  · rw [actCirc_H_r (List.range n) List.nodup_range (Zq i) (fun q _ => rfl)]; rfl
  · rw [(actCirc_H_bits (List.range n) List.nodup_range (Zq i) 0).2.2]; rfl

/-- the rows of `_graph_to_density_pure`'s CZ loop are the images of the rows under the CZ gate list -/
theorem czEdges_row (t : STab) (edges : List (Nat × Nat)) (i : Nat) :
    (czEdges t edges).row i = actCirc (edges.map fun e => Gate.CZ e.1 e.2) (t.row i) := by
  induction edges generalizing t with
  | nil => rfl
  | cons e rest ih =>
    show (czEdges (t.map (PRow.cz e.1 e.2)) rest).row i = _
    rw [ih]; rfl

theorem czEdges_n (t : STab) (edges : List (Nat × Nat)) : (czEdges t edges).n = t.n := by
  induction edges generalizing t with
  | nil => rfl
  | cons e rest ih => show (czEdges (t.map (PRow.cz e.1 e.2)) rest).n = _; rw [ih]; rfl

theorem graphPrep_wf (n : Nat) (A : Adj) : ∀ g, g ∈ graphPrep n A → g.WF n := by
  intro g hg
  simp only [graphPrep, List.mem_append, List.mem_map, List.mem_range] at hg
  rcases hg with ⟨q, hq, e⟩ | ⟨e', he, e⟩
  · rw [← e]; exact hq
  · rw [← e]
    have hm := (List.mem_filter.mp he).1
    have := (mem_pairsLt_iff n e'.1 e'.2).mp hm
    exact ⟨by omega, this.2, by omega⟩

/-- **`ρ(graph_to_stabilizer(G))` is the textbook graph state** `CZ_E H^{⊗n} |0…0⟩⟨0…0| H^{⊗n} CZ_E` (every n, every simple graph) -/
theorem rho_graphSTab (n : Nat) (A : Adj) (hsym : ∀ i j, i < n → j < n → A i j = A j i) (hirr : ∀ i, i < n → A i i = false) :
    rho n (graphSTab n A) = graphStateMat n A := by
  have wf := graphPrep_wf n A
  have hcov := rho_runCircuit (STab.zero n) (graphPrep n A) wf
  have hz : (STab.zero n).Good := ⟨fun _ _ => rfl, fun i k _ _ => by
    show sp n (Zq i) (Zq k) = false
    unfold sp; apply parityTo_zero; intro j _; simp [Zq]⟩
  have tr := tracks_runCircuit (STab.zero n) hz (graphPrep n A) wf
  have nR : ((STab.zero n).runCircuit (graphPrep n A)).n = n := runCircuit_n _ _
  -- the prepared tableau has the rows of the CZ-on-|+…+⟩ tableau
  have rows : ∀ i, i < n → EqOn n (((STab.zero n).runCircuit (graphPrep n A)).row i)
      ((czEdges (plusSTab n) (edgesOf n A)).row i) := by
    intro i hi
    have h1 := runCircuit_row (STab.zero n) (graphPrep n A) wf i hi
    refine h1.trans ?_
    rw [czEdges_row]
    unfold graphPrep
    rw [actCirc_app]
    apply actCirc_congr n
    · intro g hg
      exact wf g (List.mem_append_right _ hg)
    · exact actCirc_H_Zq n i hi
  have nC : (czEdges (plusSTab n) (edgesOf n A)).n = n := czEdges_n _ _
  have s1 : SpanEq ((STab.zero n).runCircuit (graphPrep n A)) (czEdges (plusSTab n) (edgesOf n A)) := by
    apply spanEq_of_gens _ _ (nC.trans nR.symm)
    · intro i hi
      rw [nC] at hi
      have := spn_gen ((STab.zero n).runCircuit (graphPrep n A)) i (by rw [nR]; exact hi)
      refine InSpan.eqv _ _ this ?_
      rw [nR]; exact rows i hi
    · intro i hi
      rw [nR] at hi
      have := spn_gen (czEdges (plusSTab n) (edgesOf n A)) i (by rw [nC]; exact hi)
      refine InSpan.eqv _ _ this ?_
      rw [nC]; exact (rows i hi).symm
  have s2 := s1.trans (czEdges_edgesOf_spanEq n A hsym hirr)
  have hgauge := rho_spanEq _ _ s2 tr.good (graphSTab_good n A hsym)
  rw [nR] at hgauge
  unfold graphStateMat
  have hn0 : (STab.zero n).n = n := rfl
  rw [hn0] at hcov
  rw [hcov, hgauge]

/-- **Hilbert-space form of completeness + soundness** (every n ≥ 1, every stabilizer state): the modelled `state_to_graph` returns
    `(G, gates)` and conjugating the density matrix of the input by the unitary of `gates` gives exactly `|G⟩⟨G|` -/
theorem stateToGraph_hilbert (t : STab) (hn : 0 < t.n) (hg : t.Good) (hi : Indep (XZ.ofSTab t)) :
    ∃ adj gates, stateToGraph t = .ok (adj, gates) ∧ (∀ g, g ∈ gates → g.WF t.n) ∧
      circMat t.n gates * rho t.n t * (circMat t.n gates)ᴴ = graphStateMat t.n adj.f := by
  obtain ⟨adj, gates, e⟩ := stateToGraph_complete t hn hg hi
  obtain ⟨wf, s, hsym, hirr⟩ := stateToGraph_sound t hg.real adj gates e
  refine ⟨adj, gates, e, wf, ?_⟩
  have tr := tracks_runCircuit t hg gates wf
  have hgauge := rho_spanEq _ _ s tr.good (graphSTab_good t.n adj.f hsym)
  have nR : (t.runCircuit gates).n = t.n := runCircuit_n _ _
  rw [nR] at hgauge
  rw [rho_runCircuit t gates wf, hgauge, rho_graphSTab t.n adj.f hsym hirr]

end Graphiq
