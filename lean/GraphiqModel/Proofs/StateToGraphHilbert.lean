/-
  Proofs/StateToGraphHilbert.lean — the Hilbert-space reading of the completeness + soundness theorem of `state_to_graph`, using the
  verified matrix semantics of the C07 development (`rho T = ∏ (1 + P_i)/2`, `circMat` = the unitary of a gate list):
  for every stabilizer state `t` (n ≥ 1) the modelled `state_to_graph` returns `(G, gates)` with
      `U_gates · ρ(t) · U_gates† = |G⟩⟨G|`,
  where `|G⟩⟨G| := U_prep |0…0⟩⟨0…0| U_prep†`, `U_prep` = Hadamard on every qubit followed by one CZ per edge (the textbook graph state,
  the construction `_graph_to_density_pure` runs), and `ρ(graphSTab n A) = |G⟩⟨G|` for every simple graph.  All sizes.
-/
import GraphiqModel.Proofs.StateToGraphTotal
import GraphiqModel.Proofs.GraphStateGroup
import GraphiqModel.Proofs.HilbertPure
namespace Graphiq
open PRow Tab STab S2G Matrix Hilbert

/-- the textbook preparation of `|G⟩` from `|0…0⟩`: `H` on every qubit, then `CZ` on every edge `u < v` (in the order of `list(graph.edges)`) -/
def graphPrep (n : Nat) (A : Adj) : List Gate :=
  (List.range n).map Gate.H ++ (edgesOf n A).map fun e => Gate.CZ e.1 e.2

/-- `|G⟩⟨G| = U_prep |0…0⟩⟨0…0| U_prep†` as a `2ⁿ × 2ⁿ` complex matrix (`rho n (STab.zero n)` is `|0…0⟩⟨0…0|`: `rho_zero`) -/
noncomputable def graphStateMat (n : Nat) (A : Adj) : Matrix (Bits n) (Bits n) ℂ :=
  circMat n (graphPrep n A) * rho n (STab.zero n) * (circMat n (graphPrep n A))ᴴ

/-- Hadamards on distinct qubits do not change the sign of a row that has no `Y` on them -/
theorem actCirc_H_r (l : List Nat) (hl : l.Nodup) (p : PRow) (h : ∀ q, q ∈ l → (p.x q && p.z q) = false) :
    (actCirc (l.map Gate.H) p).r = p.r := by
  induction l generalizing p with
  | nil => rfl
  | cons q rest ih =>
    have e : actCirc ((q :: rest).map Gate.H) p = actCirc (rest.map Gate.H) (PRow.h q p) := rfl
    have hq : q ∉ rest := (List.nodup_cons.mp hl).1
    rw [e, ih (List.nodup_cons.mp hl).2 (PRow.h q p) (fun q' hq' => by
      have hne : q' ≠ q := fun e => hq (e ▸ hq')
      have := h q' (List.mem_cons_of_mem _ hq')
      simpa [PRow.h, hne] using this)]
    have := h q List.mem_cons_self
    simp [PRow.h, this]

/-- `H^{⊗n}` maps `Z_i` to `X_i` -/
theorem actCirc_H_Zq (n i : Nat) (_hi : i < n) : EqOn n (actCirc ((List.range n).map Gate.H) (Zq i)) (Xq i) := by
  refine ⟨fun j hj => ?_, ?_, ?_⟩
  · obtain ⟨h1, h2, _⟩ := actCirc_H_bits (List.range n) List.nodup_range (Zq i) j
    rw [h1, h2]
    have hc : (List.range n).contains j = true := List.contains_iff_mem.mpr (List.mem_range.mpr hj)
    simp only [hx, hc, if_true]
    exact ⟨rfl, rfl⟩
  · rw [actCirc_H_r (List.range n) List.nodup_range (Zq i) (fun q _ => rfl)]; rfl
  · rw [(actCirc_H_bits (List.range n) List.nodup_range (Zq i) 0).2.2]; rfl

/-- the rows of `_graph_to_density_pure`'s CZ loop are the images of the rows under the CZ gate list -/
theorem czEdges_row (t : STab) (edges : List (Nat × Nat)) (i : Nat) :
    (czEdges t edges).row i = actCirc (edges.map fun e => Gate.CZ e.1 e.2) (t.row i) := by
  induction edges generalizing t with
  | nil => rfl
  | cons e rest ih =>
    show (czEdges (t.map (PRow.cz e.1 e.2)) rest).row i = _
    rw [ih]; rfl

theorem czEdges_n (t : STab) (edges : List (Nat × Nat)) : (czEdges t edges).n = t.n := by
  induction edges generalizing t with
  | nil => rfl
  | cons e rest ih => show (czEdges (t.map (PRow.cz e.1 e.2)) rest).n = _; rw [ih]; rfl

theorem graphPrep_wf (n : Nat) (A : Adj) : ∀ g, g ∈ graphPrep n A → g.WF n := by
  intro g hg
  simp only [graphPrep, List.mem_append, List.mem_map, List.mem_range] at hg
  rcases hg with ⟨q, hq, e⟩ | ⟨e', he, e⟩
  · rw [← e]; exact hq
  · rw [← e]
    have hm := (List.mem_filter.mp he).1
    have := (mem_pairsLt_iff n e'.1 e'.2).mp hm
    exact ⟨by omega, this.2, by omega⟩

/-- **`ρ(graph_to_stabilizer(G))` is the textbook graph state** `CZ_E H^{⊗n} |0…0⟩⟨0…0| H^{⊗n} CZ_E` (every n, every simple graph) -/
theorem rho_graphSTab (n : Nat) (A : Adj) (hsym : ∀ i j, i < n → j < n → A i j = A j i) (hirr : ∀ i, i < n → A i i = false) :
    rho n (graphSTab n A) = graphStateMat n A := by
  have wf := graphPrep_wf n A
  have hcov := rho_runCircuit (STab.zero n) (graphPrep n A) wf
  have hz : (STab.zero n).Good := ⟨fun _ _ => rfl, fun i k _ _ => by
    show sp n (Zq i) (Zq k) = false
    unfold sp; apply parityTo_zero; intro j _; simp [Zq]⟩
  have tr := tracks_runCircuit (STab.zero n) hz (graphPrep n A) wf
  have nR : ((STab.zero n).runCircuit (graphPrep n A)).n = n := runCircuit_n _ _
  -- the prepared tableau has the rows of the CZ-on-|+…+⟩ tableau
  have rows : ∀ i, i < n → EqOn n (((STab.zero n).runCircuit (graphPrep n A)).row i)
      ((czEdges (plusSTab n) (edgesOf n A)).row i) := by
    intro i hi
    have h1 := runCircuit_row (STab.zero n) (graphPrep n A) wf i hi
    refine h1.trans ?_
    rw [czEdges_row]
    unfold graphPrep
    rw [actCirc_app]
    apply actCirc_congr n
    · intro g hg
      exact wf g (List.mem_append_right _ hg)
    · exact actCirc_H_Zq n i hi
  have nC : (czEdges (plusSTab n) (edgesOf n A)).n = n := czEdges_n _ _
  have s1 : SpanEq ((STab.zero n).runCircuit (graphPrep n A)) (czEdges (plusSTab n) (edgesOf n A)) := by
    apply spanEq_of_gens _ _ (nC.trans nR.symm)
    · intro i hi
      rw [nC] at hi
      have := spn_gen ((STab.zero n).runCircuit (graphPrep n A)) i (by rw [nR]; exact hi)
      refine InSpan.eqv _ _ this ?_
      rw [nR]; exact rows i hi
    · intro i hi
      rw [nR] at hi
      have := spn_gen (czEdges (plusSTab n) (edgesOf n A)) i (by rw [nC]; exact hi)
      refine InSpan.eqv _ _ this ?_
      rw [nC]; exact (rows i hi).symm
  have s2 := s1.trans (czEdges_edgesOf_spanEq n A hsym hirr)
  have hgauge := rho_spanEq _ _ s2 tr.good (graphSTab_good n A hsym)
  rw [nR] at hgauge
  unfold graphStateMat
  have hn0 : (STab.zero n).n = n := rfl
  rw [hn0] at hcov
  rw [hcov, hgauge]

/-! ### `_graph_to_density_pure`: `create_n_plus_state(n)` followed by one `apply_cz` per edge -/

/-- `create_n_plus_state(n)`: the Kronecker product of `n` copies of `|+⟩⟨+| = [[½,½],[½,½]]` — every entry is `2⁻ⁿ` -/
noncomputable def plusMat (n : Nat) : Matrix (Bits n) (Bits n) ℂ := fun _ _ => (1 / 2 : ℂ) ^ n

theorem pexp_Xq (n k : Nat) (c : Bits n) : pexp n (Xq k) c = 0 := by
  unfold pexp
  rw [sumTo_congr n _ (fun _ => 0) (fun j _ => by simp [Xq, sFun, Bool.toInt']), sumTo_zero]
  rfl

/-- the partial products `∏_{m<k} (1 + X_m)/2`: all entries between basis states that agree from bit `k` on are `2⁻ᵏ`, the others vanish -/
theorem rhoTo_plus (n k : Nat) (hk : k ≤ n) (a c : Bits n) :
    rhoTo n (fun i => Xq i) k a c = if (∀ m : Fin n, k ≤ m.val → a m = c m) then (1 / 2 : ℂ) ^ k else 0 := by
  induction k generalizing a c with
  | zero =>
    show (1 : Matrix (Bits n) (Bits n) ℂ) a c = _
    rw [Matrix.one_apply]
    by_cases h : a = c
    · subst h; simp
    · have : ¬ (∀ m : Fin n, 0 ≤ m.val → a m = c m) := fun h' => h (funext fun m => h' m (Nat.zero_le _))
      rw [if_neg h, if_neg this]
  | succ k ih =>
    show (rhoTo n (fun i => Xq i) k * proj n (Xq k)) a c = _
    unfold proj
    rw [Matrix.mul_smul, Matrix.smul_apply, Matrix.mul_add, Matrix.mul_one, Matrix.add_apply]
    unfold pauliMat
    rw [mul_mono_apply, pexp_Xq, iPow_zero, _root_.mul_one, ih (by omega), ih (by omega)]
    have hkn : k < n := by omega
    have hflip : ∀ m : Fin n, (flip (Xq k).x c) m = xor (c m) (decide (m.val = k)) := fun m => rfl
    by_cases h : ∀ m : Fin n, k + 1 ≤ m.val → a m = c m
    · rw [if_pos h]
      -- exactly one of `c`, `c ⊕ e_k` agrees with `a` at bit `k`
      by_cases hb : a ⟨k, hkn⟩ = c ⟨k, hkn⟩
      · have h1 : ∀ m : Fin n, k ≤ m.val → a m = c m := by
          intro m hm
          by_cases e : m.val = k
          · have : m = ⟨k, hkn⟩ := Fin.ext e
            rw [this]; exact hb
          · exact h m (by omega)
        have h2 : ¬ (∀ m : Fin n, k ≤ m.val → a m = (flip (Xq k).x c) m) := by
          intro h'
          have := h' ⟨k, hkn⟩ (Nat.le_refl k)
          rw [hflip, hb] at this
          simp at this
        rw [if_pos h1, if_neg h2, add_zero, smul_eq_mul, pow_succ]
        ring
      · have h1 : ¬ (∀ m : Fin n, k ≤ m.val → a m = c m) := fun h' => hb (h' ⟨k, hkn⟩ (Nat.le_refl k))
        have h2 : ∀ m : Fin n, k ≤ m.val → a m = (flip (Xq k).x c) m := by
          intro m hm
          rw [hflip]
          by_cases e : m.val = k
          · have : m = ⟨k, hkn⟩ := Fin.ext e
            subst this
            simp only [decide_true, Bool.xor_true]
            cases ha : a ⟨k, hkn⟩ <;> cases hc : c ⟨k, hkn⟩ <;> simp_all
          · simp [e, h m (by omega)]
        rw [if_neg h1, if_pos h2, zero_add, smul_eq_mul, pow_succ]
        ring
    · rw [if_neg h]
      have h1 : ¬ (∀ m : Fin n, k ≤ m.val → a m = c m) := fun h' => h (fun m hm => h' m (by omega))
      have h2 : ¬ (∀ m : Fin n, k ≤ m.val → a m = (flip (Xq k).x c) m) := by
        intro h'
        apply h
        intro m hm
        have := h' m (by omega)
        rw [hflip] at this
        have e : ¬ (m.val = k) := by omega
        simpa [e] using this
      rw [if_neg h1, if_neg h2, add_zero, smul_zero]

/-- **the density matrix of the generators `X_0 … X_{n-1}` is `create_n_plus_state(n)`**: every entry `2⁻ⁿ` -/
theorem rho_plusSTab (n : Nat) : rho n (plusSTab n) = plusMat n := by
  ext a c
  show rhoTo n (fun i => Xq i) n a c = _
  rw [rhoTo_plus n n (Nat.le_refl n) a c, if_pos (fun m hm => absurd m.isLt (by omega))]
  rfl

/-- **`_graph_to_density_pure(G)` is the graph state**: `create_n_plus_state(n)` conjugated by one CZ per edge of `list(graph.edges)` is
    `|G⟩⟨G|` (= `ρ(graph_to_stabilizer(G))` = `CZ_E H^{⊗n}|0…0⟩⟨0…0|H^{⊗n}CZ_E`), for every simple graph -/
theorem graph_to_density_mat (n : Nat) (A : Adj) (hsym : ∀ i j, i < n → j < n → A i j = A j i) (hirr : ∀ i, i < n → A i i = false) :
    circMat n ((edgesOf n A).map fun e => Gate.CZ e.1 e.2) * plusMat n * (circMat n ((edgesOf n A).map fun e => Gate.CZ e.1 e.2))ᴴ =
      graphStateMat n A := by
  have wf : ∀ g, g ∈ (edgesOf n A).map (fun e => Gate.CZ e.1 e.2) → g.WF n :=
    fun g hg => graphPrep_wf n A g (List.mem_append_right _ hg)
  have hp : (plusSTab n).Good := ⟨fun _ _ => rfl, fun i k _ _ => by
    show sp n (Xq i) (Xq k) = false
    unfold sp; apply parityTo_zero; intro j _; simp [Xq]⟩
  have hcov := rho_runCircuit (plusSTab n) _ wf
  have hn0 : (plusSTab n).n = n := rfl
  rw [hn0, rho_plusSTab] at hcov
  rw [hcov, ← rho_graphSTab n A hsym hirr]
  -- the tableau after the CZ gates has the rows of `czEdges`
  have tr := tracks_runCircuit (plusSTab n) hp _ wf
  have nR : ((plusSTab n).runCircuit ((edgesOf n A).map fun e => Gate.CZ e.1 e.2)).n = n := runCircuit_n _ _
  have nC : (czEdges (plusSTab n) (edgesOf n A)).n = n := czEdges_n _ _
  have rows : ∀ i, i < n → EqOn n (((plusSTab n).runCircuit ((edgesOf n A).map fun e => Gate.CZ e.1 e.2)).row i)
      ((czEdges (plusSTab n) (edgesOf n A)).row i) := by
    intro i hi
    have h1 := runCircuit_row (plusSTab n) _ wf i hi
    rw [czEdges_row]
    exact h1
  have s1 : SpanEq ((plusSTab n).runCircuit ((edgesOf n A).map fun e => Gate.CZ e.1 e.2)) (czEdges (plusSTab n) (edgesOf n A)) := by
    apply spanEq_of_gens _ _ (nC.trans nR.symm)
    · intro i hi
      rw [nC] at hi
      have := spn_gen ((plusSTab n).runCircuit ((edgesOf n A).map fun e => Gate.CZ e.1 e.2)) i (by rw [nR]; exact hi)
      refine InSpan.eqv _ _ this ?_
      rw [nR]; exact rows i hi
    · intro i hi
      rw [nR] at hi
      have := spn_gen (czEdges (plusSTab n) (edgesOf n A)) i (by rw [nC]; exact hi)
      refine InSpan.eqv _ _ this ?_
      rw [nC]; exact (rows i hi).symm
  have s2 := s1.trans (czEdges_edgesOf_spanEq n A hsym hirr)
  have hgauge := rho_spanEq _ _ s2 tr.good (graphSTab_good n A hsym)
  rw [nR] at hgauge
  exact hgauge

/-- **Hilbert-space form of completeness + soundness** (every n ≥ 1, every stabilizer state): the modelled `state_to_graph` returns
    `(G, gates)` and conjugating the density matrix of the input by the unitary of `gates` gives exactly `|G⟩⟨G|` -/
theorem stateToGraph_hilbert (t : STab) (hn : 0 < t.n) (hg : t.Good) (hi : Indep (XZ.ofSTab t)) :
    ∃ adj gates, stateToGraph t = .ok (adj, gates) ∧ (∀ g, g ∈ gates → g.WF t.n) ∧
      circMat t.n gates * rho t.n t * (circMat t.n gates)ᴴ = graphStateMat t.n adj.f := by
  obtain ⟨adj, gates, e⟩ := stateToGraph_complete t hn hg hi
  obtain ⟨wf, s, hsym, hirr⟩ := stateToGraph_sound t hg.real adj gates e
  refine ⟨adj, gates, e, wf, ?_⟩
  have tr := tracks_runCircuit t hg gates wf
  have hgauge := rho_spanEq _ _ s tr.good (graphSTab_good t.n adj.f hsym)
  have nR : (t.runCircuit gates).n = t.n := runCircuit_n _ _
  rw [nR] at hgauge
  rw [rho_runCircuit t gates wf, hgauge, rho_graphSTab t.n adj.f hsym hirr]

end Graphiq
