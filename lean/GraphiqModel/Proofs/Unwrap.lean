/-
  Unwrap.lean — the multiset of operations held by the circuit through `unwrap_nodes` and `remove_identity`
  (what `CircuitUnitaryCount` and `CircuitMaxEmitDepth` compute on the copy they prepare).
-/
import GraphiqModel.Proofs.Depth
set_option linter.unusedSectionVars false
set_option linter.unusedSimpArgs false
namespace Graphiq
namespace Metrics
open Dag Relation

/-! ## counting operation nodes -/

theorem countP_opsOf (c : Dag) (p : Op → Bool) :
    (opsOf c).countP p = c.nodes.countP (fun pr => isOpNode pr && p pr.2) := by
  unfold opsOf
  rw [List.countP_map, List.countP_filter]
  apply countP_congr_mem
  intro a _
  simp [Bool.and_comm]

theorem opsOf_of_nodes_append {c c' : Dag} {j : Nat} {w : Op} (h : c'.nodes = c.nodes ++ [(.op j, w)]) :
    opsOf c' = opsOf c ++ [w] := by
  unfold opsOf
  rw [h, List.filter_append]
  have : List.filter isOpNode [(NodeId.op j, w)] = [(NodeId.op j, w)] := by
    rw [List.filter_cons_of_pos (by simp [isOpNode])]; rfl
  rw [this]; simp

theorem countP_filter_ne {l : List (NodeId × Op)} (hnd : (l.map (·.1)).Nodup) {n : NodeId} {w : Op} (hm : (n, w) ∈ l)
    (q : NodeId × Op → Bool) :
    (l.filter (fun p => p.1 ≠ n)).countP q + (if q (n, w) then 1 else 0) = l.countP q := by
  induction l with
  | nil => simp at hm
  | cons a t ih =>
    have hnd' : a.1 ∉ t.map (·.1) ∧ (t.map (·.1)).Nodup := by
      rw [List.map_cons] at hnd; exact List.nodup_cons.mp hnd
    rcases List.mem_cons.mp hm with rfl | hm
    · -- the head is the removed node; it does not occur in the tail
      have htail : t.filter (fun p => decide (p.1 ≠ n)) = t := by
        rw [List.filter_eq_self]
        intro p hp
        have : p.1 ≠ n := fun e => hnd'.1 (e ▸ List.mem_map.mpr ⟨p, hp, rfl⟩)
        simpa using this
      rw [List.filter_cons_of_neg (by simp), htail, List.countP_cons]
    · have hne : a.1 ≠ n := fun e => hnd'.1 (e ▸ List.mem_map.mpr ⟨(n, w), hm, rfl⟩)
      rw [List.filter_cons_of_pos (by simpa using hne), List.countP_cons, List.countP_cons]
      have := ih hnd'.2 hm
      omega

/-- removing an operation node removes exactly its operation from the multiset -/
theorem countP_opsOf_removed {c : Dag} {P : Paths} (g : Good c P) {i : Nat} {w : Op} (hw : (NodeId.op i, w) ∈ c.nodes)
    (p : Op → Bool) :
    (opsOf (c.removed (.op i) w)).countP p + (if p w then 1 else 0) = (opsOf c).countP p := by
  have F := removeFacts g.inv (.op i)
  have hnodes : (c.removed (.op i) w).nodes = c.nodes.filter (fun p => p.1 ≠ .op i) := by
    simp only [removed, F.nodes]
  rw [countP_opsOf, countP_opsOf, hnodes]
  have hnd : (c.nodes.map (·.1)).Nodup := g.inv.ids_nodup
  have := countP_filter_ne hnd hw (fun pr => isOpNode pr && p pr.2)
  simpa [isOpNode] using this

/-! ## `unwrap_nodes` -/

theorem opsOf_unwrapOne {c : Dag} {P : Paths} (g : Good c P) {i : Nat} {w : Op} (hw : (NodeId.op i, w) ∈ c.nodes) {r : Reg}
    (hq : w.qregs = [r]) (hc : w.cregs = []) (os : List Op)
    (hos : ∀ o ∈ os, OpWF o ∧ o.qregs = [r] ∧ o.cregs = []) :
    opsOf (c.unwrapOne (.op i) os).1 = opsOf c ++ os ∧
    (∀ x, x ≠ .op i → x ∈ c.nodeIds → (c.unwrapOne (.op i) os).1.opOf? x = c.opOf? x) := by
  induction os generalizing c P with
  | nil => exact ⟨by simp [unwrapOne], fun _ _ _ => rfl⟩
  | cons o rest ih =>
    obtain ⟨hwf, hoq, hoc⟩ := hos o (by simp)
    obtain ⟨a, hin, hedge⟩ := inEdges_single g hw hq hc
    unfold unwrapOne
    rw [hin]
    obtain ⟨h1, P1, g1, _, _, hn1, _⟩ := insertAt_single_good g hwf hoq hoc hedge rfl
    cases hres : c.insertAt o [⟨a, .op i, r⟩] with
    | mk c1 err =>
      rw [hres] at h1 g1 hn1
      simp only at h1 g1 hn1
      subst h1
      simp only
      have hw1 : (NodeId.op i, w) ∈ c1.nodes := by rw [hn1]; exact List.mem_append_left _ hw
      obtain ⟨b1, b2⟩ := ih g1 hw1 (fun o' ho' => hos o' (List.mem_cons_of_mem _ ho'))
      refine ⟨by rw [b1, opsOf_of_nodes_append hn1]; simp, ?_⟩
      intro x hx hxm
      have hx1 : x ∈ c1.nodeIds := by
        simp only [nodeIds, hn1, List.map_append]; exact List.mem_append_left _ hxm
      rw [b2 x hx hx1]
      have hfresh := g.inv.op_fresh
      have := opOf_append_other hn1 (x := x) (by
        intro p hp; simp at hp; rw [hp]; intro e; simp only at e; subst e; exact hfresh hxm) (Or.inr trivial)
      rw [this]; cases c.opOf? x <;> rfl

/-- the wrapper ops at a list of nodes -/
def opsAt (c : Dag) (ns : List NodeId) : List Op := ns.filterMap c.opOf?

theorem unwrapLoop_count {c : Dag} {P : Paths} (g : Good c P) (ns : List NodeId) (hnd : ns.Nodup)
    (hns : ∀ n ∈ ns, (∃ j, n = NodeId.op j ∧ j ≤ c.nodeId) ∧ n ∈ c.nodeIds ∧ ∀ op, (n, op) ∈ c.nodes → op.kind = .wrapper)
    (p : Op → Bool) :
    (c.unwrapLoop ns).2 = none ∧
    (opsOf (c.unwrapLoop ns).1).countP p + (opsAt c ns).countP p = (opsOf c).countP p + ((opsAt c ns).flatMap Op.unwrap).countP p := by
  induction ns generalizing c P with
  | nil => exact ⟨rfl, by simp [unwrapLoop, opsAt]⟩
  | cons n rest ih =>
    obtain ⟨⟨i, rfl, hile⟩, hpres, hkind⟩ := hns n (by simp)
    have hnd' := List.nodup_cons.mp hnd
    obtain ⟨w, hw⟩ := mem_nodeIds.mp hpres
    have ho : c.opOf? (.op i) = some w := (opOf_eq_some g.inv.ids_nodup).mpr hw
    unfold unwrapLoop
    rw [ho]
    simp only
    have hk := hkind w hw
    have hwf := g.inv.op_wf i w hw
    obtain ⟨⟨r, hq⟩, hc, _⟩ := hwf.wrapper_shape hk
    obtain ⟨a1, P1, g1, _, a3, a4, a5⟩ := unwrapOne_good g hw hq hc w.unwrap (unwrap_ops_wf hwf hk hq)
    obtain ⟨u1, u2⟩ := opsOf_unwrapOne g hw hq hc w.unwrap (unwrap_ops_wf hwf hk hq)
    cases hres : c.unwrapOne (.op i) w.unwrap with
    | mk c1 err =>
      rw [hres] at a1 g1 a3 a4 a5 u1 u2
      simp only at a1 g1 a3 a4 a5 u1 u2
      subst a1
      simp only
      obtain ⟨b1, b2, _, b4⟩ := removeOp_good g1 (mem_nodeIds.mpr ⟨w, a4⟩)
      have hrm := removeOp_eq ((opOf_eq_some g1.inv.ids_nodup).mpr a4)
      cases hres2 : c1.removeOp (.op i) with
      | mk c2 err2 =>
        rw [hres2] at b1 b2 b4 hrm
        simp only at b1 b2 b4
        subst b1
        simp only
        have hc2 : c2 = c1.removed (.op i) w := by injection hrm
        have F := removeFacts g1.inv (.op i)
        have hn2 : c2.nodes = c1.nodes.filter (fun p => p.1 ≠ .op i) := by
          rw [hc2]; simp only [removed, F.nodes]
        -- the operations at the remaining nodes are unchanged
        have hop2 : ∀ x ∈ rest, c2.opOf? x = c.opOf? x ∧ x ∈ c2.nodeIds := by
          intro x hx
          have hxne : x ≠ .op i := fun e => hnd'.1 (e ▸ hx)
          have hxm : x ∈ c.nodeIds := (hns x (List.mem_cons_of_mem _ hx)).2.1
          obtain ⟨ox, hox⟩ := mem_nodeIds.mp hxm
          have h1 : c1.opOf? x = some ox := by rw [u2 x hxne hxm]; exact (opOf_eq_some g.inv.ids_nodup).mpr hox
          have hm1 : (x, ox) ∈ c1.nodes := (opOf_eq_some g1.inv.ids_nodup).mp h1
          have hm2 : (x, ox) ∈ c2.nodes := by rw [hn2]; exact List.mem_filter.mpr ⟨hm1, by simpa using hxne⟩
          exact ⟨by rw [(opOf_eq_some b2.inv.ids_nodup).mpr hm2, (opOf_eq_some g.inv.ids_nodup).mpr hox],
                 mem_nodeIds.mpr ⟨ox, hm2⟩⟩
        have hns' : ∀ n ∈ rest, (∃ j, n = NodeId.op j ∧ j ≤ c2.nodeId) ∧ n ∈ c2.nodeIds ∧
            ∀ op, (n, op) ∈ c2.nodes → op.kind = .wrapper := by
          intro x hx
          obtain ⟨⟨j, rfl, hj⟩, _, hkj⟩ := hns x (List.mem_cons_of_mem _ hx)
          refine ⟨⟨j, rfl, by omega⟩, (hop2 _ hx).2, ?_⟩
          intro op hop
          have h2 := (opOf_eq_some b2.inv.ids_nodup).mpr hop
          rw [(hop2 _ hx).1] at h2
          exact hkj op ((opOf_eq_some g.inv.ids_nodup).mp h2)
        obtain ⟨e1, e2⟩ := ih b2 hnd'.2 hns'
        refine ⟨e1, ?_⟩
        have hat : opsAt c2 rest = opsAt c rest := by
          unfold opsAt
          have : ∀ (l : List NodeId), (∀ x ∈ l, c2.opOf? x = c.opOf? x) → l.filterMap c2.opOf? = l.filterMap c.opOf? := by
            intro l
            induction l with
            | nil => intro _; rfl
            | cons a t iht =>
              intro h
              rw [List.filterMap_cons, List.filterMap_cons, h a (by simp), iht (fun x hx => h x (List.mem_cons_of_mem _ hx))]
          exact this rest (fun x hx => (hop2 x hx).1)
        have hat0 : opsAt c (NodeId.op i :: rest) = w :: opsAt c rest := by
          unfold opsAt; rw [List.filterMap_cons, ho]
        rw [hat] at e2
        have hrem := countP_opsOf_removed g1 a4 p
        rw [← hc2, u1, List.countP_append] at hrem
        rw [hat0, List.countP_cons, List.flatMap_cons, List.countP_append]
        omega


/-! ### the list under a class-name key lists every node of that class exactly once -/

/-- plain operations, wrapping no wrapper -/
structure PlainOp' (op : Op) : Prop extends PlainOp op where
  inner_base : ∀ k ∈ op.inner, k ≠ .wrapper

def AllPlain (c : Dag) : Prop := ∀ i op, (NodeId.op i, op) ∈ c.nodes → PlainOp' op

theorem count_kindName_keys {op : Op} (hwf : OpWF op) (hp : PlainOp op) (k : Kind) (hk1 : k.name ≠ "one-qubit")
    (hk2 : k.name ≠ "two-qubit")
    (hk3 : k.name ≠ "Emitter" ∧ k.name ≠ "Photonic" ∧ k.name ≠ "Emitter-Emitter" ∧ k.name ≠ "Emitter-Photonic" ∧
      k.name ≠ "Photonic-Emitter" ∧ k.name ≠ "Photonic-Photonic") :
    op.indexKeys.count k.name = if op.kind = k then 1 else 0 := by
  unfold Op.indexKeys
  rw [List.count_append]
  have h1 : op.labels.count k.name = 0 := by
    rw [List.count_eq_zero]
    intro hm
    exact hp.labels _ hm (by cases k <;> decide)
  have h3 : op.parseQRegTypes ≠ k.name := by
    rcases parse_cases hwf hp with ⟨_, b⟩ | ⟨_, b⟩ | ⟨_, b⟩ | ⟨_, b⟩ | ⟨_, b⟩ | ⟨_, b⟩ <;> rw [b]
    · exact fun e => hk3.1 e.symm
    · exact fun e => hk3.2.1 e.symm
    · exact fun e => hk3.2.2.1 e.symm
    · exact fun e => hk3.2.2.2.1 e.symm
    · exact fun e => hk3.2.2.2.2.1 e.symm
    · exact fun e => hk3.2.2.2.2.2 e.symm
  have hname : op.kind.name = k.name ↔ op.kind = k := by
    constructor
    · intro h; cases hk : op.kind <;> cases k <;> first | rfl | (rw [hk] at h; exact absurd h (by decide))
    · intro h; rw [h]
  rw [h1, List.count_cons, List.count_cons, List.count_nil]
  by_cases hk : op.kind = k
  · have : (op.kind.name == k.name) = true := by simpa using hname.mpr hk
    have h3' : (op.parseQRegTypes == k.name) = false := by simpa using h3
    simp [hk, this, h3']
  · have : (op.kind.name == k.name) = false := by simpa using fun h => hk (hname.mp h)
    have h3' : (op.parseQRegTypes == k.name) = false := by simpa using h3
    simp [hk, this, h3']

/-- for a plain circuit, the `node_dict` list of a class name is duplicate-free and consists of exactly the nodes
    holding an operation of that class -/
theorem classList_spec {c : Dag} {P : Paths} (g : Good c P) (hpl : AllPlain c) (k : Kind) (hk1 : k.name ≠ "one-qubit")
    (hk2 : k.name ≠ "two-qubit") (hk0 : k.name ≠ "Input" ∧ k.name ≠ "Output")
    (hk3 : k.name ≠ "Emitter" ∧ k.name ≠ "Photonic" ∧ k.name ≠ "Emitter-Emitter" ∧ k.name ≠ "Emitter-Photonic" ∧
      k.name ≠ "Photonic-Emitter" ∧ k.name ≠ "Photonic-Photonic") :
    (dictGet c.nodeDict k.name).Nodup ∧
    ∀ n, n ∈ dictGet c.nodeDict k.name ↔ ∃ i op, n = NodeId.op i ∧ (n, op) ∈ c.nodes ∧ op.kind = k := by
  have hcount : ∀ n, (dictGet c.nodeDict k.name).count n =
      match c.opOf? n with
      | some op => (match n with | .op _ => (if op.kind = k then 1 else 0) | _ => 0)
      | none => 0 := by
    intro n
    rw [g.inv.nodeDict_ok]
    unfold indexCount
    cases ho : c.opOf? n with
    | none => rfl
    | some op =>
      simp only
      cases n with
      | inp r =>
        simp only [indexKeysOf]
        have : ¬ ("Input" = k.name) := fun e => hk0.1 e.symm
        simp [List.count_cons, this]
      | out r =>
        simp only [indexKeysOf]
        have : ¬ ("Output" = k.name) := fun e => hk0.2 e.symm
        simp [List.count_cons, this]
      | op i =>
        simp only [indexKeysOf]
        have hm := (opOf_eq_some g.inv.ids_nodup).mp ho
        exact count_kindName_keys (g.inv.op_wf i op hm) (hpl i op hm).toPlainOp k hk1 hk2 hk3
  constructor
  · rw [List.nodup_iff_count]
    intro n
    rw [hcount]
    cases c.opOf? n with
    | none => simp
    | some op => cases n <;> simp <;> split <;> simp
  · intro n
    rw [← List.count_pos_iff, hcount]
    constructor
    · intro h
      cases ho : c.opOf? n with
      | none => rw [ho] at h; simp at h
      | some op =>
        rw [ho] at h
        cases n with
        | inp r => simp at h
        | out r => simp at h
        | op i =>
          simp only at h
          by_cases hk : op.kind = k
          · exact ⟨i, op, rfl, (opOf_eq_some g.inv.ids_nodup).mp ho, hk⟩
          · simp [hk] at h
    · rintro ⟨i, op, rfl, hm, hk⟩
      rw [(opOf_eq_some g.inv.ids_nodup).mpr hm]
      simp [hk]


/-- the operations at the nodes of a class list are, up to order, the operations of that class -/
theorem opsAt_perm {c : Dag} {P : Paths} (g : Good c P) (k : Kind) (ns : List NodeId) (hnd : ns.Nodup)
    (hns : ∀ n, n ∈ ns ↔ ∃ i op, n = NodeId.op i ∧ (n, op) ∈ c.nodes ∧ op.kind = k) :
    (opsAt c ns).Perm ((opsOf c).filter (fun o => decide (o.kind = k))) := by
  let q : NodeId × Op → Bool := fun pr => isOpNode pr && decide (pr.2.kind = k)
  have hms_nd : ((c.nodes.filter q).map (·.1)).Nodup :=
    List.Nodup.sublist (List.Sublist.map _ List.filter_sublist) g.inv.ids_nodup
  have hperm : ns.Perm ((c.nodes.filter q).map (·.1)) := by
    rw [List.perm_iff_count]
    intro a
    rw [hnd.count, hms_nd.count]
    have : a ∈ ns ↔ a ∈ (c.nodes.filter q).map (·.1) := by
      rw [hns, List.mem_map]
      constructor
      · rintro ⟨i, op, rfl, hm, hk⟩
        exact ⟨(.op i, op), List.mem_filter.mpr ⟨hm, by simp [q, isOpNode, hk]⟩, rfl⟩
      · rintro ⟨pr, hpr, rfl⟩
        obtain ⟨hm, hq⟩ := List.mem_filter.mp hpr
        obtain ⟨n, op⟩ := pr
        cases n with
        | inp r => simp [q, isOpNode] at hq
        | out r => simp [q, isOpNode] at hq
        | op i => exact ⟨i, op, rfl, hm, by simpa [q, isOpNode] using hq⟩
    by_cases h : a ∈ ns
    · rw [if_pos h, if_pos (this.mp h)]
    · rw [if_neg h, if_neg (fun h' => h (this.mpr h'))]
  have h1 : (opsAt c ns).Perm (((c.nodes.filter q).map (·.1)).filterMap c.opOf?) := hperm.filterMap _
  have h2 : ((c.nodes.filter q).map (·.1)).filterMap c.opOf? = (c.nodes.filter q).map (·.2) := by
    rw [List.filterMap_map]
    have : ∀ (l : List (NodeId × Op)), (∀ pr ∈ l, pr ∈ c.nodes) → l.filterMap (c.opOf? ∘ (·.1)) = l.map (·.2) := by
      intro l
      induction l with
      | nil => intro _; rfl
      | cons a t iht =>
        intro h
        have ha : c.opOf? a.1 = some a.2 := (opOf_eq_some g.inv.ids_nodup).mpr (h a (by simp))
        rw [List.filterMap_cons, List.map_cons]
        simp only [Function.comp, ha]
        rw [← iht (fun pr hpr => h pr (List.mem_cons_of_mem _ hpr))]
    exact this _ (fun pr hpr => (List.mem_filter.mp hpr).1)
  have h3 : (opsOf c).filter (fun o => decide (o.kind = k)) = (c.nodes.filter q).map (·.2) := by
    unfold opsOf
    rw [List.filter_map, List.filter_filter]
    congr 1
    apply List.filter_congr
    intro pr _
    simp [q, Bool.and_comm]
  rw [h3, ← h2]; exact h1

theorem unwrap_of_not_wrapper {o : Op} (h : o.kind ≠ .wrapper) : o.unwrap = [o] := by
  unfold Op.unwrap
  cases hk : o.kind <;> first | rfl | exact absurd hk h

theorem countP_flatMap_unwrap (p : Op → Bool) (l : List Op) :
    (l.flatMap Op.unwrap).countP p + (l.filter (fun o => decide (o.kind = .wrapper))).countP p =
      l.countP p + ((l.filter (fun o => decide (o.kind = .wrapper))).flatMap Op.unwrap).countP p := by
  induction l with
  | nil => rfl
  | cons a t ih =>
    rw [List.flatMap_cons, List.countP_append, List.countP_cons]
    by_cases hk : a.kind = .wrapper
    · rw [List.filter_cons_of_pos (by simpa using hk), List.countP_cons, List.flatMap_cons, List.countP_append]
      omega
    · rw [List.filter_cons_of_neg (by simpa using hk), unwrap_of_not_wrapper hk]
      simp only [List.countP_cons, List.countP_nil]
      omega

theorem unwrapNodes_eq_loop (c : Dag) : c.unwrapNodes = c.unwrapLoop (dictGet c.nodeDict "OneQubitGateWrapper") := by
  unfold unwrapNodes
  by_cases hh : dictHas c.nodeDict "OneQubitGateWrapper" = true
  · rw [if_pos hh]
  · rw [if_neg hh, dictGet_of_not_has _ _ (by simpa using hh)]; rfl

/-- **`unwrap_nodes` on a plain circuit**: it succeeds, and the multiset of operations afterwards is the multiset of
    the unwrapped operations (`flatMap unwrap`) -/
theorem unwrapNodes_count {c : Dag} {P : Paths} (g : Good c P) (hpl : AllPlain c) (p : Op → Bool) :
    c.unwrapNodes.2 = none ∧ (opsOf c.unwrapNodes.1).countP p = ((opsOf c).flatMap Op.unwrap).countP p := by
  rw [unwrapNodes_eq_loop]
  obtain ⟨hnd, hmem⟩ := classList_spec g hpl .wrapper (by decide) (by decide) (by decide) (by decide)
  have hname : Kind.wrapper.name = "OneQubitGateWrapper" := rfl
  rw [hname] at hnd hmem
  have hns : ∀ n ∈ dictGet c.nodeDict "OneQubitGateWrapper", (∃ j, n = NodeId.op j ∧ j ≤ c.nodeId) ∧ n ∈ c.nodeIds ∧
      ∀ op, (n, op) ∈ c.nodes → op.kind = .wrapper := by
    intro n hn
    obtain ⟨i, op, rfl, hm, hk⟩ := (hmem n).mp hn
    have hid := mem_nodeIds.mpr ⟨op, hm⟩
    refine ⟨⟨i, rfl, (g.inv.op_range i hid).2⟩, hid, ?_⟩
    intro op' hm'
    have h1 := (opOf_eq_some g.inv.ids_nodup).mpr hm
    have h2 := (opOf_eq_some g.inv.ids_nodup).mpr hm'
    rw [h1] at h2; injection h2 with h2; subst h2; exact hk
  obtain ⟨e1, e2⟩ := unwrapLoop_count g _ hnd hns p
  refine ⟨e1, ?_⟩
  have hperm := opsAt_perm g .wrapper _ hnd hmem
  have c1 := hperm.countP_eq p
  have c2 := (hperm.flatMap_right Op.unwrap).countP_eq p
  have c3 := countP_flatMap_unwrap p (opsOf c)
  omega


/-! ## `remove_identity` -/

theorem removeAll_count {c : Dag} {P : Paths} (g : Good c P) (ns : List NodeId) (hnd : ns.Nodup)
    (hns : ∀ n ∈ ns, (∃ j, n = NodeId.op j) ∧ n ∈ c.nodeIds) (p : Op → Bool) :
    (c.removeAll ns).2 = none ∧ (opsOf (c.removeAll ns).1).countP p + (opsAt c ns).countP p = (opsOf c).countP p := by
  induction ns generalizing c P with
  | nil => exact ⟨rfl, by simp [removeAll, opsAt]⟩
  | cons n rest ih =>
    obtain ⟨⟨i, rfl⟩, hpres⟩ := hns n (by simp)
    have hnd' := List.nodup_cons.mp hnd
    obtain ⟨w, hw⟩ := mem_nodeIds.mp hpres
    have ho : c.opOf? (.op i) = some w := (opOf_eq_some g.inv.ids_nodup).mpr hw
    unfold removeAll
    obtain ⟨b1, b2, _, _⟩ := removeOp_good g hpres
    have hrm := removeOp_eq ho
    cases hres : c.removeOp (.op i) with
    | mk c2 err2 =>
      rw [hres] at b1 b2 hrm
      simp only at b1 b2
      subst b1
      simp only
      have hc2 : c2 = c.removed (.op i) w := by injection hrm
      have F := removeFacts g.inv (.op i)
      have hn2 : c2.nodes = c.nodes.filter (fun p => p.1 ≠ .op i) := by
        rw [hc2]; simp only [removed, F.nodes]
      have hop2 : ∀ x ∈ rest, c2.opOf? x = c.opOf? x ∧ x ∈ c2.nodeIds := by
        intro x hx
        have hxne : x ≠ .op i := fun e => hnd'.1 (e ▸ hx)
        obtain ⟨ox, hox⟩ := mem_nodeIds.mp (hns x (List.mem_cons_of_mem _ hx)).2
        have hm2 : (x, ox) ∈ c2.nodes := by rw [hn2]; exact List.mem_filter.mpr ⟨hox, by simpa using hxne⟩
        exact ⟨by rw [(opOf_eq_some b2.inv.ids_nodup).mpr hm2, (opOf_eq_some g.inv.ids_nodup).mpr hox],
               mem_nodeIds.mpr ⟨ox, hm2⟩⟩
      obtain ⟨e1, e2⟩ := ih b2 hnd'.2 (fun x hx => ⟨(hns x (List.mem_cons_of_mem _ hx)).1, (hop2 x hx).2⟩)
      refine ⟨e1, ?_⟩
      have hat : opsAt c2 rest = opsAt c rest := by
        unfold opsAt
        have : ∀ (l : List NodeId), (∀ x ∈ l, c2.opOf? x = c.opOf? x) → l.filterMap c2.opOf? = l.filterMap c.opOf? := by
          intro l
          induction l with
          | nil => intro _; rfl
          | cons a t iht =>
            intro h
            rw [List.filterMap_cons, List.filterMap_cons, h a (by simp), iht (fun x hx => h x (List.mem_cons_of_mem _ hx))]
        exact this rest (fun x hx => (hop2 x hx).1)
      have hat0 : opsAt c (NodeId.op i :: rest) = w :: opsAt c rest := by
        unfold opsAt; rw [List.filterMap_cons, ho]
      rw [hat] at e2
      have hrem := countP_opsOf_removed g hw p
      rw [← hc2] at hrem
      rw [hat0, List.countP_cons]
      omega

theorem removeIdentity_eq_all (c : Dag) : c.removeIdentity = c.removeAll (dictGet c.nodeDict "Identity") := by
  unfold removeIdentity
  by_cases hh : dictHas c.nodeDict "Identity" = true
  · rw [if_pos hh]
  · rw [if_neg hh, dictGet_of_not_has _ _ (by simpa using hh)]; rfl

/-- **`remove_identity` on a plain circuit**: it succeeds and removes exactly the identity operations -/
theorem removeIdentity_count {c : Dag} {P : Paths} (g : Good c P) (hpl : AllPlain c) (p : Op → Bool) :
    c.removeIdentity.2 = none ∧
    (opsOf c.removeIdentity.1).countP p = ((opsOf c).filter (fun o => !decide (o.kind = .identity))).countP p := by
  rw [removeIdentity_eq_all]
  obtain ⟨hnd, hmem⟩ := classList_spec g hpl .identity (by decide) (by decide) (by decide) (by decide)
  have hname : Kind.identity.name = "Identity" := rfl
  rw [hname] at hnd hmem
  have hns : ∀ n ∈ dictGet c.nodeDict "Identity", (∃ j, n = NodeId.op j) ∧ n ∈ c.nodeIds := by
    intro n hn
    obtain ⟨i, op, rfl, hm, _⟩ := (hmem n).mp hn
    exact ⟨⟨i, rfl⟩, mem_nodeIds.mpr ⟨op, hm⟩⟩
  obtain ⟨e1, e2⟩ := removeAll_count g _ hnd hns p
  refine ⟨e1, ?_⟩
  have hperm := opsAt_perm g .identity _ hnd hmem
  have c1 := hperm.countP_eq p
  have c2 := List.countP_eq_countP_filter_add (opsOf c) p (fun o => decide (o.kind = .identity))
  omega

/-! ## `prep` = `unwrap_nodes` then `remove_identity` -/

theorem mem_opsOf {c : Dag} {o : Op} : o ∈ opsOf c ↔ ∃ i, (NodeId.op i, o) ∈ c.nodes := by
  unfold opsOf
  rw [List.mem_map]
  constructor
  · rintro ⟨⟨n, o'⟩, hm, rfl⟩
    obtain ⟨hm1, hm2⟩ := List.mem_filter.mp hm
    cases n with
    | op i => exact ⟨i, hm1⟩
    | inp r => simp [isOpNode] at hm2
    | out r => simp [isOpNode] at hm2
  · rintro ⟨i, hm⟩
    exact ⟨(.op i, o), List.mem_filter.mpr ⟨hm, rfl⟩, rfl⟩

theorem mem_of_countP_eq {l1 l2 : List Op} (h : ∀ p : Op → Bool, l1.countP p = l2.countP p) (o : Op) : o ∈ l1 ↔ o ∈ l2 := by
  have := h (fun x => decide (x = o))
  constructor
  · intro hm
    have h1 : 0 < l1.countP (fun x => decide (x = o)) := List.countP_pos_iff.mpr ⟨o, hm, by simp⟩
    rw [this] at h1
    obtain ⟨a, ha, hao⟩ := List.countP_pos_iff.mp h1
    have : a = o := by simpa using hao
    exact this ▸ ha
  · intro hm
    have h1 : 0 < l2.countP (fun x => decide (x = o)) := List.countP_pos_iff.mpr ⟨o, hm, by simp⟩
    rw [← this] at h1
    obtain ⟨a, ha, hao⟩ := List.countP_pos_iff.mp h1
    have : a = o := by simpa using hao
    exact this ▸ ha

theorem plain_oneQubit (k : Kind) (r : Reg) : PlainOp' (Op.oneQubit k r) :=
  { labels := by intro l hl; simp [Op.oneQubit] at hl; subst hl; decide
    arity := by simp [Op.oneQubit]
    inner_base := by intro k' hk'; simp [Op.oneQubit] at hk' }

/-- the unwrapped operations of a plain list are plain -/
theorem plain_flatMap_unwrap {l : List Op} (hl : ∀ o ∈ l, PlainOp' o) : ∀ o ∈ l.flatMap Op.unwrap, PlainOp' o := by
  intro o ho
  obtain ⟨w, hw, how⟩ := List.mem_flatMap.mp ho
  by_cases hk : w.kind = .wrapper
  · unfold Op.unwrap at how
    rw [hk] at how
    obtain ⟨k, _, rfl⟩ := List.mem_map.mp how
    exact plain_oneQubit k _
  · rw [unwrap_of_not_wrapper hk] at how
    simp at how; rw [how]; exact hl w hw


/-- operation lists of plain, well-formed operations that wrap no wrappers -/
def PlainSeq' (seq : List Op) : Prop := ∀ op ∈ seq, OpWF op ∧ PlainOp' op

theorem PlainSeq'.plain {seq : List Op} (h : PlainSeq' seq) : ∀ op ∈ seq, OpWF op ∧ PlainOp op :=
  fun op hop => ⟨(h op hop).1, (h op hop).2.toPlainOp⟩

theorem wf_flatMap_unwrap {l : List Op} (hl : ∀ o ∈ l, OpWF o) : ∀ o ∈ l.flatMap Op.unwrap, OpWF o := by
  intro o ho
  obtain ⟨w, hw, how⟩ := List.mem_flatMap.mp ho
  by_cases hk : w.kind = .wrapper
  · obtain ⟨⟨r, hq⟩, _, _⟩ := (hl w hw).wrapper_shape hk
    exact (unwrap_ops_wf (hl w hw) hk hq o how).1
  · rw [unwrap_of_not_wrapper hk] at how
    simp at how; rw [how]; exact hl w hw

theorem unwrapSeq_eq (seq : List Op) :
    Spec.unwrapSeq seq = (seq.flatMap Op.unwrap).filter (fun o => !decide (o.kind = .identity)) := by
  unfold Spec.unwrapSeq
  apply List.filter_congr
  intro o _; simp

/-- **the copy the emitter/unitary metrics work on**: for a circuit built by `add` from a plain operation list,
    `unwrap_nodes(); remove_identity()` succeed, keep DagInv and the registers, and leave exactly the multiset of the
    unwrapped, identity-free operation list -/
theorem prep_spec (ne np nc : Nat) (seq : List Op) (hseq : PlainSeq' seq) (hok : (build ne np nc seq).2 = none) :
    ∃ c', prep (build ne np nc seq).1 = .ok c' ∧ DagInv c' ∧ c'.regs = (build ne np nc seq).1.regs ∧
      ∀ p : Op → Bool, (opsOf c').countP p = (Spec.unwrapSeq seq).countP p := by
  obtain ⟨hops, ⟨P, g⟩⟩ := build_spec ne np nc seq (fun op h => (hseq op h).1) hok
  have hpl : AllPlain (build ne np nc seq).1 := by
    intro i o hm
    have : o ∈ opsOf (build ne np nc seq).1 := mem_opsOf.mpr ⟨i, hm⟩
    rw [hops] at this; exact (hseq o this).2
  obtain ⟨P1, g1, hr1⟩ := unwrapNodes_good g
  have hcount1 := fun p => (unwrapNodes_count g hpl p)
  have hmem1 := mem_of_countP_eq (fun p => (hcount1 p).2)
  have hpl1 : AllPlain (build ne np nc seq).1.unwrapNodes.1 := by
    intro i o hm
    have h1 : o ∈ opsOf (build ne np nc seq).1.unwrapNodes.1 := mem_opsOf.mpr ⟨i, hm⟩
    have h2 := (hmem1 o).mp h1
    rw [hops] at h2
    exact plain_flatMap_unwrap (fun o ho => (hseq o ho).2) o h2
  obtain ⟨P2, g2, hr2⟩ := removeIdentity_good g1
  have hcount2 := fun p => (removeIdentity_count g1 hpl1 p)
  unfold prep
  cases hu : (build ne np nc seq).1.unwrapNodes with
  | mk c1 e1 =>
    have he1 : e1 = none := by have := (hcount1 (fun _ => true)).1; rw [hu] at this; exact this
    subst he1
    rw [hu] at g1 hr1 hcount1 g2 hr2 hcount2
    simp only at g1 hr1 hcount1 g2 hr2 hcount2 ⊢
    cases hrm : c1.removeIdentity with
    | mk c2 e2 =>
      have he2 : e2 = none := by have := (hcount2 (fun _ => true)).1; rw [hrm] at this; exact this
      subst he2
      rw [hrm] at g2 hr2 hcount2
      simp only at g2 hr2 hcount2 ⊢
      refine ⟨c2, rfl, ⟨P2, g2⟩, hr2.trans hr1, ?_⟩
      intro p
      rw [(hcount2 p).2, unwrapSeq_eq, List.countP_filter, List.countP_filter]
      rw [(hcount1 _).2, hops]


/-! ## unitary count -/

theorem length_getNodeByLabels_single {c : Dag} (h : DagInv c) (l : String) (h1 : l ≠ "Input") (h2 : l ≠ "Output") :
    (if dictHas c.nodeDict l then (c.getNodeByLabels [l]).length else 0) =
      (opsOf c).countP (fun op => op.indexKeys.contains l) := by
  have hlen := length_getNodeByLabels_ops h [l] (by simp [h1]) (by simp [h2])
  have hsimp : (fun op : Op => [l].all (fun l => op.indexKeys.contains l)) = fun op => op.indexKeys.contains l := by
    funext op; simp
  rw [hsimp] at hlen
  by_cases hh : dictHas c.nodeDict l = true
  · rw [if_pos hh, hlen]
  · rw [if_neg hh, ← hlen]
    have hg := dictGet_of_not_has c.nodeDict l (by simpa using hh)
    have : c.getNodeByLabels [l] = [] := by
      apply List.eq_nil_iff_forall_not_mem.mpr
      intro n hn
      unfold getNodeByLabels at hn
      rw [mem_getNodeByLabels_aux] at hn
      have := hn.2 l (by simp)
      rw [hg] at this; simp at this
    rw [this]; rfl

/-- for a plain well-formed operation, carrying the key of class `k` means being of class `k` -/
theorem contains_kindName_iff {op : Op} (hwf : OpWF op) (hp : PlainOp op) (k : Kind) (hk1 : k.name ≠ "one-qubit")
    (hk2 : k.name ≠ "two-qubit")
    (hk3 : k.name ≠ "Emitter" ∧ k.name ≠ "Photonic" ∧ k.name ≠ "Emitter-Emitter" ∧ k.name ≠ "Emitter-Photonic" ∧
      k.name ≠ "Photonic-Emitter" ∧ k.name ≠ "Photonic-Photonic") :
    op.indexKeys.contains k.name = decide (op.kind = k) := by
  have := count_kindName_keys hwf hp k hk1 hk2 hk3
  by_cases hk : op.kind = k
  · rw [if_pos hk] at this
    have hm : k.name ∈ op.indexKeys := List.count_pos_iff.mp (by omega)
    simp [hk, hm]
  · rw [if_neg hk] at this
    have hm : k.name ∉ op.indexKeys := List.count_eq_zero.mp this
    simp [hk, hm]

theorem countP_counted (l : List Op) :
    l.countP (fun o => Spec.isCountedUnitary o.kind) =
      l.countP (fun o => decide (o.kind = .sigmaX)) + l.countP (fun o => decide (o.kind = .sigmaY)) +
      l.countP (fun o => decide (o.kind = .sigmaZ)) + l.countP (fun o => decide (o.kind = .phase)) +
      l.countP (fun o => decide (o.kind = .phaseDagger)) + l.countP (fun o => decide (o.kind = .hadamard)) +
      l.countP (fun o => decide (o.kind = .cnot)) := by
  induction l with
  | nil => rfl
  | cons a t ih =>
    simp only [List.countP_cons, ih]
    cases a.kind <;> simp [Spec.isCountedUnitary] <;> omega

/-- **`CircuitUnitaryCount` = number of SigmaX/Y/Z, Phase, PhaseDagger, Hadamard, CNOT gates of the unwrapped,
    identity-free operation list**, for every circuit built by `add` from a plain operation list -/
theorem unitaryCount_eq_spec (ne np nc : Nat) (seq : List Op) (hseq : PlainSeq' seq) (hok : (build ne np nc seq).2 = none) :
    Metrics.unitaryCount (build ne np nc seq).1 = .ok (Spec.unitaryCount seq) := by
  obtain ⟨c', hprep, hinv, _, hcount⟩ := prep_spec ne np nc seq hseq hok
  unfold Metrics.unitaryCount
  rw [hprep]
  show Except.ok _ = _
  congr 1
  have hwfU : ∀ o ∈ Spec.unwrapSeq seq, OpWF o ∧ PlainOp o := by
    intro o ho
    rw [unwrapSeq_eq] at ho
    have hm := (List.mem_filter.mp ho).1
    exact ⟨wf_flatMap_unwrap (fun o ho => (hseq o ho).1) o hm,
      (plain_flatMap_unwrap (fun o ho => (hseq o ho).2) o hm).toPlainOp⟩
  have hlab : ∀ k : Kind, k.name ≠ "Input" → k.name ≠ "Output" → k.name ≠ "one-qubit" → k.name ≠ "two-qubit" →
      (k.name ≠ "Emitter" ∧ k.name ≠ "Photonic" ∧ k.name ≠ "Emitter-Emitter" ∧ k.name ≠ "Emitter-Photonic" ∧
        k.name ≠ "Photonic-Emitter" ∧ k.name ≠ "Photonic-Photonic") →
      (if dictHas c'.nodeDict k.name then (c'.getNodeByLabels [k.name]).length else 0) =
        (Spec.unwrapSeq seq).countP (fun o => decide (o.kind = k)) := by
    intro k h1 h2 h3 h4 h5
    rw [length_getNodeByLabels_single hinv k.name h1 h2, hcount]
    apply countP_congr_mem
    intro o ho
    exact contains_kindName_iff (hwfU o ho).1 (hwfU o ho).2 k h3 h4 h5
  have hstep : ∀ (n : Nat) (l : String), (if dictHas c'.nodeDict l = true then n + (c'.getNodeByLabels [l]).length else n) =
      n + (if dictHas c'.nodeDict l then (c'.getNodeByLabels [l]).length else 0) := by
    intro n l; by_cases h : dictHas c'.nodeDict l = true <;> simp [h]
  unfold Spec.unitaryCount
  rw [countP_counted]
  simp only [unitaryLabels, List.foldl_cons, List.foldl_nil, hstep]
  have e1 : (if dictHas c'.nodeDict "SigmaX" = true then (c'.getNodeByLabels ["SigmaX"]).length else 0) = _ :=
    hlab .sigmaX (by decide) (by decide) (by decide) (by decide) (by decide)
  have e2 : (if dictHas c'.nodeDict "SigmaY" = true then (c'.getNodeByLabels ["SigmaY"]).length else 0) = _ :=
    hlab .sigmaY (by decide) (by decide) (by decide) (by decide) (by decide)
  have e3 : (if dictHas c'.nodeDict "SigmaZ" = true then (c'.getNodeByLabels ["SigmaZ"]).length else 0) = _ :=
    hlab .sigmaZ (by decide) (by decide) (by decide) (by decide) (by decide)
  have e4 : (if dictHas c'.nodeDict "Phase" = true then (c'.getNodeByLabels ["Phase"]).length else 0) = _ :=
    hlab .phase (by decide) (by decide) (by decide) (by decide) (by decide)
  have e5 : (if dictHas c'.nodeDict "PhaseDagger" = true then (c'.getNodeByLabels ["PhaseDagger"]).length else 0) = _ :=
    hlab .phaseDagger (by decide) (by decide) (by decide) (by decide) (by decide)
  have e6 : (if dictHas c'.nodeDict "Hadamard" = true then (c'.getNodeByLabels ["Hadamard"]).length else 0) = _ :=
    hlab .hadamard (by decide) (by decide) (by decide) (by decide) (by decide)
  have e7 : (if dictHas c'.nodeDict "CNOT" = true then (c'.getNodeByLabels ["CNOT"]).length else 0) = _ :=
    hlab .cnot (by decide) (by decide) (by decide) (by decide) (by decide)
  rw [e1, e2, e3, e4, e5, e6, e7]
  omega


/-! ## maximum emitter depth -/

/-- the number of operation nodes on a quantum wire = the number of operations acting on the register -/
theorem wire_length_eq_count {c : Dag} {P : Paths} (g : Good c P) {r : Reg} (hl : c.live r) (hq : r.ty ≠ .c) :
    (P r).length = (opsOf c).countP (fun o => o.qregs.contains r) + 2 := by
  obtain ⟨mid, hP, hmid⟩ := g.inv.shape r hl
  have hndP := g.inv.nodup r
  rw [hP] at hndP
  have hnd_mid : mid.Nodup := by
    have := (List.nodup_cons.mp hndP).2
    exact (List.nodup_append.mp this).1
  let q : NodeId × Op → Bool := fun pr => isOpNode pr && pr.2.qregs.contains r
  have hms_nd : ((c.nodes.filter q).map (·.1)).Nodup :=
    List.Nodup.sublist (List.Sublist.map _ List.filter_sublist) g.inv.ids_nodup
  have hmem : ∀ x, x ∈ mid ↔ x ∈ (c.nodes.filter q).map (·.1) := by
    intro x
    constructor
    · intro hx
      obtain ⟨i, rfl⟩ := hmid x hx
      have hxP : NodeId.op i ∈ P r := by rw [hP]; simp [hx]
      obtain ⟨o, ho⟩ := mem_nodeIds.mp (g.inv.mem_nodes r _ hxP)
      have := (g.mem.mem_q i o ho r hq).mp hxP
      exact List.mem_map.mpr ⟨(.op i, o), List.mem_filter.mpr ⟨ho, by simp [q, isOpNode, this]⟩, rfl⟩
    · intro hx
      obtain ⟨pr, hpr, rfl⟩ := List.mem_map.mp hx
      obtain ⟨hm, hqq⟩ := List.mem_filter.mp hpr
      obtain ⟨n, o⟩ := pr
      cases n with
      | inp r' => simp [q, isOpNode] at hqq
      | out r' => simp [q, isOpNode] at hqq
      | op i =>
        have hr : r ∈ o.qregs := by simpa [q, isOpNode] using hqq
        have := (g.mem.mem_q i o hm r hq).mpr hr
        rw [hP] at this
        rcases List.mem_cons.mp this with e | this
        · cases e
        · rcases List.mem_append.mp this with this | this
          · exact this
          · simp at this
  have hlen := length_eq_of_nodup_of_mem_iff hnd_mid hms_nd hmem
  rw [hP, countP_opsOf]
  simp only [List.length_cons, List.length_append, List.length_singleton]
  rw [hlen, List.length_map, ← List.countP_eq_length_filter]
  simp [q]

theorem length_emitterWire (s : List Op) (i : Nat) :
    (Spec.emitterWire s i).length = s.countP (fun o => o.qregs.contains ⟨.e, i⟩) := by
  unfold Spec.emitterWire
  rw [← List.countP_eq_length_filter]
  have : ∀ (k : Nat) (l : List Op), (l.zipIdx k).countP (fun p => p.1.qregs.contains ⟨.e, i⟩) =
      l.countP (fun o => o.qregs.contains ⟨.e, i⟩) := by
    intro k l
    induction l generalizing k with
    | nil => rfl
    | cons a t ih => simp only [List.zipIdx_cons, List.countP_cons, ih]
  exact this 0 s

theorem mapM_range_ok' (g : Nat → Except DErr Int) (D : Nat → Int) (n : Nat) (h : ∀ i, i < n → g i = .ok (D i)) :
    (List.range n).mapM g = .ok ((List.range n).map D) := mapM_range_ok g D n h

/-- **`CircuitMaxEmitDepth` = the largest number of (unwrapped, non-identity) operations on an emitter**, for every
    circuit built by `add` from a plain operation list (`ValueError` of `max([])` without emitters on both sides) -/
theorem maxEmitDepth_eq_spec (ne np nc : Nat) (seq : List Op) (hseq : PlainSeq' seq) (hok : (build ne np nc seq).2 = none) :
    Metrics.maxEmitDepth (build ne np nc seq).1 = Spec.maxEmitDepth (build ne np nc seq).1.nE seq := by
  obtain ⟨c', hprep, ⟨P', g'⟩, hregs, hcount⟩ := prep_spec ne np nc seq hseq hok
  have hnE : c'.nE = (build ne np nc seq).1.nE := congrFun hregs .e
  unfold Metrics.maxEmitDepth Spec.maxEmitDepth
  rw [hprep]
  show (do let ds ← (List.range c'.nE).mapM _; maxOrErr ds) = _
  have hmap : (List.range c'.nE).mapM (fun i => do
        let h ← c'.regGateHistory ⟨.e, i⟩
        pure ((h.length : Int) - 2)) =
      .ok ((List.range c'.nE).map fun i => ((Spec.emitterWire (Spec.unwrapSeq seq) i).length : Int)) := by
    apply mapM_range_ok'
    intro i hi
    have hl : c'.live ⟨.e, i⟩ := hi
    rw [regGateHistory_eq_wire g'.inv hl]
    show Except.ok _ = _
    congr 1
    rw [wire_length_eq_count g' hl (by simp), hcount, length_emitterWire]
    push_cast; omega
  rw [hmap, hnE]
  rfl

end Metrics
end Graphiq
