/-
  Proofs/Check.lean — soundness of the validator of Model/Check.lean.
-/
import GraphiqModel.Model.Check
import GraphiqModel.Proofs.InverseCircuit
namespace Graphiq
open PRow Tab STab

theorem mem_allScripts (m : Nat) (s : List Bool) (h : s.length = m) : s ∈ allScripts m := by
  induction m generalizing s with
  | zero =>
    have : s = [] := List.length_eq_zero_iff.mp h
    subst this; simp [allScripts]
  | succ k ih =>
    cases s with
    | nil => simp at h
    | cons b rest =>
      have hr : rest.length = k := by simpa using h
      simp only [allScripts, List.mem_flatMap]
      refine ⟨rest, ih rest hr, ?_⟩
      cases b <;> simp

theorem isGood_good (t : STab) (h : t.isGood = true) : t.Good := by
  unfold STab.isGood at h
  simp only [List.all_eq_true, List.mem_range, Bool.and_eq_true, Bool.not_eq_true'] at h
  exact ⟨fun i hi => (h i hi).1, fun i k hi hk => (h i hi).2 k hk⟩

theorem sameRows_spec (a b : STab) (h : a.sameRows b = true) : a.n = b.n ∧ ∀ i, i < a.n → EqOn a.n (a.row i) (b.row i) := by
  unfold STab.sameRows at h
  simp only [Bool.and_eq_true, beq_iff_eq, List.all_eq_true, List.mem_range] at h
  exact ⟨h.1, fun i hi => beqOn_eqOn _ _ _ (h.2 i hi)⟩

/-- equal canonical forms ⇒ same signed group -/
theorem sameGroup_sound (a b : STab) (h : a.sameGroup b = true) : SpanEq a b := by
  unfold STab.sameGroup at h
  simp only [Bool.and_eq_true] at h
  obtain ⟨⟨ga, gb⟩, hm⟩ := h
  have ga' := isGood_good a ga
  have gb' := isGood_good b gb
  cases ha : a.canonicalForm with
  | error e => rw [ha] at hm; simp at hm
  | ok ca =>
    cases hb : b.canonicalForm with
    | error e => rw [ha, hb] at hm; simp at hm
    | ok cb =>
      rw [ha, hb] at hm
      simp only at hm
      obtain ⟨s1, _⟩ := canonicalForm_spanEq a ca ga' ha
      obtain ⟨s2, _⟩ := canonicalForm_spanEq b cb gb' hb
      obtain ⟨hn, hr⟩ := sameRows_spec ca cb hm
      have smid : SpanEq ca cb := by
        apply spanEq_of_gens ca cb hn.symm
        · intro i hi
          exact InSpan.eqv _ _ (spn_gen ca i (hn ▸ hi)) (hr i (hn ▸ hi))
        · intro i hi
          have := (hr i hi).symm
          rw [hn] at this
          exact InSpan.eqv _ _ (spn_gen cb i (hn ▸ hi)) this
      exact (s1.trans smid).trans s2.symm

/-- **soundness of the validator**: if it accepts, then for EVERY outcome script (one bit per possible draw) the run succeeds and
    the stabilizer half of the final tableau generates exactly the signed group of `graph state ⊗ |0…0⟩` -/
theorem checkGenerates_sound (ne np : Nat) (ops : List COp) (adj : Nat → Nat → Bool)
    (h : checkGenerates ne np ops adj = true) :
    ∀ script : List Bool, script.length = countMeas ops →
      ∃ s, stabRun ne np .prob script ops = some s ∧ SpanEq (STab.ofTab s.t) (targetSTab np ne adj) := by
  intro script hl
  unfold checkGenerates at h
  simp only [List.all_eq_true] at h
  have := h script (mem_allScripts _ script hl)
  unfold checkScript at this
  cases hr : stabRun ne np .prob script ops with
  | none => rw [hr] at this; simp at this
  | some s =>
    rw [hr] at this
    exact ⟨s, rfl, sameGroup_sound _ _ this⟩

end Graphiq
