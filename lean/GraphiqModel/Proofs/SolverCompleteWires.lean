/-
  Proofs/SolverCompleteWires.lean — emission structure of the circuit the solver model records: on every photon wire the FIRST operation
  (in time order) is the emission CNOT from an emitter of the circuit; no operation touches a photon before it is emitted.
  Pure bookkeeping of the operation list: every helper prepends operations (or edits a one-qubit wrapper on one wire), and after the
  round of photon `p` nothing ever touches wire `p` again.
-/
import GraphiqModel.Proofs.SolverCompleteCount
import GraphiqModel.Proofs.SolverCompleteMain
namespace Graphiq.Solver
open Graphiq Graphiq.Cliff PRow STab

/-- the first operation (time order) on wire `q` -/
def firstOn (np q : Nat) (c : List SOp) : Option SOp := c.find? (fun o => o.touches np q)

theorem firstOn_cons_of_touches (np q : Nat) (o : SOp) (c : List SOp) (h : o.touches np q = true) :
    firstOn np q (o :: c) = some o := by
  unfold firstOn; simp [h]

theorem firstOn_cons_of_not (np q : Nat) (o : SOp) (c : List SOp) (h : o.touches np q = false) :
    firstOn np q (o :: c) = firstOn np q c := by
  unfold firstOn; simp [h]

theorem firstOn_append (np q : Nat) (a b : List SOp) :
    firstOn np q (a ++ b) = (firstOn np q a).or (firstOn np q b) := by
  unfold firstOn; rw [List.find?_append]

/-- `s → s'` leaves the first operation of every photon wire outside `P` alone (and the register counts) -/
def PhotOK (P : Nat → Prop) (s s' : St) : Prop :=
  s'.np = s.np ∧ s'.ne = s.ne ∧ ∀ q, q < s.np → ¬ P q → firstOn s.np q s'.circ = firstOn s.np q s.circ

theorem PhotOK.refl (P : Nat → Prop) (s : St) : PhotOK P s s := ⟨rfl, rfl, fun _ _ _ => rfl⟩

theorem PhotOK.trans {P : Nat → Prop} {a b c : St} (h1 : PhotOK P a b) (h2 : PhotOK P b c) : PhotOK P a c := by
  refine ⟨h2.1.trans h1.1, h2.2.1.trans h1.2.1, fun q hq hP => ?_⟩
  have := h2.2.2 q (by rw [h1.1]; exact hq) hP
  rw [h1.1] at this
  rw [this]; exact h1.2.2 q hq hP

theorem PhotOK.mono {P Q : Nat → Prop} {a b : St} (hPQ : ∀ q, P q → Q q) (h : PhotOK P a b) : PhotOK Q a b :=
  ⟨h.1, h.2.1, fun q hq hQ => h.2.2 q hq (fun hp => hQ (hPQ q hp))⟩

theorem photOK_gate (P : Nat → Prop) (s : St) (g : Gate) : PhotOK P s (s.gate g) := ⟨rfl, rfl, fun _ _ _ => rfl⟩

/-- `_add_one_qubit_gate` on wire `q'` edits only wrappers on `q'` -/
theorem photOK_addOneQubit (s s' : St) (gs : List Gen) (q' : Nat) (h : addOneQubit s gs q' = .ok s') :
    PhotOK (fun q => q = q') s s' := by
  obtain ⟨_, e2, e3⟩ := addOneQubit_t s s' gs q' h
  refine ⟨e2, e3, fun q _ hq => ?_⟩
  have hwrap : ∀ g, (SOp.wrap g q').touches s.np q = false := by
    intro g
    show (q' == q) = false
    have : ¬ q' = q := fun e => hq e.symm
    simp [this]
  unfold addOneQubit at h
  simp only at h
  have hsplit : s.circ = s.circ.takeWhile (fun o => !o.touches s.np q') ++ s.circ.dropWhile (fun o => !o.touches s.np q') :=
    (List.takeWhile_append_dropWhile).symm
  have hpost := dropWhile_head_false (fun o => !o.touches s.np q') s.circ
  generalize s.circ.takeWhile (fun o => !o.touches s.np q') = pre at h hsplit
  generalize s.circ.dropWhile (fun o => !o.touches s.np q') = post at h hsplit hpost
  split at h
  · next old q'' rest =>
    have hqq : q'' = q' := by
      have := hpost _ _ rfl
      simpa [SOp.touches] using this
    subst hqq
    split at h
    · cases h
    · split at h
      · injection h with h; rw [← h]
        show firstOn s.np q (pre ++ rest) = firstOn s.np q s.circ
        rw [hsplit, firstOn_append, firstOn_append, firstOn_cons_of_not _ _ _ _ (hwrap old)]
      · injection h with h; rw [← h]
        show firstOn s.np q (pre ++ SOp.wrap _ q'' :: rest) = firstOn s.np q s.circ
        rw [hsplit, firstOn_append, firstOn_append, firstOn_cons_of_not _ _ _ _ (hwrap old),
          firstOn_cons_of_not _ _ _ _ (hwrap _)]
  · split at h
    · cases h
    · split at h
      · injection h with h; rw [← h]
      · injection h with h; rw [← h]
        show firstOn s.np q (SOp.wrap _ q' :: s.circ) = _
        exact firstOn_cons_of_not _ _ _ _ (hwrap _)

theorem photOK_changeToZ (P : Nat → Prop) (s : St) (row col : Nat) : PhotOK P s (changeToZ s row col).1 := by
  rcases changeToZ_cases' s row col with e | e | e <;> rw [e] <;> exact ⟨rfl, rfl, fun _ _ _ => rfl⟩

theorem photOK_addEmitterCnot (P : Nat → Prop) (s : St) (c t : Nat) : PhotOK P s (addEmitterCnot s c t) := by
  refine ⟨rfl, rfl, fun q hq _ => ?_⟩
  show firstOn s.np q (SOp.cnotEE c t :: s.circ) = _
  apply firstOn_cons_of_not
  show (s.np + c == q || s.np + t == q) = false
  have h1 : ¬ s.np + c = q := by omega
  have h2 : ¬ s.np + t = q := by omega
  simp [h1, h2]

theorem photOK_foldl {α : Type} (P : Nat → Prop) (f : St → α → St) (hf : ∀ s x, PhotOK P s (f s x)) (l : List α) (s : St) :
    PhotOK P s (l.foldl f s) := by
  induction l generalizing s with
  | nil => exact PhotOK.refl P s
  | cons x rest ih => simp only [List.foldl]; exact (hf s x).trans (ih (f s x))

theorem photOK_foldlM {α : Type} (P : Nat → Prop) (f : St → α → Except Err St) (Q : α → Prop)
    (hf : ∀ s x s', Q x → f s x = .ok s' → PhotOK P s s') (l : List α) (hl : ∀ x, x ∈ l → Q x) (s s' : St)
    (h : l.foldlM f s = .ok s') : PhotOK P s s' := by
  induction l generalizing s with
  | nil =>
    simp only [List.foldlM, pure, Except.pure] at h
    injection h with h; rw [← h]; exact PhotOK.refl P s
  | cons x rest ih =>
    simp only [List.foldlM] at h
    cases h1 : f s x with
    | error e => rw [h1] at h; simp [bind, Except.bind] at h
    | ok s1 =>
      rw [h1] at h
      simp only [bind, Except.bind] at h
      exact (hf s x s1 (hl x List.mem_cons_self) h1).trans (ih (fun y hy => hl y (List.mem_cons_of_mem _ hy)) s1 h)

/-- a wrapper on an emitter wire -/
theorem photOK_addOneQubit_emitter (s s' : St) (gs : List Gen) (q' : Nat) (hq' : s.np ≤ q') (h : addOneQubit s gs q' = .ok s') :
    PhotOK (fun _ => False) s s' := by
  have := photOK_addOneQubit s s' gs q' h
  exact ⟨this.1, this.2.1, fun q hq _ => this.2.2 q hq (by omega)⟩

theorem photOK_transformGeneratorEmitters (s s' : St) (g tgt : Nat) (h : transformGeneratorEmitters s g tgt = .ok s') :
    PhotOK (fun _ => False) s s' := by
  unfold transformGeneratorEmitters at h
  split at h
  · injection h with h; rw [← h]; exact PhotOK.refl _ s
  · split at h
    · cases h
    · injection h with h; rw [← h]
      exact photOK_foldl _ _ (fun a c => photOK_addEmitterCnot _ a c tgt) _ s

theorem photOK_allEmittersToZ (s s' : St) (g : Nat) (skip : Bool) (h : allEmittersToZ s g skip = .ok s') :
    PhotOK (fun _ => False) s s' := by
  unfold allEmittersToZ at h
  apply photOK_foldlM _ _ (fun _ => True) _ _ (fun _ _ => trivial) s s' h
  intro a i a' _ ha
  simp only at ha
  have k1 := photOK_changeToZ (fun _ => False) a g (a.np + i)
  generalize changeToZ a g (a.np + i) = r at ha k1
  obtain ⟨a1, gl⟩ := r
  simp only at ha k1
  split at ha
  · injection ha with ha; rw [← ha]; exact k1
  · exact k1.trans (photOK_addOneQubit_emitter a1 a' gl _ (by rw [k1.1]; omega) ha)

theorem photOK_fixSign (s s' : St) (g e : Nat) (h : fixSign s g e = .ok s') : PhotOK (fun _ => False) s s' := by
  unfold fixSign at h
  split at h
  · exact (photOK_gate _ s _).trans (photOK_addOneQubit_emitter _ s' _ _ (by show s.np ≤ s.np + e; omega) h)
  · injection h with h; rw [← h]; exact PhotOK.refl _ s

/-- the time-reversed measurement touches only the photon it measures onto (and emitters) -/
theorem photOK_timeReversedMeasurement (s s' : St) (photon : Nat) (h : timeReversedMeasurement s photon = .ok s') :
    PhotOK (fun q => q = photon) s s' := by
  unfold timeReversedMeasurement at h
  simp only at h
  split at h
  · cases h
  · next g _ _ =>
    split at h
    · cases h
    · next e _ _ =>
      cases h1 : allEmittersToZ s g true with
      | error err => rw [h1] at h; cases h
      | ok s1 =>
        rw [h1] at h; simp only at h
        cases h2 : transformGeneratorEmitters s1 g e with
        | error err => rw [h2] at h; cases h
        | ok s2 =>
          rw [h2] at h; simp only at h
          cases h3 : fixSign s2 g e with
          | error err => rw [h3] at h; cases h
          | ok s3 =>
            rw [h3] at h; simp only at h
            injection h with h; rw [← h]
            have k : PhotOK (fun _ => False) s s3 := ((photOK_allEmittersToZ s s1 g true h1).trans
              (photOK_transformGeneratorEmitters s1 s2 g e h2)).trans (photOK_fixSign s2 s3 g e h3)
            refine ⟨k.1, k.2.1, fun q hq hqp => ?_⟩
            show firstOn s.np q (SOp.mcr e photon :: s3.circ) = _
            rw [firstOn_cons_of_not]
            · exact k.2.2 q hq (fun f => f)
            · show (s.np + e == q || photon == q) = false
              have h1 : ¬ s.np + e = q := by omega
              have h2 : ¬ photon = q := fun e => hqp e.symm
              simp [h1, h2]

/-- photon absorption touches only the absorbed photon's wire, and puts the emission CNOT first on it -/
theorem photOK_addPhotonAbsorption (s s' : St) (photon : Nat) (h : addPhotonAbsorption s photon = .ok s') :
    PhotOK (fun q => q = photon) s s' ∧ ∃ e, e < s.ne ∧ firstOn s.np photon s'.circ = some (.emit e photon) := by
  unfold addPhotonAbsorption at h
  split at h
  · cases h
  · next g _ =>
    have k0 := photOK_changeToZ (fun q => q = photon) s g photon
    generalize changeToZ s g photon = r at h k0
    obtain ⟨s0, gl⟩ := r
    simp only at h k0
    cases h1 : addOneQubit s0 gl photon with
    | error err => rw [h1] at h; cases h
    | ok s1 =>
      rw [h1] at h; simp only at h
      split at h
      · cases h
      · next e erest hem =>
        have hee : e ∈ emitterIndices s1 g := by rw [hem]; exact List.mem_cons_self
        simp only [emitterIndices, List.mem_filter, List.mem_range] at hee
        cases h2 : allEmittersToZ s1 g false with
        | error err => rw [h2] at h; cases h
        | ok s2 =>
          rw [h2] at h; simp only at h
          cases h3 : transformGeneratorEmitters s2 g e with
          | error err => rw [h3] at h; cases h
          | ok s3 =>
            rw [h3] at h; simp only at h
            cases h4 : fixSign s3 g e with
            | error err => rw [h4] at h; cases h
            | ok s4 =>
              rw [h4] at h; simp only at h
              injection h with h; rw [← h]
              have k1 : PhotOK (fun q => q = photon) s s1 := k0.trans (by
                have := photOK_addOneQubit s0 s1 gl photon h1
                exact this)
              have k4 : PhotOK (fun q => q = photon) s s4 := k1.trans (PhotOK.mono (fun _ f => f.elim)
                (((photOK_allEmittersToZ s1 s2 g false h2).trans (photOK_transformGeneratorEmitters s2 s3 g e h3)).trans
                  (photOK_fixSign s3 s4 g e h4)))
              refine ⟨⟨k4.1, k4.2.1, fun q hq hqp => ?_⟩, e, by rw [← k1.2.1]; exact hee.1, ?_⟩
              · show firstOn s.np q (SOp.emit e photon :: s4.circ) = _
                rw [firstOn_cons_of_not]
                · exact k4.2.2 q hq hqp
                · show (s.np + e == q || photon == q) = false
                  have h1 : ¬ s.np + e = q := by omega
                  have h2 : ¬ photon = q := fun e => hqp e.symm
                  simp [h1, h2]
              · show firstOn s.np photon (SOp.emit e photon :: s4.circ) = _
                apply firstOn_cons_of_touches
                show (s.np + e == photon || photon == photon) = true
                simp

/-! ### the rounds -/

theorem photOK_setT (P : Nat → Prop) (s : St) (t : STab) : PhotOK P s { s with t := t } := ⟨rfl, rfl, fun _ _ _ => rfl⟩

/-- one round touches only the wire of its photon, and puts the emission first on it -/
theorem photonRound_wires (s s' : St) (p : Nat) (h : photonRound s (p + 1) = .ok s') :
    PhotOK (fun q => q = p) s s' ∧ ∃ e, e < s.ne ∧ firstOn s.np p s'.circ = some (.emit e p) := by
  unfold photonRound at h
  cases h1 : s.t.rref with
  | error e => rw [h1] at h; cases h
  | ok v =>
    obtain ⟨t1, b⟩ := v
    rw [h1] at h; simp only at h
    cases h2 : t1.heightFuncList with
    | error e => rw [h2] at h; cases h
    | ok hl =>
      rw [h2] at h; simp only [Nat.add_sub_cancel] at h
      by_cases hc : (0 :: hl).getD (p + 1) 0 < (0 :: hl).getD p 0
      · rw [if_pos hc] at h
        cases h3 : timeReversedMeasurement { s with t := t1 } p with
        | error e => rw [h3] at h; cases h
        | ok s2 =>
          rw [h3] at h; simp only at h
          cases h4 : s2.t.rref with
          | error e => rw [h4] at h; cases h
          | ok w =>
            obtain ⟨t2, b2⟩ := w
            rw [h4] at h; simp only at h
            have k1 : PhotOK (fun q => q = p) s s2 := (photOK_setT _ s t1).trans (photOK_timeReversedMeasurement _ s2 p h3)
            have k2 : PhotOK (fun q => q = p) s { s2 with t := t2 } := k1.trans (photOK_setT _ s2 t2)
            obtain ⟨a1, e, he, a2⟩ := photOK_addPhotonAbsorption { s2 with t := t2 } s' p h
            refine ⟨k2.trans a1, e, ?_, ?_⟩
            · have : ({ s2 with t := t2 } : St).ne = s.ne := k2.2.1
              rw [← this]; exact he
            · have : ({ s2 with t := t2 } : St).np = s.np := k2.1
              rw [← this]; exact a2
      · rw [if_neg hc] at h
        simp only at h
        obtain ⟨a1, e, he, a2⟩ := photOK_addPhotonAbsorption { s with t := t1 } s' p h
        exact ⟨(photOK_setT _ s t1).trans a1, e, he, a2⟩

/-- the loop: afterwards every photon wire `q < m` starts with its emission, the others are as before -/
theorem photonLoop_wires (m : Nat) (s s' : St) (h : photonLoop s ((List.range m).reverse.map (· + 1)) = .ok s') :
    s'.np = s.np ∧ s'.ne = s.ne ∧ (∀ q, q < s.np → m ≤ q → firstOn s.np q s'.circ = firstOn s.np q s.circ) ∧
    (∀ q, q < m → q < s.np → ∃ e, e < s.ne ∧ firstOn s.np q s'.circ = some (.emit e q)) := by
  induction m generalizing s with
  | zero =>
    simp only [List.range_zero, List.reverse_nil, List.map_nil, photonLoop] at h
    injection h with h; rw [← h]
    exact ⟨rfl, rfl, fun _ _ _ => rfl, fun q hq _ => absurd hq (Nat.not_lt_zero q)⟩
  | succ p ih =>
    rw [List.range_succ, List.reverse_append, List.reverse_singleton, List.singleton_append, List.map_cons, photonLoop_cons] at h
    cases h1 : photonRound s (p + 1) with
    | error e => rw [h1] at h; cases h
    | ok s1 =>
      rw [h1] at h; simp only at h
      obtain ⟨r1, e, he, r2⟩ := photonRound_wires s s1 p h1
      obtain ⟨j1, j2, j3, j4⟩ := ih s1 h
      rw [r1.1] at j1 j3 j4
      rw [r1.2.1] at j2 j4
      refine ⟨j1, j2, ?_, ?_⟩
      · intro q hq hmq
        rw [j3 q hq (by omega)]
        exact r1.2.2 q hq (by omega)
      · intro q hqm hq
        by_cases hqp : q = p
        · subst hqp
          exact ⟨e, he, by rw [j3 q hq (Nat.le_refl _)]; exact r2⟩
        · exact j4 q (by omega) hq

/-! ### after the loop: the replayed inverse circuit and the sign loop act on emitters only -/

theorem photOK_gateStep (np : Nat) (acc a' : St) (g : Gate) (hnp : acc.np = np) (hg : STab.Gate.onEmitters np g)
    (h : gateStep acc g = .ok a') : PhotOK (fun _ => False) acc a' := by
  unfold gateStep at h
  cases g with
  | H q =>
    have hq : acc.np ≤ q := by rw [hnp]; exact hg q (by simp [Gate.cols])
    simp only at h
    cases h1 : addOneQubit acc [.H] q with
    | error e => rw [h1] at h; simp [Except.map] at h
    | ok a1 =>
      rw [h1] at h; simp only [Except.map] at h
      injection h with h; rw [← h]
      exact (photOK_addOneQubit_emitter acc a1 _ q hq h1).trans (photOK_gate _ a1 _)
  | P q =>
    have hq : acc.np ≤ q := by rw [hnp]; exact hg q (by simp [Gate.cols])
    simp only at h
    cases h1 : addOneQubit acc [.Z, .P] q with
    | error e => rw [h1] at h; simp [Except.map] at h
    | ok a1 =>
      rw [h1] at h; simp only [Except.map] at h
      injection h with h; rw [← h]
      exact (photOK_addOneQubit_emitter acc a1 _ q hq h1).trans (photOK_gate _ a1 _)
  | X q =>
    have hq : acc.np ≤ q := by rw [hnp]; exact hg q (by simp [Gate.cols])
    simp only at h
    cases h1 : addOneQubit acc [.X] q with
    | error e => rw [h1] at h; simp [Except.map] at h
    | ok a1 =>
      rw [h1] at h; simp only [Except.map] at h
      injection h with h; rw [← h]
      exact (photOK_addOneQubit_emitter acc a1 _ q hq h1).trans (photOK_gate _ a1 _)
  | CNOT c t =>
    simp only at h
    split at h
    · injection h with h; rw [← h]; exact photOK_addEmitterCnot _ acc _ _
    · cases h
  | CZ c t =>
    have ht : acc.np ≤ t := by rw [hnp]; exact hg t (by simp [Gate.cols])
    simp only at h
    split at h
    · cases h1 : addOneQubit acc [.H] t with
      | error e => rw [h1] at h; cases h
      | ok a1 =>
        rw [h1] at h; simp only at h
        have k1 := photOK_addOneQubit_emitter acc a1 _ t ht h1
        cases h2 : addOneQubit (addEmitterCnot (a1.gate (.H t)) (c - acc.np) (t - acc.np)) [.H] t with
        | error e => rw [h2] at h; simp [Except.map] at h
        | ok a3 =>
          rw [h2] at h; simp only [Except.map] at h
          injection h with h; rw [← h]
          have k2 : PhotOK (fun _ => False) acc (addEmitterCnot (a1.gate (.H t)) (c - acc.np) (t - acc.np)) :=
            (k1.trans (photOK_gate _ a1 _)).trans (photOK_addEmitterCnot _ _ _ _)
          have k3 := photOK_addOneQubit_emitter _ a3 _ t (by rw [k2.1]; exact ht) h2
          exact (k2.trans k3).trans (photOK_gate _ a3 _)
    · cases h
  | Pdag q => simp at h
  | Y q => simp at h
  | Z q => simp at h
  | I q => simp at h

theorem photOK_addGatesFromStr (np : Nat) (gl : List Gate) (hgl : ∀ g, g ∈ gl → STab.Gate.onEmitters np g) (s s' : St)
    (hnp : s.np = np) (h : addGatesFromStr s gl = .ok s') : PhotOK (fun _ => False) s s' := by
  rw [addGatesFromStr_eq] at h
  induction gl generalizing s with
  | nil =>
    simp only [List.foldlM, pure, Except.pure] at h
    injection h with h; rw [← h]; exact PhotOK.refl _ s
  | cons g rest ih =>
    simp only [List.foldlM] at h
    cases h1 : gateStep s g with
    | error e => rw [h1] at h; simp [bind, Except.bind] at h
    | ok s1 =>
      rw [h1] at h
      simp only [bind, Except.bind] at h
      have k1 := photOK_gateStep np s s1 g hnp (hgl g List.mem_cons_self) h1
      exact k1.trans (ih (fun g' hg' => hgl g' (List.mem_cons_of_mem _ hg')) s1 (k1.1.trans hnp) h)

/-- the final sign loop adds X wrappers on emitter wires only -/
theorem photOK_signLoop (np : Nat) (l : List Nat) (s s' : St) (hnp : s.np = np)
    (h : l.foldlM (fun (acc : St) i =>
      if (acc.t.row (np + i)).r then addOneQubit (acc.gate (.X (np + i))) [.X] (np + i) else .ok acc) s = .ok s') :
    PhotOK (fun _ => False) s s' := by
  induction l generalizing s with
  | nil =>
    simp only [List.foldlM, pure, Except.pure] at h
    injection h with h; rw [← h]; exact PhotOK.refl _ s
  | cons i rest ih =>
    simp only [List.foldlM] at h
    split at h
    · cases h1 : addOneQubit (s.gate (.X (np + i))) [.X] (np + i) with
      | error e => rw [h1] at h; simp [bind, Except.bind] at h
      | ok s1 =>
        rw [h1] at h
        simp only [bind, Except.bind] at h
        have k1 : PhotOK (fun _ => False) s s1 :=
          (photOK_gate _ s _).trans (photOK_addOneQubit_emitter _ s1 _ _ (by show s.np ≤ np + i; omega) h1)
        exact k1.trans (ih s1 (k1.1.trans hnp) h)
    · simp only [bind, Except.bind] at h
      exact ih s hnp h

/-- **emission structure of the returned circuit** (any stabilizer target without product qubit, under completeness of
    `inverse_circuit`): `solve` returns, and on every photon wire the first operation in time order is the emission CNOT from one of
    the circuit's emitters -/
theorem solve_emission_first (hinv : InvComplete) (target : STab) (hg : target.Good) (hi : target.LinIndep) (hn : 0 < target.n)
    (hnp : ∀ p, p < target.n → target.NotProd p) :
    ∃ s, solve target = .ok s ∧ ∀ p, p < target.n → ∃ e, e < s.ne ∧ firstOn target.n p s.circ = some (.emit e p) := by
  obtain ⟨s, hs, _⟩ := solve_complete_stabilizer hinv target hg hi hn hnp
  refine ⟨s, hs, ?_⟩
  have hne := solve_emitter_count target s hs
  have h := hs
  unfold solve at h
  cases h0 : determineNEmitters target with
  | error e => rw [h0] at h; cases h
  | ok ne =>
    rw [h0] at h hne; simp only at h
    have ene : s.ne = ne := by injection hne with hne; exact hne.symm
    have e0 : (List.range ne).foldl (fun (acc : STab) _ => (acc.insertQubit acc.n).norm) target = withEmitters target ne := rfl
    rw [e0] at h
    have i0 := rinv_init (fun _ => False) target hg hi ne h0 (fun p hp _ => hnp p hp) (fun _ _ h => h.elim)
    obtain ⟨s1', hl1, i1⟩ := photonLoop_ok (fun _ => False) target.n ne target.n (fun _ _ h => h) _ i0
    cases h1 : photonLoop { np := target.n, ne := ne, t := withEmitters target ne, circ := [] } ((List.range target.n).reverse.map (· + 1)) with
    | error e => rw [h1] at h; cases h
    | ok s1 =>
      rw [h1] at h hl1; simp only at h
      injection hl1 with e1
      subst e1
      obtain ⟨w1, w2, _, w4⟩ := photonLoop_wires target.n _ s1 h1
      cases h2 : s1.t.rref with
      | error e => rw [h2] at h; cases h
      | ok v =>
        obtain ⟨t2, b⟩ := v
        rw [h2] at h; simp only at h
        have i2 := i1.cops t2 (rref_cops s1.t t2 b h2)
        have hlit2 : ∀ q, q < target.n → t2.Lit q := fun q hq => i2.lit q (Nat.zero_le _) hq
        split at h
        · cases h
        · cases h3 : t2.inverseCircuit with
          | error e => rw [h3] at h; cases h
          | ok w =>
            obtain ⟨t', inv⟩ := w
            rw [h3] at h; simp only at h
            have hem := inverseCircuit_gates_on_emitters t2 t' inv target.n (by rw [i2.n_eq]; omega) i2.good canonicalForm_lit hlit2 h3
            cases h4 : addGatesFromStr { s1 with t := t2 } inv with
            | error e => rw [h4] at h; cases h
            | ok s3 =>
              rw [h4] at h; simp only at h
              have k1 : PhotOK (fun _ => False) { s1 with t := t2 } s3 :=
                photOK_addGatesFromStr target.n inv hem _ s3 w1 h4
              have k2 : PhotOK (fun _ => False) s3 s := photOK_signLoop target.n _ s3 s (k1.1.trans w1) h
              intro p hp
              obtain ⟨e, he, hf⟩ := w4 p hp hp
              refine ⟨e, by rw [ene]; exact he, ?_⟩
              have k := ((photOK_setT (fun _ => False) s1 t2).trans k1).trans k2
              have := k.2.2 p (by rw [w1]; exact hp) (fun f => f)
              rw [w1] at this
              rw [this]; exact hf

/-! ### every recorded operation is well-formed -/

theorem ggen_wf (np ne : Nat) (T0 : PSet) (c : List SOp) (S : PSet) (h : GGen np ne T0 c S) : ∀ o, o ∈ c → o.WF np ne := by
  induction c generalizing S with
  | nil => intro o ho; cases ho
  | cons op rest ih =>
    obtain ⟨hpre, hall⟩ := h
    intro o ho
    rcases List.mem_cons.mp ho with e | e
    · rw [e]; exact hpre.1
    · exact ih _ (hall false) o e

/-- every operation of the circuit `solve` records acts on registers of the circuit (emitters `< ne`, photons `< np`, distinct wires
    for two-qubit gates) -/
theorem solve_ops_wf (target : STab) (hg : target.Good) (s : St) (h : solve target = .ok s) :
    ∀ o, o ∈ s.circ → o.WF target.n s.ne :=
  ggen_wf _ _ _ _ _ (solve_inv target hg s h).gen

end Graphiq.Solver
