/-
  Proofs/Convert.lean — CZ on |+…+⟩ builds the graph-state generators; soundness of the conversion validator.
-/
import GraphiqModel.Model.Convert
import GraphiqModel.Proofs.Check
namespace Graphiq
open PRow Tab STab

/-- action of `control_z_gate` (H_t · CNOT · H_t) on the bits of a row, `c ≠ t` -/
theorem cz_x (c t : Nat) (p : PRow) (j : Nat) (hct : c ≠ t) : (PRow.cz c t p).x j = p.x j := by
  have htc : t ≠ c := Ne.symm hct
  by_cases h1 : j = t
  · subst h1; simp [PRow.cz, PRow.h, PRow.cnot, hct, htc]
  · by_cases h2 : j = c
    · subst h2; simp [PRow.cz, PRow.h, PRow.cnot, hct, htc, h1]
    · simp [PRow.cz, PRow.h, PRow.cnot, h1, h2]

theorem cz_z (c t : Nat) (p : PRow) (j : Nat) (hct : c ≠ t) :
    (PRow.cz c t p).z j = if j = c then xor (p.z c) (p.x t) else if j = t then xor (p.z t) (p.x c) else p.z j := by
  have htc : t ≠ c := Ne.symm hct
  by_cases h1 : j = t
  · subst h1; simp [PRow.cz, PRow.h, PRow.cnot, hct, htc]
  · by_cases h2 : j = c
    · subst h2; simp [PRow.cz, PRow.h, PRow.cnot, hct, htc, h1]
    · simp [PRow.cz, PRow.h, PRow.cnot, h1, h2]

/-- the sign is untouched when the row does not have an X on both qubits (always the case for graph-state generators) -/
theorem cz_r (c t : Nat) (p : PRow) (hct : c ≠ t) (hx : (p.x c && p.x t) = false) : (PRow.cz c t p).r = p.r := by
  have htc : t ≠ c := Ne.symm hct
  simp [PRow.cz, PRow.h, PRow.cnot, hct, htc]
  cases h1 : p.x c <;> cases h2 : p.x t <;> cases p.z c <;> cases p.z t <;> cases p.r <;> simp [h1, h2] at hx ⊢

theorem cz_ip (c t : Nat) (p : PRow) : (PRow.cz c t p).ip = p.ip := rfl

/-- invariant of the CZ sweep started from |+…+⟩: row `i` is `X_i` times `Z` on the sites joined to `i` an odd number of times -/
def IsGraphRow (edges : List (Nat × Nat)) (i : Nat) (p : PRow) : Prop :=
  (∀ j, p.x j = decide (j = i)) ∧ (∀ j, p.z j = edgeParity edges i j) ∧ p.r = false ∧ p.ip = false

theorem edgeParity_append (edges : List (Nat × Nat)) (e : Nat × Nat) (i j : Nat) :
    edgeParity (edges ++ [e]) i j = xor (edgeParity edges i j) (decide ((e.1 = i ∧ e.2 = j) ∨ (e.1 = j ∧ e.2 = i))) := by
  simp [edgeParity, List.foldl_append]

/-- one CZ keeps the invariant, extending the edge list by that edge -/
theorem cz_step (prev : List (Nat × Nat)) (e : Nat × Nat) (he : e.1 ≠ e.2) (i : Nat) (p : PRow)
    (h : IsGraphRow prev i p) : IsGraphRow (prev ++ [e]) i (PRow.cz e.1 e.2 p) := by
  obtain ⟨hx, hz, hr, hi⟩ := h
  refine ⟨fun j => ?_, fun j => ?_, ?_, ?_⟩
  · rw [cz_x _ _ _ _ he]; exact hx j
  · rw [cz_z _ _ _ _ he, edgeParity_append, hx, hx, hz, hz, hz]
    have he' : e.2 ≠ e.1 := Ne.symm he
    by_cases h1 : j = e.1
    · subst h1
      by_cases h2 : e.2 = i
      · subst h2; simp [he, he']
      · have h2' : ¬ (i = e.2) := fun h => h2 h.symm
        by_cases h3 : e.1 = i
        · simp [h2, h2', h3, he, he']
        · simp [h2, h2', h3, he, he']
    · by_cases h2 : j = e.2
      · subst h2
        by_cases h3 : e.1 = i
        · subst h3; simp [h1, he, he']
        · have h3' : ¬ (i = e.1) := fun h => h3 h.symm
          by_cases h4 : e.2 = i
          · simp [h1, h3, h3', h4, he, he']
          · simp [h1, h3, h3', h4, he, he']
      · have h1' : ¬ (e.1 = j) := fun h => h1 h.symm
        have h2' : ¬ (e.2 = j) := fun h => h2 h.symm
        simp [h1, h2, h1', h2']
  · rw [cz_r _ _ _ he]
    · exact hr
    · rw [hx, hx]
      by_cases a : e.1 = i
      · have : ¬ (e.2 = i) := fun h => he (a.trans h.symm)
        simp [this]
      · simp [a]
  · rw [cz_ip]; exact hi

theorem czEdges_inv (edges prev : List (Nat × Nat)) (hne : ∀ e, e ∈ edges → e.1 ≠ e.2) (t : STab)
    (h : ∀ i, IsGraphRow prev i (t.row i)) : ∀ i, IsGraphRow (prev ++ edges) i ((czEdges t edges).row i) := by
  induction edges generalizing prev t with
  | nil => intro i; simpa [czEdges] using h i
  | cons e es ih =>
    intro i
    have he : e.1 ≠ e.2 := hne e List.mem_cons_self
    have := ih (prev ++ [e]) (fun e' he' => hne e' (List.mem_cons_of_mem _ he')) (t.map (PRow.cz e.1 e.2))
      (fun k => cz_step prev e he k (t.row k) (h k)) i
    simpa [czEdges, List.append_assoc] using this

/-- **graph → state**: applying one CZ per edge (distinct endpoints) to |+…+⟩ yields, for every vertex `i`, the generator
    `X_i ∏_j Z_j^{#edges(i,j) mod 2}` with sign `+` — for a simple graph, exactly `X_i ∏_{j ~ i} Z_j` -/
theorem czEdges_plus (n : Nat) (edges : List (Nat × Nat)) (hne : ∀ e, e ∈ edges → e.1 ≠ e.2) (i : Nat) :
    IsGraphRow edges i ((czEdges (plusSTab n) edges).row i) := by
  have h0 : ∀ k, IsGraphRow [] k ((plusSTab n).row k) := by
    intro k
    refine ⟨fun j => ?_, fun j => ?_, rfl, rfl⟩
    · simp [plusSTab, PRow.Xq]
    · simp [plusSTab, PRow.Xq, edgeParity]
  simpa using czEdges_inv edges [] hne (plusSTab n) h0 i

/-- **soundness of the conversion validator**: acceptance means that the returned single-qubit gates map the input state exactly,
    signs included, onto the returned graph's state -/
theorem checkConversion_sound (t : STab) (gates : List Gate) (adj : Nat → Nat → Bool)
    (h : checkConversion t gates adj = true) : SpanEq (t.runCircuit gates) (graphSTab t.n adj) := by
  unfold checkConversion at h
  simp only [Bool.and_eq_true] at h
  exact sameGroup_sound _ _ h.2

end Graphiq
