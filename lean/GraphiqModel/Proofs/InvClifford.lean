/-
  Proofs/InvClifford.lean — `clifford_from_stabilizer` and `get_clifford_tableau_from_graph`: the Clifford tableau obtained by
  running the synthesised inverse circuit backwards (`P ↔ P_dag`) from `CliffordTableau(n)` (destabilizers `X_i`, stabilizers
  `Z_i`) is a valid tableau (symplectic: row `i` anticommutes exactly with its partner `i ± n`), every row is real, and its
  stabilizer half generates exactly the signed group of the input.  All sizes.
-/
import GraphiqModel.Proofs.InvTotal
import GraphiqModel.Proofs.InnerProduct
import GraphiqModel.Model.Convert
namespace Graphiq
open PRow Tab
namespace STab

/-- `run_circuit(tableau, circ, reverse=True)` runs the reversed list with `P ↔ P_dag` -/
theorem runCircuit_reverse (T : Tab) (c : List Gate) : T.runCircuit c true = T.runCircuit (revCirc c) := by
  simp [Tab.runCircuit, revCirc]

theorem actCirc_ip (c : List Gate) (a : PRow) : (actCirc c a).ip = a.ip := by
  induction c generalizing a with
  | nil => rfl
  | cons g rest ih =>
    show (actCirc rest (g.act a)).ip = _
    rw [ih, Gate.act_ip]

/-- running a well-formed gate list on a valid tableau with real rows gives a valid tableau with real rows -/
theorem runCircuit_valid (n : Nat) (c : List Gate) (hc : ∀ g, g ∈ c → g.WF n) (T : Tab) (hn : T.n = n) (hv : T.Valid)
    (hr : ∀ i, i < 2 * n → (T.row i).ip = false) :
    (T.runCircuit c).n = n ∧ (T.runCircuit c).Valid ∧ ∀ i, i < 2 * n → ((T.runCircuit c).row i).ip = false := by
  obtain ⟨h1, h2⟩ := Tab.runCircuit_rows n c hc T hn
  refine ⟨h1, ?_, ?_⟩
  · intro i k hi hk
    rw [h1] at hi hk ⊢
    rw [sp_eqOn n _ _ _ _ (h2 i hi) (h2 k hk), STab.actCirc_sp n c hc]
    have := hv i k (by rw [hn]; exact hi) (by rw [hn]; exact hk)
    rw [hn] at this; exact this
  · intro i hi
    rw [(h2 i hi).2.2, actCirc_ip]; exact hr i hi

theorem ket0_real (n : Nat) (i : Nat) : ((Tab.ket0 n).row i).ip = false := by
  simp only [Tab.ket0]
  split <;> rfl

/-- the stabilizer half of `CliffordTableau(n)` is the tableau of |0…0⟩ -/
theorem ofTab_ket0_row (n i : Nat) (hi : i < n) : (STab.ofTab (Tab.ket0 n)).row i = PRow.Zq i := by
  show { ((Tab.ket0 n).row (i + (Tab.ket0 n).n)) with ip := false } = _
  have : (Tab.ket0 n).n = n := rfl
  rw [this]
  simp only [Tab.ket0]
  rw [if_neg (by omega), show i + n - n = i from by omega]
  rfl

/-- **what `clifford_from_stabilizer` returns** (whenever it returns, on real commuting generators): a tableau of the
    input's size that is valid, all of whose rows are real, and whose stabilizer half generates exactly the signed
    group of the input -/
theorem cliffordFromStabilizer_sound (t : STab) (T : Tab) (hg : t.Good) (h : t.cliffordFromStabilizer = .ok T) :
    T.n = t.n ∧ T.Valid ∧ (∀ i, i < 2 * t.n → (T.row i).ip = false) ∧ SpanEq (STab.ofTab T) t := by
  unfold cliffordFromStabilizer at h
  split at h
  · cases h
  · next t' circ hs =>
    injection h with h
    rw [runCircuit_reverse] at h
    subst h
    obtain ⟨hn, hgood, hwf, hfwd, hbwd⟩ := inverseCircuit_tracks t t' circ hg hs
    have hz := inverseCircuit_isZero t t' circ hg hs
    have hrev : ∀ g, g ∈ revCirc circ → g.WF t.n := by
      intro g hgm
      simp only [revCirc, List.mem_map, List.mem_reverse] at hgm
      obtain ⟨g0, hg0, e⟩ := hgm
      rw [← e]; exact Gate.rev_WF t.n g0 (hwf g0 hg0)
    obtain ⟨v1, v2, v3⟩ := runCircuit_valid t.n (revCirc circ) hrev (Tab.ket0 t.n) rfl (ket0_valid t.n)
      (fun i _ => ket0_real t.n i)
    refine ⟨v1, v2, v3, ?_⟩
    -- the stabilizer half is the image of |0…0⟩ under the reversed list, which is the input's group
    have img : CircImage t.n (revCirc circ) (STab.zero t.n) (STab.ofTab ((Tab.ket0 t.n).runCircuit (revCirc circ))) := by
      apply circImage_of_rows t.n (revCirc circ) hrev (STab.zero t.n)
        (STab.ofTab ((Tab.ket0 t.n).runCircuit (revCirc circ))) rfl v1
      intro i hi
      have := ofTab_runCircuit_row t.n (revCirc circ) hrev (Tab.ket0 t.n) rfl i hi
      rw [ofTab_ket0_row t.n i hi] at this
      exact this
    have hz' := isZero_spanEq t' hgood hz
    rw [hn] at hz'
    refine ⟨v1, ?_, ?_⟩
    · intro a ha
      obtain ⟨b, hb, eb⟩ := img.bwd a ha
      obtain ⟨a0, ha0, ea0⟩ := hbwd b (hz'.sup b hb)
      have e1 : EqOn t.n (actCirc (revCirc circ) (actCirc circ a0)) (actCirc (revCirc circ) b) :=
        actCirc_congr t.n _ hrev _ _ ea0
      have e2 := revCirc_cancel t.n circ hwf a0
      exact InSpan.eqv _ _ ha0 ((e2.symm.trans e1).trans eb)
    · intro a ha
      have h1 : (STab.zero t.n).Spn (actCirc circ a) := hz'.sub _ (hfwd a ha)
      have h2 := img.fwd _ h1
      unfold Spn at h2 ⊢
      rw [img.nT'] at h2 ⊢
      exact InSpan.eqv _ _ h2 (revCirc_cancel t.n circ hwf a)

/-- **`clifford_from_stabilizer` returns on every stabilizer state**, with the properties above -/
theorem cliffordFromStabilizer_complete (t : STab) (hg : t.Good) (hi : t.Indep) :
    ∃ T, t.cliffordFromStabilizer = .ok T ∧ T.n = t.n ∧ T.Valid ∧ (∀ i, i < 2 * t.n → (T.row i).ip = false) ∧
      SpanEq (STab.ofTab T) t := by
  obtain ⟨t', circ, hs, _⟩ := inverseCircuit_complete t hg hi
  have e : t.cliffordFromStabilizer = .ok ((Tab.ket0 t.n).runCircuit circ true) := by
    unfold cliffordFromStabilizer; rw [hs]
  exact ⟨_, e, cliffordFromStabilizer_sound t _ hg e⟩

/-! ### replaying the synthesised circuit on a Clifford tableau (the last step of the deterministic solver) -/

/-- **replaying the inverse circuit of its stabilizer half takes a Clifford tableau to |0…0⟩**: for a valid tableau `T`
    with real rows, `run_circuit(T, circ)` with `(_, circ) = inverse_circuit(T.to_stabilizer())` is again a valid tableau,
    and its stabilizer half generates exactly the signed group of |0…0⟩ -/
theorem runCircuit_inverse_zero (T : Tab) (hv : T.Valid) (hr : ∀ i, i < 2 * T.n → (T.row i).ip = false)
    (hg : (STab.ofTab T).Good) (t' : STab) (circ : List Gate) (h : (STab.ofTab T).inverseCircuit = .ok (t', circ)) :
    (T.runCircuit circ).n = T.n ∧ (T.runCircuit circ).Valid ∧ SpanEq (STab.ofTab (T.runCircuit circ)) (STab.zero T.n) := by
  obtain ⟨hn, hgood, hwf, hfwd, hbwd⟩ := inverseCircuit_tracks _ t' circ hg h
  have nT : (STab.ofTab T).n = T.n := rfl
  rw [nT] at hn hwf hbwd
  obtain ⟨v1, v2, _⟩ := runCircuit_valid T.n circ hwf T rfl hv hr
  refine ⟨v1, v2, ?_⟩
  obtain ⟨img, g'⟩ := ofTab_runCircuit_image T.n circ hwf T rfl hg
  have hz := isZero_spanEq t' hgood (inverseCircuit_isZero _ t' circ hg h)
  rw [hn] at hz
  -- both `t'` and the stabilizer half of the replayed tableau are images of the same group under `circ`
  have s : SpanEq (STab.ofTab (T.runCircuit circ)) t' := by
    refine ⟨img.nT'.trans hn.symm, ?_, ?_⟩
    · intro b hb
      obtain ⟨a, ha, ea⟩ := img.bwd b hb
      have := hfwd a ha
      unfold Spn at this ⊢
      rw [hn] at this ⊢
      exact InSpan.eqv _ _ this ea
    · intro b hb
      obtain ⟨a, ha, ea⟩ := hbwd b hb
      have := img.fwd a ha
      unfold Spn at this ⊢
      rw [img.nT'] at this ⊢
      exact InSpan.eqv _ _ this ea
  exact s.trans hz

/-! ### graph states -/

/-- the generators `X_i Z_{N(i)}` of a graph state are real and commute -/
theorem graphSTab_good' (n : Nat) (adj : Nat → Nat → Bool) (hsym : ∀ i j, i < n → j < n → adj i j = adj j i) :
    (graphSTab n adj).Good := by
  constructor
  · intro i _; rfl
  · intro i k hi hk
    have hi' : i < n := hi
    have hk' : k < n := hk
    show sp n _ _ = false
    by_cases e : i = k
    · rw [e]; exact sp_self _ _
    · unfold sp
      rw [parityTo_two n i k _ hi' hk' e]
      · have e' : ¬ (k = i) := fun h => e h.symm
        simp [graphSTab, e, e', hi', hk', hsym k i hk' hi']
      · intro j h1 h2
        simp [graphSTab, h1, h2]

/-- … and independent (the X part is the identity matrix) -/
theorem graphSTab_indep (n : Nat) (adj : Nat → Nat → Bool) : (graphSTab n adj).Indep := by
  intro S hS i hi
  have hi' : i < n := hi
  have := (hS i hi).1
  have e : ∀ m, m < n → (S m && xb (graphSTab n adj) m i) = (decide (m = i) && S m) := by
    intro m _
    show (S m && decide (i = m)) = _
    by_cases h : m = i
    · subst h; simp
    · have : ¬ i = m := fun e => h e.symm
      simp [h, this]
  have hn : (graphSTab n adj).n = n := rfl
  rw [hn, parityTo_congr n _ _ e, parityTo_single n i S hi'] at this
  exact this

/-- **`get_clifford_tableau_from_graph`** (every n, every symmetric adjacency relation): `clifford_from_stabilizer` of the
    graph-state generators `[I | A]` returns a valid tableau with real rows whose stabilizer half generates exactly the
    signed group of the graph state -/
theorem cliffordFromGraph_correct (n : Nat) (adj : Nat → Nat → Bool) (hsym : ∀ i j, i < n → j < n → adj i j = adj j i) :
    ∃ T, (graphSTab n adj).cliffordFromStabilizer = .ok T ∧ T.n = n ∧ T.Valid ∧ (∀ i, i < 2 * n → (T.row i).ip = false) ∧
      SpanEq (STab.ofTab T) (graphSTab n adj) :=
  cliffordFromStabilizer_complete (graphSTab n adj) (graphSTab_good' n adj hsym) (graphSTab_indep n adj)

end STab
end Graphiq
