/-
  Proofs/MixtureDMJointCircuit.lean — clause (c) of C06 for circuits with measurements, for `StabilizerCompiler.compile` with
  the repaired (joint) `MixedStabilizer.apply_measurement` (`compileStab` of Model/Noise.lean; the per-branch measurement of
  graphiq before the repair of finding F2 is `compileStabOld`).

  `dm_equals_mixture_repaired`: for every circuit of one-qubit gates, CNOT / CZ with additive noise (depolarizing probabilities
  in `[0,1]`, loss rates `≤ 1`, Pauli errors), and noiseless `MeasurementZ` / `ClassicalCNOT` / `ClassicalCZ` /
  `MeasurementCNOTandReset` — **no condition on the measurement outcomes, no weight threshold** — if the stabilizer compile
  returns `s` and the density-matrix compile returns a matrix `ρ` (not NaN), then `ρ = Σ_k w_k ρ(T_k)` of `s.mix` entry by
  entry and the classical registers agree.  Every number of qubits.
-/
import GraphiqModel.Proofs.MixtureDMJoint
import GraphiqModel.Proofs.MixtureDMTotal
namespace Graphiq
namespace MixDM
open Matrix Hilbert Noise DM PRow

/-! ### the joint measurement: non-emptiness, outcome list -/

theorem measure_ne_nil (q : Nat) (det : Bool) (m : Mixture) (h : m ≠ []) : (Mix.measure q det m).1 ≠ [] := by
  unfold Mix.measure
  simp only
  generalize (if det = true then !isclose0 (Mix.total (Mix.measureJoint q true m))
    else isclose0 (Mix.total (Mix.measureJoint q false m))) = oc
  by_cases hw : 0 < (if oc = true then Mix.total (Mix.measureJoint q true m) else Mix.total (Mix.measureJoint q false m))
  · rw [if_pos hw]
    have hne : Mix.measureJoint q oc m ≠ [] := by
      intro e
      cases oc <;> simp only [Bool.false_eq_true, if_false, if_true] at hw <;> rw [e] at hw <;> simp [Mix.total_nil] at hw
    intro e
    exact hne (List.map_eq_nil_iff.1 e)
  · rw [if_neg hw]
    intro e
    exact h (List.map_eq_nil_iff.1 e)

theorem headD_replicate (k : Nat) (o : Bool) (hk : k ≠ 0) : (List.replicate k o).headD false = o := by
  cases k with
  | zero => exact absurd rfl hk
  | succ j => rfl

/-- with the outcome list `[outcome] * len`, `apply_conditioned_gate` applies the gate to all branches or to none -/
theorem conditioned_measure (f : Tab → Tab) (q : Nat) (det : Bool) (m : Mixture) :
    Mix.conditioned f (Mix.measure q det m).2 (Mix.measure q det m).1
      = if measOutcome q det m then Mix.mapTab f (Mix.measure q det m).1 else (Mix.measure q det m).1 := by
  rw [measure_outcomes]
  exact conditioned_all f _ _ _ (List.length_replicate ..) (fun x hx => List.eq_of_mem_replicate hx)

theorem head_measure (q : Nat) (det : Bool) (m : Mixture) (h : m ≠ []) :
    (Mix.measure q det m).2.headD false = measOutcome q det m := by
  rw [measure_outcomes]
  exact headD_replicate _ _ (fun e => measure_ne_nil q det m h (List.eq_nil_of_length_eq_zero e))

/-! ### the invariant and the measurement gates -/

/-- the lockstep invariant of Proofs/MixtureDMLockstep plus non-negative weights and a non-empty mixture -/
structure InvJ (n : Nat) (s : StabSt) (d : DmSt) : Prop where
  inv : Inv n s d
  nonneg : MixNonneg s.mix
  ne : s.mix ≠ []

theorem resetH_zero (n q : Nat) : resetH n q (0 : HMat n) = 0 := by
  unfold resetH; simp [conjH_zero]

/-- `compile_one_gate` for the four operations with a measurement, stabilizer side (repaired measurement) vs density-matrix
    side; the density-matrix side must return a matrix (not the NaN of a zero conditional probability) -/
theorem measGateJ_lockstep (np n : Nat) (det : Bool) (op : COp) (hk : MeasAny op.kind) (hw : OpWF n np op)
    (hne : op.kind = .mcr → qIndex np op.r1 op.t1 ≠ qIndex np op.r2 op.t2)
    (s s1 : StabSt) (d d1 : DmSt) (hI : InvJ n s d)
    (hs : stabGate np n det op s = .ok s1) (hd : dmGate np n det op d = .ok d1) (hsome : d1.ρ ≠ none) : InvJ n s1 d1 := by
  obtain ⟨⟨⟨ρ, hρs, hρn, hρ⟩, hg, hcr⟩, hnn, hnemp⟩ := hI
  have hq1 := hw.1
  unfold dmGate at hd
  simp only [hρs] at hd
  unfold stabGate at hs
  simp only at hs
  -- facts about the measured mixture
  have hgm := measure_good_new n (qIndex np op.r1 op.t1) hq1 det s.mix hg
  have hnnJ := measure_nonneg (qIndex np op.r1 op.t1) det s.mix hnn
  have hneJ := measure_ne_nil (qIndex np op.r1 op.t1) det s.mix hnemp
  have hhead := head_measure (qIndex np op.r1 op.t1) det s.mix hnemp
  have meas : ∀ (p0 p1 : Mat), projectorsZ n (qIndex np op.r1 op.t1) = .ok (p0, p1) →
      ∀ (ρ' : Mat) (o : Bool), applyMeasurement ρ p0 p1 det = .ok (some ρ', o) →
      o = measOutcome (qIndex np op.r1 op.t1) det s.mix ∧
      toC n ρ' = mixRho n (Mix.measure (qIndex np op.r1 op.t1) det s.mix).1 ∧ ρ'.n = 2 ^ n ∧
      (Fixed n (qIndex np op.r1 op.t1) o (Mix.measure (qIndex np op.r1 op.t1) det s.mix).1 ∨
        ZeroW (Mix.measure (qIndex np op.r1 op.t1) det s.mix).1) :=
    fun p0 p1 hp ρ' o hm => joint_measurement_is_dm_measurement n _ hq1 det s.mix ρ p0 p1 hg hnn hρn hρ hp ρ' o hm
  -- classically controlled Pauli (and optional reset)
  have classical : ∀ (gq : Gate) (g : Mat) (reset : Bool), g.n = 2 → (qIndex np op.r2 op.t2 < n) →
      (reset = true → qIndex np op.r1 op.t1 ≠ qIndex np op.r2 op.t2 ∧ gq = .X (qIndex np op.r2 op.t2)) →
      gq = .X (qIndex np op.r2 op.t2) ∨ gq = .Z (qIndex np op.r2 op.t2) →
      toC n (getOneQubitGate n (qIndex np op.r2 op.t2) g) = gateMat n gq →
      stabClassical n (qIndex np op.r1 op.t1) (qIndex np op.r2 op.t2) op.c det (fun t => t.map gq.act) reset s = .ok s1 →
      (match projectorsZ n (qIndex np op.r1 op.t1) with
        | .error e => (Except.error e : Except Err DmSt)
        | .ok (p0, p1) =>
          match applyMeasurement ρ p0 p1 det with
          | .error e => .error e
          | .ok (none, o) => .ok { ρ := none, creg := setRec d.creg op.c (if o then 1 else 0) }
          | .ok (some ρ1, o) =>
            match (if o then applyUnitary ρ1 ⟨1, getOneQubitGate n (qIndex np op.r2 op.t2) g⟩ else .ok ρ1 : Except Err Mat) with
            | .error e => .error e
            | .ok ρ2 =>
              (if reset then applyChannel ρ2 (resetKraus n (qIndex np op.r1 op.t1)) else .ok ρ2 : Except Err Mat).map
                fun r => { ρ := some r, creg := setRec d.creg op.c (if o then 1 else 0) }) = .ok d1 →
      InvJ n s1 d1 := by
    intro gq g reset hgn hq2 hner hgq hU hs' hm
    have hgw : gq.WF n := by rcases hgq with e | e <;> subst e <;> exact hq2
    unfold stabClassical at hs'
    rw [if_pos ⟨hq1, hq2⟩] at hs'
    injection hs' with hs'; subst hs'
    cases hp : projectorsZ n (qIndex np op.r1 op.t1) with
    | error e => rw [hp] at hm; cases hm
    | ok pp =>
      obtain ⟨p0, p1⟩ := pp
      rw [hp] at hm
      simp only at hm
      cases ha : applyMeasurement ρ p0 p1 det with
      | error e => rw [ha] at hm; cases hm
      | ok ro =>
        obtain ⟨r, o⟩ := ro
        cases r with
        | none =>
          rw [ha] at hm
          simp only at hm
          injection hm with hm; subst hm
          exact absurd rfl hsome
        | some ρm =>
          rw [ha] at hm
          simp only at hm
          obtain ⟨ho, hc, hn', hfz⟩ := meas p0 p1 hp ρm o ha
          simp only [conditioned_measure, hhead]
          rw [← ho]
          have hh : (toC n ρm)ᴴ = toC n ρm := by rw [hc]; exact mixRho_herm n _ hgm
          -- after the conditional Pauli
          have step2 : ∀ (ρ2 : Mat),
              (if o then applyUnitary ρm ⟨1, getOneQubitGate n (qIndex np op.r2 op.t2) g⟩ else .ok ρm : Except Err Mat) = .ok ρ2 →
              ρ2.n = 2 ^ n ∧
              toC n ρ2 = mixRho n (if o = true then Mix.mapTab (fun t => t.map gq.act)
                (Mix.measure (qIndex np op.r1 op.t1) det s.mix).1 else (Mix.measure (qIndex np op.r1 op.t1) det s.mix).1) ∧
              MixGood n (if o = true then Mix.mapTab (fun t => t.map gq.act)
                (Mix.measure (qIndex np op.r1 op.t1) det s.mix).1 else (Mix.measure (qIndex np op.r1 op.t1) det s.mix).1) ∧
              MixNonneg (if o = true then Mix.mapTab (fun t => t.map gq.act)
                (Mix.measure (qIndex np op.r1 op.t1) det s.mix).1 else (Mix.measure (qIndex np op.r1 op.t1) det s.mix).1) ∧
              (if o = true then Mix.mapTab (fun t => t.map gq.act)
                (Mix.measure (qIndex np op.r1 op.t1) det s.mix).1 else (Mix.measure (qIndex np op.r1 op.t1) det s.mix).1) ≠ [] := by
            intro ρ2 h2
            cases o with
            | false =>
              simp only [Bool.false_eq_true, if_false] at h2 ⊢
              injection h2 with h2; subst h2
              exact ⟨hn', hc, hgm, hnnJ, hneJ⟩
            | true =>
              simp only [if_true] at h2 ⊢
              obtain ⟨e, hr⟩ := applyUnitary_toC n ρm ⟨1, getOneQubitGate n (qIndex np op.r2 op.t2) g⟩ hn'
                (oneQubitGate_n n _ hq2 g hgn) hh ρ2 h2
              refine ⟨hr, ?_, ?_, mapTab_nonneg _ _ hnnJ, mapTab_ne_nil _ _ hneJ⟩
              · rw [e]
                show _ • conjH (toC n (getOneQubitGate n (qIndex np op.r2 op.t2) g)) _ = _
                rw [hU, hc]
                have := mixRho_mapGate n gq hgw _ hgm.mixN
                simp only [Rat.cast_one, one_smul]
                exact this.symm
              · refine mixGood_of n _ ?_ (mapTab_real _ (fun t hr => gate_stabReal t gq hr) _ (fun x hx => (hgm x hx).2.2))
                rcases hgq with e' | e' <;> subst e'
                · exact mapTab_ok n _ (keeps_x n _ hq2) _ hgm.ok
                · exact mapTab_ok n _ (keeps_z n _ hq2) _ hgm.ok
          cases h2 : (if o then applyUnitary ρm ⟨1, getOneQubitGate n (qIndex np op.r2 op.t2) g⟩ else .ok ρm : Except Err Mat) with
          | error e => rw [h2] at hm; cases hm
          | ok ρ2 =>
            rw [h2] at hm
            simp only at hm
            obtain ⟨n2, c2, g2, nn2, ne2⟩ := step2 ρ2 h2
            cases reset with
            | false =>
              simp only [Bool.false_eq_true, if_false, Except.map] at hm ⊢
              injection hm with hm; subst hm
              exact ⟨⟨⟨ρ2, rfl, n2, c2⟩, g2, by show setRec d.creg op.c _ = setRec s.creg op.c _; rw [hcr]⟩, nn2, ne2⟩
            | true =>
              simp only [if_true] at hm ⊢
              have hne' := hner rfl
              have f2 : Fixed n (qIndex np op.r1 op.t1) o (if o = true then Mix.mapTab (fun t => t.map gq.act)
                  (Mix.measure (qIndex np op.r1 op.t1) det s.mix).1
                  else (Mix.measure (qIndex np op.r1 op.t1) det s.mix).1) ∨
                  ZeroW (if o = true then Mix.mapTab (fun t => t.map gq.act)
                  (Mix.measure (qIndex np op.r1 op.t1) det s.mix).1
                  else (Mix.measure (qIndex np op.r1 op.t1) det s.mix).1) := by
                rcases hfz with hfx | hzw
                · left
                  cases o with
                  | false => simpa using hfx
                  | true =>
                    simp only [if_true]
                    obtain ⟨hne1, hgx⟩ := hne'
                    subst hgx
                    exact mapX_fixed n _ _ hq2 hne1 true _ hgm.mixN hfx
                · right
                  cases o with
                  | false => simpa using hzw
                  | true => simp only [if_true]; exact zeroW_mapTab _ _ hzw
              have hh2 : (toC n ρ2)ᴴ = toC n ρ2 := by rw [c2]; exact mixRho_herm n _ g2
              cases h3 : applyChannel ρ2 (resetKraus n (qIndex np op.r1 op.t1)) with
              | error e => rw [h3] at hm; cases hm
              | ok r =>
                rw [h3] at hm
                simp only [Except.map] at hm
                injection hm with hm; subst hm
                obtain ⟨e3, n3⟩ := dmReset_toC n _ hq1 ρ2 r n2 hh2 h3
                refine ⟨⟨⟨r, rfl, n3, ?_⟩, reset_good n _ hq1 det _ g2,
                  by show setRec d.creg op.c _ = setRec s.creg op.c _; rw [hcr]⟩,
                  mapTab_nonneg (fun t => t.resetZ (qIndex np op.r1 op.t1) false det) _ nn2,
                  mapTab_ne_nil (fun t => t.resetZ (qIndex np op.r1 op.t1) false det) _ ne2⟩
                rcases f2 with f2 | f2
                · rw [e3, c2, resetH_of_fixed n _ hq1 o _ (fixed_mixRho n _ o _ f2), mixRho_reset n _ hq1 det o _ g2 f2]
                · rw [e3, c2, mixRho_zeroW n _ f2, resetH_zero, mixRho_zeroW n _ (zeroW_mapTab _ _ f2)]
  have hX : ∀ q2, q2 < n → toC n (getOneQubitGate n q2 Mat.sigmax) = gateMat n (.X q2) := by
    intro q2 hq2; rw [toC_oneQubitGate n q2 hq2, toC2_sigmax]; rfl
  have hZ : ∀ q2, q2 < n → toC n (getOneQubitGate n q2 Mat.sigmaz) = gateMat n (.Z q2) := by
    intro q2 hq2; rw [toC_oneQubitGate n q2 hq2, toC2_sigmaz]; rfl
  rcases hk with hk | hk | hk | hk <;> simp only [hk] at hs hd
  · -- MeasurementZ
    unfold stabMeasZ at hs
    rw [if_pos hq1] at hs
    injection hs with hs; subst hs
    cases hp : projectorsZ n (qIndex np op.r1 op.t1) with
    | error e => rw [hp] at hd; cases hd
    | ok pp =>
      obtain ⟨p0, p1⟩ := pp
      rw [hp] at hd
      simp only at hd
      cases ha : applyMeasurement ρ p0 p1 det with
      | error e => rw [ha] at hd; cases hd
      | ok ro =>
        obtain ⟨r, o⟩ := ro
        rw [ha] at hd
        simp only [Except.map] at hd
        injection hd with hd; subst hd
        cases r with
        | none => exact absurd rfl hsome
        | some ρ' =>
          obtain ⟨ho, hc, hn', _⟩ := meas p0 p1 hp ρ' o ha
          exact ⟨⟨⟨ρ', rfl, hn', hc⟩, hgm,
            by show setRec d.creg op.c _ = setRec s.creg op.c _; rw [hcr, hhead, ho]⟩, hnnJ, hneJ⟩
  · have hq2 := hw.2.1 (Or.inr (by simp [hk, Kind.isClassicalCtrl]))
    exact classical (.X _) Mat.sigmax false rfl hq2 (fun h => by cases h) (Or.inl rfl) (hX _ hq2) hs hd
  · have hq2 := hw.2.1 (Or.inr (by simp [hk, Kind.isClassicalCtrl]))
    exact classical (.Z _) Mat.sigmaz false rfl hq2 (fun h => by cases h) (Or.inr rfl) (hZ _ hq2) hs hd
  · have hq2 := hw.2.1 (Or.inr (by simp [hk, Kind.isClassicalCtrl]))
    exact classical (.X _) Mat.sigmax true rfl hq2 (fun _ => ⟨hne hk, rfl⟩) (Or.inl rfl) (hX _ hq2) hs hd

theorem applyNoise_ne (nm : NoiseM) (q : Nat) (m m' : Mixture) (hm : m ≠ []) (h : Mix.applyNoise nm q m = .ok m') : m' ≠ [] := by
  cases nm with
  | none => simp [Mix.applyNoise] at h; subst h; exact hm
  | depol p a =>
    simp only [Mix.applyNoise] at h
    rw [Mix.depolarize_unfold] at h
    split at h; · cases h
    split at h; · cases h
    rename_i hne
    injection h with h; subst h
    have hne' : (m.flatMap fun x => Mix.depolBranch p q x.1 x.2) ≠ [] := by
      intro e; rw [e] at hne; simp at hne
    exact reduce_ne_nil _ _ (List.length_pos_of_ne_nil hne') hne'
  | pauli k a =>
    simp only [Mix.applyNoise] at h
    cases k <;> simp only [Mix.pauliError] at h
    · injection h with h; subst h; exact hm
    · injection h with h; subst h; exact mapTab_ne_nil _ m hm
    · injection h with h; subst h; exact mapTab_ne_nil _ m hm
    · injection h with h; subst h; exact mapTab_ne_nil _ m hm
    · cases h
  | loss r a =>
    simp [Mix.applyNoise] at h; subst h
    intro e
    exact hm (List.map_eq_nil_iff.1 e)
  | replace => simp [Mix.applyNoise] at h
  | other => simp [Mix.applyNoise] at h

theorem stabGate_ne_mfree (np n : Nat) (det : Bool) (op : COp) (hf : MFree op) (s s1 : StabSt) (hm : s.mix ≠ [])
    (h : stabGate np n det op s = .ok s1) : s1.mix ≠ [] := by
  unfold stabGate at h
  simp only at h
  have m1 : ∀ (q : Nat) (f : Tab → Tab), stabMap1 n q f s = .ok s1 → s1.mix ≠ [] := by
    intro q f h; unfold stabMap1 at h; split at h
    · injection h with h; subst h; exact mapTab_ne_nil f _ hm
    · cases h
  have m2 : ∀ (q1 q2 : Nat) (f : Tab → Tab), stabMap2 n q1 q2 f s = .ok s1 → s1.mix ≠ [] := by
    intro q1 q2 f h; unfold stabMap2 at h; split at h
    · injection h with h; subst h; exact mapTab_ne_nil f _ hm
    · cases h
  cases hk : op.kind <;> simp only [hk] at h
  all_goals first
    | (injection h with h; subst h; exact hm)
    | exact m1 _ _ h
    | exact m2 _ _ _ h
    | cases h
    | (rcases hf with hf | hf <;> simp [hk, Kind.isOneQubit, Kind.isCtrlPair] at hf)

/-! ### the compile loop -/

theorem paramPhys_ok (nm : NoiseM) (h : ParamPhys nm) : ParamOK nm := by
  cases nm <;> first | exact h | trivial

theorem paramPhys_loss (nm : NoiseM) (h : ParamPhys nm) : LossLe1 nm := by
  intro r a e; subst e; exact h

/-- the operations of the repaired theorem: measurement-free ones with physical noise parameters; noiseless operations with a
    measurement on existing qubits (`MeasurementCNOTandReset` on two distinct qubits) -/
inductive OpOKJ (n np : Nat) (op : COp) : Prop
  | unitary (h : OpOK n np op) (l0 : ParamPhys op.n0) (l1 : ParamPhys op.n1)
  | meas (hk : MeasAny op.kind) (hw : OpWF n np op)
      (hne : op.kind = .mcr → qIndex np op.r1 op.t1 ≠ qIndex np op.r2 op.t2)
      (h0 : op.n0.isNone = true) (h1 : op.n1.isNone = true)

theorem OpOKJ.wf {n np : Nat} {op : COp} (h : OpOKJ n np op) : OpWF n np op := by
  cases h with
  | unitary h => exact h.wf
  | meas _ hw _ _ _ => exact hw

def MeasJ (np : Nat) (op : COp) : Prop :=
  MeasAny op.kind ∧ (op.kind = .mcr → qIndex np op.r1 op.t1 ≠ qIndex np op.r2 op.t2)

theorem OpOKJ.kind {n np : Nat} {op : COp} (h : OpOKJ n np op) : MFree op ∨ MeasJ np op := by
  cases h with
  | unitary h => exact Or.inl h.mfree
  | meas hk _ hne _ _ => exact Or.inr ⟨hk, hne⟩

def ActOKJ (n np : Nat) (arr : Array COp) : Act → Prop
  | .gate k => ∀ op, arr[k]? = some op → OpWF n np op ∧ (MFree op ∨ MeasJ np op)
  | .noise _ _ q nm => q < n ∧ ParamPhys nm
  | .replace _ => True

theorem runDmActs_none (np n : Nat) (det : Bool) (arr : Array COp) : ∀ (acts : List Act) (d d' : DmSt), d.ρ = none →
    runDmActs np n det arr acts d = .ok d' → d'.ρ = none
  | [], d, d', h0, h => by simp [runDmActs] at h; subst h; exact h0
  | a :: as, d, d', h0, h => by
    simp only [runDmActs] at h
    cases ha : dmAct np n det arr d a with
    | error e => rw [ha] at h; cases h
    | ok d1 =>
      rw [ha] at h
      exact runDmActs_none np n det arr as d1 d' (dmAct_none np n det arr d d1 a h0 ha) h

theorem dmGo_none (ns : Bool) (np n : Nat) (det : Bool) (arr : Array COp) : ∀ (ops : List COp) (k : Nat) (d d' : DmSt),
    d.ρ = none → dmGo ns np n det arr ops k d = .ok d' → d'.ρ = none
  | [], _, d, d', h0, h => by simp [dmGo] at h; subst h; exact h0
  | op :: rest, k, d, d', h0, h => by
    simp only [dmGo] at h
    cases hp : placeOp ns .dm np op k with
    | error e => rw [hp] at h; cases h
    | ok acts =>
      rw [hp] at h; simp only at h
      cases hr : runDmActs np n det arr acts d with
      | error e => rw [hr] at h; cases h
      | ok d1 =>
        rw [hr] at h; simp only at h
        exact dmGo_none ns np n det arr rest (k + 1) d1 d' (runDmActs_none np n det arr acts d d1 h0 hr) h

/-- one action on both sides (repaired stabilizer side) -/
theorem actJ_lockstep (np n : Nat) (det : Bool) (arr : Array COp) (s s1 : StabSt) (d d1 : DmSt) (a : Act)
    (ha : ActOKJ n np arr a) (hI : InvJ n s d)
    (hs : stabAct np n det arr s a = .ok s1) (hd : dmAct np n det arr d a = .ok d1) (hsome : d1.ρ ≠ none) : InvJ n s1 d1 := by
  obtain ⟨⟨⟨ρ, hρs, hρn, hρ⟩, hg, hcr⟩, hnn, hnemp⟩ := hI
  have hh : (toC n ρ)ᴴ = toC n ρ := by rw [hρ]; exact mixRho_herm n _ hg
  cases a with
  | gate k =>
    simp only [stabAct] at hs
    simp only [dmAct] at hd
    cases hk : arr[k]? with
    | none =>
      rw [getD_none arr k hk] at hs hd
      simp only [stabGate] at hs
      simp only [dmGate, hρs] at hd
      injection hs with hs; subst hs
      injection hd with hd; subst hd
      exact ⟨⟨⟨ρ, hρs, hρn, hρ⟩, hg, hcr⟩, hnn, hnemp⟩
    | some op =>
      rw [getD_some arr k op hk] at hs hd
      obtain ⟨hw, hkind⟩ := ha op hk
      rcases hkind with hf | hm
      · obtain ⟨e1, _⟩ := stabGate_mixRho np n det op hf hw.2.2 s s1 hg.mixN hs
        obtain ⟨ρ', hρ', e2, n2⟩ := dmGate_toC np n det op hf hw d d1 ρ hρs hρn hh hd
        exact ⟨⟨⟨ρ', hρ', n2, by rw [e2, hρ, e1]⟩,
          mixGood_of n _ (stabGate_ok np n det op hw.2.2 s s1 hg.ok hs)
            (stabGate_real np n det op hf s s1 (fun x hx => (hg x hx).2.2) hs),
          by rw [dmGate_creg np n det op hf d d1 hd, stabGate_creg np n det op hf s s1 hs, hcr]⟩,
          stabGate_nonneg np n det op s s1 hnn hs, stabGate_ne_mfree np n det op hf s s1 hnemp hs⟩
      · exact measGateJ_lockstep np n det op hm.1 hw hm.2 s s1 d d1 ⟨⟨⟨ρ, hρs, hρn, hρ⟩, hg, hcr⟩, hnn, hnemp⟩ hs hd hsome
  | noise k side q nm =>
    have hs' : stabAct np n det arr s (.noise k side q nm) = .ok s1 := hs
    simp only [stabAct] at hs'
    simp only [dmAct, hρs] at hd
    cases hn : Mix.applyNoise nm q s.mix with
    | error e => rw [hn] at hs'; cases hs'
    | ok m' =>
      rw [hn] at hs'; injection hs' with hs'; subst hs'
      cases hn2 : DMx.applyNoise n nm q ρ with
      | error e => rw [hn2] at hd; cases hd
      | ok r =>
        rw [hn2] at hd; injection hd with hd; subst hd
        obtain ⟨e1, _⟩ := applyNoise_mixRho n q ha.1 nm (paramPhys_ok nm ha.2) s.mix m' hg.mixN hn
        obtain ⟨e2, n2⟩ := dmNoise_toC n q ha.1 nm ρ r hρn hh hn2
        exact ⟨⟨⟨r, rfl, n2, by rw [e2, hρ, e1]⟩,
          mixGood_of n _ (applyNoise_ok n q ha.1 nm s.mix m' hg.ok hn)
            (applyNoise_real nm q s.mix m' (fun x hx => (hg x hx).2.2) hn), hcr⟩,
          applyNoise_nonneg nm (paramPhys_loss nm ha.2) q s.mix m' hnn hn, applyNoise_ne nm q s.mix m' hnemp hn⟩
  | replace k =>
    have hs' : stabAct np n det arr s (.replace k) = .ok s1 := hs
    simp [stabAct] at hs'

theorem runJ_lockstep (np n : Nat) (det : Bool) (arr : Array COp) :
    ∀ (acts : List Act) (s s' : StabSt) (d d' : DmSt), (∀ a ∈ acts, ActOKJ n np arr a) → InvJ n s d →
      runStabActs np n det arr acts s = .ok s' → runDmActs np n det arr acts d = .ok d' → d'.ρ ≠ none → InvJ n s' d'
  | [], s, s', d, d', _, hI, hs, hd, _ => by
    simp [runStabActs] at hs; simp [runDmActs] at hd; subst hs; subst hd; exact hI
  | a :: as, s, s', d, d', hw, hI, hs, hd, hsome => by
    simp only [runStabActs] at hs
    simp only [runDmActs] at hd
    cases ha : stabAct np n det arr s a with
    | error e => rw [ha] at hs; cases hs
    | ok s1 =>
      rw [ha] at hs
      cases hb : dmAct np n det arr d a with
      | error e => rw [hb] at hd; cases hd
      | ok d1 =>
        rw [hb] at hd
        have h1 : d1.ρ ≠ none := fun h0 => hsome (runDmActs_none np n det arr as d1 d' h0 hd)
        have hI1 := actJ_lockstep np n det arr s s1 d d1 a (hw a List.mem_cons_self) hI ha hb h1
        exact runJ_lockstep np n det arr as s1 s' d1 d' (fun b hb' => hw b (List.mem_cons_of_mem _ hb')) hI1 hs hd hsome

theorem goJ_lockstep (ns : Bool) (np n : Nat) (det : Bool) (arr : Array COp)
    (harr : ∀ (j : Nat) (op : COp), arr[j]? = some op → OpOKJ n np op) :
    ∀ (ops : List COp) (k : Nat) (s s' : StabSt) (d d' : DmSt), (∀ op ∈ ops, OpOKJ n np op) → InvJ n s d →
      stabGo ns np n det arr ops k s = .ok s' → dmGo ns np n det arr ops k d = .ok d' → d'.ρ ≠ none → InvJ n s' d'
  | [], k, s, s', d, d', _, hI, hs, hd, _ => by
    simp [stabGo] at hs; simp [dmGo] at hd; subst hs; subst hd; exact hI
  | op :: rest, k, s, s', d, d', hw, hI, hs, hd, hsome => by
    simp only [stabGo] at hs
    simp only [dmGo] at hd
    split at hs
    · cases hs
    · have ho := hw op List.mem_cons_self
      have hback : placeOp ns .dm np op k = placeOp ns .stab np op k := by
        cases ho with
        | unitary h => exact placeOp_backend ns np op k h.mfree
        | meas hk hw' hne h0 h1 => rw [placeOp_none ns .dm np op k h0 h1, placeOp_none ns .stab np op k h0 h1]
      rw [hback] at hd
      cases hp : placeOp ns .stab np op k with
      | error e => rw [hp] at hs; cases hs
      | ok acts =>
        rw [hp] at hs hd; simp only at hs hd
        cases hr : runStabActs np n det arr acts s with
        | error e => rw [hr] at hs; cases hs
        | ok s1 =>
          rw [hr] at hs; simp only at hs
          cases hr2 : runDmActs np n det arr acts d with
          | error e => rw [hr2] at hd; cases hd
          | ok d1 =>
            rw [hr2] at hd; simp only at hd
            have hacts : ∀ a ∈ acts, ActOKJ n np arr a := by
              have gate_ok : ActOKJ n np arr (.gate k) := fun op' hop' => ⟨(harr k op' hop').wf, (harr k op' hop').kind⟩
              cases ho with
              | unitary h l0 l1 =>
                intro a ha
                rcases placeOp_goodP ParamPhys trivial n np ns .stab op k h.wf l0 l1 acts hp a ha with e | e | ⟨sd, q, nm, e, hq, hP⟩
                · subst e; exact gate_ok
                · subst e; trivial
                · subst e; exact ⟨hq, hP⟩
              | meas hk hw' hne h0 h1 =>
                rw [placeOp_none ns .stab np op k h0 h1] at hp
                injection hp with hp; subst hp
                intro a ha
                simp only [List.mem_singleton] at ha
                subst ha; exact gate_ok
            have h1 : d1.ρ ≠ none := fun h0 => hsome (dmGo_none ns np n det arr rest (k + 1) d1 d' h0 hd)
            have hI1 := runJ_lockstep np n det arr acts s s1 d d1 hacts hI hr hr2 h1
            exact goJ_lockstep ns np n det arr harr rest (k + 1) s1 s' d1 d'
              (fun o ho' => hw o (List.mem_cons_of_mem _ ho')) hI1 hs hd hsome

/-- **with the repaired measurement the two backends agree on every circuit with measurements** — no condition on the
    outcomes, no weight threshold: if the repaired stabilizer compile returns `s` and the density-matrix compile returns a
    matrix `ρ` (not NaN), then `ρ = Σ_k w_k ρ(T_k)` of `s.mix`, entry by entry, and the classical registers agree.  All n. -/
theorem dm_equals_mixture_repaired (ns : Bool) (ne np nc : Nat) (det : Bool) (ops : List COp)
    (hw : ∀ op ∈ ops, OpOKJ (ne + np) np op) (s : StabSt) (d : DmSt) (ρ : Mat)
    (hs : compileStab ns ne np nc det ops = .ok s) (hd : compileDM ns ne np nc det ops = .ok d) (hρ : d.ρ = some ρ) :
    Mat.EqOn ρ (mixtureDensity (ne + np) s.mix) ∧ d.creg = s.creg := by
  unfold compileStab at hs
  unfold compileDM at hd
  have hI0 : InvJ (ne + np) { mix := [(1, (Tab.ket0 (ne + np)).norm)], creg := List.replicate nc 0 }
      { ρ := some (⟨pow2 (ne + np), fun i j => if i = 0 ∧ j = 0 then 1 else 0⟩ : Mat).norm, creg := List.replicate nc 0 } := by
    refine ⟨⟨⟨_, rfl, rfl, ?_⟩, ?_, rfl⟩, ?_, by simp⟩
    · rw [toC_rho0, mixRho_init]
    · intro x hx
      simp only [List.mem_singleton] at hx
      subst hx
      exact ⟨rfl, Tab.norm_valid _ (Tab.ket0_valid _), norm_stabReal _ (ket0_stabReal _)⟩
    · intro x hx
      simp only [List.mem_singleton] at hx
      subst hx
      norm_num
  obtain ⟨⟨⟨ρ', hρ', hn, e⟩, hg, hcr⟩, _, _⟩ := goJ_lockstep ns np (ne + np) det ops.toArray (by
      intro j op hop
      apply hw
      have : op ∈ ops.toArray := Array.mem_of_getElem? hop
      simpa using this) ops 0 _ s _ d hw hI0 hs hd (by rw [hρ]; simp)
  rw [hρ] at hρ'; injection hρ' with hρ'; subst hρ'
  obtain ⟨e3, n3⟩ := toC_mixtureDensity (ne + np) s.mix hg.mixN
  exact ⟨toC_inj (ne + np) _ _ hn n3 (by rw [e, e3]), hcr⟩

end MixDM
end Graphiq
