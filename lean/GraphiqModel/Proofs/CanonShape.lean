/-
  Proofs/CanonShape.lean — the postcondition of `canonical_form`: whenever it returns, the tableau is in the reduced
  echelon shape `Canon` (an X block of rows with X-or-Y pivots whose columns are cleared of x-bits everywhere else,
  followed by a block of pure-Z rows with Z pivots whose columns are cleared of z-bits everywhere else).  All sizes;
  proved by loop invariants over the two `for` loops (`canonStepXY`, `canonStepZ`).
-/
import GraphiqModel.Proofs.CanonPivot
namespace Graphiq
open PRow Tab
namespace STab

/-- the x-bit matrix and the z-bit matrix of a tableau -/
def xb (t : STab) : Nat → Nat → Bool := fun m j => (t.row m).x j
def zb (t : STab) : Nat → Nat → Bool := fun m j => (t.row m).z j

/-- **the shape `canonical_form` returns**: rows `0..k-1` are the X block (pivot columns `px 0 < px 1 < …`: the pivot
    row has x-bit 1 there and it is its leading x-bit, every other row of the tableau has x-bit 0 there; the rows from `k`
    on have no x-bit at all), rows `k..n-1` are the Z block (pivot columns `pz k < pz (k+1) < …`: the pivot row has
    z-bit 1 there and it is its leading z-bit, every other row of the tableau — X block included — has z-bit 0 there). -/
def Canon (c : STab) : Prop :=
  ∃ (k : Nat) (px pz : Nat → Nat), PInv c.n (xb c) px 0 k c.n ∧ PInv c.n (zb c) pz k c.n c.n

/-- swap the pivot into place, tabulate, sweep, tabulate (the body of both loops of `canonical_form`) -/
def pivotStep (t : STab) (pr f : Nat) (sel : STab → Nat → Bool) : STab :=
  ((t.rowSwap pr f).norm.sweep pr (sel (t.rowSwap pr f).norm)).norm

/-- a bit of a row that is read off below the size and is additive under the row product (the x-bit, the z-bit) -/
structure BitSel (bit : PRow → Nat → Bool) : Prop where
  eqOn : ∀ n a b, EqOn n a b → ∀ j, j < n → bit a j = bit b j
  mul : ∀ n a b j, bit (stabMul n a b) j = xor (bit a j) (bit b j)

theorem bitSel_x : BitSel (fun r j => r.x j) :=
  ⟨fun _ _ _ h j hj => (h.1 j hj).1, fun _ _ _ _ => rfl⟩
theorem bitSel_z : BitSel (fun r j => r.z j) :=
  ⟨fun _ _ _ h j hj => (h.1 j hj).2, fun _ _ _ _ => rfl⟩

theorem rowSwap_row_swp (t : STab) (a b m : Nat) : (t.rowSwap a b).row m = t.row (swp a b m) := by
  unfold rowSwap swp
  simp only
  split
  · rfl
  · split <;> rfl

theorem pivotStep_n (t : STab) (pr f : Nat) (sel : STab → Nat → Bool) : (pivotStep t pr f sel).n = t.n := rfl

/-- bits of the swapped, tabulated tableau -/
theorem swapNorm_bit {bit : PRow → Nat → Bool} (hb : BitSel bit) (t : STab) (a b m j : Nat) (hm : m < t.n) (hj : j < t.n) :
    bit ((t.rowSwap a b).norm.row m) j = bit (t.row (swp a b m)) j := by
  rw [hb.eqOn _ _ _ (norm_row (t.rowSwap a b) m hm) j hj, rowSwap_row_swp]

/-- bits of the swept, tabulated tableau -/
theorem sweepNorm_bit {bit : PRow → Nat → Bool} (hb : BitSel bit) (t : STab) (pr : Nat) (sel : Nat → Bool) (m j : Nat)
    (hm : m < t.n) (hj : j < t.n) :
    bit ((t.sweep pr sel).norm.row m) j
      = if m ≠ pr ∧ sel m = true then xor (bit (t.row pr) j) (bit (t.row m) j) else bit (t.row m) j := by
  rw [hb.eqOn _ _ _ (norm_row (t.sweep pr sel) m hm) j hj]
  simp only [sweep]
  split
  · exact hb.mul _ _ _ _
  · rfl

/-- bits after one pivot step -/
theorem pivotStep_bit {bit : PRow → Nat → Bool} (hb : BitSel bit) (t : STab) (pr f : Nat) (sel : STab → Nat → Bool)
    (m j : Nat) (hm : m < t.n) (hj : j < t.n) (hp : pr < t.n) :
    bit ((pivotStep t pr f sel).row m) j
      = if m ≠ pr ∧ sel (t.rowSwap pr f).norm m = true
          then xor (bit (t.row (swp pr f pr)) j) (bit (t.row (swp pr f m)) j) else bit (t.row (swp pr f m)) j := by
  unfold pivotStep
  rw [sweepNorm_bit hb (t.rowSwap pr f).norm pr _ m j hm hj,
    swapNorm_bit hb t pr f m j hm hj, swapNorm_bit hb t pr f pr j hp hj]

/-- one pivot step (selecting the rows to clear by the same bit at column `J`) extends the echelon invariant -/
theorem pivotStep_pinv {bit : PRow → Nat → Bool} (hb : BitSel bit) (t : STab) (p : Nat → Nat) (lo pr J f : Nat)
    (h : PInv t.n (fun m j => bit (t.row m) j) p lo pr J) (hf : pr ≤ f) (hfn : f < t.n) (hJ : J < t.n)
    (h1 : bit (t.row f) J = true) :
    PInv t.n (fun m j => bit ((pivotStep t pr f (fun t1 m => bit (t1.row m) J)).row m) j)
      (fun i => if i = pr then J else p i) lo (pr + 1) (J + 1) := by
  have hp : pr < t.n := by omega
  -- stage 1: the swap
  have s1 : PInv t.n (fun m j => bit (t.row (swp pr f m)) j) p lo pr J :=
    h.swap f hf hfn (by omega) (fun m j _ _ => rfl)
  -- stage 2: the sweep
  apply s1.sweep hp hJ
  · show bit (t.row (swp pr f pr)) J = true
    rw [swp_left]; exact h1
  · intro m j hm hj
    show bit ((pivotStep t pr f _).row m) j = _
    rw [pivotStep_bit hb t pr f _ m j hm hj hp]
    show (if m ≠ pr ∧ bit ((t.rowSwap pr f).norm.row m) J = true then _ else _) = _
    rw [swapNorm_bit hb t pr f m J hm hJ]

/-- a pivot step whose rows from `pr` on carry no x-bit leaves the x-bit matrix unchanged -/
theorem pivotStep_xb_zero (t : STab) (pr f : Nat) (sel : STab → Nat → Bool) (hf : pr ≤ f) (hfn : f < t.n)
    (zero : ∀ i j, pr ≤ i → i < t.n → j < t.n → (t.row i).x j = false) (m j : Nat) (hm : m < t.n) (hj : j < t.n) :
    xb (pivotStep t pr f sel) m j = xb t m j := by
  have hp : pr < t.n := by omega
  have hsw : (t.row (swp pr f m)).x j = (t.row m).x j := by
    by_cases h1 : m = pr
    · rw [h1, swp_left, zero f j hf hfn hj, zero pr j (Nat.le_refl _) hp hj]
    · by_cases h2 : m = f
      · have : swp pr f m = pr := by simp [swp, h2]
        rw [this, h2, zero f j hf hfn hj, zero pr j (Nat.le_refl _) hp hj]
      · have : swp pr f m = m := by simp [swp, h1, h2]
        rw [this]
  have key := pivotStep_bit bitSel_x t pr f sel m j hm hj hp
  simp only [swp_left, hsw, zero f j hf hfn hj] at key
  unfold xb
  rw [key]
  split <;> simp

/-! ### the two finders -/

theorem ptype_x (t : STab) (i j : Nat) : (t.ptype i j = 1 ∨ t.ptype i j = 2) ↔ (t.row i).x j = true := by
  unfold ptype
  cases (t.row i).x j <;> cases (t.row i).z j <;> simp

theorem ptype_z (t : STab) (i j : Nat) : t.ptype i j = 3 ↔ ((t.row i).x j = false ∧ (t.row i).z j = true) := by
  unfold ptype
  cases (t.row i).x j <;> cases (t.row i).z j <;> simp

theorem mem_xs (t : STab) (pr j m : Nat) :
    m ∈ (t.pauliTypeFinder pr j).1 ↔ (pr ≤ m ∧ m < t.n ∧ t.ptype m j = 1) := by
  simp only [pauliTypeFinder, List.mem_filter, List.mem_range, decide_eq_true_eq]
  constructor
  · intro h; exact ⟨h.1.2, h.1.1, h.2⟩
  · intro h; exact ⟨⟨h.2.1, h.1⟩, h.2.2⟩

theorem mem_ys (t : STab) (pr j m : Nat) :
    m ∈ (t.pauliTypeFinder pr j).2.1 ↔ (pr ≤ m ∧ m < t.n ∧ t.ptype m j = 2) := by
  simp only [pauliTypeFinder, List.mem_filter, List.mem_range, decide_eq_true_eq]
  constructor
  · intro h; exact ⟨h.1.2, h.1.1, h.2⟩
  · intro h; exact ⟨⟨h.2.1, h.1⟩, h.2.2⟩

theorem mem_zs (t : STab) (pr j m : Nat) :
    m ∈ t.zTypeFinder pr j ↔ (pr ≤ m ∧ m < t.n ∧ t.ptype m j = 3) := by
  simp only [zTypeFinder, List.mem_filter, List.mem_range, decide_eq_true_eq]
  constructor
  · intro h; exact ⟨h.1.2, h.1.1, h.2⟩
  · intro h; exact ⟨⟨h.2.1, h.1⟩, h.2.2⟩

/-- first loop, one column: either no row from `pr` on has an x-bit in column `j` and nothing happens, or a row `f ≥ pr`
    with x-bit 1 is made the pivot -/
theorem canonStepXY_cases (t : STab) (pr j : Nat) :
    (t.canonStepXY pr j = (t, pr) ∧ ∀ m, pr ≤ m → m < t.n → (t.row m).x j = false) ∨
    (∃ f, pr ≤ f ∧ f < t.n ∧ (t.row f).x j = true ∧
      t.canonStepXY pr j = (pivotStep t pr f (fun t1 m => (t1.row m).x j), pr + 1)) := by
  have hxs := mem_xs t pr j
  have hys := mem_ys t pr j
  unfold canonStepXY
  generalize t.pauliTypeFinder pr j = ft at hxs hys
  obtain ⟨xs, ys, zs⟩ := ft
  simp only at hxs hys ⊢
  split
  · next hnone =>
    left
    refine ⟨rfl, fun m h1 h2 => ?_⟩
    have exs : xs = [] := by
      cases xs with
      | nil => rfl
      | cons a l => simp at hnone
    have eys : ys = [] := by
      subst exs
      cases ys with
      | nil => rfl
      | cons a l => simp at hnone
    cases hx : (t.row m).x j
    · rfl
    · rcases (ptype_x t m j).2 hx with h | h
      · have := (hxs m).2 ⟨h1, h2, h⟩; rw [exs] at this; cases this
      · have := (hys m).2 ⟨h1, h2, h⟩; rw [eys] at this; cases this
  · next f hf =>
    right
    have hmem : f ∈ xs ∨ f ∈ ys := by
      by_cases hx : xs.isEmpty
      · simp [hx] at hf; exact Or.inr (List.mem_of_mem_head? hf)
      · simp [hx] at hf; exact Or.inl (List.mem_of_mem_head? hf)
    refine ⟨f, ?_, ?_, ?_, rfl⟩
    · rcases hmem with h | h
      · exact ((hxs f).1 h).1
      · exact ((hys f).1 h).1
    · rcases hmem with h | h
      · exact ((hxs f).1 h).2.1
      · exact ((hys f).1 h).2.1
    · rcases hmem with h | h
      · exact (ptype_x t f j).1 (Or.inl ((hxs f).1 h).2.2)
      · exact (ptype_x t f j).1 (Or.inr ((hys f).1 h).2.2)

/-- second loop, one column -/
theorem canonStepZ_cases (t : STab) (pr j : Nat) :
    (t.canonStepZ pr j = (t, pr) ∧ ∀ m, pr ≤ m → m < t.n → ¬ ((t.row m).x j = false ∧ (t.row m).z j = true)) ∨
    (∃ f, pr ≤ f ∧ f < t.n ∧ (t.row f).x j = false ∧ (t.row f).z j = true ∧
      t.canonStepZ pr j = (pivotStep t pr f (fun t1 m => (t1.row m).z j), pr + 1)) := by
  have hzs := mem_zs t pr j
  unfold canonStepZ
  generalize t.zTypeFinder pr j = zs at hzs
  split
  · next hnone =>
    left
    refine ⟨rfl, fun m h1 h2 hc => ?_⟩
    have ezs : zs = [] := by
      cases zs with
      | nil => rfl
      | cons a l => simp at hnone
    have := (hzs m).2 ⟨h1, h2, (ptype_z t m j).2 hc⟩
    rw [ezs] at this; cases this
  · next f hf =>
    right
    have hm := (hzs f).1 (List.mem_of_mem_head? hf)
    have := (ptype_z t f j).1 hm.2.2
    exact ⟨f, hm.1, hm.2.1, this.1, this.2, rfl⟩

/-! ### loop invariants -/

theorem canonStepXY_n (t : STab) (pr j : Nat) : (t.canonStepXY pr j).1.n = t.n := by
  rcases canonStepXY_cases t pr j with h | ⟨f, _, _, _, h⟩
  · rw [h.1]
  · rw [h]; rfl

theorem canonStepZ_n (t : STab) (pr j : Nat) : (t.canonStepZ pr j).1.n = t.n := by
  rcases canonStepZ_cases t pr j with h | ⟨f, _, _, _, _, h⟩
  · rw [h.1]
  · rw [h]; rfl

/-- the X loop keeps the echelon invariant of the x-bit matrix -/
theorem canonStepXY_pinv (t : STab) (p : Nat → Nat) (pr J : Nat) (hJ : J < t.n) (h : PInv t.n (xb t) p 0 pr J) :
    ∃ p', PInv t.n (xb (t.canonStepXY pr J).1) p' 0 (t.canonStepXY pr J).2 (J + 1) := by
  rcases canonStepXY_cases t pr J with ⟨e, h0⟩ | ⟨f, hf, hfn, h1, e⟩
  · rw [e]; exact ⟨p, h.skip h0⟩
  · rw [e]; exact ⟨_, pivotStep_pinv bitSel_x t p 0 pr J f h hf hfn hJ h1⟩

/-- the Z loop keeps the finished X block and the echelon invariant of the z-bit matrix on the rows from `k` on -/
theorem canonStepZ_pinv (t : STab) (px pz : Nat → Nat) (k pr J : Nat) (hJ : J < t.n)
    (hx : PInv t.n (xb t) px 0 k t.n) (h : PInv t.n (zb t) pz k pr J) :
    PInv t.n (xb (t.canonStepZ pr J).1) px 0 k t.n ∧
    ∃ pz', PInv t.n (zb (t.canonStepZ pr J).1) pz' k (t.canonStepZ pr J).2 (J + 1) := by
  have hk := h.lo_le
  rcases canonStepZ_cases t pr J with ⟨e, h0⟩ | ⟨f, hf, hfn, h1x, h1z, e⟩
  · rw [e]
    refine ⟨hx, pz, h.skip (fun m hm1 hm2 => ?_)⟩
    have hxm : (t.row m).x J = false := hx.below m J (by omega) hm2 hJ
    cases hz : (t.row m).z J
    · exact hz
    · exact absurd ⟨hxm, hz⟩ (h0 m hm1 hm2)
  · rw [e]
    refine ⟨?_, _, pivotStep_pinv bitSel_z t pz k pr J f h hf hfn hJ h1z⟩
    -- the x-bits do not change: the pivot row and the swapped rows have no x-bit
    apply hx.congr (Nat.le_refl _)
    intro m j hm hj
    have zero : ∀ i j, pr ≤ i → i < t.n → j < t.n → (t.row i).x j = false :=
      fun i j h1 h2 h3 => hx.below i j (by omega) h2 h3
    exact pivotStep_xb_zero t pr f (fun t1 m => (t1.row m).z J) hf hfn zero m j hm hj

theorem foldXY_inv (t : STab) (J : Nat) (hJ : J ≤ t.n) :
    ((List.range J).foldl (fun (acc : STab × Nat) j => acc.1.canonStepXY acc.2 j) (t, 0)).1.n = t.n ∧
    ∃ p, PInv t.n (xb ((List.range J).foldl (fun (acc : STab × Nat) j => acc.1.canonStepXY acc.2 j) (t, 0)).1) p 0
      ((List.range J).foldl (fun (acc : STab × Nat) j => acc.1.canonStepXY acc.2 j) (t, 0)).2 J := by
  induction J with
  | zero => exact ⟨rfl, fun _ => 0, PInv.init _ _ _ 0 (Nat.zero_le _)⟩
  | succ J ih =>
    obtain ⟨hn, p, hp⟩ := ih (by omega)
    rw [List.range_succ, List.foldl_append]
    simp only [List.foldl]
    generalize (List.range J).foldl (fun (acc : STab × Nat) j => acc.1.canonStepXY acc.2 j) (t, 0) = acc at hn hp
    refine ⟨by rw [canonStepXY_n]; exact hn, ?_⟩
    rw [← hn] at hp ⊢
    exact canonStepXY_pinv acc.1 p acc.2 J (by omega) hp

theorem foldZ_inv (t : STab) (px : Nat → Nat) (k : Nat) (hx : PInv t.n (xb t) px 0 k t.n) (J : Nat) (hJ : J ≤ t.n) :
    ((List.range J).foldl (fun (acc : STab × Nat) j => acc.1.canonStepZ acc.2 j) (t, k)).1.n = t.n ∧
    PInv t.n (xb ((List.range J).foldl (fun (acc : STab × Nat) j => acc.1.canonStepZ acc.2 j) (t, k)).1) px 0 k t.n ∧
    ∃ p, PInv t.n (zb ((List.range J).foldl (fun (acc : STab × Nat) j => acc.1.canonStepZ acc.2 j) (t, k)).1) p k
      ((List.range J).foldl (fun (acc : STab × Nat) j => acc.1.canonStepZ acc.2 j) (t, k)).2 J := by
  induction J with
  | zero => exact ⟨rfl, hx, fun _ => 0, PInv.init _ _ _ k hx.pr_le⟩
  | succ J ih =>
    obtain ⟨hn, hx', p, hp⟩ := ih (by omega)
    rw [List.range_succ, List.foldl_append]
    simp only [List.foldl]
    generalize (List.range J).foldl (fun (acc : STab × Nat) j => acc.1.canonStepZ acc.2 j) (t, k) = acc at hn hx' hp
    refine ⟨by rw [canonStepZ_n]; exact hn, ?_⟩
    rw [← hn] at hx' hp ⊢
    exact canonStepZ_pinv acc.1 px p k acc.2 J (by omega) hx' hp

/-- **postcondition of `canonical_form`** (every n, every input tableau): if the final assert passes, the result is in
    the reduced echelon shape `Canon` -/
theorem canonLoops_canon (t : STab) (h : t.canonLoops.2 = t.n) : Canon t.canonLoops.1 := by
  unfold canonLoops at h ⊢
  obtain ⟨hn1, px, hx⟩ := foldXY_inv t t.n (Nat.le_refl _)
  generalize (List.range t.n).foldl (fun (acc : STab × Nat) j => acc.1.canonStepXY acc.2 j) (t, 0) = r1 at hn1 hx h ⊢
  obtain ⟨t1, k⟩ := r1
  simp only at hn1 hx h ⊢
  rw [← hn1] at hx h ⊢
  obtain ⟨hn2, hx2, pz, hz⟩ := foldZ_inv t1 px k hx t1.n (Nat.le_refl _)
  generalize (List.range t1.n).foldl (fun (acc : STab × Nat) j => acc.1.canonStepZ acc.2 j) (t1, k) = r2 at hn2 hx2 hz h ⊢
  rw [h] at hz
  rw [← hn2] at hx2 hz
  exact ⟨k, px, pz, hx2, hz⟩

theorem canonicalForm_canon (t c : STab) (h : t.canonicalForm = .ok c) : Canon c := by
  unfold canonicalForm at h
  split at h
  · next hn => injection h with h; rw [← h]; exact canonLoops_canon t hn
  · cases h

end STab
end Graphiq
