/-
  Proofs/SolverSoundRows.lean — the "single out one emitter" pipeline of the time-reversed solver
  (`allEmittersToZ` → `transformGeneratorEmitters` → `fixSign`) turns the chosen generator row into exactly `+Z` on the
  chosen emitter.  All sizes; only row `g` of the tableau is tracked (up to `PRow.EqOn n`, because every gate step re-tabulates).
-/
import GraphiqModel.Proofs.Solver
import GraphiqModel.Proofs.StabTableau
import GraphiqModel.Proofs.InverseCircuit
namespace Graphiq.Solver
open Graphiq Graphiq.Cliff PRow

/-! ### row-wise gate actions, field by field -/

theorem sdg_x (q j : Nat) (p : PRow) : (PRow.sdg q p).x j = p.x j := rfl

theorem sdg_z (q j : Nat) (p : PRow) : (PRow.sdg q p).z j = if j = q then xor (p.z j) (p.x q) else p.z j := by
  by_cases h : j = q
  · subst h
    simp only [PRow.sdg, PRow.s, if_true]
    cases p.z j <;> cases p.x j <;> rfl
  · simp [PRow.sdg, PRow.s, h]

theorem xg_x (q j : Nat) (p : PRow) : (PRow.xg q p).x j = p.x j := by
  by_cases h : j = q
  · subst h
    simp only [PRow.xg, PRow.zg, PRow.h, PRow.s, if_true]
    cases p.z j <;> cases p.x j <;> rfl
  · simp [PRow.xg, PRow.zg, PRow.h, PRow.s, h]

theorem xg_z (q j : Nat) (p : PRow) : (PRow.xg q p).z j = p.z j := by
  by_cases h : j = q
  · subst h
    simp only [PRow.xg, PRow.zg, PRow.h, PRow.s, if_true]
  · simp [PRow.xg, PRow.zg, PRow.h, PRow.s, h]

theorem xg_r (q : Nat) (p : PRow) : (PRow.xg q p).r = xor p.r (p.z q) := by
  simp only [PRow.xg, PRow.zg, PRow.h, PRow.s, if_true]
  cases p.r <;> cases p.z q <;> cases p.x q <;> rfl

/-! ### `St.gate` on one row -/

theorem gate_row (s : St) (G : Gate) (i : Nat) (hi : i < s.t.n) :
    EqOn s.t.n ((s.gate G).t.row i) (G.act (s.t.row i)) :=
  STab.norm_row (s.t.applyGate G) i hi

theorem gate_n (s : St) (G : Gate) : (s.gate G).t.n = s.t.n := rfl

theorem gate_ip (s : St) (G : Gate) (i : Nat) (hi : i < s.t.n) : ((s.gate G).t.row i).ip = (s.t.row i).ip := by
  rw [(gate_row s G i hi).2.2, Gate.act_ip]

theorem gate_r (s : St) (G : Gate) (i : Nat) (hi : i < s.t.n) : ((s.gate G).t.row i).r = (G.act (s.t.row i)).r :=
  (gate_row s G i hi).2.1

theorem gateH_x (s : St) (q i j : Nat) (hi : i < s.t.n) (hj : j < s.t.n) :
    ((s.gate (.H q)).t.row i).x j = if j = q then (s.t.row i).z j else (s.t.row i).x j :=
  ((gate_row s (.H q) i hi).1 j hj).1

theorem gateH_z (s : St) (q i j : Nat) (hi : i < s.t.n) (hj : j < s.t.n) :
    ((s.gate (.H q)).t.row i).z j = if j = q then (s.t.row i).x j else (s.t.row i).z j :=
  ((gate_row s (.H q) i hi).1 j hj).2

theorem gatePdag_x (s : St) (q i j : Nat) (hi : i < s.t.n) (hj : j < s.t.n) :
    ((s.gate (.Pdag q)).t.row i).x j = (s.t.row i).x j :=
  ((gate_row s (.Pdag q) i hi).1 j hj).1

theorem gatePdag_z (s : St) (q i j : Nat) (hi : i < s.t.n) (hj : j < s.t.n) :
    ((s.gate (.Pdag q)).t.row i).z j = if j = q then xor ((s.t.row i).z j) ((s.t.row i).x q) else (s.t.row i).z j := by
  rw [((gate_row s (.Pdag q) i hi).1 j hj).2]; exact sdg_z q j _

theorem gateX_x (s : St) (q i j : Nat) (hi : i < s.t.n) (hj : j < s.t.n) :
    ((s.gate (.X q)).t.row i).x j = (s.t.row i).x j := by
  rw [((gate_row s (.X q) i hi).1 j hj).1]; exact xg_x q j _

theorem gateX_z (s : St) (q i j : Nat) (hi : i < s.t.n) (hj : j < s.t.n) :
    ((s.gate (.X q)).t.row i).z j = (s.t.row i).z j := by
  rw [((gate_row s (.X q) i hi).1 j hj).2]; exact xg_z q j _

theorem gateX_r (s : St) (q i : Nat) (hi : i < s.t.n) :
    ((s.gate (.X q)).t.row i).r = xor (s.t.row i).r ((s.t.row i).z q) := by
  rw [gate_r s (.X q) i hi]; exact xg_r q _

theorem gateCNOT_x (s : St) (c t i j : Nat) (hi : i < s.t.n) (hj : j < s.t.n) :
    ((s.gate (.CNOT c t)).t.row i).x j = if j = t then xor ((s.t.row i).x j) ((s.t.row i).x c) else (s.t.row i).x j :=
  ((gate_row s (.CNOT c t) i hi).1 j hj).1

theorem gateCNOT_z (s : St) (c t i j : Nat) (hi : i < s.t.n) (hj : j < s.t.n) :
    ((s.gate (.CNOT c t)).t.row i).z j = if j = c then xor ((s.t.row i).z j) ((s.t.row i).z t) else (s.t.row i).z j :=
  ((gate_row s (.CNOT c t) i hi).1 j hj).2

/-! ### `addOneQubit` touches only the circuit -/

/-- `addOneQubit` touches only the circuit -/
theorem addOneQubit_t (s s' : St) (gs : List Gen) (q : Nat) (h : addOneQubit s gs q = .ok s') :
    s'.t = s.t ∧ s'.np = s.np ∧ s'.ne = s.ne := by
  unfold addOneQubit at h
  simp only at h
  generalize s.circ.takeWhile (fun o => !o.touches s.np q) = pre at h
  generalize s.circ.dropWhile (fun o => !o.touches s.np q) = post at h
  split at h
  · split at h
    · cases h
    · split at h
      · injection h with h; rw [← h]; exact ⟨rfl, rfl, rfl⟩
      · injection h with h; rw [← h]; exact ⟨rfl, rfl, rfl⟩
  · split at h
    · cases h
    · split at h
      · injection h with h; rw [← h]; exact ⟨rfl, rfl, rfl⟩
      · injection h with h; rw [← h]; exact ⟨rfl, rfl, rfl⟩

/-! ### `changeToZ` on the row it is asked to change -/

/-- `_change_pauli_type(…, 'z')` makes column `q` of row `g` a `Z` iff it was non-trivial, and changes no other column of row `g` -/
theorem changeToZ_row (s : St) (g q : Nat) (hg : g < s.t.n) (hq : q < s.t.n) :
    (changeToZ s g q).1.t.n = s.t.n ∧ (changeToZ s g q).1.np = s.np ∧ (changeToZ s g q).1.ne = s.ne ∧
    ((changeToZ s g q).1.t.row g).ip = (s.t.row g).ip ∧
    ((changeToZ s g q).1.t.row g).x q = false ∧
    ((changeToZ s g q).1.t.row g).z q = ((s.t.row g).x q || (s.t.row g).z q) ∧
    ∀ j, j < s.t.n → j ≠ q →
      ((changeToZ s g q).1.t.row g).x j = (s.t.row g).x j ∧ ((changeToZ s g q).1.t.row g).z j = (s.t.row g).z j := by
  cases hx : (s.t.row g).x q <;> cases hz : (s.t.row g).z q
  · have e : changeToZ s g q = (s, []) := by simp [changeToZ, STab.ptype, hx, hz]
    rw [e]
    exact ⟨rfl, rfl, rfl, rfl, hx, hz, fun j _ _ => ⟨rfl, rfl⟩⟩
  · have e : changeToZ s g q = (s, []) := by simp [changeToZ, STab.ptype, hx, hz]
    rw [e]
    exact ⟨rfl, rfl, rfl, rfl, hx, hz, fun j _ _ => ⟨rfl, rfl⟩⟩
  · have e : changeToZ s g q = (s.gate (.H q), [.H]) := by simp [changeToZ, STab.ptype, hx, hz]
    rw [e]
    refine ⟨rfl, rfl, rfl, gate_ip s _ g hg, ?_, ?_, fun j hj hne => ⟨?_, ?_⟩⟩
    · rw [gateH_x s q g q hg hq]; simp [hz]
    · rw [gateH_z s q g q hg hq]; simp [hx]
    · rw [gateH_x s q g j hg hj]; simp [hne]
    · rw [gateH_z s q g j hg hj]; simp [hne]
  · have e : changeToZ s g q = ((s.gate (.Pdag q)).gate (.H q), [.P, .H]) := by simp [changeToZ, STab.ptype, hx, hz]
    rw [e]
    have hg1 : g < (s.gate (.Pdag q)).t.n := hg
    have hq1 : q < (s.gate (.Pdag q)).t.n := hq
    refine ⟨rfl, rfl, rfl, (gate_ip _ _ g hg1).trans (gate_ip s _ g hg), ?_, ?_, fun j hj hne => ⟨?_, ?_⟩⟩
    · rw [gateH_x _ q g q hg1 hq1, gatePdag_z s q g q hg hq]; simp [hx, hz]
    · rw [gateH_z _ q g q hg1 hq1, gatePdag_x s q g q hg hq]; simp [hx]
    · rw [gateH_x _ q g j hg1 hj, gatePdag_x s q g j hg hj]; simp [hne]
    · rw [gateH_z _ q g j hg1 hj, gatePdag_z s q g j hg hj]; simp [hne]

/-! ### fold invariants -/

/-- invariant of a monadic fold over `List.range n`, indexed by the number of processed elements -/
theorem foldlM_range_inv (f : St → Nat → Except Err St) (P : Nat → St → Prop) (n : Nat) (s s' : St)
    (h0 : P 0 s) (hstep : ∀ k a a', k < n → P k a → f a k = .ok a' → P (k + 1) a')
    (h : (List.range n).foldlM f s = .ok s') : P n s' := by
  induction n generalizing s' with
  | zero =>
    simp only [List.range_zero, List.foldlM, pure, Except.pure] at h
    injection h with h; rw [← h]; exact h0
  | succ m ih =>
    rw [List.range_succ, List.foldlM_append] at h
    cases hm : (List.range m).foldlM f s with
    | error e => rw [hm] at h; simp [bind, Except.bind] at h
    | ok sm =>
      rw [hm] at h
      simp only [bind, Except.bind, List.foldlM, pure, Except.pure] at h
      have hP := ih sm (fun k a a' hk => hstep k a a' (by omega)) hm
      cases hf : f sm m with
      | error e => rw [hf] at h; cases h
      | ok a' =>
        rw [hf] at h; simp only at h
        injection h with h; rw [← h]
        exact hstep m sm a' (by omega) hP hf

/-- invariant of a pure fold, indexed by the list of elements still to be processed -/
theorem foldl_rest_inv {α : Type} (f : St → α → St) (P : List α → St → Prop)
    (hstep : ∀ c rest a, P (c :: rest) a → P rest (f a c)) (l : List α) (s : St) (h0 : P l s) :
    P [] (l.foldl f s) := by
  induction l generalizing s with
  | nil => exact h0
  | cons c rest ih => simp only [List.foldl]; exact ih (f s c) (hstep c rest s h0)

/-! ### step 1: all emitter columns of row `g` become `Z` or `I` -/

/-- state of row `g` after the first `k` emitters have been processed by `allEmittersToZ` -/
structure ZInv (s : St) (g k : Nat) (a : St) : Prop where
  np_eq : a.np = s.np
  ne_eq : a.ne = s.ne
  n_eq : a.t.n = s.t.n
  ip_eq : (a.t.row g).ip = (s.t.row g).ip
  rest : ∀ j, j < s.t.n → (j < s.np ∨ s.np + k ≤ j) →
    (a.t.row g).x j = (s.t.row g).x j ∧ (a.t.row g).z j = (s.t.row g).z j
  done : ∀ i, i < k → (a.t.row g).x (s.np + i) = false ∧
    (a.t.row g).z (s.np + i) = ((s.t.row g).x (s.np + i) || (s.t.row g).z (s.np + i))

theorem allEmittersToZ_step (a a' : St) (g i : Nat) (skip : Bool)
    (h : (let (a1, gl) := changeToZ a g (a.np + i)
          if skip && gl.isEmpty then Except.ok a1 else addOneQubit a1 gl (a.np + i)) = .ok a') :
    a'.t = (changeToZ a g (a.np + i)).1.t ∧ a'.np = a.np ∧ a'.ne = a.ne := by
  have k1 := keeps_changeToZ a g (a.np + i)
  generalize changeToZ a g (a.np + i) = r at h k1 ⊢
  obtain ⟨a1, gl⟩ := r
  simp only at h k1 ⊢
  split at h
  · injection h with h; rw [← h]; exact ⟨rfl, k1.np_eq, k1.ne_eq⟩
  · obtain ⟨e1, e2, e3⟩ := addOneQubit_t a1 a' gl _ h
    exact ⟨e1, e2.trans k1.np_eq, e3.trans k1.ne_eq⟩

theorem allEmittersToZ_row (s s1 : St) (g : Nat) (skip : Bool) (hn : s.t.n = s.np + s.ne) (hg : g < s.t.n)
    (h : allEmittersToZ s g skip = .ok s1) : ZInv s g s.ne s1 := by
  unfold allEmittersToZ at h
  refine foldlM_range_inv _ (fun k a => ZInv s g k a) s.ne s s1
    ⟨rfl, rfl, rfl, rfl, fun _ _ _ => ⟨rfl, rfl⟩, fun i hi => absurd hi (Nat.not_lt_zero i)⟩ ?_ h
  intro k a a' hk inv ha
  obtain ⟨e1, e2, e3⟩ := allEmittersToZ_step a a' g k skip ha
  have hg' : g < a.t.n := by rw [inv.n_eq]; exact hg
  have hq' : a.np + k < a.t.n := by rw [inv.n_eq, inv.np_eq, hn]; omega
  obtain ⟨c1, _, _, c4, c5, c6, c7⟩ := changeToZ_row a g (a.np + k) hg' hq'
  rw [← e1] at c1 c4 c5 c6 c7
  rw [inv.np_eq] at c5 c6 c7
  rw [inv.n_eq] at c7
  refine ⟨e2.trans inv.np_eq, e3.trans inv.ne_eq, c1.trans inv.n_eq, c4.trans inv.ip_eq, ?_, ?_⟩
  · intro j hj hjr
    have hne : j ≠ s.np + k := by omega
    obtain ⟨x1, z1⟩ := c7 j hj hne
    obtain ⟨x2, z2⟩ := inv.rest j hj (by omega)
    exact ⟨x1.trans x2, z1.trans z2⟩
  · intro i hi
    by_cases hik : i = k
    · subst hik
      obtain ⟨x2, z2⟩ := inv.rest (s.np + i) (by omega) (Or.inr (Nat.le_refl _))
      exact ⟨c5, by rw [c6, x2, z2]⟩
    · have hne : s.np + i ≠ s.np + k := by omega
      obtain ⟨x1, z1⟩ := c7 (s.np + i) (by omega) hne
      obtain ⟨x2, z2⟩ := inv.done i (by omega)
      exact ⟨x1.trans x2, z1.trans z2⟩

/-! ### step 2: the CNOTs onto the target emitter clear every other `Z` -/

/-- state of row `g` while the emitter CNOTs with controls `l` are still to be applied -/
structure CInv (s : St) (g e : Nat) (l : List Nat) (a : St) : Prop where
  np_eq : a.np = s.np
  ne_eq : a.ne = s.ne
  n_eq : a.t.n = s.t.n
  ip_eq : (a.t.row g).ip = false
  xs : ∀ j, j < s.t.n → (a.t.row g).x j = false
  phot : ∀ j, j < s.np → (a.t.row g).z j = false
  ze : (a.t.row g).z (s.np + e) = true
  sup : ∀ c, c < s.ne → c ≠ e → (a.t.row g).z (s.np + c) = true → c ∈ l
  mem : ∀ c, c ∈ l → c < s.ne ∧ c ≠ e ∧ (a.t.row g).z (s.np + c) = true
  nodup : l.Nodup

theorem addEmitterCnot_step (s : St) (g e : Nat) (hn : s.t.n = s.np + s.ne) (hg : g < s.t.n) (he : e < s.ne)
    (c : Nat) (rest : List Nat) (a : St) (inv : CInv s g e (c :: rest) a) :
    CInv s g e rest (addEmitterCnot a c e) := by
  obtain ⟨hc, hce, hcz⟩ := inv.mem c (List.mem_cons_self ..)
  have hg' : g < a.t.n := by rw [inv.n_eq]; exact hg
  have hnd := List.nodup_cons.mp inv.nodup
  have hX : ∀ j, j < s.t.n → ((addEmitterCnot a c e).t.row g).x j = false := by
    intro j hj
    show ((a.gate (.CNOT (a.np + c) (a.np + e))).t.row g).x j = false
    rw [gateCNOT_x a _ _ g j hg' (by rw [inv.n_eq]; exact hj), inv.np_eq, inv.xs j hj, inv.xs (s.np + c) (by omega)]
    simp
  have hZ : ∀ j, j < s.t.n → ((addEmitterCnot a c e).t.row g).z j =
      if j = s.np + c then false else (a.t.row g).z j := by
    intro j hj
    show ((a.gate (.CNOT (a.np + c) (a.np + e))).t.row g).z j = _
    rw [gateCNOT_z a _ _ g j hg' (by rw [inv.n_eq]; exact hj), inv.np_eq, inv.ze]
    by_cases hjc : j = s.np + c
    · subst hjc; simp [hcz]
    · simp [hjc]
  refine ⟨inv.np_eq, inv.ne_eq, inv.n_eq, ?_, hX, ?_, ?_, ?_, ?_, hnd.2⟩
  · show ((a.gate (.CNOT (a.np + c) (a.np + e))).t.row g).ip = false
    rw [gate_ip a _ g hg']; exact inv.ip_eq
  · intro j hj
    rw [hZ j (by omega), if_neg (by omega)]; exact inv.phot j hj
  · rw [hZ _ (by omega), if_neg (by omega)]; exact inv.ze
  · intro c' hc' hc'e hz
    rw [hZ _ (by omega)] at hz
    by_cases hcc : c' = c
    · subst hcc; simp at hz
    · rw [if_neg (by omega)] at hz
      have := inv.sup c' hc' hc'e hz
      rcases List.mem_cons.mp this with h | h
      · exact absurd h hcc
      · exact h
  · intro c' hc'
    obtain ⟨m1, m2, m3⟩ := inv.mem c' (List.mem_cons_of_mem _ hc')
    have hcc : c' ≠ c := fun h => hnd.1 (h ▸ hc')
    refine ⟨m1, m2, ?_⟩
    rw [hZ _ (by omega), if_neg (by omega)]; exact m3

/-- with no controls left, row `g` has exactly the bits of `Z` on the target emitter -/
theorem cinv_nil_bits (s : St) (g e : Nat) (hn : s.t.n = s.np + s.ne) (a : St) (inv : CInv s g e [] a) :
    PRow.SameBits s.t.n (a.t.row g) (PRow.Zq (s.np + e)) := by
  intro j hj
  refine ⟨inv.xs j hj, ?_⟩
  show (a.t.row g).z j = decide (j = s.np + e)
  by_cases hje : j = s.np + e
  · subst hje; simp [inv.ze]
  · simp only [hje, decide_false]
    by_cases hjp : j < s.np
    · exact inv.phot j hjp
    · cases hz : (a.t.row g).z j with
      | false => rfl
      | true =>
        have hj' : j = s.np + (j - s.np) := by omega
        rw [hj'] at hz
        have := inv.sup (j - s.np) (by omega) (by omega) hz
        simp at this

/-- `_transform_generator_emitters` on a row that is `Z`/`I` on every column, trivial on the photons and `Z` on the target -/
theorem transformGeneratorEmitters_row (s s2 : St) (g e : Nat) (hn : s.t.n = s.np + s.ne) (hg : g < s.t.n) (he : e < s.ne)
    (hip : (s.t.row g).ip = false) (hx : ∀ j, j < s.t.n → (s.t.row g).x j = false)
    (hphot : ∀ j, j < s.np → (s.t.row g).z j = false) (hze : (s.t.row g).z (s.np + e) = true)
    (h : transformGeneratorEmitters s g e = .ok s2) : CInv s g e [] s2 := by
  unfold transformGeneratorEmitters at h
  split at h
  · next h1 =>
    injection h with h; rw [← h]
    refine ⟨rfl, rfl, rfl, hip, hx, hphot, hze, ?_, ?_, List.nodup_nil⟩
    · intro c hc hce _; omega
    · intro c hc; simp at hc
  · split at h
    · cases h
    · injection h with h; rw [← h]
      apply foldl_rest_inv _ (fun l a => CInv s g e l a) (fun c rest a inv => addEmitterCnot_step s g e hn hg he c rest a inv)
      refine ⟨rfl, rfl, rfl, hip, hx, hphot, hze, ?_, ?_, ?_⟩
      · intro c hc hce hz
        simp only [List.mem_filter, List.mem_range, decide_eq_true_eq]
        exact ⟨⟨hc, hz⟩, hce⟩
      · intro c hc
        simp only [List.mem_filter, List.mem_range, decide_eq_true_eq] at hc
        exact ⟨hc.1.1, hc.2, hc.1.2⟩
      · exact (List.nodup_range.filter _).filter _

/-! ### step 3: the sign -/

/-- `fixSign` on a row with a `Z` on the emitter: bits unchanged, sign cleared -/
theorem fixSign_row (s s3 : St) (g e : Nat) (hg : g < s.t.n)
    (hze : (s.t.row g).z (s.np + e) = true) (h : fixSign s g e = .ok s3) :
    PRow.SameBits s.t.n (s3.t.row g) (s.t.row g) ∧ (s3.t.row g).r = false ∧ (s3.t.row g).ip = (s.t.row g).ip ∧
    s3.t.n = s.t.n ∧ s3.np = s.np ∧ s3.ne = s.ne := by
  unfold fixSign at h
  split at h
  · next hr =>
    obtain ⟨e1, e2, e3⟩ := addOneQubit_t _ s3 _ _ h
    rw [e1]
    refine ⟨fun j hj => ⟨gateX_x s _ g j hg hj, gateX_z s _ g j hg hj⟩, ?_, gate_ip s _ g hg, rfl, e2, e3⟩
    rw [gateX_r s _ g hg, hr, hze]; rfl
  · next hr =>
    injection h with h; rw [← h]
    exact ⟨fun j _ => ⟨rfl, rfl⟩, by simpa using hr, rfl, rfl, rfl, rfl⟩

/-! ### the pipeline -/

/-- the single-out pipeline of the time-reversed measurement turns row `g` into `+Z_e` -/
theorem singleOut_row (s s1 s2 s3 : St) (g e : Nat)
    (hn : s.t.n = s.np + s.ne) (hg : g < s.t.n) (hreal : (s.t.row g).ip = false)
    (hphot : ∀ j, j < s.np → (s.t.row g).x j = false ∧ (s.t.row g).z j = false)
    (he : e ∈ emitterIndices s g)
    (h1 : allEmittersToZ s g true = .ok s1) (h2 : transformGeneratorEmitters s1 g e = .ok s2)
    (h3 : fixSign s2 g e = .ok s3) :
    PRow.EqOn (s.np + s.ne) (s3.t.row g) (PRow.Zq (s.np + e)) ∧
    s3.t.n = s.t.n ∧ s3.np = s.np ∧ s3.ne = s.ne := by
  simp only [emitterIndices, List.mem_filter, List.mem_range] at he
  obtain ⟨hene, hnt⟩ := he
  -- step 1
  have z1 := allEmittersToZ_row s s1 g true hn hg h1
  have hn1 : s1.t.n = s1.np + s1.ne := by rw [z1.n_eq, z1.np_eq, z1.ne_eq]; exact hn
  have hg1 : g < s1.t.n := by rw [z1.n_eq]; exact hg
  have hx1 : ∀ j, j < s1.t.n → (s1.t.row g).x j = false := by
    intro j hj
    rw [z1.n_eq] at hj
    by_cases hjp : j < s.np
    · rw [(z1.rest j hj (Or.inl hjp)).1]; exact (hphot j hjp).1
    · have hj' : j = s.np + (j - s.np) := by omega
      rw [hj']; exact (z1.done (j - s.np) (by omega)).1
  have hp1 : ∀ j, j < s1.np → (s1.t.row g).z j = false := by
    intro j hj
    rw [z1.np_eq] at hj
    rw [(z1.rest j (by omega) (Or.inl hj)).2]; exact (hphot j hj).2
  have hz1 : (s1.t.row g).z (s1.np + e) = true := by
    rw [z1.np_eq, (z1.done e hene).2]; exact hnt
  -- step 2
  have c2 := transformGeneratorEmitters_row s1 s2 g e hn1 hg1 (by rw [z1.ne_eq]; exact hene)
    (z1.ip_eq.trans hreal) hx1 hp1 hz1 h2
  have b2 := cinv_nil_bits s1 g e hn1 s2 c2
  -- step 3
  have hg2 : g < s2.t.n := by rw [c2.n_eq]; exact hg1
  have hze2 : (s2.t.row g).z (s2.np + e) = true := by rw [c2.np_eq]; exact c2.ze
  obtain ⟨f1, f2, f3, f4, f5, f6⟩ := fixSign_row s2 s3 g e hg2 hze2 h3
  refine ⟨⟨fun j hj => ?_, f2, f3.trans c2.ip_eq⟩, (f4.trans c2.n_eq).trans z1.n_eq,
    (f5.trans c2.np_eq).trans z1.np_eq, (f6.trans c2.ne_eq).trans z1.ne_eq⟩
  have hj2 : j < s2.t.n := by rw [c2.n_eq, z1.n_eq, hn]; exact hj
  have hj1 : j < s1.t.n := by rw [z1.n_eq, hn]; exact hj
  obtain ⟨a1, a2⟩ := f1 j hj2
  obtain ⟨b1, b2'⟩ := b2 j hj1
  rw [z1.np_eq] at b1 b2'
  exact ⟨a1.trans b1, a2.trans b2'⟩

end Graphiq.Solver
