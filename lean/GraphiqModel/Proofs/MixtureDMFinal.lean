/-
  Proofs/MixtureDMFinal.lean — C06 (c) for the executable models, every circuit and every number of qubits:

  * `compileDM_toC` : for a measurement-free circuit on existing qubits, whenever `DensityMatrixCompiler.compile` (the exact
    model `compileDM`: `Mat` over ℚ[i], `hermitianize` and tabulation as coded) returns, its matrix is the Hilbert-space run
    `runH` of the placement trace on `|0…0⟩⟨0…0|`, and stays Hermitian;
  * `placeOp_backend`, `traceGo_backend` : on such circuits both backends produce the same placement trace;
  * `dm_equals_mixture` : the density-matrix result equals `mixtureDensity` of the stabilizer backend's mixture, entry by entry.
-/
import GraphiqModel.Proofs.MixtureDMBridgeStab
namespace Graphiq
namespace MixDM
open Matrix Hilbert Noise DM

/-! ### the placement trace does not depend on the backend (measurement-free operations) -/

theorem addl_backend (np : Nat) (op : COp) (k : Nat) (a b : NoiseM) (hf : MFree op) :
    addl .dm np op k a b = addl .stab np op k a b := by
  unfold addl
  rcases hf with hf | hf
  · rw [if_pos hf, if_pos hf]
  · have ho : op.kind.isOneQubit = false := by
      cases h : op.kind.isOneQubit with
      | false => rfl
      | true => exact absurd ⟨h, hf⟩ (kind_excl _)
    simp only [ho, hf, Bool.false_eq_true, if_false, if_true]

theorem placeOp_backend (ns : Bool) (np : Nat) (op : COp) (k : Nat) (hf : MFree op) :
    placeOp ns .dm np op k = placeOp ns .stab np op k := by
  unfold placeOp
  simp only [addl_backend np op k _ _ hf]

theorem traceGo_backend (ns : Bool) (np : Nat) : ∀ (ops : List COp) (k : Nat), (∀ op ∈ ops, MFree op) →
    traceGo ns .dm np ops k = traceGo ns .stab np ops k
  | [], _, _ => rfl
  | op :: rest, k, h => by
    simp only [traceGo]
    rw [placeOp_backend ns np op k (h op List.mem_cons_self),
      traceGo_backend ns np rest (k + 1) (fun o ho => h o (List.mem_cons_of_mem _ ho))]

/-! ### the density-matrix compile loop -/

/-- side condition of an action on the density-matrix side (the gate's qubits must exist: the DM code has no `assert`) -/
def ActOKd (n np : Nat) (arr : Array COp) : Act → Prop
  | .gate k => ∀ op, arr[k]? = some op → MFree op ∧ OpWF n np op
  | .noise _ _ q _ => q < n
  | .replace _ => True

theorem actH_herm (np n : Nat) (arr : Array COp) (a : Act) (R : HMat n) (h : Rᴴ = R) :
    (actH np n arr a R)ᴴ = actH np n arr a R := by
  cases a with
  | gate k => exact gateH_herm np n _ R h
  | noise k side q nm => exact noiseH_herm n nm q R h
  | replace k => exact h

theorem dmAct_toC (np n : Nat) (det : Bool) (arr : Array COp) (s s' : DmSt) (a : Act) (ha : ActOKd n np arr a)
    (ρ : Mat) (hs : s.ρ = some ρ) (hρ : ρ.n = 2 ^ n) (hh : (toC n ρ)ᴴ = toC n ρ)
    (h : dmAct np n det arr s a = .ok s') :
    ∃ ρ', s'.ρ = some ρ' ∧ toC n ρ' = actH np n arr a (toC n ρ) ∧ ρ'.n = 2 ^ n := by
  cases a with
  | gate k =>
    simp only [dmAct] at h
    show ∃ ρ', s'.ρ = some ρ' ∧ toC n ρ' = gateH np n (arr.getD k { kind := .identity }) (toC n ρ) ∧ _
    cases hk : arr[k]? with
    | none =>
      have e : arr.getD k { kind := .identity } = { kind := .identity } := by
        simp [Array.getD, Array.getElem?_eq_none_iff.1 hk |> Nat.not_lt.2]
      rw [e] at h ⊢
      simp only [dmGate, hs] at h
      injection h with h; subst h
      exact ⟨ρ, hs, (conjH_one _).symm, hρ⟩
    | some op =>
      have e : arr.getD k { kind := .identity } = op := by
        have hlt : k < arr.size := by
          rcases Nat.lt_or_ge k arr.size with h' | h'
          · exact h'
          · rw [Array.getElem?_eq_none_iff.2 h'] at hk; cases hk
        simp [Array.getD, hlt]
        have := Array.getElem?_eq_getElem hlt
        rw [this] at hk; injection hk
      rw [e] at h ⊢
      exact dmGate_toC np n det op (ha op hk).1 (ha op hk).2 s s' ρ hs hρ hh h
  | noise k side q nm =>
    simp only [dmAct, hs] at h
    cases hn : DMx.applyNoise n nm q ρ with
    | error e => rw [hn] at h; cases h
    | ok r =>
      rw [hn] at h; injection h with h; subst h
      obtain ⟨e, hr⟩ := dmNoise_toC n q ha nm ρ r hρ hh hn
      exact ⟨r, rfl, e, hr⟩
  | replace k => simp [dmAct] at h

theorem runDmActs_toC (np n : Nat) (det : Bool) (arr : Array COp) :
    ∀ (acts : List Act) (s s' : DmSt) (ρ : Mat), (∀ a ∈ acts, ActOKd n np arr a) → s.ρ = some ρ → ρ.n = 2 ^ n →
      (toC n ρ)ᴴ = toC n ρ → runDmActs np n det arr acts s = .ok s' →
      ∃ ρ', s'.ρ = some ρ' ∧ toC n ρ' = runH np n arr acts (toC n ρ) ∧ ρ'.n = 2 ^ n ∧ (toC n ρ')ᴴ = toC n ρ'
  | [], s, s', ρ, _, hs, hρ, hh, h => by
    simp [runDmActs] at h; subst h; exact ⟨ρ, hs, rfl, hρ, hh⟩
  | a :: as, s, s', ρ, hw, hs, hρ, hh, h => by
    simp only [runDmActs] at h
    cases ha : dmAct np n det arr s a with
    | error e => rw [ha] at h; cases h
    | ok s1 =>
      rw [ha] at h
      obtain ⟨ρ1, hs1, e1, n1⟩ := dmAct_toC np n det arr s s1 a (hw a List.mem_cons_self) ρ hs hρ hh ha
      have hh1 : (toC n ρ1)ᴴ = toC n ρ1 := by rw [e1]; exact actH_herm np n arr a _ hh
      obtain ⟨ρ2, hs2, e2, n2, hh2⟩ := runDmActs_toC np n det arr as s1 s' ρ1
        (fun b hb => hw b (List.mem_cons_of_mem _ hb)) hs1 n1 hh1 h
      exact ⟨ρ2, hs2, by rw [e2, e1]; rfl, n2, hh2⟩

theorem good_to_okd (n np k : Nat) (arr : Array COp) (harr : ∀ (j : Nat) (op : COp), arr[j]? = some op → OpOK n np op)
    (a : Act) (h : GoodAct' n k a) : ActOKd n np arr a := by
  rcases h with h | h | ⟨side, q, nm, h, hq, _⟩
  · subst h; intro op hop; exact ⟨(harr k op hop).mfree, (harr k op hop).wf⟩
  · subst h; trivial
  · subst h; exact hq

theorem dmGo_toC (ns : Bool) (np n : Nat) (det : Bool) (arr : Array COp)
    (harr : ∀ (j : Nat) (op : COp), arr[j]? = some op → OpOK n np op) :
    ∀ (ops : List COp) (k : Nat) (s s' : DmSt) (ρ : Mat), (∀ op ∈ ops, OpOK n np op) → s.ρ = some ρ → ρ.n = 2 ^ n →
      (toC n ρ)ᴴ = toC n ρ → dmGo ns np n det arr ops k s = .ok s' →
      ∃ tr, traceGo ns .dm np ops k = .ok tr ∧
        ∃ ρ', s'.ρ = some ρ' ∧ toC n ρ' = runH np n arr tr (toC n ρ) ∧ ρ'.n = 2 ^ n ∧ (toC n ρ')ᴴ = toC n ρ'
  | [], k, s, s', ρ, _, hs, hρ, hh, h => by
    simp [dmGo] at h; subst h; exact ⟨[], rfl, ρ, hs, rfl, hρ, hh⟩
  | op :: rest, k, s, s', ρ, hw, hs, hρ, hh, h => by
    simp only [dmGo] at h
    cases hp : placeOp ns .dm np op k with
    | error e => rw [hp] at h; cases h
    | ok acts =>
      rw [hp] at h; simp only at h
      cases hr : runDmActs np n det arr acts s with
      | error e => rw [hr] at h; cases h
      | ok s1 =>
        rw [hr] at h; simp only at h
        have ho := hw op List.mem_cons_self
        have hg := placeOp_good' n np ns .dm op k ho.wf ho.p0 ho.p1 acts hp
        obtain ⟨ρ1, hs1, e1, n1, hh1⟩ := runDmActs_toC np n det arr acts s s1 ρ
          (fun a ha => good_to_okd n np k arr harr a (hg a ha)) hs hρ hh hr
        obtain ⟨tr, htr, ρ2, hs2, e2, n2, hh2⟩ := dmGo_toC ns np n det arr harr rest (k + 1) s1 s' ρ1
          (fun o ho => hw o (List.mem_cons_of_mem _ ho)) hs1 n1 hh1 h
        refine ⟨acts ++ tr, ?_, ρ2, hs2, ?_, n2, hh2⟩
        · simp only [traceGo, hp, htr]
        · rw [e2, e1, runH_append]

/-- the initial matrix of the density-matrix compiler is `|0…0⟩⟨0…0|` -/
theorem toC_rho0 (n : Nat) :
    toC n (⟨pow2 n, fun i j => if i = 0 ∧ j = 0 then 1 else 0⟩ : Mat).norm = rho0 n := by
  rw [toC_norm n _ rfl]
  ext a b
  rw [toC_apply]
  show gqC (if idx a = 0 ∧ idx b = 0 then 1 else 0) = rho n (STab.zero n) a b
  rw [rho_zero]
  by_cases h : a = (fun _ => false) ∧ b = (fun _ => false)
  · rw [if_pos h, if_pos ⟨(idx_eq_zero a).2 h.1, (idx_eq_zero b).2 h.2⟩]; exact gqC_one
  · rw [if_neg h, if_neg (fun h' => h ⟨(idx_eq_zero a).1 h'.1, (idx_eq_zero b).1 h'.2⟩)]; exact gqC_zero

theorem rho0_herm (n : Nat) : (rho0 n)ᴴ = rho0 n := by
  ext a b
  rw [Matrix.conjTranspose_apply]
  show star (rho n (STab.zero n) b a) = rho n (STab.zero n) a b
  rw [rho_zero, rho_zero]
  by_cases h : a = (fun _ => false) ∧ b = (fun _ => false)
  · rw [if_pos h, if_pos ⟨h.2, h.1⟩]; simp
  · rw [if_neg h, if_neg (fun h' => h ⟨h'.2, h'.1⟩)]; simp

/-- **the density-matrix compile is the Hilbert-space run of its placement trace** (measurement-free circuits, all n) -/
theorem compileDM_toC (ns : Bool) (ne np nc : Nat) (det : Bool) (ops : List COp)
    (hw : ∀ op ∈ ops, OpOK (ne + np) np op) (d : DmSt) (h : compileDM ns ne np nc det ops = .ok d) :
    ∃ tr, compileTrace ns .dm np ops = .ok tr ∧
      ∃ ρ, d.ρ = some ρ ∧ toC (ne + np) ρ = runH np (ne + np) ops.toArray tr (rho0 (ne + np)) ∧ ρ.n = 2 ^ (ne + np) ∧
        (toC (ne + np) ρ)ᴴ = toC (ne + np) ρ := by
  unfold compileDM at h
  have e0 := toC_rho0 (ne + np)
  obtain ⟨tr, htr, ρ, hs, e, hn, hh⟩ := dmGo_toC ns np (ne + np) det ops.toArray (by
      intro j op hop
      apply hw
      have : op ∈ ops.toArray := Array.mem_of_getElem? hop
      simpa using this) ops 0 _ d _ hw rfl rfl (by rw [e0]; exact rho0_herm _) h
  exact ⟨tr, htr, ρ, hs, by rw [e, e0], hn, hh⟩

/-! ### the two backends agree -/

/-- **C06 (c), executable models, every circuit and every number of qubits.**  For a measurement-free circuit on existing
    qubits with depolarizing probabilities in `[0,1]`: if both compilers return, the density-matrix backend's matrix equals
    `Σ_k w_k ρ(T_k)` of the stabilizer backend's mixture, entry by entry (exact arithmetic over ℚ[i]). -/
theorem dm_equals_mixture (ns : Bool) (ne np nc : Nat) (det : Bool) (ops : List COp)
    (hw : ∀ op ∈ ops, OpOK (ne + np) np op) (s : StabSt) (d : DmSt) (ρ : Mat)
    (hs : compileStab ns ne np nc det ops = .ok s) (hd : compileDM ns ne np nc det ops = .ok d) (hρ : d.ρ = some ρ) :
    Mat.EqOn ρ (mixtureDensity (ne + np) s.mix) := by
  obtain ⟨tr1, ht1, e1, m1⟩ := compileStab_mixRho ns ne np nc det ops hw s hs
  obtain ⟨tr2, ht2, ρ', hρ', e2, n2, _⟩ := compileDM_toC ns ne np nc det ops hw d hd
  rw [hρ] at hρ'
  injection hρ' with hρ'
  subst hρ'
  have htr : tr1 = tr2 := by
    unfold compileTrace at ht1 ht2
    rw [traceGo_backend ns np ops 0 (fun op ho => (hw op ho).mfree), ht1] at ht2
    injection ht2
  subst htr
  obtain ⟨e3, n3⟩ := toC_mixtureDensity (ne + np) s.mix m1
  exact toC_inj (ne + np) _ _ n2 n3 (by rw [e2, e3, e1])

end MixDM
end Graphiq
