/-
  Proofs/DMSem.lean — lemmas about the density-matrix model (C17, C06).

  Part 1 (core Lean only): the string construction of `partial_trace` fed to the mini-`einsum` yields the textbook
  reduced state, for every list of dimensions (≤ 26 spaces, the limit of `string.ascii_lowercase`) and every subset.
-/
import GraphiqModel.Model.DMSem
namespace Graphiq.DM
open List

theorem lookup_append' {α β : Type} [BEq α] (l1 l2 : List (α × β)) (k : α) :
    (l1 ++ l2).lookup k = match l1.lookup k with | some v => some v | none => l2.lookup k := by
  induction l1 with
  | nil => simp [List.lookup]
  | cons h t ih =>
    obtain ⟨a, b⟩ := h
    simp only [List.cons_append, List.lookup]
    cases hk : (k == a) with
    | true => simp
    | false => simpa using ih

theorem lookup_zip_map_mem (f : Nat → Letter) (hf : ∀ a b, f a = f b → a = b) :
    ∀ (ks vs : List Nat) (i : Nat), i ∈ ks → ks.length ≤ vs.length →
      ((ks.map f).zip vs).lookup (f i) = some (vs.getD (ks.idxOf i) 0)
  | [], _, i, h, _ => by cases h
  | k :: ks', [], i, _, hl => by simp at hl
  | k :: ks', v :: vs', i, h, hl => by
    by_cases e : i = k
    · subst e; simp [List.lookup]
    · have hne : (f i == f k) = false := by
        simp only [beq_eq_false_iff_ne, ne_eq]; intro h'; exact e (hf _ _ h')
      have hm : i ∈ ks' := by
        cases h with
        | head => exact absurd rfl e
        | tail _ h => exact h
      have := lookup_zip_map_mem f hf ks' vs' i hm (by simpa using hl)
      simp only [List.map_cons, List.zip_cons_cons, List.lookup, hne]
      rw [this]
      have : (k :: ks').idxOf i = ks'.idxOf i + 1 := by
        have hk : (k == i) = false := by simp only [beq_eq_false_iff_ne, ne_eq]; exact fun h' => e h'.symm
        simp [List.idxOf_cons, hk]
      rw [this]; simp

theorem lookup_zip_map_not (f : Nat → Letter) (l : Letter) :
    ∀ (ks vs : List Nat), (∀ k ∈ ks, f k ≠ l) → ((ks.map f).zip vs).lookup l = none
  | [], _, _ => by simp [List.lookup]
  | k :: ks', [], _ => by simp [List.lookup]
  | k :: ks', v :: vs', h => by
    have hne : (l == f k) = false := by
      simp only [beq_eq_false_iff_ne, ne_eq]; intro h'; exact h k (by simp) h'.symm
    simp only [List.map_cons, List.zip_cons_cons, List.lookup, hne]
    exact lookup_zip_map_not f l ks' vs' (fun k hk => h k (by simp [hk]))


theorem lo_inj : ∀ a b, Letter.lo a = Letter.lo b → a = b := by intro a b h; cases h; rfl
theorem up_inj : ∀ a b, Letter.up a = Letter.up b → a = b := by intro a b h; cases h; rfl

theorem mem_keptPos (n : Nat) (keep : List Nat) (i : Nat) : i ∈ keptPos n keep ↔ i < n ∧ i ∈ keep := by
  simp [keptPos]
theorem mem_tracedPos (n : Nat) (keep : List Nat) (i : Nat) : i ∈ tracedPos n keep ↔ i < n ∧ i ∉ keep := by
  simp [tracedPos]

theorem multiIdx_length : ∀ (ds : List Nat) (s : List Nat), s ∈ multiIdx ds → s.length = ds.length
  | [], s, h => by simp [multiIdx] at h; simp [h]
  | d :: ds, s, h => by
    simp only [multiIdx, List.mem_flatMap, List.mem_range, List.mem_map] at h
    obtain ⟨i, _, t, ht, rfl⟩ := h
    simp [multiIdx_length ds t ht]

theorem unflat_length : ∀ (ds : List Nat) (k : Nat), (unflat ds k).length = ds.length
  | [], _ => rfl
  | _ :: ds, k => by simp [unflat, unflat_length ds]

/-- the environment that `einsum` builds for `partial_trace` reads back exactly the merged multi-indices -/
theorem env_get_lo (n : Nat) (keep a a' s : List Nat) (ha : a.length = (keptPos n keep).length)
    (hs : (tracedPos n keep).length ≤ s.length) (i : Nat) (hi : i < n) :
    Env.get ((ssright n keep).zip (a ++ a') ++ ((tracedPos n keep).map Letter.lo).zip s) (Letter.lo i) =
      if keep.contains i then a.getD ((keptPos n keep).idxOf i) 0 else s.getD ((tracedPos n keep).idxOf i) 0 := by
  unfold Env.get ssright
  have hz : (List.map Letter.lo (keptPos n keep) ++ List.map Letter.up (keptPos n keep)).zip (a ++ a') =
      ((keptPos n keep).map Letter.lo).zip a ++ ((keptPos n keep).map Letter.up).zip a' := by
    apply List.zip_append; simp [ha]
  show ((List.lookup (Letter.lo i) ((List.map Letter.lo (keptPos n keep) ++ List.map Letter.up (keptPos n keep)).zip (a ++ a') ++ _))).getD 0 = _
  rw [hz, List.append_assoc, lookup_append']
  by_cases hk : i ∈ keep
  · have hm : i ∈ keptPos n keep := (mem_keptPos n keep i).2 ⟨hi, hk⟩
    rw [lookup_zip_map_mem Letter.lo lo_inj _ _ i hm (by omega)]
    simp [hk]
  · have h1 : List.lookup (Letter.lo i) (((keptPos n keep).map Letter.lo).zip a) = none := by
      apply lookup_zip_map_not
      intro k hk' h'; cases h'
      exact hk ((mem_keptPos n keep i).1 hk').2
    have h2 : List.lookup (Letter.lo i) (((keptPos n keep).map Letter.up).zip a') = none := by
      apply lookup_zip_map_not
      intro k _ h'; cases h'
    have hm : i ∈ tracedPos n keep := (mem_tracedPos n keep i).2 ⟨hi, hk⟩
    rw [h1]; simp only
    rw [lookup_append', h2]; simp only
    rw [lookup_zip_map_mem Letter.lo lo_inj _ _ i hm hs]
    simp [hk]

theorem env_get_up (n : Nat) (keep a a' s : List Nat) (ha : a.length = (keptPos n keep).length)
    (ha' : (keptPos n keep).length ≤ a'.length) (i : Nat) (hi : i < n) (hk : i ∈ keep) :
    Env.get ((ssright n keep).zip (a ++ a') ++ ((tracedPos n keep).map Letter.lo).zip s) (Letter.up i) =
      a'.getD ((keptPos n keep).idxOf i) 0 := by
  unfold Env.get ssright
  have hz : (List.map Letter.lo (keptPos n keep) ++ List.map Letter.up (keptPos n keep)).zip (a ++ a') =
      ((keptPos n keep).map Letter.lo).zip a ++ ((keptPos n keep).map Letter.up).zip a' := by
    apply List.zip_append; simp [ha]
  show ((List.lookup (Letter.up i) ((List.map Letter.lo (keptPos n keep) ++ List.map Letter.up (keptPos n keep)).zip (a ++ a') ++ _))).getD 0 = _
  rw [hz, List.append_assoc, lookup_append']
  have h1 : List.lookup (Letter.up i) (((keptPos n keep).map Letter.lo).zip a) = none := by
    apply lookup_zip_map_not
    intro k _ h'; cases h'
  have hm : i ∈ keptPos n keep := (mem_keptPos n keep i).2 ⟨hi, hk⟩
  rw [h1]; simp only
  rw [lookup_append', lookup_zip_map_mem Letter.up up_inj _ _ i hm ha']
  simp


theorem range_filter_lt (p : Nat → Bool) (n : Nat) : ∀ m, n ≤ m →
    (List.range m).filter (fun i => decide (i < n) && p i) = (List.range n).filter p := by
  intro m
  induction m with
  | zero => intro h; have : n = 0 := by omega
            subst this; simp
  | succ m ih =>
    intro h
    by_cases e : n = m + 1
    · subst e
      apply List.filter_congr
      intro i hi
      have : i < m + 1 := List.mem_range.1 hi
      simp [this]
    · have hle : n ≤ m := by omega
      rw [List.range_succ, List.filter_append, ih hle]
      have : ¬ m < n := by omega
      simp [this]

theorem mem_ssleft_lo (n : Nat) (keep : List Nat) (i : Nat) : Letter.lo i ∈ ssleft n keep ↔ i < n := by
  unfold ssleft
  simp only [List.mem_append, List.mem_map, List.mem_range]
  constructor
  · rintro (⟨j, hj, h⟩ | ⟨j, hj, h⟩)
    · cases h; exact hj
    · split at h
      · cases h
      · cases h; exact hj
  · intro h; exact Or.inl ⟨i, h, rfl⟩

theorem mem_ssleft_up (n : Nat) (keep : List Nat) (i : Nat) : Letter.up i ∈ ssleft n keep ↔ i < n ∧ i ∈ keep := by
  unfold ssleft
  simp only [List.mem_append, List.mem_map, List.mem_range]
  constructor
  · rintro (⟨j, hj, h⟩ | ⟨j, hj, h⟩)
    · cases h
    · split at h
      · rename_i hc; cases h; exact ⟨hj, by simpa using hc⟩
      · cases h
  · rintro ⟨h, hk⟩
    refine Or.inr ⟨i, h, ?_⟩
    simp [hk]

theorem mem_ssright_lo (n : Nat) (keep : List Nat) (i : Nat) : Letter.lo i ∈ ssright n keep ↔ i < n ∧ i ∈ keep := by
  unfold ssright
  simp only [List.mem_append, List.mem_map, List.mem_filter, List.mem_range]
  constructor
  · rintro (⟨j, ⟨hj, hc⟩, h⟩ | ⟨j, _, h⟩)
    · cases h; exact ⟨hj, by simpa using hc⟩
    · cases h
  · rintro ⟨h, hk⟩; exact Or.inl ⟨i, ⟨h, by simpa using hk⟩, rfl⟩

theorem mem_ssright_up (n : Nat) (keep : List Nat) (i : Nat) : Letter.up i ∈ ssright n keep ↔ i < n ∧ i ∈ keep := by
  unfold ssright
  simp only [List.mem_append, List.mem_map, List.mem_filter, List.mem_range]
  constructor
  · rintro (⟨j, _, h⟩ | ⟨j, ⟨hj, hc⟩, h⟩)
    · cases h
    · cases h; exact ⟨hj, by simpa using hc⟩
  · rintro ⟨h, hk⟩; exact Or.inr ⟨i, ⟨h, by simpa using hk⟩, rfl⟩

/-- the letters `einsum` sums over for the string of `partial_trace`: exactly the lowercase letters of the traced
    positions, each once -/
theorem summedLetters_partialTrace (n : Nat) (keep : List Nat) (hn : n ≤ 26) :
    summedLetters (ssleft n keep) (ssright n keep) = (tracedPos n keep).map Letter.lo := by
  unfold summedLetters alphabet
  rw [List.filter_append, List.filter_map, List.filter_map]
  have h1 : (List.range 26).filter ((fun l => (ssleft n keep).contains l && !(ssright n keep).contains l) ∘ Letter.lo)
      = tracedPos n keep := by
    unfold tracedPos
    rw [← range_filter_lt (fun i => !keep.contains i) n 26 hn]
    apply List.filter_congr
    intro i _
    simp only [Function.comp, List.contains_eq_mem]
    by_cases h : i < n <;> by_cases hk : i ∈ keep <;>
      simp [mem_ssleft_lo, mem_ssright_lo, h, hk]
  have h2 : (List.range 26).filter ((fun l => (ssleft n keep).contains l && !(ssright n keep).contains l) ∘ Letter.up)
      = [] := by
    rw [List.filter_eq_nil_iff]
    intro i _
    simp only [Function.comp, List.contains_eq_mem]
    by_cases h : i < n <;> by_cases hk : i ∈ keep <;>
      simp [mem_ssleft_up, mem_ssright_up, h, hk]
  rw [h1, h2]; simp


theorem mergeIdx_length (n : Nat) (keep a b : List Nat) : (mergeIdx n keep a b).length = n := by
  simp [mergeIdx]

/-- what the letters of `ssleft` read from the environment: the two merged multi-indices, one after the other -/
theorem ssleft_map_env (n : Nat) (keep a a' s : List Nat) (ha : a.length = (keptPos n keep).length)
    (ha' : a'.length = (keptPos n keep).length) (hs : s.length = (tracedPos n keep).length) :
    (ssleft n keep).map (Env.get ((ssright n keep).zip (a ++ a') ++ ((tracedPos n keep).map Letter.lo).zip s)) =
      mergeIdx n keep a s ++ mergeIdx n keep a' s := by
  unfold ssleft mergeIdx
  rw [List.map_append, List.map_map, List.map_map]
  congr 1
  · apply List.map_congr_left
    intro i hi
    have hi' : i < n := List.mem_range.1 hi
    simp only [Function.comp]
    rw [env_get_lo n keep a a' s ha (by omega) i hi']
  · apply List.map_congr_left
    intro i hi
    have hi' : i < n := List.mem_range.1 hi
    simp only [Function.comp]
    by_cases hk : i ∈ keep
    · have hc : keep.contains i = true := by simpa using hk
      simp only [hc, if_true]
      rw [env_get_up n keep a a' s ha (by omega) i hi' hk]
    · have hc : keep.contains i = false := by simpa using hk
      simp only [hc, Bool.false_eq_true, if_false]
      rw [env_get_lo n keep a a' s ha (by omega) i hi']
      simp [hk]

theorem reshapeIn_append {α : Type} (ρ : Nat → Nat → α) (dims x y : List Nat) (hx : x.length = dims.length) :
    reshapeIn ρ dims (x ++ y) = ρ (flat dims x) (flat dims y) := by
  unfold reshapeIn
  rw [← hx]; simp

/-- **C17 (i), all dims, all subsets.**  The entry that the code's string construction + `einsum` computes is the
    textbook reduced-state entry `Σ_b ρ[(a,b),(a',b)]`. -/
theorem partialTraceEntry_eq_reduced {α : Type} [Add α] [Zero α] (ρ : Nat → Nat → α) (keep dims : List Nat)
    (hn : dims.length ≤ 26) (r c : Nat) :
    partialTraceEntry ssleft ρ keep dims r c = reducedEntry ρ keep dims r c := by
  unfold partialTraceEntry reducedEntry einsum
  simp only
  rw [summedLetters_partialTrace dims.length keep hn, List.map_map]
  have hd : (letterDim dims ∘ Letter.lo) = fun i => dims.getD i 0 := by
    funext i; simp [letterDim]
  rw [hd]
  congr 1
  apply List.map_congr_left
  intro s hs
  have hsl := multiIdx_length _ s hs
  rw [List.length_map] at hsl
  rw [ssleft_map_env dims.length keep _ _ s (by rw [unflat_length, List.length_map])
      (by rw [unflat_length, List.length_map]) hsl]
  rw [reshapeIn_append _ _ _ _ (mergeIdx_length _ _ _ _)]


theorem prodL_cons (d : Nat) (ds : List Nat) : prodL (d :: ds) = d * prodL ds := rfl

theorem flat_unflat : ∀ (ds : List Nat) (k : Nat), k < prodL ds → flat ds (unflat ds k) = k
  | [], k, h => by simp [prodL] at h; subst h; rfl
  | d :: ds, k, h => by
    simp only [unflat, flat]
    have hp : 0 < prodL ds := by
      rcases Nat.eq_zero_or_pos (prodL ds) with h0 | h0
      · rw [prodL_cons, h0] at h; simp at h
      · exact h0
    rw [flat_unflat ds (k % prodL ds) (Nat.mod_lt _ hp)]
    exact Nat.div_add_mod' k (prodL ds)

theorem partialTrace_ok (ρ : Mat) (keep dims : List Nat) (m : Mat) (h : partialTrace ρ keep dims = .ok m) :
    m.n = prodL ((keptPos dims.length keep).map fun i => dims.getD i 0) ∧
    ∀ r c, m.e r c = reducedEntry ρ.e keep dims r c := by
  unfold partialTrace at h
  simp only at h
  split at h; · cases h
  split at h; · cases h
  split at h; · cases h
  rename_i h26
  split at h; · cases h
  split at h; · cases h
  rename_i hnk
  injection h with h
  subst h
  refine ⟨by simpa using hnk, fun r c => ?_⟩
  exact partialTraceEntry_eq_reduced ρ.e keep dims (by omega) r c

theorem partialTrace_returns_iff (ρ : Mat) (keep dims : List Nat) :
    (∃ m, partialTrace ρ keep dims = .ok m) ↔
      keep ≠ [] ∧ (∀ k ∈ keep, k < dims.length) ∧ dims.length ≤ 26 ∧ ρ.n = prodL dims ∧
      prodL (keep.map fun i => dims.getD i 0) = prodL ((keptPos dims.length keep).map fun i => dims.getD i 0) := by
  unfold partialTrace
  simp only
  constructor
  · rintro ⟨m, h⟩
    split at h; · cases h
    rename_i h1
    split at h; · cases h
    rename_i h2
    split at h; · cases h
    rename_i h3
    split at h; · cases h
    rename_i h4
    split at h; · cases h
    rename_i h5
    refine ⟨by simpa using h1, ?_, by omega, by simpa using h4, by simpa using h5⟩
    intro k hk
    have := h2
    simp only [List.any_eq_true, decide_eq_true_eq, not_exists, not_and] at this
    have := this k hk
    omega
  · rintro ⟨h1, h2, h3, h4, h5⟩
    have e1 : keep.isEmpty = false := by cases keep <;> simp_all
    have e2 : (keep.any fun k => decide (dims.length ≤ k)) = false := by
      rw [List.any_eq_false]; intro k hk; have := h2 k hk; simp; omega
    have e3 : ¬ 26 < dims.length := by omega
    rw [e1, e2]
    simp only [Bool.false_eq_true, if_false, e3, h4, ne_eq, not_true_eq_false, h5]
    exact ⟨_, rfl⟩

end Graphiq.DM
