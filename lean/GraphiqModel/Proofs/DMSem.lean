/-
  Proofs/DMSem.lean — lemmas about the density-matrix model (C17, C06).

  Part 2 (Mathlib algebra): ℚ[i] is a commutative ring, `tr(ab) = tr(ba)`, hence `fidelity` is symmetric; the pure branch.

  Part 1 (core Lean only): the string construction of `partial_trace` fed to the mini-`einsum` yields the textbook
  reduced state, for every list of dimensions (≤ 26 spaces, the limit of `string.ascii_lowercase`) and every subset.
-/
import Mathlib.Tactic.Ring
import Mathlib.Tactic.Linarith
import Mathlib.Algebra.Order.Field.Rat
import Mathlib.Algebra.BigOperators.Group.Finset.Basic
import Mathlib.Algebra.BigOperators.Ring.Finset
import Mathlib.Algebra.BigOperators.Group.Finset.Sigma
import Mathlib.Data.Rat.Cast.Order
import Mathlib.Algebra.BigOperators.Fin
import Mathlib.Data.Real.Basic
import GraphiqModel.Model.DMSem
import GraphiqModel.Proofs.Commuting
namespace Graphiq.DM
open List

theorem lookup_append' {α β : Type} [BEq α] (l1 l2 : List (α × β)) (k : α) :
    (l1 ++ l2).lookup k = match l1.lookup k with | some v => some v | none => l2.lookup k := by
  induction l1 with
  | nil => simp [List.lookup]
  | cons h t ih =>
    obtain ⟨a, b⟩ := h
    simp only [List.cons_append, List.lookup]
    cases hk : (k == a) with
    | true => simp
    | false => simpa using ih

theorem lookup_zip_map_mem (f : Nat → Letter) (hf : ∀ a b, f a = f b → a = b) :
    ∀ (ks vs : List Nat) (i : Nat), i ∈ ks → ks.length ≤ vs.length →
      ((ks.map f).zip vs).lookup (f i) = some (vs.getD (ks.idxOf i) 0)
  | [], _, i, h, _ => by cases h
  | k :: ks', [], i, _, hl => by simp at hl
  | k :: ks', v :: vs', i, h, hl => by
    by_cases e : i = k
    · subst e; simp [List.lookup]
    · have hne : (f i == f k) = false := by
        simp only [beq_eq_false_iff_ne, ne_eq]; intro h'; exact e (hf _ _ h')
      have hm : i ∈ ks' := by
        cases h with
        | head => exact absurd rfl e
        | tail _ h => exact h
      have := lookup_zip_map_mem f hf ks' vs' i hm (by simpa using hl)
      simp only [List.map_cons, List.zip_cons_cons, List.lookup, hne]
      rw [this]
      have : (k :: ks').idxOf i = ks'.idxOf i + 1 := by
        have hk : (k == i) = false := by simp only [beq_eq_false_iff_ne, ne_eq]; exact fun h' => e h'.symm
        simp [List.idxOf_cons, hk]
      rw [this]; simp

theorem lookup_zip_map_not (f : Nat → Letter) (l : Letter) :
    ∀ (ks vs : List Nat), (∀ k ∈ ks, f k ≠ l) → ((ks.map f).zip vs).lookup l = none
  | [], _, _ => by simp [List.lookup]
  | k :: ks', [], _ => by simp [List.lookup]
  | k :: ks', v :: vs', h => by
    have hne : (l == f k) = false := by
      simp only [beq_eq_false_iff_ne, ne_eq]; intro h'; exact h k (by simp) h'.symm
    simp only [List.map_cons, List.zip_cons_cons, List.lookup, hne]
    exact lookup_zip_map_not f l ks' vs' (fun k hk => h k (by simp [hk]))


theorem lo_inj : ∀ a b, Letter.lo a = Letter.lo b → a = b := by intro a b h; cases h; rfl
theorem up_inj : ∀ a b, Letter.up a = Letter.up b → a = b := by intro a b h; cases h; rfl

theorem mem_keptPos (n : Nat) (keep : List Nat) (i : Nat) : i ∈ keptPos n keep ↔ i < n ∧ i ∈ keep := by
  simp [keptPos]
theorem mem_tracedPos (n : Nat) (keep : List Nat) (i : Nat) : i ∈ tracedPos n keep ↔ i < n ∧ i ∉ keep := by
  simp [tracedPos]

theorem multiIdx_length : ∀ (ds : List Nat) (s : List Nat), s ∈ multiIdx ds → s.length = ds.length
  | [], s, h => by simp [multiIdx] at h; simp [h]
  | d :: ds, s, h => by
    simp only [multiIdx, List.mem_flatMap, List.mem_range, List.mem_map] at h
    obtain ⟨i, _, t, ht, rfl⟩ := h
    simp [multiIdx_length ds t ht]

theorem unflat_length : ∀ (ds : List Nat) (k : Nat), (unflat ds k).length = ds.length
  | [], _ => rfl
  | _ :: ds, k => by simp [unflat, unflat_length ds]

/-- the environment that `einsum` builds for `partial_trace` reads back exactly the merged multi-indices -/
theorem env_get_lo (n : Nat) (keep a a' s : List Nat) (ha : a.length = (keptPos n keep).length)
    (hs : (tracedPos n keep).length ≤ s.length) (i : Nat) (hi : i < n) :
    Env.get ((ssright n keep).zip (a ++ a') ++ ((tracedPos n keep).map Letter.lo).zip s) (Letter.lo i) =
      if keep.contains i then a.getD ((keptPos n keep).idxOf i) 0 else s.getD ((tracedPos n keep).idxOf i) 0 := by
  unfold Env.get ssright
  have hz : (List.map Letter.lo (keptPos n keep) ++ List.map Letter.up (keptPos n keep)).zip (a ++ a') =
      ((keptPos n keep).map Letter.lo).zip a ++ ((keptPos n keep).map Letter.up).zip a' := by
    apply List.zip_append; simp [ha]
  show ((List.lookup (Letter.lo i) ((List.map Letter.lo (keptPos n keep) ++ List.map Letter.up (keptPos n keep)).zip (a ++ a') ++ _))).getD 0 = _
  rw [hz, List.append_assoc, lookup_append']
  by_cases hk : i ∈ keep
  · have hm : i ∈ keptPos n keep := (mem_keptPos n keep i).2 ⟨hi, hk⟩
    rw [lookup_zip_map_mem Letter.lo lo_inj _ _ i hm (by omega)]
    simp [hk]
  · have h1 : List.lookup (Letter.lo i) (((keptPos n keep).map Letter.lo).zip a) = none := by
      apply lookup_zip_map_not
      intro k hk' h'; cases h'
      exact hk ((mem_keptPos n keep i).1 hk').2
    have h2 : List.lookup (Letter.lo i) (((keptPos n keep).map Letter.up).zip a') = none := by
      apply lookup_zip_map_not
      intro k _ h'; cases h'
    have hm : i ∈ tracedPos n keep := (mem_tracedPos n keep i).2 ⟨hi, hk⟩
    rw [h1]; simp only
    rw [lookup_append', h2]; simp only
    rw [lookup_zip_map_mem Letter.lo lo_inj _ _ i hm hs]
    simp [hk]

theorem env_get_up (n : Nat) (keep a a' s : List Nat) (ha : a.length = (keptPos n keep).length)
    (ha' : (keptPos n keep).length ≤ a'.length) (i : Nat) (hi : i < n) (hk : i ∈ keep) :
    Env.get ((ssright n keep).zip (a ++ a') ++ ((tracedPos n keep).map Letter.lo).zip s) (Letter.up i) =
      a'.getD ((keptPos n keep).idxOf i) 0 := by
  unfold Env.get ssright
  have hz : (List.map Letter.lo (keptPos n keep) ++ List.map Letter.up (keptPos n keep)).zip (a ++ a') =
      ((keptPos n keep).map Letter.lo).zip a ++ ((keptPos n keep).map Letter.up).zip a' := by
    apply List.zip_append; simp [ha]
  show ((List.lookup (Letter.up i) ((List.map Letter.lo (keptPos n keep) ++ List.map Letter.up (keptPos n keep)).zip (a ++ a') ++ _))).getD 0 = _
  rw [hz, List.append_assoc, lookup_append']
  have h1 : List.lookup (Letter.up i) (((keptPos n keep).map Letter.lo).zip a) = none := by
    apply lookup_zip_map_not
    intro k _ h'; cases h'
  have hm : i ∈ keptPos n keep := (mem_keptPos n keep i).2 ⟨hi, hk⟩
  rw [h1]; simp only
  rw [lookup_append', lookup_zip_map_mem Letter.up up_inj _ _ i hm ha']
  simp


theorem range_filter_lt (p : Nat → Bool) (n : Nat) : ∀ m, n ≤ m →
    (List.range m).filter (fun i => decide (i < n) && p i) = (List.range n).filter p := by
  intro m
  induction m with
  | zero => intro h; have : n = 0 := by omega
            subst this; simp
  | succ m ih =>
    intro h
    by_cases e : n = m + 1
    · subst e
      apply List.filter_congr
      intro i hi
      have : i < m + 1 := List.mem_range.1 hi
      simp [this]
    · have hle : n ≤ m := by omega
      rw [List.range_succ, List.filter_append, ih hle]
      have : ¬ m < n := by omega
      simp [this]

theorem mem_ssleft_lo (n : Nat) (keep : List Nat) (i : Nat) : Letter.lo i ∈ ssleft n keep ↔ i < n := by
  unfold ssleft
  simp only [List.mem_append, List.mem_map, List.mem_range]
  constructor
  · rintro (⟨j, hj, h⟩ | ⟨j, hj, h⟩)
    · cases h; exact hj
    · split at h
      · cases h
      · cases h; exact hj
  · intro h; exact Or.inl ⟨i, h, rfl⟩

theorem mem_ssleft_up (n : Nat) (keep : List Nat) (i : Nat) : Letter.up i ∈ ssleft n keep ↔ i < n ∧ i ∈ keep := by
  unfold ssleft
  simp only [List.mem_append, List.mem_map, List.mem_range]
  constructor
  · rintro (⟨j, hj, h⟩ | ⟨j, hj, h⟩)
    · cases h
    · split at h
      · rename_i hc; cases h; exact ⟨hj, by simpa using hc⟩
      · cases h
  · rintro ⟨h, hk⟩
    refine Or.inr ⟨i, h, ?_⟩
    simp [hk]

theorem mem_ssright_lo (n : Nat) (keep : List Nat) (i : Nat) : Letter.lo i ∈ ssright n keep ↔ i < n ∧ i ∈ keep := by
  unfold ssright
  simp only [List.mem_append, List.mem_map, List.mem_filter, List.mem_range]
  constructor
  · rintro (⟨j, ⟨hj, hc⟩, h⟩ | ⟨j, _, h⟩)
    · cases h; exact ⟨hj, by simpa using hc⟩
    · cases h
  · rintro ⟨h, hk⟩; exact Or.inl ⟨i, ⟨h, by simpa using hk⟩, rfl⟩

theorem mem_ssright_up (n : Nat) (keep : List Nat) (i : Nat) : Letter.up i ∈ ssright n keep ↔ i < n ∧ i ∈ keep := by
  unfold ssright
  simp only [List.mem_append, List.mem_map, List.mem_filter, List.mem_range]
  constructor
  · rintro (⟨j, _, h⟩ | ⟨j, ⟨hj, hc⟩, h⟩)
    · cases h
    · cases h; exact ⟨hj, by simpa using hc⟩
  · rintro ⟨h, hk⟩; exact Or.inr ⟨i, ⟨h, by simpa using hk⟩, rfl⟩

/-- the letters `einsum` sums over for the string of `partial_trace`: exactly the lowercase letters of the traced
    positions, each once -/
theorem summedLetters_partialTrace (n : Nat) (keep : List Nat) (hn : n ≤ 26) :
    summedLetters (ssleft n keep) (ssright n keep) = (tracedPos n keep).map Letter.lo := by
  unfold summedLetters alphabet
  rw [List.filter_append, List.filter_map, List.filter_map]
  have h1 : (List.range 26).filter ((fun l => (ssleft n keep).contains l && !(ssright n keep).contains l) ∘ Letter.lo)
      = tracedPos n keep := by
    unfold tracedPos
    rw [← range_filter_lt (fun i => !keep.contains i) n 26 hn]
    apply List.filter_congr
    intro i _
    simp only [Function.comp, List.contains_eq_mem]
    by_cases h : i < n <;> by_cases hk : i ∈ keep <;>
      simp [mem_ssleft_lo, mem_ssright_lo, h, hk]
  have h2 : (List.range 26).filter ((fun l => (ssleft n keep).contains l && !(ssright n keep).contains l) ∘ Letter.up)
      = [] := by
    rw [List.filter_eq_nil_iff]
    intro i _
    simp only [Function.comp, List.contains_eq_mem]
    by_cases h : i < n <;> by_cases hk : i ∈ keep <;>
      simp [mem_ssleft_up, mem_ssright_up, h, hk]
  rw [h1, h2]; simp


theorem mergeIdx_length (n : Nat) (keep a b : List Nat) : (mergeIdx n keep a b).length = n := by
  simp [mergeIdx]

/-- what the letters of `ssleft` read from the environment: the two merged multi-indices, one after the other -/
theorem ssleft_map_env (n : Nat) (keep a a' s : List Nat) (ha : a.length = (keptPos n keep).length)
    (ha' : a'.length = (keptPos n keep).length) (hs : s.length = (tracedPos n keep).length) :
    (ssleft n keep).map (Env.get ((ssright n keep).zip (a ++ a') ++ ((tracedPos n keep).map Letter.lo).zip s)) =
      mergeIdx n keep a s ++ mergeIdx n keep a' s := by
  unfold ssleft mergeIdx
  rw [List.map_append, List.map_map, List.map_map]
  congr 1
  · apply List.map_congr_left
    intro i hi
    have hi' : i < n := List.mem_range.1 hi
    simp only [Function.comp]
    rw [env_get_lo n keep a a' s ha (by omega) i hi']
  · apply List.map_congr_left
    intro i hi
    have hi' : i < n := List.mem_range.1 hi
    simp only [Function.comp]
    by_cases hk : i ∈ keep
    · have hc : keep.contains i = true := by simpa using hk
      simp only [hc, if_true]
      rw [env_get_up n keep a a' s ha (by omega) i hi' hk]
    · have hc : keep.contains i = false := by simpa using hk
      simp only [hc, Bool.false_eq_true, if_false]
      rw [env_get_lo n keep a a' s ha (by omega) i hi']
      simp [hk]

theorem reshapeIn_append {α : Type} (ρ : Nat → Nat → α) (dims x y : List Nat) (hx : x.length = dims.length) :
    reshapeIn ρ dims (x ++ y) = ρ (flat dims x) (flat dims y) := by
  unfold reshapeIn
  rw [← hx]; simp

/-- **C17 (i), all dims, all subsets.**  The entry that the code's string construction + `einsum` computes is the
    textbook reduced-state entry `Σ_b ρ[(a,b),(a',b)]`. -/
theorem partialTraceEntry_eq_reduced {α : Type} [Add α] [Zero α] (ρ : Nat → Nat → α) (keep dims : List Nat)
    (hn : dims.length ≤ 26) (r c : Nat) :
    partialTraceEntry ssleft ρ keep dims r c = reducedEntry ρ keep dims r c := by
  unfold partialTraceEntry reducedEntry einsum
  simp only
  rw [summedLetters_partialTrace dims.length keep hn, List.map_map]
  have hd : (letterDim dims ∘ Letter.lo) = fun i => dims.getD i 0 := by
    funext i; simp [letterDim]
  rw [hd]
  congr 1
  apply List.map_congr_left
  intro s hs
  have hsl := multiIdx_length _ s hs
  rw [List.length_map] at hsl
  rw [ssleft_map_env dims.length keep _ _ s (by rw [unflat_length, List.length_map])
      (by rw [unflat_length, List.length_map]) hsl]
  rw [reshapeIn_append _ _ _ _ (mergeIdx_length _ _ _ _)]


theorem prodL_cons (d : Nat) (ds : List Nat) : prodL (d :: ds) = d * prodL ds := rfl

theorem flat_unflat : ∀ (ds : List Nat) (k : Nat), k < prodL ds → flat ds (unflat ds k) = k
  | [], k, h => by simp [prodL] at h; subst h; rfl
  | d :: ds, k, h => by
    simp only [unflat, flat]
    have hp : 0 < prodL ds := by
      rcases Nat.eq_zero_or_pos (prodL ds) with h0 | h0
      · rw [prodL_cons, h0] at h; simp at h
      · exact h0
    rw [flat_unflat ds (k % prodL ds) (Nat.mod_lt _ hp)]
    exact Nat.div_add_mod' k (prodL ds)

theorem partialTrace_ok (ρ : Mat) (keep dims : List Nat) (m : Mat) (h : partialTrace ρ keep dims = .ok m) :
    m.n = prodL ((keptPos dims.length keep).map fun i => dims.getD i 0) ∧
    ∀ r c, m.e r c = reducedEntry ρ.e keep dims r c := by
  unfold partialTrace at h
  simp only at h
  split at h; · cases h
  split at h; · cases h
  split at h; · cases h
  rename_i h26
  split at h; · cases h
  split at h; · cases h
  rename_i hnk
  injection h with h
  subst h
  refine ⟨by simpa using hnk, fun r c => ?_⟩
  exact partialTraceEntry_eq_reduced ρ.e keep dims (by omega) r c

theorem partialTrace_returns_iff (ρ : Mat) (keep dims : List Nat) :
    (∃ m, partialTrace ρ keep dims = .ok m) ↔
      keep ≠ [] ∧ (∀ k ∈ keep, k < dims.length) ∧ dims.length ≤ 26 ∧ ρ.n = prodL dims ∧
      prodL (keep.map fun i => dims.getD i 0) = prodL ((keptPos dims.length keep).map fun i => dims.getD i 0) := by
  unfold partialTrace
  simp only
  constructor
  · rintro ⟨m, h⟩
    split at h; · cases h
    rename_i h1
    split at h; · cases h
    rename_i h2
    split at h; · cases h
    rename_i h3
    split at h; · cases h
    rename_i h4
    split at h; · cases h
    rename_i h5
    refine ⟨by simpa using h1, ?_, by omega, by simpa using h4, by simpa using h5⟩
    intro k hk
    have := h2
    simp only [List.any_eq_true, decide_eq_true_eq, not_exists, not_and] at this
    have := this k hk
    omega
  · rintro ⟨h1, h2, h3, h4, h5⟩
    have e1 : keep.isEmpty = false := by cases keep <;> simp_all
    have e2 : (keep.any fun k => decide (dims.length ≤ k)) = false := by
      rw [List.any_eq_false]; intro k hk; have := h2 k hk; simp; omega
    have e3 : ¬ 26 < dims.length := by omega
    rw [e1, e2]
    simp only [Bool.false_eq_true, if_false, e3, h4, ne_eq, not_true_eq_false, h5]
    exact ⟨_, rfl⟩

end Graphiq.DM

/-! ## Part 2: algebra of the exact matrices -/
namespace Graphiq
open DM

namespace GQ
@[ext] theorem ext' {a b : GQ} (h1 : a.re = b.re) (h2 : a.im = b.im) : a = b := by
  cases a; cases b; simp_all

@[simp] theorem add_re (a b : GQ) : (a + b).re = a.re + b.re := rfl
@[simp] theorem add_im (a b : GQ) : (a + b).im = a.im + b.im := rfl
@[simp] theorem mul_re (a b : GQ) : (a * b).re = a.re * b.re - a.im * b.im := rfl
@[simp] theorem mul_im (a b : GQ) : (a * b).im = a.re * b.im + a.im * b.re := rfl
@[simp] theorem zero_re : (0 : GQ).re = 0 := rfl
@[simp] theorem zero_im : (0 : GQ).im = 0 := rfl
@[simp] theorem one_re : (1 : GQ).re = 1 := rfl
@[simp] theorem one_im : (1 : GQ).im = 0 := rfl
@[simp] theorem neg_re (a : GQ) : (-a).re = -a.re := rfl
@[simp] theorem neg_im (a : GQ) : (-a).im = -a.im := rfl
@[simp] theorem sub_re (a b : GQ) : (a - b).re = a.re - b.re := rfl
@[simp] theorem sub_im (a b : GQ) : (a - b).im = a.im - b.im := rfl

instance : CommRing GQ where
  add := (· + ·)
  mul := (· * ·)
  zero := 0
  one := 1
  neg := Neg.neg
  sub := (· - ·)
  add_assoc a b c := by ext <;> simp <;> ring
  zero_add a := by ext <;> simp
  add_zero a := by ext <;> simp
  add_comm a b := by ext <;> simp <;> ring
  mul_assoc a b c := by ext <;> simp <;> ring
  one_mul a := by ext <;> simp
  mul_one a := by ext <;> simp
  left_distrib a b c := by ext <;> simp <;> ring
  right_distrib a b c := by ext <;> simp <;> ring
  mul_comm a b := by ext <;> simp <;> ring
  zero_mul a := by ext <;> simp
  mul_zero a := by ext <;> simp
  neg_add_cancel a := by ext <;> simp
  sub_eq_add_neg a b := by ext <;> simp <;> ring
  nsmul := nsmulRec
  zsmul := zsmulRec
end GQ

theorem gsum_eq_sum (n : Nat) (f : Nat → GQ) : gsum n f = ∑ i ∈ Finset.range n, f i := by
  induction n with
  | zero => simp [gsum]
  | succ k ih => rw [gsum, ih, Finset.sum_range_succ]

theorem isZero_iff (a : GQ) : a.isZero = true ↔ a = 0 := by
  constructor
  · intro h; simp [GQ.isZero] at h; ext <;> simp [h.1, h.2]
  · intro h; subst h; rfl

theorem dot_eq_gsum (n : Nat) (f g : Nat → GQ) : Mat.dot n f g = gsum n fun k => f k * g k := by
  induction n with
  | zero => rfl
  | succ k ih =>
    rw [Mat.dot, gsum, ih]
    split
    · rename_i h
      rcases (Bool.or_eq_true_iff.1 h) with h | h
      · rw [(isZero_iff _).1 h]; simp
      · rw [(isZero_iff _).1 h]; simp
    · rfl

theorem trace_mul_comm (a b : Mat) (h : a.n = b.n) : (a.mul b).trace = (b.mul a).trace := by
  unfold Mat.trace Mat.mul
  simp only [dot_eq_gsum, gsum_eq_sum, h]
  rw [Finset.sum_comm]
  apply Finset.sum_congr rfl; intro i _
  apply Finset.sum_congr rfl; intro j _
  ring

namespace DM

/-- **`fidelity` is symmetric** on every branch (same exception class, same branch, same value) -/
theorem fidelity_symm (ρ σ : Mat) (h : ρ.n = σ.n) : fidelity ρ σ = fidelity σ ρ := by
  unfold fidelity
  rw [trace_mul_comm ρ σ h, Bool.or_comm (isPure ρ)]
  cases isDensityMatrix ρ <;> cases isDensityMatrix σ <;> simp

theorem clip01_range (x : Rat) : 0 ≤ clip01 x ∧ clip01 x ≤ 1 := by
  unfold clip01
  split
  · exact ⟨le_refl 0, by norm_num⟩
  · split
    · exact ⟨by norm_num, le_refl 1⟩
    · constructor <;> linarith

theorem clip01_id (x : Rat) (h0 : 0 ≤ x) (h1 : x ≤ 1) : clip01 x = x := by
  unfold clip01
  rw [if_neg (by linarith), if_neg (by linarith)]

/-- the pure-state branch: when both arguments pass `is_density_matrix` and one passes `is_pure`, the result is the
    overlap `Re tr(ρσ)` clipped to `[0,1]` -/
theorem fidelity_pure_branch (ρ σ : Mat) (hρ : isDensityMatrix ρ = true) (hσ : isDensityMatrix σ = true)
    (hp : isPure ρ = true ∨ isPure σ = true) : fidelity ρ σ = .ok (.val (clip01 (ρ.mul σ).trace.re)) := by
  unfold fidelity
  have : (isPure ρ || isPure σ) = true := by rcases hp with h | h <;> simp [h]
  simp [hρ, hσ, this]

/-- every value `fidelity` returns lies in `[0,1]` -/
theorem fidelity_range (ρ σ : Mat) (f : Rat) (h : fidelity ρ σ = .ok (.val f)) : 0 ≤ f ∧ f ≤ 1 := by
  unfold fidelity at h
  split at h; · cases h
  split at h; · cases h
  split at h
  · injection h with h; injection h with h; subst h; exact clip01_range _
  · cases h


/-! ### Infidelity across representations; D9 witness -/

def ket0dm : Mat := Mat.ofRows 2 #[#[1, 0], #[0, 0]]

theorem d9_witness :
    infidelity stabOverlap (.dm ket0dm) (.s (Tab.ket1 1)) = .ok (.val 0) ∧
    infidelity stabOverlap (.s (Tab.ket0 1)) (.s (Tab.ket1 1)) = .ok (.val 1) ∧
    infidelity stabOverlap (.dm ket0dm) (.dm (stabilizerDensity (Tab.ket1 1))) = .ok (.val 1) := by
  decide +kernel

theorem smul_one (a : GQ) : GQ.smul 1 a = a := by
  ext <;> simp [GQ.smul]

theorem stabilizerToDensityPure_eq (t : Tab) (h : ∀ k, k < t.n → (t.row (k + t.n)).r = false) :
    stabilizerToDensityPure t = stabilizerDensity t := by
  unfold stabilizerToDensityPure stabilizerDensity
  apply List.foldl_ext
  intro ρ k hk
  have hk' : k < t.n := List.mem_range.1 hk
  simp only [h k hk', Bool.false_eq_true, if_false]
  have : Mat.smul 1 (pauliMat t.n (t.row (k + t.n))).norm = (pauliMat t.n (t.row (k + t.n))).norm := by
    unfold Mat.smul
    simp only [smul_one]
  rw [this]

theorem infidelity_rep_independent (tt ts : Tab)
    (hsign : ∀ k, k < ts.n → (ts.row (k + ts.n)).r = false)
    (hdt : isDensityMatrix (stabilizerDensity tt) = true) (hds : isDensityMatrix (stabilizerDensity ts) = true)
    (hp : isPure (stabilizerDensity tt) = true)
    (hov : 0 ≤ stabOverlap tt ts ∧ stabOverlap tt ts ≤ 1) :
    infidelity stabOverlap (.dm (stabilizerDensity tt)) (.dm (stabilizerDensity ts)) = infidelity stabOverlap (.s tt) (.s ts) ∧
    infidelity stabOverlap (.dm (stabilizerDensity tt)) (.s ts) = infidelity stabOverlap (.s tt) (.s ts) := by
  have e := stabilizerToDensityPure_eq ts hsign
  have f := fidelity_pure_branch _ _ hdt hds (Or.inl hp)
  have c : clip01 ((stabilizerDensity tt).mul (stabilizerDensity ts)).trace.re = stabOverlap tt ts :=
    clip01_id _ hov.1 hov.2
  constructor
  · simp only [infidelity, f, Except.map, c]
  · simp only [infidelity, e, f, Except.map, c]

/-! ### the rational closed forms of commuting pairs are the real-valued `F`, `T` of Proofs/Commuting.lean -/

theorem foldl_add_sum (l : List Rat) (a : Rat) : l.foldl (· + ·) a = a + l.sum := by
  induction l generalizing a with
  | nil => simp
  | cons x xs ih => simp only [List.foldl_cons, List.sum_cons, ih]; ring

theorem qsumL_eq_sum (l : List Rat) : qsumL l = l.sum := by
  unfold qsumL; rw [foldl_add_sum]; ring

theorem rat_abs_eq (q : Rat) : q.abs = |q| := by
  unfold Rat.abs
  split
  · rename_i h; exact (abs_of_nonneg h).symm
  · rename_i h; exact (abs_of_neg (not_le.1 h)).symm

theorem zipWith_ofFn {α β γ : Type} (f : α → β → γ) (d : Nat) (a : Fin d → α) (b : Fin d → β) :
    List.zipWith f (List.ofFn a) (List.ofFn b) = List.ofFn fun i => f (a i) (b i) := by
  apply List.ext_getElem
  · simp
  · intro i h1 h2; simp

/-- the model's closed form is the real-valued fidelity of the commuting pair with eigenvalues `a_i²`, `b_i²` -/
theorem commFidelity_cast (d : Nat) (a b : Fin d → Rat) (ha : ∀ i, 0 ≤ a i) (hb : ∀ i, 0 ≤ b i) :
    ((commFidelity (List.ofFn a) (List.ofFn b) : Rat) : ℝ) =
      Commuting.F (fun i => ((a i : Rat) : ℝ) ^ 2) (fun i => ((b i : Rat) : ℝ) ^ 2) := by
  unfold commFidelity Commuting.F Commuting.bc
  simp only [zipWith_ofFn, qsumL_eq_sum, List.sum_ofFn]
  push_cast
  have : ∀ i, Real.sqrt (((a i : Rat) : ℝ) ^ 2 * ((b i : Rat) : ℝ) ^ 2) = (a i : ℝ) * (b i : ℝ) := by
    intro i
    have h1 : (0 : ℝ) ≤ (a i : ℝ) := by exact_mod_cast ha i
    have h2 : (0 : ℝ) ≤ (b i : ℝ) := by exact_mod_cast hb i
    rw [← mul_pow, Real.sqrt_sq (mul_nonneg h1 h2)]
  simp only [this]
  ring

theorem commTraceDist_cast (d : Nat) (p q : Fin d → Rat) :
    ((commTraceDist (List.ofFn p) (List.ofFn q) : Rat) : ℝ) =
      Commuting.T (fun i => ((p i : Rat) : ℝ)) (fun i => ((q i : Rat) : ℝ)) := by
  unfold commTraceDist Commuting.T
  simp only [zipWith_ofFn, qsumL_eq_sum, List.sum_ofFn, rat_abs_eq]
  push_cast
  rfl

end DM
end Graphiq
