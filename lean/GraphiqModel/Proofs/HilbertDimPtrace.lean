/-
  Proofs/HilbertDimPtrace.lean — `partial_trace` of clifford.py on density matrices, for every size.

  * `ptraceList rem M` : the iterated partial trace over the sites of `rem` (listed highest first, as `partial_trace`
    removes them);
  * `ptraceSite_dephase` : `Tr_q M = Tr_q(Π₀ M Π₀) + Tr_q(Π₁ M Π₁)` (tracing out a qubit forgets its Z-measurement);
  * `ptrace_remove_mix` : `Tr_q ρ(t) = ½ ρ(remove_qubit(t,q) | outcome 0) + ½ ρ(remove_qubit(t,q) | outcome 1)`;
  * `rho_eq_of_gens` : two valid tableaux, the generators of one in the group of the other ⇒ same density matrix;
  * **`rho_partialTrace_product`** : all traced-out qubits unentangled ⇒ `ρ(partial_trace(t)) = Tr_rem ρ(t)`;
  * **`rho_partialTrace_factor`** : the state factorises across the cut (the traced-out part may be entangled internally
    and the measurements random) ⇒ `ρ(partial_trace(t)) = Tr_rem ρ(t)`, for every outcome script;
  * `rho_partialTrace_tensor_left/right` : `partial_trace(tensor([a,b]))` onto the qubits of `a` (of `b`) has the density
    matrix of `a` (of `b`), which is `Tr_B (ρ(a) ⊗ ρ(b))`.
-/
import GraphiqModel.Proofs.HilbertDimOps
import GraphiqModel.Proofs.HilbertDimTensor
import GraphiqModel.Proofs.TabSpecFactor
namespace Graphiq
namespace Hilbert
open Matrix PRow TabSpec Tab

/-! ### iterated partial trace -/

/-- partial trace over the sites listed in `rem` (each index refers to the string *before* its removal; `partial_trace`
    lists them in descending order) -/
noncomputable def ptraceList {m : Nat} : (rem : List Nat) →
    Matrix (Bits (m + rem.length)) (Bits (m + rem.length)) ℂ → Matrix (Bits m) (Bits m) ℂ
  | [], M => M
  | q :: rest, M => ptraceList rest (ptraceSite q M)

theorem ptraceList_add {m : Nat} (rem : List Nat) (M N : Matrix (Bits (m + rem.length)) (Bits (m + rem.length)) ℂ) :
    ptraceList rem (M + N) = ptraceList rem M + ptraceList rem N := by
  induction rem with
  | nil => rfl
  | cons q rest ih =>
    show ptraceList rest (ptraceSite q (M + N)) = _
    rw [ptraceSite_add, ih]; rfl

theorem ptraceList_smul {m : Nat} (rem : List Nat) (c : ℂ) (M : Matrix (Bits (m + rem.length)) (Bits (m + rem.length)) ℂ) :
    ptraceList rem (c • M) = c • ptraceList rem M := by
  induction rem with
  | nil => rfl
  | cons q rest ih =>
    show ptraceList rest (ptraceSite q (c • M)) = _
    rw [ptraceSite_smul, ih]; rfl

/-- the iterated partial trace preserves the trace -/
theorem trace_ptraceList {m : Nat} (rem : List Nat) (hlt : ∀ q, q ∈ rem → q < m + rem.length)
    (hpw : rem.Pairwise (· > ·)) (M : Matrix (Bits (m + rem.length)) (Bits (m + rem.length)) ℂ) :
    Matrix.trace (ptraceList rem M) = Matrix.trace M := by
  induction rem with
  | nil => rfl
  | cons q rest ih =>
    have hp := List.pairwise_cons.mp hpw
    have hq : q < m + (rest.length + 1) := hlt q List.mem_cons_self
    show Matrix.trace (ptraceList rest (ptraceSite q M)) = _
    rw [ih (fun q' hq' => by have := hp.1 q' hq'; omega) hp.2, trace_ptraceSite q (by omega)]

/-! ### tracing out a qubit forgets its Z-measurement -/

theorem ptraceSite_dephase (m q : Nat) (hq : q ≤ m) (M : Matrix (Bits (m + 1)) (Bits (m + 1)) ℂ) :
    ptraceSite q M = ptraceSite q (proj (m + 1) (Zq q false) * M * proj (m + 1) (Zq q false))
      + ptraceSite q (proj (m + 1) (Zq q true) * M * proj (m + 1) (Zq q true)) := by
  ext a b
  rw [Matrix.add_apply, ptraceSite_apply, ptraceSite_apply, ptraceSite_apply, proj_Zq (m + 1) q (by omega),
    proj_Zq (m + 1) q (by omega)]
  simp only [Matrix.diagonal_mul, Matrix.mul_diagonal, bx_insB_self q hq]
  simp

/-! ### same group, same density matrix -/

/-- two valid tableaux on `m` qubits: if the generators of `b` lie in the group of `a`, the density matrices agree -/
theorem rho_eq_of_gens (m : Nat) (a b : Tab) (ha : a.n = m) (hb : b.n = m) (va : a.Valid) (ra : a.StabReal)
    (vb : b.Valid) (rb : b.StabReal) (h : ∀ i, i < m → Grp a (b.stab i)) :
    rho m (STab.ofTab a) = rho m (STab.ofTab b) := by
  subst ha
  have ga := ofTab_good a va
  have gb := ofTab_good b vb
  have i1 := rho_idem _ ga
  have h1 := rho_hermitian _ ga
  have t1 := rho_ofTab_trace a va
  have i2 := rho_idem _ gb
  have h2 := rho_hermitian _ gb
  have t2 := rho_ofTab_trace b vb
  have ea : (STab.ofTab a).n = a.n := rfl
  have eb : (STab.ofTab b).n = b.n := rfl
  rw [eb, hb] at i2 h2
  rw [hb] at t2
  rw [ea] at i1 h1
  symm
  apply projector_eq_of_le _ _ i2 h2 i1 h1
  · show rhoTo a.n (STab.ofTab b).row b.n * _ = _
    apply rhoTo_mul_of_fixed
    intro i hi
    rw [ofTab_row_real b rb i hi]
    exact grp_mul_rho a va ra _ (h i (hb ▸ hi))
  · rw [t1, t2]

theorem rho_tab_norm (t : Tab) : rho t.n (STab.ofTab t.norm) = rho t.n (STab.ofTab t) := by
  apply rhoTo_congr
  intro i hi
  have hi' : i < t.n := hi
  have e := tnorm_row t (i + t.n) (by omega)
  exact ⟨e.1, e.2.1, rfl⟩

/-! ### one removal, averaged over the outcome -/

/-- `Tr_q ρ(t)` is the equal mixture of the two results of `remove_qubit` (equal to each of them when the measurement is
    deterministic, where both calls return the same tableau) -/
theorem ptrace_remove_mix (m : Nat) (t t0 t1 : Tab) (q : Nat) (hm : t.n = m + 1) (hq : q < t.n)
    (hv : t.Valid) (hr : t.StabReal) (h0 : t.removeQubit q false = .ok t0) (h1 : t.removeQubit q true = .ok t1) :
    ptraceSite q (rho (m + 1) (STab.ofTab t))
      = (1 / 2 : ℂ) • rho m (STab.ofTab t0) + (1 / 2 : ℂ) • rho m (STab.ofTab t1) := by
  cases hp : t.pivot q with
  | some p =>
    rw [rho_removeQubit_random m t t0 q p false hm hq hv hr hp h0,
      rho_removeQubit_random m t t1 q p true hm hq hv hr hp h1, smul_smul, smul_smul]
    norm_num
    exact ptraceSite_dephase m q (by omega) _
  | none =>
    rw [(rho_removeQubit_det m t t0 q false hm hq hv hr hp h0).2, (rho_removeQubit_det m t t1 q true hm hq hv hr hp h1).2,
      ← add_smul]
    norm_num

/-! ### `partial_trace` never fails on a valid tableau -/

theorem partialTrace_go_total (rem : List Nat) :
    ∀ (t : Tab) (os : List Bool), t.Valid → t.StabReal → rem.Pairwise (· > ·) → (∀ q, q ∈ rem → q < t.n) →
      ∃ t', partialTrace.go t rem os = .ok t' := by
  induction rem with
  | nil => intro t os _ _ _ _; exact ⟨t, rfl⟩
  | cons q rest ih =>
    intro t os hv hr hpw hlt
    have hq : q < t.n := hlt q List.mem_cons_self
    obtain ⟨t1, h1⟩ := removeQubit_total t q (os.headD false) hq hv
    have h1' : t.removeQubit? q (os.headD false) = .ok t1 := by unfold removeQubit?; rw [if_pos hq]; exact h1
    obtain ⟨n1, v1, r1, _⟩ := removeQubit_grp t t1 q _ hq hv hr h1
    have hpw' := List.pairwise_cons.mp hpw
    obtain ⟨t', h'⟩ := ih t1.norm (if (t.pivot q).isSome then os.tail else os) (tnorm_valid t1 v1) (norm_stabReal t1 r1)
      hpw'.2 (by
        intro q' hq'
        have := hpw'.1 q' hq'
        show q' < t1.n
        rw [n1]; omega)
    refine ⟨t', ?_⟩
    simp only [partialTrace.go, h1']
    exact h'

/-! ### product states -/

/-- `partial_trace` of unentangled qubits is the partial trace (induction over the removal list) -/
theorem rho_partialTrace_go_product (rem : List Nat) :
    ∀ (m : Nat) (t t' : Tab) (os : List Bool), t.n = m + rem.length → t.Valid → t.StabReal → rem.Pairwise (· > ·) →
      (∀ q, q ∈ rem → q < t.n) → (∀ q, q ∈ rem → Unentangled t q) → partialTrace.go t rem os = .ok t' →
      rho m (STab.ofTab t') = ptraceList rem (rho (m + rem.length) (STab.ofTab t)) := by
  induction rem with
  | nil =>
    intro m t t' os hn _ _ _ _ _ h
    simp [partialTrace.go] at h
    subst h
    rfl
  | cons q rest ih =>
    intro m t t' os hn hv hr hpw hlt hu h
    simp only [partialTrace.go] at h
    cases hrm : t.removeQubit? q (os.headD false) with
    | error e => rw [hrm] at h; simp at h
    | ok t1 =>
      rw [hrm] at h
      simp only at h
      have hq : q < t.n := hlt q List.mem_cons_self
      have hrm' : t.removeQubit q (os.headD false) = .ok t1 := by
        unfold removeQubit? at hrm; rw [if_pos hq] at hrm; exact hrm
      obtain ⟨n1, v1, r1, _⟩ := removeQubit_grp t t1 q _ hq hv hr hrm'
      have g1 := removeQubit_unentangled_grp t t1 q _ hq hv hr (hu q List.mem_cons_self) hrm'
      have hpw' := List.pairwise_cons.mp hpw
      have hn' : t.n = (m + rest.length) + 1 := hn
      have hn1 : t1.norm.n = m + rest.length := by show t1.n = _; omega
      obtain ⟨σ, gσ, hσ⟩ := hu q List.mem_cons_self
      have step := (rho_removeQubit_unentangled (m + rest.length) t t1 q _ hn' hq hv hr σ gσ hσ hrm').2
      have ihh := ih m t1.norm t' _ hn1 (tnorm_valid t1 v1) (norm_stabReal t1 r1) hpw'.2
        (by
          intro q' hq'
          have := hpw'.1 q' hq'
          rw [hn1]; omega)
        (by
          intro q' hq'
          have hlt' := hpw'.1 q' hq'
          obtain ⟨σ', gσ', hσ'⟩ := unentangled_after_remove t t1 q q' hq hlt' (hu q' (List.mem_cons_of_mem _ hq')) g1 n1
          exact ⟨σ', (norm_grp t1 σ').mpr gσ', hσ'⟩)
        h
      rw [ihh]
      show ptraceList rest _ = ptraceList rest (ptraceSite q _)
      have e : t1.n = m + rest.length := hn1
      have := rho_tab_norm t1
      rw [e] at this
      rw [this, step]
      rfl

/-! ### product across a cut (the traced-out part may be entangled internally) -/

theorem rho_partialTrace_go_factor (rem : List Nat) :
    ∀ (m : Nat) (t t' : Tab) (os : List Bool), t.n = m + rem.length → t.Valid → t.StabReal → rem.Pairwise (· > ·) →
      (∀ q, q ∈ rem → q < t.n) → Factor t rem → partialTrace.go t rem os = .ok t' →
      rho m (STab.ofTab t') = ptraceList rem (rho (m + rem.length) (STab.ofTab t)) := by
  induction rem with
  | nil =>
    intro m t t' os hn _ _ _ _ _ h
    simp [partialTrace.go] at h
    subst h
    rfl
  | cons q rest ih =>
    intro m t t' os hn hv hr hpw hlt hf h
    have hq : q < t.n := hlt q List.mem_cons_self
    have hpw' := List.pairwise_cons.mp hpw
    have hn' : t.n = (m + rest.length) + 1 := hn
    -- the group of the final result does not depend on the outcome script
    obtain ⟨nfin, gfin⟩ := partialTrace_go_factor (q :: rest) t t' os hv hr hpw hlt hf h
    have vfin := partialTrace_go_valid (q :: rest) t t' os hv h
    have hnfin : t'.n = m := by simp only [List.length_cons] at nfin; omega
    have rfin : t'.StabReal := by
      intro i h1 h2
      have hg : Grp t (embedCols (q :: rest) (t'.row i)) := (gfin _).mp (grp_row t' i h1 h2)
      have := grp_real t hv hr _ hg
      rw [(embedCols_r (q :: rest) (t'.row i)).2] at this
      exact this
    -- every branch: remove `q` with outcome `o`, then run the rest (with any script)
    have branch : ∀ o : Bool, ∃ tq tf, t.removeQubit q o = .ok tq ∧
        rho m (STab.ofTab tf) = ptraceList rest (rho (m + rest.length) (STab.ofTab tq)) ∧
        rho m (STab.ofTab tf) = rho m (STab.ofTab t') := by
      intro o
      obtain ⟨tq, hq1⟩ := removeQubit_total t q o hq hv
      obtain ⟨n1, v1, r1, g1⟩ := removeQubit_grp t tq q o hq hv hr hq1
      have hn1 : tq.norm.n = m + rest.length := by show tq.n = _; omega
      have hlt1 : ∀ q', q' ∈ rest → q' < tq.norm.n := by
        intro q' hq'
        have := hpw'.1 q' hq'
        rw [hn1]; omega
      obtain ⟨tf, hf1⟩ := partialTrace_go_total rest tq.norm [] (tnorm_valid tq v1) (norm_stabReal tq r1) hpw'.2 hlt1
      have hfm := factor_measure t q o (q :: rest) hq List.mem_cons_self hv hr hf
      have hfq : Factor tq rest :=
        factor_drop (t.zMeasure q o).1 tq q rest hpw'.1 (by rw [zMeasure_n, n1]; omega) g1 hfm
      have ihh := ih m tq.norm tf [] hn1 (tnorm_valid tq v1) (norm_stabReal tq r1) hpw'.2 hlt1
        (factor_norm tq rest hfq) hf1
      have e : tq.n = m + rest.length := hn1
      have hnorm := rho_tab_norm tq
      rw [e] at hnorm
      rw [hnorm] at ihh
      refine ⟨tq, tf, hq1, ihh, ?_⟩
      -- `tf` and `t'` have the same stabilizer group
      obtain ⟨nf, gf⟩ := partialTrace_go_factor rest tq.norm tf [] (tnorm_valid tq v1) (norm_stabReal tq r1) hpw'.2 hlt1
        (factor_norm tq rest hfq) hf1
      have vf := partialTrace_go_valid rest tq.norm tf [] (tnorm_valid tq v1) hf1
      have gtf : ∀ P', Grp tf P' ↔ Grp t (embedCols (q :: rest) P') := by
        intro P'
        rw [gf, norm_grp, g1]
        exact measure_factor t q o (q :: rest) hq List.mem_cons_self hv hr hf _ (embedCols_idOn (q :: rest) hpw P')
      have hntf : tf.n = m := by rw [hn1] at nf; omega
      have rtf : tf.StabReal := by
        intro i h1 h2
        have hg : Grp t (embedCols (q :: rest) (tf.row i)) := (gtf _).mp (grp_row tf i h1 h2)
        have := grp_real t hv hr _ hg
        rw [(embedCols_r (q :: rest) (tf.row i)).2] at this
        exact this
      apply rho_eq_of_gens m tf t' hntf hnfin vf rtf vfin rfin
      intro i hi
      exact (gtf _).mpr ((gfin _).mp (grp_gen t' i (by omega)))
    obtain ⟨t0, tf0, hr0, e0, s0⟩ := branch false
    obtain ⟨t1, tf1, hr1, e1, s1⟩ := branch true
    have mix := ptrace_remove_mix (m + rest.length) t t0 t1 q hn' hq hv hr hr0 hr1
    show _ = ptraceList rest (ptraceSite q (rho (m + rest.length + 1) (STab.ofTab t)))
    rw [mix, ptraceList_add, ptraceList_smul, ptraceList_smul, ← e0, ← e1, s0, s1, ← add_smul]
    norm_num

/-! ### the property-level forms -/

/-- **`partial_trace` of unentangled qubits = partial trace of the density matrix** -/
theorem rho_partialTrace_product (m : Nat) (t t' : Tab) (keep : List Nat) (os : List Bool)
    (hm : t.n = m + (removalList t.n keep).length) (hv : t.Valid) (hr : t.StabReal)
    (hu : ∀ q, q < t.n → q ∉ keep → Unentangled t q) (h : t.partialTrace keep os = .ok t') :
    rho m (STab.ofTab t') = ptraceList (removalList t.n keep) (rho (m + (removalList t.n keep).length) (STab.ofTab t)) := by
  rw [partialTrace_eq] at h
  exact rho_partialTrace_go_product (removalList t.n keep) m t t' os hm hv hr (removalList_desc t.n keep)
    (fun q hq => ((mem_removalList t.n keep q).mp hq).1)
    (fun q hq => hu q ((mem_removalList t.n keep q).mp hq).1 ((mem_removalList t.n keep q).mp hq).2) h

/-- **`partial_trace` of a product factor = partial trace of the density matrix**, whatever the outcome script (the
    traced-out qubits may be entangled among themselves, their measurements random) -/
theorem rho_partialTrace_factor (m : Nat) (t t' : Tab) (keep : List Nat) (os : List Bool)
    (hm : t.n = m + (removalList t.n keep).length) (hv : t.Valid) (hr : t.StabReal)
    (hf : Factor t (removalList t.n keep)) (h : t.partialTrace keep os = .ok t') :
    rho m (STab.ofTab t') = ptraceList (removalList t.n keep) (rho (m + (removalList t.n keep).length) (STab.ofTab t)) := by
  rw [partialTrace_eq] at h
  exact rho_partialTrace_go_factor (removalList t.n keep) m t t' os hm hv hr (removalList_desc t.n keep)
    (fun q hq => ((mem_removalList t.n keep q).mp hq).1) hf h

/-! ### partial trace of a tensor product -/

/-- reality of the stabilizer rows of a tableau whose group is contained in a real group -/
theorem stabReal_of_grp_imp (t' a : Tab) (va : a.Valid) (ra : a.StabReal) (h : ∀ P', Grp t' P' → Grp a P') :
    t'.StabReal := fun i h1 h2 => grp_real a va ra _ (h _ (grp_row t' i h1 h2))

/-- **`partial_trace(tensor([a, b]), keep = qubits of a)`** has the density matrix of `a`, and that is the partial trace
    of the density matrix of `tensor([a, b])` (`= ρ(a) ⊗ ρ(b)` by `rho_tensor`) over the qubits of `b` -/
theorem rho_partialTrace_tensor_left (a b t' : Tab) (os : List Bool) (ha : a.Valid) (hb : b.Valid) (ra : a.StabReal)
    (rb : b.StabReal) (h : (tensor2 a b).partialTrace (List.range a.n) os = .ok t') :
    rho a.n (STab.ofTab t') = rho a.n (STab.ofTab a) ∧
    rho a.n (STab.ofTab t') = ptraceList (removalList (a.n + b.n) (List.range a.n))
      (rho (a.n + (removalList (a.n + b.n) (List.range a.n)).length) (STab.ofTab (tensor2 a b))) := by
  obtain ⟨n', g⟩ := partialTrace_tensor_left a b t' os ha hb ra rb h
  have v' := partialTrace_valid (tensor2 a b) t' _ os (tensor2_valid a b ha hb) h
  have r' := stabReal_of_grp_imp t' a ha ra (fun P' => (g P').mp)
  refine ⟨(rho_eq_of_gens a.n a t' rfl n' ha ra v' r' (fun i hi => (g _).mp (grp_gen t' i (by omega)))).symm, ?_⟩
  have hA : ∀ j, j < a.n + b.n → (j ∈ removalList (a.n + b.n) (List.range a.n) ↔ a.n ≤ j) := by
    intro j hj; rw [mem_removalList_range]; omega
  exact rho_partialTrace_factor a.n (tensor2 a b) t' (List.range a.n) os
    (by show a.n + b.n = a.n + (removalList (a.n + b.n) (List.range a.n)).length; rw [removalList_range_length]) (tensor2_valid a b ha hb) (tensor_stabReal a b ra rb)
    (tensor_factor a b ha hb ra rb _ hA) h

/-- … and onto the qubits of `b` -/
theorem rho_partialTrace_tensor_right (a b t' : Tab) (os : List Bool) (ha : a.Valid) (hb : b.Valid) (ra : a.StabReal)
    (rb : b.StabReal) (h : (tensor2 a b).partialTrace (rightSites a.n b.n) os = .ok t') :
    rho b.n (STab.ofTab t') = rho b.n (STab.ofTab b) ∧
    rho b.n (STab.ofTab t') = ptraceList (removalList (a.n + b.n) (rightSites a.n b.n))
      (rho (b.n + (removalList (a.n + b.n) (rightSites a.n b.n)).length) (STab.ofTab (tensor2 a b))) := by
  obtain ⟨n', g⟩ := partialTrace_tensor_right a b t' os ha hb ra rb h
  have v' := partialTrace_valid (tensor2 a b) t' _ os (tensor2_valid a b ha hb) h
  have r' := stabReal_of_grp_imp t' b hb rb (fun P' => (g P').mp)
  refine ⟨(rho_eq_of_gens b.n b t' rfl n' hb rb v' r' (fun i hi => (g _).mp (grp_gen t' i (by omega)))).symm, ?_⟩
  have hA : ∀ j, j < a.n + b.n → (j ∈ removalList (a.n + b.n) (rightSites a.n b.n) ↔ j < a.n) := by
    intro j _; exact mem_removalList_right a.n b.n j
  exact rho_partialTrace_factor b.n (tensor2 a b) t' (rightSites a.n b.n) os
    (by show a.n + b.n = b.n + (removalList (a.n + b.n) (rightSites a.n b.n)).length
        rw [removalList_right_length]; omega) (tensor2_valid a b ha hb) (tensor_stabReal a b ra rb)
    (tensor_factor_right a b ha hb ra rb _ hA) h

end Hilbert
end Graphiq
