/-
  Proofs/SolverCompleteHelpers.lean — completeness of the time-reversed solver, part 2: the helpers of
  `Model/Solver.lean` that never look at anything but one generator row RETURN (no exception), and what they do to the tableau
  is a sequence of gates on known columns (`GVia`).

  `_add_one_qubit_gate` returns because `simplify_local_clifford` is total (`Cliff.simplify_correct`, C20);
  `_change_pauli_type`, the loop over the emitters, `_transform_generator_emitters` (its `assert not np.any(x_matrix[g])` holds as soon
  as the generator has no X/Y anywhere), the sign repair.
-/
import GraphiqModel.Proofs.SolverCompleteGates
import GraphiqModel.Proofs.Clifford1
namespace Graphiq.Solver
open Graphiq Graphiq.Cliff PRow STab

/-- `_add_one_qubit_gate` never raises: `simplify_local_clifford` is total on words over the generators -/
theorem addOneQubit_ok (s : St) (gs : List Gen) (q : Nat) : ∃ s', addOneQubit s gs q = .ok s' := by
  unfold addOneQubit
  simp only
  generalize s.circ.takeWhile (fun o => !o.touches s.np q) = pre
  generalize s.circ.dropWhile (fun o => !o.touches s.np q) = post
  split
  · next old q' rest =>
    obtain ⟨m, hm, _, _⟩ := simplify_correct (old ++ gs)
    rw [hm]
    simp only
    split
    · exact ⟨_, rfl⟩
    · exact ⟨_, rfl⟩
  · obtain ⟨m, hm, _, _⟩ := simplify_correct gs
    rw [hm]
    simp only
    split
    · exact ⟨_, rfl⟩
    · exact ⟨_, rfl⟩

theorem gate_t (s : St) (G : Gate) : (s.gate G).t = (s.t.applyGate G).norm := rfl

theorem changeToZ_cases' (s : St) (row col : Nat) :
    changeToZ s row col = (s.gate (.H col), [.H]) ∨
    changeToZ s row col = ((s.gate (.Pdag col)).gate (.H col), [.P, .H]) ∨
    changeToZ s row col = (s, []) := by
  unfold changeToZ
  split
  · exact Or.inl rfl
  · exact Or.inr (Or.inl rfl)
  · exact Or.inr (Or.inr rfl)

/-- `_change_pauli_type(…, 'z')` applies gates on column `q` only -/
theorem changeToZ_via (s : St) (g q : Nat) (hq : q < s.t.n) : GVia (fun c => c = q) s.t (changeToZ s g q).1.t := by
  rcases changeToZ_cases' s g q with e | e | e <;> rw [e]
  · exact GVia.one s.t (.H q) hq (by intro c hc; simpa [Gate.cols] using hc)
  · show GVia _ s.t ((((s.t.applyGate (.Pdag q)).norm).applyGate (.H q)).norm)
    refine GVia.gate (.H q) (GVia.one s.t (.Pdag q) hq (by intro c hc; simpa [Gate.cols] using hc)) hq ?_
    intro c hc; simpa [Gate.cols] using hc
  · exact GVia.refl

/-- a monadic fold whose steps all return, under an invariant -/
theorem foldlM_ok_inv {α : Type} (f : St → α → Except Err St) (P : St → Prop) (Q : α → Prop)
    (hf : ∀ a x, P a → Q x → ∃ a', f a x = .ok a' ∧ P a') (l : List α) (hl : ∀ x, x ∈ l → Q x) (s : St) (hs : P s) :
    ∃ s', l.foldlM f s = .ok s' ∧ P s' := by
  induction l generalizing s with
  | nil => exact ⟨s, rfl, hs⟩
  | cons x rest ih =>
    obtain ⟨a', h1, p1⟩ := hf s x hs (hl x List.mem_cons_self)
    obtain ⟨s', h2, p2⟩ := ih (fun y hy => hl y (List.mem_cons_of_mem _ hy)) a' p1
    refine ⟨s', ?_, p2⟩
    simp only [List.foldlM, h1, bind, Except.bind]
    exact h2

/-- a pure fold under an invariant -/
theorem foldl_inv' {α : Type} (f : St → α → St) (P : St → Prop) (Q : α → Prop)
    (hf : ∀ a x, P a → Q x → P (f a x)) (l : List α) (hl : ∀ x, x ∈ l → Q x) (s : St) (hs : P s) : P (l.foldl f s) := by
  induction l generalizing s with
  | nil => exact hs
  | cons x rest ih =>
    simp only [List.foldl]
    exact ih (fun y hy => hl y (List.mem_cons_of_mem _ hy)) _ (hf s x hs (hl x List.mem_cons_self))

/-- the loop `for i in range(n_emitter): change_pauli_type(…, 'z'); add gate` returns; it applies gates on emitter columns only -/
theorem allEmittersToZ_ok (s : St) (g : Nat) (skip : Bool) (hn : s.t.n = s.np + s.ne) :
    ∃ s', allEmittersToZ s g skip = .ok s' ∧ GVia (fun c => s.np ≤ c) s.t s'.t := by
  unfold allEmittersToZ
  have hstep : ∀ (a : St) (i : Nat), (a.np = s.np ∧ a.t.n = s.t.n ∧ GVia (fun c => s.np ≤ c) s.t a.t) → i < s.ne →
      ∃ a', (let (a1, gl) := changeToZ a g (a.np + i)
             if skip && gl.isEmpty then Except.ok a1 else addOneQubit a1 gl (a.np + i)) = Except.ok a' ∧
        (a'.np = s.np ∧ a'.t.n = s.t.n ∧ GVia (fun c => s.np ≤ c) s.t a'.t) := by
    intro a i ⟨p1, p2, p3⟩ hi
    have hq : a.np + i < a.t.n := by rw [p1, p2, hn]; omega
    have hv := changeToZ_via a g (a.np + i) hq
    have hk := keeps_changeToZ a g (a.np + i)
    have hn1 : (changeToZ a g (a.np + i)).1.t.n = a.t.n := hv.n_eq
    have hv' : GVia (fun c => s.np ≤ c) s.t (changeToZ a g (a.np + i)).1.t :=
      p3.trans (hv.mono (fun c hc => by rw [hc, p1]; omega))
    generalize changeToZ a g (a.np + i) = r at hv' hk hn1
    obtain ⟨a1, gl⟩ := r
    simp only at hv' hk hn1 ⊢
    split
    · exact ⟨a1, rfl, hk.np_eq.trans p1, hn1.trans p2, hv'⟩
    · obtain ⟨a', ha'⟩ := addOneQubit_ok a1 gl (a.np + i)
      obtain ⟨e1, e2, _⟩ := addOneQubit_t a1 a' gl _ ha'
      exact ⟨a', ha', e2.trans (hk.np_eq.trans p1), by rw [e1]; exact hn1.trans p2, by rw [e1]; exact hv'⟩
  obtain ⟨s', h1, h2⟩ := foldlM_ok_inv _
    (fun a => a.np = s.np ∧ a.t.n = s.t.n ∧ GVia (fun c => s.np ≤ c) s.t a.t) (fun i => i < s.ne) hstep
    (List.range s.ne) (fun i hi => List.mem_range.mp hi) s ⟨rfl, rfl, GVia.refl⟩
  exact ⟨s', h1, h2.2.2⟩

/-- `_transform_generator_emitters` returns when the generator has no X/Y (its assertion), and applies CNOTs between emitters only -/
theorem transformGeneratorEmitters_ok (s : St) (g e : Nat) (hn : s.t.n = s.np + s.ne) (he : e < s.ne)
    (hx : ∀ j, j < s.t.n → (s.t.row g).x j = false) :
    ∃ s', transformGeneratorEmitters s g e = .ok s' ∧ GVia (fun c => s.np ≤ c) s.t s'.t := by
  unfold transformGeneratorEmitters
  split
  · exact ⟨s, rfl, GVia.refl⟩
  · have hany : ((List.range s.t.n).any fun j => (s.t.row g).x j) = false := by
      rw [List.any_eq_false]
      intro j hj
      rw [hx j (List.mem_range.mp hj)]; simp
    rw [hany]
    simp only [Bool.false_eq_true, if_false]
    refine ⟨_, rfl, ?_⟩
    have := foldl_inv' (fun acc c => addEmitterCnot acc c e)
      (fun a => a.np = s.np ∧ a.t.n = s.t.n ∧ GVia (fun c => s.np ≤ c) s.t a.t) (fun c => c < s.ne ∧ c ≠ e) ?_
      (((List.range s.ne).filter fun e' => (s.t.row g).z (s.np + e')).filter fun e' => e' ≠ e) ?_ s ⟨rfl, rfl, GVia.refl⟩
    · exact this.2.2
    · intro a c ⟨p1, p2, p3⟩ ⟨hc, hce⟩
      refine ⟨p1, p2, ?_⟩
      show GVia _ s.t ((a.t.applyGate (.CNOT (a.np + c) (a.np + e))).norm)
      refine GVia.gate _ p3 ?_ ?_
      · show a.np + c < a.t.n ∧ a.np + e < a.t.n ∧ a.np + c ≠ a.np + e
        rw [p1, p2, hn]; omega
      · intro c' hc'
        simp only [Gate.cols, List.mem_cons, List.not_mem_nil, or_false] at hc'
        rcases hc' with h | h <;> rw [h, p1] <;> omega
    · intro c hc
      simp only [List.mem_filter, List.mem_range, decide_eq_true_eq] at hc
      exact ⟨hc.1.1, hc.2⟩

/-- the sign repair returns; it applies (at most) an X on the emitter -/
theorem fixSign_ok (s : St) (g e : Nat) (hn : s.t.n = s.np + s.ne) (he : e < s.ne) :
    ∃ s', fixSign s g e = .ok s' ∧ GVia (fun c => s.np ≤ c) s.t s'.t := by
  unfold fixSign
  split
  · obtain ⟨s', hs'⟩ := addOneQubit_ok (s.gate (.X (s.np + e))) [.X] (s.np + e)
    obtain ⟨e1, _, _⟩ := addOneQubit_t _ s' _ _ hs'
    refine ⟨s', hs', ?_⟩
    rw [e1]
    exact GVia.one s.t (.X (s.np + e)) (by show s.np + e < s.t.n; omega)
      (by intro c hc; simp only [Gate.cols, List.mem_singleton] at hc; omega)
  · exact ⟨s, rfl, GVia.refl⟩

end Graphiq.Solver
