/-
  MetricsHistEmit.lean — `CircuitEmitterCount` of a circuit built by `add` = the op-list specification `Spec.emitterCount`
  (continuous register numbering: an emitter register is created exactly when an operation names the next free index), C18.
-/
import GraphiqModel.Proofs.Metrics
set_option linter.unusedSectionVars false
set_option linter.unusedSimpArgs false
namespace Graphiq
namespace Metrics
open Dag Relation

/-- the emitter count after a successful run of `_add_reg_if_absent` calls -/
theorem nE_addRegs {c : Dag} {P : Paths} (g : Good c P) (rs : List Reg) (hok : (c.addRegs rs).2 = none) :
    (c.addRegs rs).1.nE = rs.foldl (fun n r => if r.ty = .e ∧ r.idx = n then n + 1 else n) c.nE := by
  induction rs generalizing c P with
  | nil => rfl
  | cons r rest ih =>
    unfold addRegs at hok ⊢
    rw [List.foldl_cons]
    by_cases h1 : c.regs r.ty < r.idx
    · rw [addRegIfAbsent_gap h1] at hok; simp at hok
    · by_cases h2 : r.idx = c.regs r.ty
      · rw [addRegIfAbsent_new g.inv h2] at hok ⊢
        simp only at hok ⊢
        have hg := withNewReg_good g h2
        rw [ih hg hok]
        congr 1
        have hnE : (c.withNewReg r).nE = (c.withNewReg r).regs .e := rfl
        rw [hnE, withNewReg_regs]
        by_cases ht : r.ty = .e
        · have : r.idx = c.nE := by rw [h2, ht]; rfl
          simp [ht, this]
          rfl
        · have : RegType.e ≠ r.ty := fun e => ht e.symm
          simp [ht, this]
          rfl
      · have hl : c.live r := by unfold live; omega
        rw [addRegIfAbsent_old g.inv hl] at hok ⊢
        simp only at hok ⊢
        rw [ih g hok]
        congr 1
        by_cases ht : r.ty = .e
        · have : r.idx ≠ c.nE := by
            intro e; apply h2; rw [e, ht]; rfl
          simp [ht, this]
        · simp [ht]

theorem foldl_classical (cs : List Nat) : ∀ n : Nat,
    (cs.map (Reg.mk .c)).foldl (fun n r => if r.ty = .e ∧ r.idx = n then n + 1 else n) n = n := by
  induction cs with
  | nil => intro n; rfl
  | cons j t ih =>
    intro n
    rw [List.map_cons, List.foldl_cons]
    have : ¬ ((Reg.mk .c j).ty = .e ∧ (Reg.mk .c j).idx = n) := by simp
    rw [if_neg this]
    exact ih n

theorem nE_addRegs_classical {c : Dag} {P : Paths} (g : Good c P) (cs : List Nat) (hok : (c.addRegs (cs.map (Reg.mk .c))).2 = none) :
    (c.addRegs (cs.map (Reg.mk .c))).1.nE = c.nE := by
  rw [nE_addRegs g _ hok, foldl_classical]

/-- one successful `add`: the emitter count moves as the specification's fold over the sorted quantum registers says -/
theorem nE_add {c : Dag} {P : Paths} (g : Good c P) {op : Op} (hop : OpWF op) (hok : (c.add op).2 = none) :
    (c.add op).1.nE = (sortRegs op.qregs).foldl (fun n r => if r.ty = .e ∧ r.idx = n then n + 1 else n) c.nE := by
  unfold add at hok ⊢
  unfold ensureRegs at hok ⊢
  obtain ⟨P1, g1, _⟩ := addRegs_good g (op.cregs.map (Reg.mk .c))
  cases h1 : c.addRegs (op.cregs.map (Reg.mk .c)) with
  | mk c1 e1 =>
    rw [h1] at hok g1
    simp only at hok g1 ⊢
    cases e1 with
    | some e => simp at hok
    | none =>
      have hn1 : c1.nE = c.nE := by
        have := nE_addRegs_classical g op.cregs (by rw [h1])
        rw [h1] at this; exact this
      have hq : op.qregs.isEmpty = false := by
        cases hqq : op.qregs with
        | nil => exact absurd hqq hop.qregs_ne
        | cons a t => rfl
      rw [hq] at hok ⊢
      simp only [Bool.false_eq_true, if_false] at hok ⊢
      cases h2 : c1.addRegs (sortRegs op.qregs) with
      | mk c2 e2 =>
        rw [h2] at hok
        cases e2 with
        | some e => simp at hok
        | none =>
          obtain ⟨P2, g2, hl2, _, _⟩ := addRegs_good g1 (sortRegs op.qregs)
          rw [h2] at g2 hl2
          simp only at g2 hl2
          have hlive : ∀ r ∈ opRegs op, c2.live r := by
            -- all registers of the operation exist after the prologue
            obtain ⟨_, _, hl, _, _⟩ := ensureRegs_good g op
            have heq : c.ensureRegs op = (c2, none) := by
              unfold ensureRegs; rw [h1]; simp only; rw [hq]; simp only [Bool.false_eq_true, if_false]; exact h2
            rw [heq] at hl
            exact hl rfl
          obtain ⟨_, _, hregs, _, _, _⟩ := add_good' g2 hop hlive
          have hnE : (c2.add_ op).nE = c2.nE := congrFun hregs .e
          rw [hnE]
          have := nE_addRegs g1 (sortRegs op.qregs) (by rw [h2])
          rw [h2] at this
          simp only at this
          rw [this, hn1]

/-! ## the register counts of `CircuitDAG(ne, np, nc)` -/

theorem addRegs_cons_ok {c c1 : Dag} {r : Reg} (hr : c.addRegIfAbsent r = (c1, none)) (rs : List Reg) :
    c.addRegs (r :: rs) = c1.addRegs rs := by
  rw [addRegs, hr]

theorem addRegs_cons_err {c c1 : Dag} {r : Reg} {e : DErr} (hr : c.addRegIfAbsent r = (c1, some e)) (rs : List Reg) :
    c.addRegs (r :: rs) = (c1, some e) := by
  rw [addRegs, hr]

theorem addRegs_append (c : Dag) (l1 l2 : List Reg) (h : (c.addRegs l1).2 = none) :
    c.addRegs (l1 ++ l2) = (c.addRegs l1).1.addRegs l2 := by
  induction l1 generalizing c with
  | nil => rfl
  | cons r t ih =>
    rw [List.cons_append]
    cases hr : c.addRegIfAbsent r with
    | mk c1 e1 =>
      cases e1 with
      | some e => rw [addRegs_cons_err hr] at h; simp at h
      | none =>
        rw [addRegs_cons_ok hr] at h ⊢
        rw [addRegs_cons_ok hr]
        exact ih c1 h

/-- adding `k` consecutive new registers of type `t` succeeds and raises the count of that type by `k` only -/
theorem addRegs_block (t : RegType) (k : Nat) : ∀ {c : Dag} {P : Paths}, Good c P →
    (c.addRegs ((List.range' (c.regs t) k).map (Reg.mk t))).2 = none ∧
    (∃ P', Good (c.addRegs ((List.range' (c.regs t) k).map (Reg.mk t))).1 P') ∧
    ∀ t', (c.addRegs ((List.range' (c.regs t) k).map (Reg.mk t))).1.regs t' = if t' = t then c.regs t + k else c.regs t' := by
  induction k with
  | zero => intro c P g; exact ⟨rfl, ⟨P, g⟩, fun t' => by by_cases h : t' = t <;> simp [addRegs, h]⟩
  | succ k ih =>
    intro c P g
    rw [List.range'_succ, List.map_cons]
    unfold addRegs
    have h2 : (Reg.mk t (c.regs t)).idx = c.regs (Reg.mk t (c.regs t)).ty := rfl
    rw [addRegIfAbsent_new g.inv h2]
    simp only
    have hg := withNewReg_good g h2
    have hreg : (c.withNewReg ⟨t, c.regs t⟩).regs t = c.regs t + 1 := by rw [withNewReg_regs]; simp
    obtain ⟨a1, a2, a3⟩ := ih hg
    rw [hreg] at a1 a2 a3
    refine ⟨a1, a2, fun t' => ?_⟩
    rw [a3 t']
    by_cases h : t' = t
    · simp [h]; omega
    · simp [h, withNewReg_regs]

theorem init_regs (ne np nc : Nat) :
    (Dag.init ne np nc).regs .e = ne ∧ (Dag.init ne np nc).regs .p = np ∧ (Dag.init ne np nc).regs .c = nc := by
  unfold Dag.init
  dsimp only
  have he : (List.range ne).map (Reg.mk .e) = (List.range' (Dag.empty.regs .e) ne).map (Reg.mk .e) := by
    rw [List.range_eq_range']; rfl
  obtain ⟨e1, ⟨P1, g1⟩, r1⟩ := addRegs_block .e ne empty_good
  rw [← he] at e1 g1 r1
  have hp : (List.range np).map (Reg.mk .p) = (List.range' ((Dag.empty.addRegs ((List.range ne).map (Reg.mk .e))).1.regs .p) np).map (Reg.mk .p) := by
    rw [r1 .p, List.range_eq_range']; rfl
  obtain ⟨e2, ⟨P2, g2⟩, r2⟩ := addRegs_block .p np g1
  rw [← hp] at e2 g2 r2
  have hc : (List.range nc).map (Reg.mk .c) =
      (List.range' (((Dag.empty.addRegs ((List.range ne).map (Reg.mk .e))).1.addRegs ((List.range np).map (Reg.mk .p))).1.regs .c) nc).map (Reg.mk .c) := by
    rw [r2 .c, r1 .c, List.range_eq_range']; rfl
  obtain ⟨e3, _, r3⟩ := addRegs_block .c nc g2
  rw [← hc] at e3 r3
  rw [List.append_assoc, addRegs_append _ _ _ e1, addRegs_append _ _ _ e2]
  refine ⟨?_, ?_, ?_⟩
  · rw [r3 .e, r2 .e, r1 .e]; simp [Dag.empty, regs]
  · rw [r3 .p, r2 .p, r1 .p]; simp [Dag.empty, regs]
  · rw [r3 .c, r2 .c, r1 .c]; simp [Dag.empty, regs]

/-- **`CircuitEmitterCount` of a circuit built by `add` = `Spec.emitterCount`** (number of emitter registers after adding the
    operation list to `CircuitDAG(ne, …)` under continuous register numbering) -/
theorem emitterCount_build (ne np nc : Nat) (seq : List Op) (hwf : ∀ op ∈ seq, OpWF op) (hok : (build ne np nc seq).2 = none) :
    Metrics.emitterCount (build ne np nc seq).1 = Spec.emitterCount ne seq := by
  have herr : ∀ (l : List Op) (c : Dag) (e : DErr), (l.foldl buildStep (c, some e)).2 = some e := by
    intro l; induction l with
    | nil => intro c e; rfl
    | cons o t iht => intro c e; rw [List.foldl_cons]; exact iht c e
  have key : ∀ (seq : List Op) (c : Dag) (P : Paths), Good c P → (∀ op ∈ seq, OpWF op) →
      (seq.foldl buildStep (c, none)).2 = none →
      (seq.foldl buildStep (c, none)).1.nE = Spec.emitterCount c.nE seq := by
    intro seq
    induction seq with
    | nil => intro c P _ _ _; rfl
    | cons op rest ih =>
      intro c P g hwf hok
      rw [List.foldl_cons] at hok ⊢
      have hstep : buildStep (c, none) op = c.add op := rfl
      rw [hstep] at hok ⊢
      cases hres : c.add op with
      | mk c1 err =>
        rw [hres] at hok
        cases err with
        | some e => rw [herr] at hok; simp at hok
        | none =>
          obtain ⟨P1, g1⟩ := add_good g (hwf op (by simp))
          rw [hres] at g1
          have h1 := nE_add g (hwf op (by simp)) (by rw [hres])
          rw [hres] at h1
          simp only at h1
          rw [ih c1 P1 g1 (fun o ho => hwf o (List.mem_cons_of_mem _ ho)) hok, h1]
          unfold Spec.emitterCount
          rw [List.foldl_cons]
  obtain ⟨P0, g0⟩ := init_good ne np nc
  have h0 : (Dag.init ne np nc).nE = ne := (init_regs ne np nc).1
  have := key seq (Dag.init ne np nc) P0 g0 hwf hok
  rw [h0] at this
  exact this

end Metrics
end Graphiq
