/-
  Proofs/AltTargetReturns.lean — when does the modelled `AlternateTargetSolver.solve` RETURN (C10)?
    * the loops return as soon as the time-reversed solver and the LC conversion return on every (relabelled target, LC graph) pair;
    * "no isolated vertex" (the condition under which the time-reversed solver returns, C02) is inherited along local complementations,
      hence by every graph of an LC orbit, and along a map that passes the isomorphism test;
    * the LC orbit relation is symmetric (local complementation is an involution), so `InOrbit n iso lc` gives a sequence from `lc` to `iso`.
-/
import GraphiqModel.Proofs.AltTargetFinal
namespace Graphiq
namespace Alt

/-! ### the loops -/

theorem lcLoop_ok (P : Parts) (iso : BMat) (rmap : List Nat) (i : Nat) (lcs : List BMat) (k : Nat) (acc : List Entry)
    (h : ∀ lc, lc ∈ lcs → (∃ r, P.solver lc = some r) ∧ ∃ g, P.conv lc iso = some g) :
    ∃ out, lcLoop P iso rmap i lcs k acc = .ok out := by
  induction lcs generalizing k acc with
  | nil => exact ⟨acc, rfl⟩
  | cons lc rest ih =>
    obtain ⟨⟨⟨ne, ops⟩, h1⟩, g, h2⟩ := h lc (by simp)
    have e : lcEntry P iso rmap i k lc
        = .ok { ne := ne, ops := if lc.beq iso then ops else ops ++ g, g := lc, map := rmap, src := (i, k) } := by
      unfold lcEntry
      rw [h1]
      simp only
      rw [h2]
    obtain ⟨out, ho⟩ := ih (k + 1) (acc ++ [{ ne := ne, ops := if lc.beq iso then ops else ops ++ g, g := lc, map := rmap, src := (i, k) }])
      (fun lc' hl => h lc' (List.mem_cons_of_mem _ hl))
    refine ⟨out, ?_⟩
    show (match lcEntry P iso rmap i k lc with
      | .error e => (.error e : Except Err (List Entry))
      | .ok en => lcLoop P iso rmap i rest (k + 1) (acc ++ [en])) = .ok out
    rw [e]
    exact ho

theorem isoLoop_ok (P : Parts) (isos : List BMat) (i : Nat) (acc : List Entry)
    (h : ∀ iso, iso ∈ isos → ∀ lc, lc ∈ P.lcGraphs iso → (∃ r, P.solver lc = some r) ∧ ∃ g, P.conv lc iso = some g) :
    ∃ out, isoLoop P isos i acc = .ok out := by
  induction isos generalizing i acc with
  | nil => exact ⟨acc, rfl⟩
  | cons iso rest ih =>
    obtain ⟨acc', ha⟩ := lcLoop_ok P iso (P.relabelMap iso) i (P.lcGraphs iso) 0 acc (h iso (by simp))
    obtain ⟨out, ho⟩ := ih (i + 1) acc' (fun iso' hi => h iso' (List.mem_cons_of_mem _ hi))
    refine ⟨out, ?_⟩
    show (match lcLoop P iso (P.relabelMap iso) i (P.lcGraphs iso) 0 acc with
      | .error e => (.error e : Except Err (List Entry))
      | .ok acc' => isoLoop P rest (i + 1) acc') = .ok out
    rw [ha]
    exact ho

/-- **the loops return as soon as the parts return**: if the time-reversed solver returns on every LC graph and the LC conversion succeeds
    for every (LC graph, relabelled target) pair, `solve` returns -/
theorem solve_ok (P : Parts) (pick : List Nat → Nat)
    (h : ∀ iso, iso ∈ P.isoAdjs → ∀ lc, lc ∈ P.lcGraphs iso → (∃ r, P.solver lc = some r) ∧ ∃ g, P.conv lc iso = some g) :
    ∃ out, solve P pick = .ok out := by
  obtain ⟨es, he⟩ := isoLoop_ok P P.isoAdjs 0 [] h
  refine ⟨dedup pick (es.map fun e => e.g.flat) es, ?_⟩
  unfold solve allEntries
  rw [he]

/-! ### no isolated vertex -/

/-- every vertex `< n` has a neighbour `< n` -/
def NoIsolated (n : Nat) (A : Adj) : Prop := ∀ i, i < n → ∃ j, j < n ∧ A i j = true

theorem NoIsolated.congr {n : Nat} {A B : Adj} (h : NoIsolated n A) (e : EqAdj n A B) : NoIsolated n B := by
  intro i hi
  obtain ⟨j, hj, hij⟩ := h i hi
  exact ⟨j, hj, by rw [← e i j hi hj]; exact hij⟩

/-- a local complementation isolates nobody: a neighbour of `v` keeps `v`, everybody else keeps all neighbours -/
theorem localComp_noIsolated (n : Nat) (A : Adj) (v : Nat) (hv : v < n) (hA : Simple n A) (h : NoIsolated n A) :
    NoIsolated n (localComp A v) := by
  intro i hi
  obtain ⟨j, hj, e⟩ := h i hi
  cases hiv : A i v with
  | true =>
    refine ⟨v, hv, ?_⟩
    have hne : i ≠ v := by
      intro e'; subst e'; rw [hA.2 i hi] at hiv; cases hiv
    simp [localComp, hne, hA.2 v hv, hiv]
  | false =>
    refine ⟨j, hj, ?_⟩
    have hne : i ≠ j := by
      intro e'; subst e'; rw [hA.2 i hi] at e; cases e
    simp [localComp, hne, e, hiv]

theorem applySeq_noIsolated (n : Nat) (A : Adj) (vs : List Nat) (hA : Simple n A) (hvs : ∀ v ∈ vs, v < n) (h : NoIsolated n A) :
    NoIsolated n (applySeq A vs) := by
  induction vs generalizing A with
  | nil => exact h
  | cons v rest ih =>
    have hv : v < n := hvs v (by simp)
    exact ih (localComp A v) (localComp_simple n A v hv hA) (fun w hw => hvs w (List.mem_cons_of_mem _ hw))
      (localComp_noIsolated n A v hv hA h)

/-- every graph of the LC orbit of a graph without isolated vertex has no isolated vertex -/
theorem InOrbit.noIsolated {n : Nat} {A : Adj} {g : BMat} (hA : Simple n A) (h : NoIsolated n A) (hg : InOrbit n A g) :
    NoIsolated n g.f := by
  obtain ⟨_, _, vs, hvs, e⟩ := hg
  exact (applySeq_noIsolated n A vs hA hvs h).congr e.symm

/-- a graph isomorphic (by a map passing `isIsoMap`) to a graph without isolated vertex has no isolated vertex -/
theorem noIsolated_of_isIsoMap (n : Nat) (A B : Adj) (m : List Nat) (hA : NoIsolated n A) (h : isIsoMap n A B m = true) :
    NoIsolated n B := by
  obtain ⟨_, hr, hinj, hedge⟩ := isIsoMap_spec n A B m h
  intro a ha
  obtain ⟨u, hu, eu⟩ := inj_surj n (fun u => m.getD u n) hr hinj a ha
  obtain ⟨w, hw, e⟩ := hA u hu
  refine ⟨m.getD w n, hr w hw, ?_⟩
  rw [← eu]
  show B (m.getD u n) (m.getD w n) = true
  rw [← hedge u w hu hw]
  exact e

/-! ### the orbit relation is symmetric -/

theorem applySeq_congr (n : Nat) (A B : Adj) (vs : List Nat) (hvs : ∀ v ∈ vs, v < n) (e : EqAdj n A B) :
    EqAdj n (applySeq A vs) (applySeq B vs) := by
  induction vs generalizing A B with
  | nil => exact e
  | cons v rest ih =>
    exact ih (localComp A v) (localComp B v) (fun w hw => hvs w (List.mem_cons_of_mem _ hw))
      (localComp_congr n A B v (hvs v (by simp)) e)

/-- undoing a sequence of local complementations: the same vertices in reverse order -/
theorem applySeq_reverse_cancel (n : Nat) (A : Adj) (vs : List Nat) (hA : Simple n A) (hvs : ∀ v ∈ vs, v < n) :
    EqAdj n (applySeq (applySeq A vs) vs.reverse) A := by
  induction vs generalizing A with
  | nil => exact EqAdj.refl n A
  | cons v rest ih =>
    have hv : v < n := hvs v (by simp)
    have hrest : ∀ w ∈ rest, w < n := fun w hw => hvs w (List.mem_cons_of_mem _ hw)
    have h1 := ih (localComp A v) (localComp_simple n A v hv hA) hrest
    rw [List.reverse_cons, applySeq_append]
    show EqAdj n (localComp (applySeq (applySeq (localComp A v) rest) rest.reverse) v) A
    exact (localComp_congr n _ _ v hv h1).trans (localComp_involution_simple n A v hv hA)

/-- from "`g` is reached from `A`" to "`A` is reached from `g`" -/
theorem InOrbit.back {n : Nat} {A : Adj} {g : BMat} (hA : Simple n A) (hg : InOrbit n A g) :
    ∃ vs : List Nat, (∀ v ∈ vs, v < n) ∧ EqAdj n (applySeq g.f vs) A := by
  obtain ⟨_, _, vs, hvs, e⟩ := hg
  have hr : ∀ v ∈ vs.reverse, v < n := fun v hv => hvs v (List.mem_reverse.mp hv)
  exact ⟨vs.reverse, hr, (applySeq_congr n _ _ vs.reverse hr e).trans (applySeq_reverse_cancel n A vs hA hvs)⟩

end Alt
end Graphiq
