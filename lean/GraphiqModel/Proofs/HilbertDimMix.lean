/-
  Proofs/HilbertDimMix.lean — two consistency theorems about the partial trace.

  * `ptraceList_kronB` : the iterated site-wise partial trace over the last block of a Kronecker product is the textbook
    `Tr_B (A ⊗ B) = tr(B) · A` (so `ptraceSite` / `ptraceList` and `kronB` fit together; in particular
    `ptraceList (removal list of b's qubits) (ρ(a) ⊗ ρ(b)) = ρ(a)`);
  * `ptraceList_eq_mixture` : for *every* valid tableau (no product assumption) the true reduced state `Tr_rem ρ(t)` is the
    uniform mixture, over the outcome choices, of the states that `partial_trace` returns — this is how the code's answer
    (always a pure stabilizer state: the reduced state of the post-measurement state) relates to the mixed reduced state
    when the traced-out qubits are entangled with the kept ones.
-/
import GraphiqModel.Proofs.HilbertDimPtrace
namespace Graphiq
namespace Hilbert
open Matrix PRow TabSpec Tab

/-! ### `Tr_B (A ⊗ B) = tr(B) A` -/

theorem leftB_insB_last {m k : Nat} (a : Bits (m + k)) (s : Bool) :
    leftB (m := m) (n := k + 1) (insB (m + k) a s) = leftB (m := m) (n := k) a := by
  apply bits_ext
  intro j hj
  rw [bx_leftB _ j hj, bx_leftB _ j hj, bx_insB (m + k) a s j (by omega), if_pos (by omega)]

theorem rightB_insB_last {m k : Nat} (a : Bits (m + k)) (s : Bool) :
    rightB (m := m) (n := k + 1) (insB (m + k) a s) = insB k (rightB (m := m) (n := k) a) s := by
  apply bits_ext
  intro j hj
  rw [bx_rightB _ j hj, bx_insB (m + k) a s (m + j) (by omega), bx_insB k _ s j hj]
  by_cases h1 : j < k
  · rw [if_pos (by omega), if_pos h1, bx_rightB _ j h1]
  · have e : j = k := by omega
    rw [if_neg (by omega), if_pos (by omega), if_neg h1, if_pos e]

/-- tracing out the last qubit of `A ⊗ B` is `A ⊗ (B with its last qubit traced out)` -/
theorem ptraceSite_kronB_last {m k : Nat} (A : Matrix (Bits m) (Bits m) ℂ) (B : Matrix (Bits (k + 1)) (Bits (k + 1)) ℂ) :
    ptraceSite (m := m + k) (m + k) (kronB (m := m) (n := k + 1) A B) = kronB (m := m) (n := k) A (ptraceSite k B) := by
  ext a b
  rw [ptraceSite_apply, kronB_apply, kronB_apply, kronB_apply, ptraceSite_apply]
  simp only [leftB_insB_last, rightB_insB_last]
  ring

/-- a Kronecker factor on zero qubits is a scalar -/
theorem kronB_zero {m : Nat} (A : Matrix (Bits m) (Bits m) ℂ) (B : Matrix (Bits 0) (Bits 0) ℂ) :
    kronB (m := m) (n := 0) A B = Matrix.trace B • A := by
  ext a b
  have e : ∀ c : Bits (m + 0), leftB (m := m) (n := 0) c = c := by
    intro c; apply bits_ext; intro j hj; rw [bx_leftB _ j hj]
  have u : ∀ c d : Bits 0, c = d := fun c d => funext (fun j => j.elim0)
  have hB : Matrix.trace B = B (rightB (m := m) (n := 0) a) (rightB (m := m) (n := 0) b) := by
    unfold Matrix.trace
    rw [Fintype.sum_eq_single (rightB (m := m) (n := 0) a) (fun c hc => absurd (u c _) hc)]
    rw [Matrix.diag_apply, u (rightB (m := m) (n := 0) b) (rightB (m := m) (n := 0) a)]
  rw [Matrix.smul_apply, smul_eq_mul, hB, kronB_apply, e a, e b, _root_.mul_comm]

/-- the list `[m + (k-1), …, m + 1, m]`: the sites of the last block, highest first -/
def lastBlock (m : Nat) : List Nat → Prop
  | [] => True
  | q :: rest => q = m + rest.length ∧ lastBlock m rest

/-- **`Tr_B (A ⊗ B) = tr(B) · A`** for the iterated site-wise partial trace over the last block -/
theorem ptraceList_kronB {m : Nat} (rem : List Nat) (h : lastBlock m rem) (A : Matrix (Bits m) (Bits m) ℂ)
    (B : Matrix (Bits rem.length) (Bits rem.length) ℂ) :
    ptraceList rem (kronB A B) = Matrix.trace B • A := by
  induction rem with
  | nil => exact kronB_zero A B
  | cons q rest ih =>
    obtain ⟨hq, hrest⟩ := h
    subst hq
    show ptraceList rest (ptraceSite (m := m + rest.length) (m + rest.length)
      (kronB (m := m) (n := rest.length + 1) A B)) = _
    rw [ptraceSite_kronB_last, ih hrest, trace_ptraceSite rest.length (Nat.le_refl _)]

theorem lastBlock_range (m k : Nat) : lastBlock m (((List.range k).map (fun x => m + x)).reverse) ∧
    (((List.range k).map (fun x => m + x)).reverse).length = k := by
  induction k with
  | zero => exact ⟨trivial, rfl⟩
  | succ j ih =>
    simp only [List.range_succ, List.map_append, List.reverse_append, List.map_cons, List.map_nil, List.reverse_cons,
      List.reverse_nil, List.nil_append, List.singleton_append]
    refine ⟨⟨?_, ih.1⟩, ?_⟩
    · rw [ih.2]
    · rw [List.length_cons, ih.2]

theorem removalList_range_eq (na nb : Nat) :
    removalList (na + nb) (List.range na) = ((List.range nb).map (fun x => na + x)).reverse := by
  unfold removalList
  rw [List.range_add, List.filter_append]
  have h1 : (List.range na).filter (fun i => !(List.range na).contains i) = [] := by
    rw [List.filter_eq_nil_iff]
    intro i hi
    simp only [List.mem_range] at hi
    simp [hi]
  have h2 : ((List.range nb).map (fun x => na + x)).filter (fun i => !(List.range na).contains i)
      = (List.range nb).map (fun x => na + x) := by
    rw [List.filter_eq_self]
    intro i hi
    simp only [List.mem_map, List.mem_range] at hi
    obtain ⟨k, _, rfl⟩ := hi
    simp
  rw [h1, h2, List.nil_append]

/-- the removal list of `partial_trace(tensor([a,b]), keep = qubits of a)` is the last block -/
theorem lastBlock_removalList (na nb : Nat) : lastBlock na (removalList (na + nb) (List.range na)) := by
  rw [removalList_range_eq]; exact (lastBlock_range na nb).1

/-- `rho_tensor` with the size of the second factor as a free variable -/
theorem rho_tensor_dim (a b : Tab) (k : Nat) (hk : k = b.n) :
    rho (a.n + k) (STab.ofTab (tensor2 a b)) = kronB (rho a.n (STab.ofTab a)) (rho k (STab.ofTab b)) := by
  subst hk; exact rho_tensor a b

/-- **`Tr_B (ρ(a) ⊗ ρ(b)) = ρ(a)`** with the removal list of `partial_trace` -/
theorem ptrace_tensor_state (a b : Tab) (hb : b.Valid) :
    ptraceList (removalList (a.n + b.n) (List.range a.n))
      (rho (a.n + (removalList (a.n + b.n) (List.range a.n)).length) (STab.ofTab (tensor2 a b)))
      = rho a.n (STab.ofTab a) := by
  have hk : (removalList (a.n + b.n) (List.range a.n)).length = b.n := removalList_range_length a.n b.n
  rw [rho_tensor_dim a b _ hk, ptraceList_kronB _ (lastBlock_removalList a.n b.n)]
  have tr := rho_ofTab_trace b hb
  rw [← hk] at tr
  rw [tr, one_smul]

/-! ### the reduced state is the mixture of the results of `partial_trace` over the outcomes -/

/-- the uniform mixture over the outcome choices of the density matrices that `partial_trace` returns
    (a deterministic measurement contributes the same tableau for both forced values) -/
noncomputable def mixGo (m : Nat) : List Nat → Tab → Matrix (Bits m) (Bits m) ℂ
  | [], t => rho m (STab.ofTab t)
  | q :: rest, t =>
    (1 / 2 : ℂ) • (match t.removeQubit? q false with
      | .ok t1 => mixGo m rest t1.norm
      | .error _ => 0)
    + (1 / 2 : ℂ) • (match t.removeQubit? q true with
      | .ok t1 => mixGo m rest t1.norm
      | .error _ => 0)

/-- **the reduced state is the mixture of the code's answers.**  For every valid tableau and every strictly descending
    removal list: `Tr_rem ρ(t)` equals the uniform mixture over the measurement-outcome choices of the (pure) states that
    `partial_trace` returns. -/
theorem ptraceList_eq_mixture (rem : List Nat) :
    ∀ (m : Nat) (t : Tab), t.n = m + rem.length → t.Valid → t.StabReal → rem.Pairwise (· > ·) →
      (∀ q, q ∈ rem → q < t.n) → ptraceList rem (rho (m + rem.length) (STab.ofTab t)) = mixGo m rem t := by
  induction rem with
  | nil => intro m t _ _ _ _ _; rfl
  | cons q rest ih =>
    intro m t hn hv hr hpw hlt
    have hq : q < t.n := hlt q List.mem_cons_self
    have hpw' := List.pairwise_cons.mp hpw
    have hn' : t.n = (m + rest.length) + 1 := hn
    have branch : ∀ o : Bool, ∃ tq, t.removeQubit q o = .ok tq ∧ t.removeQubit? q o = .ok tq ∧
        ptraceList rest (rho (m + rest.length) (STab.ofTab tq)) = mixGo m rest tq.norm := by
      intro o
      obtain ⟨tq, hq1⟩ := removeQubit_total t q o hq hv
      have hq1' : t.removeQubit? q o = .ok tq := by unfold removeQubit?; rw [if_pos hq]; exact hq1
      obtain ⟨n1, v1, r1, _⟩ := removeQubit_grp t tq q o hq hv hr hq1
      have hn1 : tq.norm.n = m + rest.length := by show tq.n = _; omega
      have hlt1 : ∀ q', q' ∈ rest → q' < tq.norm.n := by
        intro q' hq'
        have := hpw'.1 q' hq'
        rw [hn1]; omega
      have ihh := ih m tq.norm hn1 (tnorm_valid tq v1) (norm_stabReal tq r1) hpw'.2 hlt1
      have e : tq.n = m + rest.length := hn1
      have hnorm := rho_tab_norm tq
      rw [e] at hnorm
      rw [hnorm] at ihh
      exact ⟨tq, hq1, hq1', ihh⟩
    obtain ⟨t0, h0, h0', e0⟩ := branch false
    obtain ⟨t1, h1, h1', e1⟩ := branch true
    have mix := ptrace_remove_mix (m + rest.length) t t0 t1 q hn' hq hv hr h0 h1
    show ptraceList rest (ptraceSite q (rho (m + rest.length + 1) (STab.ofTab t))) = _
    rw [mix, ptraceList_add, ptraceList_smul, ptraceList_smul, e0, e1]
    simp only [mixGo, h0', h1']

/-! ### one-qubit results -/

/-- a valid one-qubit tableau whose group contains `(-1)^s Z_0` is `|s⟩⟨s|` -/
theorem rho_one_qubit_Z (t : Tab) (hn : t.n = 1) (hv : t.Valid) (hr : t.StabReal) (s : Bool) (hz : Grp t (Zq 0 s)) :
    rho 1 (STab.ofTab t) = proj 1 (Zq 0 s) := by
  have g := ofTab_good t hv
  have i1 := rho_idem _ g
  have h1 := rho_hermitian _ g
  have t1 := rho_ofTab_trace t hv
  have fix := grp_mul_rho t hv hr _ hz
  have e : (STab.ofTab t).n = t.n := rfl
  rw [e, hn] at i1 h1
  rw [hn] at t1 fix
  symm
  apply projector_eq_of_le _ _ (proj_idem 1 _ rfl) (proj_hermitian 1 _ rfl) i1 h1 (proj_mul_of_fixed 1 _ _ fix)
  rw [t1, proj_Zq_site 0 0 (Nat.le_refl 0) s, trace_insSite 0 (Nat.le_refl 0), Matrix.trace_one, card_bits]
  cases s <;> simp [ketbra, Matrix.trace]

/-! ### a product state is the Kronecker product of its marginals -/

theorem embedCols_range_eq_truncCols (na nb : Nat) (P' : PRow) :
    EqOn (na + nb) (embedCols (removalList (na + nb) (List.range na)) P') (P'.truncCols na) := by
  have hpw := removalList_desc (na + nb) (List.range na)
  refine ⟨fun j hj => ?_, (embedCols_r _ P').1, (embedCols_r _ P').2⟩
  by_cases hlt : j < na
  · have := embedCols_low _ na (fun x hx => ((mem_removalList_range na nb x).mp hx).1) P' j hlt
    simp [PRow.truncCols, hlt, this.1, this.2]
  · have := embedCols_idOn _ hpw P' j ((mem_removalList_range na nb j).mpr ⟨by omega, hj⟩)
    simp [PRow.truncCols, hlt, this.1, this.2]

theorem embedCols_right_eq_shiftCols (na nb : Nat) (Q' : PRow) :
    EqOn (na + nb) (embedCols (removalList (na + nb) (rightSites na nb)) Q') (Q'.shiftCols na) := by
  have hpw := removalList_desc (na + nb) (rightSites na nb)
  refine ⟨fun j _ => ?_, (embedCols_r _ Q').1, (embedCols_r _ Q').2⟩
  by_cases hlt : j < na
  · have := embedCols_idOn _ hpw Q' j ((mem_removalList_right na nb j).mpr hlt)
    simp [PRow.shiftCols, hlt, this.1, this.2]
  · have := embedCols_high _ hpw Q' j (fun x hx => by have := (mem_removalList_right na nb x).mp hx; omega)
    rw [removalList_right_length] at this
    simp [PRow.shiftCols, hlt, this.1, this.2]

/-- **a state that is a product across the cut `first na | last nb` is the Kronecker product of its two marginals**: if
    the stabilizer group factorises across the cut (both ways), then `ρ(t) = ρ(partial_trace onto the first na qubits) ⊗
    ρ(partial_trace onto the last nb qubits)` — the converse of `rho_tensor` -/
theorem rho_product_of_marginals (na nb : Nat) (t tA tB : Tab) (osA osB : List Bool) (hn : t.n = na + nb)
    (hv : t.Valid) (hr : t.StabReal)
    (hfB : Factor t (removalList t.n (List.range na))) (hfA : Factor t (removalList t.n (rightSites na nb)))
    (hA : t.partialTrace (List.range na) osA = .ok tA) (hB : t.partialTrace (rightSites na nb) osB = .ok tB) :
    rho (na + nb) (STab.ofTab t) = kronB (rho na (STab.ofTab tA)) (rho nb (STab.ofTab tB)) := by
  obtain ⟨nA, gA⟩ := partialTrace_factor_grp t tA (List.range na) osA hv hr hfB hA
  obtain ⟨nB, gB⟩ := partialTrace_factor_grp t tB (rightSites na nb) osB hv hr hfA hB
  rw [hn] at nA gA nB gB
  rw [removalList_range_length] at nA
  rw [removalList_right_length] at nB
  have hnA : tA.n = na := by omega
  have hnB : tB.n = nb := by omega
  have vA := partialTrace_valid t tA _ osA hv hA
  have vB := partialTrace_valid t tB _ osB hv hB
  have rA : tA.StabReal := by
    intro i h1 h2
    have := grp_real t hv hr _ ((gA _).mp (grp_row tA i h1 h2))
    rw [(embedCols_r _ _).2] at this; exact this
  have rB : tB.StabReal := by
    intro i h1 h2
    have := grp_real t hv hr _ ((gB _).mp (grp_row tB i h1 h2))
    rw [(embedCols_r _ _).2] at this; exact this
  subst hnA; subst hnB
  rw [← rho_tensor tA tB]
  apply rho_eq_of_gens (tA.n + tB.n) t (tensor2 tA tB) hn rfl hv hr (tensor2_valid tA tB vA vB)
    (tensor_stabReal tA tB rA rB)
  intro i hi
  by_cases hlt : i < tA.n
  · rw [tensor_stab_left tA tB i hlt]
    exact InSpan.eqv _ _ ((gA _).mp (grp_gen tA i hlt)) (hn ▸ embedCols_range_eq_truncCols tA.n tB.n _)
  · rw [tensor_stab_right tA tB i (by omega) hi]
    exact InSpan.eqv _ _ ((gB _).mp (grp_gen tB (i - tA.n) (by omega))) (hn ▸ embedCols_right_eq_shiftCols tA.n tB.n _)

end Hilbert
end Graphiq
