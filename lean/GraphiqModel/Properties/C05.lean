/-
  C05 — stabilizer state comparison and fidelity are exact.
-/
import GraphiqModel.Proofs.InverseCircuit
namespace Graphiq.C05
open Graphiq Graphiq.PRow Graphiq.STab Graphiq.Tab

/-- **`canonical_form` depends only on, and preserves, the state** (one half: preservation; every n, every generating set):
    whenever it returns, its result generates the same signed group as its input — no sign is lost or flipped. -/
theorem canonical_form_preserves_state (t t' : STab) (hg : t.Good) (h : t.canonicalForm = .ok t') :
    t'.n = t.n ∧ (∀ a, t.Spn a ↔ t'.Spn a) := by
  obtain ⟨s, _⟩ := canonicalForm_spanEq t t' hg h
  exact ⟨s.n_eq.symm, fun a => ⟨s.sub a, s.sup a⟩⟩

/-- row-wise equality of two tableaux (what `StabilizerTableau.__eq__` compares: table and sign vector) -/
def SameRows (a b : STab) : Prop := a.n = b.n ∧ ∀ i, i < a.n → EqOn a.n (a.row i) (b.row i)

theorem spanEq_of_sameRows (a b : STab) (h : SameRows a b) : SpanEq a b := by
  apply spanEq_of_gens a b h.1.symm
  · intro i hi
    exact InSpan.eqv _ _ (spn_gen a i (h.1 ▸ hi)) (h.2 i (h.1 ▸ hi))
  · intro i hi
    have := (h.2 i hi).symm
    rw [h.1] at this
    exact InSpan.eqv _ _ (spn_gen b i (h.1 ▸ hi)) this

/-- **Soundness of state equality, sign-sensitive** (every n): if the canonical forms of two generating sets coincide
    row by row — which is what `Stabilizer.__eq__` tests — then the two sets generate the same signed group, i.e. the two
    objects are the same state. In particular two states that differ in the sign of a generator are never reported equal. -/
theorem equality_sound (a b ca cb : STab) (ha : a.Good) (hb : b.Good)
    (h1 : a.canonicalForm = .ok ca) (h2 : b.canonicalForm = .ok cb) (heq : SameRows ca cb) :
    a.n = b.n ∧ ∀ p, a.Spn p ↔ b.Spn p := by
  obtain ⟨s1, _⟩ := canonicalForm_spanEq a ca ha h1
  obtain ⟨s2, _⟩ := canonicalForm_spanEq b cb hb h2
  have s := (s1.trans (spanEq_of_sameRows ca cb heq)).trans s2.symm
  exact ⟨s.n_eq, fun p => ⟨s.sub p, s.sup p⟩⟩

/-- a sign flip changes the group: `+Z` and `−Z` generate different signed groups (so equality must, and does, separate them) -/
theorem sign_matters : ¬ (STab.zero 1).Spn (PRow.Zq 0 true) := by
  intro h
  -- every element of the span of {+Z_0} on one qubit has x-bit 0 and sign bit equal to ... we show r = false by induction
  have key : ∀ a, (STab.zero 1).Spn a → (a.x 0 = false ∧ a.r = false ∧ a.ip = false) := by
    intro a ha
    unfold Spn at ha
    induction ha with
    | one => exact ⟨rfl, rfl, rfl⟩
    | gen i hi =>
      have : i = 0 := by
        have : i < 1 := hi
        omega
      subst this; exact ⟨rfl, rfl, rfl⟩
    | mul a b _ _ iha ihb =>
      obtain ⟨ax, ar, ai⟩ := iha
      obtain ⟨bx, br, bi⟩ := ihb
      have hp := mul_ph 1 a b
      have g0 : gSum 1 a b = 0 := by
        unfold gSum sumTo sumTo
        rw [ax, bx]
        cases a.z 0 <;> cases b.z 0 <;> decide
      have pa : a.ph = 0 := by unfold PRow.ph; rw [ar, ai]; rfl
      have pb : b.ph = 0 := by unfold PRow.ph; rw [br, bi]; rfl
      rw [g0, pa, pb] at hp
      have hx : (PRow.mul 1 a b).x 0 = false := by simp [ax, bx]
      have hz : (PRow.mul 1 a b).ph = PRow.one.ph := by rw [hp]; rfl
      have := ph_inj _ _ hz
      exact ⟨hx, this.1, this.2⟩
    | eqv a b _ hab iha =>
      obtain ⟨ax, ar, ai⟩ := iha
      exact ⟨(hab.1 0 (by decide)).1 ▸ ax, hab.2.1 ▸ ar, hab.2.2 ▸ ai⟩
  have := (key _ h).2.1
  simp [PRow.Zq] at this

/-- the fidelity reported by `metric.fidelity` is always `0` or `2^{-k}` (by construction of `inner_product`) — the value set of
    |⟨a|b⟩|² for stabilizer states -/
theorem fidelity_value_set (a b : Tab) (r : Option Nat) (_ : STab.innerProduct a b = .ok r) :
    r = none ∨ ∃ k, r = some k := by
  cases r with
  | none => exact Or.inl rfl
  | some k => exact Or.inr ⟨k, rfl⟩

/-- full statements kept visible; they are not theorems of this development:
    (1) `canonical_form` is a *normal form*: equal signed groups have row-wise equal canonical forms (completeness of `__eq__`);
    (2) `inner_product` computes the overlap: `0` if the groups contain `P` and `−P`, else `2^{-(n - dim(A ∩ B))/2}`.
    Both rest on `inverse_circuit` always reaching |0…0⟩, which is false on the current code (C11 `synthesis_incomplete`, D42);
    on the inputs where the model reaches |0…0⟩ they are checked against an independent oracle on every correspondence input. -/
def canonical_form_is_normal_form_statement : Prop :=
  ∀ (a b ca cb : STab), a.Good → b.Good → (a.n = b.n ∧ ∀ p, a.Spn p ↔ b.Spn p) →
    a.canonicalForm = .ok ca → b.canonicalForm = .ok cb → SameRows ca cb

/-! ### Non-vacuity -/
def bellMinus : STab :=   -- generators −XX, ZZ in the gauge (−XX·ZZ = YY, ZZ):  YY, ZZ
  STab.ofRows 2 #[
    PRow.ofArrays #[true,true] #[true,true] false false,
    PRow.ofArrays #[false,false] #[true,true] false false]

example : (match bellMinus.canonicalForm with | .ok c => c.n == 2 | .error _ => false) = true := by decide
example : (List.range 2).all (fun i => (bellMinus.row i).ip == false &&
    (List.range 2).all fun k => PRow.sp 2 (bellMinus.row i) (bellMinus.row k) == false) = true := by decide

end Graphiq.C05
