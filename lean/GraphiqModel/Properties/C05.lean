/-
  C05 — stabilizer state comparison and fidelity are exact.
-/
import GraphiqModel.Proofs.InverseCircuit
import GraphiqModel.Proofs.CanonUnique
import GraphiqModel.Proofs.CanonCheck
import GraphiqModel.Proofs.InnerProductTotal
import GraphiqModel.Proofs.InnerProductExec
namespace Graphiq.C05
open Graphiq Graphiq.PRow Graphiq.STab Graphiq.Tab

/-- **`canonical_form` depends only on, and preserves, the state** (one half: preservation; every n, every generating set):
    whenever it returns, its result generates the same signed group as its input — no sign is lost or flipped. -/
theorem canonical_form_preserves_state (t t' : STab) (hg : t.Good) (h : t.canonicalForm = .ok t') :
    t'.n = t.n ∧ (∀ a, t.Spn a ↔ t'.Spn a) := by
  obtain ⟨s, _⟩ := canonicalForm_spanEq t t' hg h
  exact ⟨s.n_eq.symm, fun a => ⟨s.sub a, s.sup a⟩⟩

/-- row-wise equality of two tableaux (what `StabilizerTableau.__eq__` compares: table and sign vector) -/
def SameRows (a b : STab) : Prop := a.n = b.n ∧ ∀ i, i < a.n → EqOn a.n (a.row i) (b.row i)

theorem spanEq_of_sameRows (a b : STab) (h : SameRows a b) : SpanEq a b := by
  apply spanEq_of_gens a b h.1.symm
  · intro i hi
    exact InSpan.eqv _ _ (spn_gen a i (h.1 ▸ hi)) (h.2 i (h.1 ▸ hi))
  · intro i hi
    have := (h.2 i hi).symm
    rw [h.1] at this
    exact InSpan.eqv _ _ (spn_gen b i (h.1 ▸ hi)) this

/-- **Soundness of state equality, sign-sensitive** (every n): if the canonical forms of two generating sets coincide
    row by row — which is what `Stabilizer.__eq__` tests — then the two sets generate the same signed group, i.e. the two
    objects are the same state. In particular two states that differ in the sign of a generator are never reported equal. -/
theorem equality_sound (a b ca cb : STab) (ha : a.Good) (hb : b.Good)
    (h1 : a.canonicalForm = .ok ca) (h2 : b.canonicalForm = .ok cb) (heq : SameRows ca cb) :
    a.n = b.n ∧ ∀ p, a.Spn p ↔ b.Spn p := by
  obtain ⟨s1, _⟩ := canonicalForm_spanEq a ca ha h1
  obtain ⟨s2, _⟩ := canonicalForm_spanEq b cb hb h2
  have s := (s1.trans (spanEq_of_sameRows ca cb heq)).trans s2.symm
  exact ⟨s.n_eq, fun p => ⟨s.sub p, s.sup p⟩⟩

/-- a sign flip changes the group: `+Z` and `−Z` generate different signed groups (so equality must, and does, separate them) -/
theorem sign_matters : ¬ (STab.zero 1).Spn (PRow.Zq 0 true) := by
  intro h
  -- every element of the span of {+Z_0} on one qubit has x-bit 0 and sign bit equal to ... we show r = false by induction
  have key : ∀ a, (STab.zero 1).Spn a → (a.x 0 = false ∧ a.r = false ∧ a.ip = false) := by
    intro a ha
    unfold Spn at ha
    induction ha with
    | one => exact ⟨rfl, rfl, rfl⟩
    | gen i hi =>
      have : i = 0 := by
        have : i < 1 := hi
        omega
      subst this; exact ⟨rfl, rfl, rfl⟩
    | mul a b _ _ iha ihb =>
      obtain ⟨ax, ar, ai⟩ := iha
      obtain ⟨bx, br, bi⟩ := ihb
      have hp := mul_ph 1 a b
      have g0 : gSum 1 a b = 0 := by
        unfold gSum sumTo sumTo
        rw [ax, bx]
        cases a.z 0 <;> cases b.z 0 <;> decide
      have pa : a.ph = 0 := by unfold PRow.ph; rw [ar, ai]; rfl
      have pb : b.ph = 0 := by unfold PRow.ph; rw [br, bi]; rfl
      rw [g0, pa, pb] at hp
      have hx : (PRow.mul 1 a b).x 0 = false := by simp [ax, bx]
      have hz : (PRow.mul 1 a b).ph = PRow.one.ph := by rw [hp]; rfl
      have := ph_inj _ _ hz
      exact ⟨hx, this.1, this.2⟩
    | eqv a b _ hab iha =>
      obtain ⟨ax, ar, ai⟩ := iha
      exact ⟨(hab.1 0 (by decide)).1 ▸ ax, hab.2.1 ▸ ar, hab.2.2 ▸ ai⟩
  have := (key _ h).2.1
  simp [PRow.Zq] at this

/-- **Postcondition of `canonical_form`** (every n, every input tableau, no hypothesis on the rows): whenever it returns,
    the result has the reduced echelon shape `STab.Canon` (Proofs/CanonShape.lean): there are `k` and pivot columns
    `px 0 < … < px (k-1)`, `pz k < … < pz (n-1)` such that
    * row `i < k` (X block) has x-bit 1 at column `px i`, no x-bit left of it, and *every other row* has x-bit 0 there;
    * the rows `k..n-1` (Z block) have no x-bit at all; row `i ≥ k` has z-bit 1 at column `pz i`, no z-bit left of it, and
      *every other row of the tableau*, X block included, has z-bit 0 there.
    Proved by loop invariants over the two `for` loops of the code (`canonStepXY`, `canonStepZ`). -/
theorem canonical_form_returns_canon (t c : STab) (h : t.canonicalForm = .ok c) : STab.Canon c :=
  canonicalForm_canon t c h

/-- **Uniqueness of the shape** (every n): two real commuting tableaux in `Canon` shape that generate the same signed
    group are equal row by row — Pauli strings *and* sign bits (uniqueness of the reduced row echelon form over the
    2n-bit symplectic vectors with the pivot order of `canonical_form`; a sign is determined by its Pauli string because
    the group of a `Canon` tableau does not contain `−I`). -/
theorem canon_shape_unique (a b : STab) (ha : STab.Canon a) (hb : STab.Canon b) (ga : a.Good) (gb : b.Good)
    (s : a.n = b.n ∧ ∀ p, a.Spn p ↔ b.Spn p) : SameRows a b :=
  ⟨s.1, canon_unique a b ha hb ga gb ⟨s.1, fun p => (s.2 p).1, fun p => (s.2 p).2⟩⟩

/-- **The executable shape checker is sound**: a tableau accepted by `STab.isCanon` (driver command `stab.iscanon`, which
    the correspondence harness runs on every canonical form the *real* `canonical_form` returns) has the shape `Canon`;
    so two accepted real commuting tableaux with the same signed group are row-wise equal (`canon_shape_unique`). -/
theorem shape_checker_sound (c : STab) (h : c.isCanon = true) : STab.Canon c := isCanon_sound c h

/-- the full normal-form statement: `canonical_form` is a *normal form* for the signed group — two real commuting
    generating sets of the same signed group have row-wise equal canonical forms (completeness of `Stabilizer.__eq__`:
    it never reports two equal states different).  Proved below as `canonical_form_is_normal_form`; it is pure Gaussian
    elimination and does not depend on `inverse_circuit`.

    The second half of C05, the value of the overlap, is proved further below (`inner_product_zero_iff_partial`,
    `inner_product_exponent_partial`, …) under the hypothesis that `inverse_circuit` reached |0…0⟩ on the first argument;
    without that hypothesis it is false on the current code (C11 `synthesis_incomplete`, D42). -/
def canonical_form_is_normal_form_statement : Prop :=
  ∀ (a b ca cb : STab), a.Good → b.Good → (a.n = b.n ∧ ∀ p, a.Spn p ↔ b.Spn p) →
    a.canonicalForm = .ok ca → b.canonicalForm = .ok cb → SameRows ca cb

/-- **Completeness of state equality / `canonical_form` is a normal form** (every n, every pair of generating sets):
    if two real commuting tableaux generate the same signed group and `canonical_form` returns on both, the two results
    are equal row by row, sign bits included. -/
theorem canonical_form_is_normal_form : canonical_form_is_normal_form_statement := by
  intro a b ca cb ha hb hs h1 h2
  obtain ⟨s1, g1⟩ := canonicalForm_spanEq a ca ha h1
  obtain ⟨s2, g2⟩ := canonicalForm_spanEq b cb hb h2
  have s : SpanEq ca cb := (s1.symm.trans ⟨hs.1, fun p => (hs.2 p).1, fun p => (hs.2 p).2⟩).trans s2
  exact canon_shape_unique ca cb (canonicalForm_canon a ca h1) (canonicalForm_canon b cb h2) g1 g2
    ⟨s.n_eq, fun p => ⟨s.sub p, s.sup p⟩⟩

/-- **State equality is exact** (every n): for real commuting generating sets on which `canonical_form` returns, the
    canonical forms coincide row by row *iff* the two sets generate the same signed group (soundness `equality_sound` +
    completeness `canonical_form_is_normal_form`). -/
theorem equality_exact (a b ca cb : STab) (ha : a.Good) (hb : b.Good)
    (h1 : a.canonicalForm = .ok ca) (h2 : b.canonicalForm = .ok cb) :
    SameRows ca cb ↔ (a.n = b.n ∧ ∀ p, a.Spn p ↔ b.Spn p) :=
  ⟨equality_sound a b ca cb ha hb h1 h2, fun hs => canonical_form_is_normal_form a b ca cb ha hb hs h1 h2⟩


/-! ## The fidelity half: `inner_product` computes the stabilizer overlap

  Specification (Proofs/InnerProductSpec.lean), for the signed groups `A`, `B` of two `n`-qubit stabilizer states |a⟩, |b⟩:
  * `Orth A B`         — some Pauli `P` lies in `A` and `−P` lies in `B`;                          then ⟨a|b⟩ = 0;
  * `OverlapDim A B d` — `A ∩ B` has an independent generating set of `d` elements (`|A ∩ B| = 2^d`; `d` is unique:
                         `overlap_dim_unique`);                        then, if not `Orth A B`, |⟨a|b⟩|² = 2^{-(n-d)}.
  Both are properties of the two groups, not of the generating sets.  The Hilbert-space reading on the right is textbook
  mathematics (Aaronson–Gottesman 2004; Garcia–Markov–Cross 2012) and is cited, **not** proved here.

  The model `STab.innerProduct a b` returns `ok none` for the value `0` and `ok (some e)` for the value `2^{-e/2}`
  (fidelity `2^{-e}`).  Every theorem below carries the hypothesis `hzero`: the tableau `s1` that `inverse_circuit`
  returns for the first argument is the tableau of |0…0⟩.  It cannot be dropped: `C11.synthesis_incomplete` (finding D42)
  exhibits a state on which it fails, and `fidelity_self_statement_false` below shows that the fidelity of that state with
  itself is then reported as 1/2.  The correspondence harness evaluates `hzero` on every input. -/

/-- `x = ok v`, from a Boolean evaluation (there is no `DecidableEq (Except _ _)`) -/
theorem ok_of_check (x : Except Err (Option Nat)) (v : Option Nat)
    (h : (match x with | .ok r => r == v | .error _ => false) = true) : x = .ok v := by
  cases x with
  | error e => simp at h
  | ok r => simp at h; rw [h]

/-- full statement (kept visible, **not provable on the current code** — its siblings below are refuted by D42):
    the reported value is 0 exactly when the groups contain a Pauli with opposite signs -/
def inner_product_zero_iff_statement : Prop :=
  ∀ (a b : Tab) (r : Option Nat), (STab.ofTab a).Good → (STab.ofTab b).Good → STab.innerProduct a b = .ok r →
    (r = none ↔ Orth (STab.ofTab a) (STab.ofTab b))

/-- **Zero overlap is exact** (every n, every pair of generating sets, every destabilizer half; partial: under `hzero`).
    If the synthesis of the first state reached |0…0⟩, `inner_product` reports 0 **iff** the two signed groups contain a
    Pauli `P` and its negative `−P` — which is when ⟨a|b⟩ = 0.
    Missing for `inner_product_zero_iff_statement`: that `inverse_circuit` always reaches |0…0⟩, which is false (D42,
    `C11.synthesis_incomplete`). -/
theorem inner_product_zero_iff_partial (a b : Tab) (s1 : STab) (circ : List Gate) (r : Option Nat)
    (ga : (STab.ofTab a).Good) (gb : (STab.ofTab b).Good)
    (hs : (STab.ofTab a).inverseCircuit = .ok (s1, circ)) (hzero : s1.isZero = true)
    (h : STab.innerProduct a b = .ok r) :
    r = none ↔ Orth (STab.ofTab a) (STab.ofTab b) :=
  innerProduct_none_iff a b s1 circ r ga gb hs hzero h

/-- full statement (kept visible, **false on the current code**, see `fidelity_self_statement_false`): a non-zero value
    `2^{-e/2}` has `e = n − dim(A ∩ B)` -/
def inner_product_exponent_statement : Prop :=
  ∀ (a b : Tab) (e : Nat), (STab.ofTab a).Good → (STab.ofTab b).Good → STab.innerProduct a b = .ok (some e) →
    e ≤ a.n ∧ ¬ Orth (STab.ofTab a) (STab.ofTab b) ∧ OverlapDim (STab.ofTab a) (STab.ofTab b) (a.n - e)

/-- **The non-zero overlap is exact** (every n; partial: under `hzero`).  If `inner_product` reports `2^{-e/2}` then
    `e ≤ n`, the groups are not orthogonal, and the common subgroup `A ∩ B` has an independent generating set of exactly
    `n − e` elements: `e = n − dim(A ∩ B)`, i.e. fidelity `2^{-(n - dim(A ∩ B))}`.  Moreover `e` is what the code counts:
    in the canonical form `s2` of the transformed second state exactly the rows `i < e` carry an x-bit, and the `n − e`
    x-free rows `e..n-1` all have the sign `+`.
    Missing for `inner_product_exponent_statement`: `inverse_circuit` always reaches |0…0⟩ (false, D42). -/
theorem inner_product_exponent_partial (a b : Tab) (s1 : STab) (circ : List Gate) (e : Nat)
    (ga : (STab.ofTab a).Good) (gb : (STab.ofTab b).Good)
    (hs : (STab.ofTab a).inverseCircuit = .ok (s1, circ)) (hzero : s1.isZero = true)
    (h : STab.innerProduct a b = .ok (some e)) :
    e ≤ a.n ∧ ¬ Orth (STab.ofTab a) (STab.ofTab b) ∧ OverlapDim (STab.ofTab a) (STab.ofTab b) (a.n - e) ∧
    ∃ s2, (STab.ofTab (b.runCircuit circ)).canonicalForm = .ok s2 ∧
      (∀ i, i < a.n → (((List.range a.n).any fun j => (s2.row i).x j) = true ↔ i < e)) ∧
      (∀ i, e ≤ i → i < a.n → (s2.row i).r = false) := by
  obtain ⟨h1, h2, h3⟩ := innerProduct_some a b s1 circ (some e) ga gb hs hzero h e rfl
  exact ⟨h1, h2, h3, innerProduct_some_rows a b s1 circ (some e) ga gb hs hzero h e rfl⟩

/-- the rank in `OverlapDim` is a property of the two groups: two independent generating sets of `A ∩ B` have the same size -/
theorem overlap_dim_unique (A B : STab) (hg : A.Good) (hn : A.n = B.n) (d d2 : Nat)
    (h : OverlapDim A B d) (h2 : OverlapDim A B d2) : d = d2 := overlapDim_unique A B hg hn d d2 h h2

/-- full statement (kept visible, **false on the current code**): the fidelity of a state with itself is 1 -/
def fidelity_self_statement : Prop :=
  ∀ (a : Tab) (r : Option Nat), (STab.ofTab a).Good → STab.innerProduct a a = .ok r → r = some 0

/-- **Fidelity of a state with itself is 1** (every n; partial: under `hzero`): if `inverse_circuit` returned on the
    state and reached |0…0⟩, then `inner_product` of the state with itself returns, and returns 1.
    Missing for `fidelity_self_statement`: `inverse_circuit` always reaches |0…0⟩ (false: `fidelity_self_statement_false`). -/
theorem fidelity_self_partial (a : Tab) (s1 : STab) (circ : List Gate) (ga : (STab.ofTab a).Good)
    (hs : (STab.ofTab a).inverseCircuit = .ok (s1, circ)) (hzero : s1.isZero = true) :
    STab.innerProduct a a = .ok (some 0) :=
  innerProduct_self a s1 circ ga hs hzero

/-- **`inner_product` returns on every pair of valid states** (every n; no hypothesis on the synthesis reaching |0…0⟩):
    for two tableaux of the same size with real commuting stabilizer halves, if `inverse_circuit` returned on the first
    and the final assert of `canonical_form` passes on the second (its generators are independent), no internal assert of
    `inner_product` fails — the transformed second state again has `n` independent generators and no `−I`, so the
    elimination in `canonical_form` finds `n` pivots. -/
theorem inner_product_returns (a b : Tab) (s1 cb : STab) (circ : List Gate) (ga : (STab.ofTab a).Good)
    (gb : (STab.ofTab b).Good) (hn : a.n = b.n) (hs : (STab.ofTab a).inverseCircuit = .ok (s1, circ))
    (hcb : (STab.ofTab b).canonicalForm = .ok cb) : ∃ r, STab.innerProduct a b = .ok r :=
  innerProduct_total a b s1 cb circ ga gb hn hs hcb

/-- full statement (kept visible, **false on the current code**): fidelity 1 iff same state -/
def fidelity_one_iff_statement : Prop :=
  ∀ (a b : Tab) (r : Option Nat), (STab.ofTab a).Good → (STab.ofTab b).Good → STab.innerProduct a b = .ok r →
    (r = some 0 ↔ ((STab.ofTab a).n = (STab.ofTab b).n ∧ ∀ p, (STab.ofTab a).Spn p ↔ (STab.ofTab b).Spn p))

/-- **Fidelity 1 exactly for equal states** (every n; partial: under `hzero`): `inner_product` reports 1 **iff** the
    two generating sets generate the same signed group. -/
theorem fidelity_one_iff_partial (a b : Tab) (s1 : STab) (circ : List Gate) (r : Option Nat)
    (ga : (STab.ofTab a).Good) (gb : (STab.ofTab b).Good)
    (hs : (STab.ofTab a).inverseCircuit = .ok (s1, circ)) (hzero : s1.isZero = true)
    (h : STab.innerProduct a b = .ok r) :
    r = some 0 ↔ ((STab.ofTab a).n = (STab.ofTab b).n ∧ ∀ p, (STab.ofTab a).Spn p ↔ (STab.ofTab b).Spn p) := by
  rw [innerProduct_one_iff a b s1 circ r ga gb hs hzero h]
  exact ⟨fun s => ⟨s.n_eq, fun p => ⟨s.sub p, s.sup p⟩⟩, fun s => ⟨s.1, fun p => (s.2 p).1, fun p => (s.2 p).2⟩⟩

/-- full statement (kept visible, **false on the current code**: D42 breaks it as soon as one of the two syntheses fails) -/
def fidelity_symmetric_statement : Prop :=
  ∀ (a b : Tab) (rab rba : Option Nat), (STab.ofTab a).Good → (STab.ofTab b).Good →
    STab.innerProduct a b = .ok rab → STab.innerProduct b a = .ok rba → rab = rba

/-- **A zero result does not depend on the argument order** (every n; partial: when both syntheses reached |0…0⟩). -/
theorem fidelity_symmetric_zero_partial (a b : Tab) (sa sb : STab) (ca cb : List Gate) (rab rba : Option Nat)
    (ga : (STab.ofTab a).Good) (gb : (STab.ofTab b).Good)
    (hsa : (STab.ofTab a).inverseCircuit = .ok (sa, ca)) (hza : sa.isZero = true)
    (hsb : (STab.ofTab b).inverseCircuit = .ok (sb, cb)) (hzb : sb.isZero = true)
    (hab : STab.innerProduct a b = .ok rab) (hba : STab.innerProduct b a = .ok rba) : rab = none ↔ rba = none := by
  rw [innerProduct_none_iff a b sa ca rab ga gb hsa hza hab, innerProduct_none_iff b a sb cb rba gb ga hsb hzb hba]
  exact orth_comm _ _

/-- **The fidelity is symmetric** (every n; partial: when both syntheses reached |0…0⟩): the two argument orders report
    the same value — `Orth` is symmetric, and the rank of `A ∩ B` is symmetric and unique. -/
theorem fidelity_symmetric_partial (a b : Tab) (sa sb : STab) (ca cb : List Gate) (rab rba : Option Nat)
    (ga : (STab.ofTab a).Good) (gb : (STab.ofTab b).Good)
    (hsa : (STab.ofTab a).inverseCircuit = .ok (sa, ca)) (hza : sa.isZero = true)
    (hsb : (STab.ofTab b).inverseCircuit = .ok (sb, cb)) (hzb : sb.isZero = true)
    (hab : STab.innerProduct a b = .ok rab) (hba : STab.innerProduct b a = .ok rba) : rab = rba :=
  innerProduct_symm a b sa sb ca cb rab rba ga gb hsa hza hsb hzb hab hba

/-- **The executable specification is exact** (every n): the brute-force test `STab.orthB` (driver command `stab.overlap`,
    which the correspondence harness compares with the *real* `fidelity` on every pair with n ≤ 3) decides `Orth`, and the
    membership test behind its count `STab.commonCount` decides "this subset product of `a`'s rows lies in the group of
    `b`" — so the predicates the fidelity theorems speak about are themselves checked against the code's values.
    (That the count equals `2^dim(A ∩ B)` for independent generators is the textbook `|A ∩ B| = 2^dim`; not proved.) -/
theorem overlap_spec_checker_exact (a b : STab) (ga : a.Good) (gb : b.Good) (hn : a.n = b.n) :
    (a.orthB b = true ↔ Orth a b) ∧ ∀ ma, (a.commonB b ma = true ↔ b.Spn (mprod a.n a.row ma a.n)) :=
  ⟨orthB_iff a b ga gb hn, commonB_iff a b gb hn⟩

/-! ### Non-vacuity -/
def bellMinus : STab :=   -- generators −XX, ZZ in the gauge (−XX·ZZ = YY, ZZ):  YY, ZZ
  STab.ofRows 2 #[
    PRow.ofArrays #[true,true] #[true,true] false false,
    PRow.ofArrays #[false,false] #[true,true] false false]

example : (match bellMinus.canonicalForm with | .ok c => c.n == 2 | .error _ => false) = true := by decide
example : (List.range 2).all (fun i => (bellMinus.row i).ip == false &&
    (List.range 2).all fun k => PRow.sp 2 (bellMinus.row i) (bellMinus.row k) == false) = true := by decide

/-- the same state from another generating set: −XX, ZZ -/
def bellMinusXX : STab :=
  STab.ofRows 2 #[
    PRow.ofArrays #[true,true] #[false,false] true false,
    PRow.ofArrays #[false,false] #[true,true] false false]

theorem good2 (t : STab) (hn : t.n = 2)
    (h : (List.range 2).all (fun i => (t.row i).ip == false &&
      (List.range 2).all fun k => PRow.sp 2 (t.row i) (t.row k) == false) = true) : t.Good := by
  simp only [List.all_eq_true, List.mem_range, Bool.and_eq_true, beq_iff_eq] at h
  constructor
  · intro i hi; exact (h i (hn ▸ hi)).1
  · intro i k hi hk; rw [hn]; exact (h i (hn ▸ hi)).2 k (hn ▸ hk)

theorem bellMinus_good : bellMinus.Good := good2 _ rfl (by decide)
theorem bellMinusXX_good : bellMinusXX.Good := good2 _ rfl (by decide)

/-- `YY, ZZ` and `−XX, ZZ` generate the same signed group (`−XX = YY · ZZ`, `YY = −XX · ZZ`) -/
theorem bell_spanEq : SpanEq bellMinus bellMinusXX := by
  apply spanEq_of_gens bellMinus bellMinusXX rfl
  · intro i hi
    have : i = 0 ∨ i = 1 := by have : i < 2 := hi; omega
    rcases this with rfl | rfl
    · exact InSpan.eqv _ _ (InSpan.mul _ _ (spn_gen bellMinus 0 (by decide)) (spn_gen bellMinus 1 (by decide)))
        (beqOn_eqOn _ _ _ (by decide))
    · exact InSpan.eqv _ _ (spn_gen bellMinus 1 (by decide)) (beqOn_eqOn _ _ _ (by decide))
  · intro i hi
    have : i = 0 ∨ i = 1 := by have : i < 2 := hi; omega
    rcases this with rfl | rfl
    · exact InSpan.eqv _ _ (InSpan.mul _ _ (spn_gen bellMinusXX 0 (by decide)) (spn_gen bellMinusXX 1 (by decide)))
        (beqOn_eqOn _ _ _ (by decide))
    · exact InSpan.eqv _ _ (spn_gen bellMinusXX 1 (by decide)) (beqOn_eqOn _ _ _ (by decide))

/-- the checker accepts a non-trivial tableau (−XX, ZZ) and rejects a non-reduced one (YY, ZZ) -/
example : bellMinusXX.isCanon = true ∧ bellMinus.isCanon = false := by decide

theorem canonicalForm_ok (t : STab) (h : t.canonLoops.2 = t.n) : t.canonicalForm = .ok t.canonLoops.1 := by
  unfold canonicalForm; rw [if_pos h]

/-- the hypotheses of `canonical_form_is_normal_form` / `equality_exact` / `canon_shape_unique` /
    `canonical_form_returns_canon` are met by two *different* generating sets of one state on which `canonical_form`
    returns (so the conclusion `SameRows ca cb` is not the trivial reflexive one) -/
example : ∃ a b ca cb : STab, a.Good ∧ b.Good ∧ (a.n = b.n ∧ ∀ p, a.Spn p ↔ b.Spn p) ∧
    a.canonicalForm = .ok ca ∧ b.canonicalForm = .ok cb ∧ ¬ SameRows a b ∧
    STab.Canon ca ∧ STab.Canon cb ∧ ca.Good ∧ cb.Good ∧ SameRows ca cb := by
  have h1 := canonicalForm_ok bellMinus (by decide)
  have h2 := canonicalForm_ok bellMinusXX (by decide)
  have hs : bellMinus.n = bellMinusXX.n ∧ ∀ p, bellMinus.Spn p ↔ bellMinusXX.Spn p :=
    ⟨rfl, fun p => ⟨bell_spanEq.sub p, bell_spanEq.sup p⟩⟩
  refine ⟨bellMinus, bellMinusXX, _, _, bellMinus_good, bellMinusXX_good, hs, h1, h2, ?_,
    canonical_form_returns_canon _ _ h1, canonical_form_returns_canon _ _ h2,
    (canonicalForm_spanEq _ _ bellMinus_good h1).2, (canonicalForm_spanEq _ _ bellMinusXX_good h2).2,
    canonical_form_is_normal_form _ _ _ _ bellMinus_good bellMinusXX_good hs h1 h2⟩
  intro h
  have := (h.2 0 (by decide)).2.1
  revert this
  decide

/-! ### Non-vacuity of the fidelity theorems -/

/-- a real commuting stabilizer half, from a Boolean evaluation -/
theorem good_of_check (t : STab)
    (h : (List.range t.n).all (fun i => (t.row i).ip == false &&
      (List.range t.n).all fun k => PRow.sp t.n (t.row i) (t.row k) == false) = true) : t.Good := by
  simp only [List.all_eq_true, List.mem_range, Bool.and_eq_true, beq_iff_eq] at h
  exact ⟨fun i hi => (h i hi).1, fun i k hi hk => (h i hi).2 k hk⟩

/-- Clifford tableaux (destabilizers X_i resp. Z_i) of (XX, ZZ), (−XX, ZZ) and (Z_0, Z_1) -/
def bellPlusTab : Tab := Tab.ofRows 2 #[PRow.Zq 0, PRow.Xq 1,
    PRow.ofArrays #[true,true] #[false,false] false false,
    PRow.ofArrays #[false,false] #[true,true] false false]
def bellMinusTab : Tab := Tab.ofRows 2 #[PRow.Zq 0, PRow.Xq 1,
    PRow.ofArrays #[true,true] #[false,false] true false,
    PRow.ofArrays #[false,false] #[true,true] false false]
def ket00Tab : Tab := Tab.ofRows 2 #[PRow.Xq 0, PRow.Xq 1,
    PRow.ofArrays #[false,false] #[true,false] false false,
    PRow.ofArrays #[false,false] #[false,true] false false]

/-- the pair `inverse_circuit` returns (the input with an empty list where it raises) -/
def invOut (t : STab) : STab × List Gate :=
  match t.inverseCircuit with
  | .ok p => p
  | .error _ => (t, [])

theorem inverseCircuit_ok (t : STab)
    (h : (match t.inverseCircuit with | .ok _ => true | .error _ => false) = true) :
    t.inverseCircuit = .ok ((invOut t).1, (invOut t).2) := by
  unfold invOut
  cases hx : t.inverseCircuit with
  | error e => rw [hx] at h; cases h
  | ok p => rfl

/-- the hypotheses of the fidelity theorems are met by concrete pairs, with all three kinds of result:
    Φ⁺ against Φ⁻ (orthogonal: result 0), Φ⁺ against |00⟩ (overlap 1/√2: `some 1`), Φ⁺ against itself (`some 0`);
    the syntheses of Φ⁺ and of |00⟩ reach |0…0⟩ -/
example : ∃ s1 circ, (STab.ofTab bellPlusTab).Good ∧ (STab.ofTab bellMinusTab).Good ∧ (STab.ofTab ket00Tab).Good ∧
    (STab.ofTab bellPlusTab).inverseCircuit = .ok (s1, circ) ∧ s1.isZero = true ∧ 0 < circ.length ∧
    STab.innerProduct bellPlusTab bellMinusTab = .ok none ∧
    STab.innerProduct bellPlusTab ket00Tab = .ok (some 1) ∧
    STab.innerProduct bellPlusTab bellPlusTab = .ok (some 0) :=
  ⟨_, _, good_of_check _ (by decide), good_of_check _ (by decide), good_of_check _ (by decide),
    inverseCircuit_ok _ (by decide +kernel), by decide +kernel, by decide +kernel,
    ok_of_check _ _ (by decide +kernel), ok_of_check _ _ (by decide +kernel), ok_of_check _ _ (by decide +kernel)⟩

/-- … and in the other argument order (hypotheses of `fidelity_symmetric_partial`) -/
example : ∃ s1 circ, (STab.ofTab ket00Tab).inverseCircuit = .ok (s1, circ) ∧ s1.isZero = true ∧
    STab.innerProduct ket00Tab bellPlusTab = .ok (some 1) :=
  ⟨_, _, inverseCircuit_ok _ (by decide +kernel), by decide +kernel, ok_of_check _ _ (by decide +kernel)⟩

/-- so the two groups of Φ⁺ and Φ⁻ do contain a Pauli with opposite signs (here `XX` and `−XX`), and those of Φ⁺ and
    |00⟩ share a subgroup of rank 1 (generated by `ZZ`) — consequences of the theorems, not evaluations -/
example : Orth (STab.ofTab bellPlusTab) (STab.ofTab bellMinusTab) ∧ OverlapDim (STab.ofTab bellPlusTab) (STab.ofTab ket00Tab) 1 := by
  have hs := inverseCircuit_ok (STab.ofTab bellPlusTab) (by decide +kernel)
  have hz : (invOut (STab.ofTab bellPlusTab)).1.isZero = true := by decide +kernel
  have g1 : (STab.ofTab bellPlusTab).Good := good_of_check _ (by decide)
  have g2 : (STab.ofTab bellMinusTab).Good := good_of_check _ (by decide)
  have g3 : (STab.ofTab ket00Tab).Good := good_of_check _ (by decide)
  exact ⟨(inner_product_zero_iff_partial _ _ _ _ _ g1 g2 hs hz (ok_of_check _ _ (by decide +kernel))).1 rfl,
    (inner_product_exponent_partial _ _ _ _ 1 g1 g3 hs hz (ok_of_check _ _ (by decide +kernel))).2.2.1⟩

/-- the hypotheses of `inner_product_returns` (second argument: `canonical_form` returns) and of
    `overlap_spec_checker_exact`, which here evaluates to: orthogonal, two common elements with |00⟩ -/
example : (∃ cb, (STab.ofTab bellMinusTab).canonicalForm = .ok cb) ∧
    (STab.ofTab bellPlusTab).orthB (STab.ofTab bellMinusTab) = true ∧
    (STab.ofTab bellPlusTab).commonCount (STab.ofTab ket00Tab) = 2 :=
  ⟨⟨_, canonicalForm_ok _ (by decide)⟩, by decide +kernel, by decide +kernel⟩

/-- the witness of the repaired defect D42 (`C11.d42`: −XIYXI, −IXXZZ, IIZZX, −ZIIZI, IZZZI) as a Clifford tableau
    (the destabilizer half is not read by `inner_product` on its first argument) -/
def d42Tab : Tab := Tab.ofRows 5 #[PRow.one, PRow.one, PRow.one, PRow.one, PRow.one,
    PRow.ofArrays #[true,false,true,true,false] #[false,false,true,false,false] true false,
    PRow.ofArrays #[false,true,true,false,false] #[false,false,false,true,true] true false,
    PRow.ofArrays #[false,false,false,false,true] #[false,false,true,true,false] false false,
    PRow.ofArrays #[false,false,false,false,false] #[true,false,false,true,false] true false,
    PRow.ofArrays #[false,false,false,false,false] #[false,true,true,true,false] false false]

/-- **Regression for D42** (kernel-checked): on the 5-qubit state for which `inverse_circuit` (before graphiq commit
    74abae4) did not reach |0…0⟩ and `inner_product` reported `2^{-1/2}` (fidelity 1/2) for the state with itself, the
    repaired synthesis reaches |0…0⟩ and the fidelity of the state with itself is 1. -/
theorem d42_witness_now_synthesised :
    (STab.ofTab d42Tab).Good ∧ (invOut (STab.ofTab d42Tab)).1.isZero = true ∧
    STab.innerProduct d42Tab d42Tab = .ok (some 0) :=
  ⟨good_of_check _ (by decide +kernel), by decide +kernel, ok_of_check _ _ (by decide +kernel)⟩

end Graphiq.C05
